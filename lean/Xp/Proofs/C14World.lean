import Xp.Model.C14World
import Xp.Proofs.C14
set_option linter.unusedSimpArgs false
set_option linter.unusedVariables false
/-
Helper lemmas for C14 in the world of Model/C14World.lean (lagging cache, other clients,
error classes):

* `runW_fresh` / `reachW_fresh`: fresh cache + nobody else + plain fault plan = `Xp.run sem`;
* `IssuesW` / `ownW_issues`: what a program can EVER issue, whatever it is answered - used for
  the clauses that hold in every world (history GC relative to the list the reconciler was
  served; no revision write without a resolved name);
* `TriA`: a rely/guarantee Hoare calculus over every schedule (every error class, other clients
  obeying a rely before every call) and the symbolic execution of the reconciler in it.
-/
namespace Xp.C14

/-! ### fresh cache, nobody else, plain fault plan: `Xp.run sem` -/

/-- nothing distinguishes this world from the plain one: fresh cache, nothing moved on -/
def FreshW (w : World) : Prop := w.view.revs = none ∧ w.view.pkg = none ∧ w.dirty = [] ∧ w.pkgDirty = false

theorem FreshW_fresh (s : Store) : FreshW (World.fresh s) := ⟨rfl, rfl, rfl, rfl⟩

theorem exec_getPkg_store (s : Store) (n : String) : (exec s (.getPkg n)).1 = s := by
  simp only [exec]; split <;> (try split) <;> rfl

theorem exec_getRev (s : Store) (n : String) :
    exec s (.getRev n) = (s, match findRev n s.revs with | some r => .rev r | none => .err .notFound) := by
  simp only [exec]; split <;> simp_all

theorem execW_fresh (w : World) (r : Req) (h : FreshW w) :
    (execW w r).1.live = (exec w.live r).1 ∧ (execW w r).2 = (exec w.live r).2 ∧ FreshW (execW w r).1 := by
  obtain ⟨h1, h2, h3, h4⟩ := h
  cases r with
  | getPkg n => simp [execW, FreshW, h1, h2, h3, h4, exec_getPkg_store]
  | statusPkg n st => simp [execW, liftW, FreshW, h1, h2, h3, h4]
  | listRevs par => simp [execW, cachedRevs, FreshW, h1, h2, h3, h4, exec]
  | listImageConfigs => simp [execW, FreshW, h1, h2, h3, h4, exec]
  | getRev n =>
    simp only [execW, cachedRevs, h1, Option.getD_none, exec_getRev]
    cases findRev n w.live.revs <;> simp [FreshW, h1, h2, h3, h4]
  | createRev d b =>
    simp only [execW, wrote, liftW]
    split <;> simp [FreshW, undirty, h1, h2, h3, h4]
  | patchRev d =>
    simp only [execW]
    cases hf : findRev d.name w.live.revs with
    | none => simp [exec, hf, FreshW, h1, h2, h3, h4]
    | some c =>
      simp only [h3, List.not_mem_nil, and_false, if_false, wrote, liftW]
      split <;> simp [FreshW, undirty, h1, h2, h3, h4]
  | updateRev d =>
    simp only [execW]
    cases hf : findRev d.name w.live.revs with
    | none => simp [exec, hf, FreshW, h1, h2, h3, h4]
    | some c =>
      simp only [h3, List.not_mem_nil, if_false, wrote, liftW]
      split <;> simp [FreshW, undirty, h1, h2, h3, h4]
  | deleteRev n => simp [execW, liftW, FreshW, h1, h2, h3, h4]
  | env a => simp [execW, liftW, FreshW, h1, h2, h3, h4]

variable {α : Type}
section eqns
variable (sc : Sched) (k : Nat) (r : Req) (c : Resp → P α) (w : World)
theorem runW_ok (h : sc.out k = .ok) : runW sc k (.call r c) w =
    runW sc (k+1) (c (execW (sc.env k w) r).2) (execW (sc.env k w) r).1 := by simp [runW, h]
theorem runW_fail (e : Err) (h : sc.out k = .fail e) : runW sc k (.call r c) w =
    runW sc (k+1) (c (failResp e r)) (sc.env k w) := by simp [runW, h]
theorem runW_crashBefore (h : sc.out k = .crashBefore) : runW sc k (.call r c) w = (sc.env k w, none) := by simp [runW, h]
theorem runW_crashAfter (h : sc.out k = .crashAfter) : runW sc k (.call r c) w = ((execW (sc.env k w) r).1, none) := by simp [runW, h]
theorem reachW_ok (h : sc.out k = .ok) : reachW sc k (.call r c) w =
    w :: sc.env k w :: reachW sc (k+1) (c (execW (sc.env k w) r).2) (execW (sc.env k w) r).1 := by simp [reachW, h]
theorem reachW_fail (e : Err) (h : sc.out k = .fail e) : reachW sc k (.call r c) w =
    w :: reachW sc (k+1) (c (failResp e r)) (sc.env k w) := by simp [reachW, h]
theorem reachW_crashBefore (h : sc.out k = .crashBefore) : reachW sc k (.call r c) w = [w, sc.env k w] := by simp [reachW, h]
theorem reachW_crashAfter (h : sc.out k = .crashAfter) : reachW sc k (.call r c) w = [w, sc.env k w, (execW (sc.env k w) r).1] := by simp [reachW, h]
theorem ownW_ok (h : sc.out k = .ok) : ownW sc k (.call r c) w =
    (sc.env k w, r, (execW (sc.env k w) r).2) :: ownW sc (k+1) (c (execW (sc.env k w) r).2) (execW (sc.env k w) r).1 := by simp [ownW, h]
theorem ownW_fail (e : Err) (h : sc.out k = .fail e) : ownW sc k (.call r c) w =
    ownW sc (k+1) (c (failResp e r)) (sc.env k w) := by simp [ownW, h]
theorem ownW_crashBefore (h : sc.out k = .crashBefore) : ownW sc k (.call r c) w = [] := by simp [ownW, h]
theorem ownW_crashAfter (h : sc.out k = .crashAfter) : ownW sc k (.call r c) w = [(sc.env k w, r, (execW (sc.env k w) r).2)] := by simp [ownW, h]
theorem heardW_ok (h : sc.out k = .ok) : heardW sc k (.call r c) w =
    (r, (execW (sc.env k w) r).2) :: heardW sc (k+1) (c (execW (sc.env k w) r).2) (execW (sc.env k w) r).1 := by simp [heardW, h]
theorem heardW_fail (e : Err) (h : sc.out k = .fail e) : heardW sc k (.call r c) w =
    (r, failResp e r) :: heardW sc (k+1) (c (failResp e r)) (sc.env k w) := by simp [heardW, h]
theorem heardW_crashBefore (h : sc.out k = .crashBefore) : heardW sc k (.call r c) w = [] := by simp [heardW, h]
theorem heardW_crashAfter (h : sc.out k = .crashAfter) : heardW sc k (.call r c) w = [] := by simp [heardW, h]
end eqns

theorem failResp_other (r : Req) : failResp .other r = errResp .fail r := by
  simp [failResp, errResp]

theorem failResp_conflict (r : Req) : failResp .conflict r = errResp .conflict r := by
  unfold failResp errResp
  cases h : isWrite r <;> simp [h]

theorem ofPlan_env (plan : Plan) (k : Nat) (w : World) : (Sched.ofPlan plan).env k w = w := rfl

theorem runW_fresh (plan : Plan) (k : Nat) (p : P α) (w : World) (h : FreshW w) :
    (runW (Sched.ofPlan plan) k p w).1.live = (run sem plan k p w.live).1 ∧
    (runW (Sched.ofPlan plan) k p w).2 = (run sem plan k p w.live).2 := by
  induction p generalizing k w with
  | ret a => exact ⟨rfl, rfl⟩
  | call r c ih =>
    obtain ⟨e1, e2, e3⟩ := execW_fresh w r h
    cases hk : plan k with
    | ok =>
      have ho : (Sched.ofPlan plan).out k = .ok := by simp [Sched.ofPlan, hk]
      rw [runW_ok _ _ _ _ _ ho, ofPlan_env]
      have hr : run sem plan k (.call r c) w.live = run sem plan (k+1) (c (exec w.live r).2) (exec w.live r).1 := by
        simp [Xp.run, hk, sem]
      rw [hr, ← e1, ← e2]
      exact ih _ (k+1) _ e3
    | fail =>
      have ho : (Sched.ofPlan plan).out k = .fail .other := by simp [Sched.ofPlan, hk]
      rw [runW_fail _ _ _ _ _ _ ho, ofPlan_env, failResp_other]
      have hr : run sem plan k (.call r c) w.live = run sem plan (k+1) (c (errResp .fail r)) w.live := by
        simp [Xp.run, hk, sem]
      rw [hr]
      exact ih _ (k+1) _ h
    | conflict =>
      have ho : (Sched.ofPlan plan).out k = .fail .conflict := by simp [Sched.ofPlan, hk]
      rw [runW_fail _ _ _ _ _ _ ho, ofPlan_env, failResp_conflict]
      have hr : run sem plan k (.call r c) w.live = run sem plan (k+1) (c (errResp .conflict r)) w.live := by
        simp [Xp.run, hk, sem]
      rw [hr]
      exact ih _ (k+1) _ h
    | crashBefore =>
      have ho : (Sched.ofPlan plan).out k = .crashBefore := by simp [Sched.ofPlan, hk]
      rw [runW_crashBefore _ _ _ _ _ ho, ofPlan_env]
      simp [Xp.run, hk]
    | crashAfter =>
      have ho : (Sched.ofPlan plan).out k = .crashAfter := by simp [Sched.ofPlan, hk]
      rw [runW_crashAfter _ _ _ _ _ ho, ofPlan_env]
      simp [Xp.run, hk, sem, e1]

theorem reachW_fresh (plan : Plan) (k : Nat) (p : P α) (w : World) (h : FreshW w) :
    ∀ w' ∈ reachW (Sched.ofPlan plan) k p w, w'.live ∈ reach sem plan k p w.live := by
  induction p generalizing k w with
  | ret a => intro w' hm; simp [reachW] at hm; subst hm; simp [Xp.reach]
  | call r c ih =>
    obtain ⟨e1, e2, e3⟩ := execW_fresh w r h
    intro w' hm
    cases hk : plan k with
    | ok =>
      have ho : (Sched.ofPlan plan).out k = .ok := by simp [Sched.ofPlan, hk]
      rw [reachW_ok _ _ _ _ _ ho, ofPlan_env] at hm
      have hr : reach sem plan k (.call r c) w.live = w.live :: reach sem plan (k+1) (c (exec w.live r).2) (exec w.live r).1 := by
        simp [Xp.reach, hk, sem]
      rw [hr]
      simp only [List.mem_cons] at hm ⊢
      rcases hm with hm | hm | hm
      · subst hm; exact .inl rfl
      · subst hm; exact .inl rfl
      · have := ih _ (k+1) _ e3 w' hm
        rw [e1, e2] at this
        exact .inr this
    | fail =>
      have ho : (Sched.ofPlan plan).out k = .fail .other := by simp [Sched.ofPlan, hk]
      rw [reachW_fail _ _ _ _ _ _ ho, ofPlan_env, failResp_other] at hm
      have hr : reach sem plan k (.call r c) w.live = reach sem plan (k+1) (c (errResp .fail r)) w.live := by
        simp [Xp.reach, hk, sem]
      rw [hr]
      rcases List.mem_cons.mp hm with hm | hm
      · subst hm
        obtain ⟨l, hl⟩ := start_mem_reach sem plan (k+1) (c (errResp .fail r)) w'.live
        rw [hl]; exact List.mem_cons_self
      · exact ih _ (k+1) w h w' hm
    | conflict =>
      have ho : (Sched.ofPlan plan).out k = .fail .conflict := by simp [Sched.ofPlan, hk]
      rw [reachW_fail _ _ _ _ _ _ ho, ofPlan_env, failResp_conflict] at hm
      have hr : reach sem plan k (.call r c) w.live = reach sem plan (k+1) (c (errResp .conflict r)) w.live := by
        simp [Xp.reach, hk, sem]
      rw [hr]
      rcases List.mem_cons.mp hm with hm | hm
      · subst hm
        obtain ⟨l, hl⟩ := start_mem_reach sem plan (k+1) (c (errResp .conflict r)) w'.live
        rw [hl]; exact List.mem_cons_self
      · exact ih _ (k+1) w h w' hm
    | crashBefore =>
      have ho : (Sched.ofPlan plan).out k = .crashBefore := by simp [Sched.ofPlan, hk]
      rw [reachW_crashBefore _ _ _ _ _ ho, ofPlan_env] at hm
      simp only [List.mem_cons, List.not_mem_nil, or_false, or_self] at hm
      subst hm
      simp [Xp.reach, hk]
    | crashAfter =>
      have ho : (Sched.ofPlan plan).out k = .crashAfter := by simp [Sched.ofPlan, hk]
      rw [reachW_crashAfter _ _ _ _ _ ho, ofPlan_env] at hm
      simp only [List.mem_cons, List.not_mem_nil, or_false] at hm
      rcases hm with hm | hm | hm
      · subst hm; simp [Xp.reach, hk]
      · subst hm; simp [Xp.reach, hk]
      · subst hm; simp [Xp.reach, hk, sem, e1]

variable {β : Type}

/-! ### what a program can ever issue, whatever it is answered -/

theorem ownW_issues (Q : Req → Prop) (sc : Sched) (k : Nat) (p : P α) (hp : Issues Q p) (w : World) :
    ∀ x ∈ ownW sc k p w, Q x.2.1 := by
  induction hp generalizing k w with
  | ret a => intro x h; simp [ownW] at h
  | call r c hq _ ih =>
    intro x h
    cases ho : sc.out k with
    | ok =>
      rw [ownW_ok _ _ _ _ _ ho] at h
      rcases List.mem_cons.mp h with e | h'
      · subst e; exact hq
      · exact ih _ _ _ x h'
    | fail e => rw [ownW_fail _ _ _ _ _ e ho] at h; exact ih _ _ _ x h
    | crashBefore => rw [ownW_crashBefore _ _ _ _ _ ho] at h; simp at h
    | crashAfter =>
      rw [ownW_crashAfter _ _ _ _ _ ho] at h
      simp at h; subst h; exact hq

/-- an own call of `.call r c` is `r` itself or an own call of the continuation on the reply heard -/
theorem ownW_call (sc : Sched) (k : Nat) (r : Req) (c : Resp → P α) (w : World) (x : World × Req × Resp)
    (h : x ∈ ownW sc k (.call r c) w) :
    x.2.1 = r ∨ ∃ resp w', x ∈ ownW sc (k+1) (c resp) w' ∧
      heardW sc k (.call r c) w = (r, resp) :: heardW sc (k+1) (c resp) w' := by
  cases ho : sc.out k with
  | ok =>
    rw [ownW_ok _ _ _ _ _ ho] at h
    rcases List.mem_cons.mp h with e | h'
    · subst e; exact .inl rfl
    · exact .inr ⟨_, _, h', heardW_ok _ _ _ _ _ ho⟩
  | fail e =>
    rw [ownW_fail _ _ _ _ _ e ho] at h
    exact .inr ⟨_, _, h, heardW_fail _ _ _ _ _ e ho⟩
  | crashBefore => rw [ownW_crashBefore _ _ _ _ _ ho] at h; simp at h
  | crashAfter =>
    rw [ownW_crashAfter _ _ _ _ _ ho] at h
    simp at h; subst h; exact .inl rfl

theorem Issues.bindG {Q : Req → Prop} {p : P α} {f : α → P β} (hp : Issues Q p) (hf : ∀ a, Issues Q (f a)) :
    Issues Q (Prog.bind p f) := by
  induction hp with
  | ret a => exact hf a
  | call r c hq _ ih => exact .call r _ hq (fun x => ih x)

/-- requests other than Delete are allowed by `Q` -/
def NoDelOk (Q : Req → Prop) : Prop :=
  (∀ n, Q (.getRev n)) ∧ (∀ d, Q (.patchRev d)) ∧ (∀ d b, Q (.createRev d b)) ∧ (∀ d, Q (.updateRev d)) ∧
  (∀ n st, Q (.statusPkg n st)) ∧ Q .listImageConfigs

theorem Rdel_noDel (vic : Option String) : NoDelOk (Rdel vic) :=
  ⟨Rdel_get vic, Rdel_patch vic, Rdel_create vic, Rdel_update vic, Rdel_status vic, fun _ e => by cases e⟩

theorem applyRev_issuesG {Q : Req → Prop} (hQ : NoDelOk Q) (d : Rev) (b : Bool) (uid : String) :
    Issues Q (applyRev d b uid) := by
  obtain ⟨h1, h2, h3, _, _, _⟩ := hQ
  unfold applyRev
  refine .call _ _ (h1 _) ?_
  intro x
  cases x with
  | rev cur =>
    show Issues Q (if controllable cur uid then _ else _)
    split
    · exact .call _ _ (h2 _) (fun _ => .ret _)
    · exact .ret _
  | err e =>
    cases e with
    | notFound => exact .call _ _ (h3 _ _) (fun _ => .ret _)
    | conflict => exact .ret _
    | other => exact .ret _
  | pkg p => exact .ret _
  | revs l => exact .ret _
  | ok => exact .ret _

theorem deactLoop_issuesG {Q : Req → Prop} (hQ : NoDelOk Q) (uid cur : String) (l : List Rev) :
    Issues Q (deactLoop uid cur l) := by
  induction l with
  | nil => exact .ret _
  | cons r rest ih =>
    unfold deactLoop
    split
    · exact ih
    · split
      · apply Issues.bindG (applyRev_issuesG hQ _ _ _)
        intro a
        cases a with
        | ok _ => exact ih
        | conflict => exact .ret _
        | err => exact .ret _
      · exact ih

theorem finishStatus_issuesG {Q : Req → Prop} (hQ : NoDelOk Q) (p : Pkg) (cur : String) : Issues Q (finishStatus p cur) := by
  unfold finishStatus
  refine .call _ _ (hQ.2.2.2.2.1 _ _) ?_
  intro x; cases x <;> exact .ret _

theorem applyCurrent_issuesG {Q : Req → Prop} (hQ : NoDelOk Q) (p : Pkg) (cur : String) (listed : List Rev) :
    Issues Q (applyCurrent p cur listed) := by
  unfold applyCurrent
  apply Issues.bindG (applyRev_issuesG hQ _ _ _)
  intro a
  cases a with
  | conflict => exact .ret _
  | err => exact .ret _
  | ok pr =>
    show Issues Q (if pr.labels = p.spec.labels then _ else _)
    split
    · exact finishStatus_issuesG hQ p cur
    · refine .call _ _ (hQ.2.2.2.1 _) ?_
      intro x
      cases x with
      | rev _ => exact finishStatus_issuesG hQ p cur
      | err e => cases e <;> exact .ret _
      | pkg _ => exact .ret _
      | revs _ => exact .ret _
      | ok => exact .ret _

/-- whatever it is answered, the only Delete `stage2With victim` ever issues is `victim` -/
theorem stage2With_issuesG (victim : Option Rev) (p : Pkg) (cur : String) (listed : List Rev) :
    Issues (Rdel (victim.map Rev.name)) (stage2With victim p cur listed) := by
  have hQ := Rdel_noDel (victim.map Rev.name)
  unfold stage2With
  apply Issues.bindG (deactLoop_issuesG hQ _ _ _)
  intro a
  cases a with
  | some r => exact .ret _
  | none =>
    cases victim with
    | none => exact applyCurrent_issuesG hQ p cur listed
    | some v =>
      refine .call _ _ (fun n e => by cases e; rfl) ?_
      intro x
      cases x <;> first | exact applyCurrent_issuesG hQ p cur listed | exact .ret _

theorem statusThen_issuesG {Q : Req → Prop} (hQ : NoDelOk Q) (p : Pkg) (r : Res) : Issues Q (statusThen p r) := by
  unfold statusThen
  refine .call _ _ (hQ.2.2.2.2.1 _ _) ?_
  intro x; cases x <;> exact .ret _

/-- the Delete that may follow once the reconciler has been handed package `p` and the list `listed` -/
def vicOfHeard (env : Env) (p : Pkg) (listed : List Rev) : Option String :=
  match revisionName env p with
  | .ok c => if c = "" then none else (gcVictim p.spec.limit c listed).map Rev.name
  | .error _ => none

theorem afterList_issues (env : Env) (p : Pkg) (listed : List Rev) :
    Issues (Rdel (vicOfHeard env p listed)) (afterList false env p listed) := by
  have hQ := Rdel_noDel (vicOfHeard env p listed)
  unfold afterList
  refine .call _ _ hQ.2.2.2.2.2 ?_
  intro x
  have hfail : Issues (Rdel (vicOfHeard env p listed)) ((.call (.statusPkg p.name p.status) fun _ => .ret Res.err : P Res)) :=
    .call _ _ (hQ.2.2.2.2.1 _ _) (fun _ => .ret _)
  cases x with
  | ok =>
    show Issues _ (match revisionName env p with | .error _ => _ | .ok cur => _)
    cases hr : revisionName env p with
    | error u => exact statusThen_issuesG hQ p _
    | ok cur =>
      show Issues _ (if cur = "" then _ else _)
      by_cases hc : cur = ""
      · rw [if_pos hc]; exact statusThen_issuesG hQ p _
      · rw [if_neg hc]
        have hv : vicOfHeard env p listed = (gcVictim p.spec.limit cur listed).map Rev.name := by
          simp [vicOfHeard, hr, hc]
        rw [hv]
        exact stage2With_issuesG _ p cur listed
  | err e => exact hfail
  | pkg _ => exact hfail
  | revs _ => exact hfail
  | rev _ => exact hfail

/-- a reconcile that resolved no name (the revisioner failed, or answered "") issues no revision write -/
theorem afterList_noname_issues (env : Env) (p : Pkg) (listed : List Rev)
    (h : ∀ cur, revisionName env p = .ok cur → cur = "") :
    Issues (fun r => isRevWrite r = false) (afterList false env p listed) := by
  unfold afterList
  refine .call _ _ rfl ?_
  intro x
  have hfail : Issues (fun r => isRevWrite r = false) ((.call (.statusPkg p.name p.status) fun _ => .ret Res.err : P Res)) :=
    .call _ _ rfl (fun _ => .ret _)
  have hst : ∀ r, Issues (fun r => isRevWrite r = false) (statusThen p r) := by
    intro r; unfold statusThen
    refine .call _ _ rfl ?_
    intro x; cases x <;> exact .ret _
  cases x with
  | ok =>
    show Issues _ (match revisionName env p with | .error _ => _ | .ok cur => _)
    cases hr : revisionName env p with
    | error u => exact hst _
    | ok cur =>
      show Issues _ (if cur = "" then _ else _)
      rw [if_pos (h cur hr)]; exact hst _
  | err e => exact hfail
  | pkg _ => exact hfail
  | revs _ => exact hfail
  | rev _ => exact hfail

/-- what the reconciler was told before it decided: the package its Get answered and the revisions
its List answered (a NotFound answer to the List is taken as no revisions) -/
def heardCtx : List (Req × Resp) → Option (Pkg × List Rev)
  | (.getPkg _, .pkg p) :: (.listRevs _, .revs l) :: _ => some (p, l)
  | (.getPkg _, .pkg p) :: (.listRevs _, .err .notFound) :: _ => some (p, [])
  | _ => none

/-- In EVERY world - any cache content, any other clients, any outcome and error class of any
call - an own call of the reconcile that is not the Get of the package, a write of its status or
the List is issued by `afterList p listed`, where `(p, listed)` is what the reconciler was told. -/
theorem reconcile_own_after (env : Env) (pname : String) (sc : Sched) (w0 : World) (x : World × Req × Resp)
    (hx : x ∈ ownW sc 0 (pkgReconcile env pname) w0) :
    (x.2.1 = .getPkg pname ∨ (∃ st, x.2.1 = .statusPkg pname st) ∨ x.2.1 = .listRevs pname) ∨
    ∃ p listed w2, heardCtx (heardW sc 0 (pkgReconcile env pname) w0) = some (p, listed) ∧
      x ∈ ownW sc 2 (afterList false env p listed) w2 := by
  unfold pkgReconcile reconcileWith at hx ⊢
  rcases ownW_call sc 0 _ _ w0 x hx with e | ⟨resp, w1, h1, hh1⟩
  · exact .inl (.inl e)
  · rw [hh1]
    cases resp with
    | pkg p =>
      simp only [] at h1 ⊢
      by_cases hpa : p.spec.paused = true
      · rw [if_pos hpa] at h1
        rcases ownW_call sc 1 _ _ w1 x h1 with e | ⟨r2, w2, h2, _⟩
        · exact .inl (.inr (.inl ⟨_, e⟩))
        · cases r2 <;> simp [ownW] at h2
      · rw [if_neg hpa] at h1 ⊢
        by_cases hpc : p.status.pausedCond = true
        · rw [if_pos hpc] at h1
          rcases ownW_call sc 1 _ _ w1 x h1 with e | ⟨r2, w2, h2, _⟩
          · exact .inl (.inr (.inl ⟨_, e⟩))
          · cases r2 <;> simp [ownW] at h2
        · rw [if_neg hpc] at h1 ⊢
          rcases ownW_call sc 1 _ _ w1 x h1 with e | ⟨r2, w2, h2, hh2⟩
          · exact .inl (.inr (.inr e))
          · rw [hh2]
            cases r2 with
            | revs l => exact .inr ⟨p, l, w2, rfl, h2⟩
            | err e =>
              cases e with
              | notFound => exact .inr ⟨p, [], w2, rfl, h2⟩
              | conflict => simp [ownW] at h2
              | other => simp [ownW] at h2
            | pkg _ => simp [ownW] at h2
            | rev _ => simp [ownW] at h2
            | ok => simp [ownW] at h2
    | err e => cases e <;> simp [ownW] at h1
    | revs _ => simp [ownW] at h1
    | rev _ => simp [ownW] at h1
    | ok => simp [ownW] at h1

/-- In every world: a Delete the reconcile applies is the collector's victim for the package and
the revision list the reconciler was HANDED. -/
theorem world_delete_is_heard_victim (env : Env) (pname : String) (sc : Sched) (w0 : World)
    (x : World × Req × Resp) (n : String)
    (hx : x ∈ ownW sc 0 (pkgReconcile env pname) w0) (hn : x.2.1 = .deleteRev n) :
    ∃ p listed cur v, heardCtx (heardW sc 0 (pkgReconcile env pname) w0) = some (p, listed) ∧
      revisionName env p = .ok cur ∧ cur ≠ "" ∧ gcVictim p.spec.limit cur listed = some v ∧ v.name = n := by
  rcases reconcile_own_after env pname sc w0 x hx with (e | ⟨st, e⟩ | e) | ⟨p, listed, w2, hc, h2⟩
  · rw [hn] at e; cases e
  · rw [hn] at e; cases e
  · rw [hn] at e; cases e
  · have hv : vicOfHeard env p listed = some n :=
      ownW_issues _ sc 2 _ (afterList_issues env p listed) w2 x h2 n hn
    unfold vicOfHeard at hv
    cases hr : revisionName env p with
    | error u => rw [hr] at hv; simp at hv
    | ok cur =>
      rw [hr] at hv
      simp only [] at hv
      by_cases hce : cur = ""
      · rw [if_pos hce] at hv; simp at hv
      · rw [if_neg hce] at hv
        cases hg : gcVictim p.spec.limit cur listed with
        | none => rw [hg] at hv; simp at hv
        | some v =>
          rw [hg] at hv
          simp only [Option.map_some, Option.some.injEq] at hv
          exact ⟨p, listed, cur, v, hc, hr, hce, hg, hv⟩

/-- In every world: the reconcile writes a revision (create / patch / update / delete) only after
the revisioner resolved a non-empty name for the package the reconciler was handed. -/
theorem world_rev_write_needs_name (env : Env) (pname : String) (sc : Sched) (w0 : World)
    (x : World × Req × Resp)
    (hx : x ∈ ownW sc 0 (pkgReconcile env pname) w0) (hw : isRevWrite x.2.1 = true) :
    ∃ p listed cur, heardCtx (heardW sc 0 (pkgReconcile env pname) w0) = some (p, listed) ∧
      revisionName env p = .ok cur ∧ cur ≠ "" := by
  rcases reconcile_own_after env pname sc w0 x hx with (e | ⟨st, e⟩ | e) | ⟨p, listed, w2, hc, h2⟩
  · rw [e] at hw; cases hw
  · rw [e] at hw; cases hw
  · rw [e] at hw; cases hw
  · refine ⟨p, listed, ?_⟩
    cases hr : revisionName env p with
    | error u =>
      have := ownW_issues _ sc 2 _ (afterList_noname_issues env p listed (by intro c h; rw [hr] at h; cases h)) w2 x h2
      rw [this] at hw; cases hw
    | ok cur =>
      by_cases hce : cur = ""
      · have := ownW_issues _ sc 2 _ (afterList_noname_issues env p listed
            (by intro c h; rw [hr] at h; cases h; exact hce)) w2 x h2
        rw [this] at hw; cases hw
      · exact ⟨cur, hc, rfl, hce⟩

/-! ### a rely/guarantee calculus over every schedule -/

/-- `TriA Rl I Q p w`: running `p` from `w` under ANY schedule - any outcome and error class of
any call, other clients moving the world along `Rl` before every call - every world that becomes
visible satisfies `I`, and if the program returns `a` in world `w'` then `Q w' a`. -/
def TriA (Rl : World → World → Prop) (I : World → Prop) (Q : World → α → Prop) : P α → World → Prop
  | .ret a, w => Q w a
  | .call r c, w => ∀ w', Rl w w' →
      I w' ∧ I (execW w' r).1 ∧ TriA Rl I Q (c (execW w' r).2) (execW w' r).1 ∧
      ∀ e, TriA Rl I Q (c (failResp e r)) w'

theorem TriA.reach {Rl : World → World → Prop} {I : World → Prop} {Q : World → α → Prop}
    (sc : Sched) (henv : ∀ k w, Rl w (sc.env k w)) (k : Nat) (p : P α) (w : World) (hw : I w)
    (h : TriA Rl I Q p w) : ∀ w' ∈ reachW sc k p w, I w' := by
  induction p generalizing k w with
  | ret a => intro w' hm; simp [reachW] at hm; subst hm; exact hw
  | call r c ih =>
    obtain ⟨h1, h2, h3, h4⟩ := h (sc.env k w) (henv k w)
    intro w' hm
    cases ho : sc.out k with
    | ok =>
      rw [reachW_ok _ _ _ _ _ ho] at hm
      simp only [List.mem_cons] at hm
      rcases hm with hm | hm | hm
      · subst hm; exact hw
      · subst hm; exact h1
      · exact ih _ _ _ h2 h3 w' hm
    | fail e =>
      rw [reachW_fail _ _ _ _ _ e ho] at hm
      rcases List.mem_cons.mp hm with hm | hm
      · subst hm; exact hw
      · exact ih _ _ _ h1 (h4 e) w' hm
    | crashBefore =>
      rw [reachW_crashBefore _ _ _ _ _ ho] at hm
      simp only [List.mem_cons, List.not_mem_nil, or_false] at hm
      rcases hm with hm | hm
      · subst hm; exact hw
      · subst hm; exact h1
    | crashAfter =>
      rw [reachW_crashAfter _ _ _ _ _ ho] at hm
      simp only [List.mem_cons, List.not_mem_nil, or_false] at hm
      rcases hm with hm | hm | hm
      · subst hm; exact hw
      · subst hm; exact h1
      · subst hm; exact h2

theorem TriA.bind {Rl : World → World → Prop} {I : World → Prop} {Q' : World → α → Prop} {Q : World → β → Prop}
    (p : P α) (f : α → P β) (w : World) (h : TriA Rl I Q' p w)
    (hf : ∀ w a, Q' w a → TriA Rl I Q (f a) w) : TriA Rl I Q (Prog.bind p f) w := by
  induction p generalizing w with
  | ret a => exact hf _ _ h
  | call r c ih =>
    intro w' hr
    obtain ⟨h1, h2, h3, h4⟩ := h w' hr
    exact ⟨h1, h2, ih _ _ h3, fun e => ih _ _ (h4 e)⟩

/-! ### the world's API server, request by request -/

def patched (a : World) (n : String) (m : Rev) : World :=
  undirty n { a with live := { a.live with revs := setRev m a.live.revs } }

def created (a : World) (n : String) (m : Rev) : World :=
  undirty n { a with live := { a.live with revs := insertRev m a.live.revs } }

theorem execW_getRev (a : World) (n : String) (hf : a.view.revs = none) :
    execW a (.getRev n) = (a, match findRev n a.live.revs with | some r => .rev r | none => .err .notFound) := by
  simp only [execW, cachedRevs, hf, Option.getD_none]
  cases findRev n a.live.revs <;> rfl

theorem execW_patchRev_none (a : World) (d : Rev) (hf : findRev d.name a.live.revs = none) :
    execW a (.patchRev d) = (a, .err .notFound) := by simp [execW, hf]

theorem execW_patchRev_conflict (a : World) (d c : Rev) (hf : findRev d.name a.live.revs = some c)
    (hd : d.name ∈ a.listed ∧ d.name ∈ a.dirty) : execW a (.patchRev d) = (a, .err .conflict) := by
  simp [execW, hf, hd]

theorem execW_patchRev_ok (a : World) (d c : Rev) (hf : findRev d.name a.live.revs = some c)
    (hd : ¬(d.name ∈ a.listed ∧ d.name ∈ a.dirty)) :
    execW a (.patchRev d) = (patched a d.name (mergeRev c d), .rev (mergeRev c d)) := by
  simp only [execW, hf, if_neg hd, wrote, liftW, exec, patched]

theorem execW_createRev_exists (a : World) (d c : Rev) (b : Bool) (hf : findRev d.name a.live.revs = some c) :
    execW a (.createRev d b) = (a, .err .other) := by
  simp [execW, wrote, liftW, exec, hf]

theorem execW_createRev_rv (a : World) (d : Rev) (hf : findRev d.name a.live.revs = none) :
    execW a (.createRev d true) = (a, .err .other) := by
  simp [execW, wrote, liftW, exec, hf]

theorem execW_createRev_ok (a : World) (d : Rev) (hf : findRev d.name a.live.revs = none) :
    execW a (.createRev d false) = (created a d.name { d with deleting := false }, .rev { d with deleting := false }) := by
  simp [execW, wrote, liftW, exec, hf, created]

theorem execW_updateRev_none (a : World) (d : Rev) (hf : findRev d.name a.live.revs = none) :
    execW a (.updateRev d) = (a, .err .notFound) := by simp [execW, hf]

theorem execW_updateRev_conflict (a : World) (d c : Rev) (hf : findRev d.name a.live.revs = some c)
    (hd : d.name ∈ a.dirty) : execW a (.updateRev d) = (a, .err .conflict) := by
  simp [execW, hf, hd]

theorem execW_updateRev_ok (a : World) (d c : Rev) (hf : findRev d.name a.live.revs = some c)
    (hd : ¬ d.name ∈ a.dirty) :
    execW a (.updateRev d) = (patched a d.name { d with deleting := c.deleting }, .rev { d with deleting := c.deleting }) := by
  simp only [execW, hf, if_neg hd, wrote, liftW, exec, patched]

theorem execW_statusPkg_revs (a : World) (n : String) (st : Status) :
    (execW a (.statusPkg n st)).1.live.revs = a.live.revs ∧ (execW a (.statusPkg n st)).1.view = a.view := by
  simp only [execW]
  split
  · exact ⟨rfl, rfl⟩
  · exact ⟨exec_statusPkg_revs _ _ _, rfl⟩

theorem execW_statusPkg_resp (a : World) (n : String) (st : Status) :
    (execW a (.statusPkg n st)).2 = .ok ∨ ∃ e, (execW a (.statusPkg n st)).2 = .err e := by
  simp only [execW]
  split
  · exact .inr ⟨_, rfl⟩
  · rcases exec_statusPkg_resp a.live n st with e | e
    · exact .inl e
    · exact .inr ⟨_, e⟩


theorem failResp_write (e : Err) (r : Req) (h : isWrite r = true) : failResp e r = .err e := by
  simp [failResp, h]

/-! ### symbolic execution of the reconciler under interference -/

section apply
variable {Rl : World → World → Prop} {I : World → Prop} {Q : World → ApplyOut → Prop}
  (F : World → Prop) (d : Rev) (hasRV : Bool)
  (hFst : ∀ a b, F a → Rl a b → F b) (hFI : ∀ a, F a → I a)
  (hpatch : ∀ a c, F a → findRev d.name a.live.revs = some c →
    I (patched a d.name (mergeRev c d)) ∧ Q (patched a d.name (mergeRev c d)) (.ok (mergeRev c d)))
  (hcreate : ∀ a, F a → findRev d.name a.live.revs = none → hasRV = false →
    I (created a d.name { d with deleting := false }) ∧
    Q (created a d.name { d with deleting := false }) (.ok { d with deleting := false }))
  (herr : ∀ a, F a → Q a .err) (hconf : ∀ a, F a → Q a .conflict)
include hFst hFI hpatch herr hconf

theorem patchStep_triA (w : World) (hF : F w) :
    TriA Rl I Q (.call (.patchRev d) fun x => .ret (writeOut x)) w := by
  intro a hr
  have hFa := hFst _ _ hF hr
  refine ⟨hFI a hFa, ?_, ?_, ?_⟩
  · cases hf : findRev d.name a.live.revs with
    | none => rw [execW_patchRev_none a d hf]; exact hFI a hFa
    | some c =>
      by_cases hd : d.name ∈ a.listed ∧ d.name ∈ a.dirty
      · rw [execW_patchRev_conflict a d c hf hd]; exact hFI a hFa
      · rw [execW_patchRev_ok a d c hf hd]; exact (hpatch a c hFa hf).1
  · cases hf : findRev d.name a.live.revs with
    | none => rw [execW_patchRev_none a d hf]; exact herr a hFa
    | some c =>
      by_cases hd : d.name ∈ a.listed ∧ d.name ∈ a.dirty
      · rw [execW_patchRev_conflict a d c hf hd]; exact hconf a hFa
      · rw [execW_patchRev_ok a d c hf hd]; exact (hpatch a c hFa hf).2
  · intro e
    rw [failResp_write e _ rfl]
    cases e with
    | notFound => exact herr a hFa
    | conflict => exact hconf a hFa
    | other => exact herr a hFa

omit hpatch in
include hcreate in
theorem createStep_triA (w : World) (hF : F w) :
    TriA Rl I Q (.call (.createRev d hasRV) fun x => .ret (writeOut x)) w := by
  intro a hr
  have hFa := hFst _ _ hF hr
  have hex : (execW a (.createRev d hasRV) = (a, .err .other)) ∨
      (findRev d.name a.live.revs = none ∧ hasRV = false ∧
        execW a (.createRev d hasRV) = (created a d.name { d with deleting := false }, .rev { d with deleting := false })) := by
    cases hf : findRev d.name a.live.revs with
    | some c => exact .inl (execW_createRev_exists a d c hasRV hf)
    | none =>
      cases hasRV with
      | true => exact .inl (execW_createRev_rv a d hf)
      | false => exact .inr ⟨rfl, rfl, execW_createRev_ok a d hf⟩
  refine ⟨hFI a hFa, ?_, ?_, ?_⟩
  · rcases hex with e | ⟨hf, hb, e⟩
    · rw [e]; exact hFI a hFa
    · rw [e]; exact (hcreate a hFa hf hb).1
  · rcases hex with e | ⟨hf, hb, e⟩
    · rw [e]; exact herr a hFa
    · rw [e]; exact (hcreate a hFa hf hb).2
  · intro e
    rw [failResp_write e _ rfl]
    cases e with
    | notFound => exact herr a hFa
    | conflict => exact hconf a hFa
    | other => exact herr a hFa

include hcreate in
theorem applyRev_triA (hfresh : ∀ a, F a → a.view.revs = none) (uid : String) (w : World) (hF : F w) :
    TriA Rl I Q (applyRev d hasRV uid) w := by
  unfold applyRev
  intro a hr
  have hFa := hFst _ _ hF hr
  have hcr := createStep_triA F d hasRV hFst hFI hcreate herr hconf a hFa
  have hpa := patchStep_triA F d hFst hFI hpatch herr hconf a hFa
  rw [execW_getRev a _ (hfresh a hFa)]
  refine ⟨hFI a hFa, hFI a hFa, ?_, ?_⟩
  · cases hf : findRev d.name a.live.revs with
    | none => exact hcr
    | some cur =>
      show TriA Rl I Q (if controllable cur uid then _ else _) a
      by_cases hc : controllable cur uid = true
      · rw [if_pos hc]; exact hpa
      · rw [if_neg hc]; exact herr a hFa
  · intro e
    cases e with
    | notFound => exact hcr
    | conflict => exact herr a hFa
    | other => exact herr a hFa
end apply


/-! ### the rely: what other clients do between two calls -/

/-- Other clients never add an Active revision of any package (they may edit the package,
write, deactivate, delete or create-inactive revisions, let the cache catch up), keep names
unique, and never make a fresh revision cache lag. -/
def Quiet (a b : World) : Prop :=
  (a.view.revs = none → b.view.revs = none) ∧
  ((a.live.revs.map (·.name)).Nodup → (b.live.revs.map (·.name)).Nodup) ∧
  ∀ pn, ActSub pn b.live.revs a.live.revs

theorem ActSub_refl (pn : String) (l : List Rev) : ActSub pn l l := fun x hx ax => ⟨x, hx, rfl, ax⟩

theorem ActSub_trans {pn : String} {a b c : List Rev} (h1 : ActSub pn c b) (h2 : ActSub pn b a) : ActSub pn c a := by
  intro x hx ax
  obtain ⟨y, hy, e, ay⟩ := h1 x hx ax
  obtain ⟨z, hz, e2, az⟩ := h2 y hy ay
  exact ⟨z, hz, e2.trans e, az⟩

theorem Quiet.refl (a : World) : Quiet a a := ⟨id, id, fun pn => ActSub_refl pn _⟩

theorem Quiet.trans {a b c : World} (h1 : Quiet a b) (h2 : Quiet b c) : Quiet a c :=
  ⟨fun h => h2.1 (h1.1 h), fun h => h2.2.1 (h1.2.1 h), fun pn => ActSub_trans (h2.2.2 pn) (h1.2.2 pn)⟩

theorem ActSub_insertRev {pn : String} {m : Rev} {l : List Rev} (hm : isActive pn m = false) :
    ActSub pn (insertRev m l) l := by
  intro x hx ax
  rcases mem_insertRev.mp hx with e | hx'
  · subst e; rw [hm] at ax; cases ax
  · exact ⟨x, hx', rfl, ax⟩

/-- a world that differs from `a` only in its stored revisions -/
theorem quiet_of_revs {a b : World} (hv : b.view = a.view)
    (hn : (a.live.revs.map (·.name)).Nodup → (b.live.revs.map (·.name)).Nodup)
    (hs : ∀ pn, ActSub pn b.live.revs a.live.revs) : Quiet a b :=
  ⟨fun h => by rw [hv]; exact h, hn, hs⟩

theorem setLive_quiet (w : World) (revs : List Rev) (n : String)
    (hn : (w.live.revs.map (·.name)).Nodup → (revs.map (·.name)).Nodup)
    (hs : ∀ pn, ActSub pn revs w.live.revs) : Quiet w (setLive w revs n) :=
  quiet_of_revs rfl hn hs

/-- every action of another client (`Act`) obeys the rely -/
theorem actW_quiet (w : World) (a : Act) : Quiet w (actW w a) := by
  cases a with
  | edit sp =>
    simp only [actW]
    split
    · split
      · exact Quiet.refl w
      · exact ⟨id, id, fun pn => ActSub_refl pn _⟩
    · exact Quiet.refl w
  | touch n =>
    simp only [actW]
    split
    · rename_i c hf
      obtain ⟨hcm, hcn⟩ := findRev_some hf
      apply setLive_quiet
      · intro h; rw [names_setRev]; exact h
      · intro pn
        exact ActSub_setRev (fun ax => ⟨c, hcm, rfl, by simpa [isActive, labelled] using ax⟩)
    · exact Quiet.refl w
  | del n =>
    simp only [actW]
    split
    · rename_i c hf
      obtain ⟨hcm, hcn⟩ := findRev_some hf
      split
      · split
        · exact Quiet.refl w
        · apply setLive_quiet
          · intro h; rw [names_setRev]; exact h
          · intro pn
            exact ActSub_setRev (fun ax => ⟨c, hcm, rfl, by simpa [isActive, labelled] using ax⟩)
      · apply setLive_quiet
        · exact nodup_filter_names _
        · intro pn; exact ActSub_filter pn _ _
    · exact Quiet.refl w
  | deact n =>
    simp only [actW]
    split
    · rename_i c hf
      obtain ⟨hcm, hcn⟩ := findRev_some hf
      split
      · exact Quiet.refl w
      · apply setLive_quiet
        · intro h; rw [names_setRev]; exact h
        · intro pn
          exact ActSub_setRev (fun ax => by simp [isActive] at ax)
    · exact Quiet.refl w
  | create r =>
    simp only [actW]
    split
    · exact Quiet.refl w
    · rename_i hf
      apply setLive_quiet
      · exact nodup_insertRev (findRev_none hf)
      · intro pn
        apply ActSub_insertRev
        simp only [isActive, Bool.and_eq_false_iff, decide_eq_false_iff_not]
        right
        split <;> simp_all
  | sync => exact ⟨fun _ => rfl, id, fun pn => ActSub_refl pn _⟩

theorem acts_quiet (l : List Act) (w : World) : Quiet w (l.foldl actW w) := by
  induction l generalizing w with
  | nil => exact Quiet.refl w
  | cons a rest ih => exact Quiet.trans (actW_quiet w a) (ih _)

/-- the invariant of the property on the stored revisions: names are keys, at most one Active -/
def InvL (A0 : Prop) (pname : String) (w : World) : Prop :=
  (w.live.revs.map (·.name)).Nodup ∧ (A0 → AMOl pname w.live.revs)

theorem InvL_quiet {A0 : Prop} {pname : String} {a b : World} (h : InvL A0 pname a) (hq : Quiet a b) : InvL A0 pname b :=
  ⟨hq.2.1 h.1, fun a0 => AMOl_of_ActSub (hq.2.2 pname) (h.2 a0)⟩

theorem InvL_iff (pname : String) (w : World) : InvL True pname w ↔ Inv pname w.live := by
  rw [Inv_iff]; unfold InvL; simp


/-! ### the reconcile of package `q` and the Active revisions of package `pname` -/

theorem patched_view (a : World) (n : String) (m : Rev) : (patched a n m).view = a.view := rfl
theorem patched_revs (a : World) (n : String) (m : Rev) : (patched a n m).live.revs = setRev m a.live.revs := rfl
theorem created_view (a : World) (n : String) (m : Rev) : (created a n m).view = a.view := rfl
theorem created_revs (a : World) (n : String) (m : Rev) : (created a n m).live.revs = insertRev m a.live.revs := rfl

/-- every Active revision of `pname` stored is in `listed`, Active (only claimed for `q = pname`) -/
def Covers (pname q : String) (listed : List Rev) (w : World) : Prop :=
  q = pname → ∀ x ∈ w.live.revs, isActive pname x = true → ∃ t ∈ listed, t.name = x.name ∧ t.state = .active

theorem Covers_quiet {pname q : String} {listed : List Rev} {a b : World} (h : Covers pname q listed a)
    (hq : Quiet a b) : Covers pname q listed b := by
  intro e x hx ax
  obtain ⟨y, hy, en, ay⟩ := hq.2.2 pname x hx ax
  obtain ⟨t, ht, e1, e2⟩ := h e y hy ay
  exact ⟨t, ht, e1.trans en, e2⟩

/-- the facts while the revision loop runs -/
def LoopF (A0 : Prop) (pname q cur : String) (rest : List Rev) (w : World) : Prop :=
  w.view.revs = none ∧ InvL A0 pname w ∧ (q = pname → Todo pname cur w.live.revs rest)

theorem LoopF_quiet {A0 : Prop} {pname q cur : String} {rest : List Rev} {a b : World} (h : LoopF A0 pname q cur rest a)
    (hq : Quiet a b) : LoopF A0 pname q cur rest b := by
  obtain ⟨h1, h2, h3⟩ := h
  refine ⟨hq.1 h1, InvL_quiet h2 hq, ?_⟩
  intro e x hx ax hne
  obtain ⟨y, hy, en, ay⟩ := hq.2.2 pname x hx ax
  obtain ⟨t, ht, e1, e2⟩ := h3 e y hy ay (en ▸ hne)
  exact ⟨t, ht, e1.trans en, e2⟩

theorem LoopF_tail {A0 : Prop} {pname q cur : String} {t : Rev} {rest : List Rev} {w : World}
    (h : LoopF A0 pname q cur (t :: rest) w) (hskip : t.name = cur ∨ t.state ≠ .active) : LoopF A0 pname q cur rest w := by
  obtain ⟨h1, h2, h3⟩ := h
  refine ⟨h1, h2, ?_⟩
  intro e x hx ax hne
  obtain ⟨t', ht', e1, e2⟩ := h3 e x hx ax hne
  rcases List.mem_cons.mp ht' with e3 | ht'
  · subst e3
    rcases hskip with hs | hs
    · exact absurd (e1.symm.trans hs) hne
    · exact absurd e2 hs
  · exact ⟨t', ht', e1, e2⟩

def QloopA (A0 : Prop) (pname q cur : String) (w : World) (o : Option Res) : Prop :=
  (o = none ∧ LoopF A0 pname q cur [] w) ∨ o = some .requeue ∨ o = some .err

theorem deactLoop_triA (A0 : Prop) (pname q cur uid : String) (rest : List Rev) (w : World)
    (h : LoopF A0 pname q cur rest w) :
    TriA Quiet (InvL A0 pname) (QloopA A0 pname q cur) (deactLoop uid cur rest) w := by
  induction rest generalizing w with
  | nil => exact .inl ⟨rfl, h⟩
  | cons t rest ih =>
    unfold deactLoop
    by_cases hc : t.name = cur
    · rw [if_pos hc]; exact ih w (LoopF_tail h (.inl hc))
    · rw [if_neg hc]
      by_cases ha : t.state = .active
      · rw [if_pos ha]
        apply TriA.bind (Q' := fun w' out =>
          (∃ r, out = .ok r ∧ LoopF A0 pname q cur rest w') ∨ out = .conflict ∨ out = .err)
        · apply applyRev_triA (LoopF A0 pname q cur (t :: rest)) { t with state := .inactive } true
            (fun a b => LoopF_quiet) (fun a hF => hF.2.1)
          · intro a c hF hf
            obtain ⟨h1, h2, h3⟩ := hF
            obtain ⟨hcm, hcn⟩ := findRev_some hf
            have hcn' : c.name = t.name := hcn
            have hsub : ∀ pn, ActSub pn (setRev (mergeRev c { t with state := .inactive }) a.live.revs) a.live.revs :=
              fun pn => ActSub_setRev (by intro ax; simp [isActive, mergeRev] at ax)
            have hinv : InvL A0 pname (patched a t.name (mergeRev c { t with state := .inactive })) :=
              ⟨by rw [patched_revs, names_setRev]; exact h2.1, fun a0 => AMOl_of_ActSub (hsub pname) (h2.2 a0)⟩
            refine ⟨hinv, .inl ⟨_, rfl, h1, hinv, ?_⟩⟩
            intro e x hx ax hne
            rw [patched_revs] at hx
            rcases mem_setRev hx with ⟨e1, _⟩ | ⟨hx', hxn⟩
            · subst e1; simp [isActive, mergeRev] at ax
            · obtain ⟨t', ht', e1, e2⟩ := h3 e x hx' ax hne
              rcases List.mem_cons.mp ht' with e3 | ht'
              · subst e3; exact absurd (e1.symm.trans hcn'.symm) hxn
              · exact ⟨t', ht', e1, e2⟩
          · intro a _ _ hh; cases hh
          · intro a _; exact .inr (.inr rfl)
          · intro a _; exact .inr (.inl rfl)
          · intro a hF; exact hF.1
          · exact h
        · intro w' out hq
          rcases hq with ⟨r, e, hL⟩ | e | e
          · subst e; exact ih w' hL
          · subst e; exact .inr (.inl rfl)
          · subst e; exact .inr (.inr rfl)
      · rw [if_neg ha]; exact ih w (LoopF_tail h (.inr ha))

/-- the facts once the loop is through: no revision of `pname` other than `cur` is Active -/
def CurF (A0 : Prop) (pname q cur : String) (w : World) : Prop :=
  w.view.revs = none ∧ InvL A0 pname w ∧ (q = pname → NoOther pname cur w.live.revs)

theorem CurF_quiet {A0 : Prop} {pname q cur : String} {a b : World} (h : CurF A0 pname q cur a) (hq : Quiet a b) :
    CurF A0 pname q cur b :=
  ⟨hq.1 h.1, InvL_quiet h.2.1 hq, fun e => NoOther_of_ActSub (hq.2.2 pname) (h.2.2 e)⟩

/-- writing a revision named `cur` that carries the label of `q` keeps the invariant of `pname` -/
theorem AMOl_write_cur {A0 : Prop} {pname q cur : String} {m : Rev} {l new : List Rev}
    (hm : m.name = cur) (hp : m.parent = some q)
    (hnew : ∀ x ∈ new, x = m ∨ x ∈ l)
    (ha : A0 → AMOl pname l) (hno : q = pname → NoOther pname cur l) :
    (A0 → AMOl pname new) ∧ (q = pname → NoOther pname cur new) := by
  by_cases e : q = pname
  · have hno' : NoOther pname cur new := by
      intro x hx ax
      rcases hnew x hx with e1 | hx'
      · subst e1; exact hm
      · exact hno e x hx' ax
    exact ⟨fun _ => AMOl_of_NoOther hno', fun _ => hno'⟩
  · have hsub : ActSub pname new l := by
      intro x hx ax
      rcases hnew x hx with e1 | hx'
      · subst e1
        simp only [isActive, labelled, hp, Bool.and_eq_true, decide_eq_true_eq, Option.some.injEq] at ax
        exact absurd ax.1 e
      · exact ⟨x, hx', rfl, ax⟩
    exact ⟨fun a0 => AMOl_of_ActSub hsub (ha a0), fun e' => absurd e' e⟩

/-- the verdict on a completed reconcile of `q`: no revision of `pname` (= `q`) other than the
current one is Active -/
def QDone (pname q : String) (w : World) (r : Res) : Prop :=
  ∀ c a, r = .done c a → q = pname → NoOther pname c w.live.revs

theorem QDone_err (pname q : String) (w : World) : QDone pname q w .err := fun _ _ e => by cases e
theorem QDone_requeue (pname q : String) (w : World) : QDone pname q w .requeue := fun _ _ e => by cases e
theorem QDone_paused (pname q : String) (w : World) : QDone pname q w .paused := fun _ _ e => by cases e
theorem QDone_gone (pname q : String) (w : World) : QDone pname q w .gone := fun _ _ e => by cases e

theorem statusCall_triA {A0 : Prop} {pname : String} {Q : World → Res → Prop} (n : String) (st : Status) (r : Res) (w : World)
    (hI : InvL A0 pname w) (hq : ∀ w', Q w' r) (hq' : ∀ w', Q w' .err) :
    TriA Quiet (InvL A0 pname) Q (.call (.statusPkg n st) fun | .ok => .ret r | _ => .ret .err) w := by
  intro a hr
  have hIa := InvL_quiet hI hr
  have hIb : InvL A0 pname (execW a (.statusPkg n st)).1 := by
    unfold InvL; rw [(execW_statusPkg_revs a n st).1]; exact hIa
  refine ⟨hIa, hIb, ?_, ?_⟩
  · rcases execW_statusPkg_resp a n st with e | ⟨e', e⟩
    · rw [e]; exact hq _
    · rw [e]; exact hq' _
  · intro e; rw [failResp_write e _ rfl]; exact hq' _

theorem finishStatus_triA (A0 : Prop) (pname : String) (p : Pkg) (cur : String) (w : World)
    (hF : CurF A0 pname p.name cur w) :
    TriA Quiet (InvL A0 pname) (QDone pname p.name) (finishStatus p cur) w := by
  unfold finishStatus
  intro a hr
  have hFa := CurF_quiet hF hr
  obtain ⟨er, _⟩ := execW_statusPkg_revs a p.name { curRev := cur, curId := p.spec.source, pausedCond := p.status.pausedCond }
  have hIb : InvL A0 pname (execW a (.statusPkg p.name { curRev := cur, curId := p.spec.source, pausedCond := p.status.pausedCond })).1 := by
    unfold InvL; rw [er]; exact hFa.2.1
  refine ⟨hFa.2.1, hIb, ?_, ?_⟩
  · rcases execW_statusPkg_resp a p.name { curRev := cur, curId := p.spec.source, pausedCond := p.status.pausedCond } with e | ⟨e', e⟩
    · rw [e]
      intro c a' hh hq
      cases hh
      rw [er]; exact hFa.2.2 hq
    · rw [e]; exact QDone_err _ _ _
  · intro e; rw [failResp_write e _ rfl]; exact QDone_err _ _ _

theorem applyCurrent_triA (A0 : Prop) (pname : String) (p : Pkg) (cur : String) (listed : List Rev) (w : World)
    (h : CurF A0 pname p.name cur w) :
    TriA Quiet (InvL A0 pname) (QDone pname p.name) (applyCurrent p cur listed) w := by
  unfold applyCurrent
  generalize hd : desiredCurrent p cur listed = d
  have hd1 : d.name = cur := hd ▸ desiredCurrent_name p cur listed
  have hd2 : d.parent = some p.name := hd ▸ desiredCurrent_parent p cur listed
  apply TriA.bind (Q' := fun w' out =>
    (∃ pr, out = .ok pr ∧ CurF A0 pname p.name cur w' ∧ pr.name = cur ∧ pr.parent = some p.name) ∨ out = .conflict ∨ out = .err)
  · apply applyRev_triA (CurF A0 pname p.name cur) d _ (fun a b => CurF_quiet) (fun a hF => hF.2.1)
    · intro a c hF hf
      obtain ⟨h1, h2, h3⟩ := hF
      obtain ⟨hcm, hcn⟩ := findRev_some hf
      have hmn : (mergeRev c d).name = cur := by show c.name = cur; rw [hcn, hd1]
      have hmp : (mergeRev c d).parent = some p.name := by simp [mergeRev, hd2]
      obtain ⟨ha, hno⟩ := AMOl_write_cur (new := setRev (mergeRev c d) a.live.revs) hmn hmp
        (fun x hx => by rcases mem_setRev hx with ⟨e, _⟩ | ⟨hx', _⟩; exact .inl e; exact .inr hx') h2.2 h3
      have hinv : InvL A0 pname (patched a d.name (mergeRev c d)) :=
        ⟨by rw [patched_revs, names_setRev]; exact h2.1, ha⟩
      exact ⟨hinv, .inl ⟨_, rfl, ⟨h1, hinv, hno⟩, hmn, hmp⟩⟩
    · intro a hF hf _
      obtain ⟨h1, h2, h3⟩ := hF
      have hmn : ({ d with deleting := false } : Rev).name = cur := hd1
      have hmp : ({ d with deleting := false } : Rev).parent = some p.name := hd2
      obtain ⟨ha, hno⟩ := AMOl_write_cur (new := insertRev { d with deleting := false } a.live.revs) hmn hmp
        (fun x hx => mem_insertRev.mp hx) h2.2 h3
      have hinv : InvL A0 pname (created a d.name { d with deleting := false }) :=
        ⟨by rw [created_revs]; exact nodup_insertRev (findRev_none hf) h2.1, ha⟩
      exact ⟨hinv, .inl ⟨_, rfl, ⟨h1, hinv, hno⟩, hmn, hmp⟩⟩
    · intro a _; exact .inr (.inr rfl)
    · intro a _; exact .inr (.inl rfl)
    · intro a hF; exact hF.1
    · exact h
  · intro w' out hq
    rcases hq with ⟨pr, e, hF, hn, hpar⟩ | e | e
    · subst e
      show TriA _ _ _ (if pr.labels = p.spec.labels then _ else _) w'
      by_cases hl : pr.labels = p.spec.labels
      · rw [if_pos hl]; exact finishStatus_triA A0 pname p cur w' hF
      · rw [if_neg hl]
        intro a hr
        have hFa := CurF_quiet hF hr
        obtain ⟨h1, h2, h3⟩ := hFa
        have key : InvL A0 pname (execW a (.updateRev { pr with labels := p.spec.labels })).1 ∧
            TriA Quiet (InvL A0 pname) (QDone pname p.name)
              ((fun x => match x with
                | .rev _ => finishStatus p cur
                | .err .conflict => .ret Res.requeue
                | _ => .ret Res.err) (execW a (.updateRev { pr with labels := p.spec.labels })).2)
              (execW a (.updateRev { pr with labels := p.spec.labels })).1 := by
          cases hf : findRev ({ pr with labels := p.spec.labels } : Rev).name a.live.revs with
          | none => rw [execW_updateRev_none a _ hf]; exact ⟨h2, QDone_err _ _ _⟩
          | some c =>
            by_cases hdty : ({ pr with labels := p.spec.labels } : Rev).name ∈ a.dirty
            · rw [execW_updateRev_conflict a _ c hf hdty]; exact ⟨h2, QDone_requeue _ _ _⟩
            · rw [execW_updateRev_ok a _ c hf hdty]
              obtain ⟨ha, hno⟩ := AMOl_write_cur
                (m := { pr with labels := p.spec.labels, deleting := c.deleting })
                (new := setRev { pr with labels := p.spec.labels, deleting := c.deleting } a.live.revs) hn hpar
                (fun x hx => by rcases mem_setRev hx with ⟨e, _⟩ | ⟨hx', _⟩; exact .inl e; exact .inr hx') h2.2 h3
              have hinv : InvL A0 pname (patched a pr.name { pr with labels := p.spec.labels, deleting := c.deleting }) :=
                ⟨by rw [patched_revs, names_setRev]; exact h2.1, ha⟩
              exact ⟨hinv, finishStatus_triA A0 pname p cur _ ⟨h1, hinv, hno⟩⟩
        refine ⟨h2, key.1, key.2, ?_⟩
        intro e
        rw [failResp_write e _ rfl]
        cases e
        · exact QDone_err _ _ _
        · exact QDone_requeue _ _ _
        · exact QDone_err _ _ _
    · subst e; exact QDone_requeue _ _ _
    · subst e; exact QDone_err _ _ _


/-- a Delete by the reconciler is itself a quiet step -/
theorem execW_deleteRev_quiet (a : World) (n : String) : Quiet a (execW a (.deleteRev n)).1 := by
  simp only [execW, liftW, exec]
  cases hf : findRev n a.live.revs with
  | none => exact Quiet.refl a
  | some c =>
    obtain ⟨hcm, hcn⟩ := findRev_some hf
    simp only []
    split
    · refine quiet_of_revs (a := a) (b := { a with live := { a.live with revs := setRev { c with deleting := true } a.live.revs } }) rfl ?_ ?_
      · intro h; show ((setRev _ _).map _).Nodup; rw [names_setRev]; exact h
      · intro pn
        exact ActSub_setRev (fun ax => ⟨c, hcm, rfl, by simpa [isActive, labelled] using ax⟩)
    · refine quiet_of_revs (a := a) (b := { a with live := { a.live with revs := a.live.revs.filter (fun r => r.name ≠ n) } }) rfl ?_ ?_
      · exact nodup_filter_names _
      · intro pn; exact ActSub_filter pn _ _

theorem stage2_triA (A0 : Prop) (pname : String) (p : Pkg) (cur : String) (listed : List Rev) (w : World)
    (h : LoopF A0 pname p.name cur listed w) :
    TriA Quiet (InvL A0 pname) (QDone pname p.name) (stage2 p cur listed) w := by
  unfold stage2 stage2With
  apply TriA.bind (Q' := QloopA A0 pname p.name cur)
  · exact deactLoop_triA A0 pname p.name cur p.uid listed w h
  · intro w' o hq
    rcases hq with ⟨e, h1, h2, h3⟩ | e | e
    · subst e
      have hF : CurF A0 pname p.name cur w' := ⟨h1, h2, fun e => NoOther_of_Todo_nil (h3 e)⟩
      show TriA _ _ _ (match gcVictim p.spec.limit cur listed with | some v => _ | none => _) w'
      cases gcVictim p.spec.limit cur listed with
      | none => exact applyCurrent_triA A0 pname p cur listed w' hF
      | some v =>
        show TriA _ _ _ (Prog.call (.deleteRev v.name) _) w'
        intro a hr
        have hFa := CurF_quiet hF hr
        have hFb := CurF_quiet hFa (execW_deleteRev_quiet a v.name)
        refine ⟨hFa.2.1, hFb.2.1, ?_, ?_⟩
        · cases (execW a (.deleteRev v.name)).2 with
          | ok => exact applyCurrent_triA A0 pname p cur listed _ hFb
          | err _ => exact QDone_err _ _ _
          | pkg _ => exact QDone_err _ _ _
          | revs _ => exact QDone_err _ _ _
          | rev _ => exact QDone_err _ _ _
        · intro e; rw [failResp_write e _ rfl]; exact QDone_err _ _ _
    · subst e; exact QDone_requeue _ _ _
    · subst e; exact QDone_err _ _ _

/-- the facts right after the List of revisions answered `listed` -/
def ListF (A0 : Prop) (pname q : String) (listed : List Rev) (w : World) : Prop :=
  w.view.revs = none ∧ InvL A0 pname w ∧ Covers pname q listed w

theorem ListF_quiet {A0 : Prop} {pname q : String} {listed : List Rev} {a b : World} (h : ListF A0 pname q listed a)
    (hq : Quiet a b) : ListF A0 pname q listed b :=
  ⟨hq.1 h.1, InvL_quiet h.2.1 hq, Covers_quiet h.2.2 hq⟩

theorem afterList_triA (A0 : Prop) (env : Env) (pname : String) (p : Pkg) (listed : List Rev) (w : World)
    (h : ListF A0 pname p.name listed w) :
    TriA Quiet (InvL A0 pname) (QDone pname p.name) (afterList false env p listed) w := by
  unfold afterList
  intro a hr
  have hFa := ListF_quiet h hr
  have hex : execW a .listImageConfigs = (a, .ok) := rfl
  have hfail : TriA Quiet (InvL A0 pname) (QDone pname p.name)
      ((.call (.statusPkg p.name p.status) fun _ => .ret Res.err : P Res)) a := by
    intro b hr2
    have hIb := InvL_quiet hFa.2.1 hr2
    refine ⟨hIb, ?_, QDone_err _ _ _, fun _ => QDone_err _ _ _⟩
    unfold InvL; rw [(execW_statusPkg_revs b _ _).1]; exact hIb
  have hst : ∀ r, (∀ c x, r ≠ .done c x) → TriA Quiet (InvL A0 pname) (QDone pname p.name) (statusThen p r) a := by
    intro r hne; unfold statusThen
    exact statusCall_triA _ _ _ a hFa.2.1 (fun _ c x e => absurd e (hne c x)) (fun _ => QDone_err _ _ _)
  rw [hex]
  refine ⟨hFa.2.1, hFa.2.1, ?_, ?_⟩
  · show TriA _ _ _ (match revisionName env p with | .error _ => _ | .ok cur => _) a
    cases revisionName env p with
    | error u => exact hst _ (by intro c x e; cases e)
    | ok cur =>
      show TriA _ _ _ (if cur = "" then _ else _) a
      by_cases hc : cur = ""
      · rw [if_pos hc]; exact hst _ (by intro c x e; cases e)
      · rw [if_neg hc]
        show TriA _ _ _ (stage2 p cur listed) a
        apply stage2_triA
        refine ⟨hFa.1, hFa.2.1, ?_⟩
        intro e x hx ax _
        exact hFa.2.2 e x hx ax
  · intro e
    have : failResp e .listImageConfigs = .err (if e = .conflict then .other else e) := by
      cases e <;> simp [failResp, isWrite]
    rw [this]
    exact hfail


theorem reachW_call (sc : Sched) (k : Nat) (r : Req) (c : Resp → P α) (w w' : World)
    (h : w' ∈ reachW sc k (.call r c) w) :
    w' = w ∨ w' = sc.env k w ∨ w' = (execW (sc.env k w) r).1 ∨
    (sc.out k = .ok ∧ w' ∈ reachW sc (k+1) (c (execW (sc.env k w) r).2) (execW (sc.env k w) r).1) ∨
    (∃ e, sc.out k = .fail e ∧ w' ∈ reachW sc (k+1) (c (failResp e r)) (sc.env k w)) := by
  cases ho : sc.out k with
  | ok =>
    rw [reachW_ok _ _ _ _ _ ho] at h
    simp only [List.mem_cons] at h
    rcases h with h | h | h
    · exact .inl h
    · exact .inr (.inl h)
    · exact .inr (.inr (.inr (.inl ⟨rfl, h⟩)))
  | fail e =>
    rw [reachW_fail _ _ _ _ _ e ho] at h
    rcases List.mem_cons.mp h with h | h
    · exact .inl h
    · exact .inr (.inr (.inr (.inr ⟨e, rfl, h⟩)))
  | crashBefore =>
    rw [reachW_crashBefore _ _ _ _ _ ho] at h
    simp only [List.mem_cons, List.not_mem_nil, or_false] at h
    rcases h with h | h
    · exact .inl h
    · exact .inr (.inl h)
  | crashAfter =>
    rw [reachW_crashAfter _ _ _ _ _ ho] at h
    simp only [List.mem_cons, List.not_mem_nil, or_false] at h
    rcases h with h | h | h
    · exact .inl h
    · exact .inr (.inl h)
    · exact .inr (.inr (.inl h))

theorem reachW_ret (sc : Sched) (k : Nat) (a : α) (w w' : World) (h : w' ∈ reachW sc k (.ret a : P α) w) : w' = w := by
  simpa [reachW] using h

theorem execW_getPkg_same (a : World) (n : String) :
    (execW a (.getPkg n)).1.live = a.live ∧ (execW a (.getPkg n)).1.view = a.view := by
  simp only [execW]
  split
  · exact ⟨rfl, rfl⟩
  · exact ⟨rfl, rfl⟩
  · split <;> exact ⟨rfl, rfl⟩

theorem execW_getPkg_pkg (a : World) (n : String) (p : Pkg) (h : (execW a (.getPkg n)).2 = .pkg p) : p.name = n := by
  simp only [execW] at h
  split at h
  · simp only [exec] at h
    split at h
    · split at h
      · rename_i q _ hn; cases h; exact hn
      · cases h
    · cases h
  · cases h
  · split at h
    · rename_i q hn; cases h; exact hn
    · cases h

theorem execW_listRevs_same (a : World) (par : String) :
    (execW a (.listRevs par)).1.live = a.live ∧ (execW a (.listRevs par)).1.view = a.view ∧
    (execW a (.listRevs par)).2 = .revs ((cachedRevs a).filter (fun r => r.parent = some par)) := ⟨rfl, rfl, rfl⟩

/-- A reconcile of package `q` - in a world whose revision cache is fresh, under ANY schedule whose
other clients obey the rely `Quiet` and whose List of revisions is not answered NotFound - keeps
"names are keys, at most one Active revision of `pname`" at every instant, for EVERY package
`pname` (the reconciled one or another one of the kind). -/
theorem reconcile_reachW_InvL (A0 : Prop) (env : Env) (pname q : String) (sc : Sched)
    (henv : ∀ k w, Quiet w (sc.env k w)) (hlist : sc.out 1 ≠ .fail .notFound)
    (w0 : World) (hfresh : w0.view.revs = none) (hinv : InvL A0 pname w0) :
    ∀ w ∈ reachW sc 0 (pkgReconcile env q) w0, InvL A0 pname w := by
  intro w hw
  unfold pkgReconcile reconcileWith at hw
  -- the facts at the three instants around call 0
  have hq0 := henv 0 w0
  have hI1 : InvL A0 pname (sc.env 0 w0) := InvL_quiet hinv hq0
  have hf1 : (sc.env 0 w0).view.revs = none := hq0.1 hfresh
  obtain ⟨el, ev⟩ := execW_getPkg_same (sc.env 0 w0) q
  have hI1' : InvL A0 pname (execW (sc.env 0 w0) (.getPkg q)).1 := by unfold InvL; rw [el]; exact hI1
  have hf1' : (execW (sc.env 0 w0) (.getPkg q)).1.view.revs = none := by rw [ev]; exact hf1
  rcases reachW_call sc 0 _ _ w0 w hw with e | e | e | ⟨_, h⟩ | ⟨e0, _, h⟩
  · subst e; exact hinv
  · subst e; exact hI1
  · subst e; exact hI1'
  · -- call 0 answered
    generalize hw1 : (execW (sc.env 0 w0) (.getPkg q)).1 = w1 at h hI1' hf1'
    cases hr : (execW (sc.env 0 w0) (.getPkg q)).2 with
    | pkg p =>
      have hpn : p.name = q := execW_getPkg_pkg _ _ _ hr
      rw [hr] at h
      simp only [] at h
      by_cases hpa : p.spec.paused = true
      · rw [if_pos hpa] at h
        exact TriA.reach sc henv 1 _ w1 hI1'
          (statusCall_triA (Q := fun _ _ => True) _ _ _ w1 hI1' (fun _ => trivial) (fun _ => trivial)) w h
      · rw [if_neg hpa] at h
        by_cases hpc : p.status.pausedCond = true
        · rw [if_pos hpc] at h
          exact TriA.reach sc henv 1 _ w1 hI1'
            (statusCall_triA (Q := fun _ _ => True) _ _ _ w1 hI1' (fun _ => trivial) (fun _ => trivial)) w h
        · rw [if_neg hpc] at h
          have hq1 := henv 1 w1
          have hI2 : InvL A0 pname (sc.env 1 w1) := InvL_quiet hI1' hq1
          have hf2 : (sc.env 1 w1).view.revs = none := hq1.1 hf1'
          obtain ⟨el2, ev2, er2⟩ := execW_listRevs_same (sc.env 1 w1) q
          have hI2' : InvL A0 pname (execW (sc.env 1 w1) (.listRevs q)).1 := by unfold InvL; rw [el2]; exact hI2
          rcases reachW_call sc 1 _ _ w1 w h with e | e | e | ⟨_, h2⟩ | ⟨e1, ho1, h2⟩
          · subst e; exact hI1'
          · subst e; exact hI2
          · subst e; exact hI2'
          · rw [er2] at h2
            simp only [] at h2
            refine TriA.reach sc henv 2 _ _ hI2' (afterList_triA A0 env pname p _ _ ⟨by rw [ev2]; exact hf2, hI2', ?_⟩) w h2
            intro e x hx ax
            rw [el2] at hx
            refine ⟨x, List.mem_filter.mpr ⟨?_, ?_⟩, rfl, ?_⟩
            · simp only [cachedRevs, hf2, Option.getD_none]; exact hx
            · simp only [isActive, labelled, Bool.and_eq_true, decide_eq_true_eq] at ax
              simp only [decide_eq_true_eq]; rw [ax.1, ← e, hpn]
            · simp only [isActive, Bool.and_eq_true, decide_eq_true_eq] at ax; exact ax.2
          · have hne : e1 ≠ .notFound := fun e => hlist (e ▸ ho1)
            have : (failResp e1 (.listRevs q)) = .err .other := by
              cases e1 with
              | notFound => exact absurd rfl hne
              | conflict => simp [failResp, isWrite]
              | other => simp [failResp, isWrite]
            rw [this] at h2
            rw [reachW_ret sc 2 _ _ w h2]; exact hI2
    | err e =>
      rw [hr] at h
      cases e <;> (rw [reachW_ret sc 1 _ _ w h]; exact hI1')
    | revs _ => rw [hr] at h; rw [reachW_ret sc 1 _ _ w h]; exact hI1'
    | rev _ => rw [hr] at h; rw [reachW_ret sc 1 _ _ w h]; exact hI1'
    | ok => rw [hr] at h; rw [reachW_ret sc 1 _ _ w h]; exact hI1'
  · -- call 0 failed
    cases e0 <;> simp only [failResp, isWrite] at h <;> (rw [reachW_ret sc 1 _ _ w h]; exact hI1)


theorem TriA.run {Rl : World → World → Prop} {I : World → Prop} {Q : World → α → Prop}
    (sc : Sched) (henv : ∀ k w, Rl w (sc.env k w)) (k : Nat) (p : P α) (w : World)
    (h : TriA Rl I Q p w) (a : α) (hr : (runW sc k p w).2 = some a) : Q (runW sc k p w).1 a := by
  induction p generalizing k w with
  | ret x => simp [runW] at hr ⊢; subst hr; exact h
  | call r c ih =>
    obtain ⟨_, _, h3, h4⟩ := h (sc.env k w) (henv k w)
    cases ho : sc.out k with
    | ok => rw [runW_ok _ _ _ _ _ ho] at hr ⊢; exact ih _ _ _ h3 hr
    | fail e => rw [runW_fail _ _ _ _ _ e ho] at hr ⊢; exact ih _ _ _ (h4 e) hr
    | crashBefore => rw [runW_crashBefore _ _ _ _ _ ho] at hr; simp at hr
    | crashAfter => rw [runW_crashAfter _ _ _ _ _ ho] at hr; simp at hr

theorem runW_ret (sc : Sched) (k : Nat) (a : α) (w : World) : runW sc k (.ret a : P α) w = (w, some a) := by
  simp [runW]

/-- ... and when such a reconcile of `q` runs to completion, no revision of `q` other than the
current one is Active - however many were Active to start with (`A0` need not hold). -/
theorem reconcile_runW_done (A0 : Prop) (env : Env) (pname q : String) (sc : Sched)
    (henv : ∀ k w, Quiet w (sc.env k w)) (hlist : sc.out 1 ≠ .fail .notFound)
    (w0 : World) (hfresh : w0.view.revs = none) (hinv : InvL A0 pname w0)
    (r : Res) (hr : (runW sc 0 (pkgReconcile env q) w0).2 = some r) :
    QDone pname q (runW sc 0 (pkgReconcile env q) w0).1 r := by
  unfold pkgReconcile reconcileWith at hr ⊢
  have hq0 := henv 0 w0
  have hI1 : InvL A0 pname (sc.env 0 w0) := InvL_quiet hinv hq0
  have hf1 : (sc.env 0 w0).view.revs = none := hq0.1 hfresh
  obtain ⟨el, ev⟩ := execW_getPkg_same (sc.env 0 w0) q
  have hI1' : InvL A0 pname (execW (sc.env 0 w0) (.getPkg q)).1 := by unfold InvL; rw [el]; exact hI1
  have hf1' : (execW (sc.env 0 w0) (.getPkg q)).1.view.revs = none := by rw [ev]; exact hf1
  have hret : ∀ (k : Nat) (x : Res) (w : World), (∀ c a, x ≠ .done c a) →
      (runW sc k (.ret x : P Res) w).2 = some r → QDone pname q (runW sc k (.ret x : P Res) w).1 r := by
    intro k x w hne h
    rw [runW_ret] at h ⊢
    simp only [Option.some.injEq] at h
    subst h
    exact fun c a e => absurd e (hne c a)
  cases ho0 : sc.out 0 with
  | crashBefore => rw [runW_crashBefore _ _ _ _ _ ho0] at hr; simp at hr
  | crashAfter => rw [runW_crashAfter _ _ _ _ _ ho0] at hr; simp at hr
  | fail e0 =>
    rw [runW_fail _ _ _ _ _ e0 ho0] at hr ⊢
    cases e0 <;> simp only [failResp, isWrite] at hr ⊢ <;>
      exact hret _ _ _ (by intro c a e; cases e) hr
  | ok =>
    rw [runW_ok _ _ _ _ _ ho0] at hr ⊢
    generalize hw1 : (execW (sc.env 0 w0) (.getPkg q)).1 = w1 at hr hI1' hf1' ⊢
    cases hresp : (execW (sc.env 0 w0) (.getPkg q)).2 with
    | pkg p =>
      have hpn : p.name = q := execW_getPkg_pkg _ _ _ hresp
      rw [hresp] at hr
      simp only [] at hr ⊢
      by_cases hpa : p.spec.paused = true
      · rw [if_pos hpa] at hr ⊢
        exact TriA.run sc henv 1 _ w1
          (statusCall_triA (Q := QDone pname q) _ _ _ w1 hI1' (fun _ => QDone_paused _ _ _) (fun _ => QDone_err _ _ _)) r hr
      · rw [if_neg hpa] at hr ⊢
        by_cases hpc : p.status.pausedCond = true
        · rw [if_pos hpc] at hr ⊢
          exact TriA.run sc henv 1 _ w1
            (statusCall_triA (Q := QDone pname q) _ _ _ w1 hI1' (fun _ => QDone_paused _ _ _) (fun _ => QDone_err _ _ _)) r hr
        · rw [if_neg hpc] at hr ⊢
          have hq1 := henv 1 w1
          have hI2 : InvL A0 pname (sc.env 1 w1) := InvL_quiet hI1' hq1
          have hf2 : (sc.env 1 w1).view.revs = none := hq1.1 hf1'
          obtain ⟨el2, ev2, er2⟩ := execW_listRevs_same (sc.env 1 w1) q
          have hI2' : InvL A0 pname (execW (sc.env 1 w1) (.listRevs q)).1 := by unfold InvL; rw [el2]; exact hI2
          cases ho1 : sc.out 1 with
          | crashBefore => rw [runW_crashBefore _ _ _ _ _ ho1] at hr; simp at hr
          | crashAfter => rw [runW_crashAfter _ _ _ _ _ ho1] at hr; simp at hr
          | fail e1 =>
            have hne : e1 ≠ .notFound := fun e => hlist (e ▸ ho1)
            rw [runW_fail _ _ _ _ _ e1 ho1] at hr ⊢
            have : (failResp e1 (.listRevs q)) = .err .other := by
              cases e1 with
              | notFound => exact absurd rfl hne
              | conflict => simp [failResp, isWrite]
              | other => simp [failResp, isWrite]
            rw [this] at hr ⊢
            exact hret _ _ _ (by intro c a e; cases e) hr
          | ok =>
            rw [runW_ok _ _ _ _ _ ho1] at hr ⊢
            rw [er2] at hr ⊢
            simp only [] at hr ⊢
            have hT := afterList_triA A0 env pname p
              ((cachedRevs (sc.env 1 w1)).filter (fun r => r.parent = some q))
              (execW (sc.env 1 w1) (.listRevs q)).1 ⟨by rw [ev2]; exact hf2, hI2', (by
                intro e x hx ax
                rw [el2] at hx
                refine ⟨x, List.mem_filter.mpr ⟨?_, ?_⟩, rfl, ?_⟩
                · simp only [cachedRevs, hf2, Option.getD_none]; exact hx
                · simp only [isActive, labelled, Bool.and_eq_true, decide_eq_true_eq] at ax
                  simp only [decide_eq_true_eq]; rw [ax.1, ← e, hpn]
                · simp only [isActive, Bool.and_eq_true, decide_eq_true_eq] at ax; exact ax.2)⟩
            have := TriA.run sc henv 2 _ _ hT r hr
            rw [hpn] at this
            exact this
    | err e =>
      rw [hresp] at hr
      cases e <;> exact hret _ _ _ (by intro c a e; cases e) hr
    | revs _ => rw [hresp] at hr; exact hret _ _ _ (by intro c a e; cases e) hr
    | rev _ => rw [hresp] at hr; exact hret _ _ _ (by intro c a e; cases e) hr
    | ok => rw [hresp] at hr; exact hret _ _ _ (by intro c a e; cases e) hr

end Xp.C14

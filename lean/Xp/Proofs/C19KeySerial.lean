import Xp.Proofs.C19Final
/-
C19 helper lemmas: the marker invariant for ANY number of workers under per-resource
serialisation (`keySerial`): the facts a reconcile relies on survive an API call of another
reconcile that holds a Usage of a DIFFERENT used resource.
-/
namespace Xp.C19

theorem not_names_of_key_ne {u y : Usage} {used : Res} (hk : usedKey used u)
    (hne : indexValue u.of.av u.of.kind u.of.name ≠ indexValue y.of.av y.of.kind y.of.name)
    (r : Res) (hg : r.group = used.group) (hkd : r.kind = used.kind) (hn : r.name = used.name) :
    y.names r = false := by
  cases hb : y.names r with
  | false => rfl
  | true =>
    exfalso
    simp only [Usage.names_iff] at hb
    apply hne
    simp only [indexValue]
    rw [hb.2.1, hb.2.2.1, hb.2.2.2, hg, hkd, hn, hk.1, hk.2.1, hk.2.2]

/-- an Update of its own Usage by a reconcile, as the other reconciles see the Usages -/
theorem updU_from {s : Store} {t : Thread} (hb : ThreadBase s t) (u' : Usage) (hname : u'.name = t.uname)
    (hrv : u'.rv = t.u.rv) (hof : t.u.ready = true → u'.of = t.u.of) :
    ∀ y' ∈ (s.updU u').1.usages,
      (∃ y ∈ s.usages, y.name = y'.name ∧ y.of = y'.of ∧ y.ready = y'.ready) ∨ y'.ready = false := by
  have spec := updU_spec s u'
  generalize (s.updU u').1 = s' at spec ⊢
  generalize (s.updU u').2 = resp at spec
  cases spec with
  | notFound hg => exact fun y' hy' => .inl ⟨y', hy', rfl, rfl, rfl⟩
  | conflict x hg hne => exact fun y' hy' => .inl ⟨y', hy', rfl, rfl, rfl⟩
  | noop x hg hx hon => exact fun y' hy' => .inl ⟨y', hy', rfl, rfl, rfl⟩
  | put x hg hx hng =>
    obtain ⟨rfl, hmem⟩ := hb.hit hg hname (hx.trans hrv)
    intro y' hy'
    rw [bump_usages] at hy'
    rcases mem_putU.mp hy' with ⟨hy'', _⟩ | ⟨rfl, _⟩
    · exact .inl ⟨y', hy'', rfl, rfl, rfl⟩
    · cases hr : t.u.ready with
      | false => right; simp [Usage.onto, hr]
      | true =>
        left
        refine ⟨t.u, hmem, ?_, ?_, ?_⟩
        · simp only [Usage.onto]; rw [hname]; exact hb.name
        · simp only [Usage.onto]; exact (hof hr).symm
        · simp [Usage.onto]
  | gone x hg hx hd hf =>
    intro y' hy'
    rw [bump_usages] at hy'
    exact .inl ⟨y', (mem_dropU.mp hy').1, rfl, rfl, rfl⟩

/-- a label-setting Update keeps every Usage's used resource labelled -/
theorem Labelled.updR_label {s : Store} {u : Usage} (h : Labelled s u) (used : Res) :
    Labelled (s.updR { used with inUse := true }).1 u := by
  have spec := updR_spec s { used with inUse := true }
  generalize (s.updR { used with inUse := true }).1 = s' at spec ⊢
  generalize (s.updR { used with inUse := true }).2 = resp at spec
  cases spec with
  | notFound hg => exact h
  | conflict x hg hne => exact h
  | noop x hg hx hon => exact h
  | put x hg hx => exact h.putR (fun _ _ _ _ _ _ => rfl)

/-- an Update of a resource the Usage does not name -/
theorem Labelled.updR_other {s : Store} {u : Usage} (h : Labelled s u) (r : Res)
    (hno : ∀ z : Res, z.group = r.group → z.kind = r.kind → z.name = r.name → u.names z = false) :
    Labelled (s.updR r).1 u := by
  have spec := updR_spec s r
  generalize (s.updR r).1 = s' at spec ⊢
  generalize (s.updR r).2 = resp at spec
  cases spec with
  | notFound hg => exact h
  | conflict x hg hne => exact h
  | noop x hg hx hon => exact h
  | put x hg hx => exact h.putR_other (hno _ rfl rfl rfl)

theorem TInv.facts {s : Store} {t : Thread} (h : TInv s t) (hp : t.pc.holds = true) : ThreadBase s t ∧ PcFacts s t := by
  rcases h with h | h
  · cases hpc : t.pc <;> simp [hpc, Pc.isGet, Pc.holds] at h hp
  · exact h

/-- a reconcile past its selector resolution holds a Usage with a resolved spec.of -/
theorem keyed_of {s : Store} {nm : String} {pc : Pc} {u : Usage} {orv : Nat} {ord : Bool} {seen : List Usage}
    (hy : TInv s ⟨nm, pc, u, orv, ord, seen⟩)
    (hp : (match pc with | .getUsage | .ofList | .ofUpdate _ => false | _ => true) = true) :
    Thread.keyed ⟨nm, pc, u, orv, ord, seen⟩ = true := by
  rcases hy with h | ⟨_, hf⟩
  · cases pc <;> simp [Pc.isGet] at h hp
  · cases pc <;> simp only [PcFacts, pcFacts] at hf <;> simp at hp <;>
      (simp only [Thread.keyed, Pc.holds, Bool.true_and, bne_iff_ne, ne_eq]; first | exact hf.2.1 | exact hf.2 | exact hf.1)

/-- **the facts another reconcile relies on survive one API call of `t`** when the two hold Usages
of different used resources -/
theorem exec_others {s : Store} {t y : Thread} (ht : TInv s t) (hy : TInv s y)
    (hne : y.uname ≠ t.uname) (hfy : serialFacts s y.uname y.u y.pc)
    (hdis : t.keyed = true → y.keyed = true →
      indexValue t.u.of.av t.u.of.kind t.u.of.name ≠ indexValue y.u.of.av y.u.of.kind y.u.of.name) :
    serialFacts (s.exec t.request).1 y.uname y.u y.pc := by
  -- a write of t's own Usage
  have usageWrite : ∀ u' : Usage, ThreadBase s t → u'.name = t.uname → u'.rv = t.u.rv →
      (t.u.ready = true → u'.of = t.u.of) → serialFacts (s.updU u').1 y.uname y.u y.pc :=
    fun u' hb h1 h2 h3 => serialFacts_usageChange hfy (updU_res s u') (updU_from hb u' h1 h2 h3)
  obtain ⟨nm, pc, u, orv, ord, seen⟩ := t
  cases pc with
  | getUsage => simpa only [Thread.request, Store.exec] using hfy
  | ofList => simpa only [Thread.request, Store.exec] using hfy
  | byList =>
    simp only [Thread.request]
    cases u.by_ <;> simpa only [Store.exec] using hfy
  | dGetUsing =>
    simp only [Thread.request]
    cases u.by_ <;> simpa only [Store.exec] using hfy
  | getUsing =>
    simp only [Thread.request]
    cases u.by_ <;> simpa only [Store.exec] using hfy
  | dGetUsed => simpa only [Thread.request, Store.exec] using hfy
  | getUsed => simpa only [Thread.request, Store.exec] using hfy
  | dList used => simpa only [Thread.request, Store.exec] using hfy
  | ofUpdate pick =>
    obtain ⟨hb, hf⟩ := ht.facts rfl
    simp only [Thread.request, Store.exec]
    exact usageWrite _ hb hb.name rfl (fun hr => (hb.ok.readyOf hr hf.1).elim)
  | byUpdate pick =>
    obtain ⟨hb, hf⟩ := ht.facts rfl
    simp only [Thread.request, Store.exec]
    exact usageWrite _ hb hb.name rfl (fun _ => rfl)
  | dRemoveFin =>
    obtain ⟨hb, hf⟩ := ht.facts rfl
    simp only [Thread.request, Store.exec]
    exact usageWrite _ hb hb.name rfl (fun _ => rfl)
  | addFin =>
    obtain ⟨hb, hf⟩ := ht.facts rfl
    simp only [Thread.request, Store.exec]
    exact usageWrite _ hb hb.name rfl (fun _ => rfl)
  | addDetails =>
    obtain ⟨hb, hf⟩ := ht.facts rfl
    simp only [Thread.request, Store.exec]
    exact usageWrite _ hb hb.name rfl (fun _ => rfl)
  | addOwner ref =>
    obtain ⟨hb, hf⟩ := ht.facts rfl
    simp only [Thread.request, Store.exec]
    exact usageWrite _ hb hb.name rfl (fun _ => rfl)
  | label used =>
    simp only [Thread.request, Store.exec]
    exact serialFacts_resChange hy hfy (updR_usages s _) (fun u hl _ => hl.updR_label used)
  | dUnlabel used =>
    obtain ⟨hb, hf⟩ := ht.facts rfl
    obtain ⟨_, hne', hk, _⟩ := hf
    have htk : Thread.keyed ⟨nm, .dUnlabel used, u, orv, ord, seen⟩ = true := by
      simp only [Thread.keyed, Pc.holds, Bool.true_and, bne_iff_ne, ne_eq]; exact hne'
    simp only [Thread.request, Store.exec]
    have lab : y.keyed = true → Labelled s y.u → Labelled (s.updR { used with inUse := false }).1 y.u :=
      fun hyk hl => hl.updR_other _ (fun z h1 h2 h3 => not_names_of_key_ne hk (hdis htk hyk) z h1 h2 h3)
    obtain ⟨ynm, ypc, yu, yorv, yord, yseen⟩ := y
    cases ypc with
    | dUnlabel yused => intro z hz; rw [updR_usages] at hz; exact hfy z hz
    | getUsing => exact lab (keyed_of hy rfl) hfy
    | addOwner ref => exact lab (keyed_of hy rfl) hfy
    | status => exact lab (keyed_of hy rfl) hfy
    | _ => trivial
  | status =>
    obtain ⟨hb, hf⟩ := ht.facts rfl
    have htk : Thread.keyed ⟨nm, .status, u, orv, ord, seen⟩ = true := by
      simp only [Thread.keyed, Pc.holds, Bool.true_and, bne_iff_ne, ne_eq]; exact hf.2.1
    simp only [Thread.request, Store.exec]
    obtain ⟨ynm, ypc, yu, yorv, yord, yseen⟩ := y
    cases ypc with
    | getUsing => exact Labelled.sameRes hfy (updStatus_res s _)
    | addOwner ref => exact Labelled.sameRes hfy (updStatus_res s _)
    | status => exact Labelled.sameRes hfy (updStatus_res s _)
    | dUnlabel yused =>
      have hyk := keyed_of hy rfl
      have spec := updStatus_spec s { u with ready := true }
      generalize (s.updStatus { u with ready := true }).1 = s' at spec ⊢
      generalize (s.updStatus { u with ready := true }).2 = resp at spec
      cases spec with
      | notFound hg => exact hfy
      | conflict x hg hne => exact hfy
      | noop x hg hx hon => exact hfy
      | put x hg hx hng =>
        obtain ⟨rfl, hmem⟩ := hb.hit hg hb.name hx
        intro z hz hzi
        rw [bump_usages] at hz
        rcases mem_putU.mp hz with ⟨hz', _⟩ | ⟨rfl, _⟩
        · exact hfy z hz' hzi
        · exfalso
          simp only [Usage.indexedBy_iff] at hzi
          exact hdis htk hyk hzi.2
    | _ => trivial

/-- the invariant of the system under per-resource serialisation, for every number of workers -/
structure KSInv (sys : Sys) : Prop where
  base : SysInv sys
  marker : Marker sys.store
  facts : ∀ t ∈ sys.threads, serialFacts sys.store t.uname t.u t.pc

theorem KSInv.init (maxc : Nat) : KSInv (Sys.init maxc) :=
  ⟨SysInv.init maxc, Marker.empty, by simp [Sys.init]⟩

theorem SerialInv.ks {sys : Sys} (h : SerialInv sys) : KSInv sys := ⟨h.base, h.marker, h.facts⟩

theorem KSInv.envStep {sys : Sys} (_h : KSInv sys) {s' : Store} (hb : SysInv { sys with store := s' })
    (hm : Marker s') (hf : ∀ t ∈ sys.threads, serialFacts s' t.uname t.u t.pc) :
    KSInv { sys with store := s' } := ⟨hb, hm, hf⟩

theorem KSInv.exec {sys : Sys} (h : KSInv sys) (a : Action) (hf : a.fresh = true) (hk : keySerial sys) :
    KSInv (sys.exec a).1 := by
  have hbase := h.base.exec a hf
  cases a with
  | cr g k n l iu c =>
    exact h.envStep hbase (h.marker.createRes g k n l iu c) fun t ht =>
      serialFacts_resChange (h.base.threads t ht) (h.facts t ht) (SameUsages.createRes _ g k n l iu c).usages
        (fun u hl _ => hl.createRes g k n l iu c)
  | cu n o b r c ct =>
    exact h.envStep hbase (h.marker.createUsage n o b r c ct) fun t ht =>
      serialFacts_usageChange (h.facts t ht) (createUsage_res _ n o b r c ct) (createUsage_from _ n o b r c ct)
  | du n =>
    exact h.envStep hbase (h.marker.deleteUsage n) fun t ht =>
      serialFacts_usageChange (h.facts t ht) (deleteUsage_res _ n) (deleteUsage_from _ n)
  | dr g k n p lo po st =>
    have hst : st = none := by
      cases st with
      | none => rfl
      | some _ => simp [Action.fresh] at hf
    subst hst
    exact h.envStep hbase (h.marker.deleteRes g k n p lo po) fun t ht =>
      serialFacts_resChange (h.base.threads t ht) (h.facts t ht) (SameUsages.deleteRes _ g k n p lo po none).usages
        (fun u hl hidx => hl.deleteRes hidx g k n p lo po)
  | gcU n =>
    exact h.envStep hbase (h.marker.gcUsage n) fun t ht =>
      serialFacts_usageChange (h.facts t ht) (gcUsage_res _ n) (gcUsage_from _ n)
  | xa n c =>
    exact h.envStep hbase (h.marker.reapplyUsage n c) fun t ht =>
      serialFacts_usageChange (h.facts t ht) (reapplyUsage_res _ n c) (reapplyUsage_from _ n c)
  | gcR g k n =>
    exact h.envStep hbase (h.marker.gcRes g k n) fun t ht =>
      serialFacts_resChange (h.base.threads t ht) (h.facts t ht) (SameUsages.gcRes _ g k n).usages
        (fun u hl hidx => hl.gcRes hidx g k n)
  | er g k n l =>
    exact h.envStep hbase (h.marker.touchRes h.base.store g k n l) fun t ht =>
      serialFacts_resChange (h.base.threads t ht) (h.facts t ht) (SameUsages.touchRes _ g k n l).usages
        (fun u hl _ => hl.touchRes h.base.store g k n l)
  | stepW n o c => simp [Action.fresh] at hf
  | xaRaw n c => simp [Action.fresh] at hf
  | ef n0 => simp [Action.fresh] at hf
  | start n =>
    refine ⟨hbase, ?_, ?_⟩
    · simp only [Sys.exec]
      split
      · exact h.marker
      · split
        · exact h.marker
        · exact h.marker
    · simp only [Sys.exec]
      split
      · exact h.facts
      · split
        · exact h.facts
        · intro t ht
          simp only [List.mem_append, List.mem_singleton] at ht
          rcases ht with ht | rfl
          · exact h.facts t ht
          · trivial
  | step n o st =>
    have hst : st = none := by
      cases st with
      | none => rfl
      | some _ => simp [Action.fresh] at hf
    subst hst
    refine ⟨hbase, ?_, ?_⟩
    all_goals
      simp only [Sys.exec]
      split
      · first | exact h.marker | exact h.facts
      · next t hsome =>
        obtain ⟨htm, htn⟩ := thread?_some hsome
        have hes := exec_serial h.base.store h.marker (h.base.threads t htm) (h.facts t htm)
        have hstore : Marker (t.step o none sys.store).store := by
          unfold Thread.step
          cases o <;> first | exact hes.1 | exact h.marker
        -- the facts of the other reconciles in the new store
        have hothers : ∀ y ∈ sys.threads, y.uname ≠ n →
            serialFacts (t.step o none sys.store).store y.uname y.u y.pc := by
          intro y hy hyn
          have key := exec_others (h.base.threads t htm) (h.base.threads y hy)
            (by rw [htn]; exact hyn) (h.facts y hy)
            (hk t htm y hy (by rw [htn]; exact fun e => hyn e.symm))
          unfold Thread.step
          cases o <;> first | exact key | exact h.facts y hy
        have hself : AfterSerial (t.step o none sys.store).store (t.step o none sys.store).after := by
          unfold Thread.step
          cases o with
          | ok => simp only [staleResp_none]; exact hes.2
          | fail =>
            obtain ⟨r, hr⟩ := next_fault t sys.store.usages .fail
            simp only [hr]; trivial
          | conflict =>
            obtain ⟨r, hr⟩ := next_fault t sys.store.usages .conflict
            simp only [hr]; trivial
          | crashBefore => trivial
          | crashAfter => trivial
        first
        | (split <;> exact hstore)
        | (split
           · next t' hafter =>
             intro x hx
             simp only [List.mem_map] at hx
             obtain ⟨y, hy, rfl⟩ := hx
             by_cases hyn : y.uname = n
             · simp only [hyn, beq_self_eq_true, if_true]
               rw [hafter] at hself
               exact hself
             · have : (y.uname == n) = false := by simpa using hyn
               simp only [this, Bool.false_eq_true, if_false]
               exact hothers y hy hyn
           · intro x hx
             simp only [List.mem_filter, Bool.not_eq_eq_eq_not, Bool.not_true, beq_eq_false_iff_ne] at hx
             exact hothers x hx.1 hx.2)

theorem KSInv.run {sys : Sys} (h : KSInv sys) (as : List Action) (hf : listFresh as) (hk : Before keySerial sys as) :
    KSInv (sys.run as) := by
  induction as generalizing sys with
  | nil => exact h
  | cons a as ih =>
    exact ih (h.exec a (hf a List.mem_cons_self) hk.1) (fun b hb => hf b (List.mem_cons_of_mem _ hb)) hk.2

/-- the label is on the used resource BEFORE the action that makes a Usage ready, in any state
whose in-flight reconciles know what `serialFacts` says (one worker, or per-resource serialisation) -/
theorem before_ready_core {pre : Sys} (hbase : SysInv pre)
    (hfacts : ∀ t ∈ pre.threads, serialFacts pre.store t.uname t.u t.pc) (a : Action) (hfa : a.fresh = true) :
    ∀ u' ∈ (pre.exec a).1.store.usages, u'.ready = true →
      (∀ u ∈ pre.store.usages, u.name = u'.name → u.ready = false) →
      (∃ r ∈ pre.store.res, u'.names r = true) ∧ ∀ r ∈ pre.store.res, u'.names r = true → r.inUse = true := by
  intro u' hu' hr hnone
  have old : u' ∈ pre.store.usages → False := fun h => by
    have := hnone u' h rfl; rw [hr] at this; cases this
  have from_ : ((∃ y ∈ pre.store.usages, y.name = u'.name ∧ y.of = u'.of ∧ y.ready = u'.ready) ∨ u'.ready = false) →
      False := by
    rintro (⟨y, hy, hn, _, hrd⟩ | h)
    · have := hnone y hy hn; rw [hrd, hr] at this; cases this
    · rw [hr] at h; cases h
  cases a with
  | cr g k n l iu c =>
    exact (old (by rw [← (SameUsages.createRes pre.store g k n l iu c).usages]; exact hu')).elim
  | cu n o b r c ct => exact (from_ (createUsage_from _ n o b r c ct u' hu')).elim
  | du n => exact (from_ (deleteUsage_from _ n u' hu')).elim
  | dr g k n p lo po st =>
    exact (old (by rw [← (SameUsages.deleteRes pre.store g k n p lo po st).usages]; exact hu')).elim
  | gcU n => exact (from_ (gcUsage_from _ n u' hu')).elim
  | xa n c => exact (from_ (reapplyUsage_from _ n c u' hu')).elim
  | gcR g k n => exact (old (by rw [← (SameUsages.gcRes pre.store g k n).usages]; exact hu')).elim
  | er g k n l => exact (old (by rw [← (SameUsages.touchRes pre.store g k n l).usages]; exact hu')).elim
  | stepW n o c => simp [Action.fresh] at hfa
  | xaRaw n c => simp [Action.fresh] at hfa
  | ef n0 => simp [Action.fresh] at hfa
  | start n =>
    refine (old ?_).elim
    simp only [Sys.exec] at hu'
    split at hu'
    · exact hu'
    · split at hu' <;> exact hu'
  | step n o st =>
    have hst : st = none := by
      cases st with
      | none => rfl
      | some _ => simp [Action.fresh] at hfa
    subst hst
    rw [step_store] at hu'
    split at hu'
    · exact (old hu').elim
    · next t hsome =>
      obtain ⟨htm, _⟩ := thread?_some hsome
      have key := exec_newly_ready (hbase.threads t htm) (hfacts t htm)
      have fin : ∀ y' ∈ (pre.store.exec t.request).1.usages, y'.ready = true → y' = u' →
          (∃ r ∈ pre.store.res, u'.names r = true) ∧ ∀ r ∈ pre.store.res, u'.names r = true → r.inUse = true := by
        intro y' hy' hyr he
        subst he
        rcases key y' hy' hyr with ⟨y, hy, hn, hyr'⟩ | hl
        · have := hnone y hy hn; rw [hyr'] at this; cases this
        · exact hl
      unfold Thread.step at hu'
      cases o with
      | ok => exact fin u' hu' hr rfl
      | crashAfter => exact fin u' hu' hr rfl
      | fail => exact (old hu').elim
      | conflict => exact (old hu').elim
      | crashBefore => exact (old hu').elim

end Xp.C19

import Xp.Proofs.C19Exec
/-
C19 helper lemmas, part 6: the system invariant that holds for every number of
concurrent reconciles, every schedule and every fault plan.
-/
namespace Xp.C19

structure SysInv (sys : Sys) : Prop where
  store : StoreInv sys.store
  tuniq : ∀ t1 ∈ sys.threads, ∀ t2 ∈ sys.threads, t1.uname = t2.uname → t1 = t2
  cap : sys.threads.length ≤ sys.maxc
  threads : ∀ t ∈ sys.threads, TInv sys.store t

theorem SysInv.init (maxc : Nat) : SysInv (Sys.init maxc) :=
  ⟨StoreInv.empty, by simp [Sys.init], by simp [Sys.init], by simp [Sys.init]⟩

theorem staleResp_none (r : Req) (resp : Resp) : staleResp none r resp = resp := by
  unfold staleResp
  split <;> first | rfl | simp_all

theorem thread?_some {sys : Sys} {n : String} {t : Thread} (h : sys.thread? n = some t) :
    t ∈ sys.threads ∧ t.uname = n := by
  unfold Sys.thread? at h
  have h1 := List.mem_of_find?_eq_some h
  have h2 := List.find?_some h
  simp at h2
  exact ⟨h1, h2⟩

theorem thread?_none {sys : Sys} {n : String} (h : sys.thread? n = none) : ∀ t ∈ sys.threads, t.uname ≠ n := by
  unfold Sys.thread? at h
  intro t ht
  have := List.find?_eq_none.mp h t ht
  simpa using this

theorem TInv.stepEff {s s' : Store} {t : Thread} {nm : String} (h : TInv s t) (e : StepEff s nm s')
    (hne : t.uname ≠ nm) : TInv s' t := by
  cases e with
  | same _ e => exact h.sameUsages e
  | put n hn =>
    rcases h with h | ⟨h1, h2⟩
    · exact .inl h
    · exact .inr ⟨h1.putU_other (by rw [hn]; exact fun e => hne e.symm), h2.of_born (by simp)⟩
  | drop =>
    rcases h with h | ⟨h1, h2⟩
    · exact .inl h
    · exact .inr ⟨h1.dropU_other (fun e => hne e.symm), h2.of_born (by simp)⟩

/-- the outcome of one thread step: store invariant, effect on others, continuation -/
theorem step_ok {s : Store} (hs : StoreInv s) {t : Thread} (ht : TInv s t) (o : Outcome) :
    StoreInv (t.step o none s).store ∧ StepEff s t.uname (t.step o none s).store ∧
    AfterOk (t.step o none s).store t.uname (t.step o none s).after := by
  have h := exec_ok hs ht
  unfold Thread.step
  cases o with
  | ok =>
    simp only [staleResp_none]
    exact h
  | fail =>
    obtain ⟨r, hr⟩ := next_fault t s.usages .fail
    simp only [hr]
    exact ⟨hs, .same _ (.refl s), trivial⟩
  | conflict =>
    obtain ⟨r, hr⟩ := next_fault t s.usages .conflict
    simp only [hr]
    exact ⟨hs, .same _ (.refl s), trivial⟩
  | crashBefore => exact ⟨hs, .same _ (.refl s), trivial⟩
  | crashAfter => exact ⟨h.1, h.2.1, trivial⟩

theorem SysInv.envStep {sys : Sys} (h : SysInv sys) {s' : Store} (hs' : StoreInv s')
    (ht : ∀ t ∈ sys.threads, TInv s' t) : SysInv { sys with store := s' } :=
  ⟨hs', h.tuniq, h.cap, ht⟩

theorem SysInv.exec {sys : Sys} (h : SysInv sys) (a : Action) (hf : a.fresh = true) : SysInv (sys.exec a).1 := by
  cases a with
  | cr g k n l iu c =>
    exact h.envStep (h.store.createRes g k n l iu c) fun t ht =>
      (h.threads t ht).sameUsages (.createRes _ g k n l iu c)
  | cu n o b r c ct =>
    exact h.envStep (h.store.createUsage n o b r c ct) fun t ht => (h.threads t ht).createUsage n o b r c ct
  | du n => exact h.envStep (h.store.deleteUsage n) fun t ht => (h.threads t ht).deleteUsage h.store n
  | dr g k n p lo po st =>
    exact h.envStep (h.store.deleteRes g k n p lo po st) fun t ht =>
      (h.threads t ht).sameUsages (.deleteRes _ g k n p lo po st)
  | gcU n => exact h.envStep (h.store.gcUsage n) fun t ht => (h.threads t ht).gcUsage h.store n
  | gcR g k n => exact h.envStep (h.store.gcRes g k n) fun t ht => (h.threads t ht).sameUsages (.gcRes _ g k n)
  | xa n c => exact h.envStep (h.store.reapplyUsage n c) fun t ht => (h.threads t ht).reapplyUsage h.store n c
  | er g k n l =>
    exact h.envStep (h.store.touchRes g k n l) fun t ht => (h.threads t ht).sameUsages (.touchRes _ g k n l)
  | stepW n o c => simp [Action.fresh] at hf
  | xaRaw n c => simp [Action.fresh] at hf
  | ef n0 => simp [Action.fresh] at hf
  | start n =>
    simp only [Sys.exec]
    split
    · exact h
    · next hnone =>
      split
      · exact h
      · next hcap =>
        have hne := thread?_none hnone
        refine ⟨h.store, ?_, ?_, ?_⟩
        · intro t1 h1 t2 h2 he
          simp only [List.mem_append, List.mem_singleton] at h1 h2
          rcases h1 with h1 | rfl
          · rcases h2 with h2 | rfl
            · exact h.tuniq t1 h1 t2 h2 he
            · exact absurd he (hne t1 h1)
          · rcases h2 with h2 | rfl
            · exact absurd he.symm (hne t2 h2)
            · rfl
        · simp only [List.length_append, List.length_singleton]
          simp only [ge_iff_le, Nat.not_le] at hcap
          omega
        · intro t ht
          simp only [List.mem_append, List.mem_singleton] at ht
          rcases ht with ht | rfl
          · exact h.threads t ht
          · exact .inl rfl
  | step n o st =>
    have hst : st = none := by
      cases st with
      | none => rfl
      | some _ => simp [Action.fresh] at hf
    subst hst
    simp only [Sys.exec]
    split
    · exact h
    · next t hsome =>
      obtain ⟨htm, htn⟩ := thread?_some hsome
      obtain ⟨k1, k2, k3⟩ := step_ok h.store (h.threads t htm) o
      rw [htn] at k2 k3
      split
      · next t' hafter =>
        rw [hafter] at k3
        obtain ⟨hn', hinv'⟩ := k3
        refine ⟨k1, ?_, ?_, ?_⟩
        · intro t1 h1 t2 h2 he
          simp only [List.mem_map] at h1 h2
          obtain ⟨x1, hx1, rfl⟩ := h1
          obtain ⟨x2, hx2, rfl⟩ := h2
          have hsel : ∀ x : Thread,
              (x.uname = n ∧ (if (x.uname == n) = true then t' else x) = t') ∨
              (x.uname ≠ n ∧ (if (x.uname == n) = true then t' else x) = x) := by
            intro x
            by_cases e : x.uname = n
            · left; exact ⟨e, by simp [e]⟩
            · right; exact ⟨e, by simp [e]⟩
          rcases hsel x1 with ⟨e1, r1⟩ | ⟨e1, r1⟩ <;> rcases hsel x2 with ⟨e2, r2⟩ | ⟨e2, r2⟩ <;>
            rw [r1, r2] at he ⊢
          · rw [hn'] at he; exact absurd he.symm e2
          · rw [hn'] at he; exact absurd he e1
          · exact h.tuniq x1 hx1 x2 hx2 he
        · simpa using h.cap
        · intro x hx
          simp only [List.mem_map] at hx
          obtain ⟨y, hy, rfl⟩ := hx
          by_cases e : y.uname = n
          · simp only [e, beq_self_eq_true, if_true]; exact hinv'
          · have b : (y.uname == n) = false := by simpa using e
            simp only [b, Bool.false_eq_true, if_false]
            exact (h.threads y hy).stepEff k2 e
      · next r hafter =>
        refine ⟨k1, ?_, ?_, ?_⟩
        · intro t1 h1 t2 h2 he
          simp only [List.mem_filter] at h1 h2
          exact h.tuniq t1 h1.1 t2 h2.1 he
        · exact Nat.le_trans (List.length_filter_le _ _) h.cap
        · intro x hx
          simp only [List.mem_filter, Bool.not_eq_eq_eq_not, Bool.not_true, beq_eq_false_iff_ne] at hx
          exact (h.threads x hx.1).stepEff k2 hx.2

theorem SysInv.run {sys : Sys} (h : SysInv sys) (as : List Action) (hf : listFresh as) : SysInv (sys.run as) := by
  induction as generalizing sys with
  | nil => exact h
  | cons a as ih =>
    exact ih (h.exec a (hf a List.mem_cons_self)) (fun b hb => hf b (List.mem_cons_of_mem _ hb))

end Xp.C19

import Xp.Proofs.C20Crds
/-
C20 helper lemmas, part 9: WebhookConfigurations (same shape as the CRDs).
-/
namespace Xp.C20
open Xp

variable {α β : Type}

theorem find_none_whc {l : List Whc} {k : WKind} {n : String}
    (h : l.find? (fun w => decide (w.kind = k ∧ w.name = n)) = none) : ∀ w ∈ l, ¬ (w.kind = k ∧ w.name = n) := by
  intro w hw e
  have := List.find?_eq_none.mp h w hw
  simp [e] at this

theorem find_append_hit {γ : Type} (l : List γ) (x : γ) (p : γ → Bool) (h : l.find? p = none) (hx : p x = true) :
    (l ++ [x]).find? p = some x := by
  rw [List.find?_append, h]; simp [hx]

def WhcFix (f : WhcFile) (cb : Blob) (svc : Svc) (s : Store) : Prop :=
  (∃ w, findWhc s f.kind (whcName f) = some w) ∧
  ∀ w ∈ s.whcs, w.kind = f.kind ∧ w.name = whcName f → patchWhcWith (desiredHooks f cb svc) w = w

def WhcsDone (ref : String) (svc : Svc) (d : Dir) (s : Store) : Prop :=
  ∃ cb, BundleIs (some ref) cb s ∧ d.parseErr = false ∧ ∀ o ∈ d.objs, ∃ f, o = .whc f ∧ WhcFix f cb svc s

theorem patchWhcWith_idem (h : List Hook) (w : Whc) : patchWhcWith h (patchWhcWith h w) = patchWhcWith h w := by
  unfold patchWhcWith
  split <;> simp_all

theorem patchWhcWith_new (k : WKind) (n : String) (h : List Hook) : patchWhcWith h ⟨k, n, h, 0⟩ = ⟨k, n, h, 0⟩ := by
  unfold patchWhcWith
  split <;> rfl

theorem applyWhc_fix (f : WhcFile) (cb : Blob) (svc : Svc) (s : Store) (h : WhcFix f cb svc s) :
    evalOk (applyWhc f cb svc) s = (s, .ok) ∧ ∀ x ∈ statesOk (applyWhc f cb svc) s, x = s := by
  obtain ⟨⟨w, hw⟩, hall⟩ := h
  have hmap : (s.whcs.map fun w => if w.kind = f.kind ∧ w.name = whcName f then patchWhcWith (desiredHooks f cb svc) w else w) = s.whcs :=
    map_eq_self _ _ (fun x hx => by by_cases e : x.kind = f.kind ∧ x.name = whcName f <;> simp [e, hall x hx])
  have hex : exec s (.patchWhc f.kind (whcName f) (desiredHooks f cb svc)) = (s, .ok) := by
    simp only [exec, hw, hmap]
  have hget : exec s (.getWhc f.kind (whcName f)) = (s, .whc w) := by simp [exec, hw]
  constructor
  · simp [applyWhc, hget, hex, okOr]
  · intro x hx
    simp [applyWhc, statesOk, hget, hex, okOr] at hx
    exact hx

theorem applyWhc_eval (f : WhcFile) (cb : Blob) (svc : Svc) (s : Store) :
    (evalOk (applyWhc f cb svc) s).2 = .ok ∧ WhcFix f cb svc (evalOk (applyWhc f cb svc) s).1 ∧
    (∀ f' cb' svc', (f'.kind, whcName f') ≠ (f.kind, whcName f) → WhcFix f' cb' svc' s →
      WhcFix f' cb' svc' (evalOk (applyWhc f cb svc) s).1) ∧
    (evalOk (applyWhc f cb svc) s).1.secrets = s.secrets := by
  unfold applyWhc
  cases hf : findWhc s f.kind (whcName f) with
  | none =>
    have hget : exec s (.getWhc f.kind (whcName f)) = (s, .err .notFound) := by simp [exec, hf]
    have hcr : exec s (.createWhc ⟨f.kind, whcName f, desiredHooks f cb svc, 0⟩) =
        ({ s with whcs := s.whcs ++ [⟨f.kind, whcName f, desiredHooks f cb svc, 0⟩] }, .ok) := by
      simp [exec, hf]
    simp only [evalOk_call, hget, hcr, okOr, evalOk_ret]
    refine ⟨by first | rfl | trivial, ⟨⟨⟨f.kind, whcName f, desiredHooks f cb svc, 0⟩, ?_⟩, ?_⟩, ?_, by first | rfl | trivial⟩
    · simp only [findWhc] at hf ⊢
      exact find_append_hit _ _ _ hf (by simp)
    · intro w hw hn
      simp only [List.mem_append, List.mem_singleton] at hw
      rcases hw with hw | hw
      · exact absurd hn (find_none_whc hf w hw)
      · subst hw; exact patchWhcWith_new _ _ _
    · intro f' cb' svc' hne ⟨⟨w, hw⟩, hall⟩
      refine ⟨⟨w, ?_⟩, ?_⟩
      · simp only [findWhc] at hw ⊢
        exact find_append_some _ _ _ _ hw
      · intro w' hw' hn'
        simp only [List.mem_append, List.mem_singleton] at hw'
        rcases hw' with hw' | hw'
        · exact hall w' hw' hn'
        · subst hw'
          simp only at hn'
          exact absurd (by rw [hn'.1, hn'.2]) hne
  | some w =>
    have hget : exec s (.getWhc f.kind (whcName f)) = (s, .whc w) := by simp [exec, hf]
    have hp : exec s (.patchWhc f.kind (whcName f) (desiredHooks f cb svc)) =
        ({ s with whcs := s.whcs.map fun w => if w.kind = f.kind ∧ w.name = whcName f then patchWhcWith (desiredHooks f cb svc) w else w }, .ok) := by
      simp [exec, hf]
    have hkey : ∀ x : Whc, ∀ k n, decide ((if x.kind = f.kind ∧ x.name = whcName f then patchWhcWith (desiredHooks f cb svc) x else x).kind = k ∧
        (if x.kind = f.kind ∧ x.name = whcName f then patchWhcWith (desiredHooks f cb svc) x else x).name = n) = decide (x.kind = k ∧ x.name = n) := by
      intro x k n; by_cases e : x.kind = f.kind ∧ x.name = whcName f <;> simp [e]
    simp only [evalOk_call, hget, hp, okOr, evalOk_ret]
    refine ⟨by first | rfl | trivial, ⟨⟨patchWhcWith (desiredHooks f cb svc) w, ?_⟩, ?_⟩, ?_, by first | rfl | trivial⟩
    · simp only [findWhc] at hf ⊢
      rw [find_map_some _ _ _ (fun x => hkey x _ _) _ hf]
      have : w.kind = f.kind ∧ w.name = whcName f := by simpa using List.find?_some hf
      simp [this]
    · intro w' hw' hn
      simp only [List.mem_map] at hw'
      obtain ⟨w0, _, e⟩ := hw'
      by_cases h0 : w0.kind = f.kind ∧ w0.name = whcName f
      · simp [h0] at e; subst e; exact patchWhcWith_idem _ w0
      · simp [h0] at e; subst e; exact absurd hn h0
    · intro f' cb' svc' hne ⟨⟨w1, hw1⟩, hall⟩
      refine ⟨⟨w1, ?_⟩, ?_⟩
      · simp only [findWhc] at hw1 ⊢
        rw [find_map_some _ _ _ (fun x => hkey x _ _) _ hw1]
        have h1 : w1.kind = f'.kind ∧ w1.name = whcName f' := by simpa using List.find?_some hw1
        have : ¬ (w1.kind = f.kind ∧ w1.name = whcName f) := fun e => hne (by rw [← h1.1, ← h1.2, e.1, e.2])
        simp [this]
      · intro w' hw' hn'
        simp only [List.mem_map] at hw'
        obtain ⟨w0, hw0, e⟩ := hw'
        by_cases h0 : w0.kind = f.kind ∧ w0.name = whcName f
        · simp [h0] at e; subst e
          simp at hn'
          exact absurd (by rw [← hn'.1, ← hn'.2, h0.1, h0.2]) hne
        · simp [h0] at e; subst e; exact hall w0 hw0 hn'

def whcBodyFn (cb : Blob) (svc : Svc) : FileObj → P Res := fun o => match o with
  | .whc f => applyWhc f cb svc
  | _ => .ret (.err "whcs: kind")

def whcKeys : List FileObj → List (WKind × String)
  | [] => []
  | .whc f :: rest => (f.kind, whcName f) :: whcKeys rest
  | _ :: rest => whcKeys rest

theorem whcLoop_establishes (cb : Blob) (svc : Svc) (objs : List FileObj) (hnd : (whcKeys objs).Nodup) (s t : Store)
    (h : evalOk (forEach (whcBodyFn cb svc) objs) s = (t, .ok)) :
    (∀ o ∈ objs, ∃ f, o = .whc f ∧ WhcFix f cb svc t) ∧
    (∀ f' cb' svc', (f'.kind, whcName f') ∉ whcKeys objs → WhcFix f' cb' svc' s → WhcFix f' cb' svc' t) ∧
    t.secrets = s.secrets := by
  induction objs generalizing s with
  | nil =>
    simp [forEach] at h
    subst h
    exact ⟨fun _ h => (by cases h), fun _ _ _ _ h => h, rfl⟩
  | cons o rest ih =>
    unfold forEach at h
    rw [evalOk_bind] at h
    cases o with
    | whc f =>
      simp only [whcBodyFn] at h
      obtain ⟨e1, e2, e3, e4⟩ := applyWhc_eval f cb svc s
      rw [e1] at h
      simp only at h
      simp only [whcKeys, List.nodup_cons] at hnd
      obtain ⟨h1, h2, h3⟩ := ih hnd.2 _ h
      refine ⟨?_, ?_, h3.trans e4⟩
      · intro o ho
        rcases List.mem_cons.mp ho with e | e
        · subst e
          exact ⟨f, rfl, h2 f cb svc hnd.1 e2⟩
        · exact h1 o e
      · intro f' cb' svc' hn hf
        simp only [whcKeys, List.mem_cons, not_or] at hn
        exact h2 f' cb' svc' hn.2 (e3 f' cb' svc' hn.1 hf)
    | crd f => simp [whcBodyFn] at h
    | other => simp [whcBodyFn] at h

theorem whcLoop_fix (cb : Blob) (svc : Svc) (objs : List FileObj) (s : Store)
    (h : ∀ o ∈ objs, ∃ f, o = .whc f ∧ WhcFix f cb svc s) :
    evalOk (forEach (whcBodyFn cb svc) objs) s = (s, .ok) ∧
    ∀ x ∈ statesOk (forEach (whcBodyFn cb svc) objs) s, x = s := by
  induction objs with
  | nil => simp [forEach, statesOk]
  | cons o rest ih =>
    obtain ⟨f, e, hfix⟩ := h o (by simp)
    subst e
    obtain ⟨a1, a2⟩ := applyWhc_fix f cb svc s hfix
    obtain ⟨i1, i2⟩ := ih (fun o ho => h o (by simp [ho]))
    unfold forEach
    constructor
    · rw [evalOk_bind]; simp only [whcBodyFn]; rw [a1]; exact i1
    · intro x hx
      rw [statesOk_bind] at hx
      simp only [whcBodyFn] at hx
      rcases hx with hx | hx
      · exact a2 x hx
      · rw [a1] at hx; exact i2 x hx

theorem whcsStep_eq (ref : String) (svc : Svc) (d : Dir) :
    whcsStep ref svc d = Prog.bind (getBundle ref) fun b => match b with
      | none => .ret (.err "whcs: bundle")
      | some cb => if d.parseErr then .ret (.err "whcs: parse") else forEach (whcBodyFn cb svc) d.objs := rfl

theorem whcs_fix (ref : String) (svc : Svc) (d : Dir) (s : Store) (h : WhcsDone ref svc d s) :
    evalOk (whcsStep ref svc d) s = (s, .ok) ∧ ∀ x ∈ statesOk (whcsStep ref svc d) s, x = s := by
  obtain ⟨cb, ⟨sec, hs, hc, hne⟩, hp, hobjs⟩ := h
  obtain ⟨l1, l2⟩ := whcLoop_fix cb svc d.objs s hobjs
  have hgb : evalOk (getBundle ref) s = (s, some cb) := by
    rw [getBundle_eval, hs]; simp [hc, hne]
  rw [whcsStep_eq]
  constructor
  · rw [evalOk_bind, hgb]
    simp only [hp, Bool.false_eq_true, if_false]
    exact l1
  · intro x hx
    rw [statesOk_bind] at hx
    rcases hx with hx | hx
    · exact getBundle_states ref s x hx
    · rw [hgb] at hx
      simp only [hp, Bool.false_eq_true, if_false] at hx
      exact l2 x hx

theorem whcs_establishes (ref : String) (svc : Svc) (d : Dir) (hnd : (whcKeys d.objs).Nodup) (s t : Store)
    (h : evalOk (whcsStep ref svc d) s = (t, .ok)) : WhcsDone ref svc d t ∧ t.secrets = s.secrets := by
  rw [whcsStep_eq, evalOk_bind, getBundle_eval] at h
  simp only at h
  cases hf : findSecret s ref with
  | none => simp [hf] at h
  | some sec =>
    simp only [hf] at h
    by_cases hne : sec.crt = .empty
    · simp [hne] at h
    · simp only [hne, if_false] at h
      split at h
      · simp at h
      · rename_i hp
        obtain ⟨h1, _, h3⟩ := whcLoop_establishes sec.crt svc d.objs hnd s t h
        refine ⟨⟨sec.crt, ⟨sec, ?_, rfl, hne⟩, by simpa using hp, h1⟩, h3⟩
        simp only [findSecret] at hf ⊢
        rw [h3]; exact hf

end Xp.C20

import Xp.Model.C08
/-
C08 local lemmas: every reconciler program satisfies its guard on every path
(symbolic execution over all possible replies).
-/
namespace Xp.C08
open Xp.Gen

theorem always_ret (φ : Hist → Req → Prop) (h : Hist) (r : Res) : Always φ h (.ret r) := trivial

theorem always_statusThen (c : Ctl) (n : String) (h : Hist) (k : Key) (o : Obj) (r : Res) :
    Always (guardH c n) h (statusThen k o r) := by
  unfold statusThen
  refine ⟨by simp [guardH], ?_⟩
  intro x
  cases x <;> simp [Always]

theorem XRGoneSeen.mono {h h' : Hist} {cm : Obj} (hs : ∀ p ∈ h, p ∈ h') (hx : XRGoneSeen h cm) : XRGoneSeen h' cm := by
  rcases hx with hx | hx | ⟨hf, hx | hx⟩
  · exact .inl hx
  · exact .inr (.inl (hs _ hx))
  · exact .inr (.inr ⟨hf, .inl (hs _ hx)⟩)
  · exact .inr (.inr ⟨hf, .inr (hs _ hx)⟩)

theorem always_claimFinalize (n : String) (h : Hist) (cm : Obj)
    (hx : ∃ cm0, (Req.get ⟨.claim, n⟩, Resp.obj cm0) ∈ h ∧ cm.rv = cm0.rv ∧ XRGoneSeen h cm0) :
    Always (guardH .claim n) h (claimFinalize ⟨.claim, n⟩ cm) := by
  unfold claimFinalize
  split
  · refine ⟨?_, ?_⟩
    · exact fun _ => ⟨rfl, hx⟩
    · intro x
      cases x <;> exact always_statusThen _ _ _ _ _ _
  · exact always_statusThen _ _ _ _ _ _

theorem always_claimDeleted (n : String) (h : Hist) (cm0 cm : Obj) (xr : Option Obj)
    (hget : (Req.get ⟨.claim, n⟩, Resp.obj cm0) ∈ h) (href : cm.ref = cm0.ref) (hflag : cm.flag = cm0.flag)
    (hrv : cm.rv = cm0.rv)
    (hxr : xr = none → cm0.ref = "" ∨ (Req.get ⟨.xr, cm0.ref⟩, Resp.notFound) ∈ h) :
    Always (guardH .claim n) h (claimDeleted ⟨.claim, n⟩ cm xr) := by
  unfold claimDeleted
  cases xr with
  | none =>
    simp only []
    apply always_claimFinalize
    refine ⟨cm0, hget, hrv, ?_⟩
    rcases hxr rfl with e | e
    · exact .inl e
    · exact .inr (.inl e)
  | some x =>
    simp only []
    split
    · exact always_statusThen _ _ _ _ _ _
    · refine ⟨by simp [guardH], ?_⟩
      intro y
      have key : ∀ (y : Resp), (y = .ok ∨ y = .notFound) →
          Always (guardH .claim n) (h ++ [(Req.delete ⟨.xr, (cm.cond "Ready" "Deleting").ref⟩ (cm.cond "Ready" "Deleting").flag, y)])
            (if (cm.cond "Ready" "Deleting").flag = true then Prog.ret Res.requeue
             else claimFinalize ⟨.claim, n⟩ (cm.cond "Ready" "Deleting")) := by
        intro y hy
        split
        · trivial
        · rename_i hf
          apply always_claimFinalize
          refine ⟨cm0, List.mem_append_left _ hget, hrv, ?_⟩
          have hf' : cm0.flag = false := by
            have : (cm.cond "Ready" "Deleting").flag = cm.flag := rfl
            rw [this, hflag] at hf; simpa using hf
          have hr : (cm.cond "Ready" "Deleting").ref = cm0.ref := href
          have hfl : (cm.cond "Ready" "Deleting").flag = false := by
            have : (cm.cond "Ready" "Deleting").flag = cm.flag := rfl
            rw [this, hflag, hf']
          refine .inr (.inr ⟨hf', ?_⟩)
          rw [hr, hfl]
          rcases hy with rfl | rfl
          · exact .inl (List.mem_append_right _ (List.mem_singleton.mpr rfl))
          · exact .inr (List.mem_append_right _ (List.mem_singleton.mpr rfl))
      cases y with
      | ok => exact key _ (.inl rfl)
      | notFound => exact key _ (.inr rfl)
      | obj o => exact always_statusThen _ _ _ _ _ _
      | list l => exact always_statusThen _ _ _ _ _ _
      | conflict => exact always_statusThen _ _ _ _ _ _
      | err => exact always_statusThen _ _ _ _ _ _


theorem mem_snoc_self {α : Type} (l : List α) (a : α) : a ∈ l ++ [a] :=
  List.mem_append_right _ (List.mem_singleton.mpr rfl)

theorem always_claimBound (n : String) (h : Hist) (cm : Obj) (xr : Option Obj)
    (hget : (Req.get ⟨.claim, n⟩, Resp.obj cm) ∈ h)
    (hxr : xr = none → cm.ref = "" ∨ (Req.get ⟨.xr, cm.ref⟩, Resp.notFound) ∈ h) :
    Always (guardH .claim n) h (claimBound ⟨.claim, n⟩ cm xr) := by
  unfold claimBound
  cases xr with
  | none =>
    simp only []
    split
    · exact always_claimDeleted n h cm cm none hget rfl rfl rfl hxr
    · trivial
  | some x =>
    simp only []
    split
    · exact always_statusThen _ _ _ _ _ _
    · split
      · exact always_claimDeleted n h cm cm (some x) hget rfl rfl rfl (by intro e; cases e)
      · trivial

theorem always_claimGot (n : String) (h : Hist) (cm : Obj)
    (hget : (Req.get ⟨.claim, n⟩, Resp.obj cm) ∈ h) :
    Always (guardH .claim n) h (claimGot ⟨.claim, n⟩ cm) := by
  unfold claimGot
  split
  · exact always_statusThen _ _ _ _ _ _
  · split
    · rename_i hr
      exact always_claimBound n h cm none hget (fun _ => .inl hr)
    · refine ⟨by simp [guardH], ?_⟩
      intro x
      cases x with
      | obj o => exact always_claimBound n _ cm (some o) (List.mem_append_left _ hget) (by intro e; cases e)
      | notFound => exact always_claimBound n _ cm none (List.mem_append_left _ hget) (fun _ => .inr (mem_snoc_self _ _))
      | ok => exact always_statusThen _ _ _ _ _ _
      | list l => exact always_statusThen _ _ _ _ _ _
      | conflict => exact always_statusThen _ _ _ _ _ _
      | err => exact always_statusThen _ _ _ _ _ _

theorem always_claimRec (n : String) : Always (guardH .claim n) [] (claimRec n) := by
  unfold claimRec
  refine ⟨by simp [guardH], ?_⟩
  intro x
  cases x with
  | obj o => exact always_claimGot n _ o (mem_snoc_self _ _)
  | _ => trivial

theorem always_xrRec (n : String) : Always (guardH .xr n) [] (xrRec n) := by
  unfold xrRec
  refine ⟨by simp [guardH], ?_⟩
  intro x
  cases x with
  | obj o =>
    simp only []
    split
    · exact always_statusThen _ _ _ _ _ _
    · split
      · trivial
      · split
        · refine ⟨by simp [guardH], ?_⟩
          intro y
          cases y <;> first | exact always_statusThen _ _ _ _ _ _ | trivial
        · exact always_statusThen _ _ _ _ _ _
  | _ => trivial


theorem CRDNotOursSeen.mono {h h' : Hist} {crd : String} {uid : Nat} (hs : ∀ p ∈ h, p ∈ h')
    (hx : CRDNotOursSeen h crd uid) : CRDNotOursSeen h' crd uid := by
  rcases hx with hx | ⟨c, hc, hn⟩
  · exact .inl (hs _ hx)
  · exact .inr ⟨c, hs _ hc, hn⟩

theorem before_snoc2 (h : Hist) (a b : Req × Resp) (ha : a ∈ h) : Before (h ++ [b]) a b := by
  obtain ⟨h1, h2, rfl⟩ := List.append_of_mem ha
  exact ⟨h1, h2, [], by simp⟩

theorem Before.mono (h : Hist) (a b c : Req × Resp) (hb : Before h a b) : Before (h ++ [c]) a b := by
  obtain ⟨h1, h2, h3, rfl⟩ := hb
  exact ⟨h1, h2, h3 ++ [c], by simp⟩

theorem always_xrdFinish_defined (n : String) (h : Hist) (d cur : Obj)
    (hget : (Req.get ⟨.xrd, n⟩, Resp.obj d) ∈ h) (hno : CRDNotOursSeen h d.ref d.uid) :
    Always (guardH .defined n) h (xrdFinish ⟨.xrd, n⟩ cur (compositeCtrl n) c08DefinedFinalizer) := by
  unfold xrdFinish
  refine ⟨⟨rfl, d, hget, .inl hno⟩, ?_⟩
  intro x
  cases x with
  | ok =>
    simp only []
    split
    · refine ⟨fun _ => ⟨rfl, d, List.mem_append_left _ hget, hno.mono (fun p hp => List.mem_append_left _ hp)⟩, ?_⟩
      intro y
      cases y <;> trivial
    · trivial
  | _ => trivial

theorem always_xrdStopDelete_defined (n : String) (h : Hist) (d : Obj)
    (hget : (Req.get ⟨.xrd, n⟩, Resp.obj d) ∈ h) (hl : (Req.list .xr, Resp.list []) ∈ h) :
    Always (guardH .defined n) h (xrdStopDelete (compositeCtrl n) ⟨.crd, d.ref⟩) := by
  unfold xrdStopDelete
  refine ⟨⟨rfl, d, hget, .inr hl⟩, ?_⟩
  intro x
  cases x with
  | ok =>
    simp only []
    refine ⟨fun _ => before_snoc2 _ _ _ hl, ?_⟩
    intro y
    cases y <;> trivial
  | _ => trivial

theorem always_xrdFinish_offered (n : String) (h : Hist) (d cur : Obj)
    (hget : (Req.get ⟨.xrd, n⟩, Resp.obj d) ∈ h) (hno : CRDNotOursSeen h d.of d.uid) :
    Always (guardH .offered n) h (xrdFinish ⟨.xrd, n⟩ cur (claimCtrl n) c08OfferedFinalizer) := by
  unfold xrdFinish
  refine ⟨⟨rfl, d, hget, .inl hno⟩, ?_⟩
  intro x
  cases x with
  | ok =>
    simp only []
    split
    · refine ⟨fun _ => ⟨rfl, d, List.mem_append_left _ hget, hno.mono (fun p hp => List.mem_append_left _ hp)⟩, ?_⟩
      intro y
      cases y <;> trivial
    · trivial
  | _ => trivial

theorem always_xrdStopDelete_offered (n : String) (h : Hist) (d : Obj)
    (hget : (Req.get ⟨.xrd, n⟩, Resp.obj d) ∈ h) (hl : (Req.list .claim, Resp.list []) ∈ h) :
    Always (guardH .offered n) h (xrdStopDelete (claimCtrl n) ⟨.crd, d.of⟩) := by
  unfold xrdStopDelete
  refine ⟨⟨rfl, d, hget, .inr hl⟩, ?_⟩
  intro x
  cases x with
  | ok =>
    simp only []
    refine ⟨fun _ => before_snoc2 _ _ _ hl, ?_⟩
    intro y
    cases y <;> trivial
  | _ => trivial

theorem always_deleteEach (n : String) (h : Hist) (l : List Obj) (hl : ∀ o ∈ l, o.key.kind = .claim) :
    Always (guardH .offered n) h (deleteEach l) := by
  induction l generalizing h with
  | nil => trivial
  | cons o rest ih =>
    unfold deleteEach
    have ho : o.key.kind = .claim := hl o (List.mem_cons_self ..)
    refine ⟨(by intro hk; rw [ho] at hk; cases hk), ?_⟩
    intro x
    have hr : ∀ o ∈ rest, o.key.kind = .claim := fun o h' => hl o (List.mem_cons_of_mem _ h')
    cases x with
    | ok => exact ih _ hr
    | notFound => exact ih _ hr
    | _ => trivial

theorem always_definedRec (n : String) : Always (guardH .defined n) [] (definedRec n) := by
  unfold definedRec
  refine ⟨by simp [guardH], ?_⟩
  intro x
  cases x with
  | obj d =>
    simp only []
    split
    · trivial
    · refine ⟨by simp [guardH], ?_⟩
      intro y
      have hget : (Req.get ⟨.xrd, n⟩, Resp.obj d) ∈ ([] : Hist) ++ [(Req.get ⟨.xrd, n⟩, Resp.obj d)] := mem_snoc_self _ _
      cases y with
      | obj d' =>
        simp only []
        refine ⟨by simp [guardH], ?_⟩
        intro z
        cases z with
        | obj c =>
          simp only []
          split
          · rename_i hc
            refine always_xrdFinish_defined n _ d d' (List.mem_append_left _ (List.mem_append_left _ hget)) ?_
            refine .inr ⟨c, mem_snoc_self _ _, ?_⟩
            simpa using hc
          · refine ⟨by simp [guardH], ?_⟩
            intro u
            cases u with
            | ok =>
              simp only []
              refine ⟨by simp [guardH], ?_⟩
              intro v
              cases v with
              | list l =>
                cases l with
                | nil =>
                  exact always_xrdStopDelete_defined n _ d
                    (List.mem_append_left _ (List.mem_append_left _ (List.mem_append_left _ (List.mem_append_left _ hget))))
                    (mem_snoc_self _ _)
                | cons a b => trivial
              | _ => trivial
            | _ => trivial
        | notFound =>
          exact always_xrdFinish_defined n _ d d' (List.mem_append_left _ (List.mem_append_left _ hget)) (.inl (mem_snoc_self _ _))
        | _ => trivial
      | _ => trivial
  | _ => trivial

theorem always_offeredRec (n : String) : Always (guardH .offered n) [] (offeredRec n) := by
  unfold offeredRec
  refine ⟨by simp [guardH], ?_⟩
  intro x
  cases x with
  | obj d =>
    simp only []
    split
    · trivial
    · refine ⟨by simp [guardH], ?_⟩
      intro y
      have hget : (Req.get ⟨.xrd, n⟩, Resp.obj d) ∈ ([] : Hist) ++ [(Req.get ⟨.xrd, n⟩, Resp.obj d)] := mem_snoc_self _ _
      cases y with
      | obj d' =>
        simp only []
        refine ⟨by simp [guardH], ?_⟩
        intro z
        cases z with
        | obj c =>
          simp only []
          split
          · rename_i hc
            refine always_xrdFinish_offered n _ d d' (List.mem_append_left _ (List.mem_append_left _ hget)) ?_
            refine .inr ⟨c, mem_snoc_self _ _, ?_⟩
            simpa using hc
          · refine ⟨by simp [guardH], ?_⟩
            intro v
            cases v with
            | list l =>
              cases l with
              | nil =>
                exact always_xrdStopDelete_offered n _ d
                  (List.mem_append_left _ (List.mem_append_left _ (List.mem_append_left _ hget)))
                  (mem_snoc_self _ _)
              | cons a b =>
                apply always_deleteEach
                intro o ho
                simpa using (List.mem_filter.mp ho).2
            | _ => trivial
        | notFound =>
          exact always_xrdFinish_offered n _ d d' (List.mem_append_left _ (List.mem_append_left _ hget)) (.inl (mem_snoc_self _ _))
        | _ => trivial
      | _ => trivial
  | _ => trivial


theorem always_revFinalize (n : String) (h : Hist) (pr : Obj) (hl : NotInLockSeen h n) :
    Always (guardH .rev n) h (revFinalize ⟨.rev, n⟩ pr) := by
  unfold revFinalize
  split
  · refine ⟨fun _ => ⟨rfl, hl⟩, ?_⟩
    intro y
    cases y <;> trivial
  · trivial

theorem always_revRec (n : String) : Always (guardH .rev n) [] (revRec n) := by
  unfold revRec
  refine ⟨by simp [guardH], ?_⟩
  intro x
  cases x with
  | obj pr =>
    simp only []
    split
    · exact always_statusThen _ _ _ _ _ _
    · split
      · trivial
      · refine ⟨by simp [guardH], ?_⟩
        intro y
        cases y with
        | ok =>
          simp only []
          refine ⟨by simp [guardH], ?_⟩
          intro z
          cases z with
          | obj l =>
            simp only []
            split
            · refine ⟨by simp [guardH], ?_⟩
              intro u
              cases u with
              | obj l' => exact always_revFinalize n _ pr (.inr (.inr ⟨_, l', mem_snoc_self _ _⟩))
              | _ => trivial
            · rename_i hc
              refine always_revFinalize n _ pr (.inr (.inl ⟨l, mem_snoc_self _ _, ?_⟩))
              simpa using hc
          | notFound => exact always_revFinalize n _ pr (.inl (mem_snoc_self _ _))
          | _ => trivial
        | _ => trivial
  | _ => trivial

theorem always_usageFinalize (n : String) (h : Hist) (u0 u : Obj)
    (hget : (Req.get ⟨.usage, n⟩, Resp.obj u0) ∈ h) (hrv : u.rv = u0.rv)
    (hu : u0.ref = "" ∨ u0.flag = false ∨ (Req.get ⟨u0.refKind, u0.ref⟩, Resp.notFound) ∈ h) :
    Always (guardH .usage n) h (usageFinalize ⟨.usage, n⟩ u) := by
  unfold usageFinalize
  split
  · refine ⟨fun _ => ⟨rfl, u0, hget, hrv, hu⟩, ?_⟩
    intro y
    cases y <;> trivial
  · trivial

theorem always_usageUsed (n : String) (h : Hist) (u : Obj)
    (hget : (Req.get ⟨.usage, n⟩, Resp.obj u) ∈ h)
    (hu : u.ref = "" ∨ u.flag = false ∨ (Req.get ⟨u.refKind, u.ref⟩, Resp.notFound) ∈ h) :
    Always (guardH .usage n) h (usageUsed ⟨.usage, n⟩ u) := by
  have mono : ∀ (h' : Hist), (∀ p ∈ h, p ∈ h') →
      (u.ref = "" ∨ u.flag = false ∨ (Req.get ⟨u.refKind, u.ref⟩, Resp.notFound) ∈ h') := by
    intro h' hs
    rcases hu with e | e | e
    · exact .inl e
    · exact .inr (.inl e)
    · exact .inr (.inr (hs _ e))
  unfold usageUsed
  refine ⟨by simp [guardH], ?_⟩
  intro x
  cases x with
  | obj used =>
    simp only []
    refine ⟨by simp [guardH], ?_⟩
    intro y
    cases y with
    | list l =>
      simp only []
      split
      · refine ⟨by simp [guardH], ?_⟩
        intro z
        cases z with
        | obj o =>
          refine always_usageFinalize n _ u u ?_ rfl (mono _ ?_)
          · exact List.mem_append_left _ (List.mem_append_left _ (List.mem_append_left _ hget))
          · intro p hp; exact List.mem_append_left _ (List.mem_append_left _ (List.mem_append_left _ hp))
        | _ => trivial
      · refine always_usageFinalize n _ u u ?_ rfl (mono _ ?_)
        · exact List.mem_append_left _ (List.mem_append_left _ hget)
        · intro p hp; exact List.mem_append_left _ (List.mem_append_left _ hp)
    | _ => trivial
  | notFound =>
    refine always_usageFinalize n _ u u (List.mem_append_left _ hget) rfl (mono _ ?_)
    intro p hp; exact List.mem_append_left _ hp
  | _ => trivial

theorem always_usageRec (n : String) : Always (guardH .usage n) [] (usageRec n) := by
  unfold usageRec
  refine ⟨by simp [guardH], ?_⟩
  intro x
  cases x with
  | obj u =>
    simp only []
    have hget : (Req.get ⟨.usage, n⟩, Resp.obj u) ∈ ([] : Hist) ++ [(Req.get ⟨.usage, n⟩, Resp.obj u)] := mem_snoc_self _ _
    split
    · refine ⟨by simp [guardH], ?_⟩
      intro y
      cases y with
      | list l => cases l <;> trivial
      | _ => trivial
    · split
      · trivial
      · split
        · refine ⟨by simp [guardH], ?_⟩
          intro y
          cases y with
          | notFound => exact always_usageUsed n _ u (List.mem_append_left _ hget) (.inr (.inr (mem_snoc_self _ _)))
          | _ => trivial
        · rename_i hc
          refine always_usageUsed n _ u hget ?_
          by_cases hr : u.ref = ""
          · exact .inl hr
          · refine .inr (.inl ?_)
            cases hf : u.flag with
            | false => rfl
            | true => exact absurd ⟨hr, hf⟩ hc
  | _ => trivial

/-- every modelled reconcile respects its guard on every path -/
theorem always_program (c : Ctl) (n : String) : Always (guardH c n) [] (program c n) := by
  cases c
  · exact always_claimRec n
  · exact always_xrRec n
  · exact always_definedRec n
  · exact always_offeredRec n
  · exact always_revRec n
  · exact always_usageRec n

/-- a run under any server semantics and any fault plan follows one path of the program -/
theorem always_issued (sm : Sem St Req Resp) (plan : Plan) (φ : Hist → Req → Prop) (k : Nat) (h : Hist) (p : P) (s : St)
    (hp : Always φ h p) : ∀ x ∈ issued sm plan k h p s, φ x.1 x.2 := by
  induction p generalizing k h s with
  | ret a => intro x hx; simp [issued] at hx
  | call r c ih =>
    obtain ⟨h0, hk⟩ := hp
    intro x hx
    unfold issued at hx
    split at hx
    · rcases List.mem_cons.mp hx with e | e
      · subst e; exact h0
      · exact ih _ _ _ _ (hk _) x e
    · rcases List.mem_cons.mp hx with e | e
      · subst e; exact h0
      · exact ih _ _ _ _ (hk _) x e
    · rcases List.mem_cons.mp hx with e | e
      · subst e; exact h0
      · exact ih _ _ _ _ (hk _) x e
    · simp at hx; subst hx; exact h0
    · simp at hx; subst hx; exact h0

end Xp.C08

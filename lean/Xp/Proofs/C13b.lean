import Xp.Proofs.C13a
/-
C13 helper lemmas, part b: unpacking `step`, frame facts of the global actions, mutual
exclusion, and the lock discipline of writes.
-/
namespace Xp.C13

theorem Act.apply_threads (a : Act) (s : Sys) : (a.apply s).threads = s.threads := by
  cases a <;> simp only [Act.apply]
  case getInformer g f =>
    split
    · rfl
    · split <;> rfl

/-- the shape of a step -/
theorem step_unpack {cfg : Cfg} {s s' : Sys} {i : Nat} {ch : Choice} (h : step cfg s i ch = some s') :
    ∃ t pc' act, s.threads[i]? = some t ∧ next cfg s i t ch = some (pc', act) ∧
      s' = act.apply { s with threads := s.threads.set i { t with pc := pc' } } := by
  unfold step at h
  split at h
  · cases h
  · rename_i t ht
    split at h
    · cases h
    · rename_i pc' act hn
      cases h
      exact ⟨t, pc', act, ht, hn, rfl⟩

theorem step_threads {s s' : Sys} {i : Nat} {t : Thread} {pc' : Pc} {act : Act}
    (ht : s.threads[i]? = some t)
    (hs : s' = act.apply { s with threads := s.threads.set i { t with pc := pc' } }) :
    ∀ j, s'.threads[j]? = if j = i then some { t with pc := pc' } else s.threads[j]? := by
  intro j
  subst hs
  rw [Act.apply_threads]
  simp only [List.getElem?_set]
  have hi : i < s.threads.length := by
    rcases Nat.lt_or_ge i s.threads.length with h | h
    · exact h
    · rw [List.getElem?_eq_none h] at ht; cases ht
  by_cases e : j = i
  · subst e; simp [hi]
  · have e' : ¬ i = j := fun x => e x.symm
    simp [e, e']

/-! ### mutual exclusion -/

def Mutex (s : Sys) : Prop :=
  ∀ (i j : Nat) (ti tj : Thread), i ≠ j → s.threads[i]? = some ti → s.threads[j]? = some tj →
    ti.pc.held.compat tj.pc.held = true

theorem Mutex_init (ops : List Op) : Mutex (init ops) := by
  intro i j ti tj _ hi hj
  simp only [init, List.getElem?_map] at hi hj
  cases h1 : ops[i]? <;> simp [h1] at hi
  cases h2 : ops[j]? <;> simp [h2] at hj
  subst hi hj
  rfl

theorem Mutex_step {cfg : Cfg} {s s' : Sys} {i : Nat} {ch : Choice} (hm : Mutex s)
    (h : step cfg s i ch = some s') : Mutex s' := by
  obtain ⟨t, pc', act, ht, hn, hs⟩ := step_unpack h
  have hth := step_threads ht hs
  have key : ∀ j u, j ≠ i → s.threads[j]? = some u → pc'.held.compat u.pc.held = true := by
    intro j u hji hu
    rcases next_held hn with hf | hle
    · exact (free_iff s i pc'.held).1 hf j u hu hji
    · exact Held.compat_of_le hle (hm i j t u (fun e => hji e.symm) ht hu)
  intro a b ta tb hab ha hb
  rw [hth a] at ha
  rw [hth b] at hb
  by_cases ea : a = i
  · subst ea
    have eb : ¬ b = a := fun e => hab e.symm
    simp only [eb, if_true, if_false] at ha hb
    cases ha
    exact key b tb eb hb
  · by_cases eb : b = i
    · subst eb
      simp only [ea, if_true, if_false] at ha hb
      cases hb
      rw [Held.compat_comm]
      exact key a ta ea ha
    · simp only [ea, eb, if_false] at ha hb
      exact hm a b ta tb hab ha hb

theorem Mutex_reachable {ops : List Op} {cfg : Cfg} {s : Sys} (h : Reachable cfg ops s) : Mutex s := by
  induction h with
  | init => exact Mutex_init ops
  | step i ch _ hs ih => exact Mutex_step ih hs

/-- two different threads cannot both hold `e.mx` for writing -/
theorem Mutex.excl_e {s : Sys} (hm : Mutex s) {i j : Nat} {ti tj : Thread} (hij : i ≠ j)
    (hi : s.threads[i]? = some ti) (hj : s.threads[j]? = some tj)
    (wi : ti.pc.held.e = .w) : tj.pc.held.e = .n := by
  have := hm i j ti tj hij hi hj
  simp only [Held.compat, Bool.and_eq_true] at this
  have h1 := this.1
  rw [wi] at h1
  cases he : tj.pc.held.e <;> simp_all [Mode.compat]

/-- two different threads cannot hold the same controller's lock when one holds it for writing -/
theorem Mutex.excl_c {s : Sys} (hm : Mutex s) {i j : Nat} {ti tj : Thread} (hij : i ≠ j)
    (hi : s.threads[i]? = some ti) (hj : s.threads[j]? = some tj) {cid : Nat} {m : Mode}
    (wi : ti.pc.held.c = some (cid, .w)) (wj : tj.pc.held.c = some (cid, m)) : m = .n := by
  have := hm i j ti tj hij hi hj
  simp only [Held.compat, Bool.and_eq_true] at this
  have h2 := this.2
  rw [wi, wj] at h2
  cases m <;> simp_all [Mode.compat]

end Xp.C13

import Xp.Proofs.C03Fn
/-
C03 helper lemmas for the patch-and-transform associator (`associatePT` inside `composePT`):
which garbage-collection requests it can issue under every fault plan, and which it does
issue on a fault-free run. No invariant of the store is needed: the only facts used are how
`findObj` sees the store after a delete.
-/
namespace Xp.C01

/-! ### `findObj` after a delete -/

theorem findObj_cons (o : CObj) (objs : List CObj) (k n : String) :
    findObj (o :: objs) k n = if o.kind = k ∧ o.name = n then some o else findObj objs k n := by
  by_cases h : o.kind = k ∧ o.name = n
  · simp [findObj, h]
  · simp only [findObj, List.find?_cons, h, decide_false, if_false]

theorem findObj_removeObj_other (objs : List CObj) {k n k' n' : String} (h : ¬ (k' = k ∧ n' = n)) :
    findObj (removeObj objs k n) k' n' = findObj objs k' n' := by
  induction objs with
  | nil => rfl
  | cons o objs ih =>
    have hr : removeObj (o :: objs) k n = if o.kind = k ∧ o.name = n then removeObj objs k n else o :: removeObj objs k n := by
      by_cases hm : o.kind = k ∧ o.name = n
      · simp [removeObj, hm]
      · simp [removeObj, List.filter_cons, hm]
    rw [hr, findObj_cons]
    by_cases hm : o.kind = k ∧ o.name = n
    · have : ¬ (o.kind = k' ∧ o.name = n') := fun h' => h ⟨h'.1.symm.trans hm.1, h'.2.symm.trans hm.2⟩
      rw [if_pos hm, if_neg this]
      exact ih
    · rw [if_neg hm, findObj_cons, ih]

theorem findObj_removeObj_same (objs : List CObj) (k n : String) : findObj (removeObj objs k n) k n = none := by
  unfold findObj
  apply List.find?_eq_none.mpr
  intro x hx
  simpa using (mem_removeObj.mp hx).2

theorem findObj_mapObj (objs : List CObj) (k n k' n' : String) (f : CObj → CObj)
    (hf : ∀ o, (f o).kind = o.kind ∧ (f o).name = o.name) :
    findObj (mapObj objs k n f) k' n' =
      (findObj objs k' n').map (fun o => if o.kind = k ∧ o.name = n then f o else o) := by
  induction objs with
  | nil => rfl
  | cons o objs ih =>
    have hm : mapObj (o :: objs) k n f = (if o.kind = k ∧ o.name = n then f o else o) :: mapObj objs k n f := by
      simp [mapObj]
    rw [hm, findObj_cons, findObj_cons]
    have hkn : (if o.kind = k ∧ o.name = n then f o else o).kind = o.kind ∧
        (if o.kind = k ∧ o.name = n then f o else o).name = o.name := by
      split
      · exact hf o
      · exact ⟨rfl, rfl⟩
    rw [hkn.1, hkn.2]
    by_cases h : o.kind = k' ∧ o.name = n'
    · simp only [h, and_self, if_true, Option.map_some]
    · simp only [h, if_false]; exact ih

/-- what `findObj` finds after a delete was already there before, with the same annotation
and controller -/
theorem findObj_delete {s : St} {k n k' n' : String} {o' : CObj}
    (h : findObj (exec s (.delete k n)).1.objs k' n' = some o') :
    ∃ o, findObj s.objs k' n' = some o ∧ o'.annot = o.annot ∧ o'.ctrl = o.ctrl := by
  cases hf : findObj s.objs k n with
  | none => rw [exec_delete_none hf] at h; exact ⟨o', h, rfl, rfl⟩
  | some o0 =>
    cases hfin : o0.fin with
    | true =>
      rw [exec_delete_fin hf hfin] at h
      simp only [] at h
      rw [findObj_mapObj _ _ _ _ _ (fun o => { o with deleting := true }) (fun o => ⟨rfl, rfl⟩)] at h
      cases hf' : findObj s.objs k' n' with
      | none => simp [hf'] at h
      | some o =>
        simp only [hf', Option.map_some, Option.some.injEq] at h
        refine ⟨o, rfl, ?_⟩
        subst h
        split <;> exact ⟨rfl, rfl⟩
    | false =>
      rw [exec_delete_nofin hf hfin] at h
      simp only [] at h
      by_cases hk : k' = k ∧ n' = n
      · rw [hk.1, hk.2, findObj_removeObj_same] at h; cases h
      · rw [findObj_removeObj_other _ hk] at h; exact ⟨o', h, rfl, rfl⟩

/-- a delete does not change what `findObj` finds under another key -/
theorem findObj_delete_other {s : St} {k n k' n' : String} (hk : ¬ (k' = k ∧ n' = n)) :
    findObj (exec s (.delete k n)).1.objs k' n' = findObj s.objs k' n' := by
  cases hf : findObj s.objs k n with
  | none => rw [exec_delete_none hf]
  | some o0 =>
    cases hfin : o0.fin with
    | true =>
      rw [exec_delete_fin hf hfin]
      simp only []
      rw [findObj_mapObj _ _ _ _ _ (fun o => { o with deleting := true }) (fun o => ⟨rfl, rfl⟩)]
      cases hf' : findObj s.objs k' n' with
      | none => rfl
      | some o =>
        obtain ⟨_, h1, h2⟩ := findObj_some hf'
        have : ¬ (o.kind = k ∧ o.name = n) := fun h => hk ⟨h1.symm.trans h.1, h2.symm.trans h.2⟩
        simp only [Option.map_some, this, if_false]
    | false =>
      rw [exec_delete_nofin hf hfin]
      exact findObj_removeObj_other _ hk

/-- `objs` came from `objs0` by deletes only, as far as `findObj` can tell -/
def Faded (objs0 objs : List CObj) : Prop :=
  ∀ k n o, findObj objs k n = some o → ∃ o0, findObj objs0 k n = some o0 ∧ o.annot = o0.annot ∧ o.ctrl = o0.ctrl

theorem Faded.refl (objs : List CObj) : Faded objs objs := fun _ _ o h => ⟨o, h, rfl, rfl⟩

theorem Faded.delete {objs0 : List CObj} {s : St} (h : Faded objs0 s.objs) (k n : String) :
    Faded objs0 (exec s (.delete k n)).1.objs := by
  intro k' n' o' ho'
  obtain ⟨o, ho, ha, hc⟩ := findObj_delete ho'
  obtain ⟨o0, ho0, ha0, hc0⟩ := h k' n' o ho
  exact ⟨o0, ho0, ha.trans ha0, hc.trans hc0⟩

/-! ### the association loop, one reference at a time -/

/-- what `AssociateTemplates` does with a referenced object it has read -/
def assocFound (lrv : Nat) (tmpl : List Desired) (rs : List Ref) (acc : Assoc) (k : Assoc → P) (r : Ref) (o : CObj) : P :=
  if o.annot = "" then onError lrv
  else if tmpl.any (·.rname = o.annot) then associatePT lrv tmpl rs (assocInsert acc o.annot r) k
  else if o.ctrl = .other then onError lrv
  else
    wcall lrv (.gcUpdate o.kind o.name) fun _ =>
    wcall lrv (.delete o.kind o.name) fun _ =>
    associatePT lrv tmpl rs acc k

theorem associatePT_skip (lrv : Nat) (tmpl : List Desired) (r : Ref) (rs : List Ref) (acc : Assoc) (k : Assoc → P)
    (hn : r.name = "") : associatePT lrv tmpl (r :: rs) acc k = associatePT lrv tmpl rs acc k := by
  simp only [associatePT, hn, if_true]

theorem associatePT_cons (lrv : Nat) (tmpl : List Desired) (r : Ref) (rs : List Ref) (acc : Assoc) (k : Assoc → P)
    (hn : r.name ≠ "") :
    associatePT lrv tmpl (r :: rs) acc k =
      .call (.getCached r.kind r.name) fun
        | .found o => assocFound lrv tmpl rs acc k r o
        | .notFound => .call (.getObj r.kind r.name) fun
          | .found o => assocFound lrv tmpl rs acc k r o
          | .notFound => associatePT lrv tmpl rs acc k
          | _ => onError lrv
        | _ => onError lrv := by
  simp only [associatePT, hn, if_false]
  rfl

theorem emits_wcall {Q : Req → Prop} (hst : ∀ l, Q (.statusUpdate l)) (lrv : Nat) (r : Req) (k : Resp → P) (s : St)
    (hr : Q r) (hk : ∀ x, Emits sem Q (k x) (exec s r).1) : Emits sem Q (wcall lrv r k) s := by
  unfold wcall
  simp only [Emits, sem]
  refine ⟨hr, ?_, emits_onError _ hst _, ?_⟩
  · generalize (exec s r).2 = x
    cases x <;> first | exact hk _ | exact emits_onError _ hst _ | trivial
  · by_cases hrd : isRead r = true
    · simp only [hrd, if_true]; exact emits_onError _ hst _
    · simp only [hrd, Bool.false_eq_true, if_false]; exact Issues.emits (Issues.ret _) _

/-- Under every fault plan, the association loop issues garbage-collection requests only for
references whose object (as it was when the reconcile started) is annotated with a name that
is not a template, and is not controlled by someone else. -/
theorem emits_associatePT {Q : Req → Prop} (hget : ∀ k n, Q (.getObj k n)) (hgetc : ∀ k n, Q (.getCached k n))
    (hst : ∀ l, Q (.statusUpdate l))
    (objs0 : List CObj) (refs0 : List Ref) (lrv : Nat) (tmpl : List Desired) (k : Assoc → P)
    (hk : ∀ a, Issues Q (k a))
    (hQ : ∀ kk n o, (⟨kk, n⟩ : Ref) ∈ refs0 → n ≠ "" → findObj objs0 kk n = some o → o.annot ≠ "" →
      tmpl.any (·.rname = o.annot) = false → o.ctrl ≠ .other → Q (.gcUpdate kk n) ∧ Q (.delete kk n)) :
    ∀ (rs : List Ref) (acc : Assoc) (s : St), (∀ r ∈ rs, r ∈ refs0) → Faded objs0 s.objs →
      Emits sem Q (associatePT lrv tmpl rs acc k) s := by
  intro rs
  induction rs with
  | nil => intro acc s _ _; simp only [associatePT]; exact (hk acc).emits s
  | cons r rs ih =>
    intro acc s hrs hfd
    have hr : r ∈ refs0 := hrs r (List.mem_cons_self ..)
    have hrs' : ∀ x ∈ rs, x ∈ refs0 := fun x hx => hrs x (List.mem_cons_of_mem _ hx)
    by_cases hn : r.name = ""
    · rw [associatePT_skip _ _ _ _ _ _ hn]; exact ih acc s hrs' hfd
    · rw [associatePT_cons _ _ _ _ _ _ hn]
      have hfound : ∀ o, findObj s.objs r.kind r.name = some o → Emits sem Q (assocFound lrv tmpl rs acc k r o) s := by
        intro o hf
        obtain ⟨_, hk1, hk2⟩ := findObj_some hf
        obtain ⟨o0, hf0, ha0, hc0⟩ := hfd _ _ _ hf
        unfold assocFound
        by_cases ha : o.annot = ""
        · simp only [ha, if_true]; exact emits_onError _ hst _
        · simp only [ha, if_false]
          by_cases ht : (tmpl.any (·.rname = o.annot)) = true
          · simp only [ht, if_true]; exact ih _ s hrs' hfd
          · simp only [ht, Bool.false_eq_true, if_false]
            by_cases hc : o.ctrl = .other
            · simp only [hc, if_true]; exact emits_onError _ hst _
            · simp only [hc, if_false]
              have hq := hQ r.kind r.name o0 (by cases r; exact hr) hn hf0 (ha0 ▸ ha)
                (by rw [← ha0]; simpa using ht) (hc0 ▸ hc)
              rw [hk1, hk2]
              apply emits_wcall hst _ _ _ _ hq.1
              intro _
              rw [exec_gcUpdate_state]
              apply emits_wcall hst _ _ _ _ hq.2
              intro _
              exact ih acc _ hrs' (hfd.delete _ _)
      cases hf : findObj s.objs r.kind r.name with
      | some o =>
        by_cases hmiss : (⟨r.kind, r.name⟩ : Ref) ∈ s.miss
        · -- missing from the cache: the live read finds it
          simp only [Emits, sem, exec_getCached_miss hmiss, exec_getObj_some hf, isRead, if_true]
          exact ⟨hgetc _ _, ⟨hget _ _, hfound o hf, emits_onError _ hst _, emits_onError _ hst _⟩,
            emits_onError _ hst _, emits_onError _ hst _⟩
        · simp only [Emits, sem, exec_getCached_some hf hmiss, isRead, if_true]
          exact ⟨hgetc _ _, hfound o hf, emits_onError _ hst _, emits_onError _ hst _⟩
      | none =>
        simp only [Emits, sem, exec_getCached_none hf, exec_getObj_none hf, isRead, if_true]
        exact ⟨hgetc _ _, ⟨hget _ _, ih acc s hrs' hfd, emits_onError _ hst _, emits_onError _ hst _⟩,
          emits_onError _ hst _, emits_onError _ hst _⟩

/-! ### the rest of the P&T composer issues no garbage-collection request -/

theorem issues_renderPT {Q : Req → Prop} (hget : ∀ k n, Q (.getCached k n)) (hst : ∀ l, Q (.statusUpdate l))
    (lrv : Nat) (a : Assoc) (k : List Rendered → P) (hk : ∀ rs, Issues Q (k rs)) :
    ∀ (ds : List Desired) (fresh : List String) (acc : List Rendered), Issues Q (renderPT lrv a ds fresh acc k) := by
  intro ds
  induction ds with
  | nil => intro fresh acc; simp only [renderPT]; exact hk _
  | cons d ds ih =>
    intro fresh acc
    simp only [renderPT]
    split
    · split
      · exact ih _ _
      · exact issues_onErrorO' _ (hst _)
    · split
      · exact ih _ _
      · refine Issues.call _ _ (hget _ _) ?_
        intro x
        cases x <;> exact ih _ _

theorem issues_applyPT {Q : Req → Prop} (hQ : ∀ r, NoGc r → Q r) (k : Bool → P) (hk : ∀ b, Issues Q (k b)) :
    ∀ (rs : List Rendered) (lrv : Nat) (b : Bool), Issues Q (applyPT lrv rs b k) := by
  have hst : ∀ l, Q (.statusUpdate l) := fun _ => hQ _ trivial
  intro rs
  induction rs with
  | nil => intro lrv b; simp only [applyPT]; exact hk b
  | cons r rs ih =>
    intro lrv b
    simp only [applyPT]
    split
    · exact ih _ _
    · refine Issues.call _ _ (hQ _ trivial) ?_
      intro x
      cases x with
      | notFound =>
        refine issues_wcall _ _ _ (hQ _ trivial) (hst _) ?_
        intro y
        cases y <;> first | exact ih _ _ | exact issues_onErrorO' _ (hst _)
      | found o =>
        simp only []
        split
        · exact issues_onErrorO' _ (hst _)
        · refine issues_wcall _ _ _ (hQ _ trivial) (hst _) ?_
          intro y
          cases y <;> first | exact ih _ _ | exact issues_onErrorO' _ (hst _)
      | _ => exact issues_onErrorO' _ (hst _)

/-- what `composePT` does once the association is complete -/
def ptTail (lrv : Nat) (tmpl : List Desired) (fresh : List String) (ver : String) (a : Assoc) : P :=
  renderPT lrv a tmpl fresh [] fun rs =>
  wcall lrv (.updateXR lrv ver (rs.map rkey)) fun rsp =>
  let lrv' := match rsp with | .okRv rv => rv | _ => lrv
  applyPT lrv' rs true fun synced =>
  .call .getXR fun
    | .xr _ _ _ => wcall lrv' .patchXR fun _ => finish lrv' synced
    | _ => onError lrv'

theorem composePT_eq (lrv : Nat) (refs : List Ref) (tmpl : List Desired) (fresh : List String) (ver : String) :
    composePT lrv refs tmpl fresh ver = associatePT lrv tmpl refs [] (ptTail lrv tmpl fresh ver) := rfl

theorem issues_ptTail {Q : Req → Prop} (hQ : ∀ r, NoGc r → Q r) (lrv : Nat) (tmpl : List Desired) (fresh : List String)
    (ver : String) (a : Assoc) : Issues Q (ptTail lrv tmpl fresh ver a) := by
  have hst : ∀ l, Q (.statusUpdate l) := fun _ => hQ _ trivial
  unfold ptTail
  apply issues_renderPT (fun _ _ => hQ _ trivial) hst
  intro rs
  refine issues_wcall _ _ _ (hQ _ trivial) (hst _) ?_
  intro rsp
  simp only []
  apply issues_applyPT hQ
  intro synced
  refine Issues.call _ _ (hQ _ trivial) ?_
  intro x
  cases x <;> first
    | exact issues_onErrorO' _ (hst _)
    | exact issues_wcall _ _ _ (hQ _ trivial) (hst _) (fun _ => issues_finish _ _ (hst _))

theorem emits_composePT {Q : Req → Prop} (hQ : ∀ r, NoGc r → Q r) (tmpl : List Desired) (fresh : List String)
    (ver : String) (lrv : Nat) (s0 s : St) (hobjs : s.objs = s0.objs)
    (hgc : ∀ kk n o, (⟨kk, n⟩ : Ref) ∈ s0.refs → n ≠ "" → findObj s0.objs kk n = some o → o.annot ≠ "" →
      tmpl.any (·.rname = o.annot) = false → o.ctrl ≠ .other → Q (.gcUpdate kk n) ∧ Q (.delete kk n)) :
    Emits sem Q (composePT lrv s0.refs tmpl fresh ver) s := by
  rw [composePT_eq]
  exact emits_associatePT (fun _ _ => hQ _ trivial) (fun _ _ => hQ _ trivial) (fun _ => hQ _ trivial) s0.objs s0.refs lrv tmpl _
    (issues_ptTail hQ lrv tmpl fresh ver) hgc s0.refs [] s (fun _ h => h) (hobjs ▸ Faded.refl _)

/-! ### fault-free run of the association loop -/

theorem reached_wcall {C : Req → Prop} {lrv : Nat} {r : Req} {k : Resp → P} {s : St} (hr : ¬ C r)
    (hresp : (exec s r).2 = .ok ∨ (exec s r).2 = .notFound) (h : Reached C (wcall lrv r k) s) :
    Reached C (k (exec s r).2) (exec s r).1 := by
  unfold wcall at h
  have h1 := reached_call hr h
  rcases hresp with e | e <;> rw [e] at h1 ⊢ <;> exact h1

/-- On a fault-free run that gets past the association, every reference whose object exists
and is annotated with a name that is no template has had both garbage-collection requests
applied. -/
theorem reached_associatePT {C : Req → Prop} (hget : ∀ k n, ¬ C (.getObj k n)) (hgetc : ∀ k n, ¬ C (.getCached k n))
    (hst : ∀ l, ¬ C (.statusUpdate l))
    (hgu : ∀ k n, ¬ C (.gcUpdate k n)) (hdel : ∀ k n, ¬ C (.delete k n))
    (lrv : Nat) (tmpl : List Desired) (k : Assoc → P) :
    ∀ (rs : List Ref) (acc : Assoc) (s : St), Reached C (associatePT lrv tmpl rs acc k) s →
      ∀ r ∈ rs, r.name ≠ "" → ∀ o, findObj s.objs r.kind r.name = some o → tmpl.any (·.rname = o.annot) = false →
        Req.gcUpdate r.kind r.name ∈ okApplied (associatePT lrv tmpl rs acc k) s ∧
        Req.delete r.kind r.name ∈ okApplied (associatePT lrv tmpl rs acc k) s := by
  intro rs
  induction rs with
  | nil => intro acc s _ r hr; cases hr
  | cons r0 rs ih =>
    intro acc s h r hr hrn o hf ht
    by_cases hn : r0.name = ""
    · rw [associatePT_skip _ _ _ _ _ _ hn] at h ⊢
      rcases List.mem_cons.mp hr with rfl | hr
      · exact absurd hn hrn
      · exact ih acc s h r hr hrn o hf ht
    · rw [associatePT_cons _ _ _ _ _ _ hn] at h ⊢
      have h1 := reached_call (hgetc _ _) h
      rw [okApplied_call]
      cases hf0 : findObj s.objs r0.kind r0.name with
      | none =>
        rw [exec_getCached_none hf0] at h1 ⊢
        simp only [] at h1 ⊢
        have h2 := reached_call (hget _ _) h1
        rw [okApplied_call]
        rw [exec_getObj_none hf0] at h2 ⊢
        simp only [] at h2 ⊢
        rcases List.mem_cons.mp hr with rfl | hr
        · rw [hf0] at hf; cases hf
        · have := ih acc s h2 r hr hrn o hf ht
          exact ⟨List.mem_cons_of_mem _ (List.mem_cons_of_mem _ this.1),
            List.mem_cons_of_mem _ (List.mem_cons_of_mem _ this.2)⟩
      | some o0 =>
        -- what follows once the object has been read (from the cache, or live after a miss)
        have hfound : Reached C (assocFound lrv tmpl rs acc k r0 o0) s →
            Req.gcUpdate r.kind r.name ∈ okApplied (assocFound lrv tmpl rs acc k r0 o0) s ∧
            Req.delete r.kind r.name ∈ okApplied (assocFound lrv tmpl rs acc k r0 o0) s := by
          intro h1
          obtain ⟨_, hk1, hk2⟩ := findObj_some hf0
          unfold assocFound at h1 ⊢
          by_cases ha : o0.annot = ""
          · simp only [ha, if_true] at h1; exact absurd h1 (not_reached_onError hst)
          · simp only [ha, if_false] at h1 ⊢
            by_cases ht0 : (tmpl.any (·.rname = o0.annot)) = true
            · simp only [ht0, if_true] at h1 ⊢
              rcases List.mem_cons.mp hr with rfl | hr
              · rw [hf0] at hf; cases hf; rw [ht0] at ht; cases ht
              · exact ih _ s h1 r hr hrn o hf ht
            · simp only [ht0, Bool.false_eq_true, if_false] at h1 ⊢
              by_cases hc : o0.ctrl = .other
              · simp only [hc, if_true] at h1; exact absurd h1 (not_reached_onError hst)
              · simp only [hc, if_false] at h1 ⊢
                have h2 := reached_wcall (hgu _ _) (exec_gcUpdate_resp ..) h1
                rw [exec_gcUpdate_state] at h2
                have h3 := reached_wcall (hdel _ _) (exec_delete_resp ..) h2
                rw [okApplied_wcall (exec_gcUpdate_resp ..), exec_gcUpdate_state,
                  okApplied_wcall (exec_delete_resp ..)]
                rw [hk1, hk2] at h3 ⊢
                by_cases hsame : r.kind = r0.kind ∧ r.name = r0.name
                · rw [hsame.1, hsame.2]
                  exact ⟨List.mem_cons_self ..,
                    List.mem_cons_of_mem _ (List.mem_cons_self ..)⟩
                · rcases List.mem_cons.mp hr with rfl | hr
                  · exact absurd ⟨rfl, rfl⟩ hsame
                  · have hf' : findObj (exec s (.delete r0.kind r0.name)).1.objs r.kind r.name = some o := by
                      rw [findObj_delete_other hsame]; exact hf
                    have := ih acc _ h3 r hr hrn o hf' ht
                    exact ⟨List.mem_cons_of_mem _ (List.mem_cons_of_mem _ this.1),
                      List.mem_cons_of_mem _ (List.mem_cons_of_mem _ this.2)⟩
        by_cases hmiss : (⟨r0.kind, r0.name⟩ : Ref) ∈ s.miss
        · rw [exec_getCached_miss hmiss] at h1 ⊢
          simp only [] at h1 ⊢
          have h2 := reached_call (hget _ _) h1
          rw [okApplied_call]
          rw [exec_getObj_some hf0] at h2 ⊢
          simp only [] at h2 ⊢
          have := hfound h2
          exact ⟨List.mem_cons_of_mem _ (List.mem_cons_of_mem _ this.1),
            List.mem_cons_of_mem _ (List.mem_cons_of_mem _ this.2)⟩
        · rw [exec_getCached_some hf0 hmiss] at h1 ⊢
          simp only [] at h1 ⊢
          have := hfound h1
          exact ⟨List.mem_cons_of_mem _ this.1, List.mem_cons_of_mem _ this.2⟩

end Xp.C01

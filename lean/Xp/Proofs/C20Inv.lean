import Xp.Proofs.C20Steps
/-
C20 helper lemmas, part 4: invariants of the whole initializer under arbitrary
fault plans and over histories of runs.
-/
namespace Xp.C20
open Xp

variable {α β : Type}

/-- CA secret names of the TLS steps -/
def caNames : List Step → List String
  | [] => []
  | .tls ca _ _ :: rest => ca :: caNames rest
  | _ :: rest => caNames rest

/-- every store visible over a sequence of runs of the same step list, each under its own fault
plan and with its own nonce (controller-local state is lost between runs) -/
def history (g : Generator) (steps : List Step) : List (Plan × Nat) → Store → List Store
  | [], s => [s]
  | (pl, n) :: rest, s =>
    reach sem pl 0 (runSteps g steps n 0) s ++ history g steps rest (run sem pl 0 (runSteps g steps n 0) s).1

theorem issues_true (p : P α) : Issues (fun _ : Req => True) p := by
  induction p with
  | ret a => exact .ret a
  | call r c ih => exact .call r c trivial ih

theorem only_safe {c : Comp} (hc : c ≠ .secrets) (cas : List String) (r : Req) (h : Only c r) : SafeReq cas r := by
  cases r <;> simp [SafeReq, Only, Req.comp] at h ⊢
  exact absurd h.symm hc

theorem withNonce_issues {Q : Req → Prop} (n : Nat) {p : P Res} (h : Issues Q p) : Issues Q (withNonce n p) := by
  unfold withNonce
  exact issues_bind h (fun _ => .ret _)

theorem step_issues_safe (g : Generator) (n : Nat) (cas : List String) (st : Step)
    (h : ∀ ca ∈ caNames [st], ca ∈ cas) : Issues (SafeReq cas) (st.prog g n) := by
  cases st with
  | tls ca sv cl => exact tlsStep_issues g ca (h ca (by simp [caNames])) sv cl n
  | crds ref d => exact withNonce_issues n (issues_mono (only_safe (by decide) cas) (crdsStep_issues ref d))
  | whcs ref svc d => exact withNonce_issues n (issues_mono (only_safe (by decide) cas) (whcsStep_issues ref svc d))
  | mig crd old => exact withNonce_issues n (issues_mono (only_safe (by decide) cas) (migrateStep_issues crd old))
  | lock => exact withNonce_issues n (issues_mono (only_safe (by decide) cas) lockStep_issues)
  | install p c f => exact withNonce_issues n (issues_mono (only_safe (by decide) cas) (installWith_issues _ p c f))
  | sc ns => exact withNonce_issues n (issues_mono (only_safe (by decide) cas) (scStep_issues ns))
  | drc => exact withNonce_issues n (issues_mono (only_safe (by decide) cas) drcStep_issues)

theorem caNames_cons (st : Step) (rest : List Step) : caNames (st :: rest) = caNames [st] ++ caNames rest := by
  cases st <;> simp [caNames]

theorem runSteps_issues {Q : Req → Prop} (g : Generator) (steps : List Step)
    (h : ∀ st ∈ steps, ∀ n, Issues Q (st.prog g n)) (n d : Nat) : Issues Q (runSteps g steps n d) := by
  induction steps generalizing n d with
  | nil => exact .ret _
  | cons st rest ih =>
    unfold runSteps
    refine issues_bind (h st (by simp) n) ?_
    rintro ⟨r, n'⟩
    simp only
    split
    · exact ih (fun st' hst => h st' (by simp [hst])) _ _
    · exact .ret _

theorem runSteps_issues_safe (g : Generator) (steps : List Step) (cas : List String)
    (h : ∀ ca ∈ caNames steps, ca ∈ cas) (n d : Nat) : Issues (SafeReq cas) (runSteps g steps n d) := by
  refine runSteps_issues g steps ?_ n d
  intro st hst n'
  refine step_issues_safe g n' cas st ?_
  intro ca hca
  refine h ca ?_
  clear h
  induction steps with
  | nil => cases hst
  | cons x xs ih =>
    rw [caNames_cons]
    rcases List.mem_cons.mp hst with e | e
    · subst e; exact List.mem_append_left _ hca
    · exact List.mem_append_right _ (ih e)

theorem keptFrom_trans {cas : List String} {a b c : Store} (h1 : KeptFrom cas a b) (h2 : KeptFrom cas b c) :
    KeptFrom cas a c := fun n sec h0 hp => h2 n sec (h1 n sec h0 hp) hp

/-- generic rule for invariants over histories -/
theorem history_inv (g : Generator) (steps : List Step) (Inv : Store → Prop)
    (hrun : ∀ (pl : Plan) (n : Nat) (s : Store), Inv s → ∀ x ∈ reach sem pl 0 (runSteps g steps n 0) s, Inv x)
    (runs : List (Plan × Nat)) (s : Store) (hs : Inv s) : ∀ x ∈ history g steps runs s, Inv x := by
  induction runs generalizing s with
  | nil => intro x hx; simp [history] at hx; subst hx; exact hs
  | cons r rest ih =>
    obtain ⟨pl, n⟩ := r
    intro x hx
    simp only [history, List.mem_append] at hx
    rcases hx with hx | hx
    · exact hrun pl n s hs x hx
    · exact ih _ (hrun pl n s hs _ (run_mem_reach sem pl 0 _ s)) x hx

theorem kept_history (g : Generator) (steps : List Step) (runs : List (Plan × Nat)) (s : Store) :
    ∀ x ∈ history g steps runs s, KeptFrom (caNames steps) s x :=
  history_inv g steps (KeptFrom (caNames steps) s)
    (fun pl n s' hs' => kept_of_issues pl 0 _ (runSteps_issues_safe g steps _ (fun _ h => h) n 0) s s' hs')
    runs s (keptFrom_refl _ s)

/-! ### objects no step ever modifies -/

/-- existing default objects, user fields of packages / CRDs / webhook configurations, custom resources -/
def Untouched (s₀ s : Store) : Prop :=
  (∀ v, s₀.lock = some v → s.lock = some v) ∧
  (∀ v, s₀.sc = some v → s.sc = some v) ∧
  (∀ v, s₀.drc = some v → s.drc = some v) ∧
  s.crs = s₀.crs ∧
  (∀ k n p, findPkg s₀ k n = some p → ∃ p', findPkg s k n = some p' ∧ p'.extra = p.extra) ∧
  (∀ n c, findCrd s₀ n = some c → ∃ c', findCrd s n = some c' ∧ c'.extra = c.extra) ∧
  (∀ k n w, findWhc s₀ k n = some w → ∃ w', findWhc s k n = some w' ∧ w'.extra = w.extra)

theorem untouched_refl (s : Store) : Untouched s s :=
  ⟨fun _ h => h, fun _ h => h, fun _ h => h, rfl, fun _ _ p h => ⟨p, h, rfl⟩, fun _ c h => ⟨c, h, rfl⟩,
   fun _ _ w h => ⟨w, h, rfl⟩⟩

theorem find_append_some {γ : Type} (l : List γ) (x : γ) (p : γ → Bool) (v : γ) (h : l.find? p = some v) :
    (l ++ [x]).find? p = some v := by simp [List.find?_append, h]

theorem find_map_some {γ : Type} (l : List γ) (p : γ → Bool) (f : γ → γ) (hf : ∀ x, p (f x) = p x) (v : γ)
    (h : l.find? p = some v) : (l.map f).find? p = some (f v) := by
  rw [List.find?_map]
  have : (p ∘ f) = p := funext hf
  rw [this, h]; rfl

theorem exec_lock_kept (s : Store) (r : Req) (v : Int) (h : s.lock = some v) : (exec s r).1.lock = some v := by
  by_cases hc : r.comp = some .lock
  · cases r <;> simp [Req.comp] at hc
    simp [exec, h]
  · rw [frame_lock s r hc]; exact h

theorem exec_sc_kept (s : Store) (r : Req) (v : String × Int) (h : s.sc = some v) : (exec s r).1.sc = some v := by
  by_cases hc : r.comp = some .sc
  · cases r <;> simp [Req.comp] at hc
    simp [exec, h]
  · rw [frame_sc s r hc]; exact h

theorem exec_drc_kept (s : Store) (r : Req) (v : Int) (h : s.drc = some v) : (exec s r).1.drc = some v := by
  by_cases hc : r.comp = some .drc
  · cases r <;> simp [Req.comp] at hc
    simp [exec, h]
  · rw [frame_drc s r hc]; exact h

theorem exec_pkg_extra (s : Store) (r : Req) (k : PKind) (n : String) (p : Pkg) (h : findPkg s k n = some p) :
    ∃ p', findPkg (exec s r).1 k n = some p' ∧ p'.extra = p.extra := by
  by_cases hc : r.comp = some .pkgs
  · cases r <;> simp [Req.comp] at hc
    case createPkg q =>
      simp only [exec]
      split
      · exact ⟨p, h, rfl⟩
      · exact ⟨p, find_append_some _ _ _ _ h, rfl⟩
    case patchPkg k' n' r' =>
      simp only [exec]
      split
      · exact ⟨p, h, rfl⟩
      · refine ⟨_, find_map_some _ _ _ ?_ _ h, ?_⟩
        · intro x; by_cases hx : x.kind = k' ∧ x.name = n' <;> simp [hx]
        · by_cases hx : p.kind = k' ∧ p.name = n' <;> simp [hx]
  · simp only [findPkg] at h ⊢
    rw [frame_pkgs s r hc]; exact ⟨p, h, rfl⟩

theorem exec_crd_extra (s : Store) (r : Req) (n : String) (c : Crd) (h : findCrd s n = some c) :
    ∃ c', findCrd (exec s r).1 n = some c' ∧ c'.extra = c.extra := by
  by_cases hc : r.comp = some .crds
  · cases r <;> simp [Req.comp] at hc
    case createCrd q =>
      simp only [exec]
      split
      · exact ⟨c, h, rfl⟩
      · exact ⟨c, find_append_some _ _ _ _ h, rfl⟩
    case patchCrd f cb =>
      simp only [exec]
      split
      · exact ⟨c, h, rfl⟩
      · refine ⟨_, find_map_some _ _ _ ?_ _ h, ?_⟩
        · intro x; by_cases hx : x.name = f.name <;> simp [hx, patchCrdWith]
        · by_cases hx : c.name = f.name <;> simp [hx, patchCrdWith]
    case patchCrdStored n' vs =>
      simp only [exec]
      split
      · exact ⟨c, h, rfl⟩
      · refine ⟨_, find_map_some _ _ _ ?_ _ h, ?_⟩
        · intro x; by_cases hx : x.name = n' <;> simp [hx]
        · by_cases hx : c.name = n' <;> simp [hx]
  · simp only [findCrd] at h ⊢
    rw [frame_crds s r hc]; exact ⟨c, h, rfl⟩

@[simp] theorem patchWhcWith_kind (h : List Hook) (w : Whc) : (patchWhcWith h w).kind = w.kind := by
  unfold patchWhcWith; split <;> rfl
@[simp] theorem patchWhcWith_name (h : List Hook) (w : Whc) : (patchWhcWith h w).name = w.name := by
  unfold patchWhcWith; split <;> rfl
@[simp] theorem patchWhcWith_extra (h : List Hook) (w : Whc) : (patchWhcWith h w).extra = w.extra := by
  unfold patchWhcWith; split <;> rfl

theorem exec_whc_extra (s : Store) (r : Req) (k : WKind) (n : String) (w : Whc) (h : findWhc s k n = some w) :
    ∃ w', findWhc (exec s r).1 k n = some w' ∧ w'.extra = w.extra := by
  by_cases hc : r.comp = some .whcs
  · cases r <;> simp [Req.comp] at hc
    case createWhc q =>
      simp only [exec]
      split
      · exact ⟨w, h, rfl⟩
      · exact ⟨w, find_append_some _ _ _ _ h, rfl⟩
    case patchWhc k' n' hooks =>
      simp only [exec]
      split
      · exact ⟨w, h, rfl⟩
      · refine ⟨_, find_map_some _ _ _ ?_ _ h, ?_⟩
        · intro x; by_cases hx : x.kind = k' ∧ x.name = n' <;> simp [hx]
        · by_cases hx : w.kind = k' ∧ w.name = n' <;> simp [hx]
  · simp only [findWhc] at h ⊢
    rw [frame_whcs s r hc]; exact ⟨w, h, rfl⟩

theorem exec_untouched {s₀ s : Store} (r : Req) (h : Untouched s₀ s) : Untouched s₀ (exec s r).1 := by
  obtain ⟨h1, h2, h3, h4, h5, h6, h7⟩ := h
  refine ⟨fun v hv => exec_lock_kept s r v (h1 v hv), fun v hv => exec_sc_kept s r v (h2 v hv),
    fun v hv => exec_drc_kept s r v (h3 v hv), by rw [frame_crs]; exact h4, ?_, ?_, ?_⟩
  · intro k n p hp
    obtain ⟨p', hp', he⟩ := h5 k n p hp
    obtain ⟨p'', hp'', he'⟩ := exec_pkg_extra s r k n p' hp'
    exact ⟨p'', hp'', he'.trans he⟩
  · intro n c hc
    obtain ⟨c', hc', he⟩ := h6 n c hc
    obtain ⟨c'', hc'', he'⟩ := exec_crd_extra s r n c' hc'
    exact ⟨c'', hc'', he'.trans he⟩
  · intro k n w hw
    obtain ⟨w', hw', he⟩ := h7 k n w hw
    obtain ⟨w'', hw'', he'⟩ := exec_whc_extra s r k n w' hw'
    exact ⟨w'', hw'', he'.trans he⟩

theorem untouched_history (g : Generator) (steps : List Step) (runs : List (Plan × Nat)) (s : Store) :
    ∀ x ∈ history g steps runs s, Untouched s x :=
  history_inv g steps (Untouched s)
    (fun pl n s' hs' => reach_inv sem (Untouched s) (fun _ => True) (fun _ r hi _ => exec_untouched r hi) pl 0 _
      (issues_true _) s' hs')
    runs s (untouched_refl s)

end Xp.C20

import Xp.Model.C02Crd
/-
C02, site "an XRD defining its CRDs": proofs about the model of the definition / offered
reconcilers (Xp.Model.C02Crd), for every fault plan.

 * `crd_foreign_untouched`      a CRD controlled by another owner is, in every store the
                                reconcile passes through, exactly what it was;
 * `crd_foreign_no_write`       no applied request is addressed to it;
 * `crd_foreign_never_success`  under every fault plan such a reconcile of a live XRD does not
                                end in plain success, and
 * `crd_foreign_surfaces_error` fault-free it ends in an error;
 * `crd_deletion_guard`         a deleting XRD never touches a CRD it does not control;
 * `crd_uncontrolled_adopted`, `crd_own_updated`, `crd_absent_created`
                                what happens to a CRD that may be written.
-/
namespace Xp.C02Crd
open Xp

/-! ### frame: which requests can change the CRD slot -/

/-- the requests that are addressed to the CRD and can change a stored CRD -/
def Req.writesCRD : Req → Bool
  | .updateCRD _ | .deleteCRD => true
  | _ => false

/-- addressed to the CRD at all (create included) -/
def Req.targetsCRD : Req → Bool
  | .createCRD | .updateCRD _ | .deleteCRD => true
  | _ => false

theorem exec_frame (s : St) (c : CRD) (r : Req) (hs : s.crd = some c) (hr : r.writesCRD = false) :
    (exec s r).1.crd = some c := by
  cases r <;> simp [Req.writesCRD] at hr <;> simp only [exec] <;> (repeat' split) <;> simp_all

/-! ### `Safe` (Base.Prog) for the invariant "the CRD slot holds exactly `c`" -/

abbrev Holds (c : CRD) : St → Prop := fun t => t.crd = some c

/-- a call that cannot change the slot, whatever its continuation is given -/
theorem safe_step (c : CRD) (r : Req) (k : Resp → P) (s : St) (hs : Holds c s) (hr : r.writesCRD = false)
    (hk : ∀ x s', Holds c s' → Safe sem (Holds c) (k x) s') : Safe sem (Holds c) (.call r k) s :=
  ⟨exec_frame s c r hs hr, hk _ _ (exec_frame s c r hs hr), hk _ _ hs, hk _ _ hs⟩

/-- reading the slot: the continuation is only ever given the stored CRD or an error -/
theorem safe_getCRD (c : CRD) (k : Resp → P) (s : St) (hs : Holds c s)
    (hk1 : ∀ s', Holds c s' → Safe sem (Holds c) (k (.crd (some c))) s')
    (hk2 : ∀ s', Holds c s' → Safe sem (Holds c) (k .err) s') : Safe sem (Holds c) (.call .getCRD k) s := by
  refine ⟨hs, ?_, hk2 _ hs, hk2 _ hs⟩
  have : (sem.exec s .getCRD) = (s, .crd (some c)) := by
    simp only [sem, exec]; rw [show s.crd = some c from hs]
  rw [this]
  exact hk1 _ hs

theorem safe_ret (c : CRD) (a : Res) (s : St) : Safe sem (Holds c) (.ret a : P) s := trivial

theorem safe_removeFinalizer (c : CRD) (d : XRD) (s : St) (hs : Holds c s) :
    Safe sem (Holds c) (removeFinalizer d) s := by
  unfold removeFinalizer
  split
  · apply safe_step c _ _ s hs rfl
    intro x s' _
    cases x <;> exact safe_ret c _ _
  · exact safe_ret c _ _

theorem safe_afterApply (c : CRD) (d : XRD) (est : Bool) (s : St) (hs : Holds c s) :
    Safe sem (Holds c) (afterApply d est) s := by
  unfold afterApply
  split
  · apply safe_step c _ _ s hs rfl
    intro x s' _
    cases x <;> exact safe_ret c _ _
  · exact safe_ret c _ _

/-- Apply with MustBeControllableBy never gets as far as a write when the CRD is foreign -/
theorem safe_applyCRD (c : CRD) (ho : c.ctrl = .other) (d : XRD) (s : St) (hs : Holds c s) :
    Safe sem (Holds c) (applyCRD d) s := by
  unfold applyCRD
  apply safe_getCRD c _ s hs
  · intro s' _; simp [ho]; exact safe_ret c _ _
  · intro s' _; exact safe_ret c _ _

theorem safe_live (c : CRD) (ho : c.ctrl = .other) (d : XRD) (s : St) (hs : Holds c s) :
    Safe sem (Holds c) (live d) s := by
  unfold live
  split
  · exact safe_applyCRD c ho d s hs
  · apply safe_step c _ _ s hs rfl
    intro x s' hs'
    cases x <;> first | exact safe_ret c _ _ | exact safe_applyCRD c ho _ s' hs'

/-- the deletion path with a CRD that is not controlled by the XRD: `IsControlledBy` fails,
the finalizer is removed, the CRD is orphaned -/
theorem safe_deletion (c : CRD) (hn : c.ctrl ≠ .xrd) (w : Which) (d : XRD) (s : St) (hs : Holds c s) :
    Safe sem (Holds c) (deletion w d) s := by
  unfold deletion
  apply safe_step c _ _ s hs rfl
  intro x s' hs'
  cases x <;> try exact safe_ret c _ _
  apply safe_getCRD c _ s' hs'
  · intro s'' hs''; simp [hn]; exact safe_removeFinalizer c _ s'' hs''
  · intro s'' _; exact safe_ret c _ _

theorem safe_reconcile (c : CRD) (ho : c.ctrl = .other) (w : Which) (s : St) (hs : Holds c s) :
    Safe sem (Holds c) (reconcile w) s := by
  unfold reconcile
  apply safe_step c _ _ s hs rfl
  intro x s' hs'
  cases x <;> try exact safe_ret c _ _
  rename_i x
  cases x with
  | none => exact safe_ret c _ _
  | some d =>
    simp only
    split
    · exact safe_ret c _ _
    · split
      · exact safe_deletion c (by simp [ho]) w d s' hs'
      · exact safe_live c ho d s' hs'

/-- **Not updated, not adopted, not deleted.** A CRD with the derived name whose controller
reference names another owner is, at every instant of every (faulty) reconcile of either
reconciler and whatever state the XRD is in (live or deleting, with or without finalizer,
missing), still in the store exactly as it was — owner references, spec, status, finalizers,
deletion mark and resourceVersion. -/
theorem crd_foreign_untouched (w : Which) (plan : Plan) (s : St) (c : CRD)
    (hc : s.crd = some c) (ho : c.ctrl = .other) :
    ∀ s' ∈ reach sem plan 0 (reconcile w) s, s'.crd = some c :=
  reach_safe sem (Holds c) plan 0 (reconcile w) s hc (safe_reconcile c ho w s hc)

/-- **Deletion guard.** A deleting XRD never deletes (or otherwise touches) a CRD it does not
control — foreign or without controller reference. -/
theorem crd_deletion_guard (w : Which) (plan : Plan) (s : St) (d : XRD) (c : CRD)
    (hx : s.xrd = some d) (hd : d.del = true) (hc : s.crd = some c) (hn : c.ctrl ≠ .xrd) :
    ∀ s' ∈ reach sem plan 0 (reconcile w) s, s'.crd = some c := by
  apply reach_safe sem (Holds c) plan 0 (reconcile w) s hc
  unfold reconcile
  refine ⟨hc, ?_, trivial, trivial⟩
  have : sem.exec s .getXRD = (s, .xrd (some d)) := by simp [sem, exec, hx]
  rw [this]
  simp only [hd]
  split
  · exact safe_ret c _ _
  · exact safe_deletion c hn w d s hc

/-! ### results and applied requests under every plan: a weakest precondition -/

/-- `Wp G Q p s`: from `s`, under every fault plan, every request `p` gets applied satisfies
`G` (evaluated on the store at that moment) and every result it returns satisfies `Q`. -/
def Wp (G : St → Req → Prop) (Q : Res → Prop) : P → St → Prop
  | .ret a, _ => Q a
  | .call r c, s =>
      G s r ∧ Wp G Q (c (sem.exec s r).2) (sem.exec s r).1 ∧
      Wp G Q (c (sem.errResp .fail r)) s ∧ Wp G Q (c (sem.errResp .conflict r)) s

theorem wp_sound (G : St → Req → Prop) (Q : Res → Prop) (plan : Plan) (k : Nat) (p : P) (s : St)
    (h : Wp G Q p s) :
    (∀ a, (run sem plan k p s).2 = some a → Q a) ∧
    (∀ r ∈ applied sem plan k p s, ∃ t, G t r) := by
  induction p generalizing k s with
  | ret a => exact ⟨by intro b hb; simp [run] at hb; subst hb; exact h, by intro r hr; simp [applied] at hr⟩
  | call r c ih =>
    obtain ⟨hg, h1, h2, h3⟩ := h
    unfold run applied
    split
    · obtain ⟨i1, i2⟩ := ih _ (k+1) _ h1
      refine ⟨i1, ?_⟩
      intro x hx
      cases List.mem_cons.mp hx with
      | inl e => subst e; exact ⟨s, hg⟩
      | inr hx' => exact i2 x hx'
    · exact ih _ (k+1) _ h2
    · exact ih _ (k+1) _ h3
    · exact ⟨by intro a ha; simp at ha, by intro x hx; simp at hx⟩
    · refine ⟨by intro a ha; simp at ha, ?_⟩
      intro x hx
      simp at hx; subst hx; exact ⟨s, hg⟩

/-- guarantee: while the slot holds the foreign CRD `c`, nothing addressed to the CRD is applied -/
abbrev NoWrite (c : CRD) : St → Req → Prop := fun t r => t.crd = some c ∧ r.targetsCRD = false

theorem wp_step (c : CRD) (Q : Res → Prop) (r : Req) (k : Resp → P) (s : St) (hs : Holds c s)
    (hr : r.targetsCRD = false)
    (hk : ∀ x s', Holds c s' → Wp (NoWrite c) Q (k x) s') : Wp (NoWrite c) Q (.call r k) s := by
  have hw : r.writesCRD = false := by cases r <;> simp_all [Req.targetsCRD, Req.writesCRD]
  exact ⟨⟨hs, hr⟩, hk _ _ (exec_frame s c r hs hw), hk _ _ hs, hk _ _ hs⟩

theorem wp_getCRD (c : CRD) (Q : Res → Prop) (k : Resp → P) (s : St) (hs : Holds c s)
    (hk1 : ∀ s', Holds c s' → Wp (NoWrite c) Q (k (.crd (some c))) s')
    (hk2 : ∀ s', Holds c s' → Wp (NoWrite c) Q (k .err) s') : Wp (NoWrite c) Q (.call .getCRD k) s := by
  refine ⟨⟨hs, rfl⟩, ?_, hk2 _ hs, hk2 _ hs⟩
  have : (sem.exec s .getCRD) = (s, .crd (some c)) := by
    simp only [sem, exec]; rw [show s.crd = some c from hs]
  rw [this]
  exact hk1 _ hs

/-- any result -/
abbrev AnyRes : Res → Prop := fun _ => True
/-- anything but plain success -/
abbrev NotOk : Res → Prop := fun a => a ≠ .ok

theorem wp_removeFinalizer (c : CRD) (d : XRD) (s : St) (hs : Holds c s) :
    Wp (NoWrite c) AnyRes (removeFinalizer d) s := by
  unfold removeFinalizer
  split
  · apply wp_step c _ _ _ s hs rfl
    intro x s' _
    cases x <;> trivial
  · trivial

theorem wp_applyCRD (c : CRD) (ho : c.ctrl = .other) (d : XRD) (s : St) (hs : Holds c s) :
    Wp (NoWrite c) NotOk (applyCRD d) s := by
  unfold applyCRD
  apply wp_getCRD c _ _ s hs
  · intro s' _; simp [ho, Wp]
  · intro s' _; simp [Wp]

theorem wp_live (c : CRD) (ho : c.ctrl = .other) (d : XRD) (s : St) (hs : Holds c s) :
    Wp (NoWrite c) NotOk (live d) s := by
  unfold live
  split
  · exact wp_applyCRD c ho d s hs
  · apply wp_step c _ _ _ s hs rfl
    intro x s' hs'
    cases x <;> first | exact wp_applyCRD c ho _ s' hs' | simp [Wp]

theorem wp_mono (G : St → Req → Prop) (Q Q' : Res → Prop) (hQ : ∀ a, Q a → Q' a) (p : P) (s : St)
    (h : Wp G Q p s) : Wp G Q' p s := by
  induction p generalizing s with
  | ret a => exact hQ _ h
  | call r c ih =>
    obtain ⟨hg, h1, h2, h3⟩ := h
    exact ⟨hg, ih _ _ h1, ih _ _ h2, ih _ _ h3⟩

theorem wp_deletion (c : CRD) (hn : c.ctrl ≠ .xrd) (w : Which) (d : XRD) (s : St) (hs : Holds c s) :
    Wp (NoWrite c) AnyRes (deletion w d) s := by
  unfold deletion
  apply wp_step c _ _ _ s hs rfl
  intro x s' hs'
  cases x <;> try trivial
  apply wp_getCRD c _ _ s' hs'
  · intro s'' hs''; simp [hn]; exact wp_removeFinalizer c _ s'' hs''
  · intro s'' _; trivial

theorem wp_reconcile_any (c : CRD) (ho : c.ctrl = .other) (w : Which) (s : St) (hs : Holds c s) :
    Wp (NoWrite c) AnyRes (reconcile w) s := by
  unfold reconcile
  apply wp_step c _ _ _ s hs rfl
  intro x s' hs'
  cases x <;> try trivial
  rename_i x
  cases x with
  | none => trivial
  | some d =>
    simp only
    split
    · trivial
    · split
      · exact wp_deletion c (by simp [ho]) w d s' hs'
      · exact wp_mono _ NotOk AnyRes (fun _ _ => trivial) _ _ (wp_live c ho d s' hs')

/-- **No write is addressed to it.** Under every fault plan, no request that gets applied
during a reconcile is addressed to a CRD controlled by another owner: no create, no update,
no delete. -/
theorem crd_foreign_no_write (w : Which) (plan : Plan) (s : St) (c : CRD)
    (hc : s.crd = some c) (ho : c.ctrl = .other) :
    ∀ r ∈ applied sem plan 0 (reconcile w) s, r.targetsCRD = false := by
  intro r hr
  obtain ⟨_, h⟩ := (wp_sound _ _ plan 0 _ s (wp_reconcile_any c ho w s hc)).2 r hr
  exact h.2

/-- the XRD can be rendered by reconciler `w` -/
def renderable (w : Which) (d : XRD) : Prop := w = .offered → d.claim = true

theorem wp_reconcile_live (c : CRD) (ho : c.ctrl = .other) (w : Which) (s : St) (d : XRD)
    (hx : s.xrd = some d) (hl : d.del = false) (hr : renderable w d) (hs : Holds c s) :
    Wp (NoWrite c) NotOk (reconcile w) s := by
  unfold reconcile
  refine ⟨⟨hs, rfl⟩, ?_, by simp [Wp, sem, errResp], by simp [Wp, sem, errResp, Req.isWrite]⟩
  have : sem.exec s .getXRD = (s, .xrd (some d)) := by simp [sem, exec, hx]
  rw [this]
  have hr' : ¬ (w = .offered ∧ d.claim = false) := by
    intro ⟨h1, h2⟩; have := hr h1; simp_all
  simp only [hr', hl, if_false, Bool.false_eq_true]
  exact wp_live c ho d s hs

/-- **The conflict surfaces (every plan).** A reconcile of a live XRD that finds the CRD with
the derived name controlled by another owner never ends in plain success, whatever faults
strike: it ends in an error, a requeue (a conflict on the XRD's own finalizer update) or a
crash. -/
theorem crd_foreign_never_success (w : Which) (plan : Plan) (s : St) (d : XRD) (c : CRD)
    (hx : s.xrd = some d) (hl : d.del = false) (hr : renderable w d)
    (hc : s.crd = some c) (ho : c.ctrl = .other) :
    (run sem plan 0 (reconcile w) s).2 ≠ some .ok := by
  intro h
  exact (wp_sound _ _ plan 0 _ s (wp_reconcile_live c ho w s d hx hl hr hc)).1 _ h rfl

/-! ### fault-free runs -/

theorem run_allOk_call {α : Type} (k : Nat) (r : Req) (c : Resp → Prog Req Resp α) (s : St) :
    run sem Plan.allOk k (.call r c) s = run sem Plan.allOk (k+1) (c (sem.exec s r).2) (sem.exec s r).1 := by
  simp [run, Plan.allOk]

theorem sem_exec (s : St) (r : Req) : sem.exec s r = exec s r := rfl

theorem run_ret {α : Type} (plan : Plan) (k : Nat) (a : α) (s : St) :
    run sem plan k (.ret a : Prog Req Resp α) s = (s, some a) := rfl

/-- **The conflict surfaces (fault-free).** Without faults the reconcile of a live XRD against
a CRD controlled by another owner returns an error (`cannot apply rendered … CustomResource-
Definition: existing object is not controlled by UID …`), which the reconciler also records
as a warning event on the XRD; the XRD's condition is not set to Watching. -/
theorem crd_foreign_surfaces_error (w : Which) (s : St) (d : XRD) (c : CRD)
    (hx : s.xrd = some d) (hl : d.del = false) (hr : renderable w d)
    (hc : s.crd = some c) (ho : c.ctrl = .other) :
    (run sem Plan.allOk 0 (reconcile w) s).2 = some .err ∧
    ((run sem Plan.allOk 0 (reconcile w) s).1.xrd.map (·.cond)) = some d.cond := by
  have hr' : ¬ (w = .offered ∧ d.claim = false) := by
    intro ⟨h1, h2⟩; have := hr h1; simp_all
  obtain ⟨xdel, xfin, xofin, xclaim, xcond, xrv⟩ := d
  obtain ⟨sx, sc, sn⟩ := s
  simp only at hx hc hl hr'
  subst hx hc hl
  cases xfin <;>
    simp [reconcile, hr', live, applyCRD, run_allOk_call, run_ret, sem_exec, exec, ho, settleXRD]

theorem exec_getCRD (s : St) : exec s .getCRD = (s, .crd s.crd) := rfl
theorem exec_getXRD (s : St) : exec s .getXRD = (s, .xrd s.xrd) := rfl

/-- the status update at the end of a successful Apply leaves the CRD alone -/
theorem run_afterApply (k : Nat) (d x : XRD) (est : Bool) (s : St) (hx : s.xrd = some x) (hrv : x.rv = d.rv) :
    (run sem Plan.allOk k (afterApply d est) s).1.crd = s.crd ∧
    (run sem Plan.allOk k (afterApply d est) s).2 = some (if est then .ok else .requeue) := by
  unfold afterApply
  cases est
  · simp [run_ret]
  · by_cases hw : x.cond = .watching <;>
      simp [run_allOk_call, sem_exec, exec, hx, hrv, hw, run_ret]

/-- an Update with the rendered object at the resourceVersion just read -/
theorem exec_updateCRD_ok (s : St) (c : CRD) (hc : s.crd = some c) (hnd : c.del = false) :
    ∃ rv, (exec s (.updateCRD c.rv)).1.crd = some { renderedOver c with rv := rv } ∧
      (exec s (.updateCRD c.rv)).1.xrd = s.xrd ∧ (exec s (.updateCRD c.rv)).2 = .wrote rv c.est := by
  by_cases hsame : renderedOver c = c
  · refine ⟨c.rv, ?_⟩
    simp only [exec, hc, ne_eq, not_true_eq_false, if_false, hsame, if_true, and_self]
  · refine ⟨s.next + 1, ?_⟩
    simp only [exec, hc, ne_eq, not_true_eq_false, if_false, hsame]
    simp [settleCRD, renderedOver, hnd]

theorem run_applyCRD (k : Nat) (d x : XRD) (s : St) (c : CRD) (hx : s.xrd = some x) (hrv : x.rv = d.rv)
    (hc : s.crd = some c) (hn : c.ctrl ≠ .other) (hnd : c.del = false) :
    ∃ rv, (run sem Plan.allOk k (applyCRD d) s).1.crd = some { renderedOver c with rv := rv } ∧
      (run sem Plan.allOk k (applyCRD d) s).2 = some (if c.est then .ok else .requeue) := by
  unfold applyCRD
  rw [run_allOk_call, sem_exec, exec_getCRD, hc]
  simp only [if_neg hn]
  rw [run_allOk_call, sem_exec]
  obtain ⟨rv, h1, h2, h3⟩ := exec_updateCRD_ok s c hc hnd
  rw [h3]
  simp only
  have := run_afterApply (k+1+1) d x c.est (exec s (.updateCRD c.rv)).1 (h2 ▸ hx) hrv
  exact ⟨rv, this.1.trans h1, this.2⟩

theorem run_live (k : Nat) (d : XRD) (s : St) (c : CRD) (hx : s.xrd = some d)
    (hc : s.crd = some c) (hn : c.ctrl ≠ .other) (hnd : c.del = false) :
    ∃ rv, (run sem Plan.allOk k (live d) s).1.crd = some { renderedOver c with rv := rv } ∧
      (run sem Plan.allOk k (live d) s).2 = some (if c.est then .ok else .requeue) := by
  unfold live
  by_cases hf : d.fin = true
  · rw [if_pos hf]; exact run_applyCRD k d d s c hx rfl hc hn hnd
  · rw [if_neg hf, run_allOk_call, sem_exec]
    have he : exec s (.updateXRD true d.rv) =
        ({ s with xrd := some { d with fin := true, rv := s.next + 1 }, next := s.next + 1 }, .wrote (s.next + 1) false) := by
      simp [exec, hx, hf, settleXRD]
    rw [he]
    simp only
    exact run_applyCRD (k+1) _ _ _ c rfl rfl hc hn hnd

/-- what Apply does to a CRD that may be written: exactly the rendered object over it -/
theorem apply_controllable (w : Which) (s : St) (d : XRD) (c : CRD)
    (hx : s.xrd = some d) (hl : d.del = false) (hr : renderable w d)
    (hc : s.crd = some c) (hn : c.ctrl ≠ .other) (hnd : c.del = false) :
    ∃ rv, (run sem Plan.allOk 0 (reconcile w) s).1.crd = some { renderedOver c with rv := rv } ∧
      (run sem Plan.allOk 0 (reconcile w) s).2 = some (if c.est then .ok else .requeue) := by
  have hr' : ¬ (w = .offered ∧ d.claim = false) := by
    intro ⟨h1, h2⟩; have := hr h1; simp_all
  unfold reconcile
  rw [run_allOk_call, sem_exec, exec_getXRD, hx]
  simp only [if_neg hr', hl, Bool.false_eq_true, if_false]
  exact run_live 1 d s c hx hc hn hnd

/-- **Objects that have no controller reference may be adopted.** Fault-free, a live XRD's
reconcile turns a CRD without controller reference into the rendered CRD controlled by the
XRD (plain owner references are replaced along with the rest of the object). -/
theorem crd_uncontrolled_adopted (w : Which) (s : St) (d : XRD) (c : CRD)
    (hx : s.xrd = some d) (hl : d.del = false) (hr : renderable w d)
    (hc : s.crd = some c) (hn : c.ctrl = .none) (hnd : c.del = false) :
    ∃ c', (run sem Plan.allOk 0 (reconcile w) s).1.crd = some c' ∧
      c'.ctrl = .xrd ∧ c'.body = .rendered ∧ c'.plain = false ∧ c'.est = c.est ∧
      (run sem Plan.allOk 0 (reconcile w) s).2 = some (if c.est then .ok else .requeue) := by
  obtain ⟨rv, h, h2⟩ := apply_controllable w s d c hx hl hr hc (by simp [hn]) hnd
  exact ⟨_, h, rfl, rfl, rfl, rfl, h2⟩

/-- **A CRD of the XRD itself ends with the rendered body.** -/
theorem crd_own_updated (w : Which) (s : St) (d : XRD) (c : CRD)
    (hx : s.xrd = some d) (hl : d.del = false) (hr : renderable w d)
    (hc : s.crd = some c) (hn : c.ctrl = .xrd) (hnd : c.del = false) :
    ∃ c', (run sem Plan.allOk 0 (reconcile w) s).1.crd = some c' ∧
      c'.ctrl = .xrd ∧ c'.body = .rendered ∧ c'.plain = false ∧ c'.est = c.est := by
  obtain ⟨rv, h, _⟩ := apply_controllable w s d c hx hl hr hc (by simp [hn]) hnd
  exact ⟨_, h, rfl, rfl, rfl, rfl⟩

/-- **An absent CRD is created**, controlled by the XRD; the reconcile requeues until the API
server has established it. -/
theorem crd_absent_created (w : Which) (s : St) (d : XRD)
    (hx : s.xrd = some d) (hl : d.del = false) (hr : renderable w d) (hc : s.crd = none) :
    ∃ rv, (run sem Plan.allOk 0 (reconcile w) s).1.crd = some ⟨.xrd, false, .rendered, false, false, false, rv⟩ ∧
      (run sem Plan.allOk 0 (reconcile w) s).2 = some .requeue := by
  have hr' : ¬ (w = .offered ∧ d.claim = false) := by
    intro ⟨h1, h2⟩; have := hr h1; simp_all
  obtain ⟨xdel, xfin, xofin, xclaim, xcond, xrv⟩ := d
  obtain ⟨sx, sc, sn⟩ := s
  simp only at hx hc hl hr'
  subst hx hc hl
  cases xfin <;>
    simp [reconcile, hr', live, applyCRD, afterApply, run_allOk_call, run_ret, sem_exec, exec, settleXRD]

/-! ### the hypotheses are satisfiable, the conclusions are not vacuous -/

/-- a live XRD without finalizer that offers a claim; the CRD with the derived name is
established, has an old body and a plain owner reference, and is controlled by someone else -/
def exForeign : St :=
  { xrd := some ⟨false, false, false, true, .none, 1⟩, crd := some ⟨.other, true, .old, true, false, false, 2⟩, next := 2 }

/-- fault-free: the finalizer is added (rv 3), the CRD is read, nothing else happens: error -/
example : run sem Plan.allOk 0 (reconcile .definition) exForeign =
    ({ exForeign with xrd := some ⟨false, true, false, true, .none, 3⟩, next := 3 }, some .err) := by decide
example : run sem Plan.allOk 0 (reconcile .offered) exForeign =
    ({ exForeign with xrd := some ⟨false, true, false, true, .none, 3⟩, next := 3 }, some .err) := by decide
/-- the three calls, and only the finalizer update is applied -/
example : applied sem Plan.allOk 0 (reconcile .definition) exForeign = [.getXRD, .updateXRD true 1, .getCRD] := by decide
/-- a conflict on the finalizer update is the one way to a requeue -/
example : (run sem (Plan.at 1 .conflict) 0 (reconcile .definition) exForeign).2 = some .requeue := by decide

/-- the same world, the CRD without a controller reference: it is adopted, its body rendered,
the plain owner reference replaced, Established kept, and the reconcile succeeds -/
def exUncontrolled : St :=
  { exForeign with crd := some ⟨.none, true, .old, true, false, false, 2⟩ }
example : run sem Plan.allOk 0 (reconcile .definition) exUncontrolled =
    ({ xrd := some ⟨false, true, false, true, .watching, 5⟩, crd := some ⟨.xrd, false, .rendered, true, false, false, 4⟩, next := 5 },
     some .ok) := by decide

/-- the XRD's own, up-to-date CRD: the Update is a no-op (same resourceVersion) -/
def exOwn : St :=
  { exForeign with crd := some ⟨.xrd, false, .rendered, true, false, false, 2⟩ }
example : (run sem Plan.allOk 0 (reconcile .offered) exOwn).1.crd = exOwn.crd := by decide
/-- the XRD's own, outdated CRD: rendered at a new resourceVersion -/
example : (run sem Plan.allOk 0 (reconcile .offered) { exOwn with crd := some ⟨.xrd, false, .old, false, false, false, 2⟩ }) =
    ({ xrd := some ⟨false, true, false, true, .none, 3⟩, crd := some ⟨.xrd, false, .rendered, false, false, false, 4⟩, next := 4 },
     some .requeue) := by decide

/-- a deleting XRD (only this reconciler's finalizer): a foreign or uncontrolled CRD is
orphaned and the XRD goes away … -/
def exDeleting (c : CRD) : St :=
  { xrd := some ⟨true, true, false, true, .watching, 1⟩, crd := some c, next := 2 }
example : run sem Plan.allOk 0 (reconcile .definition) (exDeleting ⟨.other, false, .rendered, true, false, false, 2⟩) =
    ({ xrd := none, crd := some ⟨.other, false, .rendered, true, false, false, 2⟩, next := 4 }, some .ok) := by decide
example : (run sem Plan.allOk 0 (reconcile .definition) (exDeleting ⟨.none, false, .rendered, true, false, false, 2⟩)).1.crd =
    some ⟨.none, false, .rendered, true, false, false, 2⟩ := by decide
/-- … while a CRD the XRD controls IS deleted (the guard is what makes the difference) -/
example : run sem Plan.allOk 0 (reconcile .definition) (exDeleting ⟨.xrd, false, .rendered, true, false, false, 2⟩) =
    ({ xrd := some ⟨true, true, false, true, .terminating, 3⟩, crd := none, next := 3 }, some .requeue) := by decide
example : (run sem Plan.allOk 0 (reconcile .offered) (exDeleting ⟨.xrd, false, .rendered, true, false, false, 2⟩)).1.crd = none := by decide

end Xp.C02Crd

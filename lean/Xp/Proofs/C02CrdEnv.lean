import Xp.Proofs.C02Crd
import Xp.Model.C02CrdEnv
/-
C02, derived CRDs with concurrent writers between two API calls (`Xp.Model.C02CrdEnv`).

 * `Disc sn p` — syntactic discipline: along every path of `p`, an Update of the CRD carries the
   resourceVersion of a copy this reconcile read and found controllable, a Delete of the CRD
   follows a Get that returned it controlled by the XRD, a Create follows a Get that returned
   NotFound. `disc_reconcile`: both reconcilers obey it.
 * `Inv` — resourceVersions are never reused: the copy the reconcile holds either is the
   stored object or has another resourceVersion. Kept by every request and by every third
   party obeying `Rely`.
 * `crd_foreign_untouched_under_interference`: the frame under interference, with the one
   window (Delete has no precondition) stated exactly.
-/
namespace Xp.C02CrdEnv
open Xp Xp.C02Crd

/-! ### the discipline -/

def guard (sn : Option (Option CRD)) : Req → Prop
  | .updateCRD rv => ∃ c0, sn = some (some c0) ∧ c0.ctrl ≠ .other ∧ c0.rv = rv
  | .deleteCRD => ∃ c0, sn = some (some c0) ∧ c0.ctrl = .xrd
  | .createCRD => sn = some none
  | _ => True

def Disc : Option (Option CRD) → P → Prop
  | _, .ret _ => True
  | sn, .call r c => guard sn r ∧ ∀ resp, Disc (seenAfter sn r resp) (c resp)

/-- requests that are not addressed to the CRD as a write -/
def plain : Req → Prop
  | .updateCRD _ | .deleteCRD | .createCRD | .getCRD => False
  | _ => True

theorem seenAfter_plain {r : Req} (h : plain r) (sn : Option (Option CRD)) (resp : Resp) : seenAfter sn r resp = sn := by
  cases r <;> first | rfl | exact absurd h id

theorem guard_plain {r : Req} (h : plain r) (sn : Option (Option CRD)) : guard sn r := by
  cases r <;> first | trivial | exact absurd h id

theorem disc_of_plain {p : P} (h : Issues plain p) : ∀ sn, Disc sn p := by
  induction h with
  | ret a => intro _; trivial
  | call r c hq _ ih =>
    intro sn
    exact ⟨guard_plain hq sn, fun resp => by rw [seenAfter_plain hq]; exact ih resp sn⟩

theorem disc_removeFinalizer (d : XRD) (sn : Option (Option CRD)) : Disc sn (removeFinalizer d) := by
  apply disc_of_plain
  unfold removeFinalizer
  split
  · refine Issues.call _ _ trivial ?_
    intro x; cases x <;> exact Issues.ret _
  · exact Issues.ret _

theorem disc_afterApply (d : XRD) (est : Bool) (sn : Option (Option CRD)) : Disc sn (afterApply d est) := by
  apply disc_of_plain
  unfold afterApply
  split
  · refine Issues.call _ _ trivial ?_
    intro x; cases x <;> exact Issues.ret _
  · exact Issues.ret _

theorem disc_deleteControlled (w : Which) (c0 : CRD) (h : c0.ctrl = .xrd) : Disc (some (some c0)) (deleteControlled w) := by
  have hdel : Disc (some (some c0)) (.call .deleteCRD fun
      | .done | .notFound => .ret .requeue
      | _ => .ret .err : P) := by
    refine ⟨⟨c0, rfl, h⟩, ?_⟩
    intro resp; cases resp <;> trivial
  have hlist : Disc (some (some c0)) (.call .listInstances fun
      | .done => .call .deleteCRD fun
          | .done | .notFound => .ret .requeue
          | _ => .ret .err
      | _ => .ret .err : P) := by
    refine ⟨trivial, ?_⟩
    intro resp
    cases resp <;> first | exact hdel | trivial
  cases w with
  | definition =>
    unfold deleteControlled
    refine ⟨trivial, ?_⟩
    intro resp
    cases resp <;> first | exact hlist | trivial
  | offered =>
    unfold deleteControlled
    exact hlist

theorem disc_deletion (w : Which) (d : XRD) (sn : Option (Option CRD)) : Disc sn (deletion w d) := by
  unfold deletion
  refine ⟨trivial, ?_⟩
  intro resp
  cases resp <;> try trivial
  refine ⟨trivial, ?_⟩
  intro resp2
  cases resp2 <;> try trivial
  rename_i x
  cases x with
  | none => exact disc_removeFinalizer _ _
  | some c =>
    simp only
    split
    · rename_i hx
      exact disc_deleteControlled w c hx
    · exact disc_removeFinalizer _ _

theorem disc_applyCRD (d : XRD) (sn : Option (Option CRD)) : Disc sn (applyCRD d) := by
  unfold applyCRD
  refine ⟨trivial, ?_⟩
  intro resp
  cases resp <;> try trivial
  rename_i x
  cases x with
  | none =>
    refine ⟨rfl, ?_⟩
    intro resp2
    cases resp2 <;> first | exact disc_afterApply _ _ _ | trivial
  | some c =>
    simp only
    split
    · trivial
    · rename_i hx
      refine ⟨⟨c, rfl, hx, rfl⟩, ?_⟩
      intro resp2
      cases resp2 <;> first | exact disc_afterApply _ _ _ | trivial

theorem disc_live (d : XRD) (sn : Option (Option CRD)) : Disc sn (live d) := by
  unfold live
  split
  · exact disc_applyCRD _ _
  · refine ⟨trivial, ?_⟩
    intro resp
    cases resp <;> first | exact disc_applyCRD _ _ | trivial

/-- **Both reconcilers obey the discipline**, for every reply of the API server. -/
theorem disc_reconcile (w : Which) (sn : Option (Option CRD)) : Disc sn (reconcile w) := by
  unfold reconcile
  refine ⟨trivial, ?_⟩
  intro resp
  cases resp <;> try trivial
  rename_i x
  cases x with
  | none => trivial
  | some d =>
    simp only
    split
    · trivial
    · split
      · exact disc_deletion _ _ _
      · exact disc_live _ _

/-! ### the API server's side -/

/-- what a third party may do between two calls: whatever it writes into the CRD slot gets a
fresh resourceVersion from the API server's counter; the reconcile's copy is not its to touch -/
structure Rely (e e' : E) : Prop where
  seen : e'.seen = e.seen
  next : e.base.next ≤ e'.base.next
  crd : e'.base.crd = e.base.crd ∨ ∀ c, e'.base.crd = some c → e.base.next < c.rv ∧ c.rv ≤ e'.base.next

theorem Rely.rfl (e : E) : Rely e e := ⟨by rfl, Nat.le_refl _, Or.inl (by rfl)⟩

/-- resourceVersions are not reused: the stored CRD's is at most the counter, and the copy the
reconcile holds either is the stored object or has another resourceVersion -/
structure Inv (e : E) : Prop where
  rv : ∀ c, e.base.crd = some c → c.rv ≤ e.base.next
  seen : ∀ c0, e.seen = some (some c0) → c0.rv ≤ e.base.next ∧ (e.base.crd = some c0 ∨ ∀ c, e.base.crd = some c → c.rv ≠ c0.rv)

theorem inv_rely {e e' : E} (h : Inv e) (r : Rely e e') : Inv e' := by
  refine ⟨?_, ?_⟩
  · intro c hc
    rcases r.crd with h1 | h1
    · exact Nat.le_trans (h.rv c (h1 ▸ hc)) r.next
    · exact (h1 c hc).2
  · intro c0 hs
    obtain ⟨h0, h1⟩ := h.seen c0 (r.seen ▸ hs)
    refine ⟨Nat.le_trans h0 r.next, ?_⟩
    rcases r.crd with h2 | h2
    · rw [h2]; exact h1
    · right
      intro c hc
      have := (h2 c hc).1
      omega

theorem act_rely (a : Act) (e : E) : Rely e (act a e) := by
  unfold act
  cases a <;> cases hc : e.base.crd <;> simp only [] <;> (try exact Rely.rfl e)
  all_goals (repeat' split) <;> (try exact Rely.rfl e)
  all_goals refine ⟨rfl, by simp, ?_⟩
  all_goals first
    | (right; intro c h; simp at h; subst h; simp)
    | (right; intro c h; simp at h)

theorem actAt_rely (i : Nat) (a : Act) : ∀ j e, Rely e (actAt i a j e) := by
  intro j e
  unfold actAt
  split
  · exact act_rely a e
  · exact Rely.rfl e

/-- every request keeps `Inv` -/
theorem exec_inv (e : E) (r : Req) (h : Inv e) : Inv (exec e r).1 := by
  obtain ⟨hrv, hseen⟩ := h
  cases r with
  | getCRD =>
    refine ⟨by simpa [exec, C02Crd.exec] using hrv, ?_⟩
    intro c0 hs
    simp only [exec, C02Crd.exec, seenAfter, Option.some.injEq] at hs ⊢
    exact ⟨hrv c0 hs, Or.inl hs⟩
  | getXRD => exact ⟨by simpa [exec, C02Crd.exec] using hrv, by simpa [exec, C02Crd.exec, seenAfter] using hseen⟩
  | deleteInstances => exact ⟨by simpa [exec, C02Crd.exec] using hrv, by simpa [exec, C02Crd.exec, seenAfter] using hseen⟩
  | listInstances => exact ⟨by simpa [exec, C02Crd.exec] using hrv, by simpa [exec, C02Crd.exec, seenAfter] using hseen⟩
  | updateXRD fin rv =>
    simp only [exec, C02Crd.exec]
    (repeat' split) <;> refine ⟨?_, ?_⟩ <;> simp only [seenAfter] <;>
      first
        | exact hrv
        | exact hseen
        | (intro c hc; have := hrv c hc; omega)
        | (intro c0 hs; obtain ⟨h0, h1⟩ := hseen c0 hs; exact ⟨by omega, h1⟩)
  | statusXRD cnd rv =>
    simp only [exec, C02Crd.exec]
    (repeat' split) <;> refine ⟨?_, ?_⟩ <;> simp only [seenAfter] <;>
      first
        | exact hrv
        | exact hseen
        | (intro c hc; have := hrv c hc; omega)
        | (intro c0 hs; obtain ⟨h0, h1⟩ := hseen c0 hs; exact ⟨by omega, h1⟩)
  | createCRD =>
    simp only [exec, C02Crd.exec]
    split
    · exact ⟨hrv, hseen⟩
    · refine ⟨?_, ?_⟩ <;> simp only [seenAfter]
      · intro c hc; simp at hc; subst hc; simp
      · intro c0 hs
        obtain ⟨h0, _⟩ := hseen c0 hs
        refine ⟨by omega, Or.inr ?_⟩
        intro c hc; simp at hc; subst hc; simp; omega
  | updateCRD rv =>
    simp only [exec, C02Crd.exec]
    split
    · exact ⟨hrv, hseen⟩
    · rename_i c hc
      split
      · exact ⟨hrv, hseen⟩
      · split
        · exact ⟨hrv, hseen⟩
        · refine ⟨?_, ?_⟩ <;> simp only [seenAfter]
          · intro c' hc'
            simp only [settleCRD] at hc'
            split at hc' <;> simp at hc'
            subst hc'; simp
          · intro c0 hs
            obtain ⟨h0, _⟩ := hseen c0 hs
            refine ⟨by omega, Or.inr ?_⟩
            intro c' hc'
            simp only [settleCRD] at hc'
            split at hc' <;> simp at hc'
            subst hc'; simp; omega
  | deleteCRD =>
    simp only [exec, C02Crd.exec]
    split
    · exact ⟨hrv, hseen⟩
    · rename_i c hc
      split
      · split
        · exact ⟨hrv, hseen⟩
        · refine ⟨?_, ?_⟩ <;> simp only [seenAfter]
          · intro c' hc'; simp at hc'; subst hc'; simp
          · intro c0 hs
            obtain ⟨h0, _⟩ := hseen c0 hs
            refine ⟨by omega, Or.inr ?_⟩
            intro c' hc'; simp at hc'; subst hc'; simp; omega
      · refine ⟨?_, ?_⟩ <;> simp only [seenAfter]
        · intro c' hc'; simp at hc'
        · intro c0 hs
          obtain ⟨h0, _⟩ := hseen c0 hs
          exact ⟨h0, Or.inr (by intro c' hc'; simp at hc')⟩

/-! ### soundness of the discipline under interference -/

theorem errResp_not_crd (o : Outcome) (r : Req) (sn : Option (Option CRD)) : seenAfter sn r (sem.errResp o r) = sn := by
  simp only [sem, C02Crd.sem, errResp]
  cases o <;> cases r <;> simp [seenAfter, Req.isWrite]

theorem disc_sound (p : P) : ∀ (sn : Option (Option CRD)) (e : E), Disc sn p → e.seen = sn →
    WpE sem Rely (fun t r => guard t.seen r) p (fun _ _ => True) e := by
  induction p with
  | ret a => intro _ _ _ _; trivial
  | call r c ih =>
    intro sn e hd hs s' hr
    have hs' : s'.seen = sn := hr.seen.trans hs
    refine ⟨(by show guard s'.seen r; rw [hs']; exact hd.1), ?_, ?_, ?_⟩
    · exact ih _ _ _ (hd.2 _) (by simp [sem, exec, hs'])
    · exact ih _ sn _ (by have := hd.2 (sem.errResp .fail r); rwa [errResp_not_crd] at this) hs'
    · exact ih _ sn _ (by have := hd.2 (sem.errResp .conflict r); rwa [errResp_not_crd] at this) hs'

theorem issues_any (p : P) : Issues (fun _ => True) p := by
  induction p with
  | ret a => exact Issues.ret a
  | call r c ih => exact Issues.call r c trivial ih

/-- **Interference.** Whatever a third party obeying `Rely` does between the calls of one
reconcile of either reconciler, under every fault plan: at the moment of every own call the
resourceVersion invariant holds and the call obeys its guard (an Update carries the
resourceVersion of a copy read as controllable, a Delete follows a Get that returned the CRD
controlled by the XRD, a Create follows a NotFound). -/
theorem interference_guarantees (w : Which) (env : Env E) (henv : ∀ k e, Rely e (env k e)) (plan : Plan)
    (e : E) (he : Inv e) :
    ∀ x ∈ ownE sem env plan 0 (reconcile w) e, Inv x.1 ∧ guard x.1.seen x.2 := by
  intro x hx
  have h1 := (wpE_sound sem Rely (fun t r => guard t.seen r) env henv plan 0 (reconcile w) (fun _ _ => True) e
    (disc_sound _ e.seen e (disc_reconcile w e.seen) rfl)).1 x hx
  have h2 := (wpE_sound sem Rely (fun s r => Inv s ∧ True) env henv plan 0 (reconcile w) (fun s _ => Inv s) e
    (wpE_of_issues sem Rely Inv (fun _ => True) (fun s r hs _ => exec_inv s r hs) (fun s s' hs hr => inv_rely hs hr)
      _ (issues_any _) e he)).1 x hx
  exact ⟨h2.1, h1⟩

/-- the Update of `APIUpdatingApplicator.Apply` is refused when the CRD is foreign by now -/
theorem update_refused_on_foreign (e : E) (rv : Nat) (hi : Inv e) (hg : guard e.seen (.updateCRD rv))
    (c : CRD) (hc : e.base.crd = some c) (ho : c.ctrl = .other) :
    (exec e (.updateCRD rv)).1.base = e.base ∧ (exec e (.updateCRD rv)).2 = .conflict := by
  obtain ⟨c0, hs, hn, hrv⟩ := hg
  have hne : c.rv ≠ rv := by
    rcases (hi.seen c0 hs).2 with h1 | h1
    · rw [hc] at h1; cases h1; exact absurd ho hn
    · exact hrv ▸ h1 c hc
  simp [exec, C02Crd.exec, hc, hne]

/-- **Left exactly as it was, under interference.** At the moment of every own call, a CRD
with the derived name that is controlled by somebody else AT THAT MOMENT is in the store after
the call exactly as it was — unless the call is the deletion branch's Delete, this reconcile's
own Get had returned the CRD controlled by the XRD, and the CRD was written by somebody else
since (`metav1.IsControlledBy` is evaluated on the copy; `client.Delete` carries no
precondition). `crd_delete_window_witness`: that window exists in the unchanged code. -/
theorem crd_foreign_untouched_under_interference (w : Which) (env : Env E) (henv : ∀ k e, Rely e (env k e))
    (plan : Plan) (e : E) (he : Inv e) :
    ∀ x ∈ ownE sem env plan 0 (reconcile w) e, ∀ c, x.1.base.crd = some c → c.ctrl = .other →
      (exec x.1 x.2).1.base.crd = some c ∨
      (x.2 = .deleteCRD ∧ ∃ c0, x.1.seen = some (some c0) ∧ c0.ctrl = .xrd ∧ c0.rv ≠ c.rv) := by
  intro x hx c hc ho
  obtain ⟨hinv, hg⟩ := interference_guarantees w env henv plan e he x hx
  cases hr : x.2 with
  | updateCRD rv =>
    left
    rw [hr] at hg
    rw [(update_refused_on_foreign x.1 rv hinv hg c hc ho).1]; exact hc
  | deleteCRD =>
    right
    rw [hr] at hg
    obtain ⟨c0, hs, hx0⟩ := hg
    refine ⟨rfl, c0, hs, hx0, ?_⟩
    rcases (hinv.seen c0 hs).2 with h1 | h1
    · rw [hc] at h1; cases h1; rw [ho] at hx0; cases hx0
    · exact (h1 c hc).symm
  | createCRD => left; simp [exec, C02Crd.exec, hc]
  | getXRD => left; exact exec_frame x.1.base c _ hc rfl
  | getCRD => left; exact exec_frame x.1.base c _ hc rfl
  | updateXRD f rv => left; exact exec_frame x.1.base c _ hc rfl
  | statusXRD cn rv => left; exact exec_frame x.1.base c _ hc rfl
  | deleteInstances => left; exact exec_frame x.1.base c _ hc rfl
  | listInstances => left; exact exec_frame x.1.base c _ hc rfl

/-- a reconcile starts without a copy: every store whose CRD's resourceVersion is at most the
counter is within the hypotheses -/
theorem inv_start (s : St) (h : ∀ c, s.crd = some c → c.rv ≤ s.next) : Inv ⟨s, none⟩ :=
  ⟨h, fun _ hs => by cases hs⟩

/-! ### histories: every reconcile starts without a copy -/

def resetGhost (e : E) : E := { e with seen := none }

theorem inv_reset {e : E} (h : Inv e) : Inv (resetGhost e) := ⟨h.rv, fun _ hs => by cases hs⟩

theorem inv_after_reconcile (w : Which) (env : Env E) (henv : ∀ k e, Rely e (env k e)) (plan : Plan) (e : E)
    (he : Inv e) : Inv (runE sem env plan 0 (reconcile w) e).1 :=
  runE_inv sem Inv (fun _ => True) (fun s r hs _ => exec_inv s r hs) env (fun k s hs => inv_rely hs (henv k s))
    plan 0 (reconcile w) (issues_any _) e he

/-- the own calls of a history of reconciles of the two reconcilers in any interleaving, each
with its own third party and fault plan -/
def ownRounds : List (Env E × Plan × Which) → E → List (E × Req)
  | [], _ => []
  | (env, plan, w) :: h, e =>
    ownE sem env plan 0 (reconcile w) (resetGhost e) ++ ownRounds h (runE sem env plan 0 (reconcile w) (resetGhost e)).1

theorem crd_foreign_untouched_under_interference_history (h : List (Env E × Plan × Which))
    (hh : ∀ r ∈ h, ∀ k e, Rely e (r.1 k e)) :
    ∀ (e : E), Inv e → ∀ x ∈ ownRounds h e, ∀ c, x.1.base.crd = some c → c.ctrl = .other →
      (exec x.1 x.2).1.base.crd = some c ∨
      (x.2 = .deleteCRD ∧ ∃ c0, x.1.seen = some (some c0) ∧ c0.ctrl = .xrd ∧ c0.rv ≠ c.rv) := by
  induction h with
  | nil => intro e _ x hx; cases hx
  | cons r rs ih =>
    obtain ⟨env, plan, w⟩ := r
    intro e he x hx
    have hr := hh (env, plan, w) (List.mem_cons_self ..)
    simp only [ownRounds] at hx
    rcases List.mem_append.mp hx with h1 | h1
    · exact crd_foreign_untouched_under_interference w env hr plan _ (inv_reset he) x h1
    · exact ih (fun r' hr' => hh r' (List.mem_cons_of_mem _ hr')) _
        (inv_after_reconcile w env hr plan _ (inv_reset he)) x h1

end Xp.C02CrdEnv

import Xp.Model.C17
/-
C17 helper lemmas: correctness of the two depth-first searches (`visit`/`sortFrom`,
`traceNode`) over an arbitrary neighbour function, and sufficiency of their fuel.
Core Lean only.
-/
namespace Xp.C17

/-! ### reachability -/

/-- reflexive-transitive reachability, growing at the tail -/
inductive ReachRT (nb : String → Option (List String)) : String → String → Prop
  | refl (n : String) : ReachRT nb n n
  | tail {n m k : String} : ReachRT nb n m → Edge nb m k → ReachRT nb n k

theorem Reach.tail {nb : String → Option (List String)} {n m k : String} (h : Reach nb n m) (e : Edge nb m k) : Reach nb n k := by
  induction h with
  | edge e1 => exact .step e1 (.edge e)
  | step e1 _ ih => exact .step e1 (ih e)

theorem ReachRT.edge {nb : String → Option (List String)} {n m k : String} (h : ReachRT nb n m) (e : Edge nb m k) : Reach nb n k := by
  induction h generalizing k with
  | refl => exact .edge e
  | tail _ e1 ih => exact (ih e1).tail e

theorem Edge.isSome {nb : String → Option (List String)} {n m : String} (e : Edge nb n m) : (nb n).isSome = true := by
  unfold Edge at e
  cases h : nb n with
  | none => rw [h] at e; simp at e
  | some _ => rfl

/-! ### the measure that bounds the recursion depth -/

/-- number of keys not yet in `vis` -/
def unv (ks vis : List String) : Nat := (ks.filter (fun k => !vis.contains k)).length

theorem filter_len_le {l : List String} {p q : String → Bool} (h : ∀ x, p x = true → q x = true) :
    (l.filter p).length ≤ (l.filter q).length := by
  induction l with
  | nil => simp
  | cons x xs ih =>
    simp only [List.filter_cons]
    cases hp : p x <;> cases hq : q x
    · simpa using ih
    · simp; omega
    · have := h x hp; rw [hq] at this; cases this
    · simpa using ih

theorem filter_len_lt {l : List String} {p q : String → Bool} (h : ∀ x, p x = true → q x = true)
    {n : String} (hn : n ∈ l) (hp : p n = false) (hq : q n = true) :
    (l.filter p).length < (l.filter q).length := by
  induction l with
  | nil => cases hn
  | cons x xs ih =>
    simp only [List.filter_cons]
    cases hn with
    | head =>
      rw [hp, hq]
      have := filter_len_le (l := xs) h
      simp; omega
    | tail _ hn' =>
      have := ih hn'
      cases hp' : p x <;> cases hq' : q x
      · simpa using this
      · simp; omega
      · have := h x hp'; rw [hq'] at this; cases this
      · simpa using this

theorem not_contains {l : List String} {x : String} (h : x ∉ l) : l.contains x = false := by
  cases hc : l.contains x with
  | false => rfl
  | true => exact absurd (List.contains_iff_mem.1 hc) h

theorem unv_mono {ks vis vis' : List String} (h : ∀ x ∈ vis, x ∈ vis') : unv ks vis' ≤ unv ks vis := by
  unfold unv
  apply filter_len_le
  intro x hx
  simp only [Bool.not_eq_true'] at hx ⊢
  cases hm' : vis.contains x with
  | false => rfl
  | true =>
    have h2 := List.contains_iff_mem.2 (h x (List.contains_iff_mem.1 hm'))
    rw [h2] at hx; cases hx

theorem unv_cons_lt {ks vis : List String} {n : String} (h1 : n ∈ ks) (h2 : n ∉ vis) :
    unv ks (n :: vis) < unv ks vis := by
  unfold unv
  refine filter_len_lt (n := n) ?h h1 ?a ?b
  case a =>
    have : (n :: vis).contains n = true := List.contains_iff_mem.2 (List.mem_cons_self ..)
    simp only [this, Bool.not_true]
  case b => simp only [not_contains h2, Bool.not_false]
  case h =>
    intro x hx
    simp only [Bool.not_eq_true'] at hx ⊢
    cases hc : vis.contains x with
    | false => rfl
    | true =>
      have : (n :: vis).contains x = true :=
        List.contains_iff_mem.2 (List.mem_cons_of_mem _ (List.contains_iff_mem.1 hc))
      rw [this] at hx; cases hx

theorem filter_ne_self {l : List String} {a : String} (h : a ∉ l) : l.filter (· ≠ a) = l := by
  rw [List.filter_eq_self]
  intro x hx
  simp only [ne_eq, decide_not, Bool.not_eq_eq_eq_not, Bool.not_true, decide_eq_false_iff_not]
  intro e
  exact h (e ▸ hx)

/-! ### Sort -/

section SortProofs
variable (nb : String → Option (List String)) (ks : List String)

/-- the reversed result list: each node's neighbours are further down, and it is not repeated -/
def TopoRev : List String → Prop
  | [] => True
  | u :: rest => (∀ v, Edge nb u v → v ∈ rest) ∧ u ∉ rest ∧ TopoRev rest

structure Inv (st : SortSt) : Prop where
  stack_vis : ∀ x ∈ st.stack, x ∈ st.visited
  vis_cases : ∀ x ∈ st.visited, x ∈ st.stack ∨ x ∈ st.results
  res_vis : ∀ x ∈ st.results, x ∈ st.visited ∧ x ∉ st.stack
  topo : TopoRev nb st.results.reverse
  vis_keys : ∀ x ∈ st.visited, x ∈ ks

/-- what a run of `visit`/`visitNbrs`/`sortFrom` may end in: a state satisfying `P`, or a
cycle error naming a node on a cycle; never `missing`, never `fuel` -/
def Outcome (r : Except SortErr SortSt) (P : SortSt → Prop) : Prop :=
  match r with
  | .ok st' => P st'
  | .error (.cycle c) => Reach nb c c
  | .error (.missing _) => False
  | .error .fuel => False

theorem Outcome.mono {r : Except SortErr SortSt} {P Q : SortSt → Prop}
    (h : Outcome nb r P) (hk : ∀ st', P st' → Q st') : Outcome nb r Q := by
  cases r with
  | error e => cases e <;> simpa [Outcome] using h
  | ok st' => exact hk st' h

structure Post (name : String) (st st' : SortSt) : Prop where
  stack_eq : st'.stack = st.stack
  vis_mono : ∀ x ∈ st.visited, x ∈ st'.visited
  res_mono : ∀ x ∈ st.results, x ∈ st'.results
  done : name ∈ st'.results
  inv : Inv nb ks st'

def VisitSpec (f : Nat) (rec : String → SortSt → Except SortErr SortSt) : Prop :=
  ∀ name st, name ∉ st.visited → name ∈ ks → Inv nb ks st → (∀ s ∈ st.stack, ReachRT nb s name) →
    unv ks st.visited < f → Outcome nb (rec name st) (Post nb ks name st)

structure LoopPost (ns : List String) (st st' : SortSt) : Prop where
  stack_eq : st'.stack = st.stack
  vis_mono : ∀ x ∈ st.visited, x ∈ st'.visited
  res_mono : ∀ x ∈ st.results, x ∈ st'.results
  done : ∀ m ∈ ns, m ∈ st'.results
  inv : Inv nb ks st'

variable (hks : ∀ n, (nb n).isSome = true ↔ n ∈ ks) (hclosed : Closed nb)
include hks hclosed

theorem visitNbrs_spec (f : Nat) (rec : String → SortSt → Except SortErr SortSt)
    (hrec : VisitSpec nb ks f rec) (name : String) (S : List String) :
    ∀ (ns : List String) (st : SortSt), (∀ m ∈ ns, Edge nb name m) → Inv nb ks st → st.stack = name :: S →
      (∀ s ∈ st.stack, ReachRT nb s name) → unv ks st.visited < f →
      Outcome nb (visitNbrs rec (fun n => (nb n).isSome) ns st) (LoopPost nb ks ns st) := by
  intro ns
  induction ns with
  | nil =>
    intro st _ hinv _ _ _
    simp only [visitNbrs, Outcome]
    exact ⟨rfl, fun _ h => h, fun _ h => h, (fun _ h => by cases h), hinv⟩
  | cons m ms ih =>
    intro st hedges hinv hstack hpath hfuel
    have hem : Edge nb name m := hedges m (List.mem_cons_self ..)
    have hedges' : ∀ x ∈ ms, Edge nb name x := fun x hx => hedges x (List.mem_cons_of_mem _ hx)
    unfold visitNbrs
    by_cases hv : m ∈ st.visited
    · -- already visited
      have hvb : st.visited.contains m = true := List.contains_iff_mem.2 hv
      by_cases hs : m ∈ st.stack
      · -- on the stack: a cycle through m
        have hsb : st.stack.contains m = true := List.contains_iff_mem.2 hs
        simp only [hvb, hsb, Bool.not_true, Bool.false_eq_true, if_false, if_true, Outcome]
        exact (hpath m hs).edge hem
      · have hsb : st.stack.contains m = false := not_contains hs
        simp only [hvb, hsb, Bool.not_true, Bool.false_eq_true, if_false]
        have hmres : m ∈ st.results := by
          cases hinv.vis_cases m hv with
          | inl h => exact absurd h hs
          | inr h => exact h
        refine Outcome.mono nb (ih st hedges' hinv hstack hpath hfuel) ?_
        intro st' p
        refine ⟨p.stack_eq, p.vis_mono, p.res_mono, ?_, p.inv⟩
        intro x hx
        cases hx with
        | head => exact p.res_mono m hmres
        | tail _ h => exact p.done x h
    · -- not visited: it exists (closed), recurse
      have hvb : st.visited.contains m = false := not_contains hv
      have hex : (nb m).isSome = true := hclosed name m hem
      simp only [hvb, Bool.not_false, if_true, hex, Bool.not_true, Bool.false_eq_true, if_false]
      have hpath' : ∀ s ∈ st.stack, ReachRT nb s m := fun s hs => (hpath s hs).tail hem
      have hr := hrec m st hv ((hks m).1 hex) hinv hpath' hfuel
      cases hrm : rec m st with
      | error e => rw [hrm] at hr; cases e <;> exact hr
      | ok st1 =>
      rw [hrm] at hr
      have p : Post nb ks m st st1 := hr
      have hstack1 : st1.stack = name :: S := by rw [p.stack_eq, hstack]
      have hpath1 : ∀ s ∈ st1.stack, ReachRT nb s name := by rw [p.stack_eq]; exact hpath
      have hfuel1 : unv ks st1.visited < f := Nat.lt_of_le_of_lt (unv_mono p.vis_mono) hfuel
      refine Outcome.mono nb (ih st1 hedges' p.inv hstack1 hpath1 hfuel1) ?_
      intro st' q
      refine ⟨by rw [q.stack_eq, p.stack_eq], fun x hx => q.vis_mono x (p.vis_mono x hx),
        fun x hx => q.res_mono x (p.res_mono x hx), ?_, q.inv⟩
      intro x hx
      cases hx with
      | head => exact q.res_mono m p.done
      | tail _ h => exact q.done x h

variable (hne : nb "" = none)
include hne

theorem visit_spec : ∀ f, VisitSpec nb ks f (visit nb f) := by
  intro f
  induction f with
  | zero => intro name st _ _ _ _ hf; exact absurd hf (Nat.not_lt_zero _)
  | succ f ih =>
    intro name st hnv hkey hinv hpath hfuel
    have hname : name ≠ "" := by
      intro e
      have := (hks name).2 hkey
      rw [e, hne] at this
      cases this
    have hnstack : name ∉ st.stack := fun h => hnv (hinv.stack_vis name h)
    -- the state on entry
    have hinv1 : Inv nb ks (enter name st) := by
      refine ⟨?_, ?_, ?_, hinv.topo, ?_⟩
      · intro x hx
        cases hx with
        | head => exact List.mem_cons_self ..
        | tail _ h => exact List.mem_cons_of_mem _ (hinv.stack_vis x h)
      · intro x hx
        cases hx with
        | head => exact Or.inl (List.mem_cons_self ..)
        | tail _ h =>
          cases hinv.vis_cases x h with
          | inl h' => exact Or.inl (List.mem_cons_of_mem _ h')
          | inr h' => exact Or.inr h'
      · intro x hx
        have ⟨h1, h2⟩ := hinv.res_vis x hx
        refine ⟨List.mem_cons_of_mem _ h1, ?_⟩
        intro h
        cases h with
        | head => exact hnv h1
        | tail _ h' => exact h2 h'
      · intro x hx
        cases hx with
        | head => exact hkey
        | tail _ h => exact hinv.vis_keys x h
    have hpath1 : ∀ s ∈ (enter name st).stack, ReachRT nb s name := by
      intro s hs
      cases hs with
      | head => exact .refl _
      | tail _ h => exact hpath s h
    have hfuel1 : unv ks (enter name st).visited < f := by
      have := unv_cons_lt (ks := ks) hkey hnv
      show unv ks (name :: st.visited) < f
      omega
    have hedges : ∀ m ∈ (nb name).getD [], Edge nb name m := fun m hm => hm
    have hloop := visitNbrs_spec nb ks hks hclosed f (visit nb f) ih name st.stack ((nb name).getD []) (enter name st)
      hedges hinv1 rfl hpath1 hfuel1
    show Outcome nb (visit nb (f + 1) name st) (Post nb ks name st)
    unfold visit
    cases hrm : visitNbrs (visit nb f) (fun n => (nb n).isSome) ((nb name).getD []) (enter name st) with
    | error e => rw [hrm] at hloop; cases e <;> exact hloop
    | ok st2 =>
      rw [hrm] at hloop
      have p : LoopPost nb ks ((nb name).getD []) (enter name st) st2 := hloop
      show Post nb ks name st (leave name st2)
      have hst2 : st2.stack = name :: st.stack := p.stack_eq
      have hfin : (leave name st2).results = st2.results ++ [name] := by simp [leave, finish, hname]
      have hfil : (leave name st2).stack = st.stack := by
        show st2.stack.filter (· ≠ name) = st.stack
        rw [hst2]
        simp only [List.filter_cons, ne_eq, not_true_eq_false, decide_false, Bool.false_eq_true, if_false]
        exact filter_ne_self hnstack
      have hn2 : name ∈ st2.visited := p.inv.stack_vis name (by rw [hst2]; exact List.mem_cons_self ..)
      have hnres : name ∉ st2.results := fun h => (p.inv.res_vis name h).2 (by rw [hst2]; exact List.mem_cons_self ..)
      refine ⟨hfil, ?_, ?_, ?_, ?_⟩
      · intro x hx; exact p.vis_mono x (List.mem_cons_of_mem _ hx)
      · intro x hx; rw [hfin]; exact List.mem_append_left _ (p.res_mono x hx)
      · rw [hfin]; exact List.mem_append_right _ (List.mem_cons_self ..)
      · refine ⟨?_, ?_, ?_, ?_, p.inv.vis_keys⟩
        · intro x hx
          rw [hfil] at hx
          exact p.vis_mono x (List.mem_cons_of_mem _ (hinv.stack_vis x hx))
        · intro x hx
          rw [hfil, hfin]
          cases p.inv.vis_cases x hx with
          | inl h =>
            rw [hst2] at h
            cases h with
            | head => exact Or.inr (List.mem_append_right _ (List.mem_cons_self ..))
            | tail _ h' => exact Or.inl h'
          | inr h => exact Or.inr (List.mem_append_left _ h)
        · intro x hx
          rw [hfin] at hx
          rw [hfil]
          cases List.mem_append.1 hx with
          | inl h =>
            have ⟨h1, h2⟩ := p.inv.res_vis x h
            exact ⟨h1, fun hs => h2 (by rw [hst2]; exact List.mem_cons_of_mem _ hs)⟩
          | inr h =>
            have : x = name := by simpa using h
            subst this
            exact ⟨hn2, hnstack⟩
        · rw [hfin, List.reverse_append]
          refine ⟨?_, ?_, p.inv.topo⟩
          · intro v hv
            exact List.mem_reverse.2 (p.done v hv)
          · intro h
            exact hnres (List.mem_reverse.1 h)

/-- the root loop of Sort: every listed node ends up in the results -/
theorem sortFrom_spec (f : Nat) :
    ∀ (order : List String) (st : SortSt), (∀ n ∈ order, n ∈ ks) → Inv nb ks st → st.stack = [] → ks.length < f →
      Outcome nb (sortFrom nb f order st)
        (fun st' => Inv nb ks st' ∧ st'.stack = [] ∧ (∀ x ∈ st.results, x ∈ st'.results) ∧ ∀ n ∈ order, n ∈ st'.results) := by
  intro order
  induction order with
  | nil =>
    intro st _ hinv hs _
    simp only [sortFrom, Outcome]
    exact ⟨hinv, hs, fun _ h => h, (fun _ h => by cases h)⟩
  | cons n rest ih =>
    intro st hord hinv hs hf
    have hord' : ∀ x ∈ rest, x ∈ ks := fun x hx => hord x (List.mem_cons_of_mem _ hx)
    unfold sortFrom
    by_cases hv : n ∈ st.visited
    · have hvb : st.visited.contains n = true := List.contains_iff_mem.2 hv
      simp only [hvb, if_true]
      have hnres : n ∈ st.results := by
        cases hinv.vis_cases n hv with
        | inl h => rw [hs] at h; cases h
        | inr h => exact h
      refine Outcome.mono nb (ih st hord' hinv hs hf) ?_
      intro st' ⟨a, b, c, d⟩
      refine ⟨a, b, c, ?_⟩
      intro x hx
      cases hx with
      | head => exact c n hnres
      | tail _ h => exact d x h
    · have hvb : st.visited.contains n = false := not_contains hv
      simp only [hvb, Bool.false_eq_true, if_false]
      have hst : ({ st with stack := [] } : SortSt) = st := by cases st; simp_all
      rw [hst]
      have hunv : unv ks st.visited < f := by
        have : unv ks st.visited ≤ ks.length := by unfold unv; exact List.length_filter_le _ _
        omega
      have hr := visit_spec nb ks hks hclosed hne f n st hv (hord n (List.mem_cons_self ..)) hinv
        (by rw [hs]; intro s h; cases h) hunv
      cases hrm : visit nb f n st with
      | error e => rw [hrm] at hr; cases e <;> exact hr
      | ok st1 =>
      rw [hrm] at hr
      have p : Post nb ks n st st1 := hr
      refine Outcome.mono nb (ih st1 hord' p.inv (by rw [p.stack_eq, hs]) hf) ?_
      intro st' ⟨a, b, c, d⟩
      refine ⟨a, b, fun x hx => c x (p.res_mono x hx), ?_⟩
      intro x hx
      cases hx with
      | head => exact c n p.done
      | tail _ h => exact d x h

end SortProofs

/-! ### consequences of a dependencies-first order -/

section Topo
variable (nb : String → Option (List String))

theorem TopoRev.closed {r : List String} (h : TopoRev nb r) : ∀ x ∈ r, ∀ y, Reach nb x y → y ∈ r := by
  induction r with
  | nil => intro x hx; cases hx
  | cons a as ih =>
    obtain ⟨h1, _, h3⟩ := h
    intro x hx y hxy
    cases hx with
    | head =>
      cases hxy with
      | edge e => exact List.mem_cons_of_mem _ (h1 _ e)
      | step e hr => exact List.mem_cons_of_mem _ (ih h3 _ (h1 _ e) _ hr)
    | tail _ hx' => exact List.mem_cons_of_mem _ (ih h3 x hx' y hxy)

theorem TopoRev.below {a : String} {as : List String} (h : TopoRev nb (a :: as)) : ∀ y, Reach nb a y → y ∈ as := by
  obtain ⟨h1, _, h3⟩ := h
  intro y hxy
  cases hxy with
  | edge e => exact h1 _ e
  | step e hr => exact TopoRev.closed nb h3 _ (h1 _ e) _ hr

theorem TopoRev.acyclic {r : List String} (h : TopoRev nb r) : ∀ c ∈ r, ¬ Reach nb c c := by
  induction r with
  | nil => intro c hc; cases hc
  | cons a as ih =>
    intro c hc hcc
    cases hc with
    | head => exact h.2.1 (TopoRev.below nb h _ hcc)
    | tail _ hc' => exact ih h.2.2 c hc' hcc

theorem TopoRev.nodup {r : List String} (h : TopoRev nb r) : r.Nodup := by
  induction r with
  | nil => exact List.nodup_nil
  | cons a as ih => exact List.nodup_cons.2 ⟨h.2.1, ih h.2.2⟩

theorem nodup_of_reverse {l : List String} (h : l.reverse.Nodup) : l.Nodup := by
  unfold List.Nodup at *
  rw [List.pairwise_reverse] at h
  exact h.imp (fun hab => Ne.symm hab)

/-- the split form used in the property statement -/
theorem TopoRev.depsFirst {res : List String} (h : TopoRev nb res.reverse) : DepsFirst nb res := by
  intro l1 u l2 e
  subst e
  rw [List.reverse_append, List.reverse_cons, List.append_assoc] at h
  -- h : TopoRev (l2.reverse ++ ([u] ++ l1.reverse))
  have drop : ∀ (p q : List String), TopoRev nb (p ++ q) → TopoRev nb q := by
    intro p q
    induction p with
    | nil => exact id
    | cons x xs ih => intro hh; exact ih hh.2.2
  have h' := drop _ _ h
  obtain ⟨h1, h2, _⟩ := h'
  exact ⟨fun v hv => List.mem_reverse.1 (h1 v hv), fun hu => h2 (List.mem_reverse.2 hu)⟩

end Topo

/-! ### TraceNode -/

section TraceProofs
variable (nb : String → Option (List String)) (ks : List String)

structure TPost (id : String) (tree tree' : List String) : Prop where
  mono : ∀ x ∈ tree, x ∈ tree'
  /-- every node added during the call has all its neighbours in the result -/
  expanded : ∀ x ∈ tree', x ∉ tree → ∀ y, Edge nb x y → y ∈ tree'
  keys : ∀ x ∈ tree', x ∈ ks
  sound : ∀ x ∈ tree', x ∈ tree ∨ Reach nb id x

def TraceSpec (f : Nat) (rec : String → List String → Except TraceErr (List String)) : Prop :=
  ∀ id tree, id ∈ ks → (∀ x ∈ tree, x ∈ ks) → unv ks tree < f →
    ∃ tree', rec id tree = .ok tree' ∧ TPost nb ks id tree tree' ∧ ∀ y, Edge nb id y → y ∈ tree'

variable (hks : ∀ n, (nb n).isSome = true ↔ n ∈ ks) (hclosed : Closed nb)
include hks hclosed

theorem traceNbrs_spec (f : Nat) (rec : String → List String → Except TraceErr (List String))
    (hrec : TraceSpec nb ks f rec) (id : String) :
    ∀ (ns tree : List String), (∀ n ∈ ns, Edge nb id n) → (∀ x ∈ tree, x ∈ ks) → unv ks tree ≤ f →
      ∃ tree', traceNbrs rec ns tree = .ok tree' ∧ TPost nb ks id tree tree' ∧ ∀ n ∈ ns, n ∈ tree' := by
  intro ns
  induction ns with
  | nil =>
    intro tree _ hk _
    exact ⟨tree, rfl, ⟨fun _ h => h, fun x hx hn => absurd hx hn, hk, fun x hx => Or.inl hx⟩, (fun _ h => by cases h)⟩
  | cons n rest ih =>
    intro tree hedges hk hf
    have hen : Edge nb id n := hedges n (List.mem_cons_self ..)
    have hedges' : ∀ x ∈ rest, Edge nb id x := fun x hx => hedges x (List.mem_cons_of_mem _ hx)
    unfold traceNbrs
    by_cases hin : n ∈ tree
    · have hb : tree.contains n = true := List.contains_iff_mem.2 hin
      simp only [hb, if_true]
      obtain ⟨t', e, p, d⟩ := ih tree hedges' hk hf
      refine ⟨t', e, p, ?_⟩
      intro x hx
      cases hx with
      | head => exact p.mono n hin
      | tail _ h => exact d x h
    · have hb : tree.contains n = false := not_contains hin
      simp only [hb, Bool.false_eq_true, if_false]
      have hnk : n ∈ ks := (hks n).1 (hclosed id n hen)
      have hk1 : ∀ x ∈ n :: tree, x ∈ ks := by
        intro x hx
        cases hx with
        | head => exact hnk
        | tail _ h => exact hk x h
      have hf1 : unv ks (n :: tree) < f := Nat.lt_of_lt_of_le (unv_cons_lt hnk hin) hf
      obtain ⟨t2, e2, p2, c2⟩ := hrec n (n :: tree) hnk hk1 hf1
      rw [e2]
      have hf2 : unv ks t2 ≤ f :=
        Nat.le_trans (unv_mono (fun x hx => p2.mono x (List.mem_cons_of_mem _ hx))) hf
      obtain ⟨t3, e3, p3, d3⟩ := ih t2 hedges' p2.keys hf2
      refine ⟨t3, e3, ⟨?_, ?_, p3.keys, ?_⟩, ?_⟩
      · intro x hx; exact p3.mono x (p2.mono x (List.mem_cons_of_mem _ hx))
      · intro x hx hnt y hxy
        by_cases hx2 : x ∈ t2
        · -- added by the recursive call (or n itself): expanded inside t2
          by_cases hxn : x = n
          · subst hxn; exact p3.mono y (c2 y hxy)
          · have : x ∉ n :: tree := by
              intro h
              cases h with
              | head => exact hxn rfl
              | tail _ h' => exact hnt h'
            exact p3.mono y (p2.expanded x hx2 this y hxy)
        · exact p3.expanded x hx hx2 y hxy
      · intro x hx
        cases p3.sound x hx with
        | inr h => exact Or.inr h
        | inl h =>
          cases p2.sound x h with
          | inr h' => exact Or.inr (.step hen h')
          | inl h' =>
            cases h' with
            | head => exact Or.inr (.edge hen)
            | tail _ h'' => exact Or.inl h''
      · intro x hx
        cases hx with
        | head => exact p3.mono n (p2.mono n (List.mem_cons_self ..))
        | tail _ h => exact d3 x h

theorem traceNode_spec : ∀ f, TraceSpec nb ks f (traceNode nb f) := by
  intro f
  induction f with
  | zero => intro id tree _ _ hf; exact absurd hf (Nat.not_lt_zero _)
  | succ f ih =>
    intro id tree hid hk hf
    unfold traceNode
    have hsome := (hks id).2 hid
    cases hn : nb id with
    | none => rw [hn] at hsome; cases hsome
    | some ns =>
      simp only []
      have hedges : ∀ n ∈ ns, Edge nb id n := by
        intro n h; unfold Edge; rw [hn]; exact h
      obtain ⟨t', e, p, d⟩ := traceNbrs_spec nb ks hks hclosed f (traceNode nb f) ih id ns tree hedges hk (Nat.le_of_lt_succ hf)
      refine ⟨t', e, p, ?_⟩
      intro y hy
      unfold Edge at hy; rw [hn] at hy
      exact d y hy

/-- TraceNode of an existing node returns exactly the nodes reachable by at least one edge -/
theorem traceG_spec (id : String) (hid : id ∈ ks) :
    ∃ t, traceG nb ks.length id = .ok t ∧ ∀ m, m ∈ t ↔ Reach nb id m := by
  have hu : unv ks [] < ks.length + 1 := by
    have : unv ks [] ≤ ks.length := by unfold unv; exact List.length_filter_le _ _
    omega
  obtain ⟨t, e, p, c⟩ := traceNode_spec nb ks hks hclosed (ks.length + 1) id [] hid (fun _ h => by cases h) hu
  refine ⟨t, e, ?_⟩
  intro m
  constructor
  · intro hm
    cases p.sound m hm with
    | inl h => cases h
    | inr h => exact h
  · intro hr
    have closed : ∀ x ∈ t, ∀ y, Edge nb x y → y ∈ t := fun x hx y hxy => p.expanded x hx (fun h => by cases h) y hxy
    have closedR : ∀ x y, Reach nb x y → x ∈ t → y ∈ t := by
      intro x y hxy
      induction hxy with
      | edge e => intro hx; exact closed _ hx _ e
      | step e _ ih => intro hx; exact ih (closed _ hx _ e)
    cases hr with
    | edge e => exact c m e
    | step e hr' => exact closedR _ _ hr' (c _ e)

end TraceProofs

end Xp.C17

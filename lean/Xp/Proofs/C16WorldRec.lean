import Xp.Proofs.C16World
/-
C16: ReleaseObjects, one reconcile and histories in the world of `Model/C16World.lean`.

ReleaseObjects: the Update of a reference's goroutine carries the resourceVersion its Get
returned, so — whatever the third party did in between — it can only replace the very
object that Get read; what it writes is that object with the revision's entry flipped
(`QR`). Everything else in the store is the third party's.
-/
namespace Xp.C16

/-! ### ReleaseObjects in the world -/

/-- the third party's puts during one ReleaseObjects call -/
def RInterf.Puts (ri : RInterf) (a : Obj) : Prop := ∃ i, Act.put a ∈ ri.get i ∨ Act.put a ∈ ri.upd i

/-- an object after ReleaseObjects in the world: some `b` — an object of the initial store
or one the third party put — either untouched or rewritten by ReleaseObjects within `QR` -/
def RGood (p : Parent) (P : Obj → Prop) (l₀ : List Obj) (o' : Obj) : Prop :=
  ∃ b, (b ∈ l₀ ∨ PutBy P b) ∧ (o' = b ∨ QR p b o')

structure RVInv (p : Parent) (P : Obj → Prop) (s₀ s : Store) : Prop where
  wf : WF s
  frozen : Frozen s₀ s
  objs : ∀ o' ∈ s.objs, RGood p P s₀.objs o'

theorem RVInv.refl (p : Parent) (P : Obj → Prop) (s : Store) (hw : WF s) : RVInv p P s s :=
  ⟨hw, Frozen.refl s, fun o h => ⟨o, Or.inl h, Or.inl rfl⟩⟩

theorem RVInv.acts {p : Parent} {P : Obj → Prop} {s₀ s : Store} (hi : RVInv p P s₀ s) (as : List Act)
    (hP : ∀ o, Act.put o ∈ as → P o) : RVInv p P s₀ (applyActs s as) := by
  induction as generalizing s with
  | nil => exact hi
  | cons a as ih =>
    rw [applyActs_cons]
    refine ih ⟨applyAct_wf s a hi.wf, applyAct_frozen s₀ s a hi.frozen, fun o' ho' => ?_⟩
      fun o h => hP o (List.mem_cons_of_mem _ h)
    rcases applyAct_mem s a o' ho' with h | ⟨o, ha, he⟩
    · exact hi.objs o' h
    · subst he
      exact ⟨{ o with rv := s.nextRv }, Or.inr ⟨o, hP o (ha ▸ List.mem_cons_self), rfl, rfl, rfl⟩, Or.inl rfl⟩

theorem releaseOneV_inv (rejects : Obj → Bool) (fault : Fault) (ri : RInterf) (p : Parent) (ran : Nat → Bool)
    (P : Obj → Prop) (s₀ s : Store) (i : Nat) (ref : Ref)
    (hP : ∀ o, (Act.put o ∈ ri.get i ∨ Act.put o ∈ ri.upd i) → P o) (hi : RVInv p P s₀ s) :
    RVInv p P s₀ (releaseOneV rejects fault ri p ran s i ref).1 := by
  have h1 : RVInv p P s₀ (applyActs s (ri.get i)) := hi.acts _ fun o h => hP o (Or.inl h)
  have h2 : RVInv p P s₀ (applyActs (applyActs s (ri.get i)) (ri.upd i)) := h1.acts _ fun o h => hP o (Or.inr h)
  have hf2 : Frozen (applyActs s (ri.get i)) (applyActs (applyActs s (ri.get i)) (ri.upd i)) :=
    applyActs_frozen _ _ _ (Frozen.refl _)
  unfold releaseOneV
  dsimp only
  split
  · exact hi
  · split
    · exact hi
    · split <;> try exact h1
      split
      · exact h1
      · rename_i cur hget
        split
        · exact h1
        · rename_i sub hsub
          rw [liftW_fst]
          have he := apiUpdate_effect rejects false (fault i .real) (applyActs (applyActs s (ri.get i)) (ri.upd i)) sub
          have ⟨hsk, hsrv⟩ := releaseSub_key p cur sub hsub
          have hck := get_key _ _ cur hget
          have hcm := get_mem _ _ cur hget
          refine ⟨effect_wf _ _ sub he.toEffect h2.wf, effect_frozen s₀ _ _ sub he.toEffect h2.frozen, ?_⟩
          intro o' ho'
          cases he with
          | nothing e1 _ => rw [e1] at ho'; exact h2.objs o' ho'
          | replaced c g1 g2 g3 g4 _ =>
            rw [g4] at ho'
            obtain ⟨x, hx, hx'⟩ := List.mem_map.mp ho'
            by_cases e : x.key = sub.key
            · simp only [e, if_true] at hx'
              subst hx'
              -- the object replaced is the object the Get of this goroutine read
              have hcmem := get_mem _ _ c g1
              have hckey := get_key _ _ c g1
              have hlt : c.rv < (applyActs s (ri.get i)).nextRv := by
                rw [g2, hsrv]; exact h1.wf.rvs cur hcm
              have hc1 : c ∈ (applyActs s (ri.get i)).objs := hf2.old c hcmem hlt
              have : c = cur := h1.wf.keys c hc1 cur hcm (hckey.trans hsk)
              subst this
              have hq := releaseSub_QR p c sub (applyActs (applyActs s (ri.get i)) (ri.upd i)).nextRv hsub
              obtain ⟨b, hb, hr⟩ := h2.objs c hcmem
              rcases hr with e1 | q
              · subst e1; exact ⟨c, hb, Or.inr hq⟩
              · exact ⟨b, hb, Or.inr (QR.trans p _ _ _ q hq)⟩
            · simp only [e, if_false] at hx'
              subst hx'
              exact h2.objs x hx

theorem releaseAllV_inv (rejects : Obj → Bool) (fault : Fault) (ri : RInterf) (p : Parent) (ran : Nat → Bool)
    (P : Obj → Prop) (s₀ s : Store) (xs : List (Nat × Ref))
    (hP : ∀ a, ri.Puts a → P a) (hi : RVInv p P s₀ s) :
    RVInv p P s₀ (releaseAllV rejects fault ri p ran s xs).1 := by
  induction xs generalizing s with
  | nil => exact hi
  | cons x rest ih =>
    obtain ⟨i, k⟩ := x
    have h1 := releaseOneV_inv rejects fault ri p ran P s₀ s i k (fun o h => hP o ⟨i, h⟩) hi
    unfold releaseAllV
    split <;> rename_i s1 _ heq <;> (rw [heq] at h1; simp only at h1)
    · exact h1
    · have h2 := ih s1 h1
      split <;> rename_i s2 _ heq2 <;> (rw [heq2] at h2; exact h2)
    · exact ih s1 h1

/-- Master invariant of ReleaseObjects in the world. -/
theorem releaseV_inv (rejects : Obj → Bool) (fault : Fault) (ri : RInterf) (p : Parent) (ran : Nat → Bool)
    (s : Store) (refs : List Ref) (order : List Nat) (hw : WF s) :
    RVInv p ri.Puts s (releaseV rejects fault ri p ran s refs order).1 :=
  releaseAllV_inv rejects fault ri p ran ri.Puts s s _ (fun _ h => h) (RVInv.refl p _ s hw)

/-- ReleaseObjects issues updates only, whoever interferes -/
theorem releaseOneV_log (rejects : Obj → Bool) (fault : Fault) (ri : RInterf) (p : Parent) (ran : Nat → Bool)
    (s : Store) (i : Nat) (ref : Ref) :
    LogExt false s.log (releaseOneV rejects fault ri p ran s i ref).1.log := by
  have h1 : (applyActs s (ri.get i)).log = s.log := applyActs_log _ _
  unfold releaseOneV
  dsimp only
  split
  · exact LogExt.refl _ _
  · split
    · exact LogExt.refl _ _
    · split <;> try (rw [h1]; exact LogExt.refl _ _)
      split
      · rw [h1]; exact LogExt.refl _ _
      · split
        · rw [h1]; exact LogExt.refl _ _
        · rename_i sub _
          rw [liftW_fst]
          have := apiUpdate_ext false rejects false (fault i .real) (applyActs (applyActs s (ri.get i)) (ri.upd i)) sub
          rw [applyActs_log, h1] at this
          exact this

theorem releaseAllV_log (rejects : Obj → Bool) (fault : Fault) (ri : RInterf) (p : Parent) (ran : Nat → Bool)
    (s : Store) (xs : List (Nat × Ref)) :
    LogExt false s.log (releaseAllV rejects fault ri p ran s xs).1.log := by
  induction xs generalizing s with
  | nil => exact LogExt.refl _ _
  | cons x rest ih =>
    obtain ⟨i, k⟩ := x
    have h1 := releaseOneV_log rejects fault ri p ran s i k
    unfold releaseAllV
    split <;> rename_i s1 _ heq <;> (rw [heq] at h1; simp only at h1)
    · exact h1
    · have h2 := ih s1
      split <;> rename_i s2 _ heq2 <;> (rw [heq2] at h2; exact h1.trans h2)
    · exact h1.trans (ih s1)

/-! ### a successful release in the world -/

/-- every stored object with key `k` is the third party's, or has `p` as an owner whose
(first) entry is no controller reference -/
def RelOr (p : Parent) (P : Obj → Prop) (k : String) (l : List Obj) : Prop :=
  ∀ o' ∈ l, o'.key = k → PutBy P o' ∨ (hasUid o'.owners p.uid ∧
    ∀ r, o'.owners.find? (fun r => r.uid = p.uid) = some r → r.isCtrl = false)

theorem RelOr.acts {p : Parent} {P : Obj → Prop} {k : String} {s : Store} (h : RelOr p P k s.objs)
    (as : List Act) (hP : ∀ o, Act.put o ∈ as → P o) : RelOr p P k (applyActs s as).objs := by
  induction as generalizing s with
  | nil => exact h
  | cons a as ih =>
    rw [applyActs_cons]
    refine ih (fun o' ho' hk => ?_) fun o h => hP o (List.mem_cons_of_mem _ h)
    rcases applyAct_mem s a o' ho' with h1 | ⟨o, ha, he⟩
    · exact h o' h1 hk
    · subst he
      exact Or.inl ⟨o, hP o (ha ▸ List.mem_cons_self), rfl, rfl, rfl⟩

/-- one goroutine of ReleaseObjects (of any reference) keeps `RelOr` of every key -/
theorem releaseOneV_relOr (rejects : Obj → Bool) (fault : Fault) (ri : RInterf) (p : Parent) (ran : Nat → Bool)
    (P : Obj → Prop) (k : String) (s : Store) (i : Nat) (ref : Ref)
    (hP : ∀ o, (Act.put o ∈ ri.get i ∨ Act.put o ∈ ri.upd i) → P o) (h : RelOr p P k s.objs) :
    RelOr p P k (releaseOneV rejects fault ri p ran s i ref).1.objs := by
  have h1 : RelOr p P k (applyActs s (ri.get i)).objs := h.acts _ fun o h => hP o (Or.inl h)
  have h2 : RelOr p P k (applyActs (applyActs s (ri.get i)) (ri.upd i)).objs := h1.acts _ fun o h => hP o (Or.inr h)
  unfold releaseOneV
  dsimp only
  split
  · exact h
  · split
    · exact h
    · split <;> try exact h1
      split
      · exact h1
      · rename_i cur hget
        split
        · exact h1
        · rename_i sub hsub
          rw [liftW_fst]
          have he := apiUpdate_effect rejects false (fault i .real) (applyActs (applyActs s (ri.get i)) (ri.upd i)) sub
          have hq := releaseSub_QR p cur sub (applyActs (applyActs s (ri.get i)) (ri.upd i)).nextRv hsub
          intro o' ho' hk
          cases he with
          | nothing e1 _ => rw [e1] at ho'; exact h2 o' ho' hk
          | replaced c g1 g2 g3 g4 _ =>
            rw [g4] at ho'
            obtain ⟨x, hx, hx'⟩ := List.mem_map.mp ho'
            by_cases e : x.key = sub.key
            · simp only [e, if_true] at hx'
              subst hx'
              exact Or.inr ⟨hq.mine, hq.released⟩
            · simp only [e, if_false] at hx'
              subst hx'
              exact h2 x hx hk

theorem releaseAllV_relOr (rejects : Obj → Bool) (fault : Fault) (ri : RInterf) (p : Parent) (ran : Nat → Bool)
    (P : Obj → Prop) (k : String) (s : Store) (xs : List (Nat × Ref))
    (hP : ∀ a, ri.Puts a → P a) (h : RelOr p P k s.objs) :
    RelOr p P k (releaseAllV rejects fault ri p ran s xs).1.objs := by
  induction xs generalizing s with
  | nil => exact h
  | cons x rest ih =>
    obtain ⟨i, r⟩ := x
    have h1 := releaseOneV_relOr rejects fault ri p ran P k s i r (fun o h => hP o ⟨i, h⟩) h
    unfold releaseAllV
    split <;> rename_i s1 _ heq <;> (rw [heq] at h1; simp only at h1)
    · exact h1
    · have h2 := ih s1 h1
      split <;> rename_i s2 _ heq2 <;> (rw [heq2] at h2; exact h2)
    · exact ih s1 h1

/-- a goroutine of ReleaseObjects that reports success has released its reference -/
theorem releaseOneV_ok (rejects : Obj → Bool) (fault : Fault) (ri : RInterf) (p : Parent) (ran : Nat → Bool)
    (P : Obj → Prop) (s s' : Store) (i : Nat) (ref : Ref) (hw : WF s)
    (h : releaseOneV rejects fault ri p ran s i ref = (s', .ok ())) : RelOr p P ref.key s'.objs := by
  have hw1 : WF (applyActs s (ri.get i)) := applyActs_wf _ _ hw
  have hw2 : WF (applyActs (applyActs s (ri.get i)) (ri.upd i)) := applyActs_wf _ _ hw1
  unfold releaseOneV at h
  dsimp only at h
  split at h
  · simp at h
  · split at h
    · simp at h
    · split at h <;> try (simp at h; done)
      split at h
      · rename_i hget
        simp only [Prod.mk.injEq, and_true] at h
        subst h
        intro o' ho' hk
        exact absurd hk (get_none _ ref.key hget o' ho')
      · rename_i cur hget
        have hcm := get_mem _ _ cur hget
        have hck := get_key _ _ cur hget
        split at h
        · rename_i hsub
          simp only [Prod.mk.injEq, and_true] at h
          subst h
          intro o' ho' hk
          have : o' = cur := hw1.keys o' ho' cur hcm (hk.trans hck.symm)
          subst this
          exact Or.inr (releaseSub_none p o' hsub)
        · rename_i sub hsub
          obtain ⟨c, hget', hs'⟩ := apiUpdate_ok _ _ _ _ _ (liftW_eq_ok _ _ _ _ h)
          have ⟨hsk, _⟩ := releaseSub_key p cur sub hsub
          have hq := releaseSub_QR p cur sub 0 hsub
          have hcm' := get_mem _ _ c hget'
          have hck' := get_key _ _ c hget'
          subst hs'
          intro o' ho' hk
          unfold replaceObj at ho'
          split at ho'
          · rename_i hsame
            have : o' = c := hw2.keys o' ho' c hcm' (hk.trans (hck.symm.trans (hsk.symm.trans hck'.symm)))
            subst this
            have e := sameContent_owners o' sub hsame
            rw [e]
            exact Or.inr ⟨hq.mine, hq.released⟩
          · simp only at ho'
            obtain ⟨x, hx, hxo⟩ := List.mem_map.mp ho'
            split at hxo
            · subst hxo
              exact Or.inr ⟨hq.mine, hq.released⟩
            · subst hxo
              rename_i hne
              exact absurd (hk.trans (hck.symm.trans hsk.symm)) hne

theorem releaseAllV_ok (rejects : Obj → Bool) (fault : Fault) (ri : RInterf) (p : Parent) (ran : Nat → Bool)
    (P : Obj → Prop) (s s' : Store) (xs : List (Nat × Ref)) (hw : WF s) (hP : ∀ a, ri.Puts a → P a)
    (h : releaseAllV rejects fault ri p ran s xs = (s', .ok ())) : ∀ x ∈ xs, RelOr p P x.2.key s'.objs := by
  induction xs generalizing s with
  | nil => intro x hx; cases hx
  | cons x rest ih =>
    obtain ⟨i, k⟩ := x
    unfold releaseAllV at h
    have h1 := releaseOneV_inv rejects fault ri p ran P s s i k (fun o h => hP o ⟨i, h⟩) (RVInv.refl p P s hw)
    split at h
    · simp at h
    · split at h <;> simp at h
    · rename_i s1 u heq
      rw [heq] at h1
      simp only at h1
      intro x hx
      rcases List.mem_cons.mp hx with e | e
      · subst e
        have h0 := releaseOneV_ok rejects fault ri p ran P s s1 i k hw heq
        have hrest := releaseAllV_relOr rejects fault ri p ran P k.key s1 rest hP h0
        rw [h] at hrest
        exact hrest
      · exact ih s1 h1.wf h x e

/-- If ReleaseObjects reports success in the world, every stored object named by a reference
(whose goroutine is in the order) is the third party's, or has the revision as an owner that
is not its controller. -/
theorem releaseV_ok (rejects : Obj → Bool) (fault : Fault) (ri : RInterf) (p : Parent) (ran : Nat → Bool)
    (s s' : Store) (refs : List Ref) (order : List Nat) (hw : WF s)
    (h : releaseV rejects fault ri p ran s refs order = (s', .ok ()))
    (j : Nat) (k : Ref) (hk : refs[j]? = some k) (hj : j ∈ order) : RelOr p ri.Puts k.key s'.objs :=
  releaseAllV_ok rejects fault ri p ran ri.Puts s s' _ hw (fun _ h => h) h (j, k) (mem_pick refs order j k hk hj)

/-! ### no interference -/

theorem releaseOneV_none (rejects : Obj → Bool) (fault : Fault) (p : Parent) (ran : Nat → Bool)
    (s : Store) (i : Nat) (ref : Ref) :
    releaseOneV rejects fault RInterf.none p ran s i ref = releaseOne rejects fault p ran s i ref := by
  unfold releaseOneV releaseOne
  rfl

theorem releaseAllV_none (rejects : Obj → Bool) (fault : Fault) (p : Parent) (ran : Nat → Bool)
    (s : Store) (xs : List (Nat × Ref)) :
    releaseAllV rejects fault RInterf.none p ran s xs = releaseAll rejects fault p ran s xs := by
  induction xs generalizing s with
  | nil => rfl
  | cons x rest ih =>
    obtain ⟨i, k⟩ := x
    unfold releaseAllV releaseAll
    rw [releaseOneV_none]
    simp only [ih]
    rfl

theorem releaseV_none (rejects : Obj → Bool) (fault : Fault) (p : Parent) (ran : Nat → Bool)
    (s : Store) (refs : List Ref) (order : List Nat) :
    releaseV rejects fault RInterf.none p ran s refs order = release rejects fault p ran s refs order :=
  releaseAllV_none rejects fault p ran s _

theorem reconcileRevV_none (sys : Sys) (r : Rev) (e : Env) (tp : Interf) :
    reconcileRevV sys r e { e := tp } = reconcileRevI sys r e tp := by
  have hv : ∀ s, establishV e.rejects e.fault ({} : VInterf) tp r.parent r.active s r.objs e.vorder e.eorder =
      establishI e.rejects e.fault tp r.parent r.active s r.objs e.vorder e.eorder :=
    fun s => establishV_none _ _ _ _ _ _ _ _ _
  have hr : releaseV e.rejects e.fault ({} : RInterf) r.parent e.ran sys.store (sys.refs r.parent.uid) e.rorder =
      release e.rejects e.fault r.parent e.ran sys.store (sys.refs r.parent.uid) e.rorder :=
    releaseV_none _ _ _ _ _ _ _
  unfold reconcileRevV reconcileRevI establishAndRecordV establishAndRecordI
  simp only [hv, hr]
  rfl

theorem runHistoryV_none (sys : Sys) (h : List HStep) :
    runHistoryV sys (h.map fun x => ⟨x.before, x.rev, x.env, { e := x.tp }⟩) = runHistoryI sys h := by
  induction h generalizing sys with
  | nil => rfl
  | cons x rest ih =>
    simp only [List.map_cons, runHistoryV, runHistoryI, reconcileRevV_none]
    exact ih _

/-! ### one reconcile and histories in the world -/

/-- the third party's puts during one reconcile -/
def World.Puts (w : World) (a : Obj) : Prop := w.v.Puts a ∨ w.e.Puts a ∨ w.r.Puts a

theorem GInv.establishV {l₀ : List Obj} {A : Nat → Prop} {P : Obj → Prop} {s : Store} (hi : GInv l₀ A P s)
    (rejects : Obj → Bool) (fault : Fault) (vi : VInterf) (tp : Interf) (p : Parent) (control : Bool)
    (objs : List Desired) (vorder eorder : List Nat)
    (hst : StaleOK s vi (pick objs vorder))
    (hA : control = true → A p.uid) (hP : ∀ a, EPuts vi tp a → P a) :
    GInv l₀ A P (establishV rejects fault vi tp p control s objs vorder eorder).1 := by
  have h := establishV_inv rejects fault vi tp p control s objs vorder eorder hi.wf hst
  have hrw : ∀ {o o' : Obj}, Good l₀ A P o → QE p control o o' → Good l₀ A P o' := by
    intro o o' g q
    refine g.rewrite q.key q.uids fun u hu => ?_
    rcases q.ctrls u hu with h1 | ⟨hc, e⟩
    · exact Or.inl h1
    · exact Or.inr (e ▸ hA hc)
  refine ⟨h.wf, fun o' ho' => ?_⟩
  cases h.objs o' ho' with
  | same hs => exact hi.good o' hs
  | rewritten o ho hk q => exact hrw (hi.good o ho) q
  | created c =>
    exact ⟨fun u hu => Or.inr (Or.inl ((c.ctrls u hu) ▸ hA c.active)),
      Or.inr (Or.inr ⟨p.uid, hA c.active, asController p, c.mine, rfl⟩)⟩
  | third t => exact Good.ofPut (t.mono hP)
  | rethird o ho hk q => exact hrw (Good.ofPut (ho.mono hP)) q

theorem GInv.releaseV {l₀ : List Obj} {A : Nat → Prop} {P : Obj → Prop} {s : Store} (hi : GInv l₀ A P s)
    (rejects : Obj → Bool) (fault : Fault) (ri : RInterf) (p : Parent) (ran : Nat → Bool) (refs : List Ref)
    (order : List Nat) (hP : ∀ a, ri.Puts a → P a) :
    GInv l₀ A P (releaseV rejects fault ri p ran s refs order).1 := by
  have h := releaseV_inv rejects fault ri p ran s refs order hi.wf
  refine ⟨h.wf, fun o' ho' => ?_⟩
  obtain ⟨b, hb, hr⟩ := h.objs o' ho'
  have gb : Good l₀ A P b := by
    rcases hb with hb | hb
    · exact hi.good b hb
    · exact Good.ofPut (hb.mono hP)
  rcases hr with e | q
  · subst e; exact gb
  · exact gb.rewrite q.key q.uids fun u hu => Or.inl (q.ctrls u hu)

theorem establishAndRecordV_store (sys : Sys) (s : Store) (r : Rev) (e : Env) (w : World) :
    (establishAndRecordV sys s r e w).1.store =
      (establishV e.rejects e.fault w.v w.e r.parent r.active s r.objs e.vorder e.eorder).1 := by
  unfold establishAndRecordV
  split <;> rename_i heq <;> rw [heq]

theorem StaleOK.mono {s s' : Store} {vi : VInterf} {xs : List (Nat × Desired)} (hf : Frozen s s')
    (h : StaleOK s vi xs) : StaleOK s' vi xs :=
  fun x hx v hv => ⟨(h x hx v hv).1, (h x hx v hv).2.mono hf⟩

/-- the store the Establish call of this reconcile starts from -/
theorem GInv.reconcileV {l₀ : List Obj} {A : Nat → Prop} {P : Obj → Prop} {sys : Sys} (hi : GInv l₀ A P sys.store)
    (r : Rev) (e : Env) (w : World) (hst : StaleOK sys.store w.v (pick r.objs e.vorder))
    (hA : r.active = true → A r.parent.uid) (hP : ∀ a, w.Puts a → P a) :
    GInv l₀ A P (reconcileRevV sys r e w).1.store := by
  have hPe : ∀ a, EPuts w.v w.e a → P a := fun a h => hP a (h.elim Or.inl fun h => Or.inr (Or.inl h))
  have hPr : ∀ a, w.r.Puts a → P a := fun a h => hP a (Or.inr (Or.inr h))
  unfold reconcileRevV
  split
  · rename_i listed _
    split
    · exact hi
    · have h1 := hi.releaseV e.rejects e.fault w.r r.parent e.ran listed e.rorder hPr
      split <;> rename_i s1 heq <;> (try rename_i x) <;> (rw [heq] at h1; exact h1)
  · split
    · rw [establishAndRecordV_store]
      exact hi.establishV _ _ _ _ _ _ _ _ _ hst hA hPe
    · have h1 := hi.releaseV e.rejects e.fault w.r r.parent e.ran (sys.refs r.parent.uid) e.rorder hPr
      have hf := (releaseV_inv e.rejects e.fault w.r r.parent e.ran sys.store
        (sys.refs r.parent.uid) e.rorder hi.wf).frozen
      split <;> rename_i s1 heq <;> (try rename_i x) <;> (rw [heq] at h1 hf; simp only at h1 hf)
      · split
        · exact h1
        · rw [establishAndRecordV_store]
          exact h1.establishV _ _ _ _ _ _ _ _ _ (hst.mono hf) hA hPe
      · exact h1
      · exact h1

/-- the revisions that some step of the history reconciles as active -/
def ActiveInV (h : List WStep) (u : Nat) : Prop := ∃ x ∈ h, x.rev.active = true ∧ x.rev.parent.uid = u

/-- the objects a third party put at some point of the history -/
def PutsInV (h : List WStep) (a : Obj) : Prop := ∃ x ∈ h, Act.put a ∈ x.before ∨ x.w.Puts a

/-- every stale read of the history serves a version handed out before its reconcile started -/
def WorldOK : Sys → List WStep → Prop
  | _, [] => True
  | sys, x :: rest =>
    StaleOK (applyActs sys.store x.before) x.w.v (pick x.rev.objs x.env.vorder) ∧
    WorldOK (reconcileRevV ⟨applyActs sys.store x.before, sys.refs⟩ x.rev x.env x.w).1 rest

theorem runHistoryV_ginv (l₀ : List Obj) (A : Nat → Prop) (P : Obj → Prop) (h : List WStep) (sys : Sys)
    (hok : WorldOK sys h)
    (hA : ∀ u, ActiveInV h u → A u) (hP : ∀ a, PutsInV h a → P a) (hi : GInv l₀ A P sys.store) :
    GInv l₀ A P (runHistoryV sys h).store := by
  induction h generalizing sys with
  | nil => exact hi
  | cons x rest ih =>
    unfold runHistoryV
    obtain ⟨hok1, hok2⟩ := hok
    have h0 : GInv l₀ A P (⟨applyActs sys.store x.before, sys.refs⟩ : Sys).store :=
      hi.acts x.before fun o ho => hP o ⟨x, List.mem_cons_self, Or.inl ho⟩
    have h1 := h0.reconcileV x.rev x.env x.w hok1
      (fun ha => hA _ ⟨x, List.mem_cons_self, ha, rfl⟩)
      (fun a ha => hP a ⟨x, List.mem_cons_self, Or.inr ha⟩)
    exact ih _ hok2 (fun u ⟨y, hy, hp⟩ => hA u ⟨y, List.mem_cons_of_mem _ hy, hp⟩)
      (fun a ⟨y, hy, hp⟩ => hP a ⟨y, List.mem_cons_of_mem _ hy, hp⟩) h1

/-! ### `status.objectRefs` in the world -/

theorem establishAndRecordV_refs (sys : Sys) (s : Store) (r : Rev) (e : Env) (w : World) :
    ((establishAndRecordV sys s r e w).2 ≠ .ok () → (establishAndRecordV sys s r e w).1.refs = sys.refs) ∧
    ∀ v, v ≠ r.parent.uid → (establishAndRecordV sys s r e w).1.refs v = sys.refs v := by
  unfold establishAndRecordV
  split
  · exact ⟨fun h => absurd rfl h, fun v hv => by simp [setRefs, hv]⟩
  · exact ⟨fun _ => rfl, fun _ _ => rfl⟩
  · exact ⟨fun _ => rfl, fun _ _ => rfl⟩

theorem reconcileRevV_refs (sys : Sys) (r : Rev) (e : Env) (w : World) :
    ((reconcileRevV sys r e w).2 ≠ .ok () → (reconcileRevV sys r e w).1.refs = sys.refs) ∧
    (w.staleRefs.isSome = true → (reconcileRevV sys r e w).2 ≠ .ok () ∧ (reconcileRevV sys r e w).1.refs = sys.refs) ∧
    ∀ v, v ≠ r.parent.uid → (reconcileRevV sys r e w).1.refs v = sys.refs v := by
  unfold reconcileRevV
  split
  · split
    · exact ⟨fun _ => rfl, fun _ => ⟨(fun h => by cases h), rfl⟩, fun _ _ => rfl⟩
    · split
      · exact ⟨fun _ => rfl, fun _ => ⟨(fun h => by cases h), rfl⟩, fun _ _ => rfl⟩
      · exact ⟨fun _ => rfl, fun _ => ⟨(fun h => by cases h), rfl⟩, fun _ _ => rfl⟩
      · exact ⟨fun _ => rfl, fun _ => ⟨(fun h => by cases h), rfl⟩, fun _ _ => rfl⟩
  · rename_i hnone
    have hs : w.staleRefs.isSome = true → False := by rw [hnone]; simp
    split
    · have := establishAndRecordV_refs sys sys.store r e w
      exact ⟨this.1, fun h => (hs h).elim, this.2⟩
    · split
      · rename_i s1 _
        split
        · exact ⟨fun _ => rfl, fun h => (hs h).elim, fun _ _ => rfl⟩
        · have := establishAndRecordV_refs sys s1 r e w
          exact ⟨this.1, fun h => (hs h).elim, this.2⟩
      · exact ⟨fun _ => rfl, fun h => (hs h).elim, fun _ _ => rfl⟩
      · exact ⟨fun _ => rfl, fun h => (hs h).elim, fun _ _ => rfl⟩

theorem pick_nil {α : Type} (order : List Nat) : pick ([] : List α) order = [] := by
  unfold pick
  induction order with
  | nil => rfl
  | cons i is ih => simp

/-- A successful inactive reconcile IN THE WORLD of a revision whose controlled objects are
all listed leaves it controller of nothing (third-party puts aside). -/
theorem reconcileRevV_released (sys sys' : Sys) (r : Rev) (e : Env) (w : World) (hw : WF sys.store)
    (hr : r.active = false) (hl : Listed sys r.parent.uid)
    (hst : StaleOK sys.store w.v (pick r.objs e.vorder))
    (ho : ∀ j, j < (sys.refs r.parent.uid).length → j ∈ e.rorder)
    (h : reconcileRevV sys r e w = (sys', .ok ())) :
    ∀ o' ∈ sys'.store.objs, PutBy w.Puts o' ∨ NotCtrlBy o' r.parent.uid := by
  -- a stale read of the revision never ends in success
  have hfresh : w.staleRefs = none := by
    cases hs : w.staleRefs with
    | none => rfl
    | some l =>
      have := ((reconcileRevV_refs sys r e w).2.1 (by simp [hs])).1
      rw [h] at this
      exact absurd rfl this
  obtain ⟨p, active, objs⟩ := r
  simp only at hr hl ho hst
  subst hr
  unfold reconcileRevV at h
  simp only [Bool.false_eq_true, if_false, hfresh] at h
  split at h
  · rename_i s1 heq
    split at h
    · -- the list is not empty: ReleaseObjects succeeded over all of it
      simp only [Prod.mk.injEq, and_true] at h
      subst h
      have hinv := releaseV_inv e.rejects e.fault w.r p e.ran sys.store (sys.refs p.uid) e.rorder hw
      rw [heq] at hinv
      intro o' ho'
      obtain ⟨b, hb, hrw⟩ := hinv.objs o' ho'
      rcases hrw with e1 | q
      · subst e1
        rcases hb with hb | hb
        · by_cases hc : ctrl o'.owners p.uid
          · obtain ⟨k, hkm, hkk⟩ := hl o' hb hc
            obtain ⟨j, hj, hjk⟩ := List.getElem_of_mem hkm
            have hget : (sys.refs p.uid)[j]? = some k := by rw [List.getElem?_eq_getElem hj, hjk]
            rcases releaseV_ok e.rejects e.fault w.r p e.ran sys.store s1 (sys.refs p.uid) e.rorder hw heq j k hget
              (ho j hj) o' ho' hkk.symm with h1 | h1
            · exact Or.inl (h1.mono fun a ha => Or.inr (Or.inr ha))
            · exact Or.inr h1.2
          · exact Or.inr (notCtrlBy_of_not_ctrl o' p.uid hc)
        · exact Or.inl (hb.mono fun a ha => Or.inr (Or.inr ha))
      · exact Or.inr q.released
    · -- the list is empty: ReleaseObjects does nothing at all, the revision controls nothing,
      -- and Establish(control=false) adds no controller
      rename_i hlen
      have hnil : sys.refs p.uid = [] := by
        cases hrefs : sys.refs p.uid with
        | nil => rfl
        | cons a l => rw [hrefs] at hlen; simp at hlen
      have hs1 : s1 = sys.store := by
        have := heq
        unfold releaseV at this
        rw [hnil, pick_nil] at this
        simp only [releaseAllV, Prod.mk.injEq, and_true] at this
        exact this.symm
      subst hs1
      have hnone : ∀ o ∈ sys.store.objs, ¬ ctrl o.owners p.uid := by
        intro o hom hc
        obtain ⟨k, hkm, _⟩ := hl o hom hc
        rw [hnil] at hkm
        cases hkm
      have hstore := establishAndRecordV_store sys sys.store ⟨p, false, objs⟩ e w
      rw [h] at hstore
      simp only at hstore
      intro o' ho'
      rw [hstore] at ho'
      have hq : ∀ o, ¬ ctrl o.owners p.uid → QE p false o o' → NotCtrlBy o' p.uid := by
        intro o hno q
        exact q.released rfl
      cases (establishV_inv e.rejects e.fault w.v w.e p false sys.store objs e.vorder e.eorder hw hst).objs o' ho' with
      | same hs => exact Or.inr (notCtrlBy_of_not_ctrl o' p.uid (hnone o' hs))
      | rewritten o hom hk q => exact Or.inr (q.released rfl)
      | created c => exact absurd c.active (by simp)
      | third t => exact Or.inl (t.mono fun a ha => ha.elim Or.inl fun h => Or.inr (Or.inl h))
      | rethird o hom hk q => exact Or.inr (q.released rfl)
  · simp at h
  · simp at h

/-! ### the desired state as a string -/

theorem GInv.reconcileS {l₀ : List Obj} {A : Nat → Prop} {P : Obj → Prop} {sys : Sys} (hi : GInv l₀ A P sys.store)
    (p : Parent) (objs : List Desired) (ds : String) (e : Env) (w : World)
    (hst : StaleOK sys.store w.v (pick objs e.vorder))
    (hA : ds = activeState → A p.uid) (hP : ∀ a, w.Puts a → P a) :
    GInv l₀ A P (reconcileState sys p objs ds e w).1.store := by
  unfold reconcileState
  by_cases h1 : ds = inactiveState
  · rw [if_pos h1]
    exact hi.reconcileV ⟨p, false, objs⟩ e w hst (fun h => by cases h) hP
  · rw [if_neg h1]
    by_cases h2 : ds = activeState
    · rw [if_pos h2]
      exact hi.reconcileV ⟨p, true, objs⟩ e w hst (fun _ => hA h2) hP
    · rw [if_neg h2]
      split
      · exact hi
      · rw [establishAndRecordV_store]
        exact hi.establishV _ _ _ _ _ _ _ _ _ hst (fun h => by cases h)
          (fun a h => hP a (h.elim Or.inl fun h => Or.inr (Or.inl h)))

theorem releaseV_log (rejects : Obj → Bool) (fault : Fault) (ri : RInterf) (p : Parent) (ran : Nat → Bool)
    (s : Store) (refs : List Ref) (order : List Nat) :
    LogExt false s.log (releaseV rejects fault ri p ran s refs order).1.log :=
  releaseAllV_log rejects fault ri p ran s (pick refs order)

/-- a revision reconciled as NOT active issues updates only, whatever path the reconciler takes -/
theorem reconcileRevV_log_inactive (sys : Sys) (r : Rev) (e : Env) (w : World) (hw : WF sys.store)
    (hr : r.active = false) : LogExt false sys.store.log (reconcileRevV sys r e w).1.store.log := by
  obtain ⟨p, active, objs⟩ := r
  simp only at hr
  subst hr
  unfold reconcileRevV
  simp only [Bool.false_eq_true, if_false]
  split
  · rename_i listed _
    have h1 := releaseV_log e.rejects e.fault w.r p e.ran sys.store listed e.rorder
    split <;> rename_i s1 heq <;> (try rename_i x) <;> (rw [heq] at h1; exact h1)
  · have h1 := releaseV_log e.rejects e.fault w.r p e.ran sys.store (sys.refs p.uid) e.rorder
    have hw1 := (releaseV_inv e.rejects e.fault w.r p e.ran sys.store (sys.refs p.uid) e.rorder hw).wf
    split <;> rename_i s1 heq <;> (try rename_i x) <;> (rw [heq] at h1 hw1; simp only at h1 hw1)
    · split
      · exact h1
      · rw [establishAndRecordV_store]
        exact h1.trans (establishV_log e.rejects e.fault w.v w.e p false s1 objs e.vorder e.eorder hw1)
    · exact h1
    · exact h1

theorem reconcileState_log (sys : Sys) (p : Parent) (objs : List Desired) (ds : String) (e : Env) (w : World)
    (hw : WF sys.store) (hds : ds ≠ activeState) :
    LogExt false sys.store.log (reconcileState sys p objs ds e w).1.store.log := by
  unfold reconcileState
  by_cases hi : ds = inactiveState
  · rw [if_pos hi]
    exact reconcileRevV_log_inactive sys ⟨p, false, objs⟩ e w hw rfl
  · rw [if_neg hi, if_neg hds]
    split
    · exact LogExt.refl _ _
    · rw [establishAndRecordV_store]
      exact establishV_log e.rejects e.fault w.v w.e p false sys.store objs e.vorder e.eorder hw

/-- the revisions that some step of the history reconciles with desired state exactly `Active` -/
def ActiveInS (h : List SStep) (u : Nat) : Prop := ∃ x ∈ h, x.state = activeState ∧ x.parent.uid = u

def PutsInS (h : List SStep) (a : Obj) : Prop := ∃ x ∈ h, Act.put a ∈ x.before ∨ x.w.Puts a

def WorldOKS : Sys → List SStep → Prop
  | _, [] => True
  | sys, x :: rest =>
    StaleOK (applyActs sys.store x.before) x.w.v (pick x.objs x.env.vorder) ∧
    WorldOKS (reconcileState ⟨applyActs sys.store x.before, sys.refs⟩ x.parent x.objs x.state x.env x.w).1 rest

theorem runHistoryS_ginv (l₀ : List Obj) (A : Nat → Prop) (P : Obj → Prop) (h : List SStep) (sys : Sys)
    (hok : WorldOKS sys h)
    (hA : ∀ u, ActiveInS h u → A u) (hP : ∀ a, PutsInS h a → P a) (hi : GInv l₀ A P sys.store) :
    GInv l₀ A P (runHistoryS sys h).store := by
  induction h generalizing sys with
  | nil => exact hi
  | cons x rest ih =>
    unfold runHistoryS
    obtain ⟨hok1, hok2⟩ := hok
    have h0 : GInv l₀ A P (⟨applyActs sys.store x.before, sys.refs⟩ : Sys).store :=
      hi.acts x.before fun o ho => hP o ⟨x, List.mem_cons_self, Or.inl ho⟩
    have h1 := h0.reconcileS x.parent x.objs x.state x.env x.w hok1
      (fun ha => hA _ ⟨x, List.mem_cons_self, ha, rfl⟩)
      (fun a ha => hP a ⟨x, List.mem_cons_self, Or.inr ha⟩)
    exact ih _ hok2 (fun u ⟨y, hy, hp⟩ => hA u ⟨y, List.mem_cons_of_mem _ hy, hp⟩)
      (fun a ⟨y, hy, hp⟩ => hP a ⟨y, List.mem_cons_of_mem _ hy, hp⟩) h1

end Xp.C16

import Xp.Proofs.C18Rec
/-
C18 helper lemmas, part 4: the reconcilers in a `World` (other writers acting between any two
API calls, an informer cache that may lag or miss on every read, injected error classes).

`OwnOnly Q h p`: whatever the world does, every own applied call `r` of `p` satisfies
`Q h' r`, where `h'` is the history of the program's own applied calls so far, each with the
store it was answered from (the served view for a read, the API server for a write).  This is
how "the write is justified by what the reads of THIS reconcile were served" is stated.
-/
namespace Xp.C18
open Xp.Gen

abbrev Hist := List (Store × Req)

/-! ## the plain world is `run` -/

theorem errResp_isErr (o : Outcome) (r : Req) : ∃ e : ErrRep, errResp o r = e.toResp := by
  cases o <;> first
    | exact ⟨.other, rfl⟩
    | (by_cases h : r.isWrite = true
       · exact ⟨.conflict, by simp [errResp, h, ErrRep.toResp]⟩
       · exact ⟨.other, by simp [errResp, h, ErrRep.toResp]⟩)

/-- without a lagging cache and without injected classes `runW` is `runE` -/
theorem runW_noCache (plan : Plan) (env : Env Store) (k : Nat) (p : P) (s : Store) :
    runW ⟨plan, env, fun _ s => s, fun _ => none⟩ k p s = runE sem env plan k p s := by
  induction p generalizing k s with
  | ret a => rfl
  | call r c ih =>
    cases hk : plan k <;> simp only [runW, runE, hk]
    · by_cases hw : r.isWrite = true
      · simp only [hw, if_true]; exact ih _ _ _
      · have hr : r.isWrite = false := by simpa using hw
        simp only [hr, Bool.false_eq_true, if_false]
        rw [ih]
        show runE sem env plan (k+1) (c (exec (env k s) r).2) (env k s) =
          runE sem env plan (k+1) (c (exec (env k s) r).2) (exec (env k s) r).1
        rw [exec_read _ r hr]
    · exact ih _ _ _
    · exact ih _ _ _
    · rfl

/-- ... and in the plain world (no other writer either) it is `run` -/
theorem runW_plain (plan : Plan) (k : Nat) (p : P) (s : Store) :
    runW (World.plain plan) k p s = run sem plan k p s := by
  unfold World.plain
  rw [runW_noCache, runE_none]

theorem ownW_plain (plan : Plan) (k : Nat) (p : P) (s : Store) :
    (ownW (World.plain plan) k p s).map (·.2) = applied sem plan k p s := by
  induction p generalizing k s with
  | ret a => rfl
  | call r c ih =>
    cases hk : plan k <;> simp only [ownW, applied, World.plain, hk, Env.none, World.at]
    · by_cases hw : r.isWrite = true
      · simp only [hw, if_true, List.map_cons]
        congr 1
        exact ih _ _ _
      · have hr : r.isWrite = false := by simpa using hw
        simp only [hr, Bool.false_eq_true, if_false, List.map_cons]
        congr 1
        have := ih (exec s r).2 (k+1) s
        rw [show (sem.exec s r).1 = s from exec_read s r hr]
        exact this
    · exact ih _ _ _
    · exact ih _ _ _
    · rfl
    · by_cases hw : r.isWrite = true <;> simp [hw]

/-! ## `OwnOnly` -/

def OwnOnly (Q : Hist → Req → Prop) : Hist → P → Prop
  | _, .ret _ => True
  | h, .call r c =>
      (∀ s, Q h r ∧ OwnOnly Q (h ++ [(s, r)]) (c (exec s r).2)) ∧
      (∀ e : ErrRep, OwnOnly Q h (c e.toResp))

theorem ownOnly_ret (Q : Hist → Req → Prop) (h : Hist) (a : Result) : OwnOnly Q h (.ret a) := trivial

/-- soundness: in every world, every own applied call satisfies `Q` of the own calls before it -/
theorem ownW_ownOnly (Q : Hist → Req → Prop) (w : World) (k : Nat) (p : P) (s : Store) (h : Hist)
    (hp : OwnOnly Q h p) :
    ∀ pre x post, ownW w k p s = pre ++ x :: post → Q (h ++ pre) x.2 := by
  induction p generalizing k s h with
  | ret a => intro pre x post e; simp [ownW] at e
  | call r c ih =>
    obtain ⟨hok, herr⟩ := hp
    intro pre x post e
    unfold ownW at e
    split at e
    · simp at e
    · -- crashAfter
      cases pre with
      | nil =>
        simp only [List.nil_append, List.cons.injEq] at e
        obtain ⟨rfl, _⟩ := e
        simpa using (hok (w.at k r s)).1
      | cons y pre' => simp at e
    · obtain ⟨e', he'⟩ := errResp_isErr .fail r
      rw [he'] at e
      exact ih _ _ _ _ (herr e') pre x post e
    · obtain ⟨e', he'⟩ := errResp_isErr .conflict r
      rw [he'] at e
      exact ih _ _ _ _ (herr e') pre x post e
    · split at e
      · exact ih _ _ _ _ (herr _) pre x post e
      · split at e
        · cases pre with
          | nil =>
            simp only [List.nil_append, List.cons.injEq] at e
            obtain ⟨rfl, _⟩ := e
            simpa using (hok (w.env k s)).1
          | cons y pre' =>
            simp only [List.cons_append, List.cons.injEq] at e
            obtain ⟨rfl, e⟩ := e
            have := ih _ (k+1) _ _ (hok (w.env k s)).2 pre' x post e
            simpa [List.append_assoc] using this
        · cases pre with
          | nil =>
            simp only [List.nil_append, List.cons.injEq] at e
            obtain ⟨rfl, _⟩ := e
            simpa using (hok (w.view k (w.env k s))).1
          | cons y pre' =>
            simp only [List.cons_append, List.cons.injEq] at e
            obtain ⟨rfl, e⟩ := e
            have := ih _ (k+1) _ _ (hok (w.view k (w.env k s))).2 pre' x post e
            simpa [List.append_assoc] using this

/-! ## role writes: justified, and updates carry the version that was checked -/

/-- what a role write must satisfy given the own calls so far: the role is justified (`J`), and
an Update carries the resourceVersion of a version of that role that an earlier own read was
served, that version was controllable by the role's controller and differed from the
desired role (compare-and-swap: a retry that re-reads must re-decide). No binding is written. -/
def RoleQ (J : Hist → Role → Prop) (h : Hist) : Req → Prop
  | .createRole x => J h x
  | .updateRole x rv => J h x ∧
      ∃ s' cur uid, (s', Req.getRole x.name) ∈ h ∧ s'.roles.find? (·.name = x.name) = some cur ∧
        rvOf s'.roleRV x.name = rv ∧ x.ctrl = some uid ∧ notControllable uid cur.ctrl = false ∧
        rolesDiffer cur x = true
  | .createBinding _ => False
  | .updateBinding _ _ => False
  | _ => True

/-- `J` only ever becomes easier as the history grows -/
def Mono (J : Hist → Role → Prop) : Prop := ∀ h h' x, (∀ e ∈ h, e ∈ h') → J h x → J h' x

theorem find_name {α : Type} (name : α → String) (l : List α) (n : String) (x : α)
    (h : l.find? (fun y => name y = n) = some x) : name x = n := by
  have := List.find?_some h
  simpa using this

theorem applyRoles_ownOnly (J : Hist → Role → Prop) (hJ : Mono J) (uid : String) (roles : List Role)
    (h : Hist) (hr : ∀ x ∈ roles, J h x ∧ x.ctrl = some uid) :
    OwnOnly (RoleQ J) h (applyRoles uid roles) := by
  induction roles generalizing h with
  | nil => exact trivial
  | cons cr rest ih =>
    have hcr := hr cr (List.mem_cons_self ..)
    have hrest : ∀ h', (∀ e ∈ h, e ∈ h') → OwnOnly (RoleQ J) h' (applyRoles uid rest) := by
      intro h' hsub
      apply ih
      intro x hx
      exact ⟨hJ h h' x hsub (hr x (List.mem_cons_of_mem _ hx)).1, (hr x (List.mem_cons_of_mem _ hx)).2⟩
    unfold applyRoles
    refine ⟨?_, ?_⟩
    · intro s
      refine ⟨trivial, ?_⟩
      simp only [exec]
      cases hf : s.roles.find? (·.name = cr.name) with
      | none =>
        simp only []
        refine ⟨?_, ?_⟩
        · intro s'
          refine ⟨hJ _ _ _ (fun e he => List.mem_append_left _ he) hcr.1, ?_⟩
          cases (exec s' (Req.createRole cr)).2 <;> first
            | exact trivial
            | exact hrest _ (fun e he => List.mem_append_left _ (List.mem_append_left _ he))
        · intro e; cases e <;> exact trivial
      | some cur =>
        simp only []
        split
        · exact trivial
        · rename_i hnc
          split
          · exact hrest _ (fun e he => List.mem_append_left _ he)
          · rename_i hd
            refine ⟨?_, ?_⟩
            · intro s'
              refine ⟨⟨hJ _ _ _ (fun e he => List.mem_append_left _ he) hcr.1, s, cur, uid,
                List.mem_append_right _ (List.mem_singleton.2 rfl), hf, rfl, hcr.2, by simpa using hnc, by simpa using hd⟩, ?_⟩
              cases (exec s' (Req.updateRole cr (rvOf s.roleRV cr.name))).2 <;> first
                | exact trivial
                | exact hrest _ (fun e he => List.mem_append_left _ (List.mem_append_left _ he))
            · intro e; cases e <;> exact trivial
    · intro e
      cases e with
      | notFound =>
        simp only [ErrRep.toResp]
        refine ⟨?_, ?_⟩
        · intro s'
          refine ⟨hcr.1, ?_⟩
          cases (exec s' (Req.createRole cr)).2 <;> first
            | exact trivial
            | exact hrest _ (fun e he => List.mem_append_left _ he)
        · intro e; cases e <;> exact trivial
      | _ => exact trivial

/-! ## the provider-revision reconciler -/

/-- the resources Reconcile hands to the renderer, from the revision and the family list it was served -/
def resourcesOf (p : PR) (ms : List PR) : List Resource :=
  if p.family = "" then definedResources p.refs else definedResources p.refs ++ memberResources p ms

/-- role `x` is justified by the own reads in `h`: a `getPR name` was served the live revision
`p`; `x` is rendered for `p` from its own references and (family label set) the members a
`listPRs` was served; and (allow-list configured) a `getRole` of the allow-list role was served
a version under which NO request of `p` is rejected (without allow-list: `p` requests nothing). -/
def JustifiedBy (cfg : Cfg) (name : String) (h : Hist) (p : PR) (x : Role) : Prop :=
  (∃ s1, (s1, Req.getPR name) ∈ h ∧ s1.prs.find? (·.name = name) = some p) ∧
  p.paused = false ∧ p.deleted = false ∧
  (∃ ms, (p.family = "" ∨ ∃ s2, (s2, Req.listPRs p.family) ∈ h ∧ ms = s2.prs.filter (·.family = p.family)) ∧
    x ∈ renderRoles p (resourcesOf p ms)) ∧
  (match cfg.allowRole with
   | none => expand p.requests = []
   | some a => ∃ s3 ar, (s3, Req.getRole a) ∈ h ∧ s3.roles.find? (·.name = a) = some ar ∧
       validate ar.rules p.requests = [])

def Justified (cfg : Cfg) (name : String) (h : Hist) (x : Role) : Prop := ∃ p, JustifiedBy cfg name h p x

theorem justified_mono (cfg : Cfg) (name : String) : Mono (Justified cfg name) := by
  intro h h' x hsub ⟨p, ⟨s1, h1, hf⟩, hpa, hde, ⟨ms, hms, hx⟩, hv⟩
  refine ⟨p, ⟨s1, hsub _ h1, hf⟩, hpa, hde, ⟨ms, ?_, hx⟩, ?_⟩
  · rcases hms with h0 | ⟨s2, h2, e⟩
    · exact Or.inl h0
    · exact Or.inr ⟨s2, hsub _ h2, e⟩
  · cases ha : cfg.allowRole with
    | none => simpa [ha] using hv
    | some a =>
      simp only [ha] at hv ⊢
      obtain ⟨s3, ar, h3, hfa, hval⟩ := hv
      exact ⟨s3, ar, hsub _ h3, hfa, hval⟩

theorem renderRoles_ctrl (p : PR) (rs : List Resource) (x : Role) (hx : x ∈ renderRoles p rs) :
    x.ctrl = some p.uid := by
  unfold renderRoles at hx
  split at hx
  · simp at hx
  · simp only [List.mem_cons, List.not_mem_nil, or_false] at hx
    rcases hx with rfl | rfl | rfl <;> rfl

theorem reconcile_ownOnly (cfg : Cfg) (name : String) :
    OwnOnly (RoleQ (Justified cfg name)) [] (reconcile cfg name) := by
  unfold reconcile
  refine ⟨?_, fun e => by cases e <;> exact trivial⟩
  intro s1
  refine ⟨trivial, ?_⟩
  simp only [exec, List.nil_append]
  cases hf : s1.prs.find? (·.name = name) with
  | none => exact trivial
  | some p =>
    simp only []
    by_cases hpa : p.paused = true
    · simp [hpa, OwnOnly]
    by_cases hde : p.deleted = true
    · simp [hpa, hde, OwnOnly]
    simp only [hpa, hde, if_false, Bool.false_eq_true]
    have hpa' : p.paused = false := by simpa using hpa
    have hde' : p.deleted = false := by simpa using hde
    -- after the family step: history `h`, member list `ms`
    have key : ∀ (h : Hist) (ms : List PR), (s1, Req.getPR name) ∈ h →
        (p.family = "" ∨ ∃ s2, (s2, Req.listPRs p.family) ∈ h ∧ ms = s2.prs.filter (·.family = p.family)) →
        OwnOnly (RoleQ (Justified cfg name)) h
          (withValidation cfg p fun rejected =>
            if (!rejected.isEmpty) = true then .ret .ok else applyRoles p.uid (renderRoles p (resourcesOf p ms))) := by
      intro h ms h1 hms
      have fin : ∀ (h' : Hist) (rej : List Rule), (∀ e ∈ h, e ∈ h') →
          (match cfg.allowRole with
           | none => expand p.requests = rej
           | some a => ∃ s3 ar, (s3, Req.getRole a) ∈ h' ∧ s3.roles.find? (·.name = a) = some ar ∧
               validate ar.rules p.requests = rej) →
          OwnOnly (RoleQ (Justified cfg name)) h'
            (if (!rej.isEmpty) = true then .ret .ok else applyRoles p.uid (renderRoles p (resourcesOf p ms))) := by
        intro h' rej hsub hrej
        by_cases he : rej.isEmpty = true
        · simp only [he, Bool.not_true, Bool.false_eq_true, if_false]
          have hnil : rej = [] := by simpa using he
          subst hnil
          apply applyRoles_ownOnly _ (justified_mono cfg name)
          intro x hx
          refine ⟨⟨p, ⟨s1, hsub _ h1, hf⟩, hpa', hde', ⟨ms, ?_, hx⟩, hrej⟩, renderRoles_ctrl p _ x hx⟩
          rcases hms with h0 | ⟨s2, h2, e⟩
          · exact Or.inl h0
          · exact Or.inr ⟨s2, hsub _ h2, e⟩
        · simp [he, OwnOnly]
      unfold withValidation
      cases ha : cfg.allowRole with
      | none =>
        simp only []
        exact fin h _ (fun e he => he) (by simp [ha])
      | some a =>
        simp only []
        refine ⟨?_, fun e => by cases e <;> exact trivial⟩
        intro s3
        refine ⟨trivial, ?_⟩
        simp only [exec]
        cases hr : s3.roles.find? (·.name = a) with
        | none => exact trivial
        | some ar =>
          simp only []
          exact fin _ _ (fun e he => List.mem_append_left _ he)
            (by simp only [ha]; exact ⟨s3, ar, List.mem_append_right _ (List.mem_singleton.2 rfl), hr, rfl⟩)
    unfold withFamily
    by_cases hfam : p.family = ""
    · simp only [hfam, if_true]
      have := key [(s1, Req.getPR name)] [] (List.mem_singleton.2 rfl) (Or.inl hfam)
      simpa [resourcesOf, hfam] using this
    · simp only [hfam, if_false]
      refine ⟨?_, fun e => by cases e <;> exact trivial⟩
      intro s2
      refine ⟨trivial, ?_⟩
      simp only [exec]
      have := key ([(s1, Req.getPR name)] ++ [(s2, Req.listPRs p.family)]) (s2.prs.filter (·.family = p.family))
        (List.mem_append_left _ (List.mem_singleton.2 rfl))
        (Or.inr ⟨s2, List.mem_append_right _ (List.mem_singleton.2 rfl), rfl⟩)
      simpa [resourcesOf, hfam] using this

/-- where the resources come from, in terms of the revision and the list it was served -/
theorem resourcesOf_origin (p : PR) (ms : List PR) (x : Resource) (hx : x ∈ resourcesOf p ms) :
    x ∈ definedResources p.refs ∨
    (p.family ≠ "" ∧ ∃ m ∈ ms, m.uid ≠ p.uid ∧ (∃ o, p.org = some o ∧ m.org = some o) ∧
      x ∈ definedResources m.refs) := by
  unfold resourcesOf at hx
  split at hx
  · exact Or.inl hx
  · rename_i hfam
    rcases List.mem_append.mp hx with h | h
    · exact Or.inl h
    · right
      refine ⟨hfam, ?_⟩
      simp only [memberResources, List.mem_flatMap] at h
      obtain ⟨m, hm, hxm⟩ := h
      by_cases hu : m.uid = p.uid
      · simp [hu] at hxm
      · simp only [hu, if_false] at hxm
        by_cases ho : orgDiffers p.org m.org = true
        · simp [ho] at hxm
        · simp only [ho, if_false, Bool.false_eq_true] at hxm
          refine ⟨m, hm, hu, ?_, hxm⟩
          unfold orgDiffers at ho
          cases hpo : p.org with
          | none => simp [hpo] at ho
          | some a =>
            cases hmo : m.org with
            | none => simp [hpo, hmo] at ho
            | some b =>
              simp only [hpo, hmo, bne_iff_ne, ne_eq, Decidable.not_not] at ho
              exact ⟨a, rfl, by rw [ho]⟩

/-! ## the XRD reconciler -/

def JustifiedXRD (name : String) (h : Hist) (x : Role) : Prop :=
  ∃ s1 d, (s1, Req.getXRD name) ∈ h ∧ s1.xrds.find? (·.name = name) = some d ∧ d.deleted = false ∧
    x ∈ renderXRDRoles d

theorem justifiedXRD_mono (name : String) : Mono (JustifiedXRD name) := by
  intro h h' x hsub ⟨s1, d, h1, hf, hd, hx⟩
  exact ⟨s1, d, hsub _ h1, hf, hd, hx⟩

theorem renderXRDRoles_ctrl (d : XRD) (x : Role) (hx : x ∈ renderXRDRoles d) : x.ctrl = some d.uid := by
  unfold renderXRDRoles at hx
  simp only [List.mem_cons, List.not_mem_nil, or_false] at hx
  rcases hx with rfl | rfl | rfl | rfl <;> rfl

theorem reconcileXRD_ownOnly (name : String) :
    OwnOnly (RoleQ (JustifiedXRD name)) [] (reconcileXRD name) := by
  unfold reconcileXRD
  refine ⟨?_, fun e => by cases e <;> exact trivial⟩
  intro s1
  refine ⟨trivial, ?_⟩
  simp only [exec, List.nil_append]
  cases hf : s1.xrds.find? (·.name = name) with
  | none => exact trivial
  | some d =>
    simp only []
    by_cases hde : d.deleted = true
    · simp [hde, OwnOnly]
    · simp only [hde, if_false, Bool.false_eq_true]
      apply applyRoles_ownOnly _ (justifiedXRD_mono name)
      intro x hx
      exact ⟨⟨s1, d, List.mem_singleton.2 rfl, hf, by simpa using hde, hx⟩, renderXRDRoles_ctrl d x hx⟩

/-! ## the binding reconciler -/

/-- what a binding write must satisfy: it is THE binding of the live revision a `getPR` was
served, its subjects computed from the deployments a `listDeployments` was served; an Update
carries the resourceVersion of a served version that was controllable by the revision. -/
def BindingQ (name : String) (h : Hist) : Req → Prop
  | .createBinding b => ∃ s1 p s2, (s1, Req.getPR name) ∈ h ∧ s1.prs.find? (·.name = name) = some p ∧
      p.paused = false ∧ p.deleted = false ∧ (s2, Req.listDeployments) ∈ h ∧
      b = ⟨systemRoleName p.name, systemRoleName p.name, subjectsFor p.uid s2.deploys, some p.uid⟩
  | .updateBinding b rv => ∃ s1 p s2, (s1, Req.getPR name) ∈ h ∧ s1.prs.find? (·.name = name) = some p ∧
      p.paused = false ∧ p.deleted = false ∧ (s2, Req.listDeployments) ∈ h ∧
      b = ⟨systemRoleName p.name, systemRoleName p.name, subjectsFor p.uid s2.deploys, some p.uid⟩ ∧
      ∃ s' cur, (s', Req.getBinding b.name) ∈ h ∧ s'.bindings.find? (·.name = b.name) = some cur ∧
        rvOf s'.bindingRV b.name = rv ∧ notControllable p.uid cur.ctrl = false
  | .createRole _ => False
  | .updateRole _ _ => False
  | _ => True

theorem reconcileBinding_ownOnly (name : String) :
    OwnOnly (BindingQ name) [] (reconcileBinding name) := by
  unfold reconcileBinding
  refine ⟨?_, fun e => by cases e <;> exact trivial⟩
  intro s1
  refine ⟨trivial, ?_⟩
  simp only [exec, List.nil_append]
  cases hf : s1.prs.find? (·.name = name) with
  | none => exact trivial
  | some p =>
    simp only []
    by_cases hpa : p.paused = true
    · simp [hpa, OwnOnly]
    by_cases hde : p.deleted = true
    · simp [hpa, hde, OwnOnly]
    simp only [hpa, hde, if_false, Bool.false_eq_true]
    have hpa' : p.paused = false := by simpa using hpa
    have hde' : p.deleted = false := by simpa using hde
    refine ⟨?_, fun e => by cases e <;> exact trivial⟩
    intro s2
    refine ⟨trivial, ?_⟩
    simp only [exec]
    -- the Apply of the binding
    have crt : ∀ (h : Hist), (s1, Req.getPR name) ∈ h → (s2, Req.listDeployments) ∈ h →
        OwnOnly (BindingQ name) h
          (.call (.createBinding ⟨systemRoleName p.name, systemRoleName p.name, subjectsFor p.uid s2.deploys, some p.uid⟩) fun
            | .done => .ret .ok
            | .conflict => .ret .requeue
            | _ => .ret .err) := by
      intro h h1 h2
      refine ⟨?_, fun e => by cases e <;> exact trivial⟩
      intro s'
      refine ⟨⟨s1, p, s2, h1, hf, hpa', hde', h2, rfl⟩, ?_⟩
      cases (exec s' (Req.createBinding _)).2 <;> exact trivial
    refine ⟨?_, ?_⟩
    · intro s3
      refine ⟨trivial, ?_⟩
      simp only [exec]
      cases hb : s3.bindings.find? (·.name = systemRoleName p.name) with
      | none =>
        simp only []
        exact crt _ (by simp) (by simp)
      | some cur =>
        simp only []
        split
        · exact trivial
        · rename_i hnc
          split
          · exact trivial
          · refine ⟨?_, fun e => by cases e <;> exact trivial⟩
            intro s'
            refine ⟨⟨s1, p, s2, by simp, hf, hpa', hde', by simp, rfl, s3, cur, by simp, hb, rfl, by simpa using hnc⟩, ?_⟩
            cases (exec s' (Req.updateBinding _ _)).2 <;> exact trivial
    · intro e
      cases e with
      | notFound => exact crt _ (by simp) (by simp)
      | _ => exact trivial

end Xp.C18

import Xp.Proofs.C01Probe
/-
C01: a P&T reconcile whose first read of the XR was served by a lagging informer cache
(`reconcileStaleT`, Xp/Model/C01.lean). What protects the references is the resourceVersion the
refs `Update` (and the finalizer `Update`) carry: decided from an outdated XR, the reconcile may
still garbage collect what the outdated references point to, but its first write to the XR is
rejected with a Conflict, so it writes no reference and creates nothing. No hypothesis on the
templates, the generated names or the cache misses is needed.
-/
namespace Xp.C01

/-- what a reconcile that decided from an outdated XR may do to the store it started from: objects
removed or marked terminating (never a foreign one), the XR untouched -/
structure StaleInv (s0 s : St) : Prop where
  sh : Shrunk s0 s
  rv : s.xrRv = s0.xrRv
  fin : s.xrFin = s0.xrFin

theorem StaleInv.rfl' {s : St} (hg : Good s) : StaleInv s s := ⟨Shrunk.rfl' hg, rfl, rfl⟩

/-! ### epilogues and guarded writes, for an arbitrary invariant -/

theorem gsafe_onErrorO {Inv : St → Prop} {s : St} (h : Inv s) (l : Option Nat) : Safe sem Inv (onErrorO l) s := by
  unfold onErrorO
  simp only [Safe, sem, exec_statusUpdate_state]
  refine ⟨h, ?_, ?_, ?_⟩ <;> first | trivial | (split <;> simp [Safe])

theorem gsafe_onError {Inv : St → Prop} {s : St} (h : Inv s) (l : Nat) : Safe sem Inv (onError l) s := gsafe_onErrorO h _

theorem gsafe_onConflict {Inv : St → Prop} (s : St) : Safe sem Inv onConflict s := by simp [onConflict, Safe]

theorem gsafe_wcall {Inv : St → Prop} {s : St} (hg : Inv s) (lrv : Nat) (r : Req) (k : Resp → P)
    (h1 : Inv (exec s r).1)
    (hk : (exec s r).2 ≠ .err → (exec s r).2 ≠ .conflict → Safe sem Inv (k (exec s r).2) (exec s r).1) :
    Safe sem Inv (wcall lrv r k) s := by
  unfold wcall
  simp only [Safe, sem]
  refine ⟨h1, ?_, gsafe_onError hg _, ?_⟩
  · cases hr : (exec s r).2 with
    | err => exact gsafe_onError h1 _
    | conflict => exact gsafe_onConflict _
    | _ => simp only []; exact hr ▸ hk (by rw [hr]; simp) (by rw [hr]; simp)
  · by_cases hr : isRead r = true
    · simp only [hr, if_true]; exact gsafe_onError hg _
    · simp only [hr]; exact gsafe_onConflict _

/-! ### phases that only read -/

theorem gsafe_probeName {Inv : St → Prop} {s : St} (h : Inv s) (kind : String) (k : Probed → List String → P)
    (hk : ∀ p rest, Safe sem Inv (k p rest) s) :
    ∀ (tries : Nat) (fresh : List String), Safe sem Inv (probeName kind tries fresh k) s := by
  intro tries
  induction tries with
  | zero => intro fresh; simp only [probeName]; exact hk _ _
  | succ t ih =>
    intro fresh
    cases fresh with
    | nil => simp only [probeName]; exact hk _ _
    | cons n rest =>
      simp only [probeName]
      have hx : sem.exec s (.getCached kind n) = exec s (.getCached kind n) := rfl
      have hf : sem.errResp .fail (.getCached kind n) = .err := rfl
      have hc : sem.errResp .conflict (.getCached kind n) = .err := rfl
      simp only [Safe, hx, hf, hc]
      rcases exec_getCached_resp s kind n with e | ⟨o, _, e⟩
      · rw [e]; exact ⟨h, hk _ _, hk _ _, hk _ _⟩
      · rw [e]; exact ⟨h, ih rest, hk _ _, hk _ _⟩

theorem gsafe_renderPTT {Inv : St → Prop} {s : St} (h : Inv s) (tries lrv : Nat) (a : Assoc) (k : List Rendered → P)
    (hk : ∀ rs, Safe sem Inv (k rs) s) :
    ∀ (ds : List Desired) (fresh : List String) (acc : List Rendered),
      Safe sem Inv (renderPTT tries lrv a ds fresh acc k) s := by
  intro ds
  induction ds with
  | nil => intro fresh acc; simp only [renderPTT]; exact hk _
  | cons d ds ih =>
    intro fresh acc
    simp only [renderPTT]
    cases assocLookup a d.rname with
    | some r =>
      simp only []
      split
      · exact ih _ _
      · exact gsafe_onError h _
    | none =>
      simp only []
      apply gsafe_probeName h
      intro p rest
      cases p <;> exact ih _ _

/-! ### template association from arbitrary (outdated) references -/

theorem exec_delete_xr (s : St) (k n : String) :
    (exec s (.delete k n)).1.xrRv = s.xrRv ∧ (exec s (.delete k n)).1.xrFin = s.xrFin := by
  simp only [exec]
  split
  · split <;> exact ⟨rfl, rfl⟩
  · exact ⟨rfl, rfl⟩

/-- AssociateTemplates over ANY list of references (the outdated ones): it reads, and garbage
collects only objects it has just read and found not to be controlled by someone else -/
theorem gsafe_associatePT {s0 : St} (hg0 : Good s0) (lrv : Nat) (tmpl : List Desired) (k : Assoc → P) :
    ∀ (rs : List Ref) (acc : Assoc) (s : St), StaleInv s0 s →
      (∀ a s', StaleInv s0 s' → Safe sem (StaleInv s0) (k a) s') →
      Safe sem (StaleInv s0) (associatePT lrv tmpl rs acc k) s := by
  intro rs
  induction rs with
  | nil => intro acc s hs hk; simp only [associatePT]; exact hk acc s hs
  | cons r rs ih =>
    intro acc s hs hk
    have hg : Good s := hs.sh.good hg0
    simp only [associatePT]
    by_cases hn : r.name = ""
    · simp only [hn, if_true]; exact ih acc s hs hk
    · simp only [hn, if_false]
      have hfound : ∀ o, findObj s.objs r.kind r.name = some o →
          Safe sem (StaleInv s0) (if o.annot = "" then onError lrv
            else if (tmpl.any (·.rname = o.annot)) = true then associatePT lrv tmpl rs (assocInsert acc o.annot r) k
            else if o.ctrl = .other then onError lrv
            else wcall lrv (.gcUpdate o.kind o.name) fun _ => wcall lrv (.delete o.kind o.name) fun _ =>
              associatePT lrv tmpl rs acc k) s := by
        intro o hf
        obtain ⟨hm, _, _⟩ := findObj_some hf
        by_cases ha : o.annot = ""
        · simp only [ha, if_true]; exact gsafe_onError hs _
        · simp only [ha, if_false]
          by_cases ht : (tmpl.any (·.rname = o.annot)) = true
          · simp only [ht, if_true]; exact ih _ s hs hk
          · simp only [ht]
            by_cases hc : o.ctrl = .other
            · simp only [hc, if_true]; exact gsafe_onError hs _
            · simp only [hc, if_false]
              apply gsafe_wcall hs
              · rw [exec_gcUpdate_state]; exact hs
              · intro _ _
                rw [exec_gcUpdate_state]
                obtain ⟨hsh, _⟩ := exec_delete_shrunk s hg.nodup o.kind o.name
                  (by intro x hx hkx
                      have : x = o := eq_of_key_eq hg.nodup hx hm (by rw [hkx]; rfl)
                      exact this ▸ hc)
                have hs1 : StaleInv s0 (exec s (.delete o.kind o.name)).1 :=
                  ⟨hs.sh.trans hsh, (exec_delete_xr s _ _).1.trans hs.rv, (exec_delete_xr s _ _).2.trans hs.fin⟩
                apply gsafe_wcall hs
                · exact hs1
                · intro _ _; exact ih acc _ hs1 hk
      cases hf : findObj s.objs r.kind r.name with
      | some o =>
        by_cases hm : (⟨r.kind, r.name⟩ : Ref) ∈ s.miss
        · simp only [Safe, sem, exec_getCached_miss hm, exec_getObj_some hf, isRead, if_true]
          exact ⟨hs, ⟨hs, hfound o hf, gsafe_onError hs _, gsafe_onError hs _⟩, gsafe_onError hs _, gsafe_onError hs _⟩
        · simp only [Safe, sem, exec_getCached_some hf hm, isRead, if_true]
          exact ⟨hs, hfound o hf, gsafe_onError hs _, gsafe_onError hs _⟩
      | none =>
        simp only [Safe, sem, exec_getCached_none hf, exec_getObj_none hf, isRead, if_true]
        exact ⟨hs, ⟨hs, ih acc s hs hk, gsafe_onError hs _, gsafe_onError hs _⟩, gsafe_onError hs _, gsafe_onError hs _⟩

/-! ### the rv-checked writes reject the outdated XR -/

theorem exec_updateXR_stale {s : St} {rv : Nat} (h : rv ≠ s.xrRv) (ver : String) (refs : List Ref) :
    exec s (.updateXR rv ver refs) = (s, .conflict) := by simp [exec, h]

theorem exec_addFinalizer_stale {s : St} {rv : Nat} (h : rv ≠ s.xrRv) :
    exec s (.addFinalizer rv) = (s, .conflict) := by simp [exec, h]

/-- PTComposer.Compose from outdated references and an outdated resourceVersion -/
theorem gsafe_composePTT_stale {s0 : St} (hg0 : Good s0) (tries : Nat) (tmpl : List Desired) (fresh : List String)
    (ver : String) (rv : Nat) (refs : List Ref) (hrv : rv ≠ s0.xrRv) :
    ∀ s, StaleInv s0 s → Safe sem (StaleInv s0) (composePTT tries rv refs tmpl fresh ver) s := by
  intro s hs
  unfold composePTT
  apply gsafe_associatePT hg0 rv tmpl _ refs [] s hs
  intro a s1 hs1
  apply gsafe_renderPTT hs1
  intro rs
  have hne : rv ≠ s1.xrRv := by rw [hs1.rv]; exact hrv
  apply gsafe_wcall hs1
  · rw [exec_updateXR_stale hne]; exact hs1
  · intro _ h2; rw [exec_updateXR_stale hne] at h2; exact absurd rfl h2

/-- **A P&T reconcile that decided from an outdated XR.** -/
theorem safe_reconcileStaleT_pt {s0 : St} (hg0 : Good s0) (tries : Nat) (tmpl : List Desired) (fresh : List String)
    (ver : String) (fin : Bool) (rv : Nat) (refs : List Ref) (hrv : rv ≠ s0.xrRv) :
    Safe sem (StaleInv s0) (reconcileStaleT tries (.pt tmpl fresh ver) fin rv refs) s0 := by
  have hs := StaleInv.rfl' hg0
  unfold reconcileStaleT
  have hgx : sem.exec s0 .getXR = (s0, .xr s0.xrFin s0.xrRv s0.refs) := exec_getXR s0
  have hfail : ∀ r, sem.errResp .fail r = .err := fun _ => rfl
  have hgetc : sem.errResp .conflict .getXR = .err := rfl
  simp only [Safe, hgx, hfail, hgetc]
  refine ⟨hs, ?_, by simp [recContT, Safe], by simp [recContT, Safe]⟩
  simp only [recContT]
  cases fin with
  | true =>
    simp only [if_true]
    exact gsafe_composePTT_stale hg0 tries tmpl fresh ver rv refs hrv s0 hs
  | false =>
    have haf : sem.exec s0 (.addFinalizer rv) = (s0, .conflict) := exec_addFinalizer_stale hrv
    have hread : sem.errResp .conflict (.addFinalizer rv) = .conflict := rfl
    simp only [Bool.false_eq_true, if_false, Safe, haf, hfail, hread]
    exact ⟨hs, gsafe_onConflict _, gsafe_onError hs _, gsafe_onConflict _⟩

end Xp.C01

import Xp.Model.C10
import Xp.Proofs.C10Path
/-
Helper lemmas for C10: no function of the transform / patch model returns `panic`
(the model's rendering of a Go run-time panic).
-/
namespace Xp.C10

/-- r is not the panic outcome -/
def NP {α} (r : Except E α) : Prop := r ≠ .error .panic

theorem np_ok {α} (a : α) : NP (Except.ok a : Except E α) := by simp [NP]
theorem np_err {α} (e : E) (h : e ≠ .panic) : NP (Except.error e : Except E α) := by simp [NP, h]

theorem np_of_eq {α β} {r : Except E α} {e : E} (he : r = .error e) (h : NP r) : NP (Except.error e : Except E β) := by
  subst he
  intro h'
  apply h
  simp only [Except.error.injEq] at h' ⊢
  exact h'

theorem orcStr_np (o : Orc) (i : V) (k : String) : NP (orcStr o i k) := by
  unfold orcStr NP
  split
  · split <;> simp
  · simp

theorem orcVal_np (o : Orc) (i : V) (k : String) : NP (orcVal o i k) := by
  unfold orcVal NP
  split
  · split <;> simp
  · simp

theorem fmtV_np (o : Orc) (x : V) : NP (fmtV o x) := by
  unfold fmtV
  split <;> first | exact np_ok _ | exact orcStr_np _ _ _

theorem upperOf_np (o : Orc) (x : V) : NP (upperOf o x) := by
  unfold upperOf
  have := fmtV_np o x
  split
  · rename_i e he; exact np_of_eq he this
  · split
    · exact np_ok _
    · exact orcStr_np _ _ _

theorem lowerOf_np (o : Orc) (x : V) : NP (lowerOf o x) := by
  unfold lowerOf
  have := fmtV_np o x
  split
  · rename_i e he; exact np_of_eq he this
  · split
    · exact np_ok _
    · exact orcStr_np _ _ _

theorem fmtStr_np (o : Orc) (f : String) (x : V) : NP (fmtStr o f x) := by
  unfold fmtStr
  split
  · exact np_ok _
  · exact orcStr_np _ _ _

macro "np_base" : tactic => `(tactic| first
  | exact np_ok _ | exact np_err _ (by decide) | exact orcVal_np _ _ _ | exact orcStr_np _ _ _
  | exact fmtV_np _ _ | exact upperOf_np _ _ | exact lowerOf_np _ _ | exact fmtStr_np _ _ _ | assumption)
macro "np_step" : tactic => `(tactic| first
  | np_base | exact np_of_eq (by assumption) (by np_base))

/-! ### the regexp group guard -/

theorem selectGroup_out_of_range (groups : List String) (g : Int) (h : g < 0 ∨ g ≥ groups.length) :
    selectGroup groups g = .error .noMatch := by
  unfold selectGroup
  have : (groups.length == 0 || decide (g < 0) || decide (g ≥ groups.length)) = true := by
    rcases h with h | h <;> simp [h]
  simp [this]

theorem selectGroup_in_range (groups : List String) (g : Int) (h0 : 0 ≤ g) (h1 : g < groups.length) :
    ∃ s, selectGroup groups g = .ok s ∧ groups[g.toNat]? = some s := by
  unfold selectGroup
  have hlen : groups.length ≠ 0 := by omega
  have hn : g.toNat < groups.length := by omega
  have hc : (groups.length == 0 || decide (g < 0) || decide (g ≥ groups.length)) = false := by
    simp [hlen]; omega
  simp only [hc, Bool.false_eq_true, if_false]
  have : groups[g.toNat]? = some groups[g.toNat] := List.getElem?_eq_getElem hn
  rw [this]
  exact ⟨_, rfl, rfl⟩

theorem selectGroup_np (groups : List String) (g : Int) : NP (selectGroup groups g) := by
  by_cases h : g < 0 ∨ g ≥ groups.length
  · rw [selectGroup_out_of_range groups g h]; exact np_err _ (by decide)
  · have h0 : 0 ≤ g := by omega
    have h1 : g < groups.length := by omega
    obtain ⟨s, hs, _⟩ := selectGroup_in_range groups g h0 h1
    rw [hs]; exact np_ok _

/-! ### transforms -/

theorem resolveMath_np (o : Orc) (m : MathCfg) (v : V) : NP (resolveMath o m v) := by
  unfold resolveMath
  repeat' split
  all_goals np_step

theorem resolveMap_np (p : List (String × Raw)) (v : V) : NP (resolveMap p v) := by
  unfold resolveMap
  split
  · split <;> first | exact np_ok _ | exact np_err _ (by decide)
  · exact np_err _ (by decide)

theorem rawOrNil_np (r : Raw) : NP (rawOrNil r) := by
  unfold rawOrNil
  split <;> first | exact np_ok _ | exact np_err _ (by decide)

theorem patternMatches_np (o : Orc) (i : Nat) (p : Pattern) (v : V) : NP (patternMatches o i p v) := by
  unfold patternMatches
  split
  · split
    · exact np_err _ (by decide)
    · split <;> first | exact np_ok _ | exact np_err _ (by decide)
  · split
    · exact np_err _ (by decide)
    · simp only
      split
      · exact np_err _ (by decide)
      · split
        · exact np_err _ (by decide)
        · split
          · split
            · split <;> first | exact np_ok _ | exact np_err _ (by decide)
            · exact np_err _ (by decide)
          · exact np_err _ (by decide)
        · exact np_err _ (by decide)
  · exact np_err _ (by decide)

theorem matchLoop_np (o : Orc) (v : V) (ps : List Pattern) : ∀ i, NP (matchLoop o v i ps) := by
  induction ps with
  | nil => intro i; exact np_ok _
  | cons p ps ih =>
    intro i
    unfold matchLoop
    have hp := patternMatches_np o i p v
    split
    · rename_i e he; exact np_of_eq he (by first | exact hp | exact orcVal_np _ _ _ | exact orcStr_np _ _ _ | exact fmtV_np _ _ | exact orcGroups_np _ _)
    · have := rawOrNil_np p.result
      split
      · exact np_ok _
      · rename_i e he; exact np_of_eq he (by first | exact this | exact orcVal_np _ _ _ | exact orcStr_np _ _ _ | exact fmtV_np _ _ | exact orcGroups_np _ _)
    · exact ih _

theorem resolveMatch_np (o : Orc) (m : MatchCfg) (v : V) : NP (resolveMatch o m v) := by
  unfold resolveMatch
  have hl := matchLoop_np o v m.patterns 0
  split
  · rename_i e he; exact np_of_eq he (by first | exact hl | exact orcVal_np _ _ _ | exact orcStr_np _ _ _ | exact fmtV_np _ _ | exact orcGroups_np _ _)
  · exact np_ok _
  · split
    · split <;> first | exact np_ok _ | exact np_err _ (by decide)
    · exact rawOrNil_np _

theorem orcGroups_np (o : Orc) (k : V) : NP (orcGroups o k) := by
  unfold orcGroups
  have := orcVal_np o k "groups"
  split
  · rename_i e he; exact np_of_eq he (by first | exact this | exact orcVal_np _ _ _ | exact orcStr_np _ _ _ | exact fmtV_np _ _ | exact orcGroups_np _ _)
  · exact np_ok _
  · exact np_ok _
  · exact np_err _ (by decide)

theorem stringRegexp_np (o : Orc) (r : RegexpCfg) (v : V) : NP (stringRegexpWith selectGroup o r v) := by
  unfold stringRegexpWith
  split
  · exact np_err _ (by decide)
  · have h1 := fmtV_np o v
    split
    · rename_i e he; exact np_of_eq he (by first | exact h1 | exact orcVal_np _ _ _ | exact orcStr_np _ _ _ | exact fmtV_np _ _ | exact orcGroups_np _ _)
    · have h2 := orcGroups_np o v
      split
      · rename_i e he; exact np_of_eq he (by first | exact h2 | exact orcVal_np _ _ _ | exact orcStr_np _ _ _ | exact fmtV_np _ _ | exact orcGroups_np _ _)
      · exact selectGroup_np _ _
  · exact np_err _ (by decide)

theorem stringConvert_np (o : Orc) (c : String) (v : V) : NP (stringConvert o c v) := by
  unfold stringConvert
  repeat' split
  all_goals np_step

theorem fmtAll_np (o : Orc) (l : List V) : ∀ i, NP (fmtAll o i l) := by
  induction l with
  | nil => intro i; exact np_ok _
  | cons x xs ih =>
    intro i
    unfold fmtAll
    simp only
    split
    · rename_i e he
      -- the element's own formatting failed: only oracleMiss is possible
      unfold NP
      intro h
      simp only [Except.error.injEq] at h
      subst h
      revert he
      split
      · simp
      · simp
      · simp
      · simp
      · split
        · split <;> simp
        · simp
    · have := ih (i + 1)
      split
      · rename_i e he; exact np_of_eq he (by first | exact this | exact orcVal_np _ _ _ | exact orcStr_np _ _ _ | exact fmtV_np _ _ | exact orcGroups_np _ _)
      · exact np_ok _

theorem stringJoin_np (o : Orc) (sep : String) (v : V) : NP (stringJoin o sep v) := by
  unfold stringJoin
  split
  · split
    · have := fmtAll_np o (by assumption) 0
      split
      · rename_i e he; exact np_of_eq he (by first | exact this | exact orcVal_np _ _ _ | exact orcStr_np _ _ _ | exact fmtV_np _ _ | exact orcGroups_np _ _)
      · exact np_ok _
    · exact np_err _ (by decide)
  · exact np_err _ (by decide)

theorem resolveString_np (o : Orc) (t : StrCfg) (v : V) : NP (resolveStringWith selectGroup o t v) := by
  unfold resolveStringWith
  split
  · split
    · exact np_err _ (by decide)
    · exact fmtStr_np _ _ _
  · split
    · exact np_err _ (by decide)
    · exact stringConvert_np _ _ _
  · split
    · exact np_err _ (by decide)
    · have := fmtV_np o v
      split
      · exact np_ok _
      · rename_i e he; exact np_of_eq he (by first | exact this | exact orcVal_np _ _ _ | exact orcStr_np _ _ _ | exact fmtV_np _ _ | exact orcGroups_np _ _)
  · split
    · exact np_err _ (by decide)
    · have := fmtV_np o v
      split
      · exact np_ok _
      · rename_i e he; exact np_of_eq he (by first | exact this | exact orcVal_np _ _ _ | exact orcStr_np _ _ _ | exact fmtV_np _ _ | exact orcGroups_np _ _)
  · split
    · exact np_err _ (by decide)
    · exact stringRegexp_np _ _ _
  · split
    · exact np_err _ (by decide)
    · exact stringJoin_np _ _ _
  · exact np_err _ (by decide)

theorem convFn_np (o : Orc) (a b c : String) (v : V) : NP (convFn o a b c v) := by
  unfold convFn
  repeat' split
  all_goals np_step

theorem resolveConvert_np (o : Orc) (c : ConvCfg) (v : V) : NP (resolveConvert o c v) := by
  unfold resolveConvert
  split
  · exact np_err _ (by decide)
  · split
    · exact np_err _ (by decide)
    · dsimp only
      repeat' split
      all_goals first | exact np_ok _ | exact np_err _ (by decide) | exact convFn_np _ _ _ _ _

theorem resolve_np (t : Xf) (v : V) : NP (resolveWith selectGroup t v) := by
  unfold resolveWith
  split
  · split
    · exact np_err _ (by decide)
    · exact resolveMath_np _ _ _
  · split
    · exact np_err _ (by decide)
    · exact resolveMap_np _ _
  · split
    · exact np_err _ (by decide)
    · exact resolveMatch_np _ _ _
  · split
    · exact np_err _ (by decide)
    · have := resolveString_np t.orc (by assumption) v
      split
      · exact np_ok _
      · rename_i e he; exact np_of_eq he (by first | exact this | exact orcVal_np _ _ _ | exact orcStr_np _ _ _ | exact fmtV_np _ _ | exact orcGroups_np _ _)
  · split
    · exact np_err _ (by decide)
    · exact resolveConvert_np _ _ _
  · exact np_err _ (by decide)

theorem resolveAll_np (ts : List Xf) : ∀ v, NP (resolveAllWith selectGroup ts v) := by
  induction ts with
  | nil => intro v; exact np_ok _
  | cons t ts ih =>
    intro v
    unfold resolveAllWith
    have := resolve_np t v
    split
    · exact ih _
    · rename_i e he; exact np_of_eq he (by first | exact this | exact orcVal_np _ _ _ | exact orcStr_np _ _ _ | exact fmtV_np _ _ | exact orcGroups_np _ _)

end Xp.C10

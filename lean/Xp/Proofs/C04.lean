import Xp.Model.C04
import Xp.Model.C04Compose
/-
C04 helper lemmas: decomposition of `runPipeline` over `s :: ss` and `pre ++ rest`, how the
trace grows, and the state a completed step leaves behind. Core Lean only.
-/
namespace Xp.C04

theorem eventsUntilFatal_snd_eq (step : String) (rs : List Result) :
    (eventsUntilFatal step rs).2 = hasFatal rs := by
  induction rs with
  | nil => rfl
  | cons r rs ih =>
    unfold eventsUntilFatal
    by_cases h : r.sev = .fatal
    · simp [h, hasFatal]
    · simp only [h, if_false]
      rw [ih]
      simp [hasFatal, h]

/-- the rounds of one step started from the accumulated state `st` -/
def roundsOf (cluster : List ClusterObj) (observed : List Res) (s : Step) (st : PipeState) : List Request × Outcome :=
  runFetching cluster s.fn (Xp.Gen.maxRequirementsIterations + 1) (stepRequest observed st s) []

/-- the state a step that returned `rsp` hands to the next one -/
def afterStep (cluster : List ClusterObj) (observed : List Res) (s : Step) (i : Nat) (st : PipeState) (rsp : Response) : PipeState :=
  { desired := rsp.desired, xrReady := rsp.xrReady, ctx := rsp.ctx,
    events := st.events ++ (eventsUntilFatal s.name rsp.results).1,
    conds := st.conds ++ rsp.conds,
    trace := st.trace ++ (roundsOf cluster observed s st).1.map (fun r => (i, r)) }

/-- one step, every case -/
theorem runPipeline_cons_eq (cluster : List ClusterObj) (observed : List Res) (s : Step) (ss : List Step) (i : Nat) (st : PipeState) :
    runPipeline cluster observed (s :: ss) i st =
      if s.creds.any (·.2.isNone) then .failed st false
      else match (roundsOf cluster observed s st).2 with
        | .err => .failed { st with trace := st.trace ++ (roundsOf cluster observed s st).1.map (fun r => (i, r)) } false
        | .ok rsp =>
          if hasFatal rsp.results then .failed (afterStep cluster observed s i st rsp) true
          else runPipeline cluster observed ss (i + 1) (afterStep cluster observed s i st rsp) := by
  conv => lhs; unfold runPipeline
  by_cases hc : s.creds.any (·.2.isNone) = true
  · simp only [hc, if_true]
  · simp only [hc, Bool.false_eq_true, if_false, roundsOf]
    cases hr : (runFetching cluster s.fn (Xp.Gen.maxRequirementsIterations + 1) (stepRequest observed st s) []).2 with
    | err => rfl
    | ok rsp =>
      simp only [eventsUntilFatal_snd_eq, afterStep, roundsOf]

theorem runPipeline_nil (cluster : List ClusterObj) (observed : List Res) (i : Nat) (st : PipeState) :
    runPipeline cluster observed [] i st = .done st := by
  unfold runPipeline; rfl

/-- a step that completes: its credentials were available, the runner returned a response
without a fatal result, and the next state is `afterStep` of that response -/
theorem single_done (cluster : List ClusterObj) (observed : List Res) (s : Step) (i : Nat) (st st' : PipeState)
    (h : runPipeline cluster observed [s] i st = .done st') :
    s.creds.any (·.2.isNone) = false ∧
    ∃ rsp, (roundsOf cluster observed s st).2 = .ok rsp ∧ hasFatal rsp.results = false ∧
      st' = afterStep cluster observed s i st rsp := by
  rw [runPipeline_cons_eq] at h
  by_cases hc : s.creds.any (·.2.isNone) = true
  · simp only [hc, if_true] at h; cases h
  · simp only [hc, Bool.false_eq_true, if_false] at h
    refine ⟨(Bool.not_eq_true _).mp hc, ?_⟩
    cases hr : (roundsOf cluster observed s st).2 with
    | err => rw [hr] at h; cases h
    | ok rsp =>
      rw [hr] at h
      by_cases hf : hasFatal rsp.results = true
      · simp only [hf, if_true] at h; cases h
      · simp only [hf, Bool.false_eq_true, if_false, runPipeline_nil] at h
        exact ⟨rsp, rfl, by simpa using hf, by cases h; rfl⟩

/-- `runPipeline` over `s :: ss` is `runPipeline` over `[s]` followed by the rest -/
theorem runPipeline_cons (cluster : List ClusterObj) (observed : List Res) (s : Step) (ss : List Step) (i : Nat) (st : PipeState) :
    runPipeline cluster observed (s :: ss) i st =
      match runPipeline cluster observed [s] i st with
      | .done st' => runPipeline cluster observed ss (i + 1) st'
      | .failed a b => .failed a b := by
  rw [runPipeline_cons_eq, runPipeline_cons_eq cluster observed s []]
  by_cases hc : s.creds.any (·.2.isNone) = true
  · simp only [hc, if_true]
  · simp only [hc, Bool.false_eq_true, if_false]
    cases (roundsOf cluster observed s st).2 with
    | err => rfl
    | ok rsp =>
      by_cases hf : hasFatal rsp.results = true
      · simp only [hf, if_true]
      · simp only [hf, Bool.false_eq_true, if_false, runPipeline_nil]

theorem runPipeline_append_eq (cluster : List ClusterObj) (observed : List Res) :
    ∀ (pre rest : List Step) (i : Nat) (st : PipeState),
      runPipeline cluster observed (pre ++ rest) i st =
        match runPipeline cluster observed pre i st with
        | .done st' => runPipeline cluster observed rest (i + pre.length) st'
        | .failed a b => .failed a b := by
  intro pre
  induction pre with
  | nil => intro rest i st; simp [runPipeline_nil]
  | cons s pre ih =>
    intro rest i st
    rw [List.cons_append, runPipeline_cons, runPipeline_cons cluster observed s pre]
    cases runPipeline cluster observed [s] i st with
    | failed a b => rfl
    | done st' =>
      simp only [ih, List.length_cons]
      have : i + 1 + pre.length = i + (pre.length + 1) := by omega
      rw [this]

/-- the trace only grows, and what a run from index `i` adds carries indexes ≥ `i` -/
theorem trace_extends (cluster : List ClusterObj) (observed : List Res) :
    ∀ (ss : List Step) (i : Nat) (st : PipeState),
      ∃ t, traceOf (runPipeline cluster observed ss i st) = st.trace ++ t ∧ ∀ p ∈ t, i ≤ p.1 := by
  intro ss
  induction ss with
  | nil => intro i st; exact ⟨[], by simp [runPipeline_nil, traceOf], by simp⟩
  | cons s ss ih =>
    intro i st
    rw [runPipeline_cons_eq]
    by_cases hc : s.creds.any (·.2.isNone) = true
    · simp only [hc, if_true]; exact ⟨[], by simp [traceOf], by simp⟩
    · simp only [hc, Bool.false_eq_true, if_false]
      have hmap : ∀ p ∈ (roundsOf cluster observed s st).1.map (fun r => (i, r)), i ≤ p.1 := by
        intro p hp; obtain ⟨q, _, rfl⟩ := List.mem_map.mp hp; exact Nat.le_refl _
      cases (roundsOf cluster observed s st).2 with
      | err => exact ⟨_, rfl, hmap⟩
      | ok rsp =>
        by_cases hf : hasFatal rsp.results = true
        · simp only [hf, if_true]; exact ⟨_, rfl, hmap⟩
        · simp only [hf, Bool.false_eq_true, if_false]
          obtain ⟨t, ht, hti⟩ := ih (i + 1) (afterStep cluster observed s i st rsp)
          refine ⟨(roundsOf cluster observed s st).1.map (fun r => (i, r)) ++ t, ?_, ?_⟩
          · rw [ht]; simp [afterStep, List.append_assoc]
          · intro p hp
            rcases List.mem_append.mp hp with hp | hp
            · exact hmap p hp
            · exact Nat.le_of_succ_le (hti p hp)

/-- a completed prefix added only requests with indexes in `[i, i + length)` -/
theorem done_trace_bounds (cluster : List ClusterObj) (observed : List Res) :
    ∀ (pre : List Step) (i : Nat) (st0 st : PipeState),
      runPipeline cluster observed pre i st0 = .done st →
      ∃ t, st.trace = st0.trace ++ t ∧ ∀ p ∈ t, i ≤ p.1 ∧ p.1 < i + pre.length := by
  intro pre
  induction pre with
  | nil =>
    intro i st0 st h
    rw [runPipeline_nil] at h; cases h
    exact ⟨[], by simp, by simp⟩
  | cons s pre ih =>
    intro i st0 st h
    rw [runPipeline_cons] at h
    cases h1 : runPipeline cluster observed [s] i st0 with
    | failed a b => rw [h1] at h; cases h
    | done st1 =>
      rw [h1] at h
      obtain ⟨_, rsp, _, _, hst1⟩ := single_done cluster observed s i st0 st1 h1
      obtain ⟨t, ht, hti⟩ := ih (i + 1) st1 st h
      refine ⟨(roundsOf cluster observed s st0).1.map (fun r => (i, r)) ++ t, ?_, ?_⟩
      · rw [ht, hst1]; simp [afterStep, List.append_assoc]
      · intro p hp
        rcases List.mem_append.mp hp with hp | hp
        · obtain ⟨q, _, rfl⟩ := List.mem_map.mp hp
          simp only [List.length_cons]; omega
        · have := hti p hp
          simp only [List.length_cons]; omega

/-- the first request of a step whose credentials are available is the request the composer built -/
theorem rounds_head (cluster : List ClusterObj) (observed : List Res) (s : Step) (st : PipeState) :
    ∃ more, (roundsOf cluster observed s st).1 = stepRequest observed st s :: more := by
  unfold roundsOf
  generalize stepRequest observed st s = req
  unfold runFetching
  cases s.fn req with
  | none => exact ⟨[], rfl⟩
  | some rsp =>
    simp only []
    split
    · exact ⟨[], rfl⟩
    · split
      · exact ⟨[], rfl⟩
      · exact ⟨_, rfl⟩

/-- when the step at the head of the pipeline has its credentials, the trace continues with its
request `stepRequest observed st s` at index `i`; everything after carries indexes ≥ `i` -/
theorem cons_first_request (cluster : List ClusterObj) (observed : List Res) (s : Step) (ss : List Step) (i : Nat) (st : PipeState)
    (hc : s.creds.any (·.2.isNone) = false) :
    ∃ tail, traceOf (runPipeline cluster observed (s :: ss) i st) = st.trace ++ (i, stepRequest observed st s) :: tail ∧
      ∀ p ∈ tail, i ≤ p.1 := by
  obtain ⟨more, hmore⟩ := rounds_head cluster observed s st
  rw [runPipeline_cons_eq]
  simp only [hc, Bool.false_eq_true, if_false]
  have hmap : ∀ p ∈ more.map (fun r => (i, r)), i ≤ p.1 := by
    intro p hp; obtain ⟨q, _, rfl⟩ := List.mem_map.mp hp; exact Nat.le_refl _
  cases (roundsOf cluster observed s st).2 with
  | err => exact ⟨more.map (fun r => (i, r)), by simp [traceOf, hmore], hmap⟩
  | ok rsp =>
    by_cases hf : hasFatal rsp.results = true
    · simp only [hf, if_true]
      exact ⟨more.map (fun r => (i, r)), by simp [traceOf, afterStep, hmore], hmap⟩
    · simp only [hf, Bool.false_eq_true, if_false]
      obtain ⟨t, ht, hti⟩ := trace_extends cluster observed ss (i + 1) (afterStep cluster observed s i st rsp)
      refine ⟨more.map (fun r => (i, r)) ++ t, ?_, ?_⟩
      · rw [ht]; simp [afterStep, hmore, List.append_assoc]
      · intro p hp
        rcases List.mem_append.mp hp with hp | hp
        · exact hmap p hp
        · exact Nat.le_of_succ_le (hti p hp)

theorem flatMap_congr_mem {α β : Type} (l : List α) (f g : α → List β) (h : ∀ x ∈ l, f x = g x) :
    l.flatMap f = l.flatMap g := by
  induction l with
  | nil => rfl
  | cons a l ih =>
    simp only [List.flatMap_cons]
    rw [h a (List.mem_cons_self ..), ih (fun x hx => h x (List.mem_cons_of_mem _ hx))]

/-- the responses the runner returned for the steps of a run, in pipeline order, up to and
including the first step that did not complete with a fatal result (a step whose preparation
failed or whose runner returned an error has no response) -/
def accepted (cluster : List ClusterObj) (observed : List Res) : List Step → Nat → PipeState → List (String × Response)
  | [], _, _ => []
  | s :: ss, i, st =>
    if s.creds.any (·.2.isNone) then []
    else match (roundsOf cluster observed s st).2 with
      | .err => []
      | .ok rsp =>
        if hasFatal rsp.results then [(s.name, rsp)]
        else (s.name, rsp) :: accepted cluster observed ss (i + 1) (afterStep cluster observed s i st rsp)

/-- the state a run ends with (completed or failed) -/
def finalState : PipeResult → PipeState
  | .done s => s
  | .failed s _ => s

/-- events and conditions of the final state are those of the start state followed by, in
pipeline order, the events (up to a fatal result) and ALL conditions of every accepted response -/
theorem events_conds_concat (cluster : List ClusterObj) (observed : List Res) :
    ∀ (ss : List Step) (i : Nat) (st : PipeState),
      (finalState (runPipeline cluster observed ss i st)).events =
        st.events ++ (accepted cluster observed ss i st).flatMap (fun p => (eventsUntilFatal p.1 p.2.results).1) ∧
      (finalState (runPipeline cluster observed ss i st)).conds =
        st.conds ++ (accepted cluster observed ss i st).flatMap (fun p => p.2.conds) := by
  intro ss
  induction ss with
  | nil => intro i st; simp [runPipeline_nil, finalState, accepted]
  | cons s ss ih =>
    intro i st
    rw [runPipeline_cons_eq]
    unfold accepted
    by_cases hc : s.creds.any (·.2.isNone) = true
    · simp [hc, finalState]
    · simp only [hc, Bool.false_eq_true, if_false]
      cases (roundsOf cluster observed s st).2 with
      | err => simp [finalState]
      | ok rsp =>
        by_cases hf : hasFatal rsp.results = true
        · simp [hf, finalState, afterStep]
        · simp only [hf, Bool.false_eq_true, if_false]
          obtain ⟨h1, h2⟩ := ih (i + 1) (afterStep cluster observed s i st rsp)
          rw [h1, h2]
          simp [afterStep, List.append_assoc]

/-- a run completes iff every step has an accepted response without a fatal result -/
theorem accepted_of_done (cluster : List ClusterObj) (observed : List Res) :
    ∀ (ss : List Step) (i : Nat) (st st' : PipeState),
      runPipeline cluster observed ss i st = .done st' →
      (accepted cluster observed ss i st).map (·.1) = ss.map (·.name) ∧
      ∀ p ∈ accepted cluster observed ss i st, hasFatal p.2.results = false := by
  intro ss
  induction ss with
  | nil => intro i st st' _; simp [accepted]
  | cons s ss ih =>
    intro i st st' h
    rw [runPipeline_cons_eq] at h
    unfold accepted
    by_cases hc : s.creds.any (·.2.isNone) = true
    · simp only [hc, if_true] at h; cases h
    · simp only [hc, Bool.false_eq_true, if_false] at h ⊢
      cases hr : (roundsOf cluster observed s st).2 with
      | err => rw [hr] at h; cases h
      | ok rsp =>
        rw [hr] at h
        by_cases hf : hasFatal rsp.results = true
        · simp only [hf, if_true] at h; cases h
        · simp only [hf, Bool.false_eq_true, if_false] at h ⊢
          obtain ⟨h1, h2⟩ := ih (i + 1) _ st' h
          refine ⟨by simp [h1], ?_⟩
          intro p hp
          rcases List.mem_cons.mp hp with rfl | hp
          · simpa using hf
          · exact h2 p hp

end Xp.C04

import Xp.Proofs.C20Whcs
import Xp.Proofs.C20Install
/-
C20 helper lemmas, part 10: storage-version migration, Lock, StoreConfig,
DeploymentRuntimeConfig – establishment and fixpoint.
-/
namespace Xp.C20
open Xp

variable {α β : Type}

/-! ### the empty patches of the migrator never change anything -/

theorem exec_patchCr_ok (s : Store) (crd : String) (cr : Cr) (h : cr ∈ s.crs ∧ cr.crd = crd) :
    exec s (.patchCr crd cr.name) = (s, .ok) := by
  have hany : s.crs.any (fun c => decide (c.crd = crd ∧ c.name = cr.name)) = true :=
    List.any_eq_true.mpr ⟨cr, h.1, by simp [h.2]⟩
  simp only [exec, hany, if_true]

theorem migrateCrs_ok (crd : String) (l : List Cr) (s : Store) (h : ∀ cr ∈ l, cr ∈ s.crs ∧ cr.crd = crd) :
    evalOk (migrateCrs crd l) s = (s, .ok) ∧ ∀ x ∈ statesOk (migrateCrs crd l) s, x = s := by
  unfold migrateCrs
  induction l with
  | nil => simp [forEach, statesOk]
  | cons cr rest ih =>
    obtain ⟨i1, i2⟩ := ih (fun c hc => h c (by simp [hc]))
    have hex := exec_patchCr_ok s crd cr (h cr (by simp))
    unfold forEach
    constructor
    · rw [evalOk_bind]
      simp only [evalOk_call, hex, okOr, evalOk_ret]
      exact i1
    · intro x hx
      rw [statesOk_bind] at hx
      simp only [statesOk, evalOk_call, hex, okOr, evalOk_ret, List.mem_cons] at hx
      rcases hx with (hx | hx) | hx
      · exact hx
      · simp at hx; exact hx
      · exact i2 x hx

/-! ### migration -/

def MigDone (crd old : String) (s : Store) : Prop :=
  findCrd s crd = none ∨ ∃ c, findCrd s crd = some c ∧
    (c.stored.contains old = false ∨ ∀ c' ∈ s.crds, c'.name = crd → c'.stored = [storageVersion c])

theorem stored_eta (c : Crd) (vs : List String) (h : c.stored = vs) : { c with stored := vs } = c := by
  cases c; simp_all

theorem mem_crListing (s : Store) (crd : String) (cr : Cr) :
    cr ∈ sortBy (fun a b => strLe a.name b.name) (s.crs.filter (·.crd = crd)) → cr ∈ s.crs ∧ cr.crd = crd := by
  intro h
  rw [mem_sortBy] at h
  simpa using h

/-- the effect of the status patch -/
def setStored (crd : String) (vs : List String) (s : Store) : Store :=
  { s with crds := s.crds.map fun c' => if c'.name = crd then { c' with stored := vs } else c' }

theorem findCrd_setStored (crd : String) (vs : List String) (s : Store) (c : Crd) (hc : findCrd s crd = some c) :
    findCrd (setStored crd vs s) crd = some { c with stored := vs } := by
  simp only [findCrd, setStored] at hc ⊢
  rw [find_map_some _ _ _ ?_ _ hc]
  · have : c.name = crd := by simpa using List.find?_some hc
    simp [this]
  · intro x; by_cases e : x.name = crd <;> simp [e]

theorem migrateFinish_eval (crd storage : String) (s : Store) (c : Crd) (hc : findCrd s crd = some c) :
    evalOk (migrateFinish crd storage) s = (setStored crd [storage] s, .ok) ∧
    ∀ x ∈ statesOk (migrateFinish crd storage) s, x = s ∨ x = setStored crd [storage] s := by
  have hp : exec s (.patchCrdStored crd [storage]) = (setStored crd [storage] s, .ok) := by
    simp only [exec, hc, setStored]
  have hg : exec (setStored crd [storage] s) (.getCrd crd) = (setStored crd [storage] s, .crd { c with stored := [storage] }) := by
    simp only [exec, findCrd_setStored crd [storage] s c hc]
  have hst : statesOk (migrateFinish crd storage) s = [s, setStored crd [storage] s, setStored crd [storage] s] := by
    simp [migrateFinish, statesOk, hp, hg]
  constructor
  · simp [migrateFinish, hp, hg]
  · intro x hx
    rw [hst] at hx
    simp only [List.mem_cons, List.mem_nil_iff, or_false] at hx
    rcases hx with hx | hx | hx
    · exact Or.inl hx
    · exact Or.inr hx
    · exact Or.inr hx

theorem setStored_self (crd : String) (vs : List String) (s : Store)
    (h : ∀ c' ∈ s.crds, c'.name = crd → c'.stored = vs) : setStored crd vs s = s := by
  have hmap : (s.crds.map fun c' => if c'.name = crd then { c' with stored := vs } else c') = s.crds :=
    map_eq_self _ _ (fun x hx => by
      by_cases e : x.name = crd
      · rw [if_pos e]; exact stored_eta x _ (h x hx e)
      · rw [if_neg e])
  simp only [setStored, hmap]

theorem exec_listCrs (s : Store) (crd : String) :
    exec s (.listCrs crd) = (s, .crs (sortBy (fun a b => strLe a.name b.name) (s.crs.filter (·.crd = crd)))) := rfl

/-- the migrator, evaluated: nothing, or exactly the status patch -/
theorem mig_eval (crd old : String) (s : Store) :
    (findCrd s crd = none ∧ evalOk (migrateStep crd old) s = (s, .ok) ∧ ∀ x ∈ statesOk (migrateStep crd old) s, x = s) ∨
    (∃ c, findCrd s crd = some c ∧ c.stored.contains old = false ∧
      evalOk (migrateStep crd old) s = (s, .ok) ∧ ∀ x ∈ statesOk (migrateStep crd old) s, x = s) ∨
    (∃ c, findCrd s crd = some c ∧ c.stored.contains old = true ∧
      evalOk (migrateStep crd old) s = (setStored crd [storageVersion c] s, .ok) ∧
      ∀ x ∈ statesOk (migrateStep crd old) s, x = s ∨ x = setStored crd [storageVersion c] s) := by
  cases hc : findCrd s crd with
  | none =>
    have hget : exec s (.getCrd crd) = (s, .err .notFound) := by simp [exec, hc]
    refine Or.inl ⟨rfl, ?_, ?_⟩
    · simp [migrateStep, hget]
    · intro x hx; simp [migrateStep, statesOk, hget] at hx; exact hx
  | some c =>
    have hget : exec s (.getCrd crd) = (s, .crd c) := by simp [exec, hc]
    cases hcont : c.stored.contains old with
    | false =>
      refine Or.inr (Or.inl ⟨c, rfl, hcont, ?_, ?_⟩)
      · simp only [migrateStep, evalOk_call, hget, hcont]; rfl
      · intro x hx
        simp only [migrateStep, statesOk, hget, hcont] at hx
        simp [statesOk] at hx; exact hx
    | true =>
      obtain ⟨l1, l2⟩ := migrateCrs_ok crd _ s (fun cr hcr => mem_crListing s crd cr hcr)
      obtain ⟨f1, f2⟩ := migrateFinish_eval crd (storageVersion c) s c hc
      refine Or.inr (Or.inr ⟨c, rfl, hcont, ?_, ?_⟩)
      · simp only [migrateStep, evalOk_call, hget, hcont, if_true, exec_listCrs]
        rw [evalOk_bind, l1]
        exact f1
      · intro x hx
        simp only [migrateStep, statesOk, hget, hcont, if_true, exec_listCrs, List.mem_cons] at hx
        rcases hx with hx | hx | hx
        · exact Or.inl hx
        · exact Or.inl hx
        · rw [statesOk_bind] at hx
          rcases hx with hx | hx
          · exact Or.inl (l2 x hx)
          · rw [l1] at hx; exact f2 x hx

theorem mig_fix (crd old : String) (s : Store) (h : MigDone crd old s) :
    evalOk (migrateStep crd old) s = (s, .ok) ∧ ∀ x ∈ statesOk (migrateStep crd old) s, x = s := by
  rcases mig_eval crd old s with ⟨_, h1, h2⟩ | ⟨c, _, _, h1, h2⟩ | ⟨c, hc, hcont, h1, h2⟩
  · exact ⟨h1, h2⟩
  · exact ⟨h1, h2⟩
  · rcases h with h | ⟨c', hc', h⟩
    · rw [h] at hc; cases hc
    · rw [hc'] at hc; cases hc
      rcases h with h | h
      · rw [h] at hcont; cases hcont
      · have := setStored_self crd [storageVersion c] s h
        rw [this] at h1 h2
        exact ⟨h1, fun x hx => by rcases h2 x hx with e | e <;> exact e⟩

/-- migration only ever changes `stored` of CRDs -/
def StoredOnly (s t : Store) : Prop :=
  t.secrets = s.secrets ∧ t.pkgs = s.pkgs ∧ t.whcs = s.whcs ∧ t.lock = s.lock ∧ t.sc = s.sc ∧ t.drc = s.drc ∧
  ∃ f : Crd → Crd, t.crds = s.crds.map f ∧ ∀ c, (f c).name = c.name ∧ (f c).content = c.content ∧
    (f c).versions = c.versions ∧ (f c).conv = c.conv ∧ (f c).bundle = c.bundle ∧ (f c).extra = c.extra

theorem storedOnly_refl (s : Store) : StoredOnly s s :=
  ⟨rfl, rfl, rfl, rfl, rfl, rfl, id, by simp, fun _ => ⟨rfl, rfl, rfl, rfl, rfl, rfl⟩⟩

theorem storedOnly_setStored (crd : String) (vs : List String) (s : Store) : StoredOnly s (setStored crd vs s) :=
  ⟨rfl, rfl, rfl, rfl, rfl, rfl, (fun c' => if c'.name = crd then { c' with stored := vs } else c'), rfl,
    fun c' => by by_cases e : c'.name = crd <;> simp [e]⟩

theorem mig_establishes (crd old : String) (s t : Store) (h : evalOk (migrateStep crd old) s = (t, .ok)) :
    MigDone crd old t ∧ StoredOnly s t := by
  rcases mig_eval crd old s with ⟨hn, h1, _⟩ | ⟨c, hc, hcont, h1, _⟩ | ⟨c, hc, hcont, h1, _⟩
  · rw [h1] at h; cases h
    exact ⟨Or.inl hn, storedOnly_refl s⟩
  · rw [h1] at h; cases h
    exact ⟨Or.inr ⟨c, hc, Or.inl hcont⟩, storedOnly_refl s⟩
  · rw [h1] at h
    simp only [Prod.mk.injEq, and_true] at h
    subst h
    refine ⟨Or.inr ⟨_, findCrd_setStored crd _ s c hc, Or.inr ?_⟩, storedOnly_setStored crd _ s⟩
    intro c' hc' hn
    simp only [setStored, List.mem_map] at hc'
    obtain ⟨c0, _, e⟩ := hc'
    by_cases h0 : c0.name = crd
    · simp [h0] at e; subst e; rfl
    · simp [h0] at e; subst e; exact absurd hn h0

/-! ### Lock, StoreConfig, DeploymentRuntimeConfig -/

theorem lock_fix (s : Store) (h : s.lock.isSome = true) :
    evalOk lockStep s = (s, .ok) ∧ ∀ x ∈ statesOk lockStep s, x = s := by
  cases hl : s.lock with
  | none => simp [hl] at h
  | some v => simp [lockStep, statesOk, exec, hl, okOr]

theorem lock_establishes (s t : Store) (h : evalOk lockStep s = (t, .ok)) :
    t.lock.isSome = true ∧ t.secrets = s.secrets ∧ t.pkgs = s.pkgs ∧ t.crds = s.crds ∧ t.whcs = s.whcs ∧ t.sc = s.sc ∧ t.drc = s.drc := by
  cases hl : s.lock with
  | none =>
    simp [lockStep, exec, hl, okOr] at h
    subst h; simp
  | some v =>
    simp [lockStep, exec, hl, okOr] at h
    subst h; simp [hl]

theorem sc_fix (ns : String) (s : Store) (h : s.sc.isSome = true) :
    evalOk (scStep ns) s = (s, .ok) ∧ ∀ x ∈ statesOk (scStep ns) s, x = s := by
  cases hl : s.sc with
  | none => simp [hl] at h
  | some v => simp [scStep, createIfAbsent, statesOk, exec, hl]

theorem sc_establishes (ns : String) (s t : Store) (h : evalOk (scStep ns) s = (t, .ok)) :
    t.sc.isSome = true ∧ t.secrets = s.secrets ∧ t.pkgs = s.pkgs ∧ t.crds = s.crds ∧ t.whcs = s.whcs ∧ t.lock = s.lock ∧ t.drc = s.drc := by
  cases hl : s.sc with
  | none =>
    simp [scStep, createIfAbsent, exec, hl] at h
    subst h; simp
  | some v =>
    simp [scStep, createIfAbsent, exec, hl] at h
    subst h; simp [hl]

theorem drc_fix (s : Store) (h : s.drc.isSome = true) :
    evalOk drcStep s = (s, .ok) ∧ ∀ x ∈ statesOk drcStep s, x = s := by
  cases hl : s.drc with
  | none => simp [hl] at h
  | some v => simp [drcStep, createIfAbsent, statesOk, exec, hl]

theorem drc_establishes (s t : Store) (h : evalOk drcStep s = (t, .ok)) :
    t.drc.isSome = true ∧ t.secrets = s.secrets ∧ t.pkgs = s.pkgs ∧ t.crds = s.crds ∧ t.whcs = s.whcs ∧ t.lock = s.lock ∧ t.sc = s.sc := by
  cases hl : s.drc with
  | none =>
    simp [drcStep, createIfAbsent, exec, hl] at h
    subst h; simp
  | some v =>
    simp [drcStep, createIfAbsent, exec, hl] at h
    subst h; simp [hl]

end Xp.C20

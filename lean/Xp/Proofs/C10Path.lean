import Xp.Model.C10
/-
Helper lemmas for C10: Paved.setValue never indexes out of range (the `panic` branch of the
model's setIn is unreachable from an object root), shape preservation.
-/
namespace Xp.C10
open V (lookup setKey eraseKey)

/-- a value is ready for segment `nx` when an array it holds is long enough for the index -/
def ready (c : V) : Seg → Prop
  | .index n => ∀ l, c = .arr l → n < l.length
  | .field _ => True

theorem ready_fresh (nx : Seg) : ready (fresh nx) nx := by
  cases nx with
  | field k => trivial
  | index n =>
    intro l h
    simp only [fresh, V.arr.injEq] at h
    subst h
    simp

theorem ready_grow (c : V) (nx : Seg) : ready (grow c nx) nx := by
  cases nx with
  | field k => trivial
  | index n =>
    intro l h
    cases c with
    | arr l0 =>
      simp only [grow] at h
      split at h
      · rename_i hlt
        simp only [V.arr.injEq] at h
        subst h
        exact hlt
      · simp only [V.arr.injEq] at h
        subst h
        simp only [List.length_append, List.length_replicate]
        omega
    | null => simp [grow] at h
    | bool b => simp [grow] at h
    | num i => simp [grow] at h
    | flt r => simp [grow] at h
    | str s => simp [grow] at h
    | obj m => simp [grow] at h

theorem ready_prepField (m : List (String × V)) (k : String) (nx : Seg) : ready (prepField m k nx) nx := by
  unfold prepField
  split
  · exact ready_fresh nx
  · exact ready_grow _ nx

theorem ready_prepElem (e : V) (nx : Seg) : ready (prepElem e nx) nx := by
  unfold prepElem
  split
  · exact ready_fresh nx
  · exact ready_grow _ nx

/-- setIn never reaches the out-of-range branch when the value is ready for the first segment -/
theorem setIn_no_panic (segs : List Seg) : ∀ (it v : V),
    (∀ nx rest, segs = nx :: rest → ready it nx) → setIn it segs v ≠ .error .panic := by
  induction segs with
  | nil => intro it v _; simp [setIn]
  | cons s rest ih =>
    intro it v hr
    have hready := hr s rest rfl
    cases s with
    | field k =>
      unfold setIn
      split
      · rename_i m
        split
        · simp
        · rename_i nx rest'
          have := ih (prepField m k nx) v (by
            intro nx' rest'' h
            simp only [List.cons.injEq] at h
            rw [← h.1]
            exact ready_prepField m k nx)
          split
          · simp
          · rename_i e he
            intro h
            simp only [Except.error.injEq] at h
            subst h
            exact this he
      · simp
    | index n =>
      unfold setIn
      split
      · rename_i l
        have hlt : n < l.length := hready l rfl
        simp only [hlt, if_true]
        split
        · simp
        · rename_i nx rest'
          have := ih (prepElem (l.getD n .null) nx) v (by
            intro nx' rest'' h
            simp only [List.cons.injEq] at h
            rw [← h.1]
            exact ready_prepElem _ nx)
          split
          · simp
          · rename_i e he
            intro h
            simp only [Except.error.injEq] at h
            subst h
            exact this he
      · simp

theorem ready_obj (m : List (String × V)) (nx : Seg) : ready (.obj m) nx := by
  cases nx with
  | field k => trivial
  | index n => intro l h; cases h

theorem setIn_obj_no_panic (m : List (String × V)) (segs : List Seg) (v : V) :
    setIn (.obj m) segs v ≠ .error .panic :=
  setIn_no_panic segs (.obj m) v (fun nx _ _ => ready_obj m nx)

/-- setIn keeps an object an object -/
theorem setIn_obj_shape (m : List (String × V)) (segs : List Seg) (v r : V)
    (h : setIn (.obj m) segs v = .ok r) : ∃ m', r = .obj m' := by
  cases segs with
  | nil => simp only [setIn, Except.ok.injEq] at h; exact ⟨m, h.symm⟩
  | cons s rest =>
    cases s with
    | field k =>
      unfold setIn at h
      simp only at h
      split at h
      · simp only [Except.ok.injEq] at h; exact ⟨_, h.symm⟩
      · split at h
        · simp only [Except.ok.injEq] at h; exact ⟨_, h.symm⟩
        · cases h
    | index n =>
      simp [setIn] at h

theorem setValue_obj_no_panic (m : List (String × V)) (segs : List Seg) (v : V) :
    setValue (.obj m) segs v ≠ .error .panic := by
  unfold setValue
  split
  · simp
  · split
    · simp
    · exact setIn_obj_no_panic m segs _

end Xp.C10

namespace Xp.C10
open V (lookup setKey eraseKey)

theorem lookup_setKey_self' (k : String) (v : V) (l : List (String × V)) : lookup k (setKey k v l) = some v := by
  induction l with
  | nil => simp [setKey, lookup]
  | cons x xs ih =>
    obtain ⟨k', v'⟩ := x
    unfold setKey
    split
    · simp [lookup]
    · simp [lookup, *]

/-- Reading back the path that was just written yields the written value. -/
theorem getIn_setIn (segs : List Seg) : ∀ (it v r : V), segs ≠ [] → setIn it segs v = .ok r → getIn r segs = .ok v := by
  induction segs with
  | nil => intro it v r h; exact absurd rfl h
  | cons s rest ih =>
    intro it v r _ hset
    cases s with
    | field k =>
      unfold setIn at hset
      split at hset
      · rename_i m
        split at hset
        · simp only [Except.ok.injEq] at hset
          subst hset
          simp [getIn, stepGet, lookup_setKey_self']
        · rename_i nx rest'
          split at hset
          · rename_i c' hc
            simp only [Except.ok.injEq] at hset
            subst hset
            have := ih _ v c' (by simp) hc
            simp only [getIn, stepGet, lookup_setKey_self']
            exact this
          · cases hset
      · cases hset
    | index n =>
      unfold setIn at hset
      split at hset
      · rename_i l
        split at hset
        · rename_i hlt
          split at hset
          · simp only [Except.ok.injEq] at hset
            subst hset
            simp [getIn, stepGet, hlt]
          · rename_i nx rest'
            split at hset
            · rename_i c' hc
              simp only [Except.ok.injEq] at hset
              subst hset
              have := ih _ v c' (by simp) hc
              simp only [getIn, stepGet, List.getElem?_set_self hlt]
              exact this
            · cases hset
        · cases hset
      · cases hset

theorem lookup_setKey_ne' (k k' : String) (v : V) (l : List (String × V)) (h : k ≠ k') :
    lookup k' (setKey k v l) = lookup k' l := by
  induction l with
  | nil => simp [setKey, lookup, h]
  | cons x xs ih =>
    obtain ⟨k0, v0⟩ := x
    unfold setKey
    split
    · rename_i hk
      simp only [lookup]
      have : ¬ (k0 = k') := by rw [hk]; exact h
      simp [this, h]
    · simp only [lookup]
      split
      · rfl
      · exact ih

/-- Field paths are identified segment by segment, by exact key: writing below `pre.k` leaves
whatever is read through `pre.k'` (k' ≠ k – a key that is a prefix of k, a case variant, …)
untouched. `pre` is a common prefix of field segments. -/
theorem getIn_setIn_sibling (k k' : String) (hk : k ≠ k') (rest qs : List Seg) :
    ∀ (pre : List String) (it v r : V),
      setIn it (pre.map Seg.field ++ Seg.field k :: rest) v = .ok r →
      getIn r (pre.map Seg.field ++ Seg.field k' :: qs) = getIn it (pre.map Seg.field ++ Seg.field k' :: qs) := by
  intro pre
  induction pre with
  | nil =>
    intro it v r hset
    simp only [List.map_nil, List.nil_append] at hset ⊢
    unfold setIn at hset
    split at hset
    · rename_i m
      split at hset
      · simp only [Except.ok.injEq] at hset
        subst hset
        simp [getIn, stepGet, lookup_setKey_ne' k k' _ m hk]
      · split at hset
        · simp only [Except.ok.injEq] at hset
          subst hset
          simp [getIn, stepGet, lookup_setKey_ne' k k' _ m hk]
        · cases hset
    · cases hset
  | cons k0 pre ih =>
    intro it v r hset
    simp only [List.map_cons, List.cons_append] at hset ⊢
    unfold setIn at hset
    split at hset
    · rename_i m
      split at hset
      · rename_i hnil
        cases pre <;> simp at hnil
      · rename_i nx rest' hrest
        split at hset
        · rename_i c' hc
          simp only [Except.ok.injEq] at hset
          subst hset
          have hih := ih _ v c' hc
          -- the next segment of both paths is a field: nothing grows, a missing key gives an empty object
          have hnx : ∃ kk, nx = Seg.field kk := by
            cases pre with
            | nil => simp only [List.map_nil, List.nil_append, List.cons.injEq] at hrest; exact ⟨k, hrest.1.symm⟩
            | cons p ps => simp only [List.map_cons, List.cons_append, List.cons.injEq] at hrest; exact ⟨p, hrest.1.symm⟩
          obtain ⟨kk, hkk⟩ := hnx
          simp only [getIn, stepGet, lookup_setKey_self']
          rw [hih]
          unfold prepField
          cases hl : lookup k0 m with
          | none =>
            simp only [hkk, fresh]
            cases pre with
            | nil => simp [getIn, stepGet, lookup]
            | cons p ps => simp [getIn, stepGet, lookup]
          | some c => simp [hkk, grow]
        · cases hset
    · cases hset

end Xp.C10

import Xp.Model.C17ResF
import Xp.Proofs.C17Env
/-
C17: Resolve with a missing Lock / a failing call. Without faults it is `resolveI`; a run that
ends without error ran `resolveTail` on a lock one of its Gets returned.
-/
namespace Xp.C17

theorem failAt_none (k : Nat) : failAt none k = none := rfl

theorem removeSelf_of_no_name : ∀ (l : List Pkg) (name : String),
    l.any (fun lp => lp.name == name) = false → removeSelf l name = l
  | [], _, _ => rfl
  | p :: ps, name, h => by
    simp only [List.any_cons, Bool.or_eq_false_iff] at h
    unfold removeSelf
    rw [h.1]
    simp only [Bool.false_eq_true, if_false]
    rw [removeSelf_of_no_name ps name h.2]

theorem tailF_nofault (o : Oracle) (upg : Bool) (self : Pkg) (env : Interf) (l1 : List Pkg) (d : Dag) (imp : List Dep) (k : Nat) :
    tailF o upg self env none l1 d imp k = (resolveTailI false o upg self l1 d imp env.upd).lift := by
  unfold tailF resolveTailI
  by_cases hp : l1.any (fun lp => lp.name == self.name) = true
  · simp [hp]
  · simp only [hp, failAt_none, Bool.false_eq_true, if_false]
    cases env.upd with
    | none => rfl
    | some w => rfl

theorem refreshF_nofault (o : Oracle) (upg : Bool) (self : Pkg) (env : Interf) (stored : List Pkg) (k : Nat) :
    refreshF o upg self env none stored k =
      (match init o upg (env.refresh.getD stored) with
       | .error _ => (⟨self.deps.length, 0, 0, .initDag, env.refresh.getD stored⟩ : ResOut)
       | .ok (d, implied) => resolveTailI false o upg self (env.refresh.getD stored) d implied env.upd).lift := by
  unfold refreshF
  simp only [failAt_none]
  cases init o upg (env.refresh.getD stored) with
  | error e => rfl
  | ok r => obtain ⟨d, imp⟩ := r; exact tailF_nofault ..

/-- without a failing call, `restF` is `resolveI`, whatever the call numbering -/
theorem restF_nofault (o : Oracle) (upg : Bool) (self : Pkg) (env : Interf) (l : List Pkg) (k : Nat) :
    restF o upg self env none l k = (resolveI false o upg l self env).lift := by
  unfold restF resolveI
  cases hi : init o upg l with
  | error e => rfl
  | ok r =>
    obtain ⟨d0, imp0⟩ := r
    simp only []
    by_cases hm : l.any (movedEntry self) = true
    · simp only [hm, if_true, failAt_none]
      by_cases hn : (env.rmGet.getD l).any (fun lp => lp.name == self.name) = true
      · simp only [hn, if_true]
        cases env.rmUpd with
        | some w => rfl
        | none => exact refreshF_nofault ..
      · have hn' : (env.rmGet.getD l).any (fun lp => lp.name == self.name) = false := by simpa using hn
        simp only [hn', Bool.false_eq_true, if_false]
        rw [removeSelf_of_no_name _ _ hn']
        exact refreshF_nofault ..
    · simp only [hm, Bool.false_eq_true, if_false]
      exact tailF_nofault ..

/-! ### a run that ends without error ran `resolveTail` on a lock it read -/

theorem tailF_ok {o : Oracle} {upg : Bool} {self : Pkg} {env : Interf} {f : Option Fault} {l1 : List Pkg} {d : Dag}
    {imp : List Dep} {k : Nat} (h : (tailF o upg self env f l1 d imp k).err = .res .none) :
    tailF o upg self env f l1 d imp k = (resolveTail o upg self l1 d imp).lift := by
  unfold tailF at h ⊢
  by_cases hp : l1.any (fun lp => lp.name == self.name) = true
  · simp [hp]
  · simp only [hp, Bool.false_eq_true, if_false] at h ⊢
    cases hf : failAt f k with
    | some c => rw [hf] at h; simp at h
    | none =>
      rw [hf] at h
      simp only [] at h ⊢
      cases hu : env.upd with
      | some w => rw [hu] at h; simp at h
      | none => rfl

theorem refreshF_ok {o : Oracle} {upg : Bool} {self : Pkg} {env : Interf} {f : Option Fault} {stored : List Pkg} {k : Nat}
    (h : (refreshF o upg self env f stored k).err = .res .none) :
    ∃ d imp, init o upg (env.refresh.getD stored) = .ok (d, imp) ∧
      refreshF o upg self env f stored k = (resolveTail o upg self (env.refresh.getD stored) d imp).lift := by
  unfold refreshF at h ⊢
  cases hf : failAt f k with
  | some c => rw [hf] at h; simp at h
  | none =>
    rw [hf] at h
    simp only [] at h ⊢
    cases hi : init o upg (env.refresh.getD stored) with
    | error e => rw [hi] at h; simp at h
    | ok r =>
      obtain ⟨d, imp⟩ := r
      rw [hi] at h
      simp only [] at h ⊢
      exact ⟨d, imp, rfl, tailF_ok h⟩

theorem restF_ok {o : Oracle} {upg : Bool} {self : Pkg} {env : Interf} {f : Option Fault} {l : List Pkg} {k : Nat}
    (h : (restF o upg self env f l k).err = .res .none) :
    ∃ l1 d imp, (l1 = l ∨ l1 = env.refresh.getD (removeSelf (env.rmGet.getD l) self.name) ∨ l1 = env.refresh.getD (env.rmGet.getD l)) ∧
      init o upg l1 = .ok (d, imp) ∧ restF o upg self env f l k = (resolveTail o upg self l1 d imp).lift := by
  unfold restF at h ⊢
  cases hi : init o upg l with
  | error e => rw [hi] at h; simp at h
  | ok r =>
    obtain ⟨d0, imp0⟩ := r
    rw [hi] at h
    simp only [] at h ⊢
    by_cases hm : l.any (movedEntry self) = true
    · simp only [hm, if_true] at h ⊢
      cases hf : failAt f k with
      | some c =>
        rw [hf] at h
        simp only [] at h ⊢
        by_cases hc : c = .notFound
        · simp only [hc, if_true] at h ⊢
          obtain ⟨d, imp, h1, h2⟩ := refreshF_ok h
          exact ⟨_, d, imp, Or.inr (Or.inr rfl), h1, h2⟩
        · simp [hc] at h
      | none =>
        rw [hf] at h
        simp only [] at h ⊢
        by_cases hn : (env.rmGet.getD l).any (fun lp => lp.name == self.name) = true
        · simp only [hn, if_true] at h ⊢
          cases hf1 : failAt f (k + 1) with
          | some c => rw [hf1] at h; simp at h
          | none =>
            rw [hf1] at h
            simp only [] at h ⊢
            cases hu : env.rmUpd with
            | some w => rw [hu] at h; simp at h
            | none =>
              rw [hu] at h
              simp only [] at h ⊢
              obtain ⟨d, imp, h1, h2⟩ := refreshF_ok h
              exact ⟨_, d, imp, Or.inr (Or.inl rfl), h1, h2⟩
        · simp only [hn, Bool.false_eq_true, if_false] at h ⊢
          obtain ⟨d, imp, h1, h2⟩ := refreshF_ok h
          exact ⟨_, d, imp, Or.inr (Or.inr rfl), h1, h2⟩
    · simp only [hm, Bool.false_eq_true, if_false] at h ⊢
      exact ⟨l, d0, imp0, Or.inl rfl, hi, tailF_ok h⟩

theorem resolveF_ok {o : Oracle} {upg : Bool} {lock : Option (List Pkg)} {self : Pkg} {env : Interf} {f : Option Fault}
    (h : (resolveF o upg lock self env f).err = .res .none) :
    ∃ l1 d imp, l1 ∈ readsF lock self env ∧ init o upg l1 = .ok (d, imp) ∧
      resolveF o upg lock self env f = (resolveTail o upg self l1 d imp).lift := by
  have key : ∀ (l : List Pkg) (k : Nat), lock.getD [] = l → (restF o upg self env f l k).err = .res .none →
      ∃ l1 d imp, l1 ∈ readsF lock self env ∧ init o upg l1 = .ok (d, imp) ∧
        restF o upg self env f l k = (resolveTail o upg self l1 d imp).lift := by
    intro l k hl hr
    obtain ⟨l1, d, imp, hmem, hi, he⟩ := restF_ok hr
    refine ⟨l1, d, imp, ?_, hi, he⟩
    unfold readsF
    rw [hl]
    rcases hmem with h1 | h1 | h1 <;> simp [h1]
  unfold resolveF at h ⊢
  cases hf0 : failAt f 0 with
  | some c =>
    rw [hf0] at h
    simp only [] at h ⊢
    by_cases hc : c = .notFound
    · simp only [hc, if_true] at h ⊢
      cases hf1 : failAt f 1 with
      | some c1 => rw [hf1] at h; simp at h
      | none =>
        rw [hf1] at h
        cases lock with
        | some l => simp at h
        | none => simp only [] at h ⊢; exact key [] 2 rfl h
    · simp [hc] at h
  | none =>
    rw [hf0] at h
    cases lock with
    | none =>
      simp only [] at h ⊢
      cases hf1 : failAt f 1 with
      | some c1 => rw [hf1] at h; simp at h
      | none => rw [hf1] at h; simp only [] at h ⊢; exact key [] 2 rfl h
    | some l => simp only [] at h ⊢; exact key l 1 rfl h

end Xp.C17

import Xp.Proofs.C16Validate
/-
C16: what the real writes of Establish / ReleaseObjects can do to the store,
as a reflexive-transitive relation on object lists.
-/
namespace Xp.C16

/-! ### a generic "evolves" relation -/

/-- `l'` arises from `l` by replacing objects `o` by `o'` with `Q o o'` (same key)
and by adding objects with fresh keys that satisfy `C`; nothing disappears. -/
structure Evolves (Q : Obj → Obj → Prop) (C : Obj → Prop) (l l' : List Obj) : Prop where
  fwd : ∀ o ∈ l, ∃ o' ∈ l', o'.key = o.key ∧ (o' = o ∨ Q o o')
  bwd : ∀ o' ∈ l', (∃ o ∈ l, o.key = o'.key ∧ (o' = o ∨ Q o o')) ∨ ((∀ o ∈ l, o.key ≠ o'.key) ∧ C o')

theorem Evolves.refl (Q : Obj → Obj → Prop) (C : Obj → Prop) (l : List Obj) : Evolves Q C l l :=
  ⟨fun o h => ⟨o, h, rfl, Or.inl rfl⟩, fun o h => Or.inl ⟨o, h, rfl, Or.inl rfl⟩⟩

theorem Evolves.trans {Q : Obj → Obj → Prop} {C : Obj → Prop} {l l' l'' : List Obj}
    (hQ : ∀ a b c, Q a b → Q b c → Q a c) (hC : ∀ a b, C a → Q a b → C b)
    (h1 : Evolves Q C l l') (h2 : Evolves Q C l' l'') : Evolves Q C l l'' := by
  constructor
  · intro o ho
    obtain ⟨o', ho', hk', hr'⟩ := h1.fwd o ho
    obtain ⟨o'', ho'', hk'', hr''⟩ := h2.fwd o' ho'
    refine ⟨o'', ho'', hk''.trans hk', ?_⟩
    rcases hr' with e | q
    · subst e; exact hr''
    · rcases hr'' with e | q'
      · subst e; exact Or.inr q
      · exact Or.inr (hQ _ _ _ q q')
  · intro o'' ho''
    rcases h2.bwd o'' ho'' with ⟨o', ho', hk', hr'⟩ | ⟨hnew, hc⟩
    · rcases h1.bwd o' ho' with ⟨o, ho, hk, hr⟩ | ⟨hnew, hc⟩
      · refine Or.inl ⟨o, ho, hk.trans hk', ?_⟩
        rcases hr with e | q
        · subst e; exact hr'
        · rcases hr' with e | q'
          · subst e; exact Or.inr q
          · exact Or.inr (hQ _ _ _ q q')
      · refine Or.inr ⟨fun o ho e => hnew o ho (e.trans hk'.symm), ?_⟩
        rcases hr' with e | q'
        · subst e; exact hc
        · exact hC _ _ hc q'
    · refine Or.inr ⟨fun o ho e => ?_, hc⟩
      obtain ⟨o', ho', hk', _⟩ := h1.fwd o ho
      exact hnew o' ho' (hk'.trans e)

theorem Evolves.mono {Q Q' : Obj → Obj → Prop} {C C' : Obj → Prop} {l l' : List Obj}
    (hQ : ∀ a b, Q a b → Q' a b) (hC : ∀ a, C a → C' a) (h : Evolves Q C l l') : Evolves Q' C' l l' := by
  constructor
  · intro o ho
    obtain ⟨o', ho', hk, hr⟩ := h.fwd o ho
    exact ⟨o', ho', hk, hr.imp id (hQ _ _)⟩
  · intro o' ho'
    rcases h.bwd o' ho' with ⟨o, ho, hk, hr⟩ | ⟨hn, hc⟩
    · exact Or.inl ⟨o, ho, hk, hr.imp id (hQ _ _)⟩
    · exact Or.inr ⟨hn, hC _ hc⟩

/-- no two stored objects share a key (object names are unique in the API server) -/
def KeysUnique (l : List Obj) : Prop := ∀ x ∈ l, ∀ y ∈ l, x.key = y.key → x = y

theorem evolves_append (Q : Obj → Obj → Prop) (C : Obj → Prop) (l : List Obj) (n : Obj)
    (hnew : ∀ o ∈ l, o.key ≠ n.key) (hc : C n) : Evolves Q C l (l ++ [n]) := by
  constructor
  · intro o ho
    exact ⟨o, List.mem_append_left _ ho, rfl, Or.inl rfl⟩
  · intro o' ho'
    rcases List.mem_append.mp ho' with h | h
    · exact Or.inl ⟨o', h, rfl, Or.inl rfl⟩
    · simp at h; subst h
      exact Or.inr ⟨hnew, hc⟩

theorem evolves_replace (Q : Obj → Obj → Prop) (C : Obj → Prop) (l : List Obj) (c n : Obj)
    (hu : KeysUnique l) (hc : c ∈ l) (hk : n.key = c.key) (hq : Q c n) :
    Evolves Q C l (l.map fun x => if x.key = n.key then n else x) := by
  constructor
  · intro o ho
    by_cases e : o.key = n.key
    · have : o = c := hu o ho c hc (e.trans hk)
      subst this
      exact ⟨n, List.mem_map.mpr ⟨o, ho, by simp [e]⟩, hk, Or.inr hq⟩
    · exact ⟨o, List.mem_map.mpr ⟨o, ho, by simp [e]⟩, rfl, Or.inl rfl⟩
  · intro o' ho'
    obtain ⟨x, hx, hx'⟩ := List.mem_map.mp ho'
    by_cases e : x.key = n.key
    · simp only [e, if_true] at hx'
      subst hx'
      have : x = c := hu x hx c hc (e.trans hk)
      subst this
      exact Or.inl ⟨x, hx, e, Or.inr hq⟩
    · simp only [e, if_false] at hx'
      subst hx'
      exact Or.inl ⟨x, hx, rfl, Or.inl rfl⟩

theorem keysUnique_append (l : List Obj) (n : Obj) (hu : KeysUnique l) (hnew : ∀ o ∈ l, o.key ≠ n.key) :
    KeysUnique (l ++ [n]) := by
  intro x hx y hy e
  rcases List.mem_append.mp hx with hx1 | hx1 <;> rcases List.mem_append.mp hy with hy1 | hy1
  · exact hu x hx1 y hy1 e
  · have hy2 : y = n := by simpa using hy1
    rw [hy2] at e; exact absurd e (hnew x hx1)
  · have hx2 : x = n := by simpa using hx1
    rw [hx2] at e; exact absurd e.symm (hnew y hy1)
  · have hx2 : x = n := by simpa using hx1
    have hy2 : y = n := by simpa using hy1
    rw [hx2, hy2]

theorem keysUnique_replace (l : List Obj) (n : Obj) (hu : KeysUnique l) :
    KeysUnique (l.map fun x => if x.key = n.key then n else x) := by
  intro x hx y hy e
  obtain ⟨a, ha, hax⟩ := List.mem_map.mp hx
  obtain ⟨b, hb, hby⟩ := List.mem_map.mp hy
  by_cases ea : a.key = n.key <;> by_cases eb : b.key = n.key
  · simp only [ea, eb, if_true] at hax hby; rw [← hax, ← hby]
  · simp only [ea, eb, if_true, if_false] at hax hby
    subst hax hby
    exact absurd e.symm eb
  · simp only [ea, eb, if_true, if_false] at hax hby
    subst hax hby
    exact absurd e ea
  · simp only [ea, eb, if_false] at hax hby
    subst hax hby
    exact hu _ ha _ hb e

/-! ### what one real write does -/

/-- the store is well formed: unique keys and every resourceVersion already handed out -/
structure WF (s : Store) : Prop where
  keys : KeysUnique s.objs
  rvs : ∀ o ∈ s.objs, o.rv < s.nextRv

/-- since `s₀`, every object whose resourceVersion is older than `s₀.nextRv` is still the object of `s₀` -/
structure Frozen (s₀ s : Store) : Prop where
  le : s₀.nextRv ≤ s.nextRv
  old : ∀ c ∈ s.objs, c.rv < s₀.nextRv → c ∈ s₀.objs

theorem Frozen.refl (s : Store) : Frozen s s := ⟨Nat.le_refl _, fun _ h _ => h⟩

/-- effect of a write on the object list: nothing, one append, or one replacement -/
inductive Effect (s s' : Store) (o : Obj) : Prop where
  | nothing : s'.objs = s.objs → s'.nextRv = s.nextRv → Effect s s' o
  | created : s.get o.key = none → ctrlCount o.owners ≤ 1 →
      s'.objs = s.objs ++ [{ o with rv := s.nextRv }] → s'.nextRv = s.nextRv + 1 → Effect s s' o
  | replaced (c : Obj) : s.get o.key = some c → c.rv = o.rv → ctrlCount o.owners ≤ 1 →
      s'.objs = (s.objs.map fun x => if x.key = o.key then { o with rv := s.nextRv } else x) →
      s'.nextRv = s.nextRv + 1 → Effect s s' o

/-- a create does nothing or appends -/
inductive CEffect (s s' : Store) (o : Obj) : Prop where
  | nothing : s'.objs = s.objs → s'.nextRv = s.nextRv → CEffect s s' o
  | created : s.get o.key = none → ctrlCount o.owners ≤ 1 →
      s'.objs = s.objs ++ [{ o with rv := s.nextRv }] → s'.nextRv = s.nextRv + 1 → CEffect s s' o

/-- an update does nothing or replaces -/
inductive UEffect (s s' : Store) (o : Obj) : Prop where
  | nothing : s'.objs = s.objs → s'.nextRv = s.nextRv → UEffect s s' o
  | replaced (c : Obj) : s.get o.key = some c → c.rv = o.rv → ctrlCount o.owners ≤ 1 →
      s'.objs = (s.objs.map fun x => if x.key = o.key then { o with rv := s.nextRv } else x) →
      s'.nextRv = s.nextRv + 1 → UEffect s s' o

theorem CEffect.toEffect {s s' : Store} {o : Obj} (h : CEffect s s' o) : Effect s s' o := by
  cases h with
  | nothing a b => exact .nothing a b
  | created a b c d => exact .created a b c d

theorem UEffect.toEffect {s s' : Store} {o : Obj} (h : UEffect s s' o) : Effect s s' o := by
  cases h with
  | nothing a b => exact .nothing a b
  | replaced c a b d e f => exact .replaced c a b d e f

theorem apiCreate_effect (rejects : Obj → Bool) (dry : Bool) (oc : Outcome) (s : Store) (o : Obj) :
    CEffect s (apiCreate rejects dry oc s o).1 o := by
  unfold apiCreate
  split
  all_goals try (unfold logW; split <;> exact .nothing rfl rfl)
  · split
    · unfold logW; split <;> exact .nothing rfl rfl
    · rename_i h
      have ⟨h1, h2⟩ := checkCreate_none s o h
      split
      · exact .nothing rfl rfl
      · exact .created h1 h2 rfl rfl
  · split
    · unfold logW; split <;> exact .nothing rfl rfl
    · rename_i h
      have ⟨h1, h2⟩ := checkCreate_none s o h
      split
      · exact .nothing rfl rfl
      · exact .created h1 h2 rfl rfl

theorem replaceObj_effect (s : Store) (c o : Obj) (e : Option Err) (h1 : s.get o.key = some c)
    (h2 : c.rv = o.rv) (h3 : ctrlCount o.owners ≤ 1) : UEffect s (replaceObj s c o e) o := by
  unfold replaceObj
  split
  · exact .nothing rfl rfl
  · exact .replaced c h1 h2 h3 rfl rfl

theorem apiUpdate_effect (rejects : Obj → Bool) (dry : Bool) (oc : Outcome) (s : Store) (o : Obj) :
    UEffect s (apiUpdate rejects dry oc s o).1 o := by
  unfold apiUpdate
  split
  all_goals try (unfold logW; split <;> exact .nothing rfl rfl)
  · split
    · unfold logW; split <;> exact .nothing rfl rfl
    · rename_i c h
      have ⟨h1, h2, h3⟩ := checkUpdate_ok s o c h
      split
      · exact .nothing rfl rfl
      · exact replaceObj_effect s c o _ h1 h2 h3
  · split
    · unfold logW; split <;> exact .nothing rfl rfl
    · rename_i c h
      have ⟨h1, h2, h3⟩ := checkUpdate_ok s o c h
      split
      · exact .nothing rfl rfl
      · exact replaceObj_effect s c o _ h1 h2 h3

theorem get_none (s : Store) (k : String) (h : s.get k = none) : ∀ o ∈ s.objs, o.key ≠ k := by
  intro o ho
  unfold Store.get at h
  simpa using List.find?_eq_none.mp h o ho

/-- Every write keeps the store well formed and frozen w.r.t. any earlier store. -/
theorem effect_wf (s s' : Store) (o : Obj) (h : Effect s s' o) (hw : WF s) : WF s' := by
  cases h with
  | nothing h1 h2 => exact ⟨h1 ▸ hw.keys, fun x hx => by rw [h1] at hx; rw [h2]; exact hw.rvs x hx⟩
  | created h1 _ h3 h4 =>
    refine ⟨h3 ▸ keysUnique_append _ _ hw.keys (get_none s o.key h1), ?_⟩
    intro x hx
    rw [h3] at hx
    rw [h4]
    rcases List.mem_append.mp hx with hx | hx
    · exact Nat.lt_succ_of_lt (hw.rvs x hx)
    · simp at hx; subst hx; exact Nat.lt_succ_self _
  | replaced c _ _ _ h4 h5 =>
    refine ⟨h4 ▸ keysUnique_replace s.objs { o with rv := s.nextRv } hw.keys, ?_⟩
    intro x hx
    rw [h4] at hx
    rw [h5]
    obtain ⟨a, ha, hax⟩ := List.mem_map.mp hx
    split at hax
    · subst hax; exact Nat.lt_succ_self _
    · subst hax; exact Nat.lt_succ_of_lt (hw.rvs a ha)

theorem effect_frozen (s₀ s s' : Store) (o : Obj) (h : Effect s s' o) (hf : Frozen s₀ s) : Frozen s₀ s' := by
  cases h with
  | nothing h1 h2 => exact ⟨h2 ▸ hf.le, fun x hx => by rw [h1] at hx; exact hf.old x hx⟩
  | created _ _ h3 h4 =>
    refine ⟨by rw [h4]; exact Nat.le_succ_of_le hf.le, ?_⟩
    intro x hx hlt
    rw [h3] at hx
    rcases List.mem_append.mp hx with hx | hx
    · exact hf.old x hx hlt
    · simp at hx; subst hx
      have := hf.le
      simp only at hlt
      omega
  | replaced c _ _ _ h4 h5 =>
    refine ⟨by rw [h5]; exact Nat.le_succ_of_le hf.le, ?_⟩
    intro x hx hlt
    rw [h4] at hx
    obtain ⟨a, ha, hax⟩ := List.mem_map.mp hx
    split at hax
    · subst hax
      have := hf.le
      simp only at hlt
      omega
    · subst hax; exact hf.old a ha hlt

/-- One create, seen through `Evolves`: the created object must satisfy `C`. -/
theorem ceffect_evolves (Q : Obj → Obj → Prop) (C : Obj → Prop) (s s' : Store) (o : Obj)
    (h : CEffect s s' o)
    (hC : s.get o.key = none → ctrlCount o.owners ≤ 1 → C { o with rv := s.nextRv }) :
    Evolves Q C s.objs s'.objs := by
  cases h with
  | nothing h1 _ => rw [h1]; exact Evolves.refl _ _ _
  | created h1 h2 h3 _ =>
    rw [h3]
    exact evolves_append Q C _ _ (get_none s o.key h1) (hC h1 h2)

/-- One update, seen through `Evolves`: the replacement must satisfy `Q` w.r.t. the object it replaces. -/
theorem ueffect_evolves (Q : Obj → Obj → Prop) (C : Obj → Prop) (s s' : Store) (o : Obj)
    (h : UEffect s s' o) (hw : WF s)
    (hQ : ∀ c, s.get o.key = some c → c.rv = o.rv → ctrlCount o.owners ≤ 1 → Q c { o with rv := s.nextRv }) :
    Evolves Q C s.objs s'.objs := by
  cases h with
  | nothing h1 _ => rw [h1]; exact Evolves.refl _ _ _
  | replaced c h1 h2 h3 h4 _ =>
    rw [h4]
    exact evolves_replace Q C s.objs c { o with rv := s.nextRv } hw.keys (get_mem s _ c h1)
      (get_key s _ c h1).symm (hQ c h1 h2 h3)

end Xp.C16

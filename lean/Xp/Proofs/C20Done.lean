import Xp.Proofs.C20InstallFix
/-
C20 helper lemmas, part 12: the post-condition of every step (`StepDone`), that it
is a fixpoint of the step, that a completed step establishes it, and that later
steps of the initializer keep it – at every instant, under every fault plan.
-/
namespace Xp.C20
open Xp

variable {α β : Type}

/-- what a completed step leaves behind -/
def StepDone : Step → Store → Prop
  | .tls ca sv cl, s => TlsDone ca sv cl s
  | .crds ref d, s => CrdsDone ref d s
  | .whcs ref svc d, s => WhcsDone ref svc d s
  | .mig crd old, s => MigDone crd old s
  | .lock, s => s.lock.isSome = true
  | .install p c f, s => InstallDone p c f s
  | .sc _, s => s.sc.isSome = true
  | .drc, s => s.drc.isSome = true

/-- what a step needs in order to establish its post-condition: distinct declarations -/
def StepHyp : Step → Store → Prop
  | .crds _ d, _ => (objNames d.objs).Nodup
  | .whcs _ _ d, _ => (whcKeys d.objs).Nodup
  | .install p c f, s => InstallHyp p c f s
  | _, _ => True

theorem evalOk_withNonce (n : Nat) (p : P Res) (s : Store) :
    evalOk (withNonce n p) s = ((evalOk p s).1, ((evalOk p s).2, n)) := by
  unfold withNonce
  rw [evalOk_bind]; rfl

theorem statesOk_withNonce (n : Nat) (p : P Res) (s x : Store) :
    x ∈ statesOk (withNonce n p) s ↔ x ∈ statesOk p s := by
  unfold withNonce
  rw [statesOk_bind]
  constructor
  · rintro (h | h)
    · exact h
    · simp [statesOk] at h; subst h; exact end_mem_statesOk p s
  · exact Or.inl

theorem step_fix (g : Generator) (n : Nat) (st : Step) (s : Store) (h : StepDone st s) :
    evalOk (st.prog g n) s = (s, (.ok, n)) ∧ ∀ x ∈ statesOk (st.prog g n) s, x = s := by
  have wrap : ∀ p : P Res, (evalOk p s = (s, .ok) ∧ ∀ x ∈ statesOk p s, x = s) →
      evalOk (withNonce n p) s = (s, (.ok, n)) ∧ ∀ x ∈ statesOk (withNonce n p) s, x = s := by
    intro p ⟨h1, h2⟩
    refine ⟨by rw [evalOk_withNonce, h1], fun x hx => h2 x ((statesOk_withNonce n p s x).mp hx)⟩
  cases st with
  | tls ca sv cl => exact tls_fix g ca sv cl n s h
  | crds ref d => exact wrap _ (crds_fix ref d s h)
  | whcs ref svc d => exact wrap _ (whcs_fix ref svc d s h)
  | mig crd old => exact wrap _ (mig_fix crd old s h)
  | lock => exact wrap _ (lock_fix s h)
  | install p c f => exact wrap _ (install_fix p c f s h)
  | sc ns => exact wrap _ (sc_fix ns s h)
  | drc => exact wrap _ (drc_fix s h)

theorem step_establishes (g : Generator) (n n' : Nat) (st : Step) (s t : Store) (hyp : StepHyp st s)
    (h : evalOk (st.prog g n) s = (t, (.ok, n'))) : StepDone st t := by
  have unwrap : ∀ p : P Res, evalOk (withNonce n p) s = (t, (.ok, n')) → evalOk p s = (t, .ok) := by
    intro p hp
    rw [evalOk_withNonce] at hp
    simp only [Prod.mk.injEq] at hp
    exact Prod.ext hp.1 hp.2.1
  cases st with
  | tls ca sv cl => exact tls_establishes g ca sv cl n s t n' h
  | crds ref d => exact (crds_establishes ref d hyp s t (unwrap _ h)).1
  | whcs ref svc d => exact (whcs_establishes ref svc d hyp s t (unwrap _ h)).1
  | mig crd old => exact (mig_establishes crd old s t (unwrap _ h)).1
  | lock => exact (lock_establishes s t (unwrap _ h)).1
  | install p c f => exact (install_establishes p c f s t hyp (unwrap _ h)).1
  | sc ns => exact (sc_establishes ns s t (unwrap _ h)).1
  | drc => exact (drc_establishes s t (unwrap _ h)).1

/-! ### which later steps keep a post-condition -/

/-- `okAfter a b`: the post-condition of `a` is not disturbed by a later step `b` -/
def okAfter : Step → Step → Bool
  | .crds ref _, .tls ca _ _ => ref ≠ some ca
  | .crds _ _, .crds _ _ => false
  | .whcs ref _ _, .tls ca _ _ => ref ≠ ca
  | .whcs _ _ _, .whcs _ _ _ => false
  | .mig crd _, .mig crd' _ => crd ≠ crd'
  | .mig _ _, .crds _ _ => false
  | .install _ _ _, .install _ _ _ => false
  | _, _ => true

/-- the secret called `name` is only ever updated from a version without material -/
def SafeFor (name : String) : Req → Prop
  | .updateSecret old new => new.name = name → hasMaterial old = false
  | _ => True

theorem exec_safeFor {s : Store} {name : String} {sec : Secret} {r : Req}
    (h : findSecret s name = some sec) (hm : hasMaterial sec = true) (hq : SafeFor name r) :
    findSecret (exec s r).1 name = some sec := by
  by_cases hw : r.comp = some .secrets
  · cases r <;> simp [Req.comp] at hw
    case createSecret x =>
      simp only [exec]
      split
      · exact h
      · simp only [findSecret] at h ⊢; exact find_append_some _ _ _ _ h
    case updateSecret old new =>
      simp only [exec]
      split
      · exact h
      · rename_i cur hcur
        split
        · rename_i heq
          by_cases hn : name = new.name
          · exfalso
            subst hn
            rw [hcur] at h
            cases h
            subst heq
            rw [hq rfl] at hm
            cases hm
          · simp only [findSecret] at h ⊢
            rw [find_map_replace _ _ _ hn]; exact h
        · exact h
  · simp only [findSecret] at h ⊢
    rw [frame_secrets s r hw]; exact h

theorem bundleIs_safeFor {s : Store} {ref : Option String} {cb : Blob} {r : Req} (h : BundleIs ref cb s)
    (hq : ∀ x, ref = some x → SafeFor x r) : BundleIs ref cb (exec s r).1 := by
  cases ref with
  | none => exact h
  | some x =>
    obtain ⟨sec, h1, h2, h3⟩ := h
    refine ⟨sec, exec_safeFor h1 ?_ (hq x rfl), h2, h3⟩
    have : sec.crt ≠ .empty := h2 ▸ h3
    simp [hasMaterial, this]

/-- a CRD write that changes `stored` only -/
def StoredWrite (r : Req) : Prop := r.comp = some .crds → ∃ n vs, r = .patchCrdStored n vs

theorem crdFix_storedWrite {s : Store} {f : CrdFile} {cb : Blob} {r : Req} (h : CrdFix f cb s) (hq : StoredWrite r) :
    CrdFix f cb (exec s r).1 := by
  by_cases hw : r.comp = some .crds
  · obtain ⟨n, vs, rfl⟩ := hq hw
    obtain ⟨⟨c, hc⟩, hall⟩ := h
    simp only [exec]
    split
    · exact ⟨⟨c, hc⟩, hall⟩
    · have hc' := hc
      simp only [findCrd] at hc'
      refine ⟨⟨_, by simp only [findCrd]; exact find_map_some _ _ _ (fun x => by by_cases e : x.name = n <;> simp [e]) _ hc'⟩, ?_⟩
      intro c' hc'm hn
      simp only [List.mem_map] at hc'm
      obtain ⟨c0, hc0, e⟩ := hc'm
      by_cases h0 : c0.name = n
      · simp [h0] at e; subst e
        have := hall c0 hc0 (by simp at hn; exact h0.trans hn)
        simp only [patchCrdWith] at this ⊢
        cases c0; simp_all
      · simp [h0] at e; subst e; exact hall c0 hc0 hn
  · obtain ⟨⟨c, hc⟩, hall⟩ := h
    have e := frame_crds s r hw
    exact ⟨⟨c, by simp only [findCrd] at hc ⊢; rw [e]; exact hc⟩, fun c' hc' => hall c' (e ▸ hc')⟩

/-- the request class that keeps the post-condition of step `a` -/
def Keeps : Step → Req → Prop
  | .tls _ _ _, _ => True
  | .crds ref _, r => (∀ x, ref = some x → SafeFor x r) ∧ StoredWrite r
  | .whcs ref _ _, r => SafeFor ref r ∧ r.comp ≠ some .whcs
  | .mig crd _, r => r.comp = some .crds → ∃ n vs, r = .patchCrdStored n vs ∧ n ≠ crd
  | .install _ _ _, r => r.comp ≠ some .pkgs
  | _, _ => True

theorem exec_done {a : Step} {s : Store} {r : Req} (ha : ∀ ca sv cl, a ≠ .tls ca sv cl)
    (h : StepDone a s) (hq : Keeps a r) : StepDone a (exec s r).1 := by
  cases a with
  | tls ca sv cl => exact absurd rfl (ha ca sv cl)
  | crds ref d =>
    obtain ⟨cb, hb, hp, hobjs⟩ := h
    refine ⟨cb, bundleIs_safeFor hb hq.1, hp, ?_⟩
    intro o ho
    obtain ⟨f, e, hg, hfix⟩ := hobjs o ho
    exact ⟨f, e, hg, crdFix_storedWrite hfix hq.2⟩
  | whcs ref svc d =>
    obtain ⟨cb, hb, hp, hobjs⟩ := h
    refine ⟨cb, bundleIs_safeFor hb (fun x hx => by cases hx; exact hq.1), hp, ?_⟩
    intro o ho
    obtain ⟨f, e, ⟨w, hw⟩, hall⟩ := hobjs o ho
    have ew := frame_whcs s r hq.2
    exact ⟨f, e, ⟨w, by simp only [findWhc] at hw ⊢; rw [ew]; exact hw⟩, fun w' hw' => hall w' (ew ▸ hw')⟩
  | mig crd old =>
    by_cases hw : r.comp = some .crds
    · obtain ⟨n, vs, rfl, hne⟩ := hq hw
      simp only [StepDone, MigDone] at h ⊢
      simp only [exec]
      split
      · exact h
      · have hfind : ∀ (l : List Crd), (l.map fun c => if c.name = n then { c with stored := vs } else c).find? (fun c => decide (c.name = crd)) =
            l.find? (fun c => decide (c.name = crd)) := by
          intro l
          induction l with
          | nil => rfl
          | cons x xs ih =>
            simp only [List.map_cons, List.find?_cons]
            by_cases e : x.name = n
            · have : ¬ x.name = crd := fun e' => hne (e ▸ e')
              simp [e, this, hne, ih]
            · simp [e, ih]
        rcases h with h | ⟨c, hc, h⟩
        · left; simp only [findCrd] at h ⊢; rw [hfind]; exact h
        · right
          refine ⟨c, by simp only [findCrd] at hc ⊢; rw [hfind]; exact hc, ?_⟩
          rcases h with h | h
          · exact Or.inl h
          · right
            intro c' hc' hn
            simp only [List.mem_map] at hc'
            obtain ⟨c0, hc0, e⟩ := hc'
            by_cases h0 : c0.name = n
            · simp [h0] at e; subst e
              simp at hn; exact absurd hn hne
            · simp [h0] at e; subst e; exact h c0 hc0 hn
    · have e := frame_crds s r hw
      simp only [StepDone, MigDone, findCrd] at h ⊢
      rw [e]; exact h
  | lock =>
    simp only [StepDone] at h ⊢
    cases hl : s.lock with
    | none => simp [hl] at h
    | some v => simp [exec_lock_kept s r v hl]
  | install p c f =>
    have e := frame_pkgs s r hq
    obtain ⟨ps, cs, fs, h1, h2, h3, h4, h5, h6⟩ := h
    have hl : ∀ k, listing (exec s r).1 k = listing s k := fun k => by simp only [listing, e]
    refine ⟨ps, cs, fs, by rw [hl]; exact h1, by rw [hl]; exact h2, by rw [hl]; exact h3, ?_, ?_, ?_⟩ <;>
    · intro nr hnr
      first
        | obtain ⟨⟨q, hq'⟩, hall⟩ := h4 nr hnr
          exact ⟨⟨q, by simp only [findPkg] at hq' ⊢; rw [e]; exact hq'⟩, fun q' hq'' => hall q' (e ▸ hq'')⟩
        | obtain ⟨⟨q, hq'⟩, hall⟩ := h5 nr hnr
          exact ⟨⟨q, by simp only [findPkg] at hq' ⊢; rw [e]; exact hq'⟩, fun q' hq'' => hall q' (e ▸ hq'')⟩
        | obtain ⟨⟨q, hq'⟩, hall⟩ := h6 nr hnr
          exact ⟨⟨q, by simp only [findPkg] at hq' ⊢; rw [e]; exact hq'⟩, fun q' hq'' => hall q' (e ▸ hq'')⟩
  | sc ns =>
    simp only [StepDone] at h ⊢
    cases hl : s.sc with
    | none => simp [hl] at h
    | some v => simp [exec_sc_kept s r v hl]
  | drc =>
    simp only [StepDone] at h ⊢
    cases hl : s.drc with
    | none => simp [hl] at h
    | some v => simp [exec_drc_kept s r v hl]


/-! ### every later step of the initializer is in the class -/

def stepComp : Step → Comp
  | .tls _ _ _ => .secrets
  | .crds _ _ => .crds
  | .whcs _ _ _ => .whcs
  | .mig _ _ => .crds
  | .lock => .lock
  | .install _ _ _ => .pkgs
  | .sc _ => .sc
  | .drc => .drc

theorem step_issues_only (g : Generator) (n : Nat) (st : Step) : Issues (Only (stepComp st)) (st.prog g n) := by
  cases st with
  | tls ca sv cl => exact tlsStep_issues_only g ca sv cl n
  | crds ref d => exact withNonce_issues n (crdsStep_issues ref d)
  | whcs ref svc d => exact withNonce_issues n (whcsStep_issues ref svc d)
  | mig crd old => exact withNonce_issues n (migrateStep_issues crd old)
  | lock => exact withNonce_issues n lockStep_issues
  | install p c f => exact withNonce_issues n (installWith_issues _ p c f)
  | sc ns => exact withNonce_issues n (scStep_issues ns)
  | drc => exact withNonce_issues n drcStep_issues

/-- the migrator's CRD writes are status patches of its own CRD -/
def MigClass (crd : String) (r : Req) : Prop :=
  Only .crds r ∧ (r.comp = some .crds → ∃ vs, r = .patchCrdStored crd vs)

theorem migrateStep_issues_class (crd old : String) : Issues (MigClass crd) (migrateStep crd old) := by
  have hok : ∀ tag x, Issues (MigClass crd) (okOr tag x) := fun tag x => okOr_issues _ tag x
  unfold migrateStep
  refine .call _ _ (by simp [MigClass, Only, Req.comp]) ?_
  intro x; split
  · exact .ret _
  · split
    · refine .call _ _ (by simp [MigClass, Only, Req.comp]) ?_
      intro y; split
      · refine issues_bind ?_ ?_
        · unfold migrateCrs
          refine issues_forEach ?_ _
          intro cr
          exact .call _ _ (by simp [MigClass, Only, Req.comp]) (fun z => hok _ z)
        · intro r; split
          · unfold migrateFinish
            refine .call _ _ (by simp [MigClass, Only, Req.comp]) ?_
            intro z; split
            · refine .call _ _ (by simp [MigClass, Only, Req.comp]) ?_
              intro w; split
              · split <;> exact .ret _
              · exact .ret _
            · exact .ret _
          · exact .ret _
      · exact .ret _
    · exact .ret _
  · exact .ret _

theorem safeReq_safeFor {ca x : String} (hx : x ≠ ca) (r : Req) (h : SafeReq [ca] r) : SafeFor x r := by
  cases r <;> simp [SafeFor]
  case updateSecret old new =>
    intro hn
    exact h.2 (by simp [hn, hx])

theorem only_safeFor {c : Comp} (hc : c ≠ .secrets) (x : String) (r : Req) (h : Only c r) : SafeFor x r := by
  cases r <;> simp [SafeFor, Only, Req.comp] at h ⊢
  exact absurd h.symm hc

theorem step_issues_keeps (g : Generator) (n : Nat) (a b : Step) (ha : ∀ ca sv cl, a ≠ .tls ca sv cl)
    (h : okAfter a b = true) : Issues (Keeps a) (b.prog g n) := by
  -- a TLS step as the later step
  have tlsCase : ∀ ca sv cl, b = .tls ca sv cl → (∀ x, (∃ d, a = .crds (some x) d) ∨ (∃ svc d, a = .whcs x svc d) → x ≠ ca) →
      Issues (Keeps a) (b.prog g n) := by
    intro ca sv cl hb hne
    subst hb
    have h1 := tlsStep_issues g ca (cas := [ca]) (by simp) sv cl n
    have h2 := tlsStep_issues_only g ca sv cl n
    refine issues_mono ?_ (issues_and h1 h2)
    intro r ⟨r1, r2⟩
    have hcomp : ∀ c, c ≠ Comp.secrets → r.comp ≠ some c := by
      intro c hc e
      rcases r2 with e' | e' <;> rw [e'] at e
      · cases e
      · cases e; exact hc rfl
    cases a with
    | tls ca' sv' cl' => exact absurd rfl (ha ca' sv' cl')
    | crds ref d =>
      refine ⟨?_, fun e => absurd e (hcomp _ (by decide))⟩
      intro x hx; subst hx
      exact safeReq_safeFor (hne x (Or.inl ⟨d, rfl⟩)) r r1
    | whcs ref svc d => exact ⟨safeReq_safeFor (hne ref (Or.inr ⟨svc, d, rfl⟩)) r r1, hcomp _ (by decide)⟩
    | mig crd old => exact fun e => absurd e (hcomp _ (by decide))
    | lock => trivial
    | install p c f => exact hcomp _ (by decide)
    | sc ns => trivial
    | drc => trivial
  -- a later step that writes one component `c` which is neither secrets nor the one `a` depends on
  have onlyCase : ∀ c, c ≠ Comp.secrets → (∀ ref d, a = .crds ref d → c ≠ .crds) → (∀ ref svc d, a = .whcs ref svc d → c ≠ .whcs) →
      (∀ crd old, a = .mig crd old → c ≠ .crds) → (∀ p cc f, a = .install p cc f → c ≠ .pkgs) →
      Issues (Only c) (b.prog g n) → Issues (Keeps a) (b.prog g n) := by
    intro c hsec h1 h2 h3 h4 hi
    refine issues_mono ?_ hi
    intro r hr
    have hcomp : ∀ c', c' ≠ c → r.comp ≠ some c' := by
      intro c' hc e
      rcases hr with e' | e' <;> rw [e'] at e
      · cases e
      · cases e; exact hc rfl
    cases a with
    | tls ca' sv' cl' => exact absurd rfl (ha ca' sv' cl')
    | crds ref d => exact ⟨fun x _ => only_safeFor hsec x r hr, fun e => absurd e (hcomp _ (Ne.symm (h1 ref d rfl)))⟩
    | whcs ref svc d => exact ⟨only_safeFor hsec ref r hr, hcomp _ (Ne.symm (h2 ref svc d rfl))⟩
    | mig crd old => exact fun e => absurd e (hcomp _ (Ne.symm (h3 crd old rfl)))
    | lock => trivial
    | install p cc f => exact hcomp _ (Ne.symm (h4 p cc f rfl))
    | sc ns => trivial
    | drc => trivial
  cases b with
  | tls ca sv cl =>
    refine tlsCase ca sv cl rfl ?_
    intro x hx
    rcases hx with ⟨d, rfl⟩ | ⟨svc, d, rfl⟩
    · intro e; subst e; simp [okAfter] at h
    · intro e; subst e; simp [okAfter] at h
  | crds ref d =>
    refine onlyCase .crds (by decide) ?_ (fun _ _ _ _ => by decide) ?_ (fun _ _ _ _ => by decide) (step_issues_only g n (.crds ref d))
    · intro ref' d' e; subst e; simp [okAfter] at h
    · intro crd old e; subst e; simp [okAfter] at h
  | whcs ref svc d =>
    refine onlyCase .whcs (by decide) (fun _ _ _ => by decide) ?_ (fun _ _ _ => by decide) (fun _ _ _ _ => by decide) (step_issues_only g n (.whcs ref svc d))
    intro ref' svc' d' e; subst e; simp [okAfter] at h
  | mig crd' old' =>
    -- writes CRD status only
    have hi := withNonce_issues n (migrateStep_issues_class crd' old')
    refine issues_mono ?_ hi
    intro r ⟨hr, hs⟩
    have hcomp : ∀ c', c' ≠ Comp.crds → r.comp ≠ some c' := by
      intro c' hc e
      rcases hr with e' | e' <;> rw [e'] at e
      · cases e
      · cases e; exact hc rfl
    cases a with
    | tls ca' sv' cl' => exact absurd rfl (ha ca' sv' cl')
    | crds ref d =>
      exact ⟨fun x _ => only_safeFor (by decide) x r hr, fun e => by obtain ⟨vs, e'⟩ := hs e; exact ⟨crd', vs, e'⟩⟩
    | whcs ref svc d => exact ⟨only_safeFor (by decide) ref r hr, hcomp _ (by decide)⟩
    | mig crd old =>
      intro e
      obtain ⟨vs, e'⟩ := hs e
      refine ⟨crd', vs, e', ?_⟩
      intro e''; subst e''; simp [okAfter] at h
    | lock => trivial
    | install p cc f => exact hcomp _ (by decide)
    | sc ns => trivial
    | drc => trivial
  | lock =>
    exact onlyCase .lock (by decide) (fun _ _ _ => by decide) (fun _ _ _ _ => by decide) (fun _ _ _ => by decide)
      (fun _ _ _ _ => by decide) (step_issues_only g n .lock)
  | install p c f =>
    refine onlyCase .pkgs (by decide) (fun _ _ _ => by decide) (fun _ _ _ _ => by decide) (fun _ _ _ => by decide) ?_
      (step_issues_only g n (.install p c f))
    intro p' c' f' e; subst e; simp [okAfter] at h
  | sc ns =>
    exact onlyCase .sc (by decide) (fun _ _ _ => by decide) (fun _ _ _ _ => by decide) (fun _ _ _ => by decide)
      (fun _ _ _ _ => by decide) (step_issues_only g n (.sc ns))
  | drc =>
    exact onlyCase .drc (by decide) (fun _ _ _ => by decide) (fun _ _ _ _ => by decide) (fun _ _ _ => by decide)
      (fun _ _ _ _ => by decide) (step_issues_only g n .drc)

/-- The post-condition of a completed step survives every later step of the initializer that is
`okAfter` it – at every instant and under every fault plan (errors, conflicts, crashes). -/
theorem done_stable (g : Generator) (n : Nat) (a b : Step) (h : okAfter a b = true) (plan : Plan) (k : Nat)
    (s : Store) (hd : StepDone a s) : ∀ x ∈ reach sem plan k (b.prog g n) s, StepDone a x := by
  by_cases ha : ∃ ca sv cl, a = .tls ca sv cl
  · obtain ⟨ca, sv, cl, rfl⟩ := ha
    exact tlsDone_stable g n b ca sv cl plan k s hd
  · have ha' : ∀ ca sv cl, a ≠ .tls ca sv cl := fun ca sv cl e => ha ⟨ca, sv, cl, e⟩
    exact reach_inv sem (StepDone a) (Keeps a) (fun _ _ hi hq => exec_done ha' hi hq) plan k _
      (step_issues_keeps g n a b ha' h) s hd

end Xp.C20

import Xp.Proofs.C19Step
/-
C19 helper lemmas, part 5: every API call of a reconcile, at every program
counter, preserves the store invariant and re-establishes the thread invariant.
-/
namespace Xp.C19

def ExecOk (s : Store) (t : Thread) : Prop :=
  StoreInv (s.exec t.request).1 ∧ StepEff s t.uname (s.exec t.request).1 ∧
  AfterOk (s.exec t.request).1 t.uname (t.next s.usages (s.exec t.request).2)

theorem base_of_get {s : Store} (hs : StoreInv s) {nm : String} {x : Usage} (hg : s.getU nm = some x)
    (pc : Pc) (orv : Nat) (ord : Bool) (seen : List Usage) : ThreadBase s ⟨nm, pc, x, orv, ord, seen⟩ := by
  have hx := getU_some hg
  refine ⟨hx.2, hs.rvU x hx.1, ?_, ?_, hs.usageOk hx.1⟩
  · intro y hy hyn _
    exact hs.usageUniq y hy x hx.1 (hyn.trans hx.2.symm)
  · intro hf
    exact ⟨x, hx.1, hx.2, hf, rfl, fun h => h⟩

theorem exec_getUsage {s : Store} (hs : StoreInv s) (nm : String) (u : Usage) (orv : Nat) (ord : Bool)
    (seen : List Usage) : ExecOk s ⟨nm, .getUsage, u, orv, ord, seen⟩ := by
  refine ⟨hs, .same _ (.refl s), ?_⟩
  simp only [Thread.request, Store.exec]
  cases hg : s.getU nm with
  | none => simp only [Thread.next]; trivial
  | some x =>
    simp only [Thread.next]
    exact afterGet_ok (base_of_get hs hg .getUsage x.rv x.ready seen)

theorem exec_ofList {s : Store} (hs : StoreInv s) (nm : String) (u : Usage) (orv : Nat) (ord : Bool)
    (seen : List Usage) (hb : ThreadBase s ⟨nm, .ofList, u, orv, ord, seen⟩) (hf : u.of.name = "") :
    ExecOk s ⟨nm, .ofList, u, orv, ord, seen⟩ := by
  refine ⟨hs, .same _ (.refl s), ?_⟩
  simp only [Thread.request, Store.exec, Thread.next]
  split
  · next n hn =>
    obtain ⟨r, hr, hrn⟩ := resolvePick_mem hn
    have hr' := (List.mem_filter.mp hr).1
    exact goto_ok hb (.ofUpdate n) ⟨hf, hrn ▸ hs.resName r hr'⟩
  · trivial

theorem exec_ofUpdate {s : Store} (hs : StoreInv s) (nm pick : String) (u : Usage) (orv : Nat) (ord : Bool)
    (seen : List Usage) (hb : ThreadBase s ⟨nm, .ofUpdate pick, u, orv, ord, seen⟩)
    (hf : u.of.name = "" ∧ pick ≠ "") : ExecOk s ⟨nm, .ofUpdate pick, u, orv, ord, seen⟩ := by
  have key := own_updU hs hb { u with of := { u.of with name := pick } } hb.name rfl hb.ok.delFin
    ⟨hb.ok.delFin, fun _ => hf.2, hb.ok.readyBy, hb.ok.owned⟩
  refine ⟨key.1, key.2.1, ?_⟩
  have h3 := key.2.2
  simp only [Thread.request, Store.exec, Thread.next] at h3 ⊢
  generalize (s.updU { u with of := { u.of with name := pick } }).2 = resp at h3 ⊢
  generalize (s.updU { u with of := { u.of with name := pick } }).1 = s' at h3 ⊢
  cases resp with
  | usage n =>
    obtain ⟨hb', hof, _⟩ := h3 n rfl
    exact afterOf_ok hb' (by rw [hof]; exact hf.2)
  | _ => trivial

theorem updU_born (s : Store) (u : Usage) : (s.updU u).1.born = s.born := by
  unfold Store.updU
  split
  · rfl
  · split
    · rfl
    · split
      · rfl
      · split <;> rfl

theorem updR_born (s : Store) (r : Res) : (s.updR r).1.born = s.born := by
  unfold Store.updR
  split
  · rfl
  · split
    · rfl
    · split <;> rfl

theorem ThreadBase.congr {s : Store} {t t' : Thread} (h : ThreadBase s t) (hn : t'.uname = t.uname) (hu : t'.u = t.u) :
    ThreadBase s t' := by
  refine ⟨?_, ?_, ?_, ?_, ?_⟩
  · rw [hn, hu]; exact h.name
  · rw [hu]; exact h.rvb
  · rw [hn, hu]; exact h.same
  · rw [hn, hu]; exact h.hold
  · rw [hu]; exact h.ok

theorem mem_addOwnerRef (os : List OwnerRef) (r : OwnerRef) : r ∈ addOwnerRef os r := by
  induction os with
  | nil => simp [addOwnerRef]
  | cons o os ih =>
    unfold addOwnerRef
    split
    · exact List.mem_cons_self
    · exact List.mem_cons_of_mem _ ih

theorem exec_byList {s : Store} (hs : StoreInv s) (nm : String) (u : Usage) (orv : Nat) (ord : Bool)
    (seen : List Usage) (hb : ThreadBase s ⟨nm, .byList, u, orv, ord, seen⟩)
    (hf : u.of.name ≠ "" ∧ ∀ b, u.by_ = some b → b.name = "") : ExecOk s ⟨nm, .byList, u, orv, ord, seen⟩ := by
  unfold ExecOk
  simp only [Thread.request]
  cases hby : u.by_ with
  | none =>
    simp only [Store.exec, Thread.next]
    refine ⟨hs, .same _ (.refl s), ?_⟩
    split
    · next n hn =>
      obtain ⟨r, hr, hrn⟩ := resolvePick_mem hn
      have hr' := (List.mem_filter.mp hr).1
      exact goto_ok hb (.byUpdate n) ⟨hf.1, hrn ▸ hs.resName r hr', hf.2⟩
    · trivial
  | some b =>
    simp only [Store.exec, Thread.next]
    refine ⟨hs, .same _ (.refl s), ?_⟩
    split
    · next n hn =>
      obtain ⟨r, hr, hrn⟩ := resolvePick_mem hn
      have hr' := (List.mem_filter.mp hr).1
      exact goto_ok hb (.byUpdate n) ⟨hf.1, hrn ▸ hs.resName r hr', hf.2⟩
    · trivial

theorem exec_byUpdate {s : Store} (hs : StoreInv s) (nm pick : String) (u : Usage) (orv : Nat) (ord : Bool)
    (seen : List Usage) (hb : ThreadBase s ⟨nm, .byUpdate pick, u, orv, ord, seen⟩)
    (hf : u.of.name ≠ "" ∧ pick ≠ "" ∧ ∀ b, u.by_ = some b → b.name = "") :
    ExecOk s ⟨nm, .byUpdate pick, u, orv, ord, seen⟩ := by
  have hnr : u.ready = true → u.by_ = none := by
    intro hr
    cases hu : u.by_ with
    | none => rfl
    | some b => exact absurd (hf.2.2 b hu) (hb.ok.readyBy hr b hu)
  have key := own_updU hs hb { u with by_ := u.by_.map fun b => { b with name := pick } } hb.name rfl hb.ok.delFin
    ⟨hb.ok.delFin, hb.ok.readyOf,
     fun hr b hbb => by simp [Usage.onto, hnr hr] at hbb,
     fun hr b hbb => by simp [Usage.onto, hnr hr] at hbb⟩
  refine ⟨key.1, key.2.1, ?_⟩
  have h3 := key.2.2
  simp only [Thread.request, Store.exec, Thread.next] at h3 ⊢
  generalize (s.updU { u with by_ := u.by_.map fun b => { b with name := pick } }).2 = resp at h3 ⊢
  generalize (s.updU { u with by_ := u.by_.map fun b => { b with name := pick } }).1 = s' at h3 ⊢
  cases resp with
  | usage n =>
    obtain ⟨hb', hof, hby, _⟩ := h3 n rfl
    refine afterResolve_ok hb' ⟨by rw [hof]; exact hf.1, ?_⟩
    intro b hbb
    simp only [] at hbb
    rw [hby] at hbb
    simp only [Option.map_eq_some_iff] at hbb
    obtain ⟨b0, _, rfl⟩ := hbb
    exact hf.2.1
  | _ => trivial

theorem exec_dGetUsing {s : Store} (hs : StoreInv s) (nm : String) (u : Usage) (orv : Nat) (ord : Bool)
    (seen : List Usage) (hb : ThreadBase s ⟨nm, .dGetUsing, u, orv, ord, seen⟩)
    (hf : u.deleting = true ∧ u.of.name ≠ "") : ExecOk s ⟨nm, .dGetUsing, u, orv, ord, seen⟩ := by
  unfold ExecOk
  simp only [Thread.request]
  cases u.by_ with
  | none =>
    simp only [Store.exec]
    refine ⟨hs, .same _ (.refl s), ?_⟩
    cases s.getR "" "" "" with
    | none => simp only [Thread.next]; exact goto_ok hb .dGetUsed hf
    | some r => simp only [Thread.next]; trivial
  | some b =>
    simp only [Store.exec]
    refine ⟨hs, .same _ (.refl s), ?_⟩
    cases s.getR (groupOf b.av) b.kind b.name with
    | none => simp only [Thread.next]; exact goto_ok hb .dGetUsed hf
    | some r => simp only [Thread.next]; trivial

theorem exec_dGetUsed {s : Store} (hs : StoreInv s) (nm : String) (u : Usage) (orv : Nat) (ord : Bool)
    (seen : List Usage) (hb : ThreadBase s ⟨nm, .dGetUsed, u, orv, ord, seen⟩)
    (hf : u.deleting = true ∧ u.of.name ≠ "") : ExecOk s ⟨nm, .dGetUsed, u, orv, ord, seen⟩ := by
  refine ⟨hs, .same _ (.refl s), ?_⟩
  simp only [Thread.request, Store.exec]
  cases hg : s.getR (groupOf u.of.av) u.of.kind u.of.name with
  | none => simp only [Thread.next]; exact afterUnlabel_ok hb hf
  | some r =>
    simp only [Thread.next]
    have hr := getR_some hg
    exact goto_ok hb (.dList r) ⟨hf.1, hf.2, hr.2⟩

theorem exec_dList {s : Store} (hs : StoreInv s) (nm : String) (used : Res) (u : Usage) (orv : Nat) (ord : Bool)
    (seen : List Usage) (hb : ThreadBase s ⟨nm, .dList used, u, orv, ord, seen⟩)
    (hf : u.deleting = true ∧ u.of.name ≠ "" ∧ usedKey used u) : ExecOk s ⟨nm, .dList used, u, orv, ord, seen⟩ := by
  refine ⟨hs, .same _ (.refl s), ?_⟩
  simp only [Thread.request, Store.exec, Thread.next]
  split
  · next hlt =>
    have hb' : ThreadBase s ⟨nm, .dList used, u, orv, ord, s.usages⟩ := hb.congr rfl rfl
    refine goto_ok hb' (.dUnlabel used) ⟨hf.1, hf.2.1, hf.2.2, ?_, ?_⟩
    · intro y hy hyi
      obtain ⟨x, hx, hxn, _, hxo, _⟩ := hb.hold (hb.ok.delFin hf.1)
      have hxi : x.indexedBy (indexValue u.of.av u.of.kind u.of.name) = true := by
        simp only [Usage.indexedBy_iff]
        simp only at hxo
        rw [hxo]; exact ⟨hf.2.1, rfl⟩
      have := countU_lt_two hlt hy hx hyi hxi
      rw [this]; exact hxn
    · obtain ⟨x, hx, hxn, _, hxo, hxd⟩ := hb.hold (hb.ok.delFin hf.1)
      exact ⟨x, hx, hxn, hxd hf.1, hxo⟩
  · exact afterUnlabel_ok hb ⟨hf.1, hf.2.1⟩

theorem exec_dUnlabel {s : Store} (hs : StoreInv s) (nm : String) (used : Res) (u : Usage) (orv : Nat) (ord : Bool)
    (seen : List Usage) (hb : ThreadBase s ⟨nm, .dUnlabel used, u, orv, ord, seen⟩)
    (hf : u.deleting = true ∧ u.of.name ≠ "") : ExecOk s ⟨nm, .dUnlabel used, u, orv, ord, seen⟩ := by
  have key := own_updR hs { used with inUse := false }
  refine ⟨key.1, .same _ key.2, ?_⟩
  simp only [Thread.request, Store.exec]
  have hb' := hb.sameUsages key.2
  generalize (s.updR { used with inUse := false }).1 = s' at hb' ⊢
  generalize (s.updR { used with inUse := false }).2 = resp
  cases resp with
  | res r => simp only [Thread.next]; exact afterUnlabel_ok hb' hf
  | err e => cases e <;> (simp only [Thread.next]; trivial)
  | _ => simp only [Thread.next]; trivial

theorem exec_dRemoveFin {s : Store} (hs : StoreInv s) (nm : String) (u : Usage) (orv : Nat) (ord : Bool)
    (seen : List Usage) (hb : ThreadBase s ⟨nm, .dRemoveFin, u, orv, ord, seen⟩)
    (hf : u.deleting = true ∧ u.of.name ≠ "") : ExecOk s ⟨nm, .dRemoveFin, u, orv, ord, seen⟩ := by
  have key := own_updU_final hs hb { u with fin := false } hb.name rfl hf.1 rfl
  refine ⟨key.1, key.2, ?_⟩
  simp only [Thread.request, Store.exec]
  generalize (s.updU { u with fin := false }).1 = s'
  generalize (s.updU { u with fin := false }).2 = resp
  cases resp with
  | err e => cases e <;> (simp only [Thread.next]; trivial)
  | _ => simp only [Thread.next]; trivial

theorem exec_addFin {s : Store} (hs : StoreInv s) (nm : String) (u : Usage) (orv : Nat) (ord : Bool)
    (seen : List Usage) (hb : ThreadBase s ⟨nm, .addFin, u, orv, ord, seen⟩)
    (hf : u.deleting = false ∧ u.of.name ≠ "" ∧ byResolved u) : ExecOk s ⟨nm, .addFin, u, orv, ord, seen⟩ := by
  have key := own_updU hs hb { u with fin := true } hb.name rfl (fun _ => rfl)
    ⟨fun _ => rfl, hb.ok.readyOf, hb.ok.readyBy, hb.ok.owned⟩
  refine ⟨key.1, key.2.1, ?_⟩
  have h3 := key.2.2
  simp only [Thread.request, Store.exec] at h3 ⊢
  generalize (s.updU { u with fin := true }).2 = resp at h3 ⊢
  generalize (s.updU { u with fin := true }).1 = s' at h3 ⊢
  cases resp with
  | usage n =>
    obtain ⟨hb', hof, hby, hfin, _, hdel, _⟩ := h3 n rfl
    simp only [Thread.next]
    refine afterFin_ok hb' ⟨by rw [hdel]; exact hf.1, by rw [hof]; exact hf.2.1, ?_, hfin⟩
    intro b hbb; simp only [] at hbb; rw [hby] at hbb; exact hf.2.2 b hbb
  | err e => cases e <;> (simp only [Thread.next]; trivial)
  | _ => simp only [Thread.next]; trivial

theorem exec_addDetails {s : Store} (hs : StoreInv s) (nm : String) (u : Usage) (orv : Nat) (ord : Bool)
    (seen : List Usage) (hb : ThreadBase s ⟨nm, .addDetails, u, orv, ord, seen⟩)
    (hf : u.deleting = false ∧ u.of.name ≠ "" ∧ byResolved u ∧ u.fin = true) :
    ExecOk s ⟨nm, .addDetails, u, orv, ord, seen⟩ := by
  have key := own_updU hs hb { u with details := some (detailsOf u) } hb.name rfl (fun _ => hf.2.2.2)
    ⟨hb.ok.delFin, hb.ok.readyOf, hb.ok.readyBy, hb.ok.owned⟩
  refine ⟨key.1, key.2.1, ?_⟩
  have h3 := key.2.2
  simp only [Thread.request, Store.exec] at h3 ⊢
  generalize (s.updU { u with details := some (detailsOf u) }).2 = resp at h3 ⊢
  generalize (s.updU { u with details := some (detailsOf u) }).1 = s' at h3 ⊢
  cases resp with
  | usage n =>
    obtain ⟨hb', hof, hby, hfin, _, hdel, _⟩ := h3 n rfl
    simp only [Thread.next]
    refine goto_ok hb' .getUsed ⟨by rw [hdel]; exact hf.1, by rw [hof]; exact hf.2.1, ?_, by rw [hfin]; exact hf.2.2.2⟩
    intro b hbb; simp only [] at hbb; rw [hby] at hbb; exact hf.2.2.1 b hbb
  | err e => cases e <;> (simp only [Thread.next]; trivial)
  | _ => simp only [Thread.next]; trivial

theorem exec_getUsed {s : Store} (hs : StoreInv s) (nm : String) (u : Usage) (orv : Nat) (ord : Bool)
    (seen : List Usage) (hb : ThreadBase s ⟨nm, .getUsed, u, orv, ord, seen⟩)
    (hf : u.deleting = false ∧ u.of.name ≠ "" ∧ byResolved u ∧ u.fin = true) :
    ExecOk s ⟨nm, .getUsed, u, orv, ord, seen⟩ := by
  refine ⟨hs, .same _ (.refl s), ?_⟩
  simp only [Thread.request, Store.exec]
  cases hg : s.getR (groupOf u.of.av) u.of.kind u.of.name with
  | none => simp only [Thread.next]; trivial
  | some r =>
    simp only [Thread.next]
    have hr := getR_some hg
    split
    · exact goto_ok hb (.label r) ⟨hf.1, hf.2.1, hf.2.2.1, hf.2.2.2, hr.2⟩
    · exact afterLabel_ok hb hf

theorem exec_label {s : Store} (hs : StoreInv s) (nm : String) (used : Res) (u : Usage) (orv : Nat) (ord : Bool)
    (seen : List Usage) (hb : ThreadBase s ⟨nm, .label used, u, orv, ord, seen⟩)
    (hf : u.deleting = false ∧ u.of.name ≠ "" ∧ byResolved u ∧ u.fin = true) :
    ExecOk s ⟨nm, .label used, u, orv, ord, seen⟩ := by
  have key := own_updR hs { used with inUse := true }
  refine ⟨key.1, .same _ key.2, ?_⟩
  simp only [Thread.request, Store.exec]
  have hb' := hb.sameUsages key.2
  generalize (s.updR { used with inUse := true }).1 = s' at hb' ⊢
  generalize (s.updR { used with inUse := true }).2 = resp
  cases resp with
  | res r => simp only [Thread.next]; exact afterLabel_ok hb' hf
  | err e => cases e <;> (simp only [Thread.next]; trivial)
  | _ => simp only [Thread.next]; trivial

theorem exec_getUsing {s : Store} (hs : StoreInv s) (nm : String) (u : Usage) (orv : Nat) (ord : Bool)
    (seen : List Usage) (hb : ThreadBase s ⟨nm, .getUsing, u, orv, ord, seen⟩)
    (hf : u.deleting = false ∧ u.of.name ≠ "" ∧ byResolved u ∧ u.fin = true ∧ ∃ b, u.by_ = some b) :
    ExecOk s ⟨nm, .getUsing, u, orv, ord, seen⟩ := by
  obtain ⟨h1, h2, h3, h4, b, hby⟩ := hf
  unfold ExecOk
  simp only [Thread.request, hby, Store.exec]
  refine ⟨hs, .same _ (.refl s), ?_⟩
  cases hg : s.getR (groupOf b.av) b.kind b.name with
  | none => simp only [Thread.next]; trivial
  | some g =>
    have hr := getR_some hg
    have hborn : (g.uid, groupOf b.av, b.kind, b.name) ∈ s.born := by
      have := hs.born g hr.1
      rwa [hr.2.1, hr.2.2.1, hr.2.2.2] at this
    simp only [Thread.next]
    split
    · next o os hos =>
      split
      · next ho =>
        refine afterOwner_ok hb ⟨h1, h2, h3, h4, ?_⟩
        intro b' hb'
        change u.by_ = some b' at hb'
        rw [hby] at hb'; cases hb'
        refine ⟨o, by change o ∈ u.owners; rw [hos]; exact List.mem_cons_self, ?_⟩
        rw [ho]; exact hborn
      · exact goto_ok hb (.addOwner ⟨g.uid, false, g.kind, g.name⟩) ⟨h1, h2, h3, h4, b, hby, hborn⟩
    · exact goto_ok hb (.addOwner ⟨g.uid, false, g.kind, g.name⟩) ⟨h1, h2, h3, h4, b, hby, hborn⟩

theorem exec_addOwner {s : Store} (hs : StoreInv s) (nm : String) (ref : OwnerRef) (u : Usage) (orv : Nat) (ord : Bool)
    (seen : List Usage) (hb : ThreadBase s ⟨nm, .addOwner ref, u, orv, ord, seen⟩)
    (hf : u.deleting = false ∧ u.of.name ≠ "" ∧ byResolved u ∧ u.fin = true ∧
      ∃ b, u.by_ = some b ∧ (ref.uid, groupOf b.av, b.kind, b.name) ∈ s.born) :
    ExecOk s ⟨nm, .addOwner ref, u, orv, ord, seen⟩ := by
  obtain ⟨h1, h2, h3, h4, b, hby, hborn⟩ := hf
  have hown : ∀ b', u.by_ = some b' →
      ∃ o ∈ addOwnerRef u.owners ref, (o.uid, groupOf b'.av, b'.kind, b'.name) ∈ s.born := by
    intro b' hb'
    rw [hby] at hb'; cases hb'
    exact ⟨ref, mem_addOwnerRef _ _, hborn⟩
  have key := own_updU hs hb { u with owners := addOwnerRef u.owners ref } hb.name rfl (fun _ => h4)
    ⟨hb.ok.delFin, hb.ok.readyOf, hb.ok.readyBy, fun _ => hown⟩
  refine ⟨key.1, key.2.1, ?_⟩
  have h3' := key.2.2
  have hbn := updU_born s { u with owners := addOwnerRef u.owners ref }
  simp only [Thread.request, Store.exec] at h3' ⊢
  generalize (s.updU { u with owners := addOwnerRef u.owners ref }).2 = resp at h3' ⊢
  generalize (s.updU { u with owners := addOwnerRef u.owners ref }).1 = s' at h3' hbn ⊢
  cases resp with
  | usage n =>
    obtain ⟨hb', hof, hby', hfin, hown', hdel, _⟩ := h3' n rfl
    simp only [Thread.next]
    refine afterOwner_ok hb' ⟨by rw [hdel]; exact h1, by rw [hof]; exact h2, ?_, by rw [hfin]; exact h4, ?_⟩
    · intro b' hbb; simp only [] at hbb; rw [hby'] at hbb; exact h3 b' hbb
    · intro b' hbb
      simp only [] at hbb
      rw [hby'] at hbb
      obtain ⟨o, ho, hm⟩ := hown b' hbb
      refine ⟨o, by simp only; rw [hown']; exact ho, ?_⟩
      rw [hbn]; exact hm
  | err e => cases e <;> (simp only [Thread.next]; trivial)
  | _ => simp only [Thread.next]; trivial

theorem exec_status {s : Store} (hs : StoreInv s) (nm : String) (u : Usage) (orv : Nat) (ord : Bool)
    (seen : List Usage) (hb : ThreadBase s ⟨nm, .status, u, orv, ord, seen⟩)
    (hf : u.deleting = false ∧ u.of.name ≠ "" ∧ byResolved u ∧ u.fin = true ∧ ownerBorn s u) :
    ExecOk s ⟨nm, .status, u, orv, ord, seen⟩ := by
  have key := own_updStatus hs hb hf
  refine ⟨key.1, key.2, ?_⟩
  simp only [Thread.request, Store.exec]
  generalize (s.updStatus { u with ready := true }).1 = s'
  generalize (s.updStatus { u with ready := true }).2 = resp
  cases resp with
  | usage n => simp only [Thread.next]; trivial
  | _ => simp only [Thread.next]; trivial

/-- every API call of a reconcile preserves the invariants -/
theorem exec_ok {s : Store} (hs : StoreInv s) {t : Thread} (ht : TInv s t) : ExecOk s t := by
  obtain ⟨nm, pc, u, orv, ord, seen⟩ := t
  cases pc with
  | getUsage => exact exec_getUsage hs nm u orv ord seen
  | _ =>
    rcases ht with h | ⟨hb, hf⟩
    · cases h
    · first
      | exact exec_ofList hs nm u orv ord seen hb hf
      | exact exec_ofUpdate hs nm _ u orv ord seen hb hf
      | exact exec_byList hs nm u orv ord seen hb hf
      | exact exec_byUpdate hs nm _ u orv ord seen hb hf
      | exact exec_dGetUsing hs nm u orv ord seen hb hf
      | exact exec_dGetUsed hs nm u orv ord seen hb hf
      | exact exec_dList hs nm _ u orv ord seen hb hf
      | exact exec_dUnlabel hs nm _ u orv ord seen hb ⟨hf.1, hf.2.1⟩
      | exact exec_dRemoveFin hs nm u orv ord seen hb hf
      | exact exec_addFin hs nm u orv ord seen hb hf
      | exact exec_addDetails hs nm u orv ord seen hb hf
      | exact exec_getUsed hs nm u orv ord seen hb hf
      | exact exec_label hs nm _ u orv ord seen hb ⟨hf.1, hf.2.1, hf.2.2.1, hf.2.2.2.1⟩
      | exact exec_getUsing hs nm u orv ord seen hb hf
      | exact exec_addOwner hs nm _ u orv ord seen hb hf
      | exact exec_status hs nm u orv ord seen hb hf

end Xp.C19

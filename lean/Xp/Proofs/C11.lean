import Xp.Model.C11
/-
Helper lemmas for C11: association lists as Go maps (`lookup`/`setKey`/`setAll`),
the version loop, navigation inside the generated schema.
-/
namespace Xp.C11

/-! ### association lists -/

theorem lookup_setKey_self (k : String) (v : α) (m : List (String × α)) : lookup k (setKey k v m) = some v := by
  induction m with
  | nil => simp [setKey, lookup]
  | cons x xs ih =>
    obtain ⟨k', v'⟩ := x
    unfold setKey
    split
    · simp [lookup]
    · simp [lookup, *]

theorem lookup_setKey_ne (k k2 : String) (v : α) (h : k2 ≠ k) (m : List (String × α)) :
    lookup k2 (setKey k v m) = lookup k2 m := by
  induction m with
  | nil => simp [setKey, lookup, Ne.symm h]
  | cons x xs ih =>
    obtain ⟨k', v'⟩ := x
    unfold setKey
    split
    · rename_i h'; subst h'; simp [lookup, Ne.symm h]
    · simp [lookup, ih]

theorem lookup_eq_none_of_not_mem (k : String) (m : List (String × α)) (h : k ∉ keys m) : lookup k m = none := by
  induction m with
  | nil => rfl
  | cons x xs ih =>
    obtain ⟨k', v'⟩ := x
    simp only [keys, List.map_cons, List.mem_cons, not_or] at h
    have hne : ¬ k' = k := fun e => h.1 e.symm
    simp only [lookup, hne, if_false]
    exact ih h.2

theorem lookup_isSome_of_mem (k : String) (m : List (String × α)) (h : k ∈ keys m) : (lookup k m).isSome = true := by
  induction m with
  | nil => simp [keys] at h
  | cons x xs ih =>
    obtain ⟨k', v'⟩ := x
    simp only [keys, List.map_cons, List.mem_cons] at h
    by_cases hk : k' = k
    · simp [lookup, hk]
    · simp only [lookup, hk, if_false]
      rcases h with h | h
      · exact absurd h.symm hk
      · exact ih h

theorem mem_keys_of_lookup (k : String) (v : α) (m : List (String × α)) (h : lookup k m = some v) : k ∈ keys m := by
  by_cases hm : k ∈ keys m
  · exact hm
  · rw [lookup_eq_none_of_not_mem k m hm] at h; cases h

/-- the layering law of `for k, v := range kvs { m[k] = v }` for a table without duplicate keys:
a key of `kvs` gets the table's value, every other key keeps what `m` had. -/
theorem lookup_setAll (k : String) (m kvs : List (String × α)) (hnd : (keys kvs).Nodup) :
    lookup k (setAll m kvs) = ((lookup k kvs) <|> (lookup k m)) := by
  induction kvs generalizing m with
  | nil => simp [setAll, lookup]
  | cons x xs ih =>
    obtain ⟨k', v'⟩ := x
    simp only [keys, List.map_cons, List.nodup_cons] at hnd
    unfold setAll
    rw [ih _ hnd.2]
    by_cases hk : k' = k
    · subst hk
      have : lookup k' xs = none := lookup_eq_none_of_not_mem k' xs hnd.1
      simp [this, lookup, lookup_setKey_self]
    · have hk2 : k ≠ k' := fun e => hk e.symm
      simp [lookup, hk, lookup_setKey_ne k' k v' hk2]

theorem lookup_setAll_of_mem (k : String) (m kvs : List (String × α)) (hnd : (keys kvs).Nodup) (h : k ∈ keys kvs) :
    lookup k (setAll m kvs) = lookup k kvs := by
  rw [lookup_setAll k m kvs hnd]
  have := lookup_isSome_of_mem k kvs h
  cases hl : lookup k kvs with
  | none => rw [hl] at this; cases this
  | some v => rfl

theorem lookup_setAll_of_not_mem (k : String) (m kvs : List (String × α)) (hnd : (keys kvs).Nodup) (h : k ∉ keys kvs) :
    lookup k (setAll m kvs) = lookup k m := by
  rw [lookup_setAll k m kvs hnd, lookup_eq_none_of_not_mem k kvs h]; rfl

theorem keys_setKey_of_mem (k : String) (v : α) (m : List (String × α)) (h : k ∈ keys m) : keys (setKey k v m) = keys m := by
  induction m with
  | nil => simp [keys] at h
  | cons x xs ih =>
    obtain ⟨k', v'⟩ := x
    unfold setKey
    split
    · rename_i hk; simp [keys, hk]
    · rename_i hk
      simp only [keys, List.map_cons, List.mem_cons] at h
      rcases h with h | h
      · exact absurd h.symm hk
      · simp only [keys, List.map_cons, List.cons.injEq, true_and]; exact ih h

/-! ### the version loop -/

theorem genVersion_ok (vr : Version) (mx : Int) (cv : CrdVersion) (h : genVersion vr mx = .ok cv) :
    ∃ s, vr.schema = .ok s ∧ cv = mkVersion vr s mx := by
  unfold genVersion at h
  split at h
  · cases h
  · cases h
  · rename_i s hs; exact ⟨s, hs, by cases h; rfl⟩

/-- every CRD version is the decorated derivation of the XRD version at the same position -/
theorem genVersions_ok (vs : List Version) (mx : Int) (cols : List String) (mach : List (String × Schema))
    (cvs : List CrdVersion) (h : genVersions vs mx cols mach = .ok cvs) :
    Zip (fun vr cv => ∃ s, vr.schema = .ok s ∧ cv = decorate (mkVersion vr s mx) cols mach) vs cvs := by
  induction vs generalizing cvs with
  | nil => simp only [genVersions] at h; cases h; exact Zip.nil
  | cons vr rest ih =>
    simp only [genVersions] at h
    split at h
    · cases h
    · rename_i cv hcv
      split at h
      · cases h
      · rename_i cvs' hrest
        cases h
        obtain ⟨s, hs, rfl⟩ := genVersion_ok vr mx cv hcv
        exact Zip.cons ⟨s, hs, rfl⟩ (ih cvs' hrest)

/-- a version whose schema is missing or does not parse makes the whole derivation fail -/
theorem genVersions_error_of_bad (vs : List Version) (mx : Int) (cols : List String) (mach : List (String × Schema))
    (h : ∃ vr ∈ vs, ∀ s, vr.schema ≠ .ok s) : ∃ e, genVersions vs mx cols mach = .error e := by
  induction vs with
  | nil => obtain ⟨vr, hm, _⟩ := h; cases hm
  | cons v rest ih =>
    simp only [genVersions]
    cases hv : genVersion v mx with
    | error e => exact ⟨e, rfl⟩
    | ok cv =>
      obtain ⟨s, hs, _⟩ := genVersion_ok v mx cv hv
      have : ∃ vr ∈ rest, ∀ s, vr.schema ≠ .ok s := by
        obtain ⟨vr, hm, hb⟩ := h
        rcases List.mem_cons.mp hm with rfl | hm'
        · exact absurd hs (hb s)
        · exact ⟨vr, hm', hb⟩
      obtain ⟨e, he⟩ := ih this
      simp [he]

theorem forall2_mem_right {R : α → β → Prop} {l1 : List α} {l2 : List β} (h : Zip R l1 l2) :
    ∀ b ∈ l2, ∃ a ∈ l1, R a b := by
  induction h with
  | nil => intro b hb; cases hb
  | cons hr _ ih =>
    intro b hb
    rcases List.mem_cons.mp hb with rfl | hb'
    · exact ⟨_, List.mem_cons_self, hr⟩
    · obtain ⟨a, ha, hab⟩ := ih b hb'
      exact ⟨a, List.mem_cons_of_mem _ ha, hab⟩

theorem forall2_filter_length {f : α → Bool} {g : β → Bool} {l1 : List α} {l2 : List β}
    (h : Zip (fun a b => g b = f a) l1 l2) : (l2.filter g).length = (l1.filter f).length := by
  induction h with
  | nil => rfl
  | cons hr _ ih =>
    simp only [List.filter_cons, hr]
    split <;> simp [ih]

/-! ### navigation inside the generated schema (no fact about the tables is used) -/

theorem prop_setKey_self (root : Schema) (k : String) (v : Schema) (ps : List (String × Schema)) :
    prop { root with props := setKey k v ps } k = v := by
  simp [prop, lookup_setKey_self]

theorem genSchema_spec (s : Schema) (mx : Int) :
    prop (genSchema s mx) "spec" = genSpec Xp.Gen.xcrdBaseProps s := by
  simp only [prop, genSchema]
  rw [lookup_setKey_ne "status" "spec" _ (by decide), lookup_setKey_self]
  rfl

theorem genSchema_status (s : Schema) (mx : Int) :
    prop (genSchema s mx) "status" = genStatus Xp.Gen.xcrdBaseProps s := by
  simp only [prop, genSchema]
  rw [lookup_setKey_self]
  rfl

theorem genSchema_metadata (s : Schema) (mx : Int) :
    prop (genSchema s mx) "metadata" = genMetadata Xp.Gen.xcrdBaseProps s mx := by
  simp only [prop, genSchema]
  rw [lookup_setKey_ne "status" "metadata" _ (by decide), lookup_setKey_ne "spec" "metadata" _ (by decide), lookup_setKey_self]
  rfl

theorem genSchema_other (s : Schema) (mx : Int) (k : String) (h1 : k ≠ "status") (h2 : k ≠ "spec") (h3 : k ≠ "metadata") :
    lookup k (genSchema s mx).props = lookup k Xp.Gen.xcrdBaseProps.props := by
  simp only [genSchema]
  rw [lookup_setKey_ne _ _ _ h1, lookup_setKey_ne _ _ _ h2, lookup_setKey_ne _ _ _ h3]

theorem writeSpecProps_spec (root : Schema) (mach : List (String × Schema)) :
    prop (writeSpecProps root mach) "spec" =
      { prop root "spec" with props := setAll (prop root "spec").props mach } := by
  simp [writeSpecProps, prop, lookup_setKey_self]

theorem writeSpecProps_other (root : Schema) (mach : List (String × Schema)) (k : String) (h : k ≠ "spec") :
    lookup k (writeSpecProps root mach).props = lookup k root.props := by
  simp only [writeSpecProps]
  rw [lookup_setKey_ne _ _ _ h]

theorem writeSpecProps_prop_other (root : Schema) (mach : List (String × Schema)) (k : String) (h : k ≠ "spec") :
    prop (writeSpecProps root mach) k = prop root k := by
  simp only [prop, writeSpecProps_other root mach k h]

/-- the spec node of a derived CRD version -/
theorem decorate_spec (vr : Version) (s : Schema) (mx : Int) (cols : List String) (mach : List (String × Schema)) :
    prop (decorate (mkVersion vr s mx) cols mach).schema "spec" =
      { genSpec Xp.Gen.xcrdBaseProps s with props := setAll (genSpec Xp.Gen.xcrdBaseProps s).props mach } := by
  simp only [decorate, mkVersion, writeSpecProps_spec, genSchema_spec]

theorem decorate_status (vr : Version) (s : Schema) (mx : Int) (cols : List String) (mach : List (String × Schema)) :
    prop (decorate (mkVersion vr s mx) cols mach).schema "status" = genStatus Xp.Gen.xcrdBaseProps s := by
  simp only [decorate, mkVersion]
  rw [writeSpecProps_prop_other _ _ "status" (by decide), genSchema_status]

theorem decorate_metadata (vr : Version) (s : Schema) (mx : Int) (cols : List String) (mach : List (String × Schema)) :
    prop (decorate (mkVersion vr s mx) cols mach).schema "metadata" = genMetadata Xp.Gen.xcrdBaseProps s mx := by
  simp only [decorate, mkVersion]
  rw [writeSpecProps_prop_other _ _ "metadata" (by decide), genSchema_metadata]

/-! ### the machinery tables with the default policy applied -/

theorem keys_withDefault (key : String) (pol : Option String) (t : List (String × Schema)) (h : key ∈ keys t) :
    keys (withDefault key pol t) = keys t := by
  cases pol with
  | none => rfl
  | some p => simp only [withDefault]; exact keys_setKey_of_mem _ _ _ h

theorem lookup_withDefault_ne (key : String) (pol : Option String) (t : List (String × Schema)) (k : String) (h : k ≠ key) :
    lookup k (withDefault key pol t) = lookup k t := by
  cases pol with
  | none => rfl
  | some p => simp only [withDefault]; exact lookup_setKey_ne _ _ _ h _

theorem lookup_withDefault_self (key : String) (pol : Option String) (t : List (String × Schema)) (std : Schema)
    (h : lookup key t = some std) : lookup key (withDefault key pol t) = some (applyDefault pol std) := by
  cases pol with
  | none => simpa [withDefault, applyDefault] using h
  | some p => simp only [withDefault, lookup_setKey_self, h, Option.getD_some]

/-! ### forXR / forClaim unfolded -/

theorem forXR_ok (xrd : Xrd) (crd : Crd) (h : forXR xrd = .ok crd) :
    ∃ vs, genVersions xrd.versions Xp.Gen.xcrdMaxNameLengthXR Xp.Gen.xcrdPrinterColumnsXR (xrSpecMachinery xrd) = .ok vs ∧
      crd = { name := xrd.name, labels := crdLabels xrd, annotations := xrd.metaAnnotations, owners := [controllerRef xrd],
              scope := "Cluster", group := xrd.group,
              names := { xrd.names with categories := xrd.names.categories ++ [Xp.Gen.categoryComposite] },
              versions := vs, conversion := xrd.conversion } := by
  unfold forXR at h
  split at h
  · cases h
  · rename_i vs hvs; cases h; exact ⟨vs, hvs, rfl⟩

theorem forClaim_ok (xrd : Xrd) (crd : Crd) (h : forClaim xrd = .ok crd) :
    ∃ c vs, validateClaimNames xrd = .ok c ∧
      genVersions xrd.versions Xp.Gen.xcrdMaxNameLengthClaim Xp.Gen.xcrdPrinterColumnsClaim (claimSpecMachinery xrd) = .ok vs ∧
      crd = { name := c.plural ++ "." ++ xrd.group, labels := crdLabels xrd, annotations := xrd.metaAnnotations,
              owners := [controllerRef xrd], scope := "Namespaced", group := xrd.group,
              names := { c with categories := c.categories ++ [Xp.Gen.categoryClaim] },
              versions := vs, conversion := xrd.conversion } := by
  unfold forClaim at h
  split at h
  · cases h
  · rename_i c hc
    split at h
    · cases h
    · rename_i vs hvs; cases h; exact ⟨c, vs, hc, hvs, rfl⟩

/-- both derivations: every CRD version is the decorated derivation of the XRD version at the same position -/
theorem derive_versions (w : Which) (xrd : Xrd) (crd : Crd) (h : derive w xrd = .ok crd) :
    Zip (fun vr cv => ∃ s, vr.schema = .ok s ∧
          cv = decorate (mkVersion vr s (maxNameLengthOf w)) (columnsOf w) (machineryOf w xrd)) xrd.versions crd.versions := by
  cases w with
  | xr =>
    obtain ⟨vs, hvs, rfl⟩ := forXR_ok xrd crd h
    exact genVersions_ok _ _ _ _ _ hvs
  | claim =>
    obtain ⟨c, vs, _, hvs, rfl⟩ := forClaim_ok xrd crd h
    exact genVersions_ok _ _ _ _ _ hvs

theorem zip_imp {R S : α → β → Prop} {l1 : List α} {l2 : List β} (h : Zip R l1 l2) (f : ∀ a b, R a b → S a b) : Zip S l1 l2 := by
  induction h with
  | nil => exact Zip.nil
  | cons hr _ ih => exact Zip.cons (f _ _ hr) ih

/-- the claim names that pass validateClaimNames are the XRD's claim names, and none of the four
corresponding name fields collides -/
theorem validateClaimNames_ok (d : Xrd) (c : Names) (h : validateClaimNames d = .ok c) :
    d.claimNames = some c ∧ c.kind ≠ d.names.kind ∧ c.plural ≠ d.names.plural ∧
      ¬ (c.singular ≠ "" ∧ c.singular = d.names.singular) ∧ ¬ (c.listKind ≠ "" ∧ c.listKind = d.names.listKind) := by
  unfold validateClaimNames at h
  split at h
  · cases h
  · rename_i c' hc'
    split at h
    · cases h
    · split at h
      · cases h
      · split at h
        · cases h
        · split at h
          · cases h
          · cases h
            rename_i h1 h2 h3 h4
            exact ⟨hc', h1, h2, h3, h4⟩

/-! ### what is read of the author's schema -/

theorem genSchema_read (s : Schema) (mx : Int) : genSchema (readSchema s) mx = genSchema s mx := by
  have h1 : prop (readSchema s) "spec" = readSpec (prop s "spec") := rfl
  have h2 : prop (readSchema s) "status" = readStatus (prop s "status") := rfl
  have h3 : (prop (prop (readSchema s) "metadata") "name").maxLength = (prop (prop s "metadata") "name").maxLength := rfl
  have hs : genSpec Xp.Gen.xcrdBaseProps (readSchema s) = genSpec Xp.Gen.xcrdBaseProps s := by
    simp only [genSpec, h1]; rfl
  have ht : genStatus Xp.Gen.xcrdBaseProps (readSchema s) = genStatus Xp.Gen.xcrdBaseProps s := by
    simp only [genStatus, h2]; rfl
  have hm : genMetadata Xp.Gen.xcrdBaseProps (readSchema s) mx = genMetadata Xp.Gen.xcrdBaseProps s mx := by
    simp only [genMetadata, nameMaxLength, h3]
  simp only [genSchema, hs, ht, hm]; rfl

theorem genVersion_read (vr : Version) (mx : Int) : genVersion vr.read mx = genVersion vr mx := by
  unfold genVersion Version.read
  cases h : vr.schema with
  | absent => rfl
  | bad => rfl
  | ok s => simp only [mkVersion, genSchema_read]

theorem genVersions_read (vs : List Version) (mx : Int) (cols : List String) (mach : List (String × Schema)) :
    genVersions (vs.map Version.read) mx cols mach = genVersions vs mx cols mach := by
  induction vs with
  | nil => rfl
  | cons v rest ih => simp only [List.map_cons, genVersions, genVersion_read, ih]

end Xp.C11

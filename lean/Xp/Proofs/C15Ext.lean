import Xp.Proofs.C15
/-
Helper lemmas for the C15 extension round: the structural linter (`lintS`), the layer
selection of `ImageBackend.Init` (`initSel`).  Core Lean only.
-/
namespace Xp.C15

/-! ### the structural linter -/

/-- the kinds one disjunction (`parser.Or`) of object checks accepts -/
def disjKinds (d : List String) : List String := d.flatMap accepts

/-- Table obligation form of "the object checks of `t` accept only `allowed`": there is at
least one `ObjectLinterFn`, and everything its first disjunction accepts is allowed. -/
def objFnsWithin (t : PType) (allowed : List String) : Bool :=
  match lintObjFns t with
  | [] => false
  | d :: _ => (disjKinds d).all allowed.contains

def metaFnsWithin (t : PType) (allowed : List String) : Bool :=
  match lintMetaFns t with
  | [] => false
  | fn :: _ => (accepts fn).all allowed.contains

theorem objKindOk_within (t : PType) (allowed : List String) (h : objFnsWithin t allowed = true)
    (k : String) (hk : objKindOk t k = true) : allowed.contains k = true := by
  unfold objFnsWithin at h
  unfold objKindOk at hk
  split at h
  · cases h
  · rename_i d ds heq
    rw [heq] at hk
    simp only [List.all_cons, Bool.and_eq_true, List.any_eq_true] at hk
    obtain ⟨⟨fn, hfn, hc⟩, _⟩ := hk
    have hmem : k ∈ disjKinds d := by
      simp only [disjKinds, List.mem_flatMap]
      exact ⟨fn, hfn, by simpa using hc⟩
    exact (List.all_eq_true.mp h) k hmem

theorem metaKindOk_within (t : PType) (allowed : List String) (h : metaFnsWithin t allowed = true)
    (m : Meta) (hk : (lintMetaFns t).all (fun fn => metaCheck fn m) = true) : allowed.contains m.gvk = true := by
  unfold metaFnsWithin at h
  split at h
  · cases h
  · rename_i fn fns heq
    rw [heq] at hk
    simp only [List.all_cons, Bool.and_eq_true, metaCheck] at hk
    have hmem : m.gvk ∈ accepts fn := by simpa using hk.1.1
    exact (List.all_eq_true.mp h) _ hmem

/-! ### `ImageBackend.Init` -/

def Layer.isBase (l : Layer) : Bool := l.ann == .base

/-- the loop over the manifest's layers finds: nothing, the one annotated layer, or an error
when there are two or more -/
theorem scanBase_spec (ls : List Layer) (sel : Option Layer) :
    scanBase ls sel =
      (match sel.toList ++ ls.filter Layer.isBase with
       | [] => some none
       | [l] => some (some l)
       | _ => none) := by
  induction ls generalizing sel with
  | nil => cases sel <;> simp [scanBase]
  | cons l ls ih =>
    unfold scanBase
    by_cases hb : l.ann = .base
    · have hb' : l.isBase = true := by simp [Layer.isBase, hb]
      cases sel with
      | none =>
        have := ih (some l)
        simp [hb, hb'] at this ⊢
        exact this
      | some s =>
        simp [hb, hb']
    · have hb' : l.isBase = false := by simp [Layer.isBase, hb]
      have := ih sel
      simp [hb, hb'] at this ⊢
      exact this

/-- a reconcile of a revision that is not being deleted leaves the cache alone or does what `fetch` does -/
theorem recStep_cache_nodelete (fixed feature : Bool) (r : Rev) (f : Faults) (c : Cache) (st : RevSt)
    (hd : st.deleting = false) :
    (recStep fixed feature r f c st).1 = c ∨ (recStep fixed feature r f c st).1 = (fetch fixed r f c).1 := by
  unfold recStep
  simp only [hd, Bool.false_eq_true, if_false]
  repeat' split
  all_goals first
    | exact Or.inl rfl
    | exact Or.inr (install_cache _ _ _ _ _)

end Xp.C15

import Xp.Proofs.C01PT
import Xp.Model.C04
/-
Helper material for the C03 theorems.

1. Generic (any `Sem`): `Emits` — the state-dependent form of `Issues` ("every request the
   program can issue when started in `s`, under any fault plan, satisfies `Q`"), its link to
   `callLog`, and index-free views of the fault-free run (`okApplied`, `okRes`).
2. The pipeline interpreter of C04: `runPipeline` over an appended step list, the exact
   characterisation of a failing `runFetching`, and of a failing pipeline.
-/
namespace Xp

section generic
variable {S Req Resp α : Type}

/-- `Emits sem Q p s`: started in store `s`, whatever the fault plan does, every request `p`
issues satisfies `Q`. Unlike `Issues` the replies are the ones the store really gives, so
knowledge gathered from earlier reads can be used. -/
def Emits (sem : Sem S Req Resp) (Q : Req → Prop) : Prog Req Resp α → S → Prop
  | .ret _, _ => True
  | .call r c, s =>
      Q r ∧ Emits sem Q (c (sem.exec s r).2) (sem.exec s r).1 ∧
      Emits sem Q (c (sem.errResp .fail r)) s ∧ Emits sem Q (c (sem.errResp .conflict r)) s

theorem Issues.emits {sem : Sem S Req Resp} {Q : Req → Prop} {p : Prog Req Resp α} (h : Issues Q p) :
    ∀ s, Emits sem Q p s := by
  induction h with
  | ret a => intro s; trivial
  | call r c hq _ ih => intro s; exact ⟨hq, ih _ _, ih _ _, ih _ _⟩

theorem Issues.mono {Q Q' : Req → Prop} {p : Prog Req Resp α} (hqq : ∀ r, Q r → Q' r) (h : Issues Q p) :
    Issues Q' p := by
  induction h with
  | ret a => exact Issues.ret a
  | call r c hq _ ih => exact Issues.call r c (hqq r hq) ih

/-- every entry of the call log — every request *issued* at any instant of the run, applied
or not — satisfies `Q` -/
theorem callLog_emits (sem : Sem S Req Resp) (Q : Req → Prop) (plan : Plan) :
    ∀ (p : Prog Req Resp α) (k : Nat) (s : S), Emits sem Q p s → ∀ e ∈ callLog sem plan k p s, Q e.1 := by
  intro p
  induction p with
  | ret a => intro k s _ e he; simp [callLog] at he
  | call r c ih =>
    intro k s h e he
    obtain ⟨hq, h1, h2, h3⟩ := h
    unfold callLog at he
    split at he
    · rcases List.mem_cons.mp he with rfl | he
      · exact hq
      · exact ih _ _ _ h1 e he
    · rcases List.mem_cons.mp he with rfl | he
      · exact hq
      · exact ih _ _ _ h2 e he
    · rcases List.mem_cons.mp he with rfl | he
      · exact hq
      · exact ih _ _ _ h3 e he
    · simp at he; subst he; exact hq
    · simp at he; subst he; exact hq

/-- an applied request was issued -/
theorem applied_sub_callLog (sem : Sem S Req Resp) (plan : Plan) :
    ∀ (p : Prog Req Resp α) (k : Nat) (s : S) (r : Req), r ∈ applied sem plan k p s →
      ∃ e ∈ callLog sem plan k p s, e.1 = r := by
  intro p
  induction p with
  | ret a => intro k s r h; simp [applied] at h
  | call r0 c ih =>
    intro k s r h
    cases hp : plan k <;> simp only [applied, callLog, hp] at h ⊢
    · rcases List.mem_cons.mp h with rfl | h
      · exact ⟨_, List.mem_cons_self .., rfl⟩
      · obtain ⟨e, he, hr⟩ := ih _ _ _ _ h
        exact ⟨e, List.mem_cons_of_mem _ he, hr⟩
    · obtain ⟨e, he, hr⟩ := ih _ _ _ _ h
      exact ⟨e, List.mem_cons_of_mem _ he, hr⟩
    · obtain ⟨e, he, hr⟩ := ih _ _ _ _ h
      exact ⟨e, List.mem_cons_of_mem _ he, hr⟩
    · simp at h
    · simp at h; subst h
      exact ⟨_, List.mem_cons_self .., rfl⟩

theorem applied_allOk_index (sem : Sem S Req Resp) (p : Prog Req Resp α) :
    ∀ (k : Nat) (s : S), applied sem Plan.allOk k p s = applied sem Plan.allOk 0 p s := by
  induction p with
  | ret a => intro k s; rfl
  | call r c ih =>
    intro k s
    simp only [applied, Plan.allOk]
    rw [ih, ih _ 1]

theorem run_allOk_index' (sem : Sem S Req Resp) (p : Prog Req Resp α) :
    ∀ (k : Nat) (s : S), run sem Plan.allOk k p s = run sem Plan.allOk 0 p s := by
  induction p with
  | ret a => intro k s; rfl
  | call r c ih =>
    intro k s
    simp only [run, Plan.allOk]
    rw [ih, ih _ 1]

end generic

/-! ### the pipeline interpreter -/
namespace C04

theorem eventsUntilFatal_snd (step : String) (rs : List Result) :
    (eventsUntilFatal step rs).2 = hasFatal rs := by
  induction rs with
  | nil => rfl
  | cons r rs ih =>
    unfold eventsUntilFatal
    by_cases h : r.sev = .fatal
    · simp [h, hasFatal]
    · simp only [h, if_false]
      rw [ih]
      simp [hasFatal, h]

/-- `runFetching` ends in an error: exactly when some round's call errors before the
requirements stabilise (and before a fatal result), or the allowed number of rounds is used
up with the requirements still changing -/
def Diverges (cluster : List ClusterObj) (f : Fn) : Nat → Request → List (String × Sel) → Prop
  | 0, _, _ => True
  | fuel + 1, req, prev =>
    f req = none ∨
    ∃ rsp, f req = some rsp ∧ hasFatal rsp.results = false ∧ rsp.reqs ≠ prev ∧
      Diverges cluster f fuel
        { req with extra := rsp.reqs.map (fun p => (p.1, fetch cluster p.2)), ctx := rsp.ctx } rsp.reqs

theorem runFetching_err_iff (cluster : List ClusterObj) (f : Fn) :
    ∀ (fuel : Nat) (req : Request) (prev : List (String × Sel)),
      (runFetching cluster f fuel req prev).2 = .err ↔ Diverges cluster f fuel req prev := by
  intro fuel
  induction fuel with
  | zero => intro req prev; simp [runFetching, Diverges]
  | succ n ih =>
    intro req prev
    unfold runFetching Diverges
    cases hf : f req with
    | none => simp
    | some rsp =>
      simp only [Option.some.injEq, exists_eq_left', reduceCtorEq, false_or]
      by_cases h1 : hasFatal rsp.results = true
      · simp [h1]
      · by_cases h2 : rsp.reqs = prev
        · simp [h1, h2]
        · simp only [h1, h2, if_false, Bool.false_eq_true]
          rw [ih]
          simp [h2]

/-- one step of the pipeline fails when started from the accumulated state `st` -/
def StepFails (cluster : List ClusterObj) (observed : List Res) (st : PipeState) (s : Step) : Prop :=
  s.creds.any (·.2.isNone) = true ∨
  Diverges cluster s.fn (Xp.Gen.maxRequirementsIterations + 1) (stepRequest observed st s) [] ∨
  ∃ rsp, (runFetching cluster s.fn (Xp.Gen.maxRequirementsIterations + 1) (stepRequest observed st s) []).2 = .ok rsp ∧
    hasFatal rsp.results = true

theorem runPipeline_cons_of_fails {cluster : List ClusterObj} {observed : List Res} {st : PipeState} {s : Step}
    (h : StepFails cluster observed st s) (ss : List Step) (i : Nat) :
    ∃ st' fatal, runPipeline cluster observed (s :: ss) i st = .failed st' fatal := by
  unfold runPipeline
  by_cases hc : s.creds.any (·.2.isNone) = true
  · simp only [hc, if_true]; exact ⟨_, _, rfl⟩
  · rcases h with h | h | ⟨rsp, h, hf⟩
    · exact absurd h hc
    · rw [← runFetching_err_iff] at h
      simp only [hc, Bool.false_eq_true, if_false, h]; exact ⟨_, _, rfl⟩
    · simp only [hc, Bool.false_eq_true, if_false, h, eventsUntilFatal_snd, hf, if_true]; exact ⟨_, _, rfl⟩

/-- a step that does not fail hands a well-defined next state to the rest of the pipeline -/
theorem runPipeline_cons_cases (cluster : List ClusterObj) (observed : List Res) (s : Step) (ss : List Step)
    (i : Nat) (st : PipeState) :
    StepFails cluster observed st s ∨
    ∃ st2, runPipeline cluster observed [s] i st = .done st2 ∧
      runPipeline cluster observed (s :: ss) i st = runPipeline cluster observed ss (i + 1) st2 := by
  by_cases hc : s.creds.any (·.2.isNone) = true
  · exact Or.inl (Or.inl hc)
  · cases hr : (runFetching cluster s.fn (Xp.Gen.maxRequirementsIterations + 1) (stepRequest observed st s) []).2 with
    | err => exact Or.inl (Or.inr (Or.inl ((runFetching_err_iff ..).mp hr)))
    | ok rsp =>
      by_cases hf : hasFatal rsp.results = true
      · exact Or.inl (Or.inr (Or.inr ⟨rsp, hr, hf⟩))
      · refine Or.inr ?_
        simp only [runPipeline, hc, Bool.false_eq_true, if_false, hr, eventsUntilFatal_snd, hf]
        exact ⟨_, rfl, rfl⟩

theorem runPipeline_append (cluster : List ClusterObj) (observed : List Res) :
    ∀ (pre rest : List Step) (i : Nat) (st : PipeState),
      runPipeline cluster observed (pre ++ rest) i st =
        match runPipeline cluster observed pre i st with
        | .done st' => runPipeline cluster observed rest (i + pre.length) st'
        | .failed st' f => .failed st' f := by
  intro pre
  induction pre with
  | nil => intro rest i st; simp [runPipeline]
  | cons s pre ih =>
    intro rest i st
    rcases runPipeline_cons_cases cluster observed s (pre ++ rest) i st with h | ⟨st2, h1, h2⟩
    · obtain ⟨a, b, hab⟩ := runPipeline_cons_of_fails h (pre ++ rest) i
      obtain ⟨a', b', hab'⟩ := runPipeline_cons_of_fails h pre i
      -- both runs stop at the same place with the same state
      have : runPipeline cluster observed (s :: (pre ++ rest)) i st = runPipeline cluster observed (s :: pre) i st := by
        unfold runPipeline
        by_cases hc : s.creds.any (·.2.isNone) = true
        · simp only [hc, if_true]
        · simp only [hc, Bool.false_eq_true, if_false]
          rcases h with h | h | ⟨rsp, h, hf⟩
          · exact absurd h hc
          · rw [← runFetching_err_iff] at h; simp only [h]
          · simp only [h, eventsUntilFatal_snd, hf, if_true]
      rw [List.cons_append, this, hab']
    · rcases runPipeline_cons_cases cluster observed s pre i st with h | ⟨st2', h1', h2'⟩
      · obtain ⟨a, b, hab⟩ := runPipeline_cons_of_fails h [] i
        rw [h1] at hab; cases hab
      · rw [h1] at h1'; cases h1'
        rw [List.cons_append, h2, h2', ih]
        simp only [List.length_cons]
        have : i + 1 + pre.length = i + (pre.length + 1) := by omega
        rw [this]

/-- **A pipeline fails iff one of its steps fails after all earlier steps succeeded.** -/
theorem runPipeline_failed_iff (cluster : List ClusterObj) (observed : List Res) :
    ∀ (steps : List Step) (i : Nat) (st0 : PipeState),
      (∃ st' fatal, runPipeline cluster observed steps i st0 = .failed st' fatal) ↔
      ∃ pre s post st, steps = pre ++ s :: post ∧ runPipeline cluster observed pre i st0 = .done st ∧
        StepFails cluster observed st s := by
  intro steps
  induction steps with
  | nil =>
    intro i st0
    constructor
    · rintro ⟨_, _, h⟩; simp [runPipeline] at h
    · rintro ⟨pre, s, post, _, h, _⟩; simp at h
  | cons s ss ih =>
    intro i st0
    constructor
    · intro hfail
      rcases runPipeline_cons_cases cluster observed s ss i st0 with h | ⟨st2, h1, h2⟩
      · exact ⟨[], s, ss, st0, rfl, by simp [runPipeline], h⟩
      · rw [h2] at hfail
        obtain ⟨pre, s', post, st, hs, hp, hf⟩ := (ih (i + 1) st2).mp hfail
        refine ⟨s :: pre, s', post, st, by rw [hs]; rfl, ?_, hf⟩
        have := runPipeline_append cluster observed [s] pre i st0
        rw [h1] at this
        simpa using this.trans hp
    · rintro ⟨pre, s', post, st, hs, hp, hf⟩
      rw [hs, runPipeline_append, hp]
      exact runPipeline_cons_of_fails hf post _

end C04
end Xp

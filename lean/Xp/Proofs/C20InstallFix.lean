import Xp.Proofs.C20Mig
/-
C20 helper lemmas, part 11: the package installer – what a completed run
establishes and that it is a fixpoint (under the distinctness hypotheses).
-/
namespace Xp.C20
open Xp

variable {α β : Type}

abbrev Reqs := List (String × Ref)

/-- the effect of one apply -/
def applyOne (k : PKind) (nr : String × Ref) (x : Store) : Store :=
  match findPkg x k nr.1 with
  | none => { x with pkgs := x.pkgs ++ [⟨k, nr.1, nr.2.str, some nr.2, 0⟩] }
  | some _ => { x with pkgs := x.pkgs.map fun p => if p.kind = k ∧ p.name = nr.1 then { p with raw := nr.2.str, ref := some nr.2 } else p }

theorem applyPkg_eval (k : PKind) (nr : String × Ref) (x : Store) :
    evalOk (applyPkg k nr) x = (applyOne k nr x, .ok) ∧
    ∀ y ∈ statesOk (applyPkg k nr) x, y = x ∨ y = applyOne k nr x := by
  unfold applyPkg applyOne
  cases hf : findPkg x k nr.1 with
  | none =>
    have hget : exec x (.getPkg k nr.1) = (x, .err .notFound) := by simp [exec, hf]
    have hcr : exec x (.createPkg ⟨k, nr.1, nr.2.str, some nr.2, 0⟩) =
        ({ x with pkgs := x.pkgs ++ [⟨k, nr.1, nr.2.str, some nr.2, 0⟩] }, .ok) := by simp [exec, hf]
    constructor
    · simp [hget, hcr, okOr]
    · intro y hy
      simp [statesOk, hget, hcr, okOr] at hy
      rcases hy with hy | hy
      · exact Or.inl hy
      · exact Or.inr hy
  | some q =>
    have hget : exec x (.getPkg k nr.1) = (x, .pkg q) := by simp [exec, hf]
    have hp : exec x (.patchPkg k nr.1 nr.2) =
        ({ x with pkgs := x.pkgs.map fun p => if p.kind = k ∧ p.name = nr.1 then { p with raw := nr.2.str, ref := some nr.2 } else p }, .ok) := by
      simp [exec, hf]
    constructor
    · simp [hget, hp, okOr]
    · intro y hy
      simp [statesOk, hget, hp, okOr] at hy
      rcases hy with hy | hy
      · exact Or.inl hy
      · exact Or.inr hy

def applyAll (k : PKind) : Reqs → Store → Store
  | [], x => x
  | nr :: rest, x => applyAll k rest (applyOne k nr x)

theorem applyLoop_eval (k : PKind) (l : Reqs) (x : Store) :
    evalOk (forEach (applyPkg k) l) x = (applyAll k l x, .ok) := by
  induction l generalizing x with
  | nil => rfl
  | cons nr rest ih =>
    unfold forEach
    rw [evalOk_bind, (applyPkg_eval k nr x).1]
    exact ih _

/-! ### facts about one apply -/

/-- every package with key (k, nm) carries reference r (and one exists) -/
def PkgFix (k : PKind) (nr : String × Ref) (s : Store) : Prop :=
  (∃ q, findPkg s k nr.1 = some q) ∧ ∀ q ∈ s.pkgs, q.kind = k ∧ q.name = nr.1 → q.raw = nr.2.str ∧ q.ref = some nr.2

theorem find_none_pkg {l : List Pkg} {k : PKind} {n : String}
    (h : l.find? (fun p => decide (p.kind = k ∧ p.name = n)) = none) : ∀ p ∈ l, ¬ (p.kind = k ∧ p.name = n) := by
  intro p hp e
  have := List.find?_eq_none.mp h p hp
  simp [e] at this

theorem pkgKey_patch (k : PKind) (nm : String) (r : Ref) (x : Pkg) (k' : PKind) (n' : String) :
    decide ((if x.kind = k ∧ x.name = nm then { x with raw := r.str, ref := some r } else x).kind = k' ∧
      (if x.kind = k ∧ x.name = nm then { x with raw := r.str, ref := some r } else x).name = n') =
    decide (x.kind = k' ∧ x.name = n') := by
  by_cases e : x.kind = k ∧ x.name = nm <;> simp [e]

theorem applyOne_fix (k : PKind) (nr : String × Ref) (x : Store) : PkgFix k nr (applyOne k nr x) := by
  unfold applyOne
  cases hf : findPkg x k nr.1 with
  | none =>
    simp only
    refine ⟨⟨⟨k, nr.1, nr.2.str, some nr.2, 0⟩, ?_⟩, ?_⟩
    · simp only [findPkg] at hf ⊢
      exact find_append_hit _ _ _ hf (by simp)
    · intro q hq hk
      simp only [List.mem_append, List.mem_singleton] at hq
      rcases hq with hq | hq
      · exact absurd hk (find_none_pkg hf q hq)
      · subst hq; exact ⟨rfl, rfl⟩
  | some q0 =>
    simp only
    have hf' := hf
    simp only [findPkg] at hf'
    refine ⟨⟨_, by simp only [findPkg]; exact find_map_some _ _ _ (fun y => pkgKey_patch k nr.1 nr.2 y _ _) _ hf'⟩, ?_⟩
    · intro q hq hk
      simp only [List.mem_map] at hq
      obtain ⟨q1, _, e⟩ := hq
      by_cases h1 : q1.kind = k ∧ q1.name = nr.1
      · simp [h1] at e; subst e; exact ⟨rfl, rfl⟩
      · simp [h1] at e; subst e; exact absurd hk h1

/-- applying another key leaves a fixed key fixed -/
theorem applyOne_other (k : PKind) (nr : String × Ref) (k' : PKind) (nr' : String × Ref) (x : Store)
    (hne : (k', nr'.1) ≠ (k, nr.1)) (h : PkgFix k' nr' x) : PkgFix k' nr' (applyOne k nr x) := by
  obtain ⟨⟨q, hq⟩, hall⟩ := h
  unfold applyOne
  cases hf : findPkg x k nr.1 with
  | none =>
    simp only
    refine ⟨⟨q, ?_⟩, ?_⟩
    · simp only [findPkg] at hq ⊢
      exact find_append_some _ _ _ _ hq
    · intro q' hq' hk
      simp only [List.mem_append, List.mem_singleton] at hq'
      rcases hq' with hq' | hq'
      · exact hall q' hq' hk
      · subst hq'
        simp only at hk
        exact absurd (by rw [hk.1, hk.2]) hne
  | some q0 =>
    simp only
    have hq2 := hq
    simp only [findPkg] at hq2
    refine ⟨⟨_, by simp only [findPkg]; exact find_map_some _ _ _ (fun y => pkgKey_patch k nr.1 nr.2 y _ _) _ hq2⟩, ?_⟩
    · intro q' hq' hk
      simp only [List.mem_map] at hq'
      obtain ⟨q1, hq1, e⟩ := hq'
      by_cases h1 : q1.kind = k ∧ q1.name = nr.1
      · simp [h1] at e; subst e
        simp only at hk
        exact absurd (by rw [← hk.1, ← hk.2]) hne
      · simp [h1] at e; subst e; exact hall q1 hq1 hk

/-- every package is from the start state or carries an applied key with the applied reference -/
def FromOr (s₀ : Store) (keys : List (PKind × String × Ref)) (x : Store) : Prop :=
  ∀ q ∈ x.pkgs, q ∈ s₀.pkgs ∨ ∃ e ∈ keys, e.1 = q.kind ∧ e.2.1 = q.name

theorem applyOne_fromOr (s₀ : Store) (keys : List (PKind × String × Ref)) (k : PKind) (nr : String × Ref) (x : Store)
    (hk : (k, nr.1, nr.2) ∈ keys) (h : FromOr s₀ keys x) : FromOr s₀ keys (applyOne k nr x) := by
  unfold applyOne
  cases hf : findPkg x k nr.1 with
  | none =>
    simp only
    intro q hq
    simp only [List.mem_append, List.mem_singleton] at hq
    rcases hq with hq | hq
    · exact h q hq
    · subst hq; exact Or.inr ⟨_, hk, rfl, rfl⟩
  | some q0 =>
    simp only
    intro q hq
    simp only [List.mem_map] at hq
    obtain ⟨q1, hq1, e⟩ := hq
    by_cases h1 : q1.kind = k ∧ q1.name = nr.1
    · simp [h1] at e; subst e
      exact Or.inr ⟨_, hk, by simp [h1.1], by simp [h1.2]⟩
    · simp [h1] at e; subst e; exact h q1 hq1

theorem applyOne_frames (k : PKind) (nr : String × Ref) (x : Store) :
    (applyOne k nr x).secrets = x.secrets ∧ (applyOne k nr x).crds = x.crds ∧ (applyOne k nr x).whcs = x.whcs ∧
    (applyOne k nr x).crs = x.crs ∧ (applyOne k nr x).lock = x.lock ∧ (applyOne k nr x).sc = x.sc ∧ (applyOne k nr x).drc = x.drc := by
  unfold applyOne
  split <;> simp

/-! ### a whole loop -/

def keysOf (k : PKind) (l : Reqs) : List (PKind × String × Ref) := l.map fun nr => (k, nr.1, nr.2)

theorem applyAll_props (s₀ : Store) (keys : List (PKind × String × Ref)) (k : PKind) (l : Reqs)
    (hnd : (l.map (·.1)).Nodup) (hsub : ∀ nr ∈ l, (k, nr.1, nr.2) ∈ keys) (x : Store) (hx : FromOr s₀ keys x) :
    (∀ nr ∈ l, PkgFix k nr (applyAll k l x)) ∧
    (∀ k' nr', (∀ nr ∈ l, (k', nr'.1) ≠ (k, nr.1)) → PkgFix k' nr' x → PkgFix k' nr' (applyAll k l x)) ∧
    FromOr s₀ keys (applyAll k l x) ∧
    ((applyAll k l x).secrets = x.secrets ∧ (applyAll k l x).crds = x.crds ∧ (applyAll k l x).whcs = x.whcs ∧
     (applyAll k l x).crs = x.crs ∧ (applyAll k l x).lock = x.lock ∧ (applyAll k l x).sc = x.sc ∧ (applyAll k l x).drc = x.drc) := by
  induction l generalizing x with
  | nil => exact ⟨fun _ h => (by cases h), fun _ _ _ h => h, hx, rfl, rfl, rfl, rfl, rfl, rfl, rfl⟩
  | cons nr rest ih =>
    simp only [List.map_cons, List.nodup_cons] at hnd
    obtain ⟨i1, i2, i3, i4⟩ := ih hnd.2 (fun n hn => hsub n (by simp [hn])) (applyOne k nr x)
      (applyOne_fromOr s₀ keys k nr x (hsub nr (by simp)) hx)
    obtain ⟨f1, f2, f3, f4, f5, f6, f7⟩ := applyOne_frames k nr x
    refine ⟨?_, ?_, i3, ?_⟩
    · intro n hn
      rcases List.mem_cons.mp hn with e | e
      · subst e
        refine i2 k n ?_ (applyOne_fix k n x)
        intro n' hn' heq
        have : n.1 = n'.1 := by simpa using heq
        exact hnd.1 (this ▸ List.mem_map_of_mem hn')
      · exact i1 n e
    · intro k' nr' hne hfix
      exact i2 k' nr' (fun n hn => hne n (by simp [hn])) (applyOne_other k nr k' nr' x (hne nr (by simp)) hfix)
    · simp only [applyAll]
      exact ⟨i4.1.trans f1, i4.2.1.trans f2, i4.2.2.1.trans f3, i4.2.2.2.1.trans f4, i4.2.2.2.2.1.trans f5,
        i4.2.2.2.2.2.1.trans f6, i4.2.2.2.2.2.2.trans f7⟩


/-! ### the step: fixpoint -/

def InstallDone (p c f : List Img) (s : Store) : Prop :=
  ∃ ps cs fs, buildAll resolve (buildIndex (listing s .provider)) p = some ps ∧
    buildAll resolve (buildIndex (listing s .configuration)) c = some cs ∧
    buildAll resolve (buildIndex (listing s .function)) f = some fs ∧
    (∀ nr ∈ ps, PkgFix .provider nr s) ∧ (∀ nr ∈ cs, PkgFix .configuration nr s) ∧ (∀ nr ∈ fs, PkgFix .function nr s)

theorem pkg_eta (p : Pkg) (raw : String) (ref : Option Ref) (h1 : p.raw = raw) (h2 : p.ref = ref) :
    { p with raw := raw, ref := ref } = p := by
  cases p; simp_all

theorem applyOne_self (k : PKind) (nr : String × Ref) (s : Store) (h : PkgFix k nr s) : applyOne k nr s = s := by
  obtain ⟨⟨q, hq⟩, hall⟩ := h
  unfold applyOne
  rw [hq]
  simp only
  have hmap : (s.pkgs.map fun p => if p.kind = k ∧ p.name = nr.1 then { p with raw := nr.2.str, ref := some nr.2 } else p) = s.pkgs :=
    map_eq_self _ _ (fun x hx => by
      by_cases e : x.kind = k ∧ x.name = nr.1
      · rw [if_pos e]; exact pkg_eta x _ _ (hall x hx e).1 (hall x hx e).2
      · rw [if_neg e])
  rw [hmap]

theorem applyLoop_fix (k : PKind) (l : Reqs) (s : Store) (h : ∀ nr ∈ l, PkgFix k nr s) :
    evalOk (forEach (applyPkg k) l) s = (s, .ok) ∧ ∀ y ∈ statesOk (forEach (applyPkg k) l) s, y = s := by
  induction l with
  | nil => simp [forEach, statesOk]
  | cons nr rest ih =>
    obtain ⟨i1, i2⟩ := ih (fun n hn => h n (by simp [hn]))
    obtain ⟨a1, a2⟩ := applyPkg_eval k nr s
    rw [applyOne_self k nr s (h nr (by simp))] at a1 a2
    unfold forEach
    constructor
    · rw [evalOk_bind, a1]; exact i1
    · intro y hy
      rw [statesOk_bind] at hy
      rcases hy with hy | hy
      · rcases a2 y hy with e | e <;> exact e
      · rw [a1] at hy; exact i2 y hy

theorem listOf_eval (k : PKind) (cont : List Pkg → P Res) (s : Store) :
    evalOk (listOf k cont) s = evalOk (cont (listing s k)) s ∧
    ∀ y, y ∈ statesOk (listOf k cont) s ↔ y = s ∨ y ∈ statesOk (cont (listing s k)) s := by
  unfold listOf
  constructor
  · simp only [evalOk_call, exec_listPkgs]
  · intro y
    simp only [statesOk, exec_listPkgs, List.mem_cons]

theorem installBody_eval (p c f : List Img) (pl cl fl : List Pkg) (ps cs fs : Reqs)
    (hp : buildAll resolve (buildIndex pl) p = some ps) (hc : buildAll resolve (buildIndex cl) c = some cs)
    (hf : buildAll resolve (buildIndex fl) f = some fs) :
    installBody resolve p c f pl cl fl = installApply ps cs fs := by
  unfold installBody
  simp only [hp, hc, hf]

theorem install_fix (p c f : List Img) (s : Store) (h : InstallDone p c f s) :
    evalOk (installStep p c f) s = (s, .ok) ∧ ∀ y ∈ statesOk (installStep p c f) s, y = s := by
  obtain ⟨ps, cs, fs, hp, hc, hf, fp, fc, ff⟩ := h
  obtain ⟨p1, p2⟩ := applyLoop_fix .provider ps s fp
  obtain ⟨c1, c2⟩ := applyLoop_fix .configuration cs s fc
  obtain ⟨f1, f2⟩ := applyLoop_fix .function fs s ff
  unfold installStep installWith
  constructor
  · rw [(listOf_eval _ _ s).1, (listOf_eval _ _ s).1, (listOf_eval _ _ s).1, installBody_eval p c f _ _ _ ps cs fs hp hc hf]
    unfold installApply
    rw [evalOk_bind, p1]
    simp only
    rw [evalOk_bind, c1]
    exact f1
  · intro y hy
    rw [(listOf_eval _ _ s).2] at hy
    rcases hy with hy | hy
    · exact hy
    · rw [(listOf_eval _ _ s).2] at hy
      rcases hy with hy | hy
      · exact hy
      · rw [(listOf_eval _ _ s).2] at hy
        rcases hy with hy | hy
        · exact hy
        · rw [installBody_eval p c f _ _ _ ps cs fs hp hc hf] at hy
          unfold installApply at hy
          rw [statesOk_bind] at hy
          rcases hy with hy | hy
          · exact p2 y hy
          · rw [p1] at hy
            simp only at hy
            rw [statesOk_bind] at hy
            rcases hy with hy | hy
            · exact c2 y hy
            · rw [c1] at hy; exact f2 y hy

/-! ### the step: establishment -/

theorem nodup_map_inj {γ δ : Type} {f : γ → δ} {l : List γ} (h : (l.map f).Nodup) {a b : γ}
    (ha : a ∈ l) (hb : b ∈ l) (e : f a = f b) : a = b := by
  induction l with
  | nil => cases ha
  | cons x xs ih =>
    simp only [List.map_cons, List.nodup_cons] at h
    rcases List.mem_cons.mp ha with ha1 | ha1
    · rcases List.mem_cons.mp hb with hb1 | hb1
      · rw [ha1, hb1]
      · exfalso; apply h.1; rw [← ha1, e]; exact List.mem_map_of_mem hb1
    · rcases List.mem_cons.mp hb with hb1 | hb1
      · exfalso; apply h.1; rw [← hb1, ← e]; exact List.mem_map_of_mem ha1
      · exact ih h.2 ha1 hb1

/-- at most one installed package per source and kind -/
def SrcUnique (s : Store) : Prop :=
  ∀ q ∈ s.pkgs, ∀ q' ∈ s.pkgs, q.kind = q'.kind → ∀ src, HasSrc q src → HasSrc q' src → q.name = q'.name

theorem resolve_stable (k : PKind) (l : Reqs) (s t : Store)
    (hl : ∀ nr ∈ l, nr.1 = resolve (buildIndex (listing s k)) nr.2)
    (hsrc : (l.map (·.2.src)).Nodup) (huniq : SrcUnique s)
    (hfix : ∀ nr ∈ l, PkgFix k nr t)
    (hfrom : ∀ q ∈ t.pkgs, q.kind = k → q ∈ s.pkgs ∨ ∃ nr ∈ l, nr.1 = q.name) :
    ∀ nr ∈ l, resolve (buildIndex (listing t k)) nr.2 = nr.1 := by
  intro nr hnr
  obtain ⟨⟨q0, hq0⟩, hall⟩ := hfix nr hnr
  have hq0m : q0 ∈ t.pkgs := List.mem_of_find?_eq_some hq0
  have hq0k : q0.kind = k ∧ q0.name = nr.1 := by simpa [findPkg] using List.find?_some hq0
  have hq0s : HasSrc q0 nr.2.src := ⟨nr.2, (hall q0 hq0m hq0k).2, rfl⟩
  obtain ⟨q, hq, hqs, hres⟩ := resolve_hits (listing t k) nr.2 ⟨q0, (mem_listing _ _ _).mpr ⟨hq0m, hq0k.1⟩, hq0s⟩
  rw [hres]
  obtain ⟨hqm, hqk⟩ := (mem_listing _ _ _).mp hq
  rcases hfrom q hqm hqk with hin | ⟨nr', hnr', hname⟩
  · -- an untouched package of the start state: it is the one the image resolved to
    obtain ⟨q', hq', hq's, hres'⟩ := resolve_hits (listing s k) nr.2 ⟨q, (mem_listing _ _ _).mpr ⟨hin, hqk⟩, hqs⟩
    obtain ⟨hq'm, hq'k⟩ := (mem_listing _ _ _).mp hq'
    rw [huniq q hin q' hq'm (hqk.trans hq'k.symm) nr.2.src hqs hq's, ← hres', ← hl nr hnr]
  · -- a package written by this run: it carries the reference of the request with its name
    have href : q.ref = some nr'.2 := ((hfix nr' hnr').2 q hqm ⟨hqk, hname.symm⟩).2
    obtain ⟨r, hr, hs⟩ := hqs
    rw [href] at hr; cases hr
    have : nr' = nr := nodup_map_inj hsrc hnr' hnr hs
    rw [← hname, this]

theorem buildAll_resolve_eq (m m' : List (String × String)) (imgs : List Img) (l : Reqs)
    (h : buildAll resolve m imgs = some l) (he : ∀ nr ∈ l, resolve m' nr.2 = nr.1) :
    buildAll resolve m' imgs = some l := by
  induction imgs generalizing l with
  | nil => simpa [buildAll] using h
  | cons i is ih =>
    unfold buildAll at h ⊢
    cases hr : i.ref with
    | none => simp [hr] at h
    | some r =>
      simp only [hr] at h ⊢
      cases hb : buildAll resolve m is with
      | none => simp [hb] at h
      | some l' =>
        simp only [hb, Option.map_some, Option.some.injEq] at h
        subst h
        rw [ih l' hb (fun nr hn => he nr (by simp [hn]))]
        simp only [Option.map_some, Option.some.injEq, List.cons.injEq, Prod.mk.injEq, and_true]
        exact he (resolve m r, r) (by simp)

/-- hypotheses of installer idempotence: per kind, the requested images have pairwise distinct
sources and resolve to pairwise distinct object names, and the cluster does not already hold one
source twice -/
structure InstallHyp (p c f : List Img) (s : Store) : Prop where
  prov : ∀ l, buildAll resolve (buildIndex (listing s .provider)) p = some l → (l.map (·.1)).Nodup ∧ (l.map (·.2.src)).Nodup
  conf : ∀ l, buildAll resolve (buildIndex (listing s .configuration)) c = some l → (l.map (·.1)).Nodup ∧ (l.map (·.2.src)).Nodup
  func : ∀ l, buildAll resolve (buildIndex (listing s .function)) f = some l → (l.map (·.1)).Nodup ∧ (l.map (·.2.src)).Nodup
  uniq : SrcUnique s

theorem keysOf_kind {k : PKind} {l : Reqs} {e : PKind × String × Ref} (h : e ∈ keysOf k l) :
    e.1 = k ∧ (e.2.1, e.2.2) ∈ l := by
  simp only [keysOf, List.mem_map] at h
  obtain ⟨nr, hnr, rfl⟩ := h
  exact ⟨rfl, hnr⟩

theorem install_establishes (p c f : List Img) (s t : Store) (hyp : InstallHyp p c f s)
    (h : evalOk (installStep p c f) s = (t, .ok)) :
    InstallDone p c f t ∧ t.secrets = s.secrets ∧ t.crds = s.crds ∧ t.whcs = s.whcs ∧ t.lock = s.lock ∧ t.sc = s.sc ∧ t.drc = s.drc := by
  unfold installStep installWith at h
  rw [(listOf_eval _ _ s).1, (listOf_eval _ _ s).1, (listOf_eval _ _ s).1] at h
  cases hp : buildAll resolve (buildIndex (listing s .provider)) p with
  | none => simp [installBody, hp] at h
  | some ps =>
  cases hc : buildAll resolve (buildIndex (listing s .configuration)) c with
  | none => simp [installBody, hp, hc] at h
  | some cs =>
  cases hf : buildAll resolve (buildIndex (listing s .function)) f with
  | none => simp [installBody, hp, hc, hf] at h
  | some fs =>
  rw [installBody_eval p c f _ _ _ ps cs fs hp hc hf] at h
  unfold installApply at h
  rw [evalOk_bind, applyLoop_eval] at h
  simp only at h
  rw [evalOk_bind, applyLoop_eval] at h
  simp only at h
  rw [applyLoop_eval] at h
  simp only [Prod.mk.injEq, and_true] at h
  let keys := keysOf .provider ps ++ keysOf .configuration cs ++ keysOf .function fs
  have hsubP : ∀ nr ∈ ps, (PKind.provider, nr.1, nr.2) ∈ keys := fun nr hn => by
    simp only [keys, keysOf, List.mem_append, List.mem_map]; exact Or.inl (Or.inl ⟨nr, hn, rfl⟩)
  have hsubC : ∀ nr ∈ cs, (PKind.configuration, nr.1, nr.2) ∈ keys := fun nr hn => by
    simp only [keys, keysOf, List.mem_append, List.mem_map]; exact Or.inl (Or.inr ⟨nr, hn, rfl⟩)
  have hsubF : ∀ nr ∈ fs, (PKind.function, nr.1, nr.2) ∈ keys := fun nr hn => by
    simp only [keys, keysOf, List.mem_append, List.mem_map]; exact Or.inr ⟨nr, hn, rfl⟩
  have h0 : FromOr s keys s := fun q hq => Or.inl hq
  obtain ⟨a1, _, a3, a4⟩ := applyAll_props s keys .provider ps (hyp.prov ps hp).1 hsubP s h0
  obtain ⟨b1, b2, b3, b4⟩ := applyAll_props s keys .configuration cs (hyp.conf cs hc).1 hsubC _ a3
  obtain ⟨c1, c2, c3, c4⟩ := applyAll_props s keys .function fs (hyp.func fs hf).1 hsubF _ b3
  rw [h] at c1 c2 c3 c4
  -- all three lists are fixed in t
  have fixP : ∀ nr ∈ ps, PkgFix .provider nr t := fun nr hn =>
    c2 _ nr (fun n _ => by simp) (b2 _ nr (fun n _ => by simp) (a1 nr hn))
  have fixC : ∀ nr ∈ cs, PkgFix .configuration nr t := fun nr hn => c2 _ nr (fun n _ => by simp) (b1 nr hn)
  have fixF : ∀ nr ∈ fs, PkgFix .function nr t := c1
  -- packages of a kind in t: from s, or named like a request of that kind
  have from_kind : ∀ (k : PKind) (l : Reqs), (∀ e ∈ keys, e.1 = k → (e.2.1, e.2.2) ∈ l) →
      ∀ q ∈ t.pkgs, q.kind = k → q ∈ s.pkgs ∨ ∃ nr ∈ l, nr.1 = q.name := by
    intro k l hk q hq hqk
    rcases c3 q hq with hin | ⟨e, he, e1, e2⟩
    · exact Or.inl hin
    · exact Or.inr ⟨(e.2.1, e.2.2), hk e he (e1.trans hqk), e2⟩
  have keys_kind : ∀ (k : PKind) (l : Reqs), (k = .provider ∧ l = ps) ∨ (k = .configuration ∧ l = cs) ∨ (k = .function ∧ l = fs) →
      ∀ e ∈ keys, e.1 = k → (e.2.1, e.2.2) ∈ l := by
    intro k l hkl e he hek
    simp only [keys, List.mem_append] at he
    rcases he with (he | he) | he
    · obtain ⟨e1, e2⟩ := keysOf_kind he
      rcases hkl with ⟨rfl, rfl⟩ | ⟨rfl, rfl⟩ | ⟨rfl, rfl⟩
      · exact e2
      · rw [e1] at hek; cases hek
      · rw [e1] at hek; cases hek
    · obtain ⟨e1, e2⟩ := keysOf_kind he
      rcases hkl with ⟨rfl, rfl⟩ | ⟨rfl, rfl⟩ | ⟨rfl, rfl⟩
      · rw [e1] at hek; cases hek
      · exact e2
      · rw [e1] at hek; cases hek
    · obtain ⟨e1, e2⟩ := keysOf_kind he
      rcases hkl with ⟨rfl, rfl⟩ | ⟨rfl, rfl⟩ | ⟨rfl, rfl⟩
      · rw [e1] at hek; cases hek
      · rw [e1] at hek; cases hek
      · exact e2
  have stP := resolve_stable .provider ps s t (buildAll_mem _ _ _ _ hp) (hyp.prov ps hp).2 hyp.uniq fixP
    (from_kind _ _ (keys_kind _ _ (Or.inl ⟨rfl, rfl⟩)))
  have stC := resolve_stable .configuration cs s t (buildAll_mem _ _ _ _ hc) (hyp.conf cs hc).2 hyp.uniq fixC
    (from_kind _ _ (keys_kind _ _ (Or.inr (Or.inl ⟨rfl, rfl⟩))))
  have stF := resolve_stable .function fs s t (buildAll_mem _ _ _ _ hf) (hyp.func fs hf).2 hyp.uniq fixF
    (from_kind _ _ (keys_kind _ _ (Or.inr (Or.inr ⟨rfl, rfl⟩))))
  refine ⟨⟨ps, cs, fs, buildAll_resolve_eq _ _ p ps hp stP, buildAll_resolve_eq _ _ c cs hc stC,
    buildAll_resolve_eq _ _ f fs hf stF, fixP, fixC, fixF⟩, ?_⟩
  obtain ⟨x1, x2, x3, _, x5, x6, x7⟩ := a4
  obtain ⟨y1, y2, y3, _, y5, y6, y7⟩ := b4
  obtain ⟨z1, z2, z3, _, z5, z6, z7⟩ := c4
  exact ⟨(z1.trans y1).trans x1, (z2.trans y2).trans x2, (z3.trans y3).trans x3, (z5.trans y5).trans x5,
    (z6.trans y6).trans x6, (z7.trans y7).trans x7⟩

end Xp.C20

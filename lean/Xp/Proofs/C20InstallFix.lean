import Xp.Proofs.C20Mig
/-
C20 helper lemmas, part 11: the package installer – what a completed run
establishes and that it is a fixpoint (under the distinctness hypotheses).
-/
namespace Xp.C20
open Xp

variable {α β : Type}

abbrev Reqs := List (String × Ref)

/-- the effect of one apply -/
def applyOne (k : PKind) (nr : String × Ref) (x : Store) : Store :=
  match findPkg x k nr.1 with
  | none => { x with pkgs := x.pkgs ++ [⟨k, nr.1, nr.2.str, some nr.2, 0⟩] }
  | some _ => { x with pkgs := x.pkgs.map fun p => if p.kind = k ∧ p.name = nr.1 then { p with raw := nr.2.str, ref := some nr.2 } else p }

theorem applyPkg_eval (k : PKind) (nr : String × Ref) (x : Store) :
    evalOk (applyPkg k nr) x = (applyOne k nr x, .ok) ∧
    ∀ y ∈ statesOk (applyPkg k nr) x, y = x ∨ y = applyOne k nr x := by
  unfold applyPkg applyOne
  cases hf : findPkg x k nr.1 with
  | none =>
    have hget : exec x (.getPkg k nr.1) = (x, .err .notFound) := by simp [exec, hf]
    have hcr : exec x (.createPkg ⟨k, nr.1, nr.2.str, some nr.2, 0⟩) =
        ({ x with pkgs := x.pkgs ++ [⟨k, nr.1, nr.2.str, some nr.2, 0⟩] }, .ok) := by simp [exec, hf]
    constructor
    · simp [hget, hcr, okOr]
    · intro y hy
      simp [statesOk, hget, hcr, okOr] at hy
      rcases hy with hy | hy | hy
      · exact Or.inl hy
      · exact Or.inl hy
      · exact Or.inr hy
  | some q =>
    have hget : exec x (.getPkg k nr.1) = (x, .pkg q) := by simp [exec, hf]
    have hp : exec x (.patchPkg k nr.1 nr.2) =
        ({ x with pkgs := x.pkgs.map fun p => if p.kind = k ∧ p.name = nr.1 then { p with raw := nr.2.str, ref := some nr.2 } else p }, .ok) := by
      simp [exec, hf]
    constructor
    · simp [hget, hp, okOr]
    · intro y hy
      simp [statesOk, hget, hp, okOr] at hy
      rcases hy with hy | hy | hy
      · exact Or.inl hy
      · exact Or.inl hy
      · exact Or.inr hy

def applyAll (k : PKind) : Reqs → Store → Store
  | [], x => x
  | nr :: rest, x => applyAll k rest (applyOne k nr x)

theorem applyLoop_eval (k : PKind) (l : Reqs) (x : Store) :
    evalOk (forEach (applyPkg k) l) x = (applyAll k l x, .ok) := by
  induction l generalizing x with
  | nil => rfl
  | cons nr rest ih =>
    unfold forEach
    rw [evalOk_bind, (applyPkg_eval k nr x).1]
    exact ih _

/-! ### facts about one apply -/

/-- every package with key (k, nm) carries reference r (and one exists) -/
def PkgFix (k : PKind) (nr : String × Ref) (s : Store) : Prop :=
  (∃ q, findPkg s k nr.1 = some q) ∧ ∀ q ∈ s.pkgs, q.kind = k ∧ q.name = nr.1 → q.raw = nr.2.str ∧ q.ref = some nr.2

theorem find_none_pkg {l : List Pkg} {k : PKind} {n : String}
    (h : l.find? (fun p => decide (p.kind = k ∧ p.name = n)) = none) : ∀ p ∈ l, ¬ (p.kind = k ∧ p.name = n) := by
  intro p hp e
  have := List.find?_eq_none.mp h p hp
  simp [e] at this

theorem pkgKey_patch (k : PKind) (nm : String) (r : Ref) (x : Pkg) (k' : PKind) (n' : String) :
    decide ((if x.kind = k ∧ x.name = nm then { x with raw := r.str, ref := some r } else x).kind = k' ∧
      (if x.kind = k ∧ x.name = nm then { x with raw := r.str, ref := some r } else x).name = n') =
    decide (x.kind = k' ∧ x.name = n') := by
  by_cases e : x.kind = k ∧ x.name = nm <;> simp [e]

theorem applyOne_fix (k : PKind) (nr : String × Ref) (x : Store) : PkgFix k nr (applyOne k nr x) := by
  unfold applyOne
  cases hf : findPkg x k nr.1 with
  | none =>
    simp only
    refine ⟨⟨⟨k, nr.1, nr.2.str, some nr.2, 0⟩, ?_⟩, ?_⟩
    · simp only [findPkg] at hf ⊢
      exact find_append_hit _ _ _ hf (by simp)
    · intro q hq hk
      simp only [List.mem_append, List.mem_singleton] at hq
      rcases hq with hq | hq
      · exact absurd hk (find_none_pkg hf q hq)
      · subst hq; exact ⟨rfl, rfl⟩
  | some q0 =>
    simp only
    refine ⟨⟨_, ?_⟩, ?_⟩
    · simp only [findPkg] at hf ⊢
      exact find_map_some _ _ _ (fun y => pkgKey_patch k nr.1 nr.2 y _ _) _ hf
    · intro q hq hk
      simp only [List.mem_map] at hq
      obtain ⟨q1, _, e⟩ := hq
      by_cases h1 : q1.kind = k ∧ q1.name = nr.1
      · simp [h1] at e; subst e; exact ⟨rfl, rfl⟩
      · simp [h1] at e; subst e; exact absurd hk h1

/-- applying another key leaves a fixed key fixed -/
theorem applyOne_other (k : PKind) (nr : String × Ref) (k' : PKind) (nr' : String × Ref) (x : Store)
    (hne : (k', nr'.1) ≠ (k, nr.1)) (h : PkgFix k' nr' x) : PkgFix k' nr' (applyOne k nr x) := by
  obtain ⟨⟨q, hq⟩, hall⟩ := h
  unfold applyOne
  cases hf : findPkg x k nr.1 with
  | none =>
    simp only
    refine ⟨⟨q, ?_⟩, ?_⟩
    · simp only [findPkg] at hq ⊢
      exact find_append_some _ _ _ _ hq
    · intro q' hq' hk
      simp only [List.mem_append, List.mem_singleton] at hq'
      rcases hq' with hq' | hq'
      · exact hall q' hq' hk
      · subst hq'
        simp only at hk
        exact absurd (by rw [hk.1, hk.2]) hne
  | some q0 =>
    simp only
    refine ⟨⟨_, ?_⟩, ?_⟩
    · simp only [findPkg] at hq ⊢
      exact find_map_some _ _ _ (fun y => pkgKey_patch k nr.1 nr.2 y _ _) _ hq
    · intro q' hq' hk
      simp only [List.mem_map] at hq'
      obtain ⟨q1, hq1, e⟩ := hq'
      by_cases h1 : q1.kind = k ∧ q1.name = nr.1
      · simp [h1] at e; subst e
        simp only at hk
        exact absurd (by rw [← hk.1, ← hk.2, h1.1, h1.2]) hne
      · simp [h1] at e; subst e; exact hall q1 hq1 hk

/-- every package is from the start state or carries an applied key with the applied reference -/
def FromOr (s₀ : Store) (keys : List (PKind × String × Ref)) (x : Store) : Prop :=
  ∀ q ∈ x.pkgs, q ∈ s₀.pkgs ∨ ∃ e ∈ keys, e.1 = q.kind ∧ e.2.1 = q.name

theorem applyOne_fromOr (s₀ : Store) (keys : List (PKind × String × Ref)) (k : PKind) (nr : String × Ref) (x : Store)
    (hk : (k, nr.1, nr.2) ∈ keys) (h : FromOr s₀ keys x) : FromOr s₀ keys (applyOne k nr x) := by
  unfold applyOne
  cases hf : findPkg x k nr.1 with
  | none =>
    simp only
    intro q hq
    simp only [List.mem_append, List.mem_singleton] at hq
    rcases hq with hq | hq
    · exact h q hq
    · subst hq; exact Or.inr ⟨_, hk, rfl, rfl⟩
  | some q0 =>
    simp only
    intro q hq
    simp only [List.mem_map] at hq
    obtain ⟨q1, hq1, e⟩ := hq
    by_cases h1 : q1.kind = k ∧ q1.name = nr.1
    · simp [h1] at e; subst e
      exact Or.inr ⟨_, hk, by simp [h1.1], by simp [h1.2]⟩
    · simp [h1] at e; subst e; exact h q1 hq1

theorem applyOne_frames (k : PKind) (nr : String × Ref) (x : Store) :
    (applyOne k nr x).secrets = x.secrets ∧ (applyOne k nr x).crds = x.crds ∧ (applyOne k nr x).whcs = x.whcs ∧
    (applyOne k nr x).crs = x.crs ∧ (applyOne k nr x).lock = x.lock ∧ (applyOne k nr x).sc = x.sc ∧ (applyOne k nr x).drc = x.drc := by
  unfold applyOne
  split <;> simp

/-! ### a whole loop -/

def keysOf (k : PKind) (l : Reqs) : List (PKind × String × Ref) := l.map fun nr => (k, nr.1, nr.2)

theorem applyAll_props (s₀ : Store) (keys : List (PKind × String × Ref)) (k : PKind) (l : Reqs)
    (hnd : (l.map (·.1)).Nodup) (hsub : ∀ nr ∈ l, (k, nr.1, nr.2) ∈ keys) (x : Store) (hx : FromOr s₀ keys x) :
    (∀ nr ∈ l, PkgFix k nr (applyAll k l x)) ∧
    (∀ k' nr', (∀ nr ∈ l, (k', nr'.1) ≠ (k, nr.1)) → PkgFix k' nr' x → PkgFix k' nr' (applyAll k l x)) ∧
    FromOr s₀ keys (applyAll k l x) ∧
    ((applyAll k l x).secrets = x.secrets ∧ (applyAll k l x).crds = x.crds ∧ (applyAll k l x).whcs = x.whcs ∧
     (applyAll k l x).crs = x.crs ∧ (applyAll k l x).lock = x.lock ∧ (applyAll k l x).sc = x.sc ∧ (applyAll k l x).drc = x.drc) := by
  induction l generalizing x with
  | nil => exact ⟨fun _ h => (by cases h), fun _ _ _ h => h, hx, rfl, rfl, rfl, rfl, rfl, rfl, rfl⟩
  | cons nr rest ih =>
    simp only [List.map_cons, List.nodup_cons] at hnd
    obtain ⟨i1, i2, i3, i4⟩ := ih hnd.2 (fun n hn => hsub n (by simp [hn])) (applyOne k nr x)
      (applyOne_fromOr s₀ keys k nr x (hsub nr (by simp)) hx)
    obtain ⟨f1, f2, f3, f4, f5, f6, f7⟩ := applyOne_frames k nr x
    refine ⟨?_, ?_, i3, ?_⟩
    · intro n hn
      rcases List.mem_cons.mp hn with e | e
      · subst e
        refine i2 k n ?_ (applyOne_fix k n x)
        intro n' hn' heq
        have : n.1 = n'.1 := by simpa using heq
        exact hnd.1 (this ▸ List.mem_map_of_mem hn')
      · exact i1 n e
    · intro k' nr' hne hfix
      exact i2 k' nr' (fun n hn => hne n (by simp [hn])) (applyOne_other k nr k' nr' x (hne nr (by simp)) hfix)
    · simp only [applyAll]
      exact ⟨i4.1.trans f1, i4.2.1.trans f2, i4.2.2.1.trans f3, i4.2.2.2.1.trans f4, i4.2.2.2.2.1.trans f5,
        i4.2.2.2.2.2.1.trans f6, i4.2.2.2.2.2.2.trans f7⟩

end Xp.C20

import Xp.Model.C05
import Xp.Model.C05Fn
/-
C05 helper lemmas: `setCond`, `applyFnConds`, `markUnknown` seen through `find?`
(the whole stored condition of a type, hence its status and its reason).
-/
namespace Xp.C05

/-- the stored condition of type `t` -/
def findC (cs : List Cond) (t : String) : Option Cond := cs.find? (·.type = t)

theorem statusOf_eq (cs : List Cond) (t : String) : statusOf cs t = (findC cs t).map (·.status) := rfl
theorem reasonOf_eq (cs : List Cond) (t : String) : reasonOf cs t = (findC cs t).map (·.reason) := rfl

theorem find_replaceAll_ne (xs : List Cond) (c : Cond) (t : String) (h : t ≠ c.type) :
    (setCond.replaceAll xs c).find? (·.type = t) = xs.find? (·.type = t) := by
  induction xs with
  | nil => rfl
  | cons x xs ih =>
    unfold setCond.replaceAll
    by_cases hx : x.type = c.type
    · have : ¬ x.type = t := fun e => h (e ▸ hx)
      simp [List.find?, hx, Ne.symm h, ih]
    · simp only [hx, if_false, List.find?]
      split <;> simp_all

theorem findC_setCond_self (cs : List Cond) (c : Cond) : findC (setCond cs c) c.type = some c := by
  unfold findC
  induction cs with
  | nil => simp [setCond]
  | cons x xs ih =>
    unfold setCond
    split
    · simp [List.find?]
    · rename_i h
      simp only [List.find?, h, decide_false]
      exact ih

theorem findC_setCond_ne (cs : List Cond) (c : Cond) (t : String) (h : t ≠ c.type) :
    findC (setCond cs c) t = findC cs t := by
  unfold findC
  induction cs with
  | nil => simp [setCond, List.find?, Ne.symm h]
  | cons x xs ih =>
    unfold setCond
    split
    · rename_i hx
      have hxt : ¬ x.type = t := fun e => h (e ▸ hx)
      simp only [List.find?, Ne.symm h, hxt, decide_false]
      rw [find_replaceAll_ne xs c t h]
    · simp only [List.find?]
      split
      · rfl
      · exact ih

theorem statusOf_setCond_self (cs : List Cond) (c : Cond) : statusOf (setCond cs c) c.type = some c.status := by
  rw [statusOf_eq, findC_setCond_self]; rfl

theorem statusOf_setCond_ne (cs : List Cond) (c : Cond) (t : String) (h : t ≠ c.type) :
    statusOf (setCond cs c) t = statusOf cs t := by
  rw [statusOf_eq, statusOf_eq, findC_setCond_ne _ _ _ h]

/-- `setCond` never removes a type -/
theorem findC_setCond_isSome (cs : List Cond) (c : Cond) (t : String) (h : (findC cs t).isSome) :
    (findC (setCond cs c) t).isSome := by
  by_cases e : t = c.type
  · subst e; rw [findC_setCond_self]; rfl
  · rw [findC_setCond_ne _ _ _ e]; exact h

theorem findC_isSome_of_mem (cs : List Cond) (c : Cond) (h : c ∈ cs) : (findC cs c.type).isSome := by
  unfold findC
  rw [List.find?_isSome]
  exact ⟨c, h, by simp⟩

/-! ### function conditions -/

/-- function conditions never touch a system condition type -/
theorem findC_applyFnConds_system (st : St) (fn : List FnCond) (t : String) (ht : isSystem t = true) :
    findC (applyFnConds st fn).1.conds t = findC st.conds t := by
  induction fn generalizing st with
  | nil => rfl
  | cons f fs ih =>
    unfold applyFnConds
    split
    · exact ih st
    · rename_i hf
      simp only []
      rw [ih]
      apply findC_setCond_ne
      intro e; rw [e] at ht; exact hf ht

theorem applyFnConds_system (st : St) (fn : List FnCond) (t : String) (ht : isSystem t = true) :
    statusOf (applyFnConds st fn).1.conds t = statusOf st.conds t := by
  rw [statusOf_eq, statusOf_eq, findC_applyFnConds_system _ _ _ ht]

/-- the last custom function condition of type `t` (later ones win) -/
def lastFn : List FnCond → String → Option Cond
  | [], _ => none
  | f :: fs, t =>
    match lastFn fs t with
    | some c => some c
    | none => if f.cond.type = t ∧ isSystem f.cond.type = false then some f.cond else none

theorem lastFn_none_of_system (fn : List FnCond) (t : String) (ht : isSystem t = true) : lastFn fn t = none := by
  induction fn with
  | nil => rfl
  | cons f fs ih =>
    unfold lastFn
    rw [ih]
    simp only []
    split
    · rename_i h; rw [h.1] at h; rw [ht] at h; exact absurd h.2 (by simp)
    · rfl

/-- after the function conditions: the last custom function condition of that type, else what was stored -/
theorem findC_applyFnConds (st : St) (fn : List FnCond) (t : String) :
    findC (applyFnConds st fn).1.conds t = (lastFn fn t).orElse (fun _ => findC st.conds t) := by
  induction fn generalizing st with
  | nil => rfl
  | cons f fs ih =>
    unfold applyFnConds lastFn
    split
    · rename_i hs
      rw [ih]
      cases lastFn fs t with
      | some c => rfl
      | none =>
        have : ¬ (f.cond.type = t ∧ isSystem f.cond.type = false) := by
          intro h; rw [hs] at h; exact absurd h.2 (by simp)
        simp [this]
    · rename_i hs
      simp only []
      rw [ih]
      cases lastFn fs t with
      | some c => rfl
      | none =>
        have hs' : isSystem f.cond.type = false := by simpa using hs
        by_cases e : f.cond.type = t
        · have hif : (if f.cond.type = t ∧ isSystem f.cond.type = false then some f.cond else none) = some f.cond :=
            if_pos ⟨e, hs'⟩
          rw [hif]
          have := findC_setCond_self st.conds f.cond
          rw [e] at this
          simpa using this
        · have hif : (if f.cond.type = t ∧ isSystem f.cond.type = false then some f.cond else none) = none :=
            if_neg (fun h => e h.1)
          rw [hif]
          simpa using findC_setCond_ne st.conds f.cond t (Ne.symm e)

/-- the types reported as seen are exactly those with a custom function condition -/
theorem applyFnConds_seen (st : St) (fn : List FnCond) (t : String) :
    (applyFnConds st fn).2.contains t = (lastFn fn t).isSome := by
  induction fn generalizing st with
  | nil => rfl
  | cons f fs ih =>
    unfold applyFnConds lastFn
    split
    · rename_i hs
      rw [ih]
      cases lastFn fs t with
      | some c => rfl
      | none =>
        have : ¬ (f.cond.type = t ∧ isSystem f.cond.type = false) := by
          intro h; rw [hs] at h; exact absurd h.2 (by simp)
        simp [this]
    · rename_i hs
      have hs' : isSystem f.cond.type = false := by simpa using hs
      simp only [List.contains_cons]
      rw [ih]
      cases lastFn fs t with
      | some c => simp
      | none =>
        by_cases e : f.cond.type = t
        · have hif : (if f.cond.type = t ∧ isSystem f.cond.type = false then some f.cond else none) = some f.cond :=
            if_pos ⟨e, hs'⟩
          rw [hif]
          simp [e]
        · have hif : (if f.cond.type = t ∧ isSystem f.cond.type = false then some f.cond else none) = none :=
            if_neg (fun h => e h.1)
          rw [hif]
          have : (t == f.cond.type) = false := by
            rw [beq_eq_false_iff_ne]; exact Ne.symm e
          rw [this]; rfl

/-- function conditions never add a system type to status.claimConditionTypes -/
theorem applyFnConds_claimTypes (st : St) (fn : List FnCond) (t : String)
    (h : t ∈ (applyFnConds st fn).1.claimTypes) : t ∈ st.claimTypes ∨ isSystem t = false := by
  induction fn generalizing st with
  | nil => exact Or.inl h
  | cons f fs ih =>
    unfold applyFnConds at h
    split at h
    · exact ih st h
    · rename_i hs
      have hs' : isSystem f.cond.type = false := by simpa using hs
      simp only [] at h
      rcases ih _ h with h1 | h1
      · simp only [] at h1
        split at h1
        · rw [List.mem_append] at h1
          rcases h1 with h1 | h1
          · exact Or.inl h1
          · simp at h1; subst h1; exact Or.inr hs'
        · exact Or.inl h1
      · exact Or.inr h1

/-! ### the fatal-error loop -/

theorem findC_markUnknown_other (seen : List String) (snap cs : List Cond) (t : String)
    (ht : isSystem t = true ∨ seen.contains t = true) :
    findC (markUnknown seen snap cs) t = findC cs t := by
  unfold markUnknown
  induction snap generalizing cs with
  | nil => rfl
  | cons c rest ih =>
    simp only [List.foldl]
    split
    · exact ih cs
    · rename_i h
      rw [ih]
      apply findC_setCond_ne
      intro e
      simp only [Bool.or_eq_true, not_or] at h
      rw [e] at ht
      rcases ht with ht | ht
      · exact h.1 ht
      · exact h.2 ht

theorem markUnknown_system (seen : List String) (snap cs : List Cond) (t : String) (ht : isSystem t = true) :
    statusOf (markUnknown seen snap cs) t = statusOf cs t := by
  rw [statusOf_eq, statusOf_eq, findC_markUnknown_other _ _ _ _ (Or.inl ht)]

/-- once a type is Unknown/FatalError the rest of the loop keeps it so -/
theorem findC_markUnknown_keep (seen : List String) (snap cs : List Cond) (t : String)
    (h : findC cs t = some ⟨t, "Unknown", "FatalError"⟩) :
    findC (markUnknown seen snap cs) t = some ⟨t, "Unknown", "FatalError"⟩ := by
  unfold markUnknown
  induction snap generalizing cs with
  | nil => exact h
  | cons c rest ih =>
    simp only [List.foldl]
    split
    · exact ih cs h
    · apply ih
      by_cases e : t = c.type
      · subst e; exact findC_setCond_self cs ⟨c.type, "Unknown", "FatalError"⟩
      · rw [findC_setCond_ne cs ⟨c.type, "Unknown", "FatalError"⟩ t e]; exact h

/-- a custom type present in the snapshot and not seen ends Unknown/FatalError -/
theorem findC_markUnknown_unknown (seen : List String) (snap cs : List Cond) (t : String)
    (hs : isSystem t = false) (hseen : seen.contains t = false) (hsnap : (findC snap t).isSome) :
    findC (markUnknown seen snap cs) t = some ⟨t, "Unknown", "FatalError"⟩ := by
  induction snap generalizing cs with
  | nil => simp [findC] at hsnap
  | cons c rest ih =>
    by_cases e : c.type = t
    · have hskip : ¬ ((isSystem c.type || seen.contains c.type) = true) := by
        rw [e, hs, hseen]; simp
      have : markUnknown seen (c :: rest) cs = markUnknown seen rest (setCond cs ⟨c.type, "Unknown", "FatalError"⟩) := by
        unfold markUnknown
        rw [List.foldl_cons, if_neg hskip]
      rw [this]
      apply findC_markUnknown_keep
      rw [e]
      exact findC_setCond_self cs ⟨t, "Unknown", "FatalError"⟩
    · have hrest : (findC rest t).isSome := by
        simp only [findC, List.find?, e, decide_false] at hsnap
        exact hsnap
      have : markUnknown seen (c :: rest) cs =
          markUnknown seen rest (if (isSystem c.type || seen.contains c.type) = true then cs
            else setCond cs ⟨c.type, "Unknown", "FatalError"⟩) := by
        unfold markUnknown
        rw [List.foldl_cons]
      rw [this]
      exact ih _ hrest

theorem ready_isSystem : isSystem "Ready" = true := by decide
theorem synced_isSystem : isSystem "Synced" = true := by decide

theorem readyCond_type (composed : List Res) (explicit : Option Bool) : (readyCond composed explicit).type = "Ready" := by
  unfold readyCond; cases explicit with
  | none => simp only []; split <;> rfl
  | some b => cases b <;> rfl

theorem syncedCond_type (composed : List Res) : (syncedCond composed).type = "Synced" := by
  unfold syncedCond; split <;> rfl

theorem readyCond_true_iff (composed : List Res) (explicit : Option Bool) :
    (readyCond composed explicit).status = "True" ↔
      (explicit = some true ∨ (explicit = none ∧ ∀ r ∈ composed, r.ready = true)) := by
  unfold readyCond
  cases explicit with
  | none =>
    simp only [List.all_eq_true]
    split <;> simp_all [available, creating]
  | some b => cases b <;> simp [available, creating]

theorem syncedCond_true_iff (composed : List Res) :
    (syncedCond composed).status = "True" ↔ ∀ r ∈ composed, r.synced = true := by
  unfold syncedCond
  simp only [List.all_eq_true]
  split <;> simp_all [reconcileSuccess, reconcileError]

/-! ### the two outcomes of a reconcile that writes -/

theorem findC_composeOk_ready (old : St) (composed : List Res) (explicit : Option Bool) (fn : List FnCond) :
    findC (composeOk old composed explicit fn).conds "Ready" = some (readyCond composed explicit) := by
  unfold composeOk
  simp only []
  have := findC_setCond_self (setCond (applyFnConds old fn).1.conds (syncedCond composed)) (readyCond composed explicit)
  rw [readyCond_type] at this
  exact this

theorem findC_composeOk_synced (old : St) (composed : List Res) (explicit : Option Bool) (fn : List FnCond) :
    findC (composeOk old composed explicit fn).conds "Synced" = some (syncedCond composed) := by
  unfold composeOk
  simp only []
  rw [findC_setCond_ne _ _ "Synced" (by rw [readyCond_type]; decide)]
  have := findC_setCond_self (applyFnConds old fn).1.conds (syncedCond composed)
  rw [syncedCond_type] at this
  exact this

theorem findC_composeError_ready (old : St) (fn : List FnCond) :
    findC (composeError old fn).conds "Ready" = findC old.conds "Ready" := by
  unfold composeError
  simp only []
  rw [findC_markUnknown_other _ _ _ _ (Or.inl ready_isSystem), findC_applyFnConds_system _ _ _ ready_isSystem]
  exact findC_setCond_ne _ _ _ (by decide)

theorem findC_composeError_synced (old : St) (fn : List FnCond) :
    findC (composeError old fn).conds "Synced" = some reconcileError := by
  unfold composeError
  simp only []
  rw [findC_markUnknown_other _ _ _ _ (Or.inl synced_isSystem), findC_applyFnConds_system _ _ _ synced_isSystem]
  exact findC_setCond_self old.conds reconcileError

/-! ### the desired XR status applied by the function composer -/

/-- applying custom conditions never touches a system condition type -/
theorem findC_mergeStatus_system (cs sc : List Cond) (t : String) (ht : isSystem t = true) :
    findC (mergeStatus cs (customOnly sc)) t = findC cs t := by
  unfold mergeStatus customOnly
  induction sc generalizing cs with
  | nil => rfl
  | cons c rest ih =>
    simp only [List.filter_cons]
    split
    · rename_i hc
      simp only [List.foldl_cons]
      rw [ih]
      apply findC_setCond_ne
      intro e
      rw [e] at ht
      simp [ht] at hc
    · exact ih cs

theorem customOnly_nil_of_nil : customOnly [] = [] := rfl

end Xp.C05

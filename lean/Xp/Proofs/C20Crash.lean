import Xp.Proofs.C20Init
/-
C20 helper lemmas, part 14: the package hypotheses of idempotence survive an
installer run that is aborted anywhere – so `crash_then_rerun` can state them for
the ORIGINAL cluster.
-/
namespace Xp.C20
open Xp

variable {α β : Type}

/-- the requests resolved in the start state, per kind -/
structure Lists (p c f : List Img) (s : Store) where
  ps : Reqs
  cs : Reqs
  fs : Reqs
  hp : buildAll resolve (buildIndex (listing s .provider)) p = some ps
  hc : buildAll resolve (buildIndex (listing s .configuration)) c = some cs
  hf : buildAll resolve (buildIndex (listing s .function)) f = some fs

def Lists.of {p c f : List Img} {s : Store} (L : Lists p c f s) : PKind → Reqs
  | .provider => L.ps
  | .configuration => L.cs
  | .function => L.fs

/-- a package carries the request of its kind and name -/
def Carries (l : PKind → Reqs) (q : Pkg) : Prop := ∃ nr ∈ l q.kind, nr.1 = q.name ∧ q.ref = some nr.2

/-- every package is an original or carries a request; every original is still there or was re-pointed by the
request of its name -/
def Partial (l : PKind → Reqs) (s x : Store) : Prop :=
  (∀ q ∈ x.pkgs, q ∈ s.pkgs ∨ Carries l q) ∧
  (∀ q₀ ∈ s.pkgs, ∃ q ∈ x.pkgs, q.kind = q₀.kind ∧ q.name = q₀.name ∧ (q = q₀ ∨ Carries l q))

theorem partial_refl (l : PKind → Reqs) (s : Store) : Partial l s s :=
  ⟨fun _ h => Or.inl h, fun q₀ h => ⟨q₀, h, rfl, rfl, Or.inl rfl⟩⟩

/-- the writes of the installer body, given the resolved lists -/
def ListReq (l : PKind → Reqs) : Req → Prop
  | .createPkg p => p.extra = 0 ∧ ∃ nr ∈ l p.kind, nr.1 = p.name ∧ p.ref = some nr.2 ∧ p.raw = nr.2.str
  | .patchPkg k n r => (n, r) ∈ l k
  | r => r.comp ≠ some .pkgs

theorem exec_partial {l : PKind → Reqs} {s x : Store} {r : Req} (h : Partial l s x) (hq : ListReq l r) :
    Partial l s (exec x r).1 := by
  obtain ⟨h1, h2⟩ := h
  by_cases hc : r.comp = some .pkgs
  · cases r <;> simp [Req.comp] at hc
    case createPkg p =>
      obtain ⟨_, nr, hnr, hn, hr, _⟩ := hq
      simp only [exec]
      split
      · exact ⟨h1, h2⟩
      · refine ⟨?_, ?_⟩
        · intro q hqm
          simp only [List.mem_append, List.mem_singleton] at hqm
          rcases hqm with hqm | hqm
          · exact h1 q hqm
          · subst hqm; exact Or.inr ⟨nr, hnr, hn, hr⟩
        · intro q₀ hq₀
          obtain ⟨q, hqm, e1, e2, e3⟩ := h2 q₀ hq₀
          exact ⟨q, by simp [hqm], e1, e2, e3⟩
    case patchPkg k n r =>
      simp only [ListReq] at hq
      simp only [exec]
      split
      · exact ⟨h1, h2⟩
      · refine ⟨?_, ?_⟩
        · intro q hqm
          simp only [List.mem_map] at hqm
          obtain ⟨q1, hq1, e⟩ := hqm
          by_cases hm : q1.kind = k ∧ q1.name = n
          · simp [hm] at e; subst e
            exact Or.inr ⟨(n, r), by simpa [hm.1] using hq, by simp [hm.2], rfl⟩
          · simp [hm] at e; subst e; exact h1 q1 hq1
        · intro q₀ hq₀
          obtain ⟨q, hqm, e1, e2, e3⟩ := h2 q₀ hq₀
          by_cases hm : q.kind = k ∧ q.name = n
          · refine ⟨{ q with raw := r.str, ref := some r }, ?_, e1, e2, Or.inr ⟨(n, r), by simpa [hm.1] using hq, by simp [hm.2], rfl⟩⟩
            simp only [List.mem_map]
            exact ⟨q, hqm, by simp [hm]⟩
          · refine ⟨q, ?_, e1, e2, e3⟩
            simp only [List.mem_map]
            exact ⟨q, hqm, by simp [hm]⟩
  · have e := frame_pkgs x r hc
    exact ⟨fun q hq' => h1 q (e ▸ hq'), fun q₀ hq₀ => by
      obtain ⟨q, hqm, r1, r2, r3⟩ := h2 q₀ hq₀
      exact ⟨q, e ▸ hqm, r1, r2, r3⟩⟩

theorem applyPkg_issues_list (l : PKind → Reqs) (k : PKind) (nr : String × Ref) (h : nr ∈ l k) :
    Issues (ListReq l) (applyPkg k nr) := by
  unfold applyPkg
  refine .call _ _ (by simp [ListReq, Req.comp]) ?_
  intro x
  split
  · refine .call _ _ ⟨rfl, nr, h, rfl, rfl, rfl⟩ ?_
    intro y; exact okOr_issues _ _ _
  · refine .call _ _ (by simpa [ListReq] using h) ?_
    intro y; exact okOr_issues _ _ _
  · exact .ret _

theorem installApply_issues_list (l : PKind → Reqs) :
    Issues (ListReq l) (installApply (l .provider) (l .configuration) (l .function)) := by
  unfold installApply
  refine issues_bind (issues_forEach_mem _ fun a ha => applyPkg_issues_list l _ a ha) ?_
  intro r; split
  · refine issues_bind (issues_forEach_mem _ fun a ha => applyPkg_issues_list l _ a ha) ?_
    intro r; split
    · exact issues_forEach_mem _ fun a ha => applyPkg_issues_list l _ a ha
    · exact .ret _
  · exact .ret _

/-- at every instant of the installer step the store is a partial application of the resolved lists -/
theorem installStep_partial (plan : Plan) (k : Nat) (s : Store) (p c f : List Img) (L : Lists p c f s) :
    ∀ x ∈ reach sem plan k (installStep p c f) s, Partial L.of s x := by
  unfold installStep installWith
  refine reach_listOf _ plan _ _ k s (partial_refl _ s) fun k1 => ?_
  refine reach_listOf _ plan _ _ k1 s (partial_refl _ s) fun k2 => ?_
  refine reach_listOf _ plan _ _ k2 s (partial_refl _ s) fun k3 => ?_
  rw [installBody_eval p c f _ _ _ L.ps L.cs L.fs L.hp L.hc L.hf]
  exact reach_inv sem (Partial L.of s) (ListReq L.of) (fun _ _ hi hq => exec_partial hi hq) plan k3 _
    (installApply_issues_list L.of) s (partial_refl _ s)

/-- without valid lists the step writes nothing -/
theorem installStep_noLists (plan : Plan) (k : Nat) (s : Store) (p c f : List Img)
    (h : buildAll resolve (buildIndex (listing s .provider)) p = none ∨
         buildAll resolve (buildIndex (listing s .configuration)) c = none ∨
         buildAll resolve (buildIndex (listing s .function)) f = none) :
    ∀ x ∈ reach sem plan k (installStep p c f) s, x = s := by
  unfold installStep installWith
  refine reach_listOf (fun x => x = s) plan _ _ k s rfl fun k1 => ?_
  refine reach_listOf (fun x => x = s) plan _ _ k1 s rfl fun k2 => ?_
  refine reach_listOf (fun x => x = s) plan _ _ k2 s rfl fun k3 => ?_
  intro x hx
  have : installBody resolve p c f (listing s .provider) (listing s .configuration) (listing s .function) =
      .ret (.err "install: parse") := by
    unfold installBody
    rcases h with h | h | h
    · simp [h]
    · cases hp : buildAll resolve (buildIndex (listing s .provider)) p <;> simp [h]
    · cases hp : buildAll resolve (buildIndex (listing s .provider)) p <;>
        cases hc : buildAll resolve (buildIndex (listing s .configuration)) c <;> simp [h]
  rw [this] at hx
  simp [reach] at hx
  exact hx

/-! ### resolution is stable in a partial application -/

theorem partial_resolve (l : PKind → Reqs) (k : PKind) (s x : Store) (hpart : Partial l s x)
    (hl : ∀ nr ∈ l k, nr.1 = resolve (buildIndex (listing s k)) nr.2)
    (hnames : ((l k).map (·.1)).Nodup) (hsrc : ((l k).map (·.2.src)).Nodup) (huniq : SrcUnique s) :
    ∀ nr ∈ l k, resolve (buildIndex (listing x k)) nr.2 = nr.1 := by
  intro nr hnr
  obtain ⟨h1, h2⟩ := hpart
  -- every candidate in x is named nr.1
  have hcand : ∀ q ∈ listing x k, HasSrc q nr.2.src → q.name = nr.1 := by
    intro q hq hqs
    obtain ⟨hqm, hqk⟩ := (mem_listing _ _ _).mp hq
    rcases h1 q hqm with hin | ⟨nr', hnr', hname, href⟩
    · obtain ⟨q', hq', hq's, hres'⟩ := resolve_hits (listing s k) nr.2 ⟨q, (mem_listing _ _ _).mpr ⟨hin, hqk⟩, hqs⟩
      obtain ⟨hq'm, hq'k⟩ := (mem_listing _ _ _).mp hq'
      rw [huniq q hin q' hq'm (hqk.trans hq'k.symm) nr.2.src hqs hq's, ← hres', ← hl nr hnr]
    · rw [hqk] at hnr'
      obtain ⟨r, hr, hs⟩ := hqs
      rw [href] at hr; cases hr
      have : nr' = nr := nodup_map_inj hsrc hnr' hnr hs
      rw [← hname, this]
  by_cases hex : ∃ q ∈ listing x k, HasSrc q nr.2.src
  · obtain ⟨q, hq, hqs, hres⟩ := resolve_hits (listing x k) nr.2 hex
    rw [hres]; exact hcand q hq hqs
  · -- no candidate in x: then there was none in s either, and both resolve to the default name
    have hnone : ¬ ∃ q ∈ listing s k, HasSrc q nr.2.src := by
      rintro ⟨q₀, hq₀, hq₀s⟩
      obtain ⟨hq₀m, hq₀k⟩ := (mem_listing _ _ _).mp hq₀
      obtain ⟨q, hqm, e1, e2, e3⟩ := h2 q₀ hq₀m
      apply hex
      rcases e3 with rfl | ⟨nr', hnr', hname, href⟩
      · exact ⟨q, (mem_listing _ _ _).mpr ⟨hqm, hq₀k⟩, hq₀s⟩
      · -- re-pointed by the request of its name: that request is nr itself
        obtain ⟨q', hq', hq's, hres'⟩ := resolve_hits (listing s k) nr.2 ⟨q₀, hq₀, hq₀s⟩
        obtain ⟨hq'm, hq'k⟩ := (mem_listing _ _ _).mp hq'
        have hn0 : q₀.name = nr.1 := by
          rw [huniq q₀ hq₀m q' hq'm (hq₀k.trans hq'k.symm) nr.2.src hq₀s hq's, ← hres', ← hl nr hnr]
        rw [e1.trans hq₀k] at hnr'
        have : nr' = nr := nodup_map_inj hnames hnr' hnr (by rw [hname, e2, hn0])
        subst this
        exact ⟨q, (mem_listing _ _ _).mpr ⟨hqm, e1.trans hq₀k⟩, nr'.2, href, rfl⟩
    have hx : lookupIndex (buildIndex (listing x k)) nr.2.src = none := by
      cases hlk : lookupIndex (buildIndex (listing x k)) nr.2.src with
      | none => rfl
      | some nm =>
        obtain ⟨q, hq, _, hs⟩ := lookup_sound _ _ _ hlk
        exact absurd ⟨q, hq, hs⟩ hex
    have hs' : lookupIndex (buildIndex (listing s k)) nr.2.src = none := by
      cases hlk : lookupIndex (buildIndex (listing s k)) nr.2.src with
      | none => rfl
      | some nm =>
        obtain ⟨q, hq, _, hs⟩ := lookup_sound _ _ _ hlk
        exact absurd ⟨q, hq, hs⟩ hnone
    rw [hl nr hnr]
    simp [resolve, hx, hs']

theorem partial_srcUnique (l : PKind → Reqs) (s x : Store) (hpart : Partial l s x)
    (hl : ∀ k, ∀ nr ∈ l k, nr.1 = resolve (buildIndex (listing s k)) nr.2)
    (hsrc : ∀ k, ((l k).map (·.2.src)).Nodup) (huniq : SrcUnique s) : SrcUnique x := by
  obtain ⟨h1, _⟩ := hpart
  -- the name of a package with a given source, whichever way it got there
  have key : ∀ q ∈ x.pkgs, ∀ q' ∈ x.pkgs, q.kind = q'.kind → ∀ src, HasSrc q src → HasSrc q' src →
      q ∈ s.pkgs → q.name = q'.name := by
    intro q hq q' hq' hk src hqs hq's hin
    rcases h1 q' hq' with hin' | ⟨nr', hnr', hname', href'⟩
    · exact huniq q hin q' hin' hk src hqs hq's
    · obtain ⟨r', hr', hs'⟩ := hq's
      rw [href'] at hr'; cases hr'
      -- nr' resolved in s to the package of s with that source, which is q
      obtain ⟨q'', hq'', hq''s, hres⟩ := resolve_hits (listing s q'.kind) nr'.2
        ⟨q, (mem_listing _ _ _).mpr ⟨hin, hk⟩, by rw [hs']; exact hqs⟩
      obtain ⟨hq''m, hq''k⟩ := (mem_listing _ _ _).mp hq''
      rw [← hname', hl q'.kind nr' hnr', hres]
      exact huniq q hin q'' hq''m (hk.trans hq''k.symm) nr'.2.src (by rw [hs']; exact hqs) hq''s
  intro q hq q' hq' hk src hqs hq's
  rcases h1 q hq with hin | ⟨nr, hnr, hname, href⟩
  · exact key q hq q' hq' hk src hqs hq's hin
  · rcases h1 q' hq' with hin' | ⟨nr', hnr', hname', href'⟩
    · exact (key q' hq' q hq hk.symm src hq's hqs hin').symm
    · obtain ⟨r, hr, hs⟩ := hqs
      obtain ⟨r', hr', hs'⟩ := hq's
      rw [href] at hr; cases hr
      rw [href'] at hr'; cases hr'
      rw [← hk] at hnr'
      have : nr = nr' := nodup_map_inj (hsrc q.kind) hnr hnr' (hs.trans hs'.symm)
      rw [← hname, ← hname', this]

/-- the package hypotheses hold at every instant of an installer run, whatever the fault plan -/
theorem installHyp_reach (plan : Plan) (k : Nat) (s : Store) (p c f : List Img) (hyp : InstallHyp p c f s) :
    ∀ x ∈ reach sem plan k (installStep p c f) s, InstallHyp p c f x := by
  intro x hx
  cases hp : buildAll resolve (buildIndex (listing s .provider)) p with
  | none => rw [installStep_noLists plan k s p c f (Or.inl hp) x hx]; exact hyp
  | some ps =>
  cases hc : buildAll resolve (buildIndex (listing s .configuration)) c with
  | none => rw [installStep_noLists plan k s p c f (Or.inr (Or.inl hc)) x hx]; exact hyp
  | some cs =>
  cases hf : buildAll resolve (buildIndex (listing s .function)) f with
  | none => rw [installStep_noLists plan k s p c f (Or.inr (Or.inr hf)) x hx]; exact hyp
  | some fs =>
  let L : Lists p c f s := ⟨ps, cs, fs, hp, hc, hf⟩
  have hpart := installStep_partial plan k s p c f L x hx
  have hl : ∀ k, ∀ nr ∈ L.of k, nr.1 = resolve (buildIndex (listing s k)) nr.2 := by
    intro k; cases k
    · exact buildAll_mem _ _ _ _ hp
    · exact buildAll_mem _ _ _ _ hc
    · exact buildAll_mem _ _ _ _ hf
  have hnm : ∀ k, ((L.of k).map (·.1)).Nodup ∧ ((L.of k).map (·.2.src)).Nodup := by
    intro k; cases k
    · exact hyp.prov ps hp
    · exact hyp.conf cs hc
    · exact hyp.func fs hf
  have hres : ∀ k, ∀ nr ∈ L.of k, resolve (buildIndex (listing x k)) nr.2 = nr.1 := fun k =>
    partial_resolve L.of k s x hpart (hl k) (hnm k).1 (hnm k).2 hyp.uniq
  have bp := buildAll_resolve_eq _ (buildIndex (listing x .provider)) p ps hp (hres .provider)
  have bc := buildAll_resolve_eq _ (buildIndex (listing x .configuration)) c cs hc (hres .configuration)
  have bf := buildAll_resolve_eq _ (buildIndex (listing x .function)) f fs hf (hres .function)
  refine ⟨fun l' h' => ?_, fun l' h' => ?_, fun l' h' => ?_, partial_srcUnique L.of s x hpart hl (fun k => (hnm k).2) hyp.uniq⟩
  · rw [bp] at h'; cases h'; exact hnm .provider
  · rw [bc] at h'; cases h'; exact hnm .configuration
  · rw [bf] at h'; cases h'; exact hnm .function

/-- ... and of a whole initializer run -/
theorem initHyp_reach (g : Generator) (cfg : Cfg) (plan : Plan) (k n d : Nat) (s : Store) (hyp : InitHyp cfg s) :
    ∀ x ∈ reach sem plan k (runSteps g (initSteps cfg) n d) s, InitHyp cfg x := by
  have hstep : ∀ st ∈ initSteps cfg, ∀ (plan : Plan) (k n : Nat) (t : Store), ∀ x ∈ reach sem plan k (st.prog g n) t,
      ∀ s₀ : Store, InstallHyp cfg.p cfg.c cfg.f t → InstallHyp cfg.p cfg.c cfg.f x := by
    intro st hst plan k n t x hx _ ht
    by_cases hi : isInstall st = true
    · -- the only installer step of the list installs cfg's images
      have : st = .install cfg.p cfg.c cfg.f := by
        unfold initSteps at hst
        cases st <;> simp [isInstall] at hi
        simp only [List.mem_append, List.mem_cons, List.mem_map, List.mem_singleton] at hst
        rcases hst with (((h | h) | h) | h) | h
        · rcases h with h | h <;> cases h
        · split at h <;> simp at h
        · obtain ⟨m, _, h⟩ := h; cases h
        · split at h <;> simp at h
        · rcases h with h | h | h | h
          · cases h
          · exact h
          · cases h
          · simp at h
      subst this
      have hx' : x ∈ reach sem plan k (installStep cfg.p cfg.c cfg.f) t := by
        have := mem_reach_bind plan (installStep cfg.p cfg.c cfg.f) (fun r => (.ret (r, n) : P (Res × Nat))) k t x hx
        rcases this with h | ⟨a, k', _, h⟩
        · exact h
        · simp [reach] at h; rw [h]; exact run_mem_reach sem plan k _ t
      exact installHyp_reach plan k t cfg.p cfg.c cfg.f ht x hx'
    · have hc : stepComp st ≠ .pkgs := by cases st <;> simp [stepComp, isInstall] at hi ⊢
      have : x.pkgs = t.pkgs := by
        refine reach_inv sem (fun y => y.pkgs = t.pkgs) (Only (stepComp st)) ?_ plan k _ (step_issues_only g n st) t rfl x hx
        intro y r hy hq
        rw [← hy]
        refine frame_pkgs y r ?_
        rcases hq with e | e <;> simp [e]
        exact fun e' => hc e'
      exact installHyp_of_pkgs this ht
  intro x hx
  exact ⟨hyp.names, hyp.crds, hyp.whcs,
    runSteps_rel (fun _ y => InstallHyp cfg.p cfg.c cfg.f y) g (initSteps cfg) hstep plan k n d s s hyp.pkgs x hx⟩

end Xp.C20

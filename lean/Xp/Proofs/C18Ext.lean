import Xp.Proofs.C18Rec
import Xp.Proofs.C18Tree
import Xp.Model.C18Skel
/-
C18 helper lemmas, part 5: the string functions of DefinedResources / OrgDiffer over `String`
(splitFirst, firstSeg, groupOfAPIVersion, cutDot), OrgDiffer.Differs over the parser's answers,
and the independence of RenderClusterRoles' grants from the order its sort leaves.
-/
namespace Xp.C18
open Xp.Gen

/-! ## splitFirst -/

theorem splitFirst_some (c : Char) (l a b : List Char) :
    splitFirst c l = some (a, b) ↔ l = a ++ c :: b ∧ c ∉ a := by
  induction l generalizing a b with
  | nil => simp [splitFirst]
  | cons x xs ih =>
    unfold splitFirst
    by_cases hx : x = c
    · subst hx
      simp only [if_true, Option.some.injEq, Prod.mk.injEq]
      constructor
      · rintro ⟨rfl, rfl⟩; simp
      · rintro ⟨h, hn⟩
        cases a with
        | nil => simp at h; exact ⟨rfl, h⟩
        | cons y ys =>
          simp only [List.cons_append, List.cons.injEq] at h
          exact absurd (by rw [← h.1]; exact List.mem_cons_self ..) hn
    · simp only [if_neg hx]
      cases hs : splitFirst c xs with
      | none =>
        simp only [Option.map_none]
        constructor
        · intro h; cases h
        · rintro ⟨h, hn⟩
          cases a with
          | nil => simp at h; exact absurd h.1 hx
          | cons y ys =>
            simp only [List.cons_append, List.cons.injEq] at h
            have := (ih ys b).2 ⟨h.2, fun hm => hn (List.mem_cons_of_mem _ hm)⟩
            rw [hs] at this; cases this
      | some ab =>
        obtain ⟨a', b'⟩ := ab
        simp only [Option.map_some, Option.some.injEq, Prod.mk.injEq]
        have h' := (ih a' b').1 hs
        constructor
        · rintro ⟨rfl, rfl⟩
          refine ⟨by rw [h'.1]; rfl, ?_⟩
          intro hm
          rcases List.mem_cons.1 hm with e | e
          · exact hx e.symm
          · exact h'.2 e
        · rintro ⟨h, hn⟩
          cases a with
          | nil => simp at h; exact absurd h.1 hx
          | cons y ys =>
            simp only [List.cons_append, List.cons.injEq] at h
            have := (ih ys b).2 ⟨h.2, fun hm => hn (List.mem_cons_of_mem _ hm)⟩
            rw [hs] at this
            simp only [Option.some.injEq, Prod.mk.injEq] at this
            exact ⟨by rw [h.1, this.1], this.2⟩

theorem splitFirst_none (c : Char) (l : List Char) : splitFirst c l = none ↔ c ∉ l := by
  induction l with
  | nil => simp [splitFirst]
  | cons x xs ih =>
    unfold splitFirst
    by_cases hx : x = c
    · subst hx; simp
    · simp only [if_neg hx, Option.map_eq_none_iff, ih, List.mem_cons, not_or]
      exact ⟨fun h => ⟨fun e => hx e.symm, h⟩, fun h => h.2⟩

/-! ## firstSeg = strings.Split(s, "/")[0] -/

/-- the first path element contains no '/', and the string is that element alone or that element,
a '/', and a rest -/
theorem firstSeg_spec (s : String) :
    '/' ∉ (firstSeg s).toList ∧
    (firstSeg s = s ∨ ∃ rest : String, s = firstSeg s ++ "/" ++ rest) := by
  unfold firstSeg
  cases h : splitFirst '/' s.toList with
  | none =>
    exact ⟨(splitFirst_none _ _).1 h, Or.inl rfl⟩
  | some ab =>
    obtain ⟨a, b⟩ := ab
    obtain ⟨hl, hn⟩ := (splitFirst_some _ _ _ _).1 h
    refine ⟨by simpa using hn, Or.inr ⟨String.ofList b, ?_⟩⟩
    apply String.toList_inj.1
    simp [String.toList_append, hl]

/-- a repository path without '/' is its own first element; `org/rest` has first element `org` -/
theorem firstSeg_of_no_slash (s : String) (h : '/' ∉ s.toList) : firstSeg s = s := by
  unfold firstSeg
  rw [(splitFirst_none _ _).2 h]

theorem firstSeg_of_slash (org rest : String) (h : '/' ∉ org.toList) :
    firstSeg (org ++ "/" ++ rest) = org := by
  unfold firstSeg
  have : splitFirst '/' (org ++ "/" ++ rest).toList = some (org.toList, rest.toList) :=
    (splitFirst_some _ _ _ _).2 ⟨by simp [String.toList_append], h⟩
  rw [this]
  simp

/-! ## OrgDiffer.Differs -/

theorem orgDiffersParsed_eq (a b : Option Parsed) :
    orgDiffersParsed a b = orgDiffers (a.map Parsed.orgKey) (b.map Parsed.orgKey) := by
  cases a with
  | none => rfl
  | some x =>
    cases b with
    | none => rfl
    | some y =>
      simp only [orgDiffersParsed, orgDiffers, Option.map_some, Parsed.orgKey]
      rw [Bool.eq_iff_iff]
      by_cases hr : x.registry = y.registry
      · by_cases ho : firstSeg x.repo = firstSeg y.repo <;> simp [hr, ho, bne_iff_ne]
      · simp [hr, bne_iff_ne]

theorem orgDiffersParsed_false (a b : Option Parsed) :
    orgDiffersParsed a b = false ↔
      ∃ x y, a = some x ∧ b = some y ∧ x.registry = y.registry ∧ firstSeg x.repo = firstSeg y.repo := by
  cases a with
  | none => simp [orgDiffersParsed]
  | some x =>
    cases b with
    | none => simp [orgDiffersParsed]
    | some y =>
      simp only [orgDiffersParsed, Option.some.injEq, exists_and_left, exists_eq_left']
      by_cases hr : x.registry = y.registry
      · by_cases ho : firstSeg x.repo = firstSeg y.repo <;> simp [hr, ho]
      · simp [hr]

/-! ## DefinedResources over String -/

/-- schema.ParseGroupVersion(av).Group is `g` (non-empty) exactly for `g/version` with a
'/'-free version and a '/'-free group -/
theorem groupOfAPIVersion_eq (av g : String) (hg : g ≠ "") :
    groupOfAPIVersion av = g ↔
      ∃ v : String, av = g ++ "/" ++ v ∧ '/' ∉ g.toList ∧ '/' ∉ v.toList := by
  unfold groupOfAPIVersion
  cases h : splitFirst '/' av.toList with
  | none =>
    simp only
    constructor
    · intro e; exact absurd e.symm hg
    · rintro ⟨v, rfl, _, _⟩
      have := (splitFirst_none _ _).1 h
      simp [String.toList_append] at this
  | some ab =>
    obtain ⟨a, b⟩ := ab
    obtain ⟨hl, hn⟩ := (splitFirst_some _ _ _ _).1 h
    simp only
    by_cases hb : '/' ∈ b
    · have hc : (b.contains '/') = true := by simpa using hb
      simp only [hc, if_true]
      constructor
      · intro e; exact absurd e.symm hg
      · rintro ⟨v, rfl, hng, hnv⟩
        have h2 := (splitFirst_some '/' (g ++ "/" ++ v).toList g.toList v.toList).2
          ⟨by simp [String.toList_append], hng⟩
        rw [h] at h2
        simp only [Option.some.injEq, Prod.mk.injEq] at h2
        exact absurd (h2.2 ▸ hb) hnv
    · have hc : (b.contains '/') = false := by simpa using hb
      simp only [hc, Bool.false_eq_true, if_false]
      constructor
      · intro e
        refine ⟨String.ofList b, ?_, by rw [← e]; simpa using hn, by simpa using hb⟩
        apply String.toList_inj.1
        rw [← e]
        simp [String.toList_append, hl]
      · rintro ⟨v, rfl, hng, _⟩
        have h2 := (splitFirst_some '/' (g ++ "/" ++ v).toList g.toList v.toList).2
          ⟨by simp [String.toList_append], hng⟩
        rw [h] at h2
        simp only [Option.some.injEq, Prod.mk.injEq] at h2
        rw [h2.1]; simp

/-- strings.Cut(name, "."): `name = plural.group` with a '.'-free plural -/
theorem cutDot_eq (name p g : String) :
    cutDot name = some (p, g) ↔ name = p ++ "." ++ g ∧ '.' ∉ p.toList := by
  unfold cutDot
  cases h : splitFirst '.' name.toList with
  | none =>
    simp only [Option.map_none]
    constructor
    · intro e; cases e
    · rintro ⟨rfl, _⟩
      have := (splitFirst_none _ _).1 h
      simp [String.toList_append] at this
  | some ab =>
    obtain ⟨a, b⟩ := ab
    obtain ⟨hl, hn⟩ := (splitFirst_some _ _ _ _).1 h
    simp only [Option.map_some, Option.some.injEq, Prod.mk.injEq]
    constructor
    · rintro ⟨rfl, rfl⟩
      refine ⟨?_, by simpa using hn⟩
      apply String.toList_inj.1
      simp [String.toList_append, hl]
    · rintro ⟨rfl, hnp⟩
      have h2 := (splitFirst_some '.' (p ++ "." ++ g).toList p.toList g.toList).2
        ⟨by simp [String.toList_append], hnp⟩
      rw [h] at h2
      simp only [Option.some.injEq, Prod.mk.injEq] at h2
      rw [h2.1, h2.2]; simp

/-! ## Rule.path identifies the rule -/

/-- the shape of every rule Expand produces: a URL rule carries no group / resource / name -/
def Rule.Normal (r : Rule) : Prop :=
  r.nonResourceURL ≠ "" → r.apiGroup = "" ∧ r.resource = "" ∧ r.resourceName = ""

theorem expand_normal (X : List PolicyRule) (r : Rule) (h : r ∈ expand X) : r.Normal := by
  obtain ⟨o, _, ho⟩ := (mem_expand X r).1 h
  rcases (mem_expandOne o r).1 ho with ⟨u, _, v, _, rfl⟩ | ⟨g, _, rs, _, n, _, v, _, rfl⟩
  · intro _; exact ⟨rfl, rfl, rfl⟩
  · intro hne; exact absurd rfl hne

theorem path_injective (r1 r2 : Rule) (h1 : r1.Normal) (h2 : r2.Normal) (hp : r1.path = r2.path) : r1 = r2 := by
  obtain ⟨g1, s1, n1, u1, v1⟩ := r1
  obtain ⟨g2, s2, n2, u2, v2⟩ := r2
  simp only [Rule.Normal] at h1 h2
  by_cases e1 : u1 = "" <;> by_cases e2 : u2 = ""
  · subst e1; subst e2
    simp [Rule.path] at hp
    simp [hp]
  · subst e1
    simp [Rule.path, e2] at hp
  · subst e2
    simp [Rule.path, e1] at hp
  · obtain ⟨rfl, rfl, rfl⟩ := h1 e1
    obtain ⟨rfl, rfl, rfl⟩ := h2 e2
    simp [Rule.path, e1, e2] at hp
    simp [hp]

/-! ## RenderClusterRoles: what is granted does not depend on the order the sort leaves -/

theorem groupsOf_mem (rs : List Resource) (x : Resource) (hx : x ∈ rs) : x.group ∈ groupsOf rs := by
  induction rs with
  | nil => cases hx
  | cons r rest ih =>
    simp only [groupsOf, List.mem_cons, List.mem_filter]
    rcases List.mem_cons.1 hx with rfl | h
    · exact Or.inl rfl
    · by_cases e : x.group = r.group
      · exact Or.inl e
      · exact Or.inr ⟨ih h, by simpa using e⟩

theorem mem_groupsOf_iff (rs : List Resource) (g : String) : g ∈ groupsOf rs ↔ ∃ x ∈ rs, x.group = g :=
  ⟨mem_groupsOf rs g, fun ⟨x, hx, e⟩ => e ▸ groupsOf_mem rs x hx⟩

theorem mem_resourcesOfGroup_iff (rs : List Resource) (g r : String) :
    r ∈ resourcesOfGroup rs g ↔ ∃ x ∈ rs, x.group = g ∧ (r = x.plural ∨ r = x.plural ++ prov_suffixStatus) := by
  simp only [resourcesOfGroup, List.mem_flatMap, List.mem_filter, List.mem_cons, List.not_mem_nil,
    or_false, decide_eq_true_eq]
  constructor
  · rintro ⟨x, ⟨hx, hg⟩, hr⟩; exact ⟨x, hx, hg, hr⟩
  · rintro ⟨x, hx, hg, hr⟩; exact ⟨x, ⟨hx, hg⟩, hr⟩

theorem any_congr_mem {α : Type} (l1 l2 : List α) (f : α → Bool) (h : ∀ x, x ∈ l1 ↔ x ∈ l2) :
    l1.any f = l2.any f := by
  apply Bool.eq_iff_iff.2
  simp only [List.any_eq_true]
  exact ⟨fun ⟨x, hx, hf⟩ => ⟨x, (h x).1 hx, hf⟩, fun ⟨x, hx, hf⟩ => ⟨x, (h x).2 hx, hf⟩⟩

/-- the authorizer's answer for a rule depends on its lists only as sets -/
theorem ruleAllows_congr (o o' : PolicyRule) (a : Attr)
    (hv : o.verbs = o'.verbs) (hg : ∀ x, x ∈ o.apiGroups ↔ x ∈ o'.apiGroups)
    (hr : ∀ x, x ∈ o.resources ↔ x ∈ o'.resources) (hn : o.resourceNames = o'.resourceNames)
    (hu : o.nonResourceURLs = o'.nonResourceURLs) : ruleAllows o a = ruleAllows o' a := by
  cases a with
  | res v g r sub n =>
    simp only [ruleAllows, hv, hn, any_congr_mem _ _ _ hg, any_congr_mem _ _ _ hr]
  | nonres v p =>
    simp only [ruleAllows, hv, hu]

/-- some rule of the list allows the request -/
def rulesAllow (rules : List PolicyRule) (a : Attr) : Bool := rules.any (ruleAllows · a)

theorem groupRules_allow_congr (l1 l2 : List Resource) (h : ∀ x, x ∈ l1 ↔ x ∈ l2) (verbs : List String) (a : Attr) :
    rulesAllow (withVerbs (groupRules l1) verbs) a = rulesAllow (withVerbs (groupRules l2) verbs) a := by
  have key : ∀ l1 l2 : List Resource, (∀ x, x ∈ l1 ↔ x ∈ l2) →
      rulesAllow (withVerbs (groupRules l1) verbs) a = true → rulesAllow (withVerbs (groupRules l2) verbs) a = true := by
    intro l1 l2 h h1
    simp only [rulesAllow, withVerbs, groupRules, List.map_map, List.any_eq_true, List.mem_map, Function.comp] at h1 ⊢
    obtain ⟨ρ, ⟨g, hg, rfl⟩, hρ⟩ := h1
    obtain ⟨x, hx, hxg⟩ := mem_groupsOf l1 g hg
    refine ⟨_, ⟨g, hxg ▸ groupsOf_mem l2 x ((h x).1 hx), rfl⟩, ?_⟩
    rw [← hρ]
    apply ruleAllows_congr <;> try rfl
    · intro y; exact Iff.rfl
    · intro r
      simp only [mem_resourcesOfGroup_iff]
      exact ⟨fun ⟨x, hx, hh⟩ => ⟨x, (h x).2 hx, hh⟩, fun ⟨x, hx, hh⟩ => ⟨x, (h x).1 hx, hh⟩⟩
  apply Bool.eq_iff_iff.2
  exact ⟨key l1 l2 h, key l2 l1 (fun x => (h x).symm)⟩

theorem ruleFinalizers_allow_congr (l1 l2 : List Resource) (h : ∀ x, x ∈ l1 ↔ x ∈ l2) (a : Attr) :
    ruleAllows (ruleFinalizers l1) a = ruleAllows (ruleFinalizers l2) a := by
  apply ruleAllows_congr <;> try rfl
  · intro g
    simp only [ruleFinalizers, mem_groupsOf_iff]
    exact ⟨fun ⟨x, hx, hh⟩ => ⟨x, (h x).1 hx, hh⟩, fun ⟨x, hx, hh⟩ => ⟨x, (h x).2 hx, hh⟩⟩
  · intro r; exact Iff.rfl

theorem rulesAllow_append (l1 l2 : List PolicyRule) (a : Attr) :
    rulesAllow (l1 ++ l2) a = (rulesAllow l1 a || rulesAllow l2 a) := by
  simp [rulesAllow, List.any_append]

theorem systemRules_allow_congr (p : PR) (l1 l2 : List Resource) (h : ∀ x, x ∈ l1 ↔ x ∈ l2) (a : Attr) :
    rulesAllow (systemRules p l1) a = rulesAllow (systemRules p l2) a := by
  simp only [systemRules, rulesAllow_append, groupRules_allow_congr l1 l2 h]
  have : rulesAllow [ruleFinalizers l1] a = rulesAllow [ruleFinalizers l2] a := by
    simp [rulesAllow, ruleFinalizers_allow_congr l1 l2 h a]
  rw [this]

theorem renderRoles_ordered (p : PR) (rs : List Resource) :
    renderRoles p rs = if rs.isEmpty then [] else renderRolesOrdered p (isort resourceLT rs) := rfl

end Xp.C18

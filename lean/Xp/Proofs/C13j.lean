import Xp.Model.C13Cache
/-
C13 helper lemmas, part j: the lock dance of cache.go (Model/C13Cache.lean) is atomic.
-/
namespace Xp.C13

theorem Mode.compat_symm (a b : Mode) : a.compat b = b.compat a := by
  cases a <;> cases b <;> rfl

theorem Mode.compat_n (a : Mode) : a.compat .n = true := by cases a <;> rfl

theorem cfree_spec {s : CSys} {i : Nat} {want : Mode} (h : cfree s i want = true)
    {j : Nat} {u : CThread} (hj : s.threads[j]? = some u) (hne : j ≠ i) : want.compat u.pc.held = true := by
  unfold cfree at h
  rw [List.all_eq_true] at h
  have hlt : j < s.threads.length := by
    rcases Nat.lt_or_ge j s.threads.length with hl | hl
    · exact hl
    · rw [List.getElem?_eq_none hl] at hj; cases hj
  have := h j (List.mem_range.2 hlt)
  simp [hj, hne] at this
  exact this

theorem cfree_of {s : CSys} {i : Nat} {want : Mode}
    (h : ∀ (j : Nat) (u : CThread), s.threads[j]? = some u → j ≠ i → want.compat u.pc.held = true) :
    cfree s i want = true := by
  unfold cfree
  rw [List.all_eq_true]
  intro j _
  by_cases hji : j = i
  · simp [hji]
  · cases hu : s.threads[j]? with
    | none => simp
    | some u => simp [h j u hu hji]

/-! ### the pieces commute with the main model's single steps -/

theorem underGet_tracked (g : Nat) (f : Bool) (b : Sys) : (underGet g f b).tracked = b.tracked := by
  unfold underGet
  split
  · rfl
  · split <;> rfl

theorem underRemove_tracked (g : Nat) (b : Sys) : (underRemove g b).tracked = b.tracked := rfl

theorem getInformer_eq (g : Nat) (f : Bool) (b : Sys) :
    (Act.getInformer g f).apply b = underGet g f (markActive g b) := by
  simp only [Act.apply, underGet, markActive]
  cases f
  · simp only [Bool.false_eq_true, if_false]
    cases aget g b.live <;> rfl
  · simp

theorem rmInformer_eq (g : Nat) (b : Sys) :
    (Act.rmInformer g).apply b = underRemove g (unmarkActive g b) := rfl

theorem markActive_of_mem {g : Nat} {b : Sys} (h : b.tracked.contains g = true) : markActive g b = b := by
  cases b
  simp_all [markActive]

theorem unmarkActive_of_not_mem {g : Nat} {b : Sys} (h : b.tracked.contains g = false) : unmarkActive g b = b := by
  have hne : ∀ x ∈ b.tracked, decide (x ≠ g) = true := by
    intro x hx
    have : x ≠ g := by
      intro hxg; subst hxg
      have : b.tracked.contains x = true := List.contains_iff_mem.2 hx
      rw [h] at this; cases this
    simpa using this
  have hf : b.tracked.filter (fun x => decide (x ≠ g)) = b.tracked := List.filter_eq_self.2 hne
  cases b
  simp only [unmarkActive] at hf ⊢
  rw [hf]

/-! ### invariant -/

structure CInv (s : CSys) : Prop where
  mutex : ∀ (i j : Nat) (ti tj : CThread), i ≠ j → s.threads[i]? = some ti → s.threads[j]? = some tj →
    ti.pc.held.compat tj.pc.held = true
  seen : ∀ (i : Nat) (t : CThread) (b : Bool), s.threads[i]? = some t → t.pc = .rd b →
    b = s.base.tracked.contains t.op.gvk

theorem cinit_threads_idle {b : Sys} {ops : List COp} {i : Nat} {t : CThread}
    (h : (cinit b ops).threads[i]? = some t) : t.pc = .idle := by
  simp only [cinit, List.getElem?_map] at h
  cases ho : ops[i]? with
  | none => simp [ho] at h
  | some o => simp [ho] at h; subst h; rfl

theorem CInv_init (b : Sys) (ops : List COp) : CInv (cinit b ops) := by
  constructor
  · intro i j ti tj _ hi _
    rw [cinit_threads_idle hi]; rfl
  · intro i t bb hi hpc
    rw [cinit_threads_idle hi] at hpc; cases hpc

/-- the lock mode a step ends in is the one it started in, nothing, or one it was free to take -/
theorem cnext_held {s : CSys} {i : Nat} {t : CThread} {f : Bool} {pc' : CPc} {b' : Sys}
    (h : cnext s i t f = some (pc', b')) :
    pc'.held = t.pc.held ∨ pc'.held = .n ∨ cfree s i pc'.held = true := by
  unfold cnext at h
  cases hpc : t.pc <;> simp only [hpc] at h
  case idle =>
    split at h
    · rename_i hf
      split at h <;> (cases h; right; right; exact hf)
    · cases h
  case rd b =>
    split at h
    · split at h <;> (cases h; simp [CPc.held])
    · split at h <;> (cases h; simp [CPc.held])
    · cases h; simp [CPc.held]
  case gap =>
    split at h
    · rename_i hf; cases h; right; right; exact hf
    · cases h
  case wr => split at h <;> (cases h; simp [CPc.held])
  case relR => cases h; simp [CPc.held]
  case relW => cases h; simp [CPc.held]
  case done => cases h

/-- `tracked` changes only in a step from `wr`, i.e. under the write lock -/
theorem cnext_tracked {s : CSys} {i : Nat} {t : CThread} {f : Bool} {pc' : CPc} {b' : Sys}
    (h : cnext s i t f = some (pc', b')) : b'.tracked = s.base.tracked ∨ t.pc = .wr := by
  unfold cnext at h
  split at h
  · split at h
    · split at h <;> (cases h; left; rfl)
    · cases h
  · split at h
    · split at h
      · cases h; left; exact underGet_tracked _ _ _
      · cases h; left; rfl
    · split at h
      · cases h; left; rfl
      · cases h; left; rfl
    · cases h; left; rfl
  · split at h
    · cases h; left; rfl
    · cases h
  · rename_i hpc; right; exact hpc
  · cases h; left; rfl
  · cases h; left; rfl
  · cases h

/-- a step into `rd b` read `b` from the state it leaves unchanged -/
theorem cnext_rd {s : CSys} {i : Nat} {t : CThread} {f : Bool} {b : Bool} {b' : Sys}
    (h : cnext s i t f = some (.rd b, b')) : b = s.base.tracked.contains t.op.gvk ∧ b' = s.base := by
  unfold cnext at h
  split at h
  · split at h
    · split at h
      · cases h
      · rename_i hop; cases h; exact ⟨by rw [hop]; rfl, rfl⟩
      · rename_i hop; cases h; exact ⟨by rw [hop]; rfl, rfl⟩
    · cases h
  · split at h
    · split at h <;> cases h
    · split at h <;> cases h
    · cases h
  · split at h <;> cases h
  · split at h <;> cases h
  · cases h
  · cases h
  · cases h

theorem CInv_step {s s' : CSys} {i : Nat} {f : Bool} (hinv : CInv s) (h : cstep s i f = some s') : CInv s' := by
  unfold cstep at h
  cases ht : s.threads[i]? with
  | none => simp [ht] at h
  | some t =>
    simp only [ht] at h
    cases hn : cnext s i t f with
    | none => simp [hn] at h
    | some p =>
      obtain ⟨pc', b'⟩ := p
      simp only [hn, Option.some.injEq] at h
      subst h
      have hlt : i < s.threads.length := by
        rcases Nat.lt_or_ge i s.threads.length with hl | hl
        · exact hl
        · rw [List.getElem?_eq_none hl] at ht; cases ht
      have hself : (s.threads.set i { t with pc := pc' })[i]? = some { t with pc := pc' } := by
        simp [List.getElem?_set_self hlt]
      have hother : ∀ j, j ≠ i → (s.threads.set i { t with pc := pc' })[j]? = s.threads[j]? := by
        intro j hj; exact List.getElem?_set_ne (Ne.symm hj)
      -- the new lock mode of thread i is compatible with every other thread
      have hcompat : ∀ j tj, j ≠ i → s.threads[j]? = some tj → pc'.held.compat tj.pc.held = true := by
        intro j tj hj htj
        rcases cnext_held hn with he | he | he
        · rw [he]; exact hinv.mutex i j t tj (Ne.symm hj) ht htj
        · rw [he]; rfl
        · exact cfree_spec he htj hj
      constructor
      · intro a c ta tc hac ha hc
        simp only at ha hc
        by_cases hai : a = i
        · subst hai
          rw [hself] at ha; cases ha
          rw [hother c (Ne.symm hac)] at hc
          exact hcompat c tc (Ne.symm hac) hc
        · rw [hother a hai] at ha
          by_cases hci : c = i
          · subst hci
            rw [hself] at hc; cases hc
            rw [Mode.compat_symm]
            exact hcompat a ta hai ha
          · rw [hother c hci] at hc
            exact hinv.mutex a c ta tc hac ha hc
      · intro a ta bb ha hpc
        simp only at ha ⊢
        by_cases hai : a = i
        · subst hai
          rw [hself] at ha; cases ha
          simp only at hpc
          subst hpc
          obtain ⟨h1, h2⟩ := cnext_rd hn
          rw [h2]; exact h1
        · rw [hother a hai] at ha
          rcases cnext_tracked hn with htr | hwr
          · rw [htr]; exact hinv.seen a ta bb ha hpc
          · -- thread i holds the write lock, thread a the read lock: impossible
            have := hinv.mutex i a t ta (Ne.symm hai) ht ha
            rw [hwr, hpc] at this
            simp [CPc.held, Mode.compat] at this

theorem CInv_reach {b : Sys} {ops : List COp} {s : CSys} (h : CReach b ops s) : CInv s := by
  induction h with
  | init => exact CInv_init b ops
  | step i f _ hs ih => exact CInv_step ih hs

/-! ### atomicity of one step -/

theorem cnext_atomic {s : CSys} (hinv : CInv s) {i : Nat} {t : CThread} {f : Bool} {pc' : CPc} {b' : Sys}
    (ht : s.threads[i]? = some t) (h : cnext s i t f = some (pc', b')) :
    (pc'.applied = t.pc.applied ∧ b' = s.base) ∨
    (t.pc.applied = false ∧ pc'.applied = true ∧ b' = (atomicAct t.op f).apply s.base) := by
  unfold cnext at h
  split at h
  · rename_i hpc
    split at h
    · split at h
      · rename_i hop; cases h; right; simp [hpc, CPc.applied, hop, atomicAct, Act.apply]
      · cases h; left; simp [hpc, CPc.applied]
      · cases h; left; simp [hpc, CPc.applied]
    · cases h
  · rename_i bb hpc
    have hseen := hinv.seen i t bb ht hpc
    split at h
    · rename_i g hop
      split at h
      · rename_i hb
        cases h; right
        refine ⟨by simp [hpc, CPc.applied], by simp [CPc.applied], ?_⟩
        rw [hop, atomicAct, getInformer_eq]
        have : s.base.tracked.contains g = true := by
          rw [hop] at hseen; simp only [COp.gvk] at hseen; rw [← hseen]; exact hb
        rw [markActive_of_mem this]
      · cases h; left; simp [hpc, CPc.applied]
    · rename_i g hop
      split at h
      · cases h; left; simp [hpc, CPc.applied]
      · rename_i hb
        cases h; right
        refine ⟨by simp [hpc, CPc.applied], by simp [CPc.applied], ?_⟩
        rw [hop, atomicAct, rmInformer_eq]
        have : s.base.tracked.contains g = false := by
          rw [hop] at hseen; simp only [COp.gvk] at hseen; rw [← hseen]; simpa using hb
        rw [unmarkActive_of_not_mem this]
    · rename_i hop
      cases h; right; simp [hpc, CPc.applied, hop, atomicAct, Act.apply]
  · rename_i hpc
    split at h
    · cases h; left; simp [hpc, CPc.applied]
    · cases h
  · rename_i hpc
    split at h
    · rename_i g hop
      cases h; right
      refine ⟨by simp [hpc, CPc.applied], by simp [CPc.applied], ?_⟩
      rw [hop, atomicAct, getInformer_eq]
    · rename_i g hop
      cases h; right
      refine ⟨by simp [hpc, CPc.applied], by simp [CPc.applied], ?_⟩
      rw [hop, atomicAct, rmInformer_eq]
    · rename_i hop
      cases h; right; simp [hpc, CPc.applied, hop, atomicAct, Act.apply]
  · rename_i hpc; cases h; left; simp [hpc, CPc.applied]
  · rename_i hpc; cases h; left; simp [hpc, CPc.applied]
  · cases h

/-! ### linearizability of runs -/

/-- apply the operations `acts` (thread index, did its wrapped call fail) one after the other,
each as the single step of the main model -/
def applyAll (ops : List COp) (b : Sys) (acts : List (Nat × Bool)) : Sys :=
  acts.foldl (fun b p => (atomicAct (ops.getD p.1 .active) p.2).apply b) b

structure Lin (b : Sys) (ops : List COp) (s : CSys) (acts : List (Nat × Bool)) : Prop where
  base : s.base = applyAll ops b acts
  nodup : (acts.map (·.1)).Nodup
  applied : ∀ i, i ∈ acts.map (·.1) ↔ ∃ t, s.threads[i]? = some t ∧ t.pc.applied = true
  ops : ∀ (i : Nat) (t : CThread), s.threads[i]? = some t → ops[i]? = some t.op

theorem Lin_reach {b : Sys} {ops : List COp} {s : CSys} (h : CReach b ops s) : ∃ acts, Lin b ops s acts := by
  induction h with
  | init =>
    refine ⟨[], rfl, List.nodup_nil, ?_, ?_⟩
    · intro i
      constructor
      · intro hi; cases hi
      · rintro ⟨t, ht, ha⟩
        rw [cinit_threads_idle ht] at ha; cases ha
    · intro i t ht
      simp only [cinit, List.getElem?_map] at ht
      cases ho : ops[i]? with
      | none => simp [ho] at ht
      | some o => simp [ho] at ht; subst ht; rfl
  | @step s s' i f hr hs ih =>
    obtain ⟨acts, hl⟩ := ih
    have hinv := CInv_reach hr
    unfold cstep at hs
    cases ht : s.threads[i]? with
    | none => simp [ht] at hs
    | some t =>
      simp only [ht] at hs
      cases hn : cnext s i t f with
      | none => simp [hn] at hs
      | some p =>
        obtain ⟨pc', b'⟩ := p
        simp only [hn, Option.some.injEq] at hs
        subst hs
        have hlt : i < s.threads.length := by
          rcases Nat.lt_or_ge i s.threads.length with hl' | hl'
          · exact hl'
          · rw [List.getElem?_eq_none hl'] at ht; cases ht
        have hself : (s.threads.set i { t with pc := pc' })[i]? = some { t with pc := pc' } := by
          simp [List.getElem?_set_self hlt]
        have hother : ∀ j, j ≠ i → (s.threads.set i { t with pc := pc' })[j]? = s.threads[j]? := by
          intro j hj; exact List.getElem?_set_ne (Ne.symm hj)
        have hops : ∀ (j : Nat) (u : CThread), (s.threads.set i { t with pc := pc' })[j]? = some u → ops[j]? = some u.op := by
          intro j u hu
          by_cases hji : j = i
          · subst hji; rw [hself] at hu; cases hu; exact hl.ops j t ht
          · rw [hother j hji] at hu; exact hl.ops j u hu
        rcases cnext_atomic hinv ht hn with ⟨hap, hb⟩ | ⟨hap0, hap1, hb⟩
        · refine ⟨acts, ?_, hl.nodup, ?_, hops⟩
          · simp only; rw [hb]; exact hl.base
          · intro j
            rw [hl.applied j]
            by_cases hji : j = i
            · subst hji
              simp only [hself, ht, Option.some.injEq]
              constructor
              · rintro ⟨u, rfl, hu⟩; exact ⟨_, rfl, by simpa [hap] using hu⟩
              · rintro ⟨u, rfl, hu⟩; exact ⟨_, rfl, by simpa [hap] using hu⟩
            · simp only [hother j hji]
        · have hni : i ∉ acts.map (·.1) := by
            intro hi
            obtain ⟨u, hu, hua⟩ := (hl.applied i).1 hi
            rw [ht] at hu; cases hu
            rw [hap0] at hua; cases hua
          refine ⟨acts ++ [(i, f)], ?_, ?_, ?_, hops⟩
          · simp only
            rw [hb, hl.base]
            have hop : ops[i]?.getD .active = t.op := by
              rw [hl.ops i t ht]; rfl
            simp [applyAll, List.foldl_append, hop]
          · rw [List.map_append, List.nodup_append]
            refine ⟨hl.nodup, by simp, ?_⟩
            intro a ha c hc
            simp only [List.map_cons, List.map_nil, List.mem_singleton] at hc
            subst hc
            intro hac; subst hac; exact hni ha
          · intro j
            simp only [List.map_append, List.mem_append, List.map_cons, List.map_nil, List.mem_singleton]
            by_cases hji : j = i
            · subst hji
              simp only [or_true, true_iff]
              exact ⟨_, hself, hap1⟩
            · simp only [hji, or_false, hother j hji]
              exact hl.applied j

end Xp.C13

import Xp.Proofs.C14Rev
set_option linter.unusedSimpArgs false
set_option linter.unusedVariables false
/-
Helper lemmas for the spec copy package → revision of C14: the shape of every revision write a
reconcile can issue (the desired current revision, carrying exactly the package's copied leaves, or
the deactivation of a listed revision), for every fault plan.
-/
namespace Xp.C14

variable {α β : Type}

/-- every revision write issued once the revision name `cur` is known and the List answered `listed`:
a Create that can be accepted (no resourceVersion) creates the desired current revision; a Patch is
the desired current revision or a listed revision with desiredState Inactive; an Update is a revision
whose commonLabels are the package's -/
def RCopy (p : Pkg) (cur : String) (listed : List Rev) (r : Req) : Prop :=
  (∀ d, r = .createRev d false → d = desiredCurrent p cur listed) ∧
  (∀ d, r = .patchRev d → d = desiredCurrent p cur listed ∨ ∃ x ∈ listed, d = { x with state := .inactive }) ∧
  (∀ d, r = .updateRev d → d.labels = p.spec.labels)

theorem RCopy_other (p : Pkg) (cur : String) (listed : List Rev) (r : Req)
    (h1 : ∀ d b, r ≠ .createRev d b) (h2 : ∀ d, r ≠ .patchRev d) (h3 : ∀ d, r ≠ .updateRev d) :
    RCopy p cur listed r :=
  ⟨fun d e => absurd e (h1 d false), fun d e => absurd e (h2 d), fun d e => absurd e (h3 d)⟩

theorem applyRev_issues_copy (p : Pkg) (cur : String) (listed : List Rev) (d : Rev) (b : Bool) (uid : String)
    (hc : b = false → d = desiredCurrent p cur listed)
    (hp : d = desiredCurrent p cur listed ∨ ∃ x ∈ listed, d = { x with state := .inactive }) :
    Issues (RCopy p cur listed) (applyRev d b uid) := by
  unfold applyRev
  refine Issues.call _ _ (RCopy_other _ _ _ _ (by intro _ _ e; cases e) (by intro _ e; cases e) (by intro _ e; cases e)) ?_
  intro x
  split
  · split
    · refine Issues.call _ _ ⟨(by intro _ e; cases e), ?_, (by intro _ e; cases e)⟩ (fun _ => Issues.ret _)
      intro d' e; cases e; exact hp
    · exact Issues.ret _
  · refine Issues.call _ _ ⟨?_, (by intro _ e; cases e), (by intro _ e; cases e)⟩ (fun _ => Issues.ret _)
    intro d' e; cases e; exact hc rfl
  · exact Issues.ret _

theorem deactLoop_issues_copy (p : Pkg) (cur uid : String) (listed l : List Rev) (hl : ∀ x ∈ l, x ∈ listed) :
    Issues (RCopy p cur listed) (deactLoop uid cur l) := by
  induction l with
  | nil => exact Issues.ret _
  | cons r rest ih =>
    have ih' := ih (fun x hx => hl x (List.mem_cons_of_mem _ hx))
    unfold deactLoop
    split
    · exact ih'
    · split
      · refine Issues.bind' (applyRev_issues_copy _ _ _ _ _ _ (by intro e; cases e) (.inr ⟨r, hl r List.mem_cons_self, rfl⟩)) ?_
        intro a
        cases a with
        | ok _ => exact ih'
        | conflict => exact Issues.ret _
        | err => exact Issues.ret _
      · exact ih'

theorem finishStatus_issues_copy (p : Pkg) (cur : String) (listed : List Rev) :
    Issues (RCopy p cur listed) (finishStatus p cur) := by
  unfold finishStatus
  refine Issues.call _ _ (RCopy_other _ _ _ _ (by intro _ _ e; cases e) (by intro _ e; cases e) (by intro _ e; cases e)) ?_
  intro x; split <;> exact Issues.ret _

theorem applyCurrent_issues_copy (p : Pkg) (cur : String) (listed : List Rev) :
    Issues (RCopy p cur listed) (applyCurrent p cur listed) := by
  unfold applyCurrent
  refine Issues.bind' (applyRev_issues_copy _ _ _ _ _ _ (fun _ => rfl) (.inl rfl)) ?_
  intro a
  cases a with
  | conflict => exact Issues.ret _
  | err => exact Issues.ret _
  | ok pr =>
    show Issues _ (if pr.labels = p.spec.labels then _ else _)
    split
    · exact finishStatus_issues_copy p cur listed
    · refine Issues.call _ _ ⟨(by intro _ e; cases e), (by intro _ e; cases e), ?_⟩ ?_
      · intro d e; cases e; rfl
      · intro x
        split
        · exact finishStatus_issues_copy p cur listed
        · exact Issues.ret _
        · exact Issues.ret _

theorem stage2With_issues_copy (v : Option Rev) (p : Pkg) (cur : String) (listed : List Rev) :
    Issues (RCopy p cur listed) (stage2With v p cur listed) := by
  unfold stage2With
  refine Issues.bind' (deactLoop_issues_copy _ _ _ _ _ (fun _ h => h)) ?_
  intro a
  cases a with
  | some r => exact Issues.ret _
  | none =>
    cases v with
    | none => exact applyCurrent_issues_copy p cur listed
    | some w =>
      refine Issues.call _ _ (RCopy_other _ _ _ _ (by intro _ _ e; cases e) (by intro _ e; cases e) (by intro _ e; cases e)) ?_
      intro x
      split
      · exact applyCurrent_issues_copy p cur listed
      · exact Issues.ret _

/-- a revision write of a reconcile started with package `p` and revisions `revs` in the store -/
def RTopCopy (env : Env) (p : Pkg) (revs : List Rev) (r : Req) : Prop :=
  ∀ cur, revisionName env p = .ok cur → RCopy p cur (revs.filter (labelled p.name)) r

theorem reconcile_copy_tri (env : Env) (pname : String) (s : Store) (p : Pkg) (hp : s.pkg = some p) :
    Tri (fun _ => True) (RTopCopy env p s.revs) (fun _ _ => True) (pkgReconcile env pname) s := by
  have hno : ∀ r : Req, (∀ d b, r ≠ .createRev d b) → (∀ d, r ≠ .patchRev d) → (∀ d, r ≠ .updateRev d) →
      RTopCopy env p s.revs r := fun r h1 h2 h3 cur _ => RCopy_other _ _ _ _ h1 h2 h3
  have hst : ∀ n st, RTopCopy env p s.revs (.statusPkg n st) :=
    fun n st => hno _ (by intro _ _ e; cases e) (by intro _ e; cases e) (by intro _ e; cases e)
  unfold pkgReconcile reconcileWith
  refine ⟨⟨hno _ (by intro _ _ e; cases e) (by intro _ e; cases e) (by intro _ e; cases e), trivial, ?_⟩, trivial, trivial⟩
  by_cases hn : p.name = pname
  · subst hn
    have hex : exec s (.getPkg p.name) = (s, .pkg p) := by simp [exec, hp]
    rw [hex]
    show Tri _ _ _ (if p.spec.paused = true then _ else _) s
    by_cases hpa : p.spec.paused = true
    · rw [if_pos hpa]
      exact statusCall_tri _ _ _ _ (hst _ _) trivial (fun _ => trivial) (fun _ => trivial)
    · rw [if_neg hpa]
      by_cases hpc : p.status.pausedCond = true
      · rw [if_pos hpc]
        exact statusCall_tri _ _ _ _ (hst _ _) trivial (fun _ => trivial) (fun _ => trivial)
      · rw [if_neg hpc]
        refine ⟨⟨hno _ (by intro _ _ e; cases e) (by intro _ e; cases e) (by intro _ e; cases e), trivial, ?_⟩, trivial, trivial⟩
        show Tri _ _ _ (Prog.call .listImageConfigs _) s
        refine ⟨⟨hno _ (by intro _ _ e; cases e) (by intro _ e; cases e) (by intro _ e; cases e), trivial, ?_⟩, ?_, ?_⟩
        · show Tri _ _ _ (match revisionName env p with | .error _ => _ | .ok cur => _) s
          cases hr : revisionName env p with
          | error u =>
            exact statusCall_tri _ _ _ _ (hst _ _) trivial (fun _ => trivial) (fun _ => trivial)
          | ok cur =>
            show Tri _ _ _ (if cur = "" then _ else _) s
            by_cases hce : cur = ""
            · rw [if_pos hce]
              exact statusCall_tri _ _ _ _ (hst _ _) trivial (fun _ => trivial) (fun _ => trivial)
            · rw [if_neg hce]
              show Tri _ _ _ (stage2 p cur (s.revs.filter (labelled p.name))) s
              unfold stage2
              refine Tri.weakenR ?_ _ _ (Tri_of_issues (stage2With_issues_copy _ p cur _) s)
              intro r h cur' hcur'
              have e : (Except.ok cur : Except Unit String) = Except.ok cur' := hr.symm.trans hcur'
              cases e
              exact h
        · exact ⟨⟨hst _ _, trivial, trivial⟩, trivial, trivial⟩
        · exact ⟨⟨hst _ _, trivial, trivial⟩, trivial, trivial⟩
  · have hex : exec s (.getPkg pname) = (s, .err .notFound) := by simp [exec, hp, hn]
    rw [hex]; trivial

end Xp.C14

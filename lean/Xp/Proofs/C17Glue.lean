import Xp.Model.C17Glue
/-
C17 helper lemmas: ParsePackageSourceFromReference (`parseSourceL`), the spec.package format
(`fmtImageL`) and the two dependency conversions (`metaToLock`, `depKind`). Core Lean only.
-/
namespace Xp.C17

/-! ### strings.Cut / strings.LastIndex -/

theorem cutAt_noat {s : List Char} (h : '@' ∉ s) : cutAt s = s := by
  induction s with
  | nil => rfl
  | cons c cs ih =>
    have hc : c ≠ '@' := fun e => h (e ▸ List.mem_cons_self ..)
    have hcs : '@' ∉ cs := fun m => h (List.mem_cons_of_mem _ m)
    simp only [cutAt, hc, if_false, ih hcs]

theorem cutAt_append_at {a b : List Char} (h : '@' ∉ a) : cutAt (a ++ '@' :: b) = a := by
  induction a with
  | nil => simp [cutAt]
  | cons c cs ih =>
    have hc : c ≠ '@' := fun e => h (e ▸ List.mem_cons_self ..)
    have hcs : '@' ∉ cs := fun m => h (List.mem_cons_of_mem _ m)
    simp only [List.cons_append, cutAt, hc, if_false, ih hcs]

theorem lastIdx1_append (sep : Char) (a b : List Char) :
    ∀ (i acc : Nat), lastIdx1 sep (a ++ b) i acc = lastIdx1 sep b (i + a.length) (lastIdx1 sep a i acc) := by
  induction a with
  | nil => intro i acc; simp [lastIdx1]
  | cons c cs ih =>
    intro i acc
    simp only [List.cons_append, lastIdx1, List.length_cons]
    rw [ih]
    congr 1
    omega

theorem lastIdx1_absent (sep : Char) (b : List Char) (h : ∀ c ∈ b, c ≠ sep) :
    ∀ (i acc : Nat), lastIdx1 sep b i acc = acc := by
  induction b with
  | nil => intro i acc; rfl
  | cons c cs ih =>
    intro i acc
    have hc : c ≠ sep := h c (List.mem_cons_self ..)
    simp only [lastIdx1, hc, if_false]
    exact ih (fun x hx => h x (List.mem_cons_of_mem _ hx)) _ _

theorem lastIdx1_lt (sep : Char) (a : List Char) :
    ∀ (i acc : Nat), acc < i → lastIdx1 sep a i acc < i + a.length := by
  induction a with
  | nil => intro i acc h; simpa [lastIdx1] using h
  | cons c cs ih =>
    intro i acc h
    simp only [lastIdx1, List.length_cons]
    have : (if c = sep then i else acc) < i + 1 := by split <;> omega
    have := ih (i + 1) _ this
    omega

/-! ### ParsePackageSourceFromReference -/

/-- a tag is cut off: `repo:tag` ↦ `repo` (the tag holds no ':', '/' or '@') -/
theorem parseSourceL_tag (repo tag : List Char) (hr : '@' ∉ repo)
    (ht : ∀ c ∈ tag, c ≠ ':' ∧ c ≠ '/' ∧ c ≠ '@') : parseSourceL (repo ++ ':' :: tag) = repo := by
  have hno : '@' ∉ repo ++ ':' :: tag := by
    intro hm
    rcases List.mem_append.1 hm with h | h
    · exact hr h
    · cases h with
      | tail _ h' => exact (ht _ h').2.2 rfl
  have hcolon : lastIdx ':' (repo ++ ':' :: tag) = 1 + repo.length := by
    unfold lastIdx
    rw [lastIdx1_append]
    simp only [lastIdx1, if_true]
    exact lastIdx1_absent ':' tag (fun c hc => (ht c hc).1) _ _
  have hslash : lastIdx '/' (repo ++ ':' :: tag) < 1 + repo.length := by
    unfold lastIdx
    rw [lastIdx1_append]
    have hne : ¬ (':' = '/') := by decide
    simp only [lastIdx1, hne, if_false]
    rw [lastIdx1_absent '/' tag (fun c hc => (ht c hc).2.1)]
    exact lastIdx1_lt '/' repo 1 0 (by omega)
  unfold parseSourceL
  simp only [cutAt_noat hno]
  rw [if_pos (by omega), hcolon]
  exact List.take_left' (by omega)

/-- a digest is cut off first: `x@digest` is parsed like `x` -/
theorem parseSourceL_digest (x dg : List Char) (hx : '@' ∉ x) :
    parseSourceL (x ++ '@' :: dg) = parseSourceL x := by
  unfold parseSourceL
  simp only [cutAt_append_at hx, cutAt_noat hx]

/-- a reference without tag and digest is kept as it is, a registry port included: the last
':' (if any) is before the last '/' -/
theorem parseSourceL_bare (s : List Char) (hs : '@' ∉ s) (hb : lastIdx ':' s ≤ lastIdx '/' s) :
    parseSourceL s = s := by
  unfold parseSourceL
  simp only [cutAt_noat hs]
  rw [if_neg (by omega)]

/-- the result never carries a digest -/
theorem parseSourceL_no_at (s : List Char) : '@' ∉ parseSourceL s := by
  have hcut : ∀ t : List Char, '@' ∉ cutAt t := by
    intro t
    induction t with
    | nil => simp [cutAt]
    | cons c cs ih =>
      unfold cutAt
      split
      · simp
      · rename_i hc
        intro hm
        cases hm with
        | head => exact hc rfl
        | tail _ h => exact ih h
  unfold parseSourceL
  simp only
  split
  · intro hm; exact hcut s (List.mem_of_mem_take hm)
  · exact hcut s

/-- **The package created for a dependency is a package of that dependency.** For a dependency
identifier `r` without tag and digest (as `ref.String()` returns it) and a selected version `v`
that is a digest (`sha256:…`) or a tag (no ':', '/', '@'), the Source that the revision of the
created package records in the Lock (`parseSourceL` of its spec.package `fmtImageL r v`) is
`r` itself: the implied node is then a lock package and the dependency is no longer missing. -/
theorem created_package_source (r v : List Char) (hr : '@' ∉ r) (hb : lastIdx ':' r ≤ lastIdx '/' r)
    (hv : "sha256:".toList.isPrefixOf v = true ∨ ∀ c ∈ v, c ≠ ':' ∧ c ≠ '/' ∧ c ≠ '@') :
    parseSourceL (fmtImageL r v) = r := by
  unfold fmtImageL
  by_cases hp : "sha256:".toList.isPrefixOf v = true
  · rw [if_pos hp, parseSourceL_digest r v hr]
    exact parseSourceL_bare r hr hb
  · rw [if_neg hp]
    rcases hv with h | h
    · exact absurd h hp
    · exact parseSourceL_tag r v hr h

/-! ### meta dependsOn ↦ lock dependencies -/

theorem metaToLock_con {m : MetaDep} {d : LockDep} (h : metaToLock m = some d) : d.con = m.version := by
  unfold metaToLock at h
  split at h
  · cases h; rfl
  · split at h
    · cases h; rfl
    · split at h
      · cases h; rfl
      · split at h
        · cases h; rfl
        · cases h

theorem metaDepsToLock_map : ∀ (ms : List MetaDep) (ds : List LockDep), metaDepsToLock ms = some ds →
    ms.map metaToLock = ds.map some := by
  intro ms
  induction ms with
  | nil => intro ds h; simp only [metaDepsToLock, Option.some.injEq] at h; subst h; rfl
  | cons m ms ih =>
    intro ds h
    unfold metaDepsToLock at h
    cases hm : metaToLock m with
    | none => rw [hm] at h; cases h
    | some d =>
      rw [hm] at h
      cases hr : metaDepsToLock ms with
      | none => rw [hr] at h; cases h
      | some rest =>
        rw [hr] at h
        simp only [Option.map_some, Option.some.injEq] at h
        subst h
        simp only [List.map_cons, hm, ih rest hr]

theorem metaDepsToLock_none_iff : ∀ (ms : List MetaDep), metaDepsToLock ms = none ↔ ∃ m ∈ ms, metaToLock m = none := by
  intro ms
  induction ms with
  | nil => simp [metaDepsToLock]
  | cons m ms ih =>
    unfold metaDepsToLock
    cases hm : metaToLock m with
    | none => simp [hm]
    | some d =>
      simp only [Option.map_eq_none_iff, ih, List.mem_cons, exists_eq_or_imp, hm]
      simp

end Xp.C17

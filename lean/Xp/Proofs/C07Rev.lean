import Xp.Proofs.C07
/-
C07 helper lemmas for the compositionRevisionRef clause: which way the revision
reference flows for EVERY value of the XR's update policy (Manual / Automatic /
unset / any other string), for both syncers, on the write bodies and in the store.
-/
namespace Xp.C07
open Xp

/-- the key of the clause -/
abbrev revKey : String := "compositionRevisionRef"

theorem owner_revKey : owner revKey = .revision := by decide
theorem revKey_ne_claimRef : revKey ≠ "claimRef" := by decide
theorem revKey_ne_resourceRef : revKey ≠ "resourceRef" := by decide
theorem revKey_ne_compositionRef : revKey ≠ "compositionRef" := by decide

/-- The spec both syncers hand to the XR carries the claim's revision reference iff the
XR's update policy (as read) is Manual. -/
theorem alookup_specToXR_rev (c : Cfg) (cm : KObj) (manual : Bool) (cs : AL J) :
    alookup revKey (specToXR c cm manual cs) = if manual then alookup revKey cs else none := by
  rw [alookup_specToXR]
  simp [revKey_ne_claimRef, owner_revKey]

/-- The claim spec the client-side syncer ends with: under Automatic the revision
reference is the applied XR's (an explicit null when the XR has none, which the API
server prunes); under every other policy it is the claim's own - the XR → claim spec
merge never carries it. -/
theorem alookup_csaClaimSpec_rev (cs xs : AL J) :
    alookup revKey (csaClaimSpec cs xs) =
      if policyOf xs = some "Automatic" then some ((alookup revKey xs).getD .null)
      else alookup revKey cs := by
  have hf : xrFilter.contains revKey = true := by
    rw [xrFilter_contains, owner_revKey]
  unfold csaClaimSpec
  simp only []
  rw [mergeF_untouched]
  · by_cases hp : policyOf xs = some "Automatic"
    · simp only [hp, beq_self_eq_true, if_true]
      exact alookup_aset_self _ _ _
    · have : (policyOf xs == some "Automatic") = false := by simpa using hp
      simp only [this, hp, if_false]
      rfl
  · rw [alookup_withoutKeys, hf]; rfl

/-- the same through the tail of the client-side sync, when it succeeds -/
theorem csaBack_rev (c : Cfg) (cm1 xrA : KObj) (s1 : St) (w : List Write) (cs1 : AL J)
    (h : cm1.spec = some (.obj cs1)) (herr : (csaBack c cm1 xrA s1 w).err = "") :
    alookup revKey (csaBack c cm1 xrA s1 w).st.cm.specFields =
      if policyOf xrA.specFields = some "Automatic" then some ((alookup revKey xrA.specFields).getD .null)
      else alookup revKey cs1 := by
  unfold csaBack at herr ⊢
  cases hm : csaMergeStatus cm1.status xrA.status with
  | error e =>
    exfalso
    simp only [hm] at herr
    subst herr
    unfold csaMergeStatus at hm
    split at hm <;> simp at hm
  | ok st' =>
    simp only [storeClaimStatus, h, storeClaimUpdate, KObj.specFields, objFields]
    exact alookup_csaClaimSpec_rev cs1 _

end Xp.C07

import Xp.Model.C10
import Xp.Proofs.C10Num
/-
Helper lemmas for C10: int64 wrap-around, ASCII case mapping, the computed fragment of fmt.Sprintf.
-/
namespace Xp.C10

theorem wrap64_fits (x : Int) : fits64 (wrap64 x) = true := by
  rw [fits64_iff]; unfold wrap64; omega

theorem wrap64_id (x : Int) (h : fits64 x = true) : wrap64 x = x := by
  rw [fits64_iff] at h; unfold wrap64; omega

theorem wrap64_congr (x : Int) : (wrap64 x - x) % 2 ^ 64 = 0 := by
  unfold wrap64; omega

/-- on the 128 ASCII code points: lower-casing forgets an earlier upper-casing -/
theorem lower_upper_char (n : Fin 128) : lowerChar (upperChar (Char.ofNat n)) = lowerChar (Char.ofNat n) := by
  revert n; decide

theorem lower_upper_ascii (c : Char) (h : c.toNat < 128) : lowerChar (upperChar c) = lowerChar c := by
  have := lower_upper_char ⟨c.toNat, h⟩
  simpa [Char.ofNat_toNat] using this

theorem sprintfLite_literal (cs : List Char) (h : '%' ∉ cs) : sprintfLite cs [] = some cs := by
  induction cs with
  | nil => rfl
  | cons c rest ih =>
    have hc : c ≠ '%' := fun e => h (by simp [e])
    have hr : '%' ∉ rest := fun e => h (by simp [e])
    unfold sprintfLite
    split <;> simp_all

end Xp.C10

import Xp.Proofs.C01
/-
Quiescence of the function composer: from a settled store (every desired resource has its
object with exactly the desired content, the references are exactly the sorted references of
those objects, nothing else is referenced) a fault-free reconcile issues only no-op writes and
returns the very same store.
-/
namespace Xp.C01

/-- fault-free run -/
def runOk (p : P) (s : St) : St × Option Result := run sem Plan.allOk 0 p s

theorem run_allOk_index (p : P) : ∀ (k : Nat) (s : St), run sem Plan.allOk k p s = run sem Plan.allOk 0 p s := by
  induction p with
  | ret a => intro k s; rfl
  | call r c ih =>
    intro k s
    simp only [run, Plan.allOk]
    rw [ih, ih _ 1]

theorem runOk_ret (a : Result) (s : St) : runOk (.ret a) s = (s, some a) := rfl

theorem runOk_call (r : Req) (c : Resp → P) (s : St) :
    runOk (.call r c) s = runOk (c (exec s r).2) (exec s r).1 := by
  simp only [runOk, run, Plan.allOk, sem]
  exact run_allOk_index _ 1 _

/-- what "the composed state matches the desired state" means in the model -/
structure Settled (s : St) (names : List Named) : Prop where
  good : Good s
  fin : s.xrFin = true
  nodup : (names.map (·.d.rname)).Nodup
  rnameNe : ∀ n ∈ names, n.d.rname ≠ ""
  noGen : ∀ n ∈ names, n.gen = false
  /-- the API server accepts every desired resource (none is rejected as invalid) -/
  valid : ∀ n ∈ names, n.d.content ≠ invalidContent
  obj : ∀ n ∈ names, ∃ o ∈ s.objs, key o = nkey n ∧ o.annot = n.d.rname ∧ o.ctrl = .xr ∧
    o.content = n.d.content ∧ o.ssa = true
  refs : s.refs = refsOf names
  /-- the composer's field manager has applied the references before -/
  applied : s.xrApplied = true

/-- the object of a settled entry -/
theorem Settled.find {s : St} {names : List Named} (h : Settled s names) (n : Named) (hn : n ∈ names) :
    ∃ o, findObj s.objs n.d.kind n.name = some o ∧ o.annot = n.d.rname ∧ o.ctrl = .xr ∧
      o.content = n.d.content ∧ o.ssa = true ∧ o.name = n.name ∧ o.kind = n.d.kind := by
  obtain ⟨o, ho, hk, ha, hc, hct, hs⟩ := h.obj n hn
  have hk' : o.kind = n.d.kind ∧ o.name = n.name := by simpa [key, nkey] using hk
  refine ⟨o, ?_, ha, hc, hct, hs, hk'.2, hk'.1⟩
  have := findObj_of_mem h.good.nodup ho
  rw [hk'.1, hk'.2] at this
  exact this

/-! ### observe: a pure account of what the loop computes when nothing goes wrong -/

theorem runOk_observeFn {s : St} (hg : Good s) (lrv : Nat) (k : Obs → P)
    (hclean : ∀ o ∈ s.objs, key o ∈ s.refs → o.ctrl ≠ .other → o.annot ≠ "") :
    ∀ (rs done : List Ref) (acc : Obs), (∀ r ∈ rs, r ∈ s.refs) → (∀ r ∈ done, r ∈ s.refs) → ObsOKp s done acc →
      ∃ obs, ObsOKp s (done ++ rs) obs ∧ runOk (observeFn lrv rs acc k) s = runOk (k obs) s := by
  intro rs
  induction rs with
  | nil => intro done acc _ _ hacc; exact ⟨acc, by simpa using hacc, rfl⟩
  | cons r rs ih =>
    intro done acc hrs hdone hacc
    have hr : r ∈ s.refs := hrs r (List.mem_cons_self ..)
    have hrs' : ∀ x ∈ rs, x ∈ s.refs := fun x hx => hrs x (List.mem_cons_of_mem _ hx)
    have hdone' : ∀ x ∈ done ++ [r], x ∈ s.refs := by
      intro x hx
      rcases List.mem_append.mp hx with hx | hx
      · exact hdone x hx
      · simp at hx; exact hx ▸ hr
    have fin : ∀ acc', ObsOKp s (done ++ [r]) acc' →
        ∃ obs, ObsOKp s (done ++ r :: rs) obs ∧ runOk (observeFn lrv rs acc' k) s = runOk (k obs) s := by
      intro acc' h
      obtain ⟨obs, h1, h2⟩ := ih (done ++ [r]) acc' hrs' hdone' h
      exact ⟨obs, by simpa using h1, h2⟩
    simp only [observeFn]
    by_cases hn : r.name = ""
    · simp only [hn, if_true]
      apply fin
      apply obsOKp_skip r hacc
      intro o ho hko
      have := hg.named o ho
      rw [← hko] at hn
      exact absurd hn this
    · simp only [hn, if_false]
      cases hf : findObj s.objs r.kind r.name with
      | none =>
        rw [runOk_call, exec_getCached_none hf]
        simp only []
        rw [runOk_call, exec_getObj_none hf]
        simp only []
        apply fin
        apply obsOKp_skip r hacc
        intro o ho hko
        exact absurd ((key_eq_iff o r.kind r.name).mp (by cases r; simpa [key] using hko)) (findObj_none hf o ho)
      | some o =>
        -- in the cache, or missing from it and found by the live read: the same object either way
        have hread : runOk (observeFn lrv (r :: rs) acc k) s =
            runOk (if o.ctrl = .other then observeFn lrv rs acc k
              else if o.annot = "" then onError lrv
              else observeFn lrv rs (obsInsert acc o.annot o) k) s := by
          simp only [observeFn, hn, if_false]
          by_cases hmiss : (⟨r.kind, r.name⟩ : Ref) ∈ s.miss
          · rw [runOk_call, exec_getCached_miss hmiss]
            simp only []
            rw [runOk_call, exec_getObj_some hf]
          · rw [runOk_call, exec_getCached_some hf hmiss]
        have hread' := hread
        simp only [observeFn, hn, if_false] at hread'
        rw [hread']
        obtain ⟨hm, hk1, hk2⟩ := findObj_some hf
        have hko : key o = r := by cases r; simp_all [key]
        by_cases hc : o.ctrl = .other
        · simp only [hc, if_true]
          apply fin
          apply obsOKp_skip r hacc
          intro o2 ho2 hk2'
          have : o2 = o := eq_of_key_eq hg.nodup ho2 hm (hk2'.trans hko.symm)
          exact this ▸ hc
        · simp only [hc, if_false]
          have ha : o.annot ≠ "" := hclean o hm (hko ▸ hr) hc
          simp only [ha, if_false]
          exact fin _ (obsOKp_insert hg r o hacc hdone hr hm hko hc ha)

/-! ### render: no name is generated when every desired resource is observed -/

theorem renderFn_all_observed (lrv : Nat) (obs : Obs) (k : List Named → P) :
    ∀ (ds : List Desired) (fresh : List String) (acc : List Named),
      (∀ d ∈ ds, ∃ o, obsLookup obs d.rname = some o) →
      renderFn lrv obs ds fresh acc k =
        k (acc.reverse ++ ds.map fun d => ⟨d, ((obsLookup obs d.rname).map (·.name)).getD "", false⟩) := by
  intro ds
  induction ds with
  | nil => intro fresh acc _; simp [renderFn]
  | cons d ds ih =>
    intro fresh acc h
    obtain ⟨o, ho⟩ := h d (List.mem_cons_self ..)
    simp only [renderFn, ho]
    rw [ih fresh _ (fun d' hd' => h d' (List.mem_cons_of_mem _ hd'))]
    simp [ho]

/-! ### apply: re-applying what is already there changes nothing -/

theorem mapObj_id {objs : List CObj} {k n : String} {f : CObj → CObj}
    (h : ∀ o ∈ objs, o.kind = k ∧ o.name = n → f o = o) : mapObj objs k n f = objs := by
  unfold mapObj
  conv => rhs; rw [← List.map_id objs]
  apply List.map_congr_left
  intro o ho
  by_cases hm : o.kind = k ∧ o.name = n
  · simp [hm, h o ho hm]
  · simp [hm]

theorem exec_apply_some {s : St} {k n a : String} {c : Nat} {o : CObj} (h : findObj s.objs k n = some o)
    (hc : o.ctrl ≠ .other) (hv : c ≠ invalidContent) : exec s (.apply k n a c) =
      ({ s with objs := mapObj s.objs k n (fun o => { o with annot := a, ctrl := .xr, content := c, ssa := true }) }, .ok) := by
  simp [exec, h, hc, hv]

theorem exec_apply_settled {s : St} {names : List Named} (h : Settled s names) (n : Named) (hn : n ∈ names) :
    exec s (.apply n.d.kind n.name n.d.rname n.d.content) = (s, .ok) := by
  obtain ⟨o, hf, ha, hc, hct, hs, _, _⟩ := h.find n hn
  have hne : o.ctrl ≠ .other := by rw [hc]; decide
  rw [exec_apply_some hf hne (h.valid n hn)]
  have : mapObj s.objs n.d.kind n.name (fun o => { o with annot := n.d.rname, ctrl := .xr, content := n.d.content, ssa := true }) = s.objs := by
    apply mapObj_id
    intro o2 ho2 hm
    have hk2 : key o2 = ⟨n.d.kind, n.name⟩ := by simp [key, hm.1, hm.2]
    obtain ⟨hmo, hko, hno⟩ := findObj_some hf
    have : o2 = o := eq_of_key_eq h.good.nodup ho2 hmo (by rw [hk2]; simp [key, hko, hno])
    subst this
    cases o2
    simp_all
  rw [this]

theorem runOk_applyFn_settled {s : St} {names : List Named} (h : Settled s names) (lrv : Nat) (k : Bool → P) :
    ∀ (l : List Named) (b : Bool), (∀ n ∈ l, n ∈ names) → runOk (applyFn lrv l b k) s = runOk (k b) s := by
  intro l
  induction l with
  | nil => intro b _; rfl
  | cons n l ih =>
    intro b hl
    simp only [applyFn, wcall]
    rw [runOk_call, exec_apply_settled h n (hl n (List.mem_cons_self ..))]
    simp only []
    exact ih b (fun x hx => hl x (List.mem_cons_of_mem _ hx))


theorem exec_statusUpdate_ok (s : St) : exec s (.statusUpdate (some s.xrRv)) = (s, .ok) := by
  simp [exec]

/-- **Quiescence (function composer).** From a settled store a fault-free reconcile, whatever
map orders it happens to iterate in and WHATEVER composed resources are missing from the
informer cache (`s.miss` is arbitrary: a missed resource is found by the live fallback read, and
no name is generated, so the cache is consulted for nothing else), returns `success` and leaves
the store exactly as it was: every write it issues is a no-op (same references, same content,
same resourceVersion). -/
theorem quiescent_fn {s : St} {names : List Named} (h : Settled s names) (ch : Choices) (hc : ChOK ch)
    (hv : ch.ver = s.refsVer) :
    runOk (reconcile (.fn (fun _ => .desired (names.map (·.d))) ch)) s = (s, some .success) := by
  have hg := h.good
  -- the settled object behind a reference
  have hobjOf : ∀ o ∈ s.objs, key o ∈ s.refs → ∃ n ∈ names, key o = nkey n ∧ o.annot = n.d.rname ∧ o.ctrl = .xr := by
    intro o ho hk
    rw [h.refs] at hk
    obtain ⟨e, he, hke⟩ := (mem_refsOf names _).mp hk
    obtain ⟨n, hn, rfl⟩ := List.mem_map.mp he
    obtain ⟨o2, ho2, hk2, ha2, hc2, _⟩ := h.obj n hn
    have : o = o2 := eq_of_key_eq hg.nodup ho ho2 (by rw [hke, hk2])
    subst this
    exact ⟨n, hn, hk2, ha2, hc2⟩
  have hclean : ∀ o ∈ s.objs, key o ∈ s.refs → o.ctrl ≠ .other → o.annot ≠ "" := by
    intro o ho hk _
    obtain ⟨n, hn, _, ha, _⟩ := hobjOf o ho hk
    rw [ha]; exact h.rnameNe n hn
  unfold reconcile
  rw [runOk_call, exec_getXR]
  simp only [h.fin, if_true]
  unfold composeFn
  have hinit : ObsOKp s [] [] := by
    refine ⟨?_, ?_, ?_⟩
    · intro o _ hk; cases hk
    · intro a o hl; simp [obsLookup] at hl
    · intro p hp; cases hp
  have hkey : ∀ K : Obs → P, (∀ obs, ObsOKp s s.refs obs → runOk (K obs) s = (s, some .success)) →
      runOk (observeFn s.xrRv s.refs [] K) s = (s, some .success) := by
    intro K hK
    obtain ⟨obs, hobs, hrun⟩ := runOk_observeFn hg s.xrRv K hclean s.refs [] [] (fun r hr => hr)
      (by intro r hr; cases hr) hinit
    rw [hrun]
    exact hK obs (by simpa using hobs)
  apply hkey
  intro obs hobs
  simp only []
  -- every desired resource is observed, as its settled object
  have hlook : ∀ n ∈ names, ∃ o, obsLookup obs n.d.rname = some o ∧ o.name = n.name := by
    intro n hn
    obtain ⟨o, ho, hk, ha, hcx, _⟩ := h.obj n hn
    have hkr : key o ∈ s.refs := by rw [h.refs, hk]; exact (mem_refsOf names _).mpr ⟨_, List.mem_map.mpr ⟨n, hn, rfl⟩, rfl⟩
    have := (hobs.1 o ho hkr (by rw [hcx]; decide)).2
    rw [ha] at this
    exact ⟨o, this, by have := congrArg Ref.name hk; simpa [key, nkey] using this⟩
  rw [renderFn_all_observed _ _ _ _ _ _ (by
    intro d hd
    obtain ⟨n, hn, rfl⟩ := List.mem_map.mp hd
    obtain ⟨o, ho, _⟩ := hlook n hn
    exact ⟨o, ho⟩)]
  have hnamed : (names.map (·.d)).map (fun d => (⟨d, ((obsLookup obs d.rname).map (·.name)).getD "", false⟩ : Named)) = names := by
    rw [List.map_map]
    conv => rhs; rw [← List.map_id names]
    apply List.map_congr_left
    intro n hn
    obtain ⟨o, ho, hnm⟩ := hlook n hn
    have hg' := h.noGen n hn
    cases n
    simp_all
  simp only [List.reverse_nil, List.nil_append, hnamed]
  -- nothing to garbage collect
  have hund : (obs.filter fun p => !((names.map (·.d)).any (·.rname = p.1))).map (·.2) = [] := by
    rw [List.map_eq_nil_iff, List.filter_eq_nil_iff]
    intro p hp
    obtain ⟨hm, _, ha, hk⟩ := hobs.2.2 p hp
    obtain ⟨n, hn, _, han, _⟩ := hobjOf p.2 hm hk
    simp only [Bool.not_eq_true', Bool.not_eq_false, List.any_eq_true, List.mem_map, decide_eq_true_eq]
    exact ⟨n.d, ⟨n, hn, rfl⟩, by rw [← ha, han]⟩
  have hgc : ch.gcOrder [] = [] := List.eq_nil_iff_forall_not_mem.mpr (fun x hx => by
    have := (hc.gc [] x).mp hx; cases this)
  rw [hund, hgc]
  simp only [gcFn, wcall]
  -- the references are already the ones the composer would write
  have hpatch : exec s (.patchRefs ch.ver (refsOf names)) = (s, .ok) := by simp [exec, h.refs, hv, h.applied]
  rw [runOk_call, hpatch]
  simp only []
  rw [runOk_applyFn_settled h _ _ _ true (fun n hn => (hc.apply _ _).mp hn)]
  rw [runOk_call, exec_statusPatch]
  simp only [finish]
  rw [runOk_call, exec_statusUpdate_ok]
  rfl

end Xp.C01

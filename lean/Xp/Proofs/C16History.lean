import Xp.Proofs.C16Success
/-
C16: one reconcile of a revision, and histories of reconciles (upgrade / rollback
sequences of active and inactive revisions reconciled in any order, every fault
plan, every goroutine order), by induction over the history.
-/
namespace Xp.C16

/-- what a history may do to an existing object; `A u` = "revision `u` was reconciled as active" -/
structure QH (A : Nat → Prop) (o o' : Obj) : Prop where
  key : o'.key = o.key
  /-- no owner entry is ever dropped -/
  uids : ∀ u, hasUid o.owners u → hasUid o'.owners u
  /-- only an active revision becomes controller -/
  ctrls : ∀ u, ctrl o'.owners u → ctrl o.owners u ∨ A u

/-- what a history may create: owned by, and controlled only by, revisions reconciled as active -/
structure CH (A : Nat → Prop) (o' : Obj) : Prop where
  owner : ∃ u, A u ∧ hasUid o'.owners u
  ctrls : ∀ u, ctrl o'.owners u → A u

theorem QH.trans (A : Nat → Prop) (a b c : Obj) (h1 : QH A a b) (h2 : QH A b c) : QH A a c where
  key := h2.key.trans h1.key
  uids := fun u h => h2.uids u (h1.uids u h)
  ctrls := fun u h => by
    rcases h2.ctrls u h with h | h
    · exact h1.ctrls u h
    · exact Or.inr h

theorem CH.step (A : Nat → Prop) (a b : Obj) (h1 : CH A a) (h2 : QH A a b) : CH A b where
  owner := by
    obtain ⟨u, hu, ho⟩ := h1.owner
    exact ⟨u, hu, h2.uids u ho⟩
  ctrls := fun u h => by
    rcases h2.ctrls u h with h | h
    · exact h1.ctrls u h
    · exact h

theorem QH.mono {A B : Nat → Prop} (hAB : ∀ u, A u → B u) {o o' : Obj} (h : QH A o o') : QH B o o' :=
  ⟨h.key, h.uids, fun u hu => (h.ctrls u hu).imp id (hAB u)⟩

theorem CH.mono {A B : Nat → Prop} (hAB : ∀ u, A u → B u) {o' : Obj} (h : CH A o') : CH B o' :=
  ⟨by obtain ⟨u, hu, ho⟩ := h.owner; exact ⟨u, hAB u hu, ho⟩, fun u hu => hAB u (h.ctrls u hu)⟩

theorem QE.toQH (p : Parent) (control : Bool) (A : Nat → Prop) (hA : control = true → A p.uid)
    {o o' : Obj} (h : QE p control o o') : QH A o o' :=
  ⟨h.key, h.uids, fun u hu => by
    rcases h.ctrls u hu with h | ⟨hc, e⟩
    · exact Or.inl h
    · exact Or.inr (e ▸ hA hc)⟩

theorem CE.toCH (p : Parent) (control : Bool) (A : Nat → Prop) (hA : control = true → A p.uid)
    {o' : Obj} (h : CE p control o') : CH A o' :=
  ⟨⟨p.uid, hA h.active, asController p, h.mine, rfl⟩, fun u hu => (h.ctrls u hu) ▸ hA h.active⟩

theorem QR.toQH (p : Parent) (A : Nat → Prop) {o o' : Obj} (h : QR p o o') : QH A o o' :=
  ⟨h.key, h.uids, fun u hu => Or.inl (h.ctrls u hu)⟩

/-- the history invariant between two stores -/
structure HInv (A : Nat → Prop) (s s' : Store) : Prop where
  wf : WF s'
  ev : Evolves (QH A) (CH A) s.objs s'.objs

theorem HInv.refl (A : Nat → Prop) (s : Store) (hw : WF s) : HInv A s s := ⟨hw, Evolves.refl _ _ _⟩

theorem HInv.trans {A : Nat → Prop} {s s' s'' : Store} (h1 : HInv A s s') (h2 : HInv A s' s'') : HInv A s s'' :=
  ⟨h2.wf, Evolves.trans (QH.trans A) (CH.step A) h1.ev h2.ev⟩

theorem HInv.mono {A B : Nat → Prop} (hAB : ∀ u, A u → B u) {s s' : Store} (h : HInv A s s') : HInv B s s' :=
  ⟨h.wf, Evolves.mono (fun _ _ q => q.mono hAB) (fun _ c => c.mono hAB) h.ev⟩

theorem establish_hinv (rejects : Obj → Bool) (fault : Fault) (p : Parent) (control : Bool)
    (s : Store) (objs : List Desired) (vorder eorder : List Nat) (hw : WF s)
    (A : Nat → Prop) (hA : control = true → A p.uid) :
    HInv A s (establish rejects fault p control s objs vorder eorder).1 := by
  have h := establish_inv rejects fault p control s objs vorder eorder hw
  exact ⟨h.wf, Evolves.mono (fun _ _ q => q.toQH p control A hA) (fun _ c => c.toCH p control A hA) h.ev⟩

theorem release_hinv (rejects : Obj → Bool) (fault : Fault) (p : Parent) (ran : Nat → Bool)
    (s : Store) (refs : List Ref) (order : List Nat) (hw : WF s) (A : Nat → Prop) :
    HInv A s (release rejects fault p ran s refs order).1 := by
  have h := release_inv rejects fault p ran s refs order hw
  exact ⟨h.wf, Evolves.mono (fun _ _ q => q.toQH p A) (fun _ c => c.elim) h.ev⟩

theorem establishAndRecord_store (sys : Sys) (s : Store) (r : Rev) (e : Env) :
    (establishAndRecord sys s r e).1.store =
      (establish e.rejects e.fault r.parent r.active s r.objs e.vorder e.eorder).1 := by
  unfold establishAndRecord
  split <;> rename_i heq <;> rw [heq]

/-- One reconcile of one revision, under every fault plan and goroutine order. -/
theorem reconcileRev_hinv (sys : Sys) (r : Rev) (e : Env) (hw : WF sys.store)
    (A : Nat → Prop) (hA : r.active = true → A r.parent.uid) :
    HInv A sys.store (reconcileRev sys r e).1.store := by
  unfold reconcileRev
  split
  · rw [establishAndRecord_store]
    exact establish_hinv _ _ _ _ _ _ _ _ hw A hA
  · have h1 := release_hinv e.rejects e.fault r.parent e.ran sys.store (sys.refs r.parent.uid) e.rorder hw A
    split <;> rename_i s1 heq <;> (try rename_i x) <;> (rw [heq] at h1; simp only at h1)
    · split
      · exact h1
      · rw [establishAndRecord_store]
        exact h1.trans (establish_hinv _ _ _ _ _ _ _ _ h1.wf A hA)
    · exact h1
    · exact h1

/-- the revisions that some step of the history reconciles as active -/
def ActiveIn (h : List (Rev × Env)) (u : Nat) : Prop := ∃ x ∈ h, x.1.active = true ∧ x.1.parent.uid = u

/-- Induction over the history. -/
theorem runHistory_hinv (sys : Sys) (h : List (Rev × Env)) (hw : WF sys.store) :
    HInv (ActiveIn h) sys.store (runHistory sys h).store := by
  induction h generalizing sys with
  | nil => exact HInv.refl _ _ hw
  | cons x rest ih =>
    obtain ⟨r, e⟩ := x
    unfold runHistory
    have h1 := reconcileRev_hinv sys r e hw (ActiveIn ((r, e) :: rest))
      (fun ha => ⟨(r, e), List.mem_cons_self, ha, rfl⟩)
    have h2 := ih (reconcileRev sys r e).1 h1.wf
    exact h1.trans (h2.mono fun u ⟨x, hx, hp⟩ => ⟨x, List.mem_cons_of_mem _ hx, hp⟩)

end Xp.C16

import Xp.Proofs.C20Tls
/-
C20 helper lemmas, part 7: certificates issued by the TLS steps chain to the
stored CA and carry the configured DNS names – at every instant, under every
fault plan, over every history of runs.
-/
namespace Xp.C20
open Xp

variable {α β : Type}

/-! ### relations over the steps of a run -/

theorem runSteps_rel (R : Store → Store → Prop) (g : Generator) (steps : List Step)
    (hstep : ∀ st ∈ steps, ∀ (plan : Plan) (k n : Nat) (t : Store), ∀ x ∈ reach sem plan k (st.prog g n) t,
      ∀ s₀, R s₀ t → R s₀ x) :
    ∀ (plan : Plan) (k n d : Nat) (s₀ t : Store), R s₀ t → ∀ x ∈ reach sem plan k (runSteps g steps n d) t, R s₀ x := by
  induction steps with
  | nil =>
    intro plan k n d s₀ t ht x hx
    simp [runSteps, reach] at hx
    subst hx; exact ht
  | cons st rest ih =>
    intro plan k n d s₀ t ht
    unfold runSteps
    refine reach_bind_inv _ plan _ _ k t ?_ ?_
    · intro x hx
      exact hstep st (by simp) plan k n t x hx s₀ ht
    · rintro ⟨r, n'⟩ k' hr x hx
      have hend : R s₀ (run sem plan k (st.prog g n) t).1 :=
        hstep st (by simp) plan k n t _ (run_mem_reach sem plan k _ t) s₀ ht
      cases r with
      | ok => exact ih (fun st' hst' => hstep st' (by simp [hst'])) plan k' n' (d+1) s₀ _ hend x hx
      | err e =>
        simp [reach] at hx
        subst hx; exact hend

theorem history_rel (R : Store → Store → Prop) (g : Generator) (steps : List Step)
    (hstep : ∀ st ∈ steps, ∀ (plan : Plan) (k n : Nat) (t : Store), ∀ x ∈ reach sem plan k (st.prog g n) t,
      ∀ s₀, R s₀ t → R s₀ x)
    (runs : List (Plan × Nat)) (s₀ : Store) (h0 : R s₀ s₀) : ∀ x ∈ history g steps runs s₀, R s₀ x :=
  history_inv g steps (R s₀) (fun pl n s hs => runSteps_rel R g steps hstep pl 0 n 0 s₀ s hs) runs s₀ h0

/-! ### secret writes confined to some names -/

/-- secret writes go to names satisfying `Pn` only -/
def WritesNames (Pn : String → Prop) : Req → Prop
  | .createSecret x => Pn x.name
  | .updateSecret _ new => Pn new.name
  | _ => True

theorem exec_other_names {Pn : String → Prop} {s₀ s : Store} {r : Req}
    (h : ∀ name, ¬ Pn name → findSecret s name = findSecret s₀ name) (hq : WritesNames Pn r) :
    ∀ name, ¬ Pn name → findSecret (exec s r).1 name = findSecret s₀ name := by
  intro name hn
  rw [← h name hn]
  by_cases hw : r.comp = some .secrets
  · cases r <;> simp [Req.comp] at hw
    case createSecret x =>
      have : name ≠ x.name := fun e => hn (e ▸ hq)
      simp only [exec]
      split
      · rfl
      · exact find_append_other _ _ _ this
    case updateSecret old new =>
      have : name ≠ new.name := fun e => hn (e ▸ hq)
      simp only [exec]
      split
      · rfl
      · split
        · exact find_map_replace _ _ _ this
        · rfl
  · simp only [findSecret]
    rw [frame_secrets s r hw]

theorem writesNames_write {Pn : String → Prop} (old : Option Secret) (new : Secret) (h : Pn new.name) :
    WritesNames Pn (writeSecret old new) := by
  cases old <;> exact h

theorem loadCA_issues_names (g : Generator) (ca : String) (n : Nat) :
    Issues (WritesNames (· = ca)) (loadOrGenerateCA g ca n) := by
  have hgen : ∀ old n, Issues (WritesNames (· = ca)) (genCA g ca old n) := by
    intro old n
    unfold genCA
    split
    · exact .ret _
    · refine .call _ _ (writesNames_write _ _ rfl) ?_
      intro y; split <;> exact .ret _
  unfold loadOrGenerateCA
  refine .call _ _ trivial ?_
  intro x; split
  · exact hgen _ _
  · split
    · exact .ret _
    · exact hgen _ _
  · exact .ret _

/-! ### the CA loader under an arbitrary plan -/

theorem run_ret (plan : Plan) (k : Nat) (a : α) (s : Store) : run sem plan k (.ret a : P α) s = (s, some a) := rfl

theorem genCA_run (g : Generator) (ca : String) (old : Option Secret) (n : Nat) (plan : Plan) (k : Nat)
    (s t : Store) (sg : Signer) (n' : Nat) (ho : findSecret s ca = old)
    (h : run sem plan k (genCA g ca old n) s = (t, some (some sg, n'))) : CAsigner t ca sg := by
  unfold genCA at h
  split at h
  · simp [run_ret] at h
  · rename_i kp c hg
    obtain ⟨e1, e2, _⟩ := exec_write s old (caSecret ca old kp c) (by simpa using ho)
    cases hk : plan k with
    | ok =>
      rw [run_ok plan k _ _ s hk, e1] at h
      simp only [run_ret, Prod.mk.injEq, Option.some.injEq] at h
      obtain ⟨ht, hsg, _⟩ := h
      subst ht hsg
      exact ⟨_, by simpa using e2, by simp [caSecret, isComplete], rfl, rfl⟩
    | fail => rw [run_fail plan k _ _ s hk] at h; simp [run_ret] at h
    | conflict => rw [run_conflict plan k _ _ s hk] at h; simp [run_ret] at h
    | crashBefore => rw [run_crashBefore plan k _ _ s hk] at h; simp at h
    | crashAfter => rw [run_crashAfter plan k _ _ s hk] at h; simp at h

theorem loadCA_run (g : Generator) (ca : String) (n : Nat) (plan : Plan) (k : Nat) (s t : Store) (sg : Signer) (n' : Nat)
    (h : run sem plan k (loadOrGenerateCA g ca n) s = (t, some (some sg, n'))) : CAsigner t ca sg := by
  unfold loadOrGenerateCA at h
  cases hk : plan k with
  | ok =>
    rw [run_ok plan k _ _ s hk, exec_getSecret] at h
    cases hf : findSecret s ca with
    | none =>
      simp only [hf] at h
      exact genCA_run g ca none n plan (k+1) s t sg n' hf h
    | some sec =>
      simp only [hf] at h
      split at h
      · rename_i hc
        simp only [run_ret, Prod.mk.injEq, Option.some.injEq] at h
        obtain ⟨ht, hp, _⟩ := h
        subst ht
        obtain ⟨hkd, hcr⟩ := parseSigner_inv hp
        exact ⟨sec, hf, hc, hkd, hcr⟩
      · exact genCA_run g ca (some sec) n plan (k+1) s t sg n' hf h
  | fail => rw [run_fail plan k _ _ s hk] at h; simp [run_ret] at h
  | conflict => rw [run_conflict plan k _ _ s hk] at h; simp [run_ret] at h
  | crashBefore => rw [run_crashBefore plan k _ _ s hk] at h; simp at h
  | crashAfter => rw [run_crashAfter plan k _ _ s hk] at h; simp at h

/-! ### issued certificates -/

/-- a leaf secret as issued for `ref` by signer `sg` -/
def LeafGood (sg : Signer) (ref : TlsRef) (l : Secret) : Prop :=
  ∃ c, l.crt = .cert c ∧ l.key = .key c.kp ∧ l.ca = .cert sg.cert ∧ c.signedBy = sg.cert.kp ∧ c.dns = ref.dns ∧ c.ca = false

def LeafReq (sg : Signer) (refs : List TlsRef) : Req → Prop
  | .createSecret new => ∃ ref ∈ refs, new.name = ref.name ∧ LeafGood sg ref new
  | .updateSecret old new => hasMaterial old = false ∧ ∃ ref ∈ refs, new.name = ref.name ∧ LeafGood sg ref new
  | _ => True

/-- phase-2 invariant: the CA secret is the signer's, and every other secret is as at the start of the
phase or freshly issued by this signer -/
def Phase2 (ca : String) (sg : Signer) (refs : List TlsRef) (s₁ x : Store) : Prop :=
  CAsigner x ca sg ∧ ∀ name, name ≠ ca →
    (findSecret x name = findSecret s₁ name ∨
     ∃ l ref, ref ∈ refs ∧ ref.name = name ∧ findSecret x name = some l ∧ LeafGood sg ref l)

theorem exec_phase2 {ca : String} {sg : Signer} {refs : List TlsRef} {s₁ x : Store} {r : Req}
    (h : Phase2 ca sg refs s₁ x) (hq : LeafReq sg refs r) : Phase2 ca sg refs s₁ (exec x r).1 := by
  obtain ⟨⟨sec, hs1, hs2, hs3, hs4⟩, hrest⟩ := h
  by_cases hw : r.comp = some .secrets
  · cases r <;> simp [Req.comp] at hw
    case createSecret new =>
      obtain ⟨ref, hr, hname, hgood⟩ := hq
      simp only [exec]
      split
      · exact ⟨⟨sec, hs1, hs2, hs3, hs4⟩, hrest⟩
      · rename_i hnone
        have hne : ca ≠ new.name := by
          intro e; rw [← e, hs1] at hnone; cases hnone
        refine ⟨⟨sec, ?_, hs2, hs3, hs4⟩, ?_⟩
        · simp only [findSecret] at hs1 ⊢; rw [find_append_other _ _ _ hne]; exact hs1
        · intro name hn
          by_cases he : name = new.name
          · subst he
            exact Or.inr ⟨new, ref, hr, hname.symm, find_append_new _ _ hnone, hgood⟩
          · rcases hrest name hn with h' | ⟨l, ref', h1, h2, h3, h4⟩
            · left; rw [← h']; exact find_append_other _ _ _ he
            · right; exact ⟨l, ref', h1, h2, by simp only [findSecret] at h3 ⊢; rw [find_append_other _ _ _ he]; exact h3, h4⟩
    case updateSecret old new =>
      obtain ⟨hold, ref, hr, hname, hgood⟩ := hq
      simp only [exec]
      split
      · exact ⟨⟨sec, hs1, hs2, hs3, hs4⟩, hrest⟩
      · rename_i cur hcur
        split
        · rename_i heq
          have hne : ca ≠ new.name := by
            intro e
            rw [← e, hs1] at hcur
            cases hcur
            subst heq
            rw [isComplete_hasMaterial hs2] at hold
            cases hold
          refine ⟨⟨sec, ?_, hs2, hs3, hs4⟩, ?_⟩
          · simp only [findSecret] at hs1 ⊢; rw [find_map_replace _ _ _ hne]; exact hs1
          · intro name hn
            by_cases he : name = new.name
            · subst he
              exact Or.inr ⟨new, ref, hr, hname.symm, find_map_replace_self _ _ _ hcur, hgood⟩
            · rcases hrest name hn with h' | ⟨l, ref', h1, h2, h3, h4⟩
              · left; rw [← h']; exact find_map_replace _ _ _ he
              · right; exact ⟨l, ref', h1, h2, by simp only [findSecret] at h3 ⊢; rw [find_map_replace _ _ _ he]; exact h3, h4⟩
        · exact ⟨⟨sec, hs1, hs2, hs3, hs4⟩, hrest⟩
  · have e := frame_secrets x r hw
    refine ⟨⟨sec, by simp only [findSecret] at hs1 ⊢; rw [e]; exact hs1, hs2, hs3, hs4⟩, ?_⟩
    intro name hn
    rcases hrest name hn with h' | ⟨l, ref', h1, h2, h3, h4⟩
    · left; simp only [findSecret] at h' ⊢; rw [e]; exact h'
    · right; exact ⟨l, ref', h1, h2, by simp only [findSecret] at h3 ⊢; rw [e]; exact h3, h4⟩

theorem leafReq_write {sg : Signer} {refs : List TlsRef} (old : Option Secret) (new : Secret)
    (ho : ∀ o, old = some o → hasMaterial o = false) (h : ∃ ref ∈ refs, new.name = ref.name ∧ LeafGood sg ref new) :
    LeafReq sg refs (writeSecret old new) := by
  cases old with
  | none => exact h
  | some o => exact ⟨ho o rfl, h⟩

theorem ensureOpt_issues_leaf (g : Generator) (hg : g.Sound) (ref : Option TlsRef) (sg : Signer) (n : Nat)
    (refs : List TlsRef) (hr : ∀ r, ref = some r → r ∈ refs) : Issues (LeafReq sg refs) (ensureOpt g ref sg n) := by
  unfold ensureOpt
  split
  · exact .ret _
  · rename_i r
    have hmem := hr r rfl
    have issue : ∀ old, (∀ o, old = some o → hasMaterial o = false) → Issues (LeafReq sg refs) (issueLeaf g r sg n old) := by
      intro old ho
      unfold issueLeaf
      split
      · exact .ret _
      · split
        · exact .ret _
        · rename_i kp c hgen
          obtain ⟨h1, h2, h3⟩ := hg.kp _ _ _ _ _ _ hgen
          obtain ⟨h4, h5⟩ := hg.signed _ _ _ _ _ _ hgen
          refine .call _ _ (leafReq_write _ _ ho ⟨r, hmem, rfl, c, rfl, ?_, rfl, ?_, h2, h3⟩) ?_
          · simp [leafSecret, h1]
          · rw [h4, h5]
          · intro y; split <;> exact .ret _
    unfold ensureLeaf
    refine .call _ _ trivial ?_
    intro x
    split
    · exact issue none (fun _ h => by cases h)
    · split
      · exact .ret _
      · rename_i sec hm
        exact issue (some sec) (fun o h => by cases h; simpa using hm)
    · exact .ret _

/-! ### the statement: certificates that changed are chained and named -/

/-- secret `name` is a certificate signed by the key pair of the stored, complete CA certificate,
carries that CA certificate as ca.crt, and names the DNS names configured for it -/
def Chained (ca : String) (refs : List TlsRef) (x : Store) (name : String) : Prop :=
  ∃ sec C l c ref, findSecret x ca = some sec ∧ isComplete sec = true ∧ sec.crt = .cert C ∧
    findSecret x name = some l ∧ l.crt = .cert c ∧ l.key = .key c.kp ∧ l.ca = .cert C ∧ c.signedBy = C.kp ∧
    ref ∈ refs ∧ ref.name = name ∧ c.dns = ref.dns

/-- every secret (other than the CA secret) that differs from the start state is `Chained` -/
def IssuedOk (ca : String) (refs : List TlsRef) (s x : Store) : Prop :=
  ∀ name, name ≠ ca → findSecret x name ≠ findSecret s name → Chained ca refs x name

theorem phase2_issued {ca : String} {sg : Signer} {refs : List TlsRef} {s₁ x : Store} (h : Phase2 ca sg refs s₁ x) :
    IssuedOk ca refs s₁ x := by
  intro name hn hne
  obtain ⟨⟨sec, hs1, hs2, _, hs4⟩, hrest⟩ := h
  rcases hrest name hn with h' | ⟨l, ref, h1, h2, h3, c, g1, g2, g3, g4, g5, _⟩
  · exact absurd h' hne
  · exact ⟨sec, sg.cert, l, c, ref, hs1, hs2, hs4, h3, g1, g2, g3, g4, h1, h2, g5⟩

def optRefs (sv cl : Option TlsRef) : List TlsRef := sv.toList ++ cl.toList

theorem tlsStep_issued (g : Generator) (hg : g.Sound) (ca : String) (sv cl : Option TlsRef) (n : Nat)
    (plan : Plan) (k : Nat) (s : Store) :
    ∀ x ∈ reach sem plan k (tlsStep g ca sv cl n) s, IssuedOk ca (optRefs sv cl) s x := by
  unfold tlsStep
  split
  · intro x hx
    simp [reach] at hx; subst hx
    intro name _ hne; exact absurd rfl hne
  · refine reach_bind_inv _ plan _ _ k s ?_ ?_
    · -- while the CA is loaded or generated only the CA secret can change
      intro x hx name hn hne
      have := reach_inv sem (fun y => ∀ nm, ¬ nm = ca → findSecret y nm = findSecret s nm) (WritesNames (· = ca))
        (fun _ _ hi hq => exec_other_names hi hq) plan k _ (loadCA_issues_names g ca n) s (fun _ _ => rfl) x hx name hn
      exact absurd this hne
    · rintro ⟨osg, n1⟩ k1 hrun
      cases osg with
      | none =>
        intro x hx
        simp [reach] at hx
        subst hx
        intro name hn hne
        have := reach_inv sem (fun y => ∀ nm, ¬ nm = ca → findSecret y nm = findSecret s nm) (WritesNames (· = ca))
          (fun _ _ hi hq => exec_other_names hi hq) plan k _ (loadCA_issues_names g ca n) s (fun _ _ => rfl) _
          (run_mem_reach sem plan k _ s) name hn
        exact absurd this hne
      | some sg =>
        simp only
        -- phase 2 starts at t1 where the CA secret is the signer's
        have hrun' : run sem plan k (loadOrGenerateCA g ca n) s = ((run sem plan k (loadOrGenerateCA g ca n) s).1, some (some sg, n1)) := by
          rw [← hrun]
        have hca := loadCA_run g ca n plan k s _ sg n1 hrun'
        have hframe : ∀ nm, ¬ nm = ca → findSecret (run sem plan k (loadOrGenerateCA g ca n) s).1 nm = findSecret s nm :=
          reach_inv sem (fun y => ∀ nm, ¬ nm = ca → findSecret y nm = findSecret s nm) (WritesNames (· = ca))
            (fun _ _ hi hq => exec_other_names hi hq) plan k _ (loadCA_issues_names g ca n) s (fun _ _ => rfl) _
            (run_mem_reach sem plan k _ s)
        have hp0 : Phase2 ca sg (optRefs sv cl) (run sem plan k (loadOrGenerateCA g ca n) s).1 (run sem plan k (loadOrGenerateCA g ca n) s).1 :=
          ⟨hca, fun _ _ => Or.inl rfl⟩
        have hissues : Issues (LeafReq sg (optRefs sv cl))
            (Prog.bind (ensureOpt g sv sg n1) fun (r, n) => match r with
              | .ok => ensureOpt g cl sg n
              | e => .ret (e, n)) := by
          refine issues_bind (ensureOpt_issues_leaf g hg sv sg n1 _ (fun r hr => by simp [optRefs, hr])) ?_
          rintro ⟨r, n2⟩
          simp only
          split
          · exact ensureOpt_issues_leaf g hg cl sg n2 _ (fun r hr => by simp [optRefs, hr])
          · exact .ret _
        intro x hx
        have hp := reach_inv sem (Phase2 ca sg (optRefs sv cl) _) (LeafReq sg (optRefs sv cl))
          (fun _ _ hi hq => exec_phase2 hi hq) plan k1 _ hissues _ hp0 x hx
        intro name hn hne
        have := phase2_issued hp name hn
        rw [hframe name hn] at this
        exact this hne


/-! ### lifting to the whole initializer and to histories -/

def leafRefs : List Step → List TlsRef
  | [] => []
  | .tls _ sv cl :: rest => optRefs sv cl ++ leafRefs rest
  | _ :: rest => leafRefs rest

theorem chained_mono {ca : String} {refs refs' : List TlsRef} {x : Store} {name : String}
    (h : Chained ca refs x name) (hsub : ∀ r ∈ refs, r ∈ refs') : Chained ca refs' x name := by
  obtain ⟨sec, C, l, c, ref, h1, h2, h3, h4, h5, h6, h7, h8, h9, h10, h11⟩ := h
  exact ⟨sec, C, l, c, ref, h1, h2, h3, h4, h5, h6, h7, h8, hsub ref h9, h10, h11⟩

theorem chained_kept {ca : String} {refs : List TlsRef} {t x : Store} {name : String} (hn : name ≠ ca)
    (h : Chained ca refs t name) (hk : KeptFrom [ca] t x) : Chained ca refs x name := by
  obtain ⟨sec, C, l, c, ref, h1, h2, h3, h4, h5, h6, h7, h8, h9, h10, h11⟩ := h
  refine ⟨sec, C, l, c, ref, hk ca sec h1 (Or.inl h2), h2, h3, hk name l h4 (Or.inr ⟨?_, ?_⟩), h5, h6, h7, h8, h9, h10, h11⟩
  · have : l.name = name := find_name h4
    simp [this, hn]
  · simp [hasMaterial, h5]

/-- steps other than the TLS step never write a secret -/
theorem step_secrets_frame (g : Generator) (n : Nat) (st : Step) (hst : ∀ ca sv cl, st ≠ .tls ca sv cl)
    (plan : Plan) (k : Nat) (t : Store) : ∀ x ∈ reach sem plan k (st.prog g n) t, x.secrets = t.secrets := by
  have key : ∀ (c : Comp) (p : P (Res × Nat)), c ≠ .secrets → Issues (Only c) p →
      ∀ x ∈ reach sem plan k p t, x.secrets = t.secrets := by
    intro c p hc hp
    refine reach_inv sem (fun y => y.secrets = t.secrets) (Only c) ?_ plan k p hp t rfl
    intro y r hy hq
    rw [← hy]
    refine frame_secrets y r ?_
    rcases hq with e | e <;> simp [e]
    exact fun e' => hc e'
  cases st with
  | tls ca sv cl => exact absurd rfl (hst ca sv cl)
  | crds ref d => exact key .crds _ (by decide) (withNonce_issues n (crdsStep_issues ref d))
  | whcs ref svc d => exact key .whcs _ (by decide) (withNonce_issues n (whcsStep_issues ref svc d))
  | mig crd old => exact key .crds _ (by decide) (withNonce_issues n (migrateStep_issues crd old))
  | lock => exact key .lock _ (by decide) (withNonce_issues n lockStep_issues)
  | install p c f => exact key .pkgs _ (by decide) (withNonce_issues n (installWith_issues _ p c f))
  | sc ns => exact key .sc _ (by decide) (withNonce_issues n (scStep_issues ns))
  | drc => exact key .drc _ (by decide) (withNonce_issues n drcStep_issues)

def IssuedRel (ca : String) (refs : List TlsRef) (s₀ x : Store) : Prop :=
  IssuedOk ca refs s₀ x ∧ KeptFrom [ca] s₀ x

theorem mem_leafRefs_of_step {st : Step} {steps : List Step} (hst : st ∈ steps) {ca : String} {sv cl : Option TlsRef}
    (e : st = .tls ca sv cl) : ∀ r ∈ optRefs sv cl, r ∈ leafRefs steps := by
  induction steps with
  | nil => cases hst
  | cons y ys ih =>
    intro r hr
    rcases List.mem_cons.mp hst with h | h
    · subst h; subst e; simp [leafRefs, hr]
    · have := ih h r hr
      cases y <;> simp [leafRefs, this]

theorem mem_caNames_of_step {st : Step} {steps : List Step} (hst : st ∈ steps) {ca : String} {sv cl : Option TlsRef}
    (e : st = .tls ca sv cl) : ca ∈ caNames steps := by
  induction steps with
  | nil => cases hst
  | cons y ys ih =>
    rcases List.mem_cons.mp hst with h | h
    · subst h; subst e; simp [caNames]
    · have := ih h
      cases y <;> simp [caNames, this]

theorem issued_step (g : Generator) (hg : g.Sound) (steps : List Step) (ca : String)
    (hca : ∀ c ∈ caNames steps, c = ca) :
    ∀ st ∈ steps, ∀ (plan : Plan) (k n : Nat) (t : Store), ∀ x ∈ reach sem plan k (st.prog g n) t,
      ∀ s₀, IssuedRel ca (leafRefs steps) s₀ t → IssuedRel ca (leafRefs steps) s₀ x := by
  intro st hst plan k n t x hx s₀ ⟨hi, hk⟩
  have hcas : ∀ c ∈ caNames [st], c ∈ [ca] := by
    intro c hc
    cases st <;> simp [caNames] at hc
    case tls ca' sv cl =>
      subst hc
      simp [hca c (mem_caNames_of_step hst rfl)]
  have hkx : KeptFrom [ca] t x := kept_of_issues plan k _ (step_issues_safe g n [ca] st hcas) t t (keptFrom_refl _ t) x hx
  refine ⟨?_, keptFrom_trans hk hkx⟩
  intro name hn hne
  by_cases hchg : findSecret t name = findSecret s₀ name
  · -- changed by this very step
    rw [← hchg] at hne
    by_cases htls : ∃ ca' sv cl, st = .tls ca' sv cl
    · obtain ⟨ca', sv, cl, e⟩ := htls
      have hca' : ca' = ca := hca ca' (mem_caNames_of_step hst e)
      subst e; subst hca'
      exact chained_mono (tlsStep_issued g hg ca' sv cl n plan k t x hx name hn hne) (mem_leafRefs_of_step hst rfl)
    · have := step_secrets_frame g n st (fun ca' sv cl e => htls ⟨ca', sv, cl, e⟩) plan k t x hx
      exact absurd (by simp only [findSecret]; rw [this]) hne
  · exact chained_kept hn (hi name hn hchg) hkx

theorem issued_history (g : Generator) (hg : g.Sound) (steps : List Step) (ca : String)
    (hca : ∀ c ∈ caNames steps, c = ca) (runs : List (Plan × Nat)) (s : Store) :
    ∀ x ∈ history g steps runs s, IssuedOk ca (leafRefs steps) s x := by
  intro x hx
  exact (history_rel (IssuedRel ca (leafRefs steps)) g steps (issued_step g hg steps ca hca) runs s
    ⟨fun _ _ hne => absurd rfl hne, keptFrom_refl _ s⟩ x hx).1

end Xp.C20

import Xp.Proofs.C16
/-
C16: the validate phase writes nothing, and fails whenever some object cannot be
taken over or would be rejected.
-/
namespace Xp.C16

theorem apiCreate_dry (rejects : Obj → Bool) (oc : Outcome) (s : Store) (o : Obj) :
    (apiCreate rejects true oc s o).1 = s := by
  unfold apiCreate
  split <;> (try split) <;> simp [logW]

theorem apiUpdate_dry (rejects : Obj → Bool) (oc : Outcome) (s : Store) (o : Obj) :
    (apiUpdate rejects true oc s o).1 = s := by
  unfold apiUpdate
  split <;> (try split) <;> simp [logW]

theorem liftW_fst {α : Type} (a : α) (x : Store × WR) : (liftW a x).1 = x.1 := by
  obtain ⟨s, r⟩ := x
  cases r <;> rfl

theorem validateGo_store (rejects : Obj → Bool) (fault : Fault) (p : Parent) (control : Bool)
    (s : Store) (i : Nat) (d : Desired) : (validateGo rejects fault p control s i d).1 = s := by
  unfold validateGo
  split <;> try rfl
  split
  · split
    · simp only [liftW_fst, apiCreate_dry]
    · rfl
  · split
    · rfl
    · simp only [liftW_fst, apiUpdate_dry]

theorem validateOne_store (rejects : Obj → Bool) (fault : Fault) (p : Parent) (control : Bool)
    (s : Store) (i : Nat) (d : Desired) : (validateOne rejects fault p control s i d).1 = s := by
  unfold validateOne
  split
  · rfl
  · exact validateGo_store rejects fault p control s i d

theorem validateAll_store (rejects : Obj → Bool) (fault : Fault) (p : Parent) (control : Bool)
    (s : Store) (xs : List (Nat × Desired)) : (validateAll rejects fault p control s xs).1 = s := by
  induction xs generalizing s with
  | nil => rfl
  | cons x rest ih =>
    obtain ⟨i, d⟩ := x
    unfold validateAll
    have h1 := validateOne_store rejects fault p control s i d
    split <;> rename_i s1 _ heq <;> (rw [heq] at h1; simp only at h1; subst h1)
    · rfl
    · have h2 := ih s1
      split <;> rename_i s2 _ heq2 <;> (try rename_i heq3) <;> (rw [heq2] at h2; exact h2)
    · have h2 := ih s1
      split <;> rename_i s2 _ heq2 <;> (rw [heq2] at h2; exact h2)

/-- `r` is not a success -/
def R.failed {α : Type} : R α → Prop
  | .ok _ => False
  | _ => True

theorem liftW_failed {α : Type} (a : α) (x : Store × WR) (h : x.2 ≠ .ok) : (liftW a x).2.failed := by
  obtain ⟨s, r⟩ := x
  cases r <;> simp_all [liftW, R.failed]

/-- if the goroutine of one listed object fails, validate fails -/
theorem validateAll_failed (rejects : Obj → Bool) (fault : Fault) (p : Parent) (control : Bool)
    (s : Store) (xs : List (Nat × Desired)) (i : Nat) (d : Desired) (hm : (i, d) ∈ xs)
    (hf : (validateOne rejects fault p control s i d).2.failed) :
    (validateAll rejects fault p control s xs).2.failed := by
  induction xs with
  | nil => cases hm
  | cons x rest ih =>
    obtain ⟨i', d'⟩ := x
    unfold validateAll
    have h1 := validateOne_store rejects fault p control s i' d'
    split <;> rename_i s1 _ heq <;> (rw [heq] at h1; simp only at h1; subst h1)
    · trivial
    · split <;> trivial
    · rename_i cd
      rcases List.mem_cons.mp hm with e | e
      · cases e
        rw [heq] at hf
        exact absurd hf (by simp [R.failed])
      · have := ih e
        split <;> rename_i s2 _ heq2 <;> (rw [heq2] at this)
        · exact absurd this (by simp [R.failed])
        · trivial
        · trivial

/-! ### when does the goroutine of one object fail? -/

/-- the object Establish would submit for `d` in state `s` (the dry-run and the
real request carry this same object), if it gets as far as a request -/
def submission (p : Parent) (control : Bool) (s : Store) (d : Desired) : Option Obj :=
  match s.get d.key with
  | none => if control then some { desiredObj d with owners := createRefs p } else none
  | some cur =>
    match updateSub p control cur (desiredObj d) with
    | .ok o => some o
    | .error _ => none

/-- a different revision or owner controls the existing object: some controller
reference is neither the parent's nor the parent's package's -/
def ForeignControlled (p : Parent) (s : Store) (d : Desired) : Prop :=
  ∃ cur, s.get d.key = some cur ∧
    ∃ r ∈ cur.owners, r.isCtrl = true ∧ r.uid ≠ p.uid ∧ ∀ q, pkgRef p = some q → r.uid ≠ q.uid

theorem get_key (s : Store) (k : String) (c : Obj) (h : s.get k = some c) : c.key = k := by
  unfold Store.get at h
  simpa using List.find?_some h

theorem get_mem (s : Store) (k : String) (c : Obj) (h : s.get k = some c) : c ∈ s.objs := by
  unfold Store.get at h
  exact List.mem_of_find?_eq_some h

theorem apiUpdate_rejected (rejects : Obj → Bool) (dry : Bool) (oc : Outcome) (s : Store) (o : Obj)
    (h : rejects o = true) : (apiUpdate rejects dry oc s o).2 ≠ .ok := by
  unfold apiUpdate effOutcome
  simp [h]

theorem apiCreate_rejected (rejects : Obj → Bool) (dry : Bool) (oc : Outcome) (s : Store) (o : Obj)
    (h : rejects o = true) : (apiCreate rejects dry oc s o).2 ≠ .ok := by
  unfold apiCreate effOutcome
  simp [h]

theorem checkUpdate_ok (s : Store) (o c : Obj) (h : checkUpdate s o = .ok c) :
    s.get o.key = some c ∧ c.rv = o.rv ∧ ctrlCount o.owners ≤ 1 := by
  unfold checkUpdate at h
  split at h
  · cases h
  · rename_i c' hc'
    split at h
    · cases h
    · split at h
      · cases h
      · simp only [Except.ok.injEq] at h
        subst h
        rename_i h1 h2
        exact ⟨hc', by simpa using h1, by omega⟩

theorem checkCreate_none (s : Store) (o : Obj) (h : checkCreate s o = none) :
    s.get o.key = none ∧ ctrlCount o.owners ≤ 1 := by
  unfold checkCreate at h
  split at h
  · cases h
  · split at h
    · cases h
    · rename_i h1 h2
      exact ⟨by simpa using h1, by omega⟩

theorem apiUpdate_invalid (rejects : Obj → Bool) (dry : Bool) (oc : Outcome) (s : Store) (o : Obj)
    (h : 2 ≤ ctrlCount o.owners) : (apiUpdate rejects dry oc s o).2 ≠ .ok := by
  unfold apiUpdate
  split <;> try simp
  · split
    · simp
    · rename_i c hc
      have := (checkUpdate_ok s o c hc).2.2
      omega
  · split <;> (try split) <;> simp

theorem updateSub_foreign_invalid (p : Parent) (cur des sub : Obj) (r : ORef) (hr : r ∈ cur.owners)
    (hc : r.isCtrl = true) (hne : r.uid ≠ p.uid) (hq : ∀ q, pkgRef p = some q → r.uid ≠ q.uid)
    (h : updateSub p true cur des = .ok sub) : 2 ≤ ctrlCount sub.owners := by
  unfold updateSub at h
  simp only [if_true] at h
  have hr1 : r ∈ withPkg p cur.owners := mem_withPkg_of_ne p _ r hr hq
  have key : ∀ refs, addController (withPkg p cur.owners) (asController p) = .ok refs →
      refs = addOwner (withPkg p cur.owners) (asController p) := by
    intro refs h'
    unfold addController at h'
    split at h'
    · split at h'
      · simpa using h'.symm
      · cases h'
    · simpa using h'.symm
  split at h
  · cases h
  · rename_i refs hrefs
    have e := key refs hrefs
    simp only [Except.ok.injEq] at h
    subst h
    simp only
    subst e
    have hne' : r ≠ asController p := fun e => hne (by rw [e]; rfl)
    exact ctrlCount_ge_two _ r (asController p)
      (mem_addOwner_of_ne _ _ r hr1 hne) (mem_addOwner_self _ _) hne' hc rfl

/-- The goroutine of a blocked object fails, under every fault. -/
theorem validateGo_blocked (rejects : Obj → Bool) (fault : Fault) (p : Parent) (control : Bool)
    (s : Store) (i : Nat) (d : Desired)
    (hb : (control = true ∧ ForeignControlled p s d) ∨
          (∃ o, submission p control s d = some o ∧ rejects o = true)) :
    (validateGo rejects fault p control s i d).2.failed := by
  unfold validateGo
  split <;> try trivial
  split
  · rename_i hget
    rcases hb with ⟨_, cur, hcur, _⟩ | ⟨o, ho, hrej⟩
    · rw [hget] at hcur; cases hcur
    · unfold submission at ho
      rw [hget] at ho
      simp only at ho
      split at ho
      · simp only [Option.some.injEq] at ho
        rename_i hc
        simp only [hc, if_true]
        subst ho
        exact liftW_failed _ _ (apiCreate_rejected _ _ _ _ _ hrej)
      · cases ho
  · rename_i cur hget
    split
    · trivial
    · rename_i sub hsub
      apply liftW_failed
      rcases hb with ⟨hc, cur', hcur', r, hr, hrc, hne, hq⟩ | ⟨o, ho, hrej⟩
      · rw [hget] at hcur'
        cases hcur'
        subst hc
        exact apiUpdate_invalid _ _ _ _ _ (updateSub_foreign_invalid p cur _ sub r hr hrc hne hq hsub)
      · unfold submission at ho
        rw [hget] at ho
        simp only [hsub, Option.some.injEq] at ho
        subst ho
        exact apiUpdate_rejected _ _ _ _ _ hrej

/-- The goroutine of a blocked object fails, under every fault. -/
theorem validateOne_blocked (rejects : Obj → Bool) (fault : Fault) (p : Parent) (control : Bool)
    (s : Store) (i : Nat) (d : Desired)
    (hb : (control = true ∧ ForeignControlled p s d) ∨
          (∃ o, submission p control s d = some o ∧ rejects o = true)) :
    (validateOne rejects fault p control s i d).2.failed := by
  unfold validateOne
  split
  · trivial
  · exact validateGo_blocked rejects fault p control s i d hb

/-- a CRD that needs the CA bundle cannot be deployed by a controlling parent without one -/
theorem validateOne_needsCA (rejects : Obj → Bool) (fault : Fault) (p : Parent)
    (s : Store) (i : Nat) (d : Desired) (hn : d.needsCA = true) (ht : p.tls ≠ .present) :
    (validateOne rejects fault p true s i d).2.failed := by
  unfold validateOne
  simp [hn, ht, R.failed]

theorem mem_pick {α : Type} (xs : List α) (order : List Nat) (j : Nat) (x : α)
    (hx : xs[j]? = some x) (hj : j ∈ order) : (j, x) ∈ pick xs order := by
  unfold pick
  exact List.mem_filterMap.mpr ⟨j, hj, by simp [hx]⟩

end Xp.C16

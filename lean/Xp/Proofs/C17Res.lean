import Xp.Model.C17
import Xp.Proofs.C17Dag
import Xp.Proofs.C17Init
/-
C17 helper lemmas for PackageDependencyManager.Resolve: lock-package nodes of the DAG carry
the version recorded in the lock; AddOrUpdateNodes; the dependency check loop.
Core Lean only.
-/
namespace Xp.C17

/-! ### lock-package nodes come from lock entries -/

def NodeInv (pkgs : List Pkg) (d : Dag) : Prop :=
  ∀ n ∈ d, n.isPkg = true → ∃ p ∈ pkgs, p.source = n.id ∧ n.con = p.version

theorem NodeInv.append {pkgs : List Pkg} {d : Dag} {n : Node} (h : NodeInv pkgs d)
    (hn : n.isPkg = true → ∃ p ∈ pkgs, p.source = n.id ∧ n.con = p.version) : NodeInv pkgs (d ++ [n]) := by
  intro x hx
  rcases List.mem_append.1 hx with h' | h'
  · exact h x h'
  · simp only [List.mem_singleton] at h'; subst h'; exact hn

theorem NodeInv.addParents {pkgs : List Pkg} {d : Dag} (h : NodeInv pkgs d) (x : String) (cs : List String) :
    NodeInv pkgs (addParents d x cs) := by
  intro n hn hp
  unfold Xp.C17.addParents at hn
  obtain ⟨m, hm, rfl⟩ := List.mem_map.1 hn
  by_cases hc : (m.id == x) = true
  · simp only [hc, if_true] at hp ⊢
    exact h m hm hp
  · simp only [hc, Bool.false_eq_true, if_false] at hp ⊢
    exact h m hm hp

theorem addNodes_nodeInv (pkgs : List Pkg) : ∀ (ps : List Pkg) (d0 d : Dag),
    addNodes d0 (ps.map pkgNode) = .ok d → (∀ p ∈ ps, p ∈ pkgs) → NodeInv pkgs d0 → NodeInv pkgs d := by
  intro ps d0 d h hsub h0
  have := addNodes_eq _ _ _ h
  subst this
  intro n hn hp
  rcases List.mem_append.1 hn with h' | h'
  · exact h0 n h' hp
  · obtain ⟨p, hp', rfl⟩ := List.mem_map.1 h'
    exact ⟨p, hsub p hp', rfl, rfl⟩

theorem addEdge_nodeInv {pkgs : List Pkg} {o : Oracle} {upg : Bool} {d d' : Dag} {frm : String} {to : Dep} {i : Bool}
    (h : addEdge o upg d frm to = .ok (d', i)) (hinv : NodeInv pkgs d) : NodeInv pkgs d' := by
  unfold addEdge at h
  split at h
  · cases h
  · simp only [] at h
    split at h
    · simp only [Except.ok.injEq, Prod.mk.injEq] at h
      obtain ⟨rfl, _⟩ := h
      exact hinv.append (fun hp => by simp [depNode] at hp)
    · split at h
      · split at h
        all_goals
          simp only [Except.ok.injEq, Prod.mk.injEq] at h
          obtain ⟨rfl, _⟩ := h
          exact hinv.addParents _ _
      · simp only [Except.ok.injEq, Prod.mk.injEq] at h
        obtain ⟨rfl, _⟩ := h
        exact hinv

theorem addEdges_nodeInv {pkgs : List Pkg} {o : Oracle} {upg : Bool} {frm : String} :
    ∀ (es : List Dep) (d : Dag) (imp : List Dep) (d' : Dag) (imp' : List Dep),
      addEdges o upg frm d es imp = .ok (d', imp') → NodeInv pkgs d → NodeInv pkgs d' := by
  intro es
  induction es with
  | nil =>
    intro d imp d' imp' h hinv
    simp only [addEdges, Except.ok.injEq, Prod.mk.injEq] at h
    obtain ⟨rfl, _⟩ := h
    exact hinv
  | cons e rest ih =>
    intro d imp d' imp' h hinv
    unfold addEdges at h
    split at h
    · cases h
    · rename_i d1 i h1
      exact ih d1 _ d' imp' h (addEdge_nodeInv h1 hinv)

theorem initEdges_nodeInv {pkgs : List Pkg} {o : Oracle} {upg : Bool} :
    ∀ (ps : List Pkg) (d : Dag) (imp : List Dep) (d' : Dag) (imp' : List Dep),
      initEdges o upg d ps imp = .ok (d', imp') → NodeInv pkgs d → NodeInv pkgs d' := by
  intro ps
  induction ps with
  | nil =>
    intro d imp d' imp' h hinv
    simp only [initEdges, Except.ok.injEq, Prod.mk.injEq] at h
    obtain ⟨rfl, _⟩ := h
    exact hinv
  | cons p rest ih =>
    intro d imp d' imp' h hinv
    unfold initEdges at h
    split at h
    · cases h
    · rename_i d1 imp1 h1
      exact ih d1 imp1 d' imp' h (addEdges_nodeInv _ _ _ _ _ h1 hinv)

theorem Dag.get_some {d : Dag} {id : String} {n : Node} (h : d.get id = some n) : n ∈ d ∧ n.id = id := by
  unfold Dag.get at h
  exact ⟨List.mem_of_find?_eq_some h, by simpa using List.find?_some h⟩

/-- a lock-package node found under `id` stands for a lock entry with that source and version -/
theorem init_nodes {o : Oracle} {upg : Bool} {pkgs : List Pkg} {d : Dag} {imp : List Dep}
    (h : init o upg pkgs = .ok (d, imp)) {id : String} {n : Node} (hg : d.get id = some n) (hp : n.isPkg = true) :
    ∃ p ∈ pkgs, p.source = id ∧ n.con = p.version := by
  unfold init at h
  cases ha : addNodes [] (pkgs.map pkgNode) with
  | error e => rw [ha] at h; cases h
  | ok d0 =>
    rw [ha] at h
    simp only [] at h
    have h0 : NodeInv pkgs d0 := addNodes_nodeInv pkgs pkgs [] d0 ha (fun _ h => h) (fun _ h => by cases h)
    have h1 := initEdges_nodeInv pkgs d0 [] d imp h h0
    obtain ⟨hm, hid⟩ := Dag.get_some hg
    obtain ⟨p, hp1, hp2, hp3⟩ := h1 n hm hp
    exact ⟨p, hp1, by rw [hp2, hid], hp3⟩

/-- every node of the DAG is a lock package's source or an implied dependency -/
theorem init_keys {o : Oracle} {upg : Bool} {pkgs : List Pkg} {d : Dag} {imp : List Dep}
    (h : init o upg pkgs = .ok (d, imp)) {id : String} (hk : d.has id = true) :
    id ∈ pkgs.map (·.source) ∨ id ∈ imp.map (·.pkg) := by
  obtain ⟨hnb, _, hsup, _⟩ := init_spec h
  rw [Dag.has_eq, hnb] at hk
  unfold lockNb at hk
  cases hf : pkgs.find? (fun p => p.source == id) with
  | some p =>
    left
    have hp := List.mem_of_find?_eq_some hf
    have : p.source = id := by simpa using List.find?_some hf
    exact List.mem_map.2 ⟨p, hp, this⟩
  | none =>
    rw [hf] at hk
    simp only [] at hk
    by_cases hs : id ∈ pkgs.map (·.source)
    · exact Or.inl hs
    · right
      split at hk
      · rename_i hany
        obtain ⟨e, he, hx⟩ := List.any_eq_true.1 hany
        have : e.pkg = id := by simpa using hx
        subst this
        exact hsup e he hs
      · cases hk

/-! ### AddOrUpdateNodes -/

theorem addOrUpdate_get (upg : Bool) (d : Dag) (n : Node) (id : String) :
    ∃ n', n'.id = n.id ∧ n'.isPkg = n.isPkg ∧ n'.con = n.con ∧ n'.deps = n.deps ∧
      Dag.get (addOrUpdate upg d n) id = if n.id == id then some n' else d.get id := by
  unfold addOrUpdate
  cases hg : d.get n.id with
  | none =>
    refine ⟨n, rfl, rfl, rfl, rfl, ?_⟩
    simp only []
    rw [Dag.get_append]
    by_cases hid : (n.id == id) = true
    · have : n.id = id := by simpa using hid
      subst this
      rw [hg]
      simp [Dag.get]
    · have hf : (n.id == id) = false := by simpa using hid
      rw [hf]
      simp only [Bool.false_eq_true, if_false]
      cases hd : d.get id with
      | some _ => rfl
      | none => simp [Dag.get, hf]
  | some old =>
    simp only []
    refine ⟨if upg then { n with parents := n.parents ++ old.parents } else n, ?_, ?_, ?_, ?_, ?_⟩
    · split <;> rfl
    · split <;> rfl
    · split <;> rfl
    · split <;> rfl
    · obtain ⟨_, holdid⟩ := Dag.get_some hg
      have hn'id : (if upg then { n with parents := n.parents ++ old.parents } else n).id = n.id := by split <;> rfl
      generalize (if upg then { n with parents := n.parents ++ old.parents } else n) = n' at *
      have hf : ∀ x : Node, (if (x.id == n.id) = true then n' else x).id = x.id := by
        intro x
        split
        · rename_i hx
          rw [hn'id]; exact (by simpa using hx : x.id = n.id).symm
        · rfl
      rw [Dag.get_map_same_id d (fun x => if (x.id == n.id) = true then n' else x) hf]
      by_cases hid : (n.id == id) = true
      · have : n.id = id := by simpa using hid
        subst this
        rw [hg]
        simp [holdid]
      · have hne : (n.id == id) = false := by simpa using hid
        rw [hne]
        simp only [Bool.false_eq_true, if_false]
        cases hd : d.get id with
        | none => rfl
        | some x =>
          have hx := (Dag.get_some hd).2
          simp only [Option.map_some]
          have : (x.id == n.id) = false := by
            rw [hx]
            cases hb : id == n.id with
            | false => rfl
            | true =>
              have e : id = n.id := by simpa using hb
              rw [e] at hne; simp at hne
          simp [this]

theorem addOrUpdate_nb (upg : Bool) (d : Dag) (n : Node) (id : String) :
    Dag.nb (addOrUpdate upg d n) id = if n.id == id then some (n.deps.map (·.pkg)) else d.nb id := by
  obtain ⟨n', _, _, _, hdeps, hget⟩ := addOrUpdate_get upg d n id
  unfold Dag.nb
  rw [hget]
  split
  · simp [hdeps]
  · rfl

theorem addOrUpdate_has (upg : Bool) (d : Dag) (n : Node) (id : String) :
    Dag.has (addOrUpdate upg d n) id = (n.id == id || d.has id) := by
  rw [Dag.has_eq, addOrUpdate_nb, Dag.has_eq]
  split
  · rename_i h; simp [h]
  · rename_i h; simp [h]

/-! ### the dependency check loop -/

theorem checkDeps_spec (o : Oracle) (d : Dag) : ∀ (es : List Dep) (k k' : Nat),
    checkDeps o d es k = .ok k' → k ≤ k' ∧ (k' = k → ∀ e ∈ es, checkDep o d e = none) := by
  intro es
  induction es with
  | nil =>
    intro k k' h
    simp only [checkDeps, Except.ok.injEq] at h
    subst h
    exact ⟨Nat.le_refl _, fun _ _ h => by cases h⟩
  | cons e rest ih =>
    intro k k' h
    unfold checkDeps at h
    cases hc : checkDep o d e with
    | none =>
      rw [hc] at h
      simp only [] at h
      obtain ⟨a, b⟩ := ih k k' h
      refine ⟨a, fun hk x hx => ?_⟩
      cases hx with
      | head => exact hc
      | tail _ hx' => exact b hk x hx'
    | some r =>
      rw [hc] at h
      obtain ⟨err, counted⟩ := r
      cases counted with
      | false => simp only [] at h; cases h
      | true =>
        simp only [] at h
        obtain ⟨a, _⟩ := ih (k + 1) k' h
        exact ⟨by omega, fun hk => by omega⟩

/-- what a passed check of one direct dependency means -/
theorem checkDep_none {o : Oracle} {d : Dag} {e : Dep} (h : checkDep o d e = none) :
    ∃ n, d.get e.pkg = some n ∧ n.isPkg = true ∧
      ((∃ dg, o.digest e.con = some dg ∧ n.con = dg) ∨
       (o.digest e.con = none ∧ o.conOk e.con = true ∧ (o.ver n.con).isSome = true ∧ o.sat e.con n.con = true)) := by
  unfold checkDep at h
  cases hg : d.get e.pkg with
  | none => rw [hg] at h; cases h
  | some n =>
    rw [hg] at h
    simp only [] at h
    cases hp : n.isPkg with
    | false => rw [hp] at h; simp at h
    | true =>
      rw [hp] at h
      simp only [Bool.not_true, Bool.false_eq_true, if_false] at h
      refine ⟨n, rfl, hp, ?_⟩
      cases hd : o.digest e.con with
      | some dg =>
        rw [hd] at h
        simp only [] at h
        split at h
        · cases h
        · rename_i hne
          exact Or.inl ⟨dg, rfl, by simpa using hne⟩
      | none =>
        rw [hd] at h
        simp only [] at h
        split at h
        · cases h
        · rename_i h1
          split at h
          · cases h
          · rename_i h2
            split at h
            · cases h
            · rename_i h3
              refine Or.inr ⟨rfl, by simpa using h1, ?_, by simpa using h3⟩
              cases hv : o.ver n.con with
              | none => rw [hv] at h2; simp at h2
              | some _ => rfl

/-! ### reachability only depends on the edges -/

theorem Reach.congr {nb1 nb2 : String → Option (List String)} (h : ∀ n, (nb1 n).getD [] = (nb2 n).getD [])
    {a b : String} (r : Reach nb1 a b) : Reach nb2 a b := by
  induction r with
  | edge e => exact .edge (by unfold Edge at *; rw [← h]; exact e)
  | step e _ ih => exact .step (by unfold Edge at *; rw [← h]; exact e) ih

/-! ### what a satisfied Resolve has checked -/

theorem checkDeps_error_ne_none (o : Oracle) (d : Dag) : ∀ (es : List Dep) (k : Nat) (e : ResErr),
    checkDeps o d es k = .error e → e ≠ .none := by
  intro es
  induction es with
  | nil => intro k e hh; simp [checkDeps] at hh
  | cons x xs ih =>
    intro k e hh
    unfold checkDeps at hh
    cases hx : checkDep o d x with
    | none => rw [hx] at hh; exact ih k e hh
    | some r =>
      rw [hx] at hh
      obtain ⟨err, counted⟩ := r
      cases counted with
      | true => exact ih (k + 1) e hh
      | false =>
        simp only [Except.error.injEq] at hh
        subst hh
        intro he
        subst he
        unfold checkDep at hx
        repeat' split at hx
        all_goals simp at hx

/-- the facts established on the path of `resolveTail` that ends without error -/
theorem resolveTail_ok_facts {o : Oracle} {upg : Bool} {self : Pkg} {lock1 : List Pkg} {d : Dag} {implied : List Dep}
    (h : (resolveTail o upg self lock1 d implied).err = .none) :
    ∃ (tree : List String),
      let prExists := lock1.any (fun lp => lp.name == self.name)
      let d2 := if prExists then d else addOrUpdate upg d (pkgNode self)
      (resolveTail o upg self lock1 d implied).lock = (if prExists then lock1 else lock1 ++ [self]) ∧
      (prExists = false → ∀ e ∈ self.deps, d2.has e.pkg = true) ∧
      trace d2 self.source = .ok tree ∧
      (∀ i ∈ implied, i.pkg ∉ tree) ∧
      (∀ e ∈ self.deps, checkDep o d2 e = none) := by
  unfold resolveTail at h ⊢
  simp only [] at h ⊢
  generalize hpe : lock1.any (fun lp => lp.name == self.name) = prExists at *
  generalize hd2 : (if prExists = true then d else addOrUpdate upg d (pkgNode self)) = d2 at *
  generalize hcond : (!prExists && decide ((if prExists = true then (0 : Int) else
    ↑(self.deps.filter (fun e => d2.has e.pkg)).length) ≠ ↑self.deps.length)) = cond at *
  cases cond with
  | true => simp only [if_true] at h; cases h
  | false =>
    simp only [Bool.false_eq_true, if_false] at h ⊢
    cases ht : trace d2 self.source with
    | error e => rw [ht] at h; simp only [] at h; cases h
    | ok tree =>
      rw [ht] at h
      simp only [] at h ⊢
      by_cases hmiss : (implied.filter (fun i => tree.contains i.pkg)).length ≠ 0
      · rw [if_pos hmiss] at h; cases h
      · rw [if_neg hmiss] at h ⊢
        cases hc : checkDeps o d2 self.deps 0 with
        | error e =>
          rw [hc] at h
          exact absurd h (checkDeps_error_ne_none o d2 _ _ _ hc)
        | ok k =>
          rw [hc] at h
          simp only [] at h ⊢
          have hk : k = 0 := by
            cases k with
            | zero => rfl
            | succ k => simp at h
          subst hk
          refine ⟨tree, by first | rfl | trivial, ?_, by first | rfl | trivial, ?_, (checkDeps_spec o d2 self.deps 0 0 hc).2 rfl⟩
          · intro hpf
            subst hpf
            simp at hcond
            have : (self.deps.filter (fun e => d2.has e.pkg)).length = self.deps.length := by
              have := hcond
              omega
            exact List.length_filter_eq_length_iff.1 this
          · intro i hi hmem
            have hnil : implied.filter (fun i => tree.contains i.pkg) = [] := by
              cases hf : implied.filter (fun i => tree.contains i.pkg) with
              | nil => rfl
              | cons _ _ => rw [hf] at hmiss; simp at hmiss
            have := (List.filter_eq_nil_iff.1 hnil) i hi
            exact this (List.contains_iff_mem.2 hmem)

/-- the repaired Resolve runs its checks on a DAG built from the refreshed lock -/
theorem resolve_eq_tail {o : Oracle} {upg : Bool} {lock : List Pkg} {self : Pkg}
    (h : (resolveG true o upg lock self).err = .none) :
    ∃ d implied,
      init o upg (if lock.any (movedEntry self) then removeSelf lock self.name else lock) = .ok (d, implied) ∧
      resolveG true o upg lock self =
        resolveTail o upg self (if lock.any (movedEntry self) then removeSelf lock self.name else lock) d implied := by
  unfold resolveG at h ⊢
  cases hi0 : init o upg lock with
  | error e => rw [hi0] at h; simp at h
  | ok r0 =>
    obtain ⟨d0, imp0⟩ := r0
    rw [hi0] at h
    simp only [] at h ⊢
    cases hm : lock.any (movedEntry self) with
    | false =>
      rw [hm] at h
      simp only [Bool.false_and, Bool.false_eq_true, if_false] at h ⊢
      exact ⟨d0, imp0, hi0, rfl⟩
    | true =>
      rw [hm] at h
      simp only [Bool.and_self, if_true] at h ⊢
      cases hi1 : init o upg (removeSelf lock self.name) with
      | error e => rw [hi1] at h; simp at h
      | ok r1 => exact ⟨r1.1, r1.2, rfl, rfl⟩

/-! ### RemoveSelf -/

theorem removeSelf_sub : ∀ (l : List Pkg) (name : String) (p : Pkg), p ∈ removeSelf l name → p ∈ l := by
  intro l
  induction l with
  | nil => intro _ _ h; cases h
  | cons x xs ih =>
    intro name p h
    unfold removeSelf at h
    split at h
    · exact List.mem_cons_of_mem _ h
    · cases h with
      | head => exact List.mem_cons_self ..
      | tail _ h' => exact List.mem_cons_of_mem _ (ih name p h')

theorem removeSelf_name : ∀ (l : List Pkg) (name : String), (l.map (·.name)).Nodup →
    ∀ p ∈ removeSelf l name, p.name ≠ name := by
  intro l
  induction l with
  | nil => intro _ _ p h; cases h
  | cons x xs ih =>
    intro name hn p h
    simp only [List.map_cons, List.nodup_cons] at hn
    unfold removeSelf at h
    split at h
    · rename_i hx
      have hxn : x.name = name := by simpa using hx
      intro hp
      exact hn.1 (List.mem_map.2 ⟨p, h, by rw [hp, hxn]⟩)
    · rename_i hx
      cases h with
      | head => simpa using hx
      | tail _ h' => exact ih name hn.2 p h'

/-! ### the theorem -/

/-- soundness of the checks of `resolveTail` for the lock `lock1` they were built from: if the
entries of `lock1` that concern the revision are its own (`OwnEntry`), "no error" means that in the
lock it leaves behind the revision is recorded with its dependencies, every direct dependency
is a lock package at an acceptable version and every reachable package is a lock package -/
theorem resolveTail_sound (o : Oracle) (upg : Bool) (self : Pkg) (lock1 : List Pkg) (d : Dag) (implied : List Dep)
    (hinit : init o upg lock1 = .ok (d, implied)) (hwf : OwnEntry lock1 self)
    (h : (resolveTail o upg self lock1 d implied).err = .none) :
    lockNb (resolveTail o upg self lock1 d implied).lock self.source = some (self.deps.map (·.pkg)) ∧
    (∀ e ∈ self.deps, ∃ p ∈ (resolveTail o upg self lock1 d implied).lock, p.source = e.pkg ∧ VersionOk o e p.version) ∧
    (∀ m, Reach (lockNb (resolveTail o upg self lock1 d implied).lock) self.source m →
      m ∈ (resolveTail o upg self lock1 d implied).lock.map (·.source)) := by
  obtain ⟨tree, hlock, hdirect, htrace, himp, hchk⟩ := resolveTail_ok_facts h
  try simp only [] at hlock hdirect htrace hchk
  rw [hlock]
  obtain ⟨hnb, _, _, _⟩ := init_spec hinit
  have nbeq : d.nb = lockNb lock1 := funext hnb
  have hnamed : ∀ q ∈ lock1, q.name = self.name → q.source = self.source := hwf.named
  cases hpe : lock1.any (fun lp => lp.name == self.name) with
  | true =>
    rw [hpe] at hlock hdirect htrace hchk
    simp only [if_true] at htrace hchk ⊢
    obtain ⟨q, hq, hqn⟩ := List.any_eq_true.1 hpe
    have hqn' : q.name = self.name := by simpa using hqn
    have hqs : q.source = self.source := hnamed q hq hqn'
    -- the entry found under self's source carries self's dependencies
    have h0 : lockNb lock1 self.source = some (self.deps.map (·.pkg)) := by
      unfold lockNb
      cases hf : lock1.find? (fun p => p.source == self.source) with
      | none =>
        have := List.find?_eq_none.1 hf q hq
        simp [hqs] at this
      | some q' =>
        have hq' := List.mem_of_find?_eq_some hf
        have hs' : q'.source = self.source := by simpa using List.find?_some hf
        simp only []
        rw [(hwf.own q' hq' hs').2]
    have hks : ∀ n, (d.nb n).isSome = true ↔ n ∈ d.keys := d.nb_isSome_iff
    have hlen : d.keys.length = d.length := by unfold Dag.keys; exact List.length_map ..
    have hclosed : Closed d.nb := by rw [nbeq]; exact lockNb_closed lock1
    have hid : self.source ∈ d.keys := (hks _).1 (by rw [nbeq, h0]; rfl)
    obtain ⟨t, ht, hreach⟩ := traceG_spec d.nb d.keys hks hclosed self.source hid
    unfold trace at htrace
    rw [hlen, htrace] at ht
    simp only [Except.ok.injEq] at ht
    subst ht
    refine ⟨h0, ?_, ?_⟩
    · intro e he
      obtain ⟨n, hg, hp, hv⟩ := checkDep_none (hchk e he)
      obtain ⟨p, hp1, hp2, hp3⟩ := init_nodes hinit hg hp
      refine ⟨p, hp1, hp2, ?_⟩
      unfold VersionOk
      rw [← hp3]
      exact hv
    · intro m hm
      rw [← nbeq] at hm
      have hmt : m ∈ tree := (hreach m).2 hm
      have hmk : d.has m = true := by
        rw [Dag.has_eq]
        cases hm with
        | edge e => exact hclosed _ _ e
        | step _ r =>
          -- the last edge into m
          have : ∀ a b, Reach d.nb a b → (d.nb b).isSome = true := by
            intro a b r
            induction r with
            | edge e => exact hclosed _ _ e
            | step _ _ ih => exact ih
          exact this _ _ r
      rcases init_keys hinit hmk with hs | hi
      · exact hs
      · obtain ⟨i, hi1, hi2⟩ := List.mem_map.1 hi
        exact absurd (hi2 ▸ hmt) (himp i hi1)
  | false =>
    have hdirect' := hdirect hpe
    rw [hpe] at hlock htrace hchk hdirect'
    simp only [Bool.false_eq_true, if_false] at htrace hchk hdirect' ⊢
    -- no entry of lock1 sits under self's source
    have hnosrc : ∀ p ∈ lock1, p.source ≠ self.source := by
      intro p hp hs
      have hn := (hwf.own p hp hs).1
      have : lock1.any (fun lp => lp.name == self.name) = true :=
        List.any_eq_true.2 ⟨p, hp, by simp [hn]⟩
      rw [hpe] at this; cases this
    have hfind : lock1.find? (fun p => p.source == self.source) = none := by
      rw [List.find?_eq_none]
      intro p hp
      simpa using hnosrc p hp
    have h0 : lockNb (lock1 ++ [self]) self.source = some (self.deps.map (·.pkg)) := by
      unfold lockNb
      rw [List.find?_append, hfind]
      simp
    generalize hd2 : addOrUpdate upg d (pkgNode self) = d2 at *
    have hd2nb : ∀ id, d2.nb id = if self.source == id then some (self.deps.map (·.pkg)) else lockNb lock1 id := by
      intro id
      rw [← hd2, addOrUpdate_nb, nbeq]
      rfl
    have hd2has : ∀ id, d2.has id = (self.source == id || d.has id) := by
      intro id
      rw [← hd2, addOrUpdate_has]
      rfl
    -- d2 and the final lock have the same edges
    have hedges : ∀ id, (lockNb (lock1 ++ [self]) id).getD [] = (d2.nb id).getD [] := by
      intro id
      rw [hd2nb]
      by_cases hid : (self.source == id) = true
      · have : self.source = id := by simpa using hid
        subst this
        rw [h0]; simp
      · have hne : (self.source == id) = false := by simpa using hid
        rw [hne]
        simp only [Bool.false_eq_true, if_false]
        unfold lockNb
        rw [List.find?_append]
        cases hf : lock1.find? (fun p => p.source == id) with
        | some p => simp
        | none =>
          simp only [Option.none_or, List.find?_cons, hne, List.find?_nil]
          split <;> split <;> rfl
    have hks : ∀ n, (d2.nb n).isSome = true ↔ n ∈ d2.keys := d2.nb_isSome_iff
    have hlen : d2.keys.length = d2.length := by unfold Dag.keys; exact List.length_map ..
    have hclosed : Closed d2.nb := by
      intro n m e
      unfold Edge at e
      rw [hd2nb] at e
      rw [← Dag.has_eq]
      by_cases hn : (self.source == n) = true
      · rw [hn] at e
        simp only [if_true, Option.getD_some] at e
        obtain ⟨x, hx, rfl⟩ := List.mem_map.1 e
        exact hdirect' x hx
      · have hne : (self.source == n) = false := by simpa using hn
        rw [hne] at e
        simp only [Bool.false_eq_true, if_false] at e
        have := lockNb_closed lock1 n m e
        rw [hd2has, Dag.has_eq, nbeq, this]
        simp
    have hid : self.source ∈ d2.keys := (d2.has_iff_mem_keys _).1 (by rw [hd2has]; simp)
    obtain ⟨t, ht, hreach⟩ := traceG_spec d2.nb d2.keys hks hclosed self.source hid
    unfold trace at htrace
    rw [hlen, htrace] at ht
    simp only [Except.ok.injEq] at ht
    subst ht
    refine ⟨h0, ?_, ?_⟩
    · intro e he
      obtain ⟨n, hg, hp, hv⟩ := checkDep_none (hchk e he)
      obtain ⟨n', hn1, hn2, hn3, _, hget⟩ := addOrUpdate_get upg d (pkgNode self) e.pkg
      rw [hd2] at hget
      rw [hget] at hg
      by_cases hs : ((pkgNode self).id == e.pkg) = true
      · rw [hs] at hg
        simp only [if_true, Option.some.injEq] at hg
        subst hg
        refine ⟨self, List.mem_append_right _ (List.mem_singleton.2 rfl), by simpa [pkgNode] using hs, ?_⟩
        unfold VersionOk
        have : n'.con = self.version := hn3
        rw [← this]
        exact hv
      · have hne : ((pkgNode self).id == e.pkg) = false := by simpa using hs
        rw [hne] at hg
        simp only [Bool.false_eq_true, if_false] at hg
        obtain ⟨p, hp1, hp2, hp3⟩ := init_nodes hinit hg hp
        refine ⟨p, List.mem_append_left _ hp1, hp2, ?_⟩
        unfold VersionOk
        rw [← hp3]
        exact hv
    · intro m hm
      have hm2 : Reach d2.nb self.source m := Reach.congr hedges hm
      have hmt : m ∈ tree := (hreach m).2 hm2
      have hmk : d2.has m = true := by
        rw [Dag.has_eq]
        have : ∀ a b, Reach d2.nb a b → (d2.nb b).isSome = true := by
          intro a b r
          induction r with
          | edge e => exact hclosed _ _ e
          | step _ _ ih => exact ih
        exact this _ _ hm2
      rw [hd2has] at hmk
      rw [List.map_append, List.mem_append]
      by_cases hs : (self.source == m) = true
      · right
        have : self.source = m := by simpa using hs
        simp [this]
      · have hne : (self.source == m) = false := by simpa using hs
        rw [hne] at hmk
        simp only [Bool.false_or] at hmk
        rcases init_keys hinit hmk with hs' | hi
        · exact Or.inl hs'
        · obtain ⟨i, hi1, hi2⟩ := List.mem_map.1 hi
          exact absurd (hi2 ▸ hmt) (himp i hi1)

/-- the lock as refreshed after RemoveSelf, resp. the lock as read when nothing had to be removed,
holds only the revision's own entries -/
theorem ownEntry_lastRead {lock : List Pkg} {self : Pkg} (wf : LockWF lock self) :
    OwnEntry (if lock.any (movedEntry self) = true then removeSelf lock self.name else lock) self := by
  generalize hl1 : (if lock.any (movedEntry self) = true then removeSelf lock self.name else lock) = lock1
  have hsub : ∀ p ∈ lock1, p ∈ lock := by
    intro p hp
    rw [← hl1] at hp
    split at hp
    · exact removeSelf_sub _ _ _ hp
    · exact hp
  refine ⟨fun p hp hs => wf.own p (hsub p hp) hs, ?_⟩
  intro q hq hqn
  by_cases hs : q.source = self.source
  · exact hs
  · exfalso
    have hmoved : lock.any (movedEntry self) = true := by
      rw [List.any_eq_true]
      refine ⟨q, hsub q hq, ?_⟩
      simp [movedEntry, hqn, wf.untyped q (hsub q hq) hqn, hs]
    rw [hmoved] at hl1
    simp only [if_true] at hl1
    rw [← hl1] at hq
    exact removeSelf_name lock self.name wf.names q hq hqn

theorem resolve_sound (o : Oracle) (upg : Bool) (lock : List Pkg) (self : Pkg) (wf : LockWF lock self)
    (h : (resolveG true o upg lock self).err = .none) :
    lockNb (resolveG true o upg lock self).lock self.source = some (self.deps.map (·.pkg)) ∧
    (∀ e ∈ self.deps, ∃ p ∈ (resolveG true o upg lock self).lock, p.source = e.pkg ∧ VersionOk o e p.version) ∧
    (∀ m, Reach (lockNb (resolveG true o upg lock self).lock) self.source m →
      m ∈ (resolveG true o upg lock self).lock.map (·.source)) := by
  obtain ⟨d, implied, hinit, heq⟩ := resolve_eq_tail h
  rw [heq] at h ⊢
  exact resolveTail_sound o upg self _ d implied hinit (ownEntry_lastRead wf) h

end Xp.C17

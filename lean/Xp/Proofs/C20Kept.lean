import Xp.Proofs.C20Base
/-
C20 helper lemmas, part 2: what a request can do to the parts of the store
(frame lemmas of `exec`), and the request classes of the steps.
-/
namespace Xp.C20
open Xp

variable {α β : Type}

/-! ### secrets -/

def Req.isSecretWrite : Req → Bool
  | .createSecret _ => true
  | .updateSecret _ _ => true
  | _ => false

theorem exec_secrets (s : Store) (r : Req) (h : r.isSecretWrite = false) : (exec s r).1.secrets = s.secrets := by
  cases r <;> simp [Req.isSecretWrite] at h <;> simp only [exec] <;> repeat (first | rfl | split)

theorem find_map_replace (l : List Secret) (new : Secret) (n : String) (h : n ≠ new.name) :
    (l.map fun x => if x.name = new.name then new else x).find? (fun x => decide (x.name = n)) =
    l.find? (fun x => decide (x.name = n)) := by
  induction l with
  | nil => rfl
  | cons x xs ih =>
    simp only [List.map_cons, List.find?_cons]
    by_cases hx : x.name = new.name
    · have h1 : ¬ new.name = n := fun e => h e.symm
      have h2 : ¬ x.name = n := fun e => h (e ▸ hx)
      simp [hx, h1, ih]
    · simp [hx, ih]

theorem find_name {l : List Secret} {n : String} {sec : Secret}
    (h : l.find? (fun x => decide (x.name = n)) = some sec) : sec.name = n := by
  have := List.find?_some h
  simpa using this

theorem isComplete_hasMaterial {sec : Secret} (h : isComplete sec = true) : hasMaterial sec = true := by
  simp [isComplete, hasMaterial] at *
  exact Or.inl (Or.inl h.2)

/-- a secret the TLS steps must never rewrite: complete, or (not a CA secret and holding any material) -/
def Protected (cas : List String) (sec : Secret) : Prop :=
  isComplete sec = true ∨ (sec.name ∉ cas ∧ hasMaterial sec = true)

/-- request class of every initializer step: a secret is updated only from an unprotected version -/
def SafeReq (cas : List String) : Req → Prop
  | .updateSecret old new => isComplete old = false ∧ (new.name ∉ cas → hasMaterial old = false)
  | _ => True

def KeptFrom (cas : List String) (s₀ s : Store) : Prop :=
  ∀ n sec, findSecret s₀ n = some sec → Protected cas sec → findSecret s n = some sec

theorem keptFrom_refl (cas : List String) (s : Store) : KeptFrom cas s s := fun _ _ h _ => h

theorem exec_kept {cas : List String} {s₀ s : Store} {r : Req}
    (h : KeptFrom cas s₀ s) (hq : SafeReq cas r) : KeptFrom cas s₀ (exec s r).1 := by
  by_cases hw : r.isSecretWrite = false
  · intro n sec h0 hp
    have := h n sec h0 hp
    simp only [findSecret] at this ⊢
    rw [exec_secrets s r hw]; exact this
  · cases r <;> simp [Req.isSecretWrite] at hw
    case createSecret x =>
      intro n sec h0 hp
      have hs := h n sec h0 hp
      simp only [exec]
      split
      · exact hs
      · simp only [findSecret] at hs ⊢
        simp [List.find?_append, hs]
    case updateSecret old new =>
      intro n sec h0 hp
      have hs := h n sec h0 hp
      simp only [exec]
      split
      · exact hs
      · rename_i cur hcur
        split
        · rename_i heq
          by_cases hn : n = new.name
          · -- the protected secret is the one being replaced: impossible
            exfalso
            subst hn
            rw [hcur] at hs
            have : cur = sec := by simpa using hs
            subst this
            subst heq
            have hname : cur.name = new.name := find_name hcur
            rcases hp with hp | ⟨hp1, hp2⟩
            · simp [hq.1] at hp
            · rw [hname] at hp1
              simp [hq.2 hp1] at hp2
          · simp only [findSecret] at hs ⊢
            rw [find_map_replace _ _ _ hn]; exact hs
        · exact hs

theorem kept_of_issues {cas : List String} (plan : Plan) (k : Nat) (p : P α) (hp : Issues (SafeReq cas) p)
    (s₀ s : Store) (hs : KeptFrom cas s₀ s) : ∀ x ∈ reach sem plan k p s, KeptFrom cas s₀ x :=
  reach_inv sem (KeptFrom cas s₀) (SafeReq cas) (fun _ _ hi hq => exec_kept hi hq) plan k p hp s hs

/-! request classes of the TLS programs -/

theorem safe_write {cas : List String} {old : Option Secret} {new : Secret}
    (h : ∀ o, old = some o → isComplete o = false ∧ (new.name ∉ cas → hasMaterial o = false)) :
    SafeReq cas (writeSecret old new) := by
  cases old with
  | none => trivial
  | some o => exact h o rfl

theorem genCA_issues {cas : List String} (g : Generator) (ca : String) (hca : ca ∈ cas) (old : Option Secret) (n : Nat)
    (ho : ∀ o, old = some o → isComplete o = false) : Issues (SafeReq cas) (genCA g ca old n) := by
  unfold genCA
  split
  · exact .ret _
  · refine .call _ _ (safe_write ?_) ?_
    · intro o h
      exact ⟨ho o h, fun hn => absurd hca hn⟩
    · intro x; split <;> exact .ret _

theorem loadCA_issues {cas : List String} (g : Generator) (ca : String) (hca : ca ∈ cas) (n : Nat) :
    Issues (SafeReq cas) (loadOrGenerateCA g ca n) := by
  unfold loadOrGenerateCA
  refine .call _ _ trivial ?_
  intro x
  split
  · exact genCA_issues g ca hca none n (fun _ h => by cases h)
  · split
    · exact .ret _
    · rename_i sec hc
      exact genCA_issues g ca hca (some sec) n (fun o h => by cases h; simpa using hc)
  · exact .ret _

theorem issueLeaf_issues {cas : List String} (g : Generator) (ref : TlsRef) (sg : Signer) (n : Nat) (old : Option Secret)
    (ho : ∀ o, old = some o → hasMaterial o = false) : Issues (SafeReq cas) (issueLeaf g ref sg n old) := by
  unfold issueLeaf
  split
  · exact .ret _
  · split
    · exact .ret _
    · refine .call _ _ (safe_write ?_) ?_
      · intro o h
        have hm := ho o h
        refine ⟨?_, fun _ => hm⟩
        cases hc : isComplete o with
        | false => rfl
        | true => rw [isComplete_hasMaterial hc] at hm; cases hm
      · intro y; split <;> exact .ret _

theorem ensureLeaf_issues {cas : List String} (g : Generator) (ref : TlsRef) (sg : Signer) (n : Nat) :
    Issues (SafeReq cas) (ensureLeaf g ref sg n) := by
  unfold ensureLeaf
  refine .call _ _ trivial ?_
  intro x
  split
  · exact issueLeaf_issues g ref sg n none (fun _ h => by cases h)
  · split
    · exact .ret _
    · rename_i sec hm
      exact issueLeaf_issues g ref sg n (some sec) (fun o h => by cases h; simpa using hm)
  · exact .ret _

theorem ensureOpt_issues {cas : List String} (g : Generator) (ref : Option TlsRef) (sg : Signer) (n : Nat) :
    Issues (SafeReq cas) (ensureOpt g ref sg n) := by
  unfold ensureOpt
  split
  · exact .ret _
  · exact ensureLeaf_issues g _ sg n

theorem tlsStep_issues {cas : List String} (g : Generator) (ca : String) (hca : ca ∈ cas)
    (server client : Option TlsRef) (n : Nat) : Issues (SafeReq cas) (tlsStep g ca server client n) := by
  unfold tlsStep
  split
  · exact .ret _
  · refine issues_bind (loadCA_issues g ca hca n) ?_
    rintro ⟨sg, n'⟩
    simp only
    split
    · exact .ret _
    · refine issues_bind (ensureOpt_issues g server _ n') ?_
      rintro ⟨r, n''⟩
      simp only
      split
      · exact ensureOpt_issues g client _ n''
      · exact .ret _

end Xp.C20

import Xp.Model.C20
/-
C20 helper lemmas, part 1: generic facts about `Prog` programs over the C20 store
(fault-free evaluation, sequential composition, request classes).
-/
namespace Xp.C20
open Xp

variable {α β : Type}

/-! ### fault-free evaluation -/

/-- result of a fault-free run -/
def evalOk : P α → Store → Store × α
  | .ret a, s => (s, a)
  | .call r c, s => evalOk (c (exec s r).2) (exec s r).1

/-- every store visible during a fault-free run -/
def statesOk : P α → Store → List Store
  | .ret _, s => [s]
  | .call r c, s => s :: statesOk (c (exec s r).2) (exec s r).1

theorem run_allOk (p : P α) (k : Nat) (s : Store) :
    run sem Plan.allOk k p s = ((evalOk p s).1, some (evalOk p s).2) := by
  induction p generalizing k s with
  | ret a => rfl
  | call r c ih =>
    show run sem Plan.allOk (k+1) (c (sem.exec s r).2) (sem.exec s r).1 = _
    rw [ih]; rfl

theorem reach_allOk (p : P α) (k : Nat) (s : Store) :
    reach sem Plan.allOk k p s = statesOk p s := by
  induction p generalizing k s with
  | ret a => rfl
  | call r c ih =>
    show s :: reach sem Plan.allOk (k+1) (c (sem.exec s r).2) (sem.exec s r).1 = _
    rw [ih]; rfl

@[simp] theorem evalOk_ret (a : α) (s : Store) : evalOk (.ret a : P α) s = (s, a) := rfl
@[simp] theorem evalOk_call (r : Req) (c : Resp → P α) (s : Store) :
    evalOk (.call r c) s = evalOk (c (exec s r).2) (exec s r).1 := rfl

theorem evalOk_bind (p : P α) (f : α → P β) (s : Store) :
    evalOk (Prog.bind p f) s = evalOk (f (evalOk p s).2) (evalOk p s).1 := by
  induction p generalizing s with
  | ret a => rfl
  | call r c ih => exact ih _ _

theorem statesOk_bind (p : P α) (f : α → P β) (s : Store) (x : Store) :
    x ∈ statesOk (Prog.bind p f) s ↔ x ∈ statesOk p s ∨ x ∈ statesOk (f (evalOk p s).2) (evalOk p s).1 := by
  induction p generalizing s with
  | ret a =>
    show x ∈ statesOk (f a) s ↔ x ∈ [s] ∨ x ∈ statesOk (f a) s
    constructor
    · intro h; exact Or.inr h
    · intro h
      rcases h with h | h
      · simp at h; subst h
        cases hf : f a with
        | ret b => simp [statesOk]
        | call r c => simp [statesOk]
      · exact h
  | call r c ih =>
    show x ∈ s :: statesOk (Prog.bind (c (exec s r).2) f) (exec s r).1 ↔ x ∈ s :: statesOk (c (exec s r).2) (exec s r).1 ∨ _
    simp only [List.mem_cons, ih, evalOk_call]
    constructor
    · rintro (h | h | h)
      · exact Or.inl (Or.inl h)
      · exact Or.inl (Or.inr h)
      · exact Or.inr h
    · rintro ((h | h) | h)
      · exact Or.inl h
      · exact Or.inr (Or.inl h)
      · exact Or.inr (Or.inr h)

theorem start_mem_statesOk (p : P α) (s : Store) : s ∈ statesOk p s := by
  cases p <;> simp [statesOk]

theorem end_mem_statesOk (p : P α) (s : Store) : (evalOk p s).1 ∈ statesOk p s := by
  induction p generalizing s with
  | ret a => simp [statesOk]
  | call r c ih => exact List.mem_cons_of_mem _ (ih _ _)

/-! ### request classes and sequential composition under an arbitrary plan -/

theorem issues_mono {Q Q' : Req → Prop} (h : ∀ r, Q r → Q' r) {p : P α} (hp : Issues Q p) : Issues Q' p := by
  induction hp with
  | ret a => exact .ret a
  | call r c hq _ ih => exact .call r c (h r hq) ih

theorem issues_bind {Q : Req → Prop} {p : P α} {f : α → P β} (hp : Issues Q p) (hf : ∀ a, Issues Q (f a)) :
    Issues Q (Prog.bind p f) := by
  induction hp with
  | ret a => exact hf a
  | call r c hq _ ih => exact .call r _ hq ih

theorem issues_forEach {Q : Req → Prop} {γ : Type} {body : γ → P Res} (h : ∀ a, Issues Q (body a)) (l : List γ) :
    Issues Q (forEach body l) := by
  induction l with
  | nil => exact .ret _
  | cons x xs ih =>
    unfold forEach
    refine issues_bind (h x) ?_
    intro r
    cases r with
    | ok => exact ih
    | err t => exact .ret _

/-! equations of `reach` / `run` at a call, one per outcome -/
section eqns
variable (plan : Plan) (k : Nat) (r : Req) (c : Resp → P α) (s : Store)

theorem reach_ok (h : plan k = .ok) :
    reach sem plan k (.call r c) s = s :: reach sem plan (k+1) (c (exec s r).2) (exec s r).1 := by
  simp [reach, h, sem]
theorem reach_fail (h : plan k = .fail) :
    reach sem plan k (.call r c) s = reach sem plan (k+1) (c (.err .other)) s := by
  simp [reach, h, sem]
theorem reach_conflict (h : plan k = .conflict) :
    reach sem plan k (.call r c) s = reach sem plan (k+1) (c (.err .other)) s := by
  simp [reach, h, sem]
theorem reach_crashBefore (h : plan k = .crashBefore) : reach sem plan k (.call r c) s = [s] := by
  simp [reach, h]
theorem reach_crashAfter (h : plan k = .crashAfter) : reach sem plan k (.call r c) s = [s, (exec s r).1] := by
  simp [reach, h, sem]

theorem run_ok (h : plan k = .ok) :
    run sem plan k (.call r c) s = run sem plan (k+1) (c (exec s r).2) (exec s r).1 := by
  simp [run, h, sem]
theorem run_fail (h : plan k = .fail) :
    run sem plan k (.call r c) s = run sem plan (k+1) (c (.err .other)) s := by
  simp [run, h, sem]
theorem run_conflict (h : plan k = .conflict) :
    run sem plan k (.call r c) s = run sem plan (k+1) (c (.err .other)) s := by
  simp [run, h, sem]
theorem run_crashBefore (h : plan k = .crashBefore) : run sem plan k (.call r c) s = (s, none) := by
  simp [run, h]
theorem run_crashAfter (h : plan k = .crashAfter) : run sem plan k (.call r c) s = ((exec s r).1, none) := by
  simp [run, h, sem]
end eqns

theorem bind_call (r : Req) (c : Resp → P α) (f : α → P β) :
    Prog.bind (.call r c) f = .call r (fun y => Prog.bind (c y) f) := rfl

/-- Everything reachable in `p >>= f` is reachable in `p`, or in `f a` started where `p` ended with result `a`. -/
theorem mem_reach_bind (plan : Plan) (p : P α) (f : α → P β) (k : Nat) (s x : Store)
    (h : x ∈ reach sem plan k (Prog.bind p f) s) :
    x ∈ reach sem plan k p s ∨
    ∃ a k', (run sem plan k p s).2 = some a ∧ x ∈ reach sem plan k' (f a) (run sem plan k p s).1 := by
  induction p generalizing k s with
  | ret a => exact Or.inr ⟨a, k, rfl, h⟩
  | call r c ih =>
    rw [bind_call] at h
    cases hk : plan k with
    | ok =>
      rw [reach_ok plan k r _ s hk] at h
      rw [reach_ok plan k r _ s hk, run_ok plan k r _ s hk]
      rcases List.mem_cons.mp h with h | h
      · exact Or.inl (List.mem_cons.mpr (Or.inl h))
      · rcases ih _ _ _ h with h | h
        · exact Or.inl (List.mem_cons.mpr (Or.inr h))
        · exact Or.inr h
    | fail =>
      rw [reach_fail plan k r _ s hk] at h
      rw [reach_fail plan k r _ s hk, run_fail plan k r _ s hk]
      exact ih _ _ _ h
    | conflict =>
      rw [reach_conflict plan k r _ s hk] at h
      rw [reach_conflict plan k r _ s hk, run_conflict plan k r _ s hk]
      exact ih _ _ _ h
    | crashBefore =>
      rw [reach_crashBefore plan k r _ s hk] at h
      rw [reach_crashBefore plan k r _ s hk]
      exact Or.inl h
    | crashAfter =>
      rw [reach_crashAfter plan k r _ s hk] at h
      rw [reach_crashAfter plan k r _ s hk]
      exact Or.inl h

/-- compositional invariant rule -/
theorem reach_bind_inv (Inv : Store → Prop) (plan : Plan) (p : P α) (f : α → P β) (k : Nat) (s : Store)
    (hp : ∀ x ∈ reach sem plan k p s, Inv x)
    (hf : ∀ a k', (run sem plan k p s).2 = some a → ∀ x ∈ reach sem plan k' (f a) (run sem plan k p s).1, Inv x) :
    ∀ x ∈ reach sem plan k (Prog.bind p f) s, Inv x := by
  intro x hx
  rcases mem_reach_bind plan p f k s x hx with h | ⟨a, k', ha, h⟩
  · exact hp x h
  · exact hf a k' ha x h

/-- the result of `p >>= f` -/
theorem run_bind (plan : Plan) (p : P α) (f : α → P β) (k : Nat) (s : Store) :
    (∃ a k', (run sem plan k p s).2 = some a ∧ run sem plan k (Prog.bind p f) s = run sem plan k' (f a) (run sem plan k p s).1) ∨
    ((run sem plan k p s).2 = none ∧ run sem plan k (Prog.bind p f) s = ((run sem plan k p s).1, none)) := by
  induction p generalizing k s with
  | ret a => exact Or.inl ⟨a, k, rfl, rfl⟩
  | call r c ih =>
    rw [bind_call]
    cases hk : plan k with
    | ok => rw [run_ok plan k r _ s hk, run_ok plan k r _ s hk]; exact ih _ _ _
    | fail => rw [run_fail plan k r _ s hk, run_fail plan k r _ s hk]; exact ih _ _ _
    | conflict => rw [run_conflict plan k r _ s hk, run_conflict plan k r _ s hk]; exact ih _ _ _
    | crashBefore => rw [run_crashBefore plan k r _ s hk, run_crashBefore plan k r _ s hk]; exact Or.inr ⟨rfl, rfl⟩
    | crashAfter => rw [run_crashAfter plan k r _ s hk, run_crashAfter plan k r _ s hk]; exact Or.inr ⟨rfl, rfl⟩

end Xp.C20

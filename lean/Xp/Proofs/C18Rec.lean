import Xp.Model.C18
/-
C18 helper lemmas, part 3: which writes the three RBAC reconcilers can apply, under every
fault plan.
-/
namespace Xp
section Generic
variable {S Req Resp α : Type}

/-- `AppliesOnly sem Q p s`: running `p` from store `s` — whatever the fault plan — only
ever applies requests satisfying `Q` (state-dependent: the replies are those the store
really gives, or the error replies of the plan). -/
def AppliesOnly (sem : Sem S Req Resp) (Q : Req → Prop) : Prog Req Resp α → S → Prop
  | .ret _, _ => True
  | .call r c, s =>
      Q r ∧ AppliesOnly sem Q (c (sem.exec s r).2) (sem.exec s r).1 ∧
      AppliesOnly sem Q (c (sem.errResp .fail r)) s ∧ AppliesOnly sem Q (c (sem.errResp .conflict r)) s

theorem applied_of_appliesOnly (sem : Sem S Req Resp) (Q : Req → Prop) (plan : Plan) (k : Nat)
    (p : Prog Req Resp α) (s : S) (h : AppliesOnly sem Q p s) :
    ∀ r ∈ applied sem plan k p s, Q r := by
  induction p generalizing k s with
  | ret a => intro r hr; simp [applied] at hr
  | call q c ih =>
    obtain ⟨hq, h1, h2, h3⟩ := h
    intro r hr
    unfold applied at hr
    split at hr
    · rcases List.mem_cons.mp hr with e | hr
      · exact e ▸ hq
      · exact ih _ _ _ h1 r hr
    · exact ih _ _ _ h2 r hr
    · exact ih _ _ _ h3 r hr
    · simp at hr
    · simp at hr; exact hr ▸ hq

/-- a program that can only ever issue `Q`-requests (whatever the replies) applies only those -/
theorem appliesOnly_of_issues (sem : Sem S Req Resp) (Q : Req → Prop) (p : Prog Req Resp α)
    (h : Issues Q p) (s : S) : AppliesOnly sem Q p s := by
  induction h generalizing s with
  | ret a => trivial
  | call r c hq _ ih => exact ⟨hq, ih _ _, ih _ _, ih _ _⟩

/-- if everything applied leaves the store alone, the store is the same at every instant -/
theorem reach_eq_of_applied_inert (sem : Sem S Req Resp) (plan : Plan) (k : Nat)
    (p : Prog Req Resp α) (s : S)
    (h : ∀ r ∈ applied sem plan k p s, ∀ t, (sem.exec t r).1 = t) :
    ∀ s' ∈ reach sem plan k p s, s' = s := by
  induction p generalizing k s with
  | ret a => intro s' hs; simpa [reach] using hs
  | call q c ih =>
    intro s' hs
    unfold applied at h
    unfold reach at hs
    split at hs <;> rename_i hpl <;> simp only [hpl] at h
    · have hq : (sem.exec s q).1 = s := h q (List.mem_cons_self ..) s
      rcases List.mem_cons.mp hs with e | hs
      · exact e
      · have := ih _ (k+1) (sem.exec s q).1 (fun r hr => h r (List.mem_cons_of_mem _ hr)) s' hs
        rw [this, hq]
    · exact ih _ _ _ h s' hs
    · exact ih _ _ _ h s' hs
    · simpa using hs
    · have hq : (sem.exec s q).1 = s := h q (by simp) s
      simp at hs
      rcases hs with e | e
      · exact e
      · rw [e, hq]

end Generic

namespace C18
open Xp.Gen

/-! ## reads -/

theorem exec_read (s : Store) (r : Req) (h : r.isWrite = false) : (exec s r).1 = s := by
  cases r <;> simp [Req.isWrite] at h <;> rfl

theorem errResp_read (o : Outcome) (r : Req) (h : r.isWrite = false) : errResp o r = .other := by
  cases o <;> simp [errResp, h]

/-- unfolding `AppliesOnly` at a read: the store does not move and every failure reply is `.other` -/
theorem appliesOnly_read (Q : Req → Prop) (r : Req) (c : Resp → P) (s : Store)
    (hr : r.isWrite = false) (hQ : Q r)
    (hok : AppliesOnly sem Q (c (exec s r).2) s) (herr : AppliesOnly sem Q (c .other) s) :
    AppliesOnly sem Q (.call r c) s := by
  refine ⟨hQ, ?_, ?_, ?_⟩
  · show AppliesOnly sem Q (c (exec s r).2) (exec s r).1
    rw [exec_read s r hr]; exact hok
  · show AppliesOnly sem Q (c (errResp .fail r)) s
    rw [errResp_read _ r hr]; exact herr
  · show AppliesOnly sem Q (c (errResp .conflict r)) s
    rw [errResp_read _ r hr]; exact herr

/-! ## the apply loop writes only the roles it was given -/

/-- requests that are reads, or writes of a role satisfying `W` -/
def RoleWrites (W : Role → Prop) : Req → Prop
  | .createRole x => W x
  | .updateRole x _ => W x
  | .createBinding _ => False
  | .updateBinding _ _ => False
  | _ => True

theorem applyRoles_issues (W : Role → Prop) (uid : String) (roles : List Role)
    (h : ∀ x ∈ roles, W x) : Issues (RoleWrites W) (applyRoles uid roles) := by
  induction roles with
  | nil => exact .ret _
  | cons cr rest ih =>
    have hrest := ih (fun x hx => h x (List.mem_cons_of_mem _ hx))
    have hcr : W cr := h cr (List.mem_cons_self ..)
    unfold applyRoles
    refine .call _ _ trivial ?_
    intro resp
    cases resp with
    | notFound =>
      refine .call _ _ hcr ?_
      intro r2
      cases r2 <;> first | exact hrest | exact .ret _
    | role cur rv =>
      simp only []
      split
      · exact .ret _
      · split
        · exact hrest
        · refine .call _ _ hcr ?_
          intro r2
          cases r2 <;> first | exact hrest | exact .ret _
    | _ => exact .ret _

/-! ## the provider-revision reconciler -/

/-- the resources Reconcile hands to the renderer, as a function of the store it reads -/
def resourcesFor (s : Store) (p : PR) : List Resource :=
  if p.family = "" then definedResources p.refs
  else definedResources p.refs ++ memberResources p (s.prs.filter (·.family = p.family))

/-- the verdict of the configured validator on the store: `none` = validation failed
(allow-list role cannot be read), `some l` = the rejected rules -/
def rejectedIn (cfg : Cfg) (s : Store) (p : PR) : Option (List Rule) :=
  match cfg.allowRole with
  | none => some (expand p.requests)
  | some a => (s.roles.find? (·.name = a)).map fun ar => validate ar.rules p.requests

/-- `x` is a role the reconciler may write for revision `name` on store `s`: the revision
is live, every request was granted, and `x` is one of its rendered roles -/
def Grantable (cfg : Cfg) (s : Store) (name : String) (x : Role) : Prop :=
  ∃ p, s.prs.find? (·.name = name) = some p ∧ p.paused = false ∧ p.deleted = false ∧
    rejectedIn cfg s p = some [] ∧ x ∈ renderRoles p (resourcesFor s p)

theorem reconcile_appliesOnly (cfg : Cfg) (name : String) (s : Store) :
    AppliesOnly sem (RoleWrites (Grantable cfg s name)) (reconcile cfg name) s := by
  unfold reconcile
  refine appliesOnly_read _ _ _ _ rfl trivial ?_ trivial
  simp only [exec]
  cases hf : s.prs.find? (·.name = name) with
  | none => trivial
  | some p =>
    simp only []
    by_cases hpa : p.paused = true
    · simp [hpa, AppliesOnly]
    by_cases hde : p.deleted = true
    · simp [hpa, hde, AppliesOnly]
    simp only [hpa, hde, if_false, Bool.false_eq_true]
    have hpa' : p.paused = false := by simpa using hpa
    have hde' : p.deleted = false := by simpa using hde
    -- after the family step
    have key : ∀ rs, rs = resourcesFor s p →
        AppliesOnly sem (RoleWrites (Grantable cfg s name))
          (withValidation cfg p fun rejected =>
            if (!rejected.isEmpty) = true then .ret .ok else applyRoles p.uid (renderRoles p rs)) s := by
      intro rs hrs
      have fin : ∀ rej, rejectedIn cfg s p = some rej →
          AppliesOnly sem (RoleWrites (Grantable cfg s name))
            (if (!rej.isEmpty) = true then .ret .ok else applyRoles p.uid (renderRoles p rs)) s := by
        intro rej hrej
        by_cases he : rej.isEmpty = true
        · simp only [he, Bool.not_true, Bool.false_eq_true, if_false]
          have hnil : rej = [] := by simpa using he
          apply appliesOnly_of_issues
          apply applyRoles_issues
          intro x hx
          exact ⟨p, hf, hpa', hde', hnil ▸ hrej, hrs ▸ hx⟩
        · simp [he, AppliesOnly]
      unfold withValidation
      cases ha : cfg.allowRole with
      | none =>
        simp only []
        exact fin _ (by simp [rejectedIn, ha])
      | some a =>
        simp only []
        refine appliesOnly_read _ _ _ _ rfl trivial ?_ trivial
        simp only [exec]
        cases hr : s.roles.find? (·.name = a) with
        | none => trivial
        | some ar =>
          simp only []
          exact fin _ (by simp [rejectedIn, ha, hr])
    unfold withFamily
    by_cases hfam : p.family = ""
    · simp only [hfam, if_true]
      exact key _ (by simp [resourcesFor, hfam])
    · simp only [hfam, if_false]
      refine appliesOnly_read _ _ _ _ rfl trivial ?_ trivial
      simp only [exec]
      exact key _ (by simp [resourcesFor, hfam])

/-! ## the XRD reconciler -/

def GrantableXRD (s : Store) (name : String) (x : Role) : Prop :=
  ∃ d, s.xrds.find? (·.name = name) = some d ∧ d.deleted = false ∧ x ∈ renderXRDRoles d

theorem reconcileXRD_appliesOnly (name : String) (s : Store) :
    AppliesOnly sem (RoleWrites (GrantableXRD s name)) (reconcileXRD name) s := by
  unfold reconcileXRD
  refine appliesOnly_read _ _ _ _ rfl trivial ?_ trivial
  simp only [exec]
  cases hf : s.xrds.find? (·.name = name) with
  | none => trivial
  | some d =>
    simp only []
    by_cases hde : d.deleted = true
    · simp [hde, AppliesOnly]
    · simp only [hde, if_false, Bool.false_eq_true]
      apply appliesOnly_of_issues
      apply applyRoles_issues
      intro x hx
      exact ⟨d, hf, by simpa using hde, hx⟩

/-! ## the binding reconciler -/

def BindingWrites (W : Binding → Prop) : Req → Prop
  | .createBinding b => W b
  | .updateBinding b _ => W b
  | .createRole _ => False
  | .updateRole _ _ => False
  | _ => True

/-- the one binding the reconciler may write for revision `name` on store `s` -/
def GrantableBinding (s : Store) (name : String) (b : Binding) : Prop :=
  ∃ p, s.prs.find? (·.name = name) = some p ∧ p.paused = false ∧ p.deleted = false ∧
    b = ⟨systemRoleName p.name, systemRoleName p.name, subjectsFor p.uid s.deploys, some p.uid⟩

theorem reconcileBinding_appliesOnly (name : String) (s : Store) :
    AppliesOnly sem (BindingWrites (GrantableBinding s name)) (reconcileBinding name) s := by
  unfold reconcileBinding
  refine appliesOnly_read _ _ _ _ rfl trivial ?_ trivial
  simp only [exec]
  cases hf : s.prs.find? (·.name = name) with
  | none => trivial
  | some p =>
    simp only []
    by_cases hpa : p.paused = true
    · simp [hpa, AppliesOnly]
    by_cases hde : p.deleted = true
    · simp [hpa, hde, AppliesOnly]
    simp only [hpa, hde, if_false, Bool.false_eq_true]
    refine appliesOnly_read _ _ _ _ rfl trivial ?_ trivial
    simp only [exec]
    have hW : GrantableBinding s name
        ⟨systemRoleName p.name, systemRoleName p.name, subjectsFor p.uid s.deploys, some p.uid⟩ :=
      ⟨p, hf, by simpa using hpa, by simpa using hde, rfl⟩
    apply appliesOnly_of_issues
    refine .call _ _ trivial ?_
    intro resp
    cases resp with
    | notFound =>
      refine .call _ _ hW ?_
      intro r2
      cases r2 <;> exact .ret _
    | binding cur rv =>
      simp only []
      split
      · exact .ret _
      · split
        · exact .ret _
        · refine .call _ _ hW ?_
          intro r2
          cases r2 <;> exact .ret _
    | _ => exact .ret _

/-! ## rendered rules -/

theorem mem_insertBy {α : Type} (lt : α → α → Bool) (x y : α) (l : List α) :
    y ∈ insertBy lt x l ↔ y = x ∨ y ∈ l := by
  induction l with
  | nil => simp [insertBy]
  | cons z zs ih =>
    unfold insertBy
    split
    · simp only [List.mem_cons, ih]
      constructor
      · rintro (h | h | h)
        · exact Or.inr (Or.inl h)
        · exact Or.inl h
        · exact Or.inr (Or.inr h)
      · rintro (h | h | h)
        · exact Or.inr (Or.inl h)
        · exact Or.inl h
        · exact Or.inr (Or.inr h)
    · simp [List.mem_cons]

theorem mem_isort {α : Type} (lt : α → α → Bool) (y : α) (l : List α) : y ∈ isort lt l ↔ y ∈ l := by
  induction l with
  | nil => simp [isort]
  | cons x xs ih => simp [isort, mem_insertBy, ih]

theorem mem_groupsOf (rs : List Resource) (g : String) (h : g ∈ groupsOf rs) : ∃ x ∈ rs, x.group = g := by
  induction rs with
  | nil => simp [groupsOf] at h
  | cons r rest ih =>
    simp only [groupsOf, List.mem_cons, List.mem_filter] at h
    rcases h with e | ⟨h, _⟩
    · exact ⟨r, List.mem_cons_self .., e.symm⟩
    · obtain ⟨x, hx, hg⟩ := ih h
      exact ⟨x, List.mem_cons_of_mem _ hx, hg⟩

theorem mem_resourcesOfGroup (rs : List Resource) (g r : String) (h : r ∈ resourcesOfGroup rs g) :
    ∃ x ∈ rs, x.group = g ∧ (r = x.plural ∨ r = x.plural ++ prov_suffixStatus) := by
  simp only [resourcesOfGroup, List.mem_flatMap, List.mem_filter, List.mem_cons, List.not_mem_nil,
    or_false, decide_eq_true_eq] at h
  obtain ⟨x, ⟨hx, hg⟩, hr⟩ := h
  exact ⟨x, hx, hg, hr⟩

/-- a rule that grants (some verbs on) CRD-defined resources of one group, and their status -/
def IsResourceRule (rs : List Resource) (verbs : List String) (ρ : PolicyRule) : Prop :=
  ρ.verbs = verbs ∧ ρ.resourceNames = [] ∧ ρ.nonResourceURLs = [] ∧
  ∃ g, ρ.apiGroups = [g] ∧
    ∀ r ∈ ρ.resources, ∃ x ∈ rs, x.group = g ∧ (r = x.plural ∨ r = x.plural ++ prov_suffixStatus)

/-- the `*/finalizers` rule, limited to groups in which a resource is defined -/
def IsFinalizersRule (rs : List Resource) (ρ : PolicyRule) : Prop :=
  ρ.verbs = provVerbsUpdate ∧ ρ.resources = [prov_resourceAll ++ prov_suffixFinalizers] ∧
  ρ.resourceNames = [] ∧ ρ.nonResourceURLs = [] ∧ ∀ g ∈ ρ.apiGroups, ∃ x ∈ rs, x.group = g

theorem groupRules_withVerbs (rs : List Resource) (verbs : List String) (ρ : PolicyRule)
    (h : ρ ∈ withVerbs (groupRules rs) verbs) : IsResourceRule rs verbs ρ := by
  simp only [withVerbs, groupRules, List.map_map, List.mem_map, Function.comp] at h
  obtain ⟨g, _, rfl⟩ := h
  exact ⟨rfl, rfl, rfl, g, rfl, fun r hr => mem_resourcesOfGroup rs g r hr⟩

theorem isResourceRule_mono (rs rs' : List Resource) (verbs : List String) (ρ : PolicyRule)
    (hsub : ∀ x ∈ rs, x ∈ rs') (h : IsResourceRule rs verbs ρ) : IsResourceRule rs' verbs ρ := by
  obtain ⟨h1, h2, h3, g, h4, h5⟩ := h
  exact ⟨h1, h2, h3, g, h4, fun r hr => by
    obtain ⟨x, hx, hh⟩ := h5 r hr
    exact ⟨x, hsub x hx, hh⟩⟩

/-- every rule of every rendered role, by origin -/
theorem renderRoles_rules (p : PR) (rs : List Resource) (x : Role) (hx : x ∈ renderRoles p rs)
    (ρ : PolicyRule) (hρ : ρ ∈ x.rules) :
    IsResourceRule rs provVerbsEdit ρ ∨ IsResourceRule rs provVerbsView ρ ∨
    IsResourceRule rs provVerbsSystem ρ ∨ IsFinalizersRule rs ρ ∨ ρ ∈ rulesSystemExtra ∨ ρ ∈ p.requests := by
  unfold renderRoles at hx
  split at hx
  · simp at hx
  · have hsub : ∀ y ∈ isort resourceLT rs, y ∈ rs := fun y hy => (mem_isort _ y rs).1 hy
    simp only [List.mem_cons, List.not_mem_nil, or_false] at hx
    rcases hx with rfl | rfl | rfl
    · exact Or.inl (isResourceRule_mono _ _ _ _ hsub (groupRules_withVerbs _ _ _ hρ))
    · exact Or.inr (Or.inl (isResourceRule_mono _ _ _ _ hsub (groupRules_withVerbs _ _ _ hρ)))
    · simp only [systemRules, List.mem_append, List.mem_singleton] at hρ
      rcases hρ with ((h | h) | h) | h
      · exact Or.inr (Or.inr (Or.inl (isResourceRule_mono _ _ _ _ hsub (groupRules_withVerbs _ _ _ h))))
      · subst h
        refine Or.inr (Or.inr (Or.inr (Or.inl ⟨rfl, rfl, rfl, rfl, ?_⟩)))
        intro g hg
        obtain ⟨y, hy, hyg⟩ := mem_groupsOf _ g hg
        exact ⟨y, hsub y hy, hyg⟩
      · exact Or.inr (Or.inr (Or.inr (Or.inr (Or.inl h))))
      · exact Or.inr (Or.inr (Or.inr (Or.inr (Or.inr h))))

/-- where the resources handed to the renderer come from -/
theorem resourcesFor_origin (s : Store) (p : PR) (x : Resource) (hx : x ∈ resourcesFor s p) :
    x ∈ definedResources p.refs ∨
    (p.family ≠ "" ∧ ∃ m ∈ s.prs, m.family = p.family ∧ m.uid ≠ p.uid ∧
      (∃ o, p.org = some o ∧ m.org = some o) ∧ x ∈ definedResources m.refs) := by
  unfold resourcesFor at hx
  split at hx
  · exact Or.inl hx
  · rename_i hfam
    rcases List.mem_append.mp hx with h | h
    · exact Or.inl h
    · right
      refine ⟨hfam, ?_⟩
      simp only [memberResources, List.mem_flatMap, List.mem_filter, decide_eq_true_eq] at h
      obtain ⟨m, ⟨hm, hmf⟩, hxm⟩ := h
      by_cases hu : m.uid = p.uid
      · simp [hu] at hxm
      · simp only [hu, if_false] at hxm
        by_cases ho : orgDiffers p.org m.org = true
        · simp [ho] at hxm
        · simp only [ho, if_false, Bool.false_eq_true] at hxm
          refine ⟨m, hm, hmf, hu, ?_, hxm⟩
          unfold orgDiffers at ho
          cases hpo : p.org with
          | none => simp [hpo] at ho
          | some a =>
            cases hmo : m.org with
            | none => simp [hpo, hmo] at ho
            | some b =>
              simp only [hpo, hmo, bne_iff_ne, ne_eq, Decidable.not_not] at ho
              exact ⟨a, rfl, by rw [ho]⟩

/-! ## definitions used in the statements of Props/C18 -/

/-- a rule over the XRD's group that names the composite plural or the claim plural `n`:
either `[n, n/status]` with one of the verb tables, or `[n/finalizers]` with update -/
def IsXRDRule (d : XRD) (ρ : PolicyRule) : Prop :=
  ρ.apiGroups = [d.group] ∧ ρ.resourceNames = [] ∧ ρ.nonResourceURLs = [] ∧
  ∃ n, (n = d.plural ∨ d.claim = some n) ∧
    ((ρ.resources = [n, n ++ xrd_suffixStatus] ∧
        (ρ.verbs = xrdVerbsEdit ∨ ρ.verbs = xrdVerbsView ∨ ρ.verbs = xrdVerbsBrowse)) ∨
     (ρ.resources = [n ++ xrd_suffixFinalizers] ∧ ρ.verbs = xrdVerbsUpdate))

/-- a history of reconciles of the same revision, each under its own fault plan, with the
controller-local state lost in between (crash / requeue / restart) -/
def runPlans (cfg : Cfg) (name : String) : List Plan → Store → Store
  | [], s => s
  | pl :: rest, s => runPlans cfg name rest (run sem pl 0 (reconcile cfg name) s).1

/-! example data for the non-vacuity examples -/

def exPR (reqs : List PolicyRule) : PR :=
  { name := "p", uid := "u", paused := false, deleted := false, family := "", org := some ("r", "o"),
    refs := [⟨"apiextensions.k8s.io/v1", "CustomResourceDefinition", "widgets.example.org"⟩], requests := reqs }

def exStore (reqs : List PolicyRule) : Store :=
  { prs := [exPR reqs], xrds := [], deploys := [],
    roles := [⟨"allow", [], [⟨["get"], ["g"], ["r"], [], []⟩], none⟩], bindings := [] }

end C18
end Xp

import Xp.Proofs.C12
/-
C12, interference: what the revision controller and the XR-side fetch guarantee when
OTHER clients act on the store between any two of their API calls (`Xp.Env`: a user
editing the Composition or the XR, a backup/restore tool stripping owner references,
another controller, another replica of the same controller), when any call can be
answered with any error class (`Fault.reply`), and when every read can be served by a
lagging informer cache (`semV`, a different `View` at every call).

Part A (`issuesG_reach`, `reconcile_issues`, `fetch_issues`): under ALL of that, every
write these programs ever issue keeps the revision history faithful and monotonic —
no revision deleted or edited, numbers only grow, names unique, every revision the
faithful image of a content. What is NOT kept under a lagging revision list is the
distinctness of numbers (`WF.nums`) and with it "the current content has the highest
number": recorded finding D22, refuted on a witness in `Props/C12.lean`.
-/
namespace Xp.C12

variable {H : Naming} {D : Content → Prop}

/-- what holds of the store under any interference and any cache lag: `WF` without the
distinctness of revision numbers -/
structure WF0 (H : Naming) (D : Content → Prop) (s : Store) : Prop where
  comps : ∀ c ∈ s.comps, D c.content
  names : s.revs.Pairwise (fun a b => a.name ≠ b.name)
  faithful : ∀ r ∈ s.revs, Faithful H D r
  pos : ∀ r ∈ s.revs, 1 ≤ r.num

theorem WF.toWF0 {s : Store} (w : WF H D s) : WF0 H D s := ⟨w.comps, w.names, w.faithful, w.pos⟩

/-- two revisions of one composition with the same hash label are the same object -/
theorem WF0.name_of_hash (hi : H.Inj D) {s : Store} (w : WF0 H D s) {a b : Rev}
    (ha : a ∈ s.revs) (hb : b ∈ s.revs) (hc : a.comp = b.comp) (hh : a.hash = b.hash) : a.name = b.name := by
  obtain ⟨c, d1, n1, h1, _, _⟩ := w.faithful a ha
  obtain ⟨c', d2, n2, h2, _, _⟩ := w.faithful b hb
  have : c = c' := hi.hash _ _ d1 d2 (h1 ▸ h2 ▸ hh)
  rw [n1, n2, hc, this]

/-- the writes the two programs may issue: an `Update` that keeps everything but the
number (which does not decrease), the owner and the resourceVersion; a `Create` of a
faithful revision with a positive number; writes of XRs -/
def GoodReq (H : Naming) (D : Content → Prop) : Req → Prop
  | .updateRev b r => Same b r
  | .createRev r => Faithful H D r ∧ 1 ≤ r.num
  | _ => True

theorem exec_read {s : Store} {r : Req} (h : r.isWrite = false) : (exec s r).1 = s := by
  cases r <;> simp [Req.isWrite] at h <;> simp [exec]

theorem update_ok0 {s : Store} (w : WF0 H D s) {r0 r1 : Rev} (h0 : r0 ∈ s.revs) (hs : Same r0 r1) :
    WF0 H D { s with revs := replaceRev r1 s.revs } ∧ Le s { s with revs := replaceRev r1 s.revs } := by
  obtain ⟨e1, e2, e3, e4, e5, e6⟩ := hs
  have hf1 : Faithful H D r1 := by
    obtain ⟨c, dc, a, b, d, e⟩ := w.faithful r0 h0
    exact ⟨c, dc, by rw [e1, e2]; exact a, by rw [e3]; exact b, by rw [e4]; exact d, by rw [e5]; exact e⟩
  refine ⟨⟨w.comps, ?_, ?_, ?_⟩, ?_⟩
  · exact pairwise_names_of_map (replaceRev_names r1 s.revs) w.names
  · intro x hx
    rcases mem_replaceRev hx with ⟨e, _⟩ | ⟨hx', _⟩
    · exact e ▸ hf1
    · exact w.faithful x hx'
  · intro x hx
    rcases mem_replaceRev hx with ⟨e, _⟩ | ⟨hx', _⟩
    · rw [e]; exact Nat.le_trans (w.pos r0 h0) e6
    · exact w.pos x hx'
  · intro x hx
    by_cases hn : x.name = r1.name
    · have : x = r0 := eq_of_name_eq w.names hx h0 (hn.trans e1)
      exact ⟨r1, mem_replaceRev_self h0 e1.symm, this ▸ ⟨e1, e2, e3, e4, e5, e6⟩⟩
    · exact ⟨x, mem_replaceRev_of_ne hx hn, Same.refl x⟩

/-- every admissible write keeps `WF0` and is a step of `Le`, from ANY store — in
particular from a store other clients have changed since the controller read it:
an `Update` is applied only if the stored revision still is the one that was read -/
theorem goodReq_step {s : Store} (w : WF0 H D s) {r : Req} (h : GoodReq H D r) :
    WF0 H D (exec s r).1 ∧ Le s (exec s r).1 := by
  cases r with
  | updateRev b r1 =>
    simp only [exec]
    cases hf : s.revs.find? (fun x => decide (x.name = r1.name)) with
    | none => exact ⟨w, Le.refl s⟩
    | some x =>
      simp only []
      by_cases hx : x = b
      · subst hx
        simp only [if_true]
        have hxm : x ∈ s.revs := List.mem_of_find?_eq_some hf
        have hs : Same x { r1 with rv := x.rv + 1 } := h
        exact update_ok0 w hxm hs
      · simp only [hx, if_false]; exact ⟨w, Le.refl s⟩
  | createRev r1 =>
    simp only [exec]
    by_cases hany : s.revs.any (fun x => decide (x.name = r1.name)) = true
    · simp only [hany, if_true]; exact ⟨w, Le.refl s⟩
    · simp only [hany]
      have hname : ∀ x ∈ s.revs, x.name ≠ r1.name := by
        intro x hx e
        exact hany (List.any_eq_true.mpr ⟨x, hx, by simpa using e⟩)
      refine ⟨⟨w.comps, pairwise_insertRev w.names hname, ?_, ?_⟩, ?_⟩
      · intro x hx
        rcases mem_insertRev.mp hx with e | hx'
        · exact e ▸ h.1
        · exact w.faithful x hx'
      · intro x hx
        rcases mem_insertRev.mp hx with e | hx'
        · exact e ▸ h.2
        · exact w.pos x hx'
      · intro x hx; exact ⟨x, mem_insertRev.mpr (Or.inr hx), Same.refl x⟩
  | patchXR b ref =>
    have h1 : (exec s (.patchXR b ref)).1.revs = s.revs := by
      simp only [exec]; split
      · rfl
      · split <;> rfl
    have h2 : (exec s (.patchXR b ref)).1.comps = s.comps := exec_comps s _
    exact ⟨⟨h2 ▸ w.comps, h1 ▸ w.names, h1 ▸ w.faithful, h1 ▸ w.pos⟩, Le.of_revs_eq h1⟩
  | createXR x =>
    have h1 : (exec s (.createXR x)).1.revs = s.revs := by
      simp only [exec]; split <;> rfl
    have h2 : (exec s (.createXR x)).1.comps = s.comps := exec_comps s _
    exact ⟨⟨h2 ▸ w.comps, h1 ▸ w.names, h1 ▸ w.faithful, h1 ▸ w.pos⟩, Le.of_revs_eq h1⟩
  | getComp n => rw [exec_read rfl]; exact ⟨w, Le.refl s⟩
  | listRevs a b => rw [exec_read rfl]; exact ⟨w, Le.refl s⟩
  | getRev n => rw [exec_read rfl]; exact ⟨w, Le.refl s⟩
  | getXR n => rw [exec_read rfl]; exact ⟨w, Le.refl s⟩

/-! ### replies -/

/-- the informer cache only ever holds Compositions whose content lies in the domain -/
def ViewOK (D : Content → Prop) (v : View) : Prop := ∀ l, v.comps = some l → ∀ c ∈ l, D c.content

/-- the replies a call can get: any error class, or a result of the right shape (an
`Update` returns what was sent with a new resourceVersion; a Composition that is read
has a content of the domain) -/
def Rp (D : Content → Prop) (r : Req) (x : Resp) : Prop :=
  x.isErr = true ∨
  match r, x with
  | .getComp _, .comp c => D c.content
  | .listRevs _ _, .revs _ => True
  | .updateRev _ r1, .rev r' => ∃ n, r' = { r1 with rv := n }
  | .createRev _, .ok => True
  | .getRev _, .rev _ => True
  | .getXR _, .xr _ => True
  | .patchXR _ _, .ok => True
  | .createXR _, .ok => True
  | _, _ => False

theorem errResp_isErr (o : Outcome) (r : Req) : (sem.errResp o r).isErr = true := by
  cases o <;> simp only [sem] <;> (try rfl)
  split <;> rfl

theorem semV_exec_store (v : View) (s : Store) (r : Req) : ((semV v).exec s r).1 = (exec s r).1 := by
  simp only [semV]
  split
  · rfl
  · rename_i h
    exact (exec_read (by simpa using h)).symm

theorem view_comps_ok {s : Store} (w : WF0 H D s) {v : View} (hv : ViewOK D v) : ∀ c ∈ (v.apply s).comps, D c.content := by
  intro c hc
  simp only [View.apply] at hc
  cases hvc : v.comps with
  | none => rw [hvc] at hc; exact w.comps c hc
  | some l => rw [hvc] at hc; exact hv l hvc c hc

theorem exec_reply {s : Store} (w : WF0 H D s) {v : View} (hv : ViewOK D v) (r : Req) :
    Rp D r ((semV v).exec s r).2 := by
  cases r with
  | getComp n =>
    simp only [semV, Req.isWrite, Bool.false_eq_true, if_false, exec]
    cases hf : (v.apply s).comps.find? (fun c => decide (c.name = n)) with
    | none => exact Or.inl rfl
    | some c => exact Or.inr (view_comps_ok w hv c (List.mem_of_find?_eq_some hf))
  | listRevs a b => simp only [semV, Req.isWrite, Bool.false_eq_true, if_false, exec]; exact Or.inr trivial
  | getRev n =>
    simp only [semV, Req.isWrite, Bool.false_eq_true, if_false, exec]
    cases (v.apply s).revs.find? (fun r => decide (r.name = n)) with
    | none => exact Or.inl rfl
    | some r => exact Or.inr trivial
  | getXR n =>
    simp only [semV, Req.isWrite, Bool.false_eq_true, if_false, exec]
    cases (v.apply s).xrs.find? (fun r => decide (r.name = n)) with
    | none => exact Or.inl rfl
    | some r => exact Or.inr trivial
  | updateRev b r1 =>
    simp only [semV, Req.isWrite, if_true, exec]
    cases s.revs.find? (fun x => decide (x.name = r1.name)) with
    | none => exact Or.inl rfl
    | some x =>
      simp only []
      by_cases hx : x = b
      · simp only [hx, if_true]; exact Or.inr ⟨_, rfl⟩
      · simp only [hx, if_false]; exact Or.inl rfl
  | createRev r1 =>
    simp only [semV, Req.isWrite, if_true, exec]
    split
    · exact Or.inl rfl
    · exact Or.inr trivial
  | patchXR b ref =>
    simp only [semV, Req.isWrite, if_true, exec]
    cases s.xrs.find? (fun x => decide (x.name = b.name)) with
    | none => exact Or.inl rfl
    | some x =>
      simp only []
      by_cases hx : x = b
      · simp only [hx, if_true]; exact Or.inr trivial
      · simp only [hx, if_false]; exact Or.inl rfl
  | createXR x =>
    simp only [semV, Req.isWrite, if_true, exec]
    split
    · exact Or.inl rfl
    · exact Or.inr trivial

/-! ### programs whose every request is admissible along every possible reply -/

inductive IssuesG {α : Type} (Q : Req → Prop) (R : Req → Resp → Prop) : P α → Prop where
  | ret (a : α) : IssuesG Q R (.ret a)
  | call (r : Req) (c : Resp → P α) : Q r → (∀ x, R r x → IssuesG Q R (c x)) → IssuesG Q R (.call r c)

section Sound
variable {α : Type}
variable (v : Nat → View) (env : Env Store) (plan : FPlan)

/-- Soundness: under interference `env` that keeps `WF0` and `Le`, any error-class plan,
any crash and any (admissible) cache view at every call, a program that only issues
admissible requests keeps `WF0` at every instant, every later instant is `Le`-above every
earlier one, and every own applied call is admissible. -/
theorem issuesG_reach (hv : ∀ k, ViewOK D (v k))
    (henv : ∀ k s, WF0 H D s → WF0 H D (env k s) ∧ Le s (env k s)) (hplan : plan.errOnly) :
    ∀ (p : P α), IssuesG (GoodReq H D) (Rp D) p → ∀ (k : Nat) (s : Store), WF0 H D s →
      (∀ s' ∈ reachX (fun k => semV (v k)) env plan k p s, WF0 H D s' ∧ Le s s') ∧
      (reachX (fun k => semV (v k)) env plan k p s).Pairwise Le ∧
      (∀ x ∈ ownX (fun k => semV (v k)) env plan k p s, WF0 H D x.1 ∧ GoodReq H D x.2) := by
  intro p hp
  induction hp with
  | ret a =>
    intro k s w
    refine ⟨?_, ?_, ?_⟩
    · intro s' hs'; simp only [reachX, List.mem_singleton] at hs'; subst hs'; exact ⟨w, Le.refl _⟩
    · simp [reachX]
    · intro x hx; simp [ownX] at hx
  | call r c hq _ ih =>
    intro k s w
    obtain ⟨we, le⟩ := henv k s w
    have hst := goodReq_step we hq
    have hs1 : ((semV (v k)).exec (env k s) r).1 = (exec (env k s) r).1 := semV_exec_store _ _ _
    -- the continuation after an error reply, from the store the environment left
    have errc : ∀ e : Resp, e.isErr = true →
        (∀ s' ∈ s :: reachX (fun k => semV (v k)) env plan (k+1) (c e) (env k s), WF0 H D s' ∧ Le s s') ∧
        (s :: reachX (fun k => semV (v k)) env plan (k+1) (c e) (env k s)).Pairwise Le ∧
        (∀ x ∈ ownX (fun k => semV (v k)) env plan (k+1) (c e) (env k s), WF0 H D x.1 ∧ GoodReq H D x.2) := by
      intro e he
      obtain ⟨i1, i2, i3⟩ := ih e (Or.inl he) (k+1) (env k s) we
      refine ⟨?_, ?_, i3⟩
      · intro s' hs'
        rcases List.mem_cons.mp hs' with h | h
        · subst h; exact ⟨w, Le.refl _⟩
        · exact ⟨(i1 s' h).1, Le.trans _ _ _ le (i1 s' h).2⟩
      · refine List.pairwise_cons.mpr ⟨?_, i2⟩
        intro s' hs'; exact Le.trans _ _ _ le (i1 s' hs').2
    unfold reachX ownX
    cases hk : plan k with
    | reply e => simp only []; exact errc e (hplan k e hk)
    | out o =>
      cases o with
      | fail => simp only []; exact errc _ (errResp_isErr .fail r)
      | conflict => simp only []; exact errc _ (errResp_isErr .conflict r)
      | crashBefore =>
        simp only []
        refine ⟨?_, ?_, ?_⟩
        · intro s' hs'
          simp only [List.mem_cons, List.mem_nil_iff, or_false] at hs'
          rcases hs' with h | h
          · subst h; exact ⟨w, Le.refl _⟩
          · subst h; exact ⟨we, le⟩
        · exact List.pairwise_pair.mpr le
        · intro x hx; simp at hx
      | crashAfter =>
        simp only []
        rw [hs1]
        refine ⟨?_, ?_, ?_⟩
        · intro s' hs'
          simp only [List.mem_cons, List.mem_nil_iff, or_false] at hs'
          rcases hs' with h | h | h
          · subst h; exact ⟨w, Le.refl _⟩
          · subst h; exact ⟨we, le⟩
          · subst h; exact ⟨hst.1, Le.trans _ _ _ le hst.2⟩
        · refine List.pairwise_cons.mpr ⟨?_, List.pairwise_pair.mpr hst.2⟩
          intro s' hs'
          simp only [List.mem_cons, List.mem_nil_iff, or_false] at hs'
          rcases hs' with h | h
          · subst h; exact le
          · subst h; exact Le.trans _ _ _ le hst.2
        · intro x hx
          simp only [List.mem_singleton] at hx
          subst hx; exact ⟨we, hq⟩
      | ok =>
        simp only []
        rw [hs1]
        obtain ⟨i1, i2, i3⟩ := ih _ (exec_reply we (hv k) r) (k+1) (exec (env k s) r).1 hst.1
        refine ⟨?_, ?_, ?_⟩
        · intro s' hs'
          rcases List.mem_cons.mp hs' with h | h
          · subst h; exact ⟨w, Le.refl _⟩
          · rcases List.mem_cons.mp h with h | h
            · subst h; exact ⟨we, le⟩
            · exact ⟨(i1 s' h).1, Le.trans _ _ _ le (Le.trans _ _ _ hst.2 (i1 s' h).2)⟩
        · refine List.pairwise_cons.mpr ⟨?_, List.pairwise_cons.mpr ⟨?_, i2⟩⟩
          · intro s' hs'
            rcases List.mem_cons.mp hs' with h | h
            · subst h; exact le
            · exact Le.trans _ _ _ le (Le.trans _ _ _ hst.2 (i1 s' h).2)
          · intro s' hs'; exact Le.trans _ _ _ hst.2 (i1 s' hs').2
        · intro x hx
          rcases List.mem_cons.mp hx with h | h
          · subst h; exact ⟨we, hq⟩
          · exact i3 x h

end Sound

/-! ### the two programs only issue admissible requests -/

theorem issues_err {α : Type} (a : α) : IssuesG (GoodReq H D) (Rp D) (.ret a : P α) := .ret a

/-- adoption loop: the continuation gets a list all of whose members carry the owner -/
theorem adopt_issues (uid : Nat) : ∀ (l : List Rev) (k : List Rev → P Res),
    (∀ l', (∀ x ∈ l', x.ctrl = some uid) → (∀ x ∈ l', ∃ y ∈ l, x.num = y.num) → IssuesG (GoodReq H D) (Rp D) (k l')) →
    IssuesG (GoodReq H D) (Rp D) (adoptLoop uid l k) := by
  intro l
  induction l with
  | nil => intro k hk; simp only [adoptLoop]; exact hk [] (fun _ h => by cases h) (fun _ h => by cases h)
  | cons r rs ih =>
    intro k hk
    simp only [adoptLoop]
    split
    · rename_i hc
      apply ih
      intro l' h1 h2
      apply hk
      · intro x hx
        rcases List.mem_cons.mp hx with e | hx'
        · rw [e]; exact hc
        · exact h1 x hx'
      · intro x hx
        rcases List.mem_cons.mp hx with e | hx'
        · exact ⟨r, List.mem_cons_self .., by rw [e]⟩
        · obtain ⟨y, hy, e⟩ := h2 x hx'; exact ⟨y, List.mem_cons_of_mem _ hy, e⟩
    · split
      · exact issues_err _
      · refine .call _ _ ⟨rfl, rfl, rfl, rfl, rfl, Nat.le_refl _⟩ ?_
        intro x hx
        rcases hx with he | hx
        · cases x <;> first | exact issues_err _ | (simp [Resp.isErr] at he)
        · cases x <;> first | exact issues_err _ | skip
          rename_i r'
          obtain ⟨n, e⟩ := hx
          simp only []
          apply ih
          intro l' h1 h2
          apply hk
          · intro y hy
            rcases List.mem_cons.mp hy with e' | hy'
            · rw [e', e]
            · exact h1 y hy'
          · intro y hy
            rcases List.mem_cons.mp hy with e' | hy'
            · exact ⟨r, List.mem_cons_self .., by rw [e', e]⟩
            · obtain ⟨z, hz, ez⟩ := h2 y hy'; exact ⟨z, List.mem_cons_of_mem _ hz, ez⟩

/-- renumbering loop: it only ever raises a number -/
theorem renum_issues (h : String) (latest : Nat) : ∀ (rem : List Rev) (ex : Nat) (k : Nat → P Res),
    (∀ r ∈ rem, r.num ≤ latest) → (∀ ex', IssuesG (GoodReq H D) (Rp D) (k ex')) →
    IssuesG (GoodReq H D) (Rp D) (renumLoop h latest rem ex k) := by
  intro rem
  induction rem with
  | nil => intro ex k _ hk; simp only [renumLoop]; exact hk ex
  | cons r rs ih =>
    intro ex k hle hk
    have hrs : ∀ x ∈ rs, x.num ≤ latest := fun x hx => hle x (List.mem_cons_of_mem _ hx)
    simp only [renumLoop]
    split
    · exact ih ex k hrs hk
    · split
      · exact ih r.num k hrs hk
      · refine .call _ _ ⟨rfl, rfl, rfl, rfl, rfl, Nat.le_succ_of_le (hle r (List.mem_cons_self ..))⟩ ?_
        intro x hx
        cases x <;> first | exact issues_err _ | exact ih r.num k hrs hk

/-- **`Reconcile` only issues admissible writes**, whatever it is told by the API -/
theorem reconcile_issues (name : String) : IssuesG (GoodReq H D) (Rp D) (reconcile H name) := by
  unfold reconcile
  refine .call _ _ trivial ?_
  intro x hx
  cases x <;> first | exact issues_err _ | skip
  rename_i c
  have hD : D c.content := by
    rcases hx with he | hx
    · simp [Resp.isErr] at he
    · exact hx
  simp only []
  split
  · exact issues_err _
  · refine .call _ _ trivial ?_
    intro y _
    cases y <;> first | exact issues_err _ | skip
    rename_i l
    simp only []
    apply adopt_issues
    intro l' hctrl _
    apply renum_issues
    · intro r hr; exact latestNum_ge c.uid l' r hr (hctrl r hr)
    · intro ex
      split
      · exact issues_err _
      · refine .call _ _ ⟨⟨c.content, hD, rfl, rfl, rfl, rfl⟩, Nat.succ_le_succ (Nat.zero_le _)⟩ ?_
        intro z _
        cases z <;> exact issues_err _

/-- **`Fetch` never writes a revision** (its only writes are the XR's) -/
theorem fetch_issues (n : String) : IssuesG (GoodReq H D) (Rp D) (fetch n) := by
  unfold fetch
  refine .call _ _ trivial ?_
  intro x _
  cases x <;> first | exact issues_err _ | skip
  rename_i xr
  simp only []
  split
  · refine .call _ _ trivial ?_
    intro y _
    cases y <;> exact issues_err _
  · refine .call _ _ trivial ?_
    intro y _
    cases y <;> first | exact issues_err _ | skip
    rename_i c
    simp only []
    refine .call _ _ trivial ?_
    intro z _
    cases z <;> first | exact issues_err _ | skip
    rename_i l
    simp only []
    split
    · exact issues_err _
    · split
      · exact issues_err _
      · refine .call _ _ trivial ?_
        intro u _
        cases u <;> first | exact issues_err _ | skip
        · refine .call _ _ trivial ?_
          intro t _
          cases t <;> exact issues_err _
        · refine .call _ _ trivial ?_
          intro t _
          cases t <;> exact issues_err _

/-! ### the original setting is the special case -/

theorem view_fresh_apply (s : Store) : View.fresh.apply s = s := by
  cases s; rfl

/-- a fresh cache is the API server itself -/
theorem semV_fresh (s : Store) (r : Req) : (semV View.fresh).exec s r = exec s r := by
  simp only [semV]
  split
  · rfl
  · rename_i h
    rw [view_fresh_apply]
    have h1 : (exec s r).1 = s := exec_read (by simpa using h)
    exact Prod.ext h1.symm rfl

/-- without interference, error classes and lag `runX` is the `run` of the original theorems -/
theorem runX_plain {α : Type} (plan : Plan) : ∀ (p : P α) (k : Nat) (s : Store),
    runX (fun _ => semV View.fresh) Env.none (FPlan.ofPlan plan) k p s = run sem plan k p s := by
  intro p
  induction p with
  | ret a => intro k s; rfl
  | call r c ih =>
    intro k s
    unfold runX run
    simp only [FPlan.ofPlan, Env.none]
    cases plan k <;> simp only [semV_fresh, ih] <;> rfl

end Xp.C12

import Xp.Proofs.C16History
/-
C16: Establish under third-party interference (`establishI`, `reconcileRevI`,
`runHistoryI`): the master invariant, the write log, and histories.

The argument: a real update carries the resourceVersion read in the validate
phase, which is older than `s₀.nextRv` (`s₀` = the store validate saw). Every write
after validate — the revision's own or a third party's — gets a resourceVersion
`≥ s₀.nextRv` (`Frozen`), so an update can only ever replace an object that is still
literally the object of `s₀` it was computed from; and a create is only issued under
`if control`. Everything else in the final store was put there by the third party.
-/
namespace Xp.C16

/-! ### third-party writes -/

theorem applyActs_cons (s : Store) (a : Act) (as : List Act) :
    applyActs s (a :: as) = applyActs (applyAct s a) as := rfl

theorem applyAct_log (s : Store) (a : Act) : (applyAct s a).log = s.log := by
  cases a <;> rfl

theorem applyActs_log (s : Store) (as : List Act) : (applyActs s as).log = s.log := by
  induction as generalizing s with
  | nil => rfl
  | cons a as ih => rw [applyActs_cons, ih, applyAct_log]

/-- `o'` is, up to the resourceVersion the server assigned, an object a third party put (`P` = the third party's puts) -/
def PutBy (P : Obj → Prop) (o' : Obj) : Prop :=
  ∃ a, P a ∧ o'.key = a.key ∧ o'.owners = a.owners ∧ o'.body = a.body

theorem PutBy.mono {P P' : Obj → Prop} (h : ∀ a, P a → P' a) {o' : Obj} (hp : PutBy P o') : PutBy P' o' := by
  obtain ⟨a, ha, r⟩ := hp
  exact ⟨a, h a ha, r⟩

/-- the third party's puts during one Establish -/
def Interf.Puts (tp : Interf) (a : Obj) : Prop := Act.put a ∈ tp.mid ∨ ∃ i, Act.put a ∈ tp.pre i

theorem applyAct_mem (s : Store) (a : Act) (o' : Obj) (h : o' ∈ (applyAct s a).objs) :
    o' ∈ s.objs ∨ ∃ o, a = .put o ∧ o' = { o with rv := s.nextRv } := by
  cases a with
  | del k =>
    simp only [applyAct, List.mem_filter] at h
    exact Or.inl h.1
  | put o =>
    simp only [applyAct, List.mem_append, List.mem_filter, List.mem_singleton] at h
    rcases h with h | h
    · exact Or.inl h.1
    · exact Or.inr ⟨o, rfl, h⟩

theorem keysUnique_filter (l : List Obj) (f : Obj → Bool) (hu : KeysUnique l) : KeysUnique (l.filter f) :=
  fun x hx y hy e => hu x (List.mem_filter.mp hx).1 y (List.mem_filter.mp hy).1 e

theorem applyAct_wf (s : Store) (a : Act) (hw : WF s) : WF (applyAct s a) := by
  cases a with
  | del k =>
    exact ⟨keysUnique_filter _ _ hw.keys, fun o ho => hw.rvs o (List.mem_filter.mp ho).1⟩
  | put o =>
    refine ⟨?_, ?_⟩
    · show KeysUnique ((s.objs.filter fun x => x.key != o.key) ++ [{ o with rv := s.nextRv }])
      apply keysUnique_append _ _ (keysUnique_filter _ _ hw.keys)
      intro x hx
      have := (List.mem_filter.mp hx).2
      simpa using this
    · intro x hx
      simp only [applyAct, List.mem_append, List.mem_filter, List.mem_singleton] at hx
      show x.rv < s.nextRv + 1
      rcases hx with hx | hx
      · exact Nat.lt_succ_of_lt (hw.rvs x hx.1)
      · subst hx; exact Nat.lt_succ_self _

theorem applyActs_wf (s : Store) (as : List Act) (hw : WF s) : WF (applyActs s as) := by
  induction as generalizing s with
  | nil => exact hw
  | cons a as ih => rw [applyActs_cons]; exact ih _ (applyAct_wf s a hw)

theorem applyAct_frozen (s₀ s : Store) (a : Act) (hf : Frozen s₀ s) : Frozen s₀ (applyAct s a) := by
  cases a with
  | del k => exact ⟨hf.le, fun c hc hlt => hf.old c (List.mem_filter.mp hc).1 hlt⟩
  | put o =>
    refine ⟨Nat.le_succ_of_le hf.le, ?_⟩
    intro c hc hlt
    simp only [applyAct, List.mem_append, List.mem_filter, List.mem_singleton] at hc
    rcases hc with hc | hc
    · exact hf.old c hc.1 hlt
    · subst hc
      have := hf.le
      simp only at hlt
      omega

/-! ### the master invariant under interference -/

/-- where an object of the store comes from, relative to the store `l₀` Establish started from -/
inductive Origin (p : Parent) (control : Bool) (P : Obj → Prop) (l₀ : List Obj) (o' : Obj) : Prop where
  /-- untouched -/
  | same : o' ∈ l₀ → Origin p control P l₀ o'
  /-- an object of `l₀`, rewritten by the revision within the role law `QE` -/
  | rewritten (o : Obj) : o ∈ l₀ → o.key = o'.key → QE p control o o' → Origin p control P l₀ o'
  /-- created by the revision within the role law `CE` (which requires `control = true`) -/
  | created : CE p control o' → Origin p control P l₀ o'
  /-- written by the third party -/
  | third : PutBy P o' → Origin p control P l₀ o'

structure IInv (p : Parent) (control : Bool) (P : Obj → Prop) (s₀ s : Store) : Prop where
  wf : WF s
  frozen : Frozen s₀ s
  objs : ∀ o' ∈ s.objs, Origin p control P s₀.objs o'

theorem IInv.refl (p : Parent) (control : Bool) (P : Obj → Prop) (s : Store) (hw : WF s) : IInv p control P s s :=
  ⟨hw, Frozen.refl s, fun _ h => .same h⟩

theorem IInv.act {p : Parent} {control : Bool} {P : Obj → Prop} {s₀ s : Store} (hi : IInv p control P s₀ s)
    (a : Act) (hP : ∀ o, a = .put o → P o) : IInv p control P s₀ (applyAct s a) := by
  refine ⟨applyAct_wf s a hi.wf, applyAct_frozen s₀ s a hi.frozen, ?_⟩
  intro o' ho'
  rcases applyAct_mem s a o' ho' with h | ⟨o, ha, he⟩
  · exact hi.objs o' h
  · subst he
    exact .third ⟨o, hP o ha, rfl, rfl, rfl⟩

theorem IInv.acts {p : Parent} {control : Bool} {P : Obj → Prop} {s₀ s : Store} (hi : IInv p control P s₀ s)
    (as : List Act) (hP : ∀ o, Act.put o ∈ as → P o) : IInv p control P s₀ (applyActs s as) := by
  induction as generalizing s with
  | nil => exact hi
  | cons a as ih =>
    rw [applyActs_cons]
    exact ih (hi.act a fun o e => hP o (e ▸ List.mem_cons_self)) fun o h => hP o (List.mem_cons_of_mem _ h)

theorem IInv.create {p : Parent} {control : Bool} {P : Obj → Prop} {s₀ s s' : Store} {o : Obj}
    (hi : IInv p control P s₀ s) (he : CEffect s s' o)
    (hC : s.get o.key = none → ctrlCount o.owners ≤ 1 → CE p control { o with rv := s.nextRv }) :
    IInv p control P s₀ s' := by
  refine ⟨effect_wf s s' o he.toEffect hi.wf, effect_frozen s₀ s s' o he.toEffect hi.frozen, ?_⟩
  intro o' ho'
  cases he with
  | nothing h1 _ => rw [h1] at ho'; exact hi.objs o' ho'
  | created h1 h2 h3 _ =>
    rw [h3] at ho'
    rcases List.mem_append.mp ho' with h | h
    · exact hi.objs o' h
    · simp only [List.mem_singleton] at h
      subst h
      exact .created (hC h1 h2)

theorem IInv.update {p : Parent} {control : Bool} {P : Obj → Prop} {s₀ s s' : Store} {o : Obj}
    (hi : IInv p control P s₀ s) (he : UEffect s s' o)
    (hQ : ∀ c, s.get o.key = some c → c.rv = o.rv → ctrlCount o.owners ≤ 1 →
      c ∈ s₀.objs ∧ QE p control c { o with rv := s.nextRv }) :
    IInv p control P s₀ s' := by
  refine ⟨effect_wf s s' o he.toEffect hi.wf, effect_frozen s₀ s s' o he.toEffect hi.frozen, ?_⟩
  intro o' ho'
  cases he with
  | nothing h1 _ => rw [h1] at ho'; exact hi.objs o' ho'
  | replaced c h1 h2 h3 h4 _ =>
    rw [h4] at ho'
    obtain ⟨x, hx, hx'⟩ := List.mem_map.mp ho'
    by_cases e : x.key = o.key
    · simp only [e, if_true] at hx'
      subst hx'
      obtain ⟨hc0, hq⟩ := hQ c h1 h2 h3
      exact .rewritten c hc0 (get_key s _ c h1) hq
    · simp only [e, if_false] at hx'
      subst hx'
      exact hi.objs x hx

theorem establishOneI_inv (rejects : Obj → Bool) (fault : Fault) (tp : Interf) (p : Parent) (control : Bool)
    (P : Obj → Prop) (s₀ s : Store) (i : Nat) (cd : CD) (hw₀ : WF s₀)
    (hP : ∀ o, Act.put o ∈ tp.pre i → P o) (hi : IInv p control P s₀ s) (hcd : CDInv s₀ cd) :
    IInv p control P s₀ (establishOneI rejects fault tp p control s i cd).1 := by
  have hiA := hi.acts (tp.pre i) hP
  unfold establishOneI
  split
  · split
    · rename_i hc
      rw [liftW_fst]
      refine hiA.create (apiCreate_effect _ _ _ _ _) ?_
      intro _ hv
      subst hc
      exact createRefs_CE p cd.desired _ hv
    · exact hi
  · rename_i cur hcur
    split
    · exact hi
    · rename_i sub hsub
      rw [liftW_fst]
      obtain ⟨c₀, hc₀, hk₀, hck, hrv, hbody, hu, hc⟩ := hcd cur hcur
      have ⟨hsk, hsrv⟩ := updateSub_key p control cur cd.desired sub hsub
      have hsubkey : sub.key = c₀.key := by
        rw [hsk]; cases control <;> simp [hck, hk₀]
      refine hiA.update (apiUpdate_effect _ _ _ _ _) ?_
      intro c hget hrvc hv
      -- the stored object carrying this resourceVersion is still the object validate read
      have hcmem := get_mem _ _ c hget
      have hckey := get_key _ _ c hget
      have hlt : c.rv < s₀.nextRv := by
        rw [hrvc, hsrv, hrv]; exact hw₀.rvs c₀ hc₀
      have hc0 : c ∈ s₀.objs := hiA.frozen.old c hcmem hlt
      have : c = c₀ := hw₀.keys c hc0 c₀ hc₀ (hckey.trans hsubkey)
      subst this
      exact ⟨hc0, updateSub_QE p control c cur cd.desired sub _ hck hk₀ hbody hu hc hsub hv⟩

theorem establishAllI_inv (rejects : Obj → Bool) (fault : Fault) (tp : Interf) (p : Parent) (control : Bool)
    (P : Obj → Prop) (s₀ s : Store) (ys : List (Nat × CD)) (hw₀ : WF s₀)
    (hP : ∀ i o, Act.put o ∈ tp.pre i → P o) (hi : IInv p control P s₀ s)
    (hcd : ∀ y ∈ ys, CDInv s₀ y.2) :
    IInv p control P s₀ (establishAllI rejects fault tp p control s ys).1 := by
  induction ys generalizing s with
  | nil => exact hi
  | cons y rest ih =>
    obtain ⟨i, cd⟩ := y
    have h1 := establishOneI_inv rejects fault tp p control P s₀ s i cd hw₀ (hP i) hi (hcd (i, cd) List.mem_cons_self)
    have hrest : ∀ y ∈ rest, CDInv s₀ y.2 := fun y hy => hcd y (List.mem_cons_of_mem _ hy)
    unfold establishAllI
    split <;> rename_i s1 _ heq <;> (rw [heq] at h1; simp only at h1)
    · exact h1
    · have h2 := ih s1 h1 hrest
      split <;> rename_i s2 _ heq2 <;> (rw [heq2] at h2; exact h2)
    · have h2 := ih s1 h1 hrest
      split <;> rename_i s2 _ heq2 <;> (rw [heq2] at h2; exact h2)

theorem establishCoreI_inv (rejects : Obj → Bool) (fault : Fault) (tp : Interf) (p : Parent) (control : Bool)
    (s : Store) (objs : List Desired) (vorder eorder : List Nat) (hw : WF s) :
    IInv p control tp.Puts s (establishCoreI rejects fault tp p control s objs vorder eorder).1 := by
  unfold establishCoreI
  have h1 := validateAll_store rejects fault p control s (pick objs vorder)
  split
  · rename_i s1 cds heq
    rw [heq] at h1; simp only at h1; subst h1
    have hcds := validateAll_cdinv rejects fault p control s1 _ cds (by rw [heq])
    exact establishAllI_inv rejects fault tp p control tp.Puts s1 _ _ hw
      (fun i o h => Or.inr ⟨i, h⟩)
      ((IInv.refl p control tp.Puts s1 hw).acts tp.mid fun o h => Or.inl h)
      (fun y hy => hcds y (mem_pickCD cds eorder y hy))
  · rename_i s1 e heq
    rw [heq] at h1; simp only at h1; subst h1
    exact IInv.refl p control _ s1 hw
  · rename_i s1 heq
    rw [heq] at h1; simp only at h1; subst h1
    exact IInv.refl p control _ s1 hw

/-- Master invariant of Establish under interference: for every fault plan, every
completion order and every third-party interference, each object of the final
store is an untouched object of the initial store, such an object rewritten within
the role law `QE`, an object created within `CE` (active revisions only), or an
object the third party put. -/
theorem establishI_inv (rejects : Obj → Bool) (fault : Fault) (tp : Interf) (p : Parent) (control : Bool)
    (s : Store) (objs : List Desired) (vorder eorder : List Nat) (hw : WF s) :
    IInv p control tp.Puts s (establishI rejects fault tp p control s objs vorder eorder).1 := by
  unfold establishI
  split
  · exact IInv.refl p control _ s hw
  · exact IInv.refl p control _ s hw
  · exact establishCoreI_inv rejects fault tp p control s objs vorder eorder hw

/-! ### the revision's own write log -/

/-- `l'` extends `l` by entries that are updates, unless `control` (then creates are allowed too) -/
def LogExt (control : Bool) (l l' : List LogEntry) : Prop :=
  ∃ new, l' = l ++ new ∧ ∀ e ∈ new, e.verb = .update ∨ control = true

theorem LogExt.refl (control : Bool) (l : List LogEntry) : LogExt control l l :=
  ⟨[], by simp, fun _ h => by cases h⟩

theorem LogExt.trans {control : Bool} {a b c : List LogEntry} (h1 : LogExt control a b) (h2 : LogExt control b c) :
    LogExt control a c := by
  obtain ⟨n1, e1, p1⟩ := h1
  obtain ⟨n2, e2, p2⟩ := h2
  refine ⟨n1 ++ n2, by rw [e2, e1, List.append_assoc], fun e he => ?_⟩
  rcases List.mem_append.mp he with h | h
  · exact p1 e h
  · exact p2 e h

theorem logW_ext (control dry : Bool) (s : Store) (e : LogEntry) (h : e.verb = .update ∨ control = true) :
    LogExt control s.log (logW dry s e).log := by
  unfold logW
  split
  · exact LogExt.refl _ _
  · exact ⟨[e], rfl, fun x hx => by simp only [List.mem_singleton] at hx; subst hx; exact h⟩

theorem replaceObj_ext (control : Bool) (s : Store) (c o : Obj) (err : Option Err) :
    LogExt control s.log (replaceObj s c o err).log := by
  unfold replaceObj
  split
  · exact ⟨[_], rfl, fun x hx => by simp only [List.mem_singleton] at hx; subst hx; exact Or.inl rfl⟩
  · exact ⟨[_], rfl, fun x hx => by simp only [List.mem_singleton] at hx; subst hx; exact Or.inl rfl⟩

theorem apiUpdate_ext (control : Bool) (rejects : Obj → Bool) (dry : Bool) (oc : Outcome) (s : Store) (o : Obj) :
    LogExt control s.log (apiUpdate rejects dry oc s o).1.log := by
  unfold apiUpdate
  split
  · exact logW_ext _ _ _ _ (Or.inl rfl)
  · exact logW_ext _ _ _ _ (Or.inl rfl)
  · exact logW_ext _ _ _ _ (Or.inl rfl)
  · split
    · exact logW_ext _ _ _ _ (Or.inl rfl)
    · split
      · exact LogExt.refl _ _
      · exact replaceObj_ext _ _ _ _ _
  · split
    · exact logW_ext _ _ _ _ (Or.inl rfl)
    · split
      · exact LogExt.refl _ _
      · exact replaceObj_ext _ _ _ _ _

theorem apiCreate_ext (rejects : Obj → Bool) (dry : Bool) (oc : Outcome) (s : Store) (o : Obj) :
    LogExt true s.log (apiCreate rejects dry oc s o).1.log := by
  unfold apiCreate
  split
  · exact logW_ext _ _ _ _ (Or.inr rfl)
  · exact logW_ext _ _ _ _ (Or.inr rfl)
  · exact logW_ext _ _ _ _ (Or.inr rfl)
  · split
    · exact logW_ext _ _ _ _ (Or.inr rfl)
    · split
      · exact LogExt.refl _ _
      · exact ⟨[_], rfl, fun _ _ => Or.inr rfl⟩
  · split
    · exact logW_ext _ _ _ _ (Or.inr rfl)
    · split
      · exact LogExt.refl _ _
      · exact ⟨[_], rfl, fun _ _ => Or.inr rfl⟩

theorem establishOneI_log (rejects : Obj → Bool) (fault : Fault) (tp : Interf) (p : Parent) (control : Bool)
    (s : Store) (i : Nat) (cd : CD) :
    LogExt control s.log (establishOneI rejects fault tp p control s i cd).1.log := by
  unfold establishOneI
  split
  · split
    · rename_i hc
      subst hc
      rw [liftW_fst]
      have := apiCreate_ext rejects false (fault i .real) (applyActs s (tp.pre i)) { cd.desired with owners := createRefs p }
      rw [applyActs_log] at this
      exact this
    · exact LogExt.refl _ _
  · split
    · exact LogExt.refl _ _
    · rename_i sub _
      rw [liftW_fst]
      have := apiUpdate_ext control rejects false (fault i .real) (applyActs s (tp.pre i)) sub
      rw [applyActs_log] at this
      exact this

theorem establishAllI_log (rejects : Obj → Bool) (fault : Fault) (tp : Interf) (p : Parent) (control : Bool)
    (s : Store) (ys : List (Nat × CD)) :
    LogExt control s.log (establishAllI rejects fault tp p control s ys).1.log := by
  induction ys generalizing s with
  | nil => exact LogExt.refl _ _
  | cons y rest ih =>
    obtain ⟨i, cd⟩ := y
    have h1 := establishOneI_log rejects fault tp p control s i cd
    unfold establishAllI
    split <;> rename_i s1 _ heq <;> (rw [heq] at h1; simp only at h1)
    · exact h1
    · have h2 := ih s1
      split <;> rename_i s2 _ heq2 <;> (rw [heq2] at h2; exact h1.trans h2)
    · have h2 := ih s1
      split <;> rename_i s2 _ heq2 <;> (rw [heq2] at h2; exact h1.trans h2)

/-- The revision's own non-dry-run writes during Establish under interference: the log
only grows, and unless `control` it grows by updates only. -/
theorem establishI_log (rejects : Obj → Bool) (fault : Fault) (tp : Interf) (p : Parent) (control : Bool)
    (s : Store) (objs : List Desired) (vorder eorder : List Nat) :
    LogExt control s.log (establishI rejects fault tp p control s objs vorder eorder).1.log := by
  unfold establishI
  split
  · exact LogExt.refl _ _
  · exact LogExt.refl _ _
  · unfold establishCoreI
    have h1 := validateAll_store rejects fault p control s (pick objs vorder)
    split
    · rename_i s1 cds heq
      rw [heq] at h1; simp only at h1; subst h1
      have := establishAllI_log rejects fault tp p control (applyActs s1 tp.mid) (pickCD cds eorder)
      rw [applyActs_log] at this
      exact this
    · rename_i s1 _ heq
      rw [heq] at h1; simp only at h1; subst h1
      exact LogExt.refl _ _
    · rename_i s1 heq
      rw [heq] at h1; simp only at h1; subst h1
      exact LogExt.refl _ _

/-! ### no interference: the definitions of `Model/C16.lean` are the special case -/

theorem establishOneI_none (rejects : Obj → Bool) (fault : Fault) (p : Parent) (control : Bool)
    (s : Store) (i : Nat) (cd : CD) :
    establishOneI rejects fault Interf.none p control s i cd = establishOne rejects fault p control s i cd := by
  unfold establishOneI establishOne
  rfl

theorem establishAllI_none (rejects : Obj → Bool) (fault : Fault) (p : Parent) (control : Bool)
    (s : Store) (ys : List (Nat × CD)) :
    establishAllI rejects fault Interf.none p control s ys = establishAll rejects fault p control s ys := by
  induction ys generalizing s with
  | nil => rfl
  | cons y rest ih =>
    obtain ⟨i, cd⟩ := y
    unfold establishAllI establishAll
    rw [establishOneI_none]
    simp only [ih]

theorem establishI_none (rejects : Obj → Bool) (fault : Fault) (p : Parent) (control : Bool)
    (s : Store) (objs : List Desired) (vorder eorder : List Nat) :
    establishI rejects fault Interf.none p control s objs vorder eorder =
      establish rejects fault p control s objs vorder eorder := by
  unfold establishI establish establishCoreI establishCore
  simp only [establishAllI_none]
  rfl

theorem reconcileRevI_none (sys : Sys) (r : Rev) (e : Env) :
    reconcileRevI sys r e Interf.none = reconcileRev sys r e := by
  unfold reconcileRevI reconcileRev establishAndRecordI establishAndRecord
  simp only [establishI_none]

theorem runHistoryI_none (sys : Sys) (h : List (Rev × Env)) :
    runHistoryI sys (h.map fun x => ⟨[], x.1, x.2, Interf.none⟩) = runHistory sys h := by
  induction h generalizing sys with
  | nil => rfl
  | cons x rest ih =>
    simp only [List.map_cons, runHistoryI, runHistory, reconcileRevI_none]
    exact ih _

/-! ### one reconcile and histories under interference -/

/-- per object: every controller reference and the very existence of the object are
accounted for by the initial store `l₀`, by a revision reconciled as active (`A`), or
by a third-party put (`P`) -/
structure Good (l₀ : List Obj) (A : Nat → Prop) (P : Obj → Prop) (o' : Obj) : Prop where
  ctrls : ∀ u, ctrl o'.owners u →
    (∃ o ∈ l₀, o.key = o'.key ∧ ctrl o.owners u) ∨ A u ∨ (∃ a, P a ∧ a.key = o'.key ∧ ctrl a.owners u)
  origin : (∃ o ∈ l₀, o.key = o'.key) ∨ (∃ a, P a ∧ a.key = o'.key) ∨ (∃ u, A u ∧ hasUid o'.owners u)

structure GInv (l₀ : List Obj) (A : Nat → Prop) (P : Obj → Prop) (s : Store) : Prop where
  wf : WF s
  good : ∀ o' ∈ s.objs, Good l₀ A P o'

theorem Good.ofPut {l₀ : List Obj} {A : Nat → Prop} {P : Obj → Prop} {o' : Obj} (h : PutBy P o') : Good l₀ A P o' := by
  obtain ⟨a, ha, hk, ho, _⟩ := h
  exact ⟨fun u hu => Or.inr (Or.inr ⟨a, ha, hk.symm, ho ▸ hu⟩), Or.inr (Or.inl ⟨a, ha, hk.symm⟩)⟩

/-- a rewrite that keeps the key and the owner entries and adds controllers only from `A` -/
theorem Good.rewrite {l₀ : List Obj} {A : Nat → Prop} {P : Obj → Prop} {o o' : Obj} (h : Good l₀ A P o)
    (hk : o'.key = o.key) (hu : ∀ u, hasUid o.owners u → hasUid o'.owners u)
    (hc : ∀ u, ctrl o'.owners u → ctrl o.owners u ∨ A u) : Good l₀ A P o' := by
  refine ⟨fun u hcu => ?_, ?_⟩
  · rcases hc u hcu with h1 | h1
    · rw [hk]; exact h.ctrls u h1
    · exact Or.inr (Or.inl h1)
  · rw [hk]
    rcases h.origin with h1 | h1 | ⟨u, hA, hh⟩
    · exact Or.inl h1
    · exact Or.inr (Or.inl h1)
    · exact Or.inr (Or.inr ⟨u, hA, hu u hh⟩)

theorem GInv.acts {l₀ : List Obj} {A : Nat → Prop} {P : Obj → Prop} {s : Store} (hi : GInv l₀ A P s)
    (as : List Act) (hP : ∀ o, Act.put o ∈ as → P o) : GInv l₀ A P (applyActs s as) := by
  induction as generalizing s with
  | nil => exact hi
  | cons a as ih =>
    rw [applyActs_cons]
    refine ih ⟨applyAct_wf s a hi.wf, fun o' ho' => ?_⟩ fun o h => hP o (List.mem_cons_of_mem _ h)
    rcases applyAct_mem s a o' ho' with h | ⟨o, ha, he⟩
    · exact hi.good o' h
    · subst he
      exact Good.ofPut ⟨o, hP o (ha ▸ List.mem_cons_self), rfl, rfl, rfl⟩

theorem GInv.establishI {l₀ : List Obj} {A : Nat → Prop} {P : Obj → Prop} {s : Store} (hi : GInv l₀ A P s)
    (rejects : Obj → Bool) (fault : Fault) (tp : Interf) (p : Parent) (control : Bool)
    (objs : List Desired) (vorder eorder : List Nat)
    (hA : control = true → A p.uid) (hP : ∀ a, tp.Puts a → P a) :
    GInv l₀ A P (establishI rejects fault tp p control s objs vorder eorder).1 := by
  have h := establishI_inv rejects fault tp p control s objs vorder eorder hi.wf
  refine ⟨h.wf, fun o' ho' => ?_⟩
  cases h.objs o' ho' with
  | same hs => exact hi.good o' hs
  | rewritten o ho hk q =>
    refine (hi.good o ho).rewrite q.key q.uids fun u hu => ?_
    rcases q.ctrls u hu with h1 | ⟨hc, e⟩
    · exact Or.inl h1
    · exact Or.inr (e ▸ hA hc)
  | created c =>
    exact ⟨fun u hu => Or.inr (Or.inl ((c.ctrls u hu) ▸ hA c.active)),
      Or.inr (Or.inr ⟨p.uid, hA c.active, asController p, c.mine, rfl⟩)⟩
  | third t => exact Good.ofPut (t.mono hP)

theorem GInv.release {l₀ : List Obj} {A : Nat → Prop} {P : Obj → Prop} {s : Store} (hi : GInv l₀ A P s)
    (rejects : Obj → Bool) (fault : Fault) (p : Parent) (ran : Nat → Bool) (refs : List Ref) (order : List Nat) :
    GInv l₀ A P (release rejects fault p ran s refs order).1 := by
  have h := release_inv rejects fault p ran s refs order hi.wf
  refine ⟨h.wf, fun o' ho' => ?_⟩
  rcases h.ev.bwd o' ho' with ⟨o, ho, _, hr⟩ | ⟨_, hf⟩
  · rcases hr with e | q
    · subst e; exact hi.good o' ho
    · exact (hi.good o ho).rewrite q.key q.uids fun u hu => Or.inl (q.ctrls u hu)
  · exact hf.elim

theorem establishAndRecordI_store (sys : Sys) (s : Store) (r : Rev) (e : Env) (tp : Interf) :
    (establishAndRecordI sys s r e tp).1.store =
      (establishI e.rejects e.fault tp r.parent r.active s r.objs e.vorder e.eorder).1 := by
  unfold establishAndRecordI
  split <;> rename_i heq <;> rw [heq]

theorem GInv.reconcile {l₀ : List Obj} {A : Nat → Prop} {P : Obj → Prop} {sys : Sys} (hi : GInv l₀ A P sys.store)
    (r : Rev) (e : Env) (tp : Interf) (hA : r.active = true → A r.parent.uid) (hP : ∀ a, tp.Puts a → P a) :
    GInv l₀ A P (reconcileRevI sys r e tp).1.store := by
  unfold reconcileRevI
  split
  · rw [establishAndRecordI_store]
    exact hi.establishI _ _ _ _ _ _ _ _ hA hP
  · have h1 := hi.release e.rejects e.fault r.parent e.ran (sys.refs r.parent.uid) e.rorder
    split <;> rename_i s1 heq <;> (try rename_i x) <;> (rw [heq] at h1; simp only at h1)
    · split
      · exact h1
      · rw [establishAndRecordI_store]
        exact h1.establishI _ _ _ _ _ _ _ _ hA hP
    · exact h1
    · exact h1

/-- the revisions that some step of the history reconciles as active -/
def ActiveInI (h : List HStep) (u : Nat) : Prop := ∃ x ∈ h, x.rev.active = true ∧ x.rev.parent.uid = u

/-- the objects a third party put at some point of the history -/
def PutsIn (h : List HStep) (a : Obj) : Prop := ∃ x ∈ h, Act.put a ∈ x.before ∨ x.tp.Puts a

/-- Induction over the history, third-party writes before and inside every reconcile. -/
theorem runHistoryI_ginv (l₀ : List Obj) (A : Nat → Prop) (P : Obj → Prop) (h : List HStep) (sys : Sys)
    (hA : ∀ u, ActiveInI h u → A u) (hP : ∀ a, PutsIn h a → P a) (hi : GInv l₀ A P sys.store) :
    GInv l₀ A P (runHistoryI sys h).store := by
  induction h generalizing sys with
  | nil => exact hi
  | cons x rest ih =>
    unfold runHistoryI
    have h0 : GInv l₀ A P (⟨applyActs sys.store x.before, sys.refs⟩ : Sys).store :=
      hi.acts x.before fun o ho => hP o ⟨x, List.mem_cons_self, Or.inl ho⟩
    have h1 := h0.reconcile x.rev x.env x.tp
      (fun ha => hA _ ⟨x, List.mem_cons_self, ha, rfl⟩)
      (fun a ha => hP a ⟨x, List.mem_cons_self, Or.inr ha⟩)
    exact ih _ (fun u ⟨y, hy, hp⟩ => hA u ⟨y, List.mem_cons_of_mem _ hy, hp⟩)
      (fun a ⟨y, hy, hp⟩ => hP a ⟨y, List.mem_cons_of_mem _ hy, hp⟩) h1

theorem GInv.init (s : Store) (A : Nat → Prop) (P : Obj → Prop) (hw : WF s) : GInv s.objs A P s :=
  ⟨hw, fun o' ho' => ⟨fun _ hu => Or.inl ⟨o', ho', rfl, hu⟩, Or.inl ⟨o', ho', rfl⟩⟩⟩

end Xp.C16

import Xp.Proofs.C13h
/-
C13 helper lemmas, part i: a StartWatches call that runs without interference and without
faults (re-)establishes every watch it was asked for whose kind has no active informer or
which has no source yet.
-/
namespace Xp.C13

theorem runThread_add {cfg : Cfg} {i : Nat} {k1 k2 : Nat} {s s1 s2 : Sys}
    (h1 : runThread cfg s i k1 = some s1) (h2 : runThread cfg s1 i k2 = some s2) :
    runThread cfg s i (k1 + k2) = some s2 := by
  induction k1 generalizing s with
  | zero => simp only [runThread, Option.some.injEq] at h1; subst h1; simpa using h2
  | succ k ih =>
    simp only [runThread] at h1
    split at h1
    · rename_i s' hs'
      have := ih h1
      rw [show k + 1 + k2 = (k + k2) + 1 by omega]
      simp only [runThread, hs']
      exact this
    · cases h1

theorem runThread_one {cfg : Cfg} {i : Nat} {s s1 : Sys} (h : step cfg s i {} = some s1) :
    runThread cfg s i 1 = some s1 := by
  simp [runThread, h]

/-- the part of the state a lone StartWatches run relies on and preserves -/
structure Quiet (s : Sys) (i cid : Nat) : Prop where
  others : ∀ (j : Nat) (u : Thread), s.threads[j]? = some u → j ≠ i → u.pc.held = ⟨.n, none⟩
  valid : cid < s.objs.length
  notStopped : stoppedOf s cid = false

theorem Quiet.free {s : Sys} {i cid : Nat} (q : Quiet s i cid) (want : Held) : free s i want = true := by
  rw [free_iff]
  intro j u hu hj
  rw [q.others j u hu hj]
  exact Held.compat_nothing _

def HasReg (s : Sys) (cid : Nat) (w : Wid) : Prop := ∃ r ∈ s.regs, r.cid = cid ∧ r.wid = w

/-- the state after a step that only moves thread `i` -/
theorem step_pc_only {s : Sys} {i : Nat} {t : Thread} {pc' : Pc} {s' : Sys}
    (ht : s.threads[i]? = some t)
    (hs : s' = { s with threads := s.threads.set i { t with pc := pc' } }) :
    s'.threads[i]? = some { t with pc := pc' } ∧
    (∀ j, j ≠ i → s'.threads[j]? = s.threads[j]?) := by
  subst hs
  have hi : i < s.threads.length := by
    rcases Nat.lt_or_ge i s.threads.length with h | h
    · exact h
    · rw [List.getElem?_eq_none h] at ht; cases ht
  refine ⟨by simp [hi], ?_⟩
  intro j hj
  have hne : ¬ i = j := fun e => hj e.symm
  simp [hne]

/-- the loop of StartWatches under the write lock, run alone and without faults -/
theorem sw_loop {i cid : Nat} {op : Op} {a : List Nat} (rest : List Wid) :
    ∀ (s : Sys) (st : List Wid),
      Quiet s i cid →
      s.threads[i]? = some ⟨op, swPc cid a st (swNext (srcsOf s cid) a st rest)⟩ →
      (∀ w ∈ st, HasReg s cid w) →
      ∃ k s', runThread Cfg.fixed s i k = some s' ∧ s'.threads[i]? = some ⟨op, .done .ok⟩ ∧
        (∀ w, HasReg s cid w → HasReg s' cid w) ∧
        (∀ w ∈ rest, (aget w (srcsOf s cid) = none ∨ w.gvk ∉ a ∨ w ∈ st) → HasReg s' cid w) := by
  induction rest with
  | nil =>
    intro s st q ht _
    simp only [swNext, swPc] at ht
    have hstep : step Cfg.fixed s i {} = some { s with threads := s.threads.set i ⟨op, .done .ok⟩ } := by
      simp only [step, ht, next, Act.apply]
    refine ⟨1, _, runThread_one hstep, (step_pc_only ht rfl).1, fun w h => h, ?_⟩
    intro w hw; cases hw
  | cons x xs ih =>
    intro s st q ht hst
    unfold swNext at ht
    by_cases hskip : ((aget x (srcsOf s cid)).isSome && (a.contains x.gvk || st.contains x)) = true
    · -- x is skipped: it exists and its kind was active, or this call started it
      simp only [hskip, if_true] at ht
      obtain ⟨k, s', hrun, hdone, hmono, hrest⟩ := ih s st q ht hst
      refine ⟨k, s', hrun, hdone, hmono, ?_⟩
      intro w hw hc
      rcases List.mem_cons.1 hw with rfl | hw'
      · simp only [Bool.and_eq_true, Bool.or_eq_true, List.contains_iff_mem] at hskip
        rcases hc with h1 | h2 | h3
        · rw [h1] at hskip; simp at hskip
        · rcases hskip.2 with h | h
          · exact absurd h h2
          · exact hmono _ (hst _ h)
        · exact hmono _ (hst _ h3)
      · exact hrest w hw' hc
    · -- x is started: GetInformer, AddEventHandler
      simp only [hskip, swPc] at ht
      -- step 1: GetInformer
      let s1 : Sys := (Act.getInformer x.gvk false).apply
        { s with threads := s.threads.set i ⟨op, .swAH cid a st x xs (handle s x.gvk)⟩ }
      have hstep1 : step Cfg.fixed s i {} = some s1 := by
        simp only [step, ht, next]
        rfl
      obtain ⟨f1, f2, f3, f4, _⟩ := apply_getInformer_fields x.gvk false
        { s with threads := s.threads.set i ⟨op, .swAH cid a st x xs (handle s x.gvk)⟩ }
      have hth1 : s1.threads = s.threads.set i ⟨op, .swAH cid a st x xs (handle s x.gvk)⟩ := Act.apply_threads _ _
      have hp1 := step_pc_only (t := ⟨op, .swGI cid a st x xs⟩) (pc' := .swAH cid a st x xs (handle s x.gvk)) ht rfl
      have ht1 : s1.threads[i]? = some ⟨op, .swAH cid a st x xs (handle s x.gvk)⟩ := by
        rw [hth1]; exact hp1.1
      have hlive1 : aget x.gvk s1.live = some (handle s x.gvk) := by
        rw [apply_getInformer_live]
        unfold handle
        cases hl : aget x.gvk s.live with
        | some h0 => exact Or.inl rfl
        | none => exact Or.inr ⟨rfl, rfl, rfl, rfl⟩
      have hsrc1 : srcsOf s1 cid = srcsOf s cid := (srcsOf_apply_getInformer x.gvk false _ cid).1
      -- step 2: AddEventHandler + record the source
      let pc2 : Pc := swPc cid a (x :: st) (swNext (aset x s1.nextReg (srcsOf s1 cid)) a (x :: st) xs)
      let s2 : Sys := (Act.addReg cid x (handle s x.gvk)).apply { s1 with threads := s1.threads.set i ⟨op, pc2⟩ }
      have hstep2 : step Cfg.fixed s1 i {} = some s2 := by
        simp only [step, ht1, next, hlive1, Cfg.fixed]
        simp only [bne_self_eq_false, Bool.or_false, Bool.false_eq_true, if_false, if_true]
        rfl
      have hv1 : cid < s1.objs.length := by rw [f3]; exact q.valid
      have hsrc2 : srcsOf s2 cid = aset x s1.nextReg (srcsOf s1 cid) := by
        have := srcsOf_addReg { s1 with threads := s1.threads.set i ⟨op, pc2⟩ } cid x (handle s x.gvk) cid
        simp only [if_true] at this
        rw [this, if_pos hv1]
        rfl
      have hp2 := step_pc_only (t := ⟨op, .swAH cid a st x xs (handle s x.gvk)⟩) (pc' := pc2) ht1 rfl
      have hth2 : s2.threads = s1.threads.set i ⟨op, pc2⟩ := Act.apply_threads _ _
      have ht2 : s2.threads[i]? = some ⟨op, swPc cid a (x :: st) (swNext (srcsOf s2 cid) a (x :: st) xs)⟩ := by
        rw [hth2, hsrc2]; exact hp2.1
      have hregs2 : s2.regs = ⟨s1.nextReg, cid, x, handle s x.gvk⟩ :: s.regs := by
        show (⟨s1.nextReg, cid, x, handle s x.gvk⟩ :: s1.regs) = _
        rw [f1]
      have q2 : Quiet s2 i cid := by
        refine ⟨?_, ?_, ?_⟩
        · intro j u hu hj
          rw [hth2, hp2.2 j hj, hth1, hp1.2 j hj] at hu
          exact q.others j u hu hj
        · show cid < (modCtl _ _ _).length
          rw [modCtl_length]; exact hv1
        · rw [stoppedOf_addReg]
          have : stoppedOf s1 cid = stoppedOf s cid := (srcsOf_apply_getInformer x.gvk false _ cid).2.1
          show stoppedOf s1 cid = false
          rw [this]; exact q.notStopped
      have hmono2 : ∀ w, HasReg s cid w → HasReg s2 cid w := by
        intro w ⟨r, hr, h1, h2⟩
        exact ⟨r, by rw [hregs2]; exact List.mem_cons_of_mem _ hr, h1, h2⟩
      have hx2 : HasReg s2 cid x := ⟨⟨s1.nextReg, cid, x, handle s x.gvk⟩, by rw [hregs2]; exact List.mem_cons_self, rfl, rfl⟩
      have hst2 : ∀ w ∈ x :: st, HasReg s2 cid w := by
        intro w hw
        rcases List.mem_cons.1 hw with rfl | hw'
        · exact hx2
        · exact hmono2 _ (hst _ hw')
      obtain ⟨k, s', hrun, hdone, hmono, hrest⟩ := ih s2 (x :: st) q2 ht2 hst2
      refine ⟨1 + (1 + k), s', ?_, hdone, fun w h => hmono w (hmono2 w h), ?_⟩
      · exact runThread_add (runThread_one hstep1) (runThread_add (runThread_one hstep2) hrun)
      · intro w hw hc
        rcases List.mem_cons.1 hw with rfl | hw'
        · exact hmono _ hx2
        · apply hrest w hw'
          rcases hc with h1 | h2 | h3
          · by_cases e : w = x
            · exact Or.inr (Or.inr (by rw [e]; exact List.mem_cons_self))
            · left
              rw [hsrc2, aget_aset_ne (fun e' => e e'.symm), hsrc1]; exact h1
          · exact Or.inr (Or.inl h2)
          · exact Or.inr (Or.inr (List.mem_cons_of_mem _ h3))

theorem swNext_none {srcs : List (Wid × Nat)} {a : List Nat} {st : List Wid} {ws : List Wid}
    (h : swNext srcs a st ws = none) : ∀ w ∈ ws, (aget w srcs).isSome = true ∧ (w.gvk ∈ a ∨ w ∈ st) := by
  induction ws with
  | nil => intro w hw; cases hw
  | cons x xs ih =>
    unfold swNext at h
    split at h
    · rename_i hx
      intro w hw
      rcases List.mem_cons.1 hw with rfl | hw'
      · simpa [List.contains_iff_mem] using hx
      · exact ih h w hw'
    · cases h

/-- a step that only moves the pc of thread `i` -/
theorem pc_step {s : Sys} {i : Nat} {op : Op} {pc pc' : Pc}
    (ht : s.threads[i]? = some ⟨op, pc⟩) (hn : next Cfg.fixed s i ⟨op, pc⟩ {} = some (pc', .nop)) :
    ∃ s', step Cfg.fixed s i {} = some s' ∧ s'.threads[i]? = some ⟨op, pc'⟩ ∧
      (∀ j, j ≠ i → s'.threads[j]? = s.threads[j]?) ∧
      s'.ctrls = s.ctrls ∧ s'.objs = s.objs ∧ s'.tracked = s.tracked ∧ s'.regs = s.regs := by
  refine ⟨{ s with threads := s.threads.set i ⟨op, pc'⟩ }, ?_, ?_, ?_, rfl, rfl, rfl, rfl⟩
  · simp only [step, ht, hn, Act.apply]
  · exact (step_pc_only (t := ⟨op, pc⟩) (pc' := pc') ht rfl).1
  · exact (step_pc_only (t := ⟨op, pc⟩) (pc' := pc') ht rfl).2

theorem Quiet.transfer {s s' : Sys} {i cid : Nat} (q : Quiet s i cid)
    (hth : ∀ j, j ≠ i → s'.threads[j]? = s.threads[j]?) (hobjs : s'.objs = s.objs) : Quiet s' i cid := by
  refine ⟨?_, ?_, ?_⟩
  · intro j u hu hj
    rw [hth j hj] at hu
    exact q.others j u hu hj
  · rw [hobjs]; exact q.valid
  · simp only [stoppedOf, hobjs]; exact q.notStopped

/-- StartWatches run alone, without faults, from a state where no other goroutine holds a
lock: it returns nil and afterwards every requested watch that had no source, or whose kind
had no active informer, has a live handler registration. -/
theorem sw_alone {s : Sys} {i n cid : Nat} {ws : List Wid}
    (q : Quiet s i cid) (ht : s.threads[i]? = some ⟨.startWatches n ws, .idle⟩)
    (hn : aget n s.ctrls = some cid) :
    ∃ k s', runThread Cfg.fixed s i k = some s' ∧ s'.threads[i]? = some ⟨.startWatches n ws, .done .ok⟩ ∧
      ∀ w ∈ ws, (aget w (srcsOf s cid) = none ∨ w.gvk ∉ s.tracked) → HasReg s' cid w := by
  -- e.mx.RLock; lookup
  obtain ⟨s1, st1, t1, o1, c1, b1, tr1, r1⟩ := pc_step (pc' := .swLU (some cid) ws) ht
    (by simp only [next, acquire, q.free, if_true, hn])
  have q1 := q.transfer o1 b1
  -- e.mx.RUnlock
  obtain ⟨s2, st2, t2, o2, c2, b2, tr2, r2⟩ := pc_step (pc' := .swAI cid ws) t1 (by simp only [next])
  have q2 := q1.transfer o2 b2
  -- ActiveInformers
  obtain ⟨s3, st3, t3, o3, c3, b3, tr3, r3⟩ := pc_step (pc' := .swCR cid ws s2.tracked) t2 (by simp only [next])
  have q3 := q2.transfer o3 b3
  -- c.mx.RLock
  obtain ⟨s4, st4, t4, o4, c4, b4, tr4, r4⟩ :=
    pc_step (pc' := .swCRrel cid ws s2.tracked (swNext (srcsOf s3 cid) s2.tracked [] ws).isSome) t3
      (by simp only [next, acquire, q3.free, if_true])
  have q4 := q3.transfer o4 b4
  have htr : s2.tracked = s.tracked := by rw [tr2, tr1]
  have hsrc3 : srcsOf s3 cid = srcsOf s cid := by simp only [srcsOf, b3, b2, b1]
  have run4 : runThread Cfg.fixed s i 4 = some s4 :=
    runThread_add (runThread_one st1) (runThread_add (runThread_one st2) (runThread_add (runThread_one st3) (runThread_one st4)))
  cases hstart : swNext (srcsOf s3 cid) s2.tracked [] ws with
  | none =>
    -- nothing to start
    rw [hstart] at t4
    obtain ⟨s5, st5, t5, _⟩ := pc_step (pc' := .done .ok) t4 (by simp [next])
    refine ⟨4 + 1, s5, runThread_add run4 (runThread_one st5), t5, ?_⟩
    intro w hw hc
    obtain ⟨h1, h2⟩ := swNext_none hstart w hw
    rw [hsrc3] at h1
    rw [htr] at h2
    rcases hc with hc | hc
    · rw [hc] at h1; cases h1
    · rcases h2 with h2 | h2
      · exact absurd h2 hc
      · cases h2
  | some p =>
    rw [hstart] at t4
    -- c.mx.RUnlock
    obtain ⟨s5, st5, t5, o5, c5, b5, tr5, r5⟩ := pc_step (pc' := .swCW cid ws s2.tracked) t4 (by simp [next])
    have q5 := q4.transfer o5 b5
    -- c.mx.Lock; the controller was not stopped
    obtain ⟨s6, st6, t6, o6, c6, b6, tr6, r6⟩ := pc_step (pc' := .swAI2 cid ws) t5
      (by simp only [next, acquire, q5.free, if_true, q5.notStopped, Cfg.fixed]; rfl)
    have q6 := q5.transfer o6 b6
    -- ActiveInformers again, under the lock
    obtain ⟨s7, st7, t7, o7, c7, b7, tr7, r7⟩ :=
      pc_step (pc' := swPc cid s6.tracked [] (swNext (srcsOf s6 cid) s6.tracked [] ws)) t6 (by simp only [next])
    have q7 := q6.transfer o7 b7
    have hsrc7 : srcsOf s7 cid = srcsOf s cid := by simp only [srcsOf, b7, b6, b5, b4, b3, b2, b1]
    have hsrc6 : srcsOf s6 cid = srcsOf s7 cid := by simp only [srcsOf, b7]
    have htr6 : s6.tracked = s.tracked := by rw [tr6, tr5, tr4, tr3, tr2, tr1]
    rw [hsrc6] at t7
    obtain ⟨k, s', hrun, hdone, _, hrest⟩ := sw_loop (a := s6.tracked) ws s7 [] q7 t7 (by intro w hw; cases hw)
    have run7 : runThread Cfg.fixed s i (4 + (1 + (1 + 1))) = some s7 :=
      runThread_add run4 (runThread_add (runThread_one st5) (runThread_add (runThread_one st6) (runThread_one st7)))
    refine ⟨4 + (1 + (1 + 1)) + k, s', runThread_add run7 hrun, hdone, ?_⟩
    intro w hw hc
    apply hrest w hw
    rw [hsrc7, htr6]
    rcases hc with hc | hc
    · exact Or.inl hc
    · exact Or.inr (Or.inl hc)

theorem reachable_of_runThread {cfg : Cfg} {ops : List Op} {s s' : Sys} {i k : Nat}
    (hs : Reachable cfg ops s) (h : runThread cfg s i k = some s') : Reachable cfg ops s' := by
  induction k generalizing s with
  | zero => simp only [runThread, Option.some.injEq] at h; exact h ▸ hs
  | succ k ih =>
    simp only [runThread] at h
    split at h
    · rename_i s1 h1
      exact ih (Reachable.step i {} hs h1) h
    · cases h

theorem reachable_of_runSched {cfg : Cfg} {ops : List Op} {s s' : Sys} {sched : List (Nat × Choice)}
    (hs : Reachable cfg ops s) (h : runSched cfg s sched = some s') : Reachable cfg ops s' := by
  induction sched generalizing s with
  | nil => simp only [runSched, Option.some.injEq] at h; exact h ▸ hs
  | cons p rest ih =>
    obtain ⟨i, ch⟩ := p
    simp only [runSched] at h
    split at h
    · rename_i s1 h1
      exact ih (Reachable.step i ch hs h1) h
    · cases h

end Xp.C13

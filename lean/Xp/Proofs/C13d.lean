import Xp.Proofs.C13c
/-
C13 helper lemmas, part d: the per-thread invariant (what a thread knows at its pc stays
true while it holds the lock that protects it) and the lock discipline of writes.
-/
namespace Xp.C13

/-- the controller object a pc refers to -/
def Pc.cid? : Pc → Option Nat
  | .relCE cid _ | .relC cid _ | .spC _ cid | .spLoop _ cid | .spGI _ cid _ _ | .spRH _ cid _ _ _
  | .swAI cid _ | .swCR cid _ _ | .swCRrel cid _ _ _ | .swCW cid _ _ | .swAI2 cid _
  | .swGI cid _ _ _ _ | .swAH cid _ _ _ _ _
  | .xwCR cid _ | .xwCRrel cid _ _ | .xwCW cid _ | .xwGI cid _ _ _ _ | .xwRH cid _ _ _ _ _
  | .gwCR cid | .gwCRrel cid _ | .gcCR cid _ _ | .gcCRrel cid _ _ _ => some cid
  | .swLU o _ | .xwLU o _ | .gwLU o | .gcLU o _ _ => o
  | _ => none

theorem swPc_cid (cid : Nat) (a : List Nat) (st : List Wid) (o) : (swPc cid a st o).cid? = some cid := by
  cases o with
  | none => rfl
  | some p => obtain ⟨w, r⟩ := p; rfl

theorem xwPc_cid (cid k : Nat) (o) : (xwPc cid k o).cid? = some cid := by
  cases o with
  | none => rfl
  | some p => obtain ⟨w, r, l⟩ := p; rfl

/-- every controller object a thread refers to exists -/
def TValid (s : Sys) (t : Thread) : Prop := ∀ c, t.pc.cid? = some c → c < s.objs.length

/-- what a thread knows at its pc -/
def TFacts (s : Sys) (t : Thread) : Prop :=
  match t.pc with
  | .spC n cid | .spLoop n cid => aget n s.ctrls = some cid
  | .spGI n cid wid reg | .spRH n cid wid reg _ =>
      aget n s.ctrls = some cid ∧ aget wid (srcsOf s cid) = some reg
  | .xwGI cid wid reg _ _ | .xwRH cid wid reg _ _ _ => aget wid (srcsOf s cid) = some reg
  | .swAI2 cid _ => stoppedOf s cid = false
  | .swGI cid a st wid _ | .swAH cid a st wid _ _ =>
      stoppedOf s cid = false ∧ (∀ r ∈ s.regs, r.cid = cid → r.wid.gvk ∈ a ∨ r.wid ∈ st) ∧
      ¬((aget wid (srcsOf s cid)).isSome = true ∧ (wid.gvk ∈ a ∨ wid ∈ st))
  | _ => True

/-! ### lock discipline of writes -/

/-- what a step changes is protected by a lock the stepping thread holds for writing -/
theorem act_frame {cfg : Cfg} {s : Sys} {i : Nat} {t : Thread} {ch : Choice} {pc' : Pc} {act : Act}
    (hn : next cfg s i t ch = some (pc', act)) (ths : List Thread) :
    let s' := act.apply { s with threads := ths }
    (s'.ctrls ≠ s.ctrls → t.pc.held.e = .w) ∧
    (∀ cid, (srcsOf s' cid ≠ srcsOf s cid ∨ stoppedOf s' cid ≠ stoppedOf s cid ∨
        ∃ r ∈ s'.regs, r.cid = cid ∧ r ∉ s.regs) → t.pc.held.c = some (cid, .w)) := by
  have hf := next_act_cases hn
  cases act <;> simp only [ActFrom] at hf
  case nop =>
    simp only [Act.apply, srcsOf, stoppedOf]
    refine ⟨fun h => absurd rfl h, fun cid h => ?_⟩
    rcases h with h | h | ⟨r, hr, _, hnr⟩
    · exact absurd rfl h
    · exact absurd rfl h
    · exact absurd hr hnr
  case logEv e =>
    simp only [Act.apply, srcsOf, stoppedOf]
    refine ⟨fun h => absurd rfl h, fun cid h => ?_⟩
    rcases h with h | h | ⟨r, hr, _, hnr⟩
    · exact absurd rfl h
    · exact absurd rfl h
    · exact absurd hr hnr
  case rmInformer g =>
    simp only [Act.apply, srcsOf, stoppedOf]
    refine ⟨fun h => absurd rfl h, fun cid h => ?_⟩
    rcases h with h | h | ⟨r, hr, _, hnr⟩
    · exact absurd rfl h
    · exact absurd rfl h
    · exact absurd ((List.mem_filter.1 hr).1) hnr
  case getInformer g f =>
    have e : ∀ (s0 : Sys), ((Act.getInformer g f).apply s0).ctrls = s0.ctrls ∧
        ((Act.getInformer g f).apply s0).objs = s0.objs ∧ ((Act.getInformer g f).apply s0).regs = s0.regs := by
      intro s0
      simp only [Act.apply]
      split
      · exact ⟨rfl, rfl, rfl⟩
      · split <;> exact ⟨rfl, rfl, rfl⟩
    obtain ⟨e1, e2, e3⟩ := e { s with threads := ths }
    simp only [srcsOf, stoppedOf, e1, e2, e3]
    refine ⟨fun h => absurd rfl h, fun cid h => ?_⟩
    rcases h with h | h | ⟨r, hr, _, hnr⟩
    · exact absurd rfl h
    · exact absurd rfl h
    · exact absurd hr hnr
  case newCtl n =>
    rw [hf]
    simp only [Act.apply, srcsOf_eq, stoppedOf_eq, srcsOfObjs_append_new, stoppedOfObjs_append_new]
    refine ⟨fun _ => rfl, fun cid h => ?_⟩
    rcases h with h | h | ⟨r, hr, _, hnr⟩
    · exact absurd rfl h
    · exact absurd rfl h
    · exact absurd hr hnr
  case finishStop n cid =>
    rw [hf.1]
    simp only [Act.apply, srcsOf_eq, stoppedOf_eq, srcsOfObjs_modCtl, stoppedOfObjs_modCtl]
    refine ⟨fun _ => rfl, fun k h => ?_⟩
    by_cases e : k = cid
    · subst e; rfl
    · simp only [e, if_false] at h
      rcases h with h | h | ⟨r, hr, _, hnr⟩
      · exact absurd rfl h
      · exact absurd rfl h
      · exact absurd hr hnr
  case addReg cid wid h' =>
    obtain ⟨a, st, rest, hpc, _, _⟩ := hf
    rw [hpc]
    simp only [Act.apply, srcsOf_eq, stoppedOf_eq, srcsOfObjs_modCtl, stoppedOfObjs_modCtl]
    refine ⟨fun h => absurd rfl h, fun k h => ?_⟩
    by_cases e : k = cid
    · subst e; rfl
    · simp only [e, if_false] at h
      rcases h with h | h | ⟨r, hr, hk, hnr⟩
      · exact absurd rfl h
      · exact absurd rfl h
      · rcases List.mem_cons.1 hr with rfl | hr'
        · exact absurd hk.symm e
        · exact absurd hr' hnr
  case delReg cid wid reg =>
    have hheld : t.pc.held.c = some (cid, .w) := by
      rcases hf with ⟨n, h', hpc, _⟩ | ⟨rest, k, h', hpc, _⟩ <;> rw [hpc] <;> rfl
    simp only [Act.apply, srcsOf_eq, stoppedOf_eq, srcsOfObjs_modCtl, stoppedOfObjs_modCtl]
    refine ⟨fun h => absurd rfl h, fun k h => ?_⟩
    by_cases e : k = cid
    · subst e; exact hheld
    · simp only [e, if_false] at h
      rcases h with h | h | ⟨r, hr, _, hnr⟩
      · exact absurd rfl h
      · exact absurd rfl h
      · exact absurd ((List.mem_filter.1 hr).1) hnr

/-! ### what a thread knows is stable while others step -/

theorem TFacts_frame {s s' : Sys} {t : Thread}
    (hctrls : t.pc.held.e = .w → s'.ctrls = s.ctrls)
    (hc : ∀ cid, t.pc.held.c = some (cid, .w) →
      srcsOf s' cid = srcsOf s cid ∧ stoppedOf s' cid = stoppedOf s cid ∧ (∀ r ∈ s'.regs, r.cid = cid → r ∈ s.regs))
    (h : TFacts s t) : TFacts s' t := by
  obtain ⟨op, pc⟩ := t
  cases pc <;> simp only [TFacts] at h ⊢ <;> try trivial
  case spC n cid => rw [hctrls rfl]; exact h
  case spLoop n cid => rw [hctrls rfl]; exact h
  case spGI n cid wid reg =>
    obtain ⟨e1, _, _⟩ := hc cid rfl
    rw [hctrls rfl, e1]; exact h
  case spRH n cid wid reg hh =>
    obtain ⟨e1, _, _⟩ := hc cid rfl
    rw [hctrls rfl, e1]; exact h
  case xwGI cid wid reg rest k =>
    obtain ⟨e1, _, _⟩ := hc cid rfl
    rw [e1]; exact h
  case xwRH cid wid reg rest k hh =>
    obtain ⟨e1, _, _⟩ := hc cid rfl
    rw [e1]; exact h
  case swAI2 cid ws =>
    obtain ⟨_, e2, _⟩ := hc cid rfl
    rw [e2]; exact h
  case swGI cid a st wid rest =>
    obtain ⟨e1, e2, e3⟩ := hc cid rfl
    rw [e1, e2]
    exact ⟨h.1, fun r hr hcid => h.2.1 r (e3 r hr hcid) hcid, h.2.2⟩
  case swAH cid a st wid rest hh =>
    obtain ⟨e1, e2, e3⟩ := hc cid rfl
    rw [e1, e2]
    exact ⟨h.1, fun r hr hcid => h.2.1 r (e3 r hr hcid) hcid, h.2.2⟩

/-- a step of thread `i` keeps what another thread `j` knows -/
theorem TFacts_other {cfg : Cfg} {s : Sys} {i j : Nat} {t tj : Thread} {ch : Choice} {pc' : Pc} {act : Act}
    (hm : Mutex s) (hij : i ≠ j) (ht : s.threads[i]? = some t) (htj : s.threads[j]? = some tj)
    (hn : next cfg s i t ch = some (pc', act)) (ths : List Thread) (h : TFacts s tj) :
    TFacts (act.apply { s with threads := ths }) tj := by
  have hfr := act_frame hn ths
  simp only at hfr
  apply TFacts_frame _ _ h
  · intro hw
    apply Classical.byContradiction
    intro hne
    have h1 := hfr.1 hne
    have h2 := hm.excl_e hij ht htj h1
    rw [hw] at h2
    cases h2
  · intro cid hw
    have key : ¬ (srcsOf (act.apply { s with threads := ths }) cid ≠ srcsOf s cid ∨
        stoppedOf (act.apply { s with threads := ths }) cid ≠ stoppedOf s cid ∨
        ∃ r ∈ (act.apply { s with threads := ths }).regs, r.cid = cid ∧ r ∉ s.regs) := by
      intro hx
      have h1 := hfr.2 cid hx
      have h2 := hm.excl_c hij ht htj h1 hw
      cases h2
    refine ⟨?_, ?_, ?_⟩
    · apply Classical.byContradiction; intro hx; exact key (Or.inl hx)
    · apply Classical.byContradiction; intro hx; exact key (Or.inr (Or.inl hx))
    · intro r hr hcid
      apply Classical.byContradiction; intro hx; exact key (Or.inr (Or.inr ⟨r, hr, hcid, hx⟩))

end Xp.C13

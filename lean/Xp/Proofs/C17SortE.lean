import Xp.Model.C17
import Xp.Proofs.C17Dag
/-
C17 helper lemmas: Sort WITHOUT the assumption that the empty string is not a node identifier.

Go's `visit` writes a finished node into the first slot of the pre-sized `results` slice that
still holds "" (the free-slot marker). A node whose identifier IS "" therefore never occupies a
slot: the write leaves the slice as it was and the next finished node takes the same slot.
`finish` (Model/C17.lean) mirrors that. Here: the search with an ideal `leave` (`leaveI`: always
appends) satisfies the specification of Proofs/C17Dag.lean for EVERY graph, and the real search
is the ideal one with the empty identifier filtered out of the results (`sortFrom_sim`): the same
error, the same visited set, the same cycle verdict; on success the result is a dependencies-first
order of all nodes from which "" was taken out, padded with "" (the unused slot) at the end.
Core Lean only.
-/
namespace Xp.C17

/-- `leave` with an ideal results list: the name is always appended -/
def leaveI (name : String) (st : SortSt) : SortSt :=
  { st with results := st.results ++ [name], stack := st.stack.filter (· ≠ name) }

/-- `visit` over `leaveI` -/
def visitI (nb : String → Option (List String)) : Nat → String → SortSt → Except SortErr SortSt
  | 0, _, _ => .error .fuel
  | f + 1, name, st =>
    match visitNbrs (visitI nb f) (fun n => (nb n).isSome) ((nb name).getD []) (enter name st) with
    | .error e => .error e
    | .ok st2 => .ok (leaveI name st2)

/-- `sortFrom` over `visitI` -/
def sortFromI (nb : String → Option (List String)) (fuel : Nat) : List String → SortSt → Except SortErr SortSt
  | [], st => .ok st
  | n :: rest, st =>
    if st.visited.contains n then sortFromI nb fuel rest st
    else
      match visitI nb fuel n { st with stack := [] } with
      | .error e => .error e
      | .ok st' => sortFromI nb fuel rest st'

section SortIdeal
variable (nb : String → Option (List String)) (ks : List String)
variable (hks : ∀ n, (nb n).isSome = true ↔ n ∈ ks) (hclosed : Closed nb)
include hks hclosed

theorem visitI_spec : ∀ f, VisitSpec nb ks f (visitI nb f) := by
  intro f
  induction f with
  | zero => intro name st _ _ _ _ hf; exact absurd hf (Nat.not_lt_zero _)
  | succ f ih =>
    intro name st hnv hkey hinv hpath hfuel
    have hnstack : name ∉ st.stack := fun h => hnv (hinv.stack_vis name h)
    -- the state on entry
    have hinv1 : Inv nb ks (enter name st) := by
      refine ⟨?_, ?_, ?_, hinv.topo, ?_⟩
      · intro x hx
        cases hx with
        | head => exact List.mem_cons_self ..
        | tail _ h => exact List.mem_cons_of_mem _ (hinv.stack_vis x h)
      · intro x hx
        cases hx with
        | head => exact Or.inl (List.mem_cons_self ..)
        | tail _ h =>
          cases hinv.vis_cases x h with
          | inl h' => exact Or.inl (List.mem_cons_of_mem _ h')
          | inr h' => exact Or.inr h'
      · intro x hx
        have ⟨h1, h2⟩ := hinv.res_vis x hx
        refine ⟨List.mem_cons_of_mem _ h1, ?_⟩
        intro h
        cases h with
        | head => exact hnv h1
        | tail _ h' => exact h2 h'
      · intro x hx
        cases hx with
        | head => exact hkey
        | tail _ h => exact hinv.vis_keys x h
    have hpath1 : ∀ s ∈ (enter name st).stack, ReachRT nb s name := by
      intro s hs
      cases hs with
      | head => exact .refl _
      | tail _ h => exact hpath s h
    have hfuel1 : unv ks (enter name st).visited < f := by
      have := unv_cons_lt (ks := ks) hkey hnv
      show unv ks (name :: st.visited) < f
      omega
    have hedges : ∀ m ∈ (nb name).getD [], Edge nb name m := fun m hm => hm
    have hloop := visitNbrs_spec nb ks hks hclosed f (visitI nb f) ih name st.stack ((nb name).getD []) (enter name st)
      hedges hinv1 rfl hpath1 hfuel1
    show Outcome nb (visitI nb (f + 1) name st) (Post nb ks name st)
    unfold visitI
    cases hrm : visitNbrs (visitI nb f) (fun n => (nb n).isSome) ((nb name).getD []) (enter name st) with
    | error e => rw [hrm] at hloop; cases e <;> exact hloop
    | ok st2 =>
      rw [hrm] at hloop
      have p : LoopPost nb ks ((nb name).getD []) (enter name st) st2 := hloop
      show Post nb ks name st (leaveI name st2)
      have hst2 : st2.stack = name :: st.stack := p.stack_eq
      have hfin : (leaveI name st2).results = st2.results ++ [name] := rfl
      have hfil : (leaveI name st2).stack = st.stack := by
        show st2.stack.filter (· ≠ name) = st.stack
        rw [hst2]
        simp only [List.filter_cons, ne_eq, not_true_eq_false, decide_false, Bool.false_eq_true, if_false]
        exact filter_ne_self hnstack
      have hn2 : name ∈ st2.visited := p.inv.stack_vis name (by rw [hst2]; exact List.mem_cons_self ..)
      have hnres : name ∉ st2.results := fun h => (p.inv.res_vis name h).2 (by rw [hst2]; exact List.mem_cons_self ..)
      refine ⟨hfil, ?_, ?_, ?_, ?_⟩
      · intro x hx; exact p.vis_mono x (List.mem_cons_of_mem _ hx)
      · intro x hx; rw [hfin]; exact List.mem_append_left _ (p.res_mono x hx)
      · rw [hfin]; exact List.mem_append_right _ (List.mem_cons_self ..)
      · refine ⟨?_, ?_, ?_, ?_, p.inv.vis_keys⟩
        · intro x hx
          rw [hfil] at hx
          exact p.vis_mono x (List.mem_cons_of_mem _ (hinv.stack_vis x hx))
        · intro x hx
          rw [hfil, hfin]
          cases p.inv.vis_cases x hx with
          | inl h =>
            rw [hst2] at h
            cases h with
            | head => exact Or.inr (List.mem_append_right _ (List.mem_cons_self ..))
            | tail _ h' => exact Or.inl h'
          | inr h => exact Or.inr (List.mem_append_left _ h)
        · intro x hx
          rw [hfin] at hx
          rw [hfil]
          cases List.mem_append.1 hx with
          | inl h =>
            have ⟨h1, h2⟩ := p.inv.res_vis x h
            exact ⟨h1, fun hs => h2 (by rw [hst2]; exact List.mem_cons_of_mem _ hs)⟩
          | inr h =>
            have : x = name := by simpa using h
            subst this
            exact ⟨hn2, hnstack⟩
        · rw [hfin, List.reverse_append]
          refine ⟨?_, ?_, p.inv.topo⟩
          · intro v hv
            exact List.mem_reverse.2 (p.done v hv)
          · intro h
            exact hnres (List.mem_reverse.1 h)

/-- the root loop of Sort: every listed node ends up in the results -/
theorem sortFromI_spec (f : Nat) :
    ∀ (order : List String) (st : SortSt), (∀ n ∈ order, n ∈ ks) → Inv nb ks st → st.stack = [] → ks.length < f →
      Outcome nb (sortFromI nb f order st)
        (fun st' => Inv nb ks st' ∧ st'.stack = [] ∧ (∀ x ∈ st.results, x ∈ st'.results) ∧ ∀ n ∈ order, n ∈ st'.results) := by
  intro order
  induction order with
  | nil =>
    intro st _ hinv hs _
    simp only [sortFromI, Outcome]
    exact ⟨hinv, hs, fun _ h => h, (fun _ h => by cases h)⟩
  | cons n rest ih =>
    intro st hord hinv hs hf
    have hord' : ∀ x ∈ rest, x ∈ ks := fun x hx => hord x (List.mem_cons_of_mem _ hx)
    unfold sortFromI
    by_cases hv : n ∈ st.visited
    · have hvb : st.visited.contains n = true := List.contains_iff_mem.2 hv
      simp only [hvb, if_true]
      have hnres : n ∈ st.results := by
        cases hinv.vis_cases n hv with
        | inl h => rw [hs] at h; cases h
        | inr h => exact h
      refine Outcome.mono nb (ih st hord' hinv hs hf) ?_
      intro st' ⟨a, b, c, d⟩
      refine ⟨a, b, c, ?_⟩
      intro x hx
      cases hx with
      | head => exact c n hnres
      | tail _ h => exact d x h
    · have hvb : st.visited.contains n = false := not_contains hv
      simp only [hvb, Bool.false_eq_true, if_false]
      have hst : ({ st with stack := [] } : SortSt) = st := by cases st; simp_all
      rw [hst]
      have hunv : unv ks st.visited < f := by
        have : unv ks st.visited ≤ ks.length := by unfold unv; exact List.length_filter_le _ _
        omega
      have hr := visitI_spec nb ks hks hclosed f n st hv (hord n (List.mem_cons_self ..)) hinv
        (by rw [hs]; intro s h; cases h) hunv
      cases hrm : visitI nb f n st with
      | error e => rw [hrm] at hr; cases e <;> exact hr
      | ok st1 =>
      rw [hrm] at hr
      have p : Post nb ks n st st1 := hr
      refine Outcome.mono nb (ih st1 hord' p.inv (by rw [p.stack_eq, hs]) hf) ?_
      intro st' ⟨a, b, c, d⟩
      refine ⟨a, b, fun x hx => c x (p.res_mono x hx), ?_⟩
      intro x hx
      cases hx with
      | head => exact c n p.done
      | tail _ h => exact d x h


end SortIdeal


/-! ### the real search is the ideal one with "" filtered out of the results -/

/-- the list without the empty identifier -/
def noE (l : List String) : List String := l.filter (· ≠ "")

/-- the real state `st` next to the ideal state `sI` -/
structure Sim (st sI : SortSt) : Prop where
  vis : st.visited = sI.visited
  stk : st.stack = sI.stack
  res : st.results = noE sI.results

def SimR (r rI : Except SortErr SortSt) : Prop :=
  match r, rI with
  | .ok a, .ok b => Sim a b
  | .error e, .error e' => e = e'
  | _, _ => False

theorem simR_cases {r rI : Except SortErr SortSt} (h : SimR r rI) :
    (∃ e, r = .error e ∧ rI = .error e) ∨ (∃ a b, r = .ok a ∧ rI = .ok b ∧ Sim a b) := by
  cases r with
  | error e =>
    cases rI with
    | error e' => exact Or.inl ⟨e, rfl, by simp only [SimR] at h; rw [h]⟩
    | ok b => simp only [SimR] at h
  | ok a =>
    cases rI with
    | error e' => simp only [SimR] at h
    | ok b => exact Or.inr ⟨a, b, rfl, rfl, h⟩

theorem visitNbrs_sim {rec recI : String → SortSt → Except SortErr SortSt} {ex : String → Bool}
    (hrec : ∀ n st sI, Sim st sI → SimR (rec n st) (recI n sI)) :
    ∀ (ns : List String) (st sI : SortSt), Sim st sI →
      SimR (visitNbrs rec ex ns st) (visitNbrs recI ex ns sI) := by
  intro ns
  induction ns with
  | nil => intro st sI h; exact h
  | cons n ns ih =>
    intro st sI h
    unfold visitNbrs
    rw [h.vis, h.stk]
    by_cases c1 : sI.visited.contains n = true
    · simp only [c1, Bool.not_true, Bool.false_eq_true, if_false]
      by_cases c2 : sI.stack.contains n = true
      · simp only [c2, if_true, SimR]
      · simp only [c2]
        exact ih st sI h
    · simp only [c1, Bool.not_false, if_true]
      by_cases c3 : ex n = true
      · simp only [c3, Bool.not_true, Bool.false_eq_true, if_false]
        rcases simR_cases (hrec n st sI h) with ⟨e, h1, h2⟩ | ⟨a, b, h1, h2, hs⟩
        · rw [h1, h2]; simp only [SimR]
        · rw [h1, h2]; exact ih a b hs
      · simp only [c3, Bool.not_false, if_true, SimR]

theorem noE_append_name (l : List String) (name : String) :
    finish name (noE l) = noE (l ++ [name]) := by
  unfold finish noE
  rw [List.filter_append]
  by_cases hn : name = ""
  · subst hn; simp
  · simp [hn]

theorem visit_sim (nb : String → Option (List String)) :
    ∀ (f : Nat) (name : String) (st sI : SortSt), Sim st sI →
      SimR (visit nb f name st) (visitI nb f name sI) := by
  intro f
  induction f with
  | zero => intro name st sI _; simp only [visit, visitI, SimR]
  | succ f ih =>
    intro name st sI h
    unfold visit visitI
    have he : Sim (enter name st) (enter name sI) :=
      ⟨by simp only [enter, h.vis], by simp only [enter, h.stk], by simp only [enter, h.res]⟩
    rcases simR_cases (visitNbrs_sim (ex := fun n => (nb n).isSome) (fun n a b hab => ih n a b hab)
      ((nb name).getD []) (enter name st) (enter name sI) he) with ⟨e, h1, h2⟩ | ⟨a, b, h1, h2, hs⟩
    · rw [h1, h2]; simp only [SimR]
    · rw [h1, h2]
      show Sim (leave name a) (leaveI name b)
      refine ⟨hs.vis, ?_, ?_⟩
      · simp only [leave, leaveI, hs.stk]
      · simp only [leave, leaveI, hs.res]
        exact noE_append_name b.results name

theorem sortFrom_sim (nb : String → Option (List String)) (f : Nat) :
    ∀ (order : List String) (st sI : SortSt), Sim st sI →
      SimR (sortFrom nb f order st) (sortFromI nb f order sI) := by
  intro order
  induction order with
  | nil => intro st sI h; exact h
  | cons n rest ih =>
    intro st sI h
    unfold sortFrom sortFromI
    have hc : st.visited.contains n = sI.visited.contains n := by rw [h.vis]
    rw [hc]
    by_cases c1 : sI.visited.contains n = true
    · simp only [c1, ↓reduceIte]
      exact ih st sI h
    · simp only [c1, Bool.false_eq_true, ↓reduceIte]
      have h0 : Sim { st with stack := [] } { sI with stack := [] } := ⟨h.vis, rfl, h.res⟩
      rcases simR_cases (visit_sim nb f n _ _ h0) with ⟨e, h1, h2⟩ | ⟨a, b, h1, h2, hs⟩
      · rw [h1, h2]; simp only [SimR]
      · rw [h1, h2]; exact ih a b hs

/-! ### Sort on an arbitrary closed graph, the empty identifier included -/

/-- what `Sort` returns, for every iteration order of the node map `ks`:
an error is the cycle error naming a node on a cycle; a result exists only for an acyclic graph
and is a duplicate-free, dependencies-first list `full` of ALL nodes from which the empty
identifier was taken out, padded with "" (the slot the empty identifier never occupies). -/
theorem sortG_spec (nb : String → Option (List String)) (ks : List String)
    (hks : ∀ n, (nb n).isSome = true ↔ n ∈ ks) (hclosed : Closed nb) (hnodup : ks.Nodup)
    (order : List String) (hord : ∀ n, n ∈ order ↔ n ∈ ks) :
    match sortG nb ks.length order with
    | .error e => ∃ c, e = .cycle c ∧ Reach nb c c
    | .ok res => (¬ HasCycle nb) ∧ ∃ full : List String, full.Nodup ∧ (∀ n, n ∈ full ↔ n ∈ ks) ∧
        DepsFirst nb full ∧ res = noE full ++ List.replicate (full.length - (noE full).length) "" := by
  have inv0 : Inv nb ks ⟨[], [], []⟩ :=
    ⟨(fun _ h => by cases h), (fun _ h => by cases h), (fun _ h => by cases h), trivial, (fun _ h => by cases h)⟩
  have specI := sortFromI_spec nb ks hks hclosed (ks.length + 1) order ⟨[], [], []⟩
    (fun n hn => (hord n).1 hn) inv0 rfl (by omega)
  have sim := sortFrom_sim nb (ks.length + 1) order ⟨[], [], []⟩ ⟨[], [], []⟩ ⟨rfl, rfl, rfl⟩
  unfold sortG
  rcases simR_cases sim with ⟨e, h1, h2⟩ | ⟨a, b, h1, h2, hs⟩
  · rw [h1]
    rw [h2] at specI
    cases e with
    | missing _ => exact specI.elim
    | fuel => exact specI.elim
    | cycle c => exact ⟨c, rfl, specI⟩
  · rw [h1]
    rw [h2] at specI
    obtain ⟨inv, _, _, hall⟩ : Inv nb ks b ∧ b.stack = [] ∧ _ ∧ ∀ n ∈ order, n ∈ b.results := specI
    have hsub : ∀ x ∈ b.results, x ∈ ks := fun x hx => inv.vis_keys x (inv.res_vis x hx).1
    have hsup : ∀ x ∈ ks, x ∈ b.results := fun x hx => hall x ((hord x).2 hx)
    have hnd : b.results.Nodup := nodup_of_reverse (TopoRev.nodup _ inv.topo)
    have hperm : b.results.Perm ks :=
      (List.perm_ext_iff_of_nodup hnd hnodup).2 (fun x => ⟨hsub x, hsup x⟩)
    refine ⟨?_, b.results, hnd, fun n => ⟨hsub n, hsup n⟩, TopoRev.depsFirst _ inv.topo, ?_⟩
    · rintro ⟨c, hc⟩
      have hcs : (nb c).isSome = true := by
        cases hc with
        | edge e => exact e.isSome
        | step e _ => exact e.isSome
      have hcr : c ∈ b.results.reverse := List.mem_reverse.2 (hsup c ((hks c).1 hcs))
      exact absurd hc (TopoRev.acyclic _ inv.topo c hcr)
    · show a.results ++ List.replicate (ks.length - a.results.length) "" = _
      rw [hs.res, hperm.length_eq]

/-- without the empty identifier among the nodes nothing is filtered and nothing is padded -/
theorem noE_eq_self {l : List String} (h : "" ∉ l) : noE l = l := by
  unfold noE
  rw [List.filter_eq_self]
  intro x hx
  simp only [ne_eq, decide_not, Bool.not_eq_eq_eq_not, Bool.not_true, decide_eq_false_iff_not]
  intro e
  exact h (e ▸ hx)

end Xp.C17

import Xp.Proofs.C20Chain
/-
C20 helper lemmas, part 8: CoreCRDs and WebhookConfigurations – what a completed
run establishes (every declared object is a fixpoint of its own patch and carries
the bundle) and that such a state is a fixpoint of the step.
-/
namespace Xp.C20
open Xp

variable {α β : Type}

theorem map_eq_self {γ : Type} (l : List γ) (f : γ → γ) (h : ∀ x ∈ l, f x = x) : l.map f = l := by
  induction l with
  | nil => rfl
  | cons x xs ih =>
    simp only [List.map_cons]
    rw [h x (by simp), ih (fun y hy => h y (by simp [hy]))]

theorem find_none_name {l : List Crd} {n : String} (h : l.find? (fun c => decide (c.name = n)) = none) :
    ∀ c ∈ l, c.name ≠ n := by
  intro c hc e
  have := List.find?_eq_none.mp h c hc
  simp [e] at this

/-! ### the bundle -/

/-- `cb` is what the step injects: tls.crt of the referenced secret (non-empty), or nothing without a reference -/
def BundleIs (ref : Option String) (cb : Blob) (s : Store) : Prop :=
  match ref with
  | none => cb = .empty
  | some r => ∃ sec, findSecret s r = some sec ∧ sec.crt = cb ∧ cb ≠ .empty

theorem getBundle_eval (ref : String) (s : Store) :
    evalOk (getBundle ref) s = (s, match findSecret s ref with
      | some sec => if sec.crt = .empty then none else some sec.crt
      | none => none) := by
  unfold getBundle
  simp only [evalOk_call, exec_getSecret]
  cases findSecret s ref with
  | none => rfl
  | some sec => simp only; split <;> rfl

theorem getBundle_states (ref : String) (s : Store) : ∀ x ∈ statesOk (getBundle ref) s, x = s := by
  unfold getBundle
  intro x hx
  simp only [statesOk, exec_getSecret] at hx
  cases hf : findSecret s ref with
  | none => simp [hf, statesOk] at hx; exact hx
  | some sec =>
    simp only [hf] at hx
    split at hx <;> simp [statesOk] at hx <;> exact hx

/-! ### CRDs -/

/-- every stored CRD named like the file is a fixpoint of the file's patch (and one exists) -/
def CrdFix (f : CrdFile) (cb : Blob) (s : Store) : Prop :=
  (∃ c, findCrd s f.name = some c) ∧ ∀ c ∈ s.crds, c.name = f.name → patchCrdWith f cb c = c

def CrdsDone (ref : Option String) (d : Dir) (s : Store) : Prop :=
  ∃ cb, BundleIs ref cb s ∧ d.parseErr = false ∧
    ∀ o ∈ d.objs, ∃ f, o = .crd f ∧ ¬ (f.conv = true ∧ cb = .empty) ∧ CrdFix f cb s

theorem patchCrdWith_idem (f : CrdFile) (cb : Blob) (c : Crd) :
    patchCrdWith f cb (patchCrdWith f cb c) = patchCrdWith f cb c := by
  simp only [patchCrdWith]
  cases c.conv <;> cases f.conv <;> simp

theorem patchCrdWith_new (f : CrdFile) (cb : Blob) : patchCrdWith f cb (newCrd f cb) = newCrd f cb := by
  simp only [patchCrdWith, newCrd]
  cases f.conv <;> simp

@[simp] theorem patchCrdWith_name (f : CrdFile) (cb : Blob) (c : Crd) : (patchCrdWith f cb c).name = c.name := rfl

theorem applyCrd_fix (f : CrdFile) (cb : Blob) (s : Store) (h : CrdFix f cb s) :
    evalOk (applyCrd f cb) s = (s, .ok) ∧ ∀ x ∈ statesOk (applyCrd f cb) s, x = s := by
  obtain ⟨⟨c, hc⟩, hall⟩ := h
  have hmap : (s.crds.map fun c => if c.name = f.name then patchCrdWith f cb c else c) = s.crds :=
    map_eq_self _ _ (fun x hx => by by_cases e : x.name = f.name <;> simp [e, hall x hx])
  have hex : exec s (.patchCrd f cb) = (s, .ok) := by
    simp only [exec, hc, hmap]
  have hget : exec s (.getCrd f.name) = (s, .crd c) := by simp [exec, hc]
  constructor
  · simp [applyCrd, hget, hex, okOr]
  · intro x hx
    simp [applyCrd, statesOk, hget, hex, okOr] at hx
    exact hx

/-- what one apply does: the file's CRD becomes a fixpoint, other names and everything but the CRDs are untouched -/
theorem applyCrd_eval (f : CrdFile) (cb : Blob) (s : Store) :
    (evalOk (applyCrd f cb) s).2 = .ok ∧ CrdFix f cb (evalOk (applyCrd f cb) s).1 ∧
    (∀ f' cb', f'.name ≠ f.name → CrdFix f' cb' s → CrdFix f' cb' (evalOk (applyCrd f cb) s).1) ∧
    (evalOk (applyCrd f cb) s).1.secrets = s.secrets := by
  unfold applyCrd
  cases hf : findCrd s f.name with
  | none =>
    have hget : exec s (.getCrd f.name) = (s, .err .notFound) := by simp [exec, hf]
    have hcr : exec s (.createCrd (newCrd f cb)) = ({ s with crds := s.crds ++ [newCrd f cb] }, .ok) := by
      simp [exec, newCrd, hf]
    simp only [evalOk_call, hget, hcr, okOr, evalOk_ret]
    refine ⟨by first | rfl | trivial, ⟨⟨newCrd f cb, ?_⟩, ?_⟩, ?_, by first | rfl | trivial⟩
    · simp only [findCrd] at hf ⊢
      simp [List.find?_append, hf, newCrd]
    · intro c hc hn
      simp only [List.mem_append, List.mem_singleton] at hc
      rcases hc with hc | hc
      · exact absurd hn (find_none_name hf c hc)
      · subst hc; exact patchCrdWith_new f cb
    · intro f' cb' hne ⟨⟨c, hc⟩, hall⟩
      refine ⟨⟨c, ?_⟩, ?_⟩
      · simp only [findCrd] at hc ⊢
        simp [List.find?_append, hc]
      · intro c' hc' hn'
        simp only [List.mem_append, List.mem_singleton] at hc'
        rcases hc' with hc' | hc'
        · exact hall c' hc' hn'
        · subst hc'; exact absurd hn'.symm hne
  | some c =>
    have hget : exec s (.getCrd f.name) = (s, .crd c) := by simp [exec, hf]
    have hp : exec s (.patchCrd f cb) =
        ({ s with crds := s.crds.map fun c => if c.name = f.name then patchCrdWith f cb c else c }, .ok) := by
      simp [exec, hf]
    simp only [evalOk_call, hget, hp, okOr, evalOk_ret]
    refine ⟨by first | rfl | trivial, ⟨⟨patchCrdWith f cb c, ?_⟩, ?_⟩, ?_, by first | rfl | trivial⟩
    · simp only [findCrd] at hf ⊢
      rw [find_map_some _ _ _ ?_ _ hf]
      · have : c.name = f.name := by simpa using List.find?_some hf
        simp [this]
      · intro x; by_cases e : x.name = f.name <;> simp [e]
    · intro c' hc' hn
      simp only [List.mem_map] at hc'
      obtain ⟨c0, _, e⟩ := hc'
      by_cases h0 : c0.name = f.name
      · simp [h0] at e; subst e; exact patchCrdWith_idem f cb c0
      · simp [h0] at e; subst e; exact absurd hn h0
    · intro f' cb' hne ⟨⟨c1, hc1⟩, hall⟩
      refine ⟨⟨c1, ?_⟩, ?_⟩
      · simp only [findCrd] at hc1 ⊢
        rw [find_map_some _ _ _ ?_ _ hc1]
        · have : c1.name = f'.name := by simpa using List.find?_some hc1
          have : ¬ c1.name = f.name := fun e => hne (this ▸ e)
          simp [this]
        · intro x; by_cases e : x.name = f.name <;> simp [e]
      · intro c' hc' hn'
        simp only [List.mem_map] at hc'
        obtain ⟨c0, hc0, e⟩ := hc'
        by_cases h0 : c0.name = f.name
        · simp [h0] at e; subst e
          simp at hn'; exact absurd (hn'.symm.trans h0) hne
        · simp [h0] at e; subst e; exact hall c0 hc0 hn'

/-- the loop body of CoreCRDs.Run -/
def crdBodyFn (cb : Blob) : FileObj → P Res := fun o => match o with
  | .crd f => if f.conv && cb = .empty then .ret (.err "crds: conversion without TLS") else applyCrd f cb
  | _ => .ret (.err "crds: not a CRD")

def objNames : List FileObj → List String
  | [] => []
  | .crd f :: rest => f.name :: objNames rest
  | _ :: rest => objNames rest

theorem crdLoop_establishes (cb : Blob) (objs : List FileObj) (hnd : (objNames objs).Nodup) (s t : Store)
    (h : evalOk (forEach (crdBodyFn cb) objs) s = (t, .ok)) :
    (∀ o ∈ objs, ∃ f, o = .crd f ∧ ¬ (f.conv = true ∧ cb = .empty) ∧ CrdFix f cb t) ∧
    (∀ f' cb', f'.name ∉ objNames objs → CrdFix f' cb' s → CrdFix f' cb' t) ∧ t.secrets = s.secrets := by
  induction objs generalizing s with
  | nil =>
    simp [forEach] at h
    subst h
    exact ⟨fun _ h => (by cases h), fun _ _ _ h => h, rfl⟩
  | cons o rest ih =>
    unfold forEach at h
    rw [evalOk_bind] at h
    cases o with
    | crd f =>
      simp only [crdBodyFn] at h
      by_cases hg : (f.conv && decide (cb = .empty)) = true
      · simp [hg] at h
      · simp only [hg, if_false, Bool.false_eq_true] at h
        obtain ⟨e1, e2, e3, e4⟩ := applyCrd_eval f cb s
        rw [e1] at h
        simp only at h
        simp only [objNames, List.nodup_cons] at hnd
        obtain ⟨h1, h2, h3⟩ := ih hnd.2 _ h
        refine ⟨?_, ?_, h3.trans e4⟩
        · intro o ho
          rcases List.mem_cons.mp ho with e | e
          · subst e
            refine ⟨f, rfl, ?_, h2 f cb hnd.1 e2⟩
            rintro ⟨a, b⟩; simp [a, b] at hg
          · exact h1 o e
        · intro f' cb' hn hf
          simp only [objNames, List.mem_cons, not_or] at hn
          exact h2 f' cb' hn.2 (e3 f' cb' hn.1 hf)
    | whc f => simp [crdBodyFn] at h
    | other => simp [crdBodyFn] at h

theorem crdLoop_fix (cb : Blob) (objs : List FileObj) (s : Store)
    (h : ∀ o ∈ objs, ∃ f, o = .crd f ∧ ¬ (f.conv = true ∧ cb = .empty) ∧ CrdFix f cb s) :
    evalOk (forEach (crdBodyFn cb) objs) s = (s, .ok) ∧ ∀ x ∈ statesOk (forEach (crdBodyFn cb) objs) s, x = s := by
  induction objs with
  | nil => simp [forEach, statesOk]
  | cons o rest ih =>
    obtain ⟨f, e, hg, hfix⟩ := h o (by simp)
    subst e
    have hb : crdBodyFn cb (.crd f) = applyCrd f cb := by
      simp only [crdBodyFn]
      have : (f.conv && decide (cb = .empty)) = false := by
        cases hc : f.conv <;> simp
        intro e; exact hg ⟨hc, e⟩
      simp [this]
    obtain ⟨a1, a2⟩ := applyCrd_fix f cb s hfix
    obtain ⟨i1, i2⟩ := ih (fun o ho => h o (by simp [ho]))
    unfold forEach
    constructor
    · rw [evalOk_bind, hb, a1]; exact i1
    · intro x hx
      rw [statesOk_bind, hb] at hx
      rcases hx with hx | hx
      · exact a2 x hx
      · rw [a1] at hx; exact i2 x hx

theorem crdsBody_eq (d : Dir) (cb : Blob) :
    crdsBody d cb = if d.parseErr then .ret (.err "crds: parse") else forEach (crdBodyFn cb) d.objs := rfl

theorem crds_fix (ref : Option String) (d : Dir) (s : Store) (h : CrdsDone ref d s) :
    evalOk (crdsStep ref d) s = (s, .ok) ∧ ∀ x ∈ statesOk (crdsStep ref d) s, x = s := by
  obtain ⟨cb, hb, hp, hobjs⟩ := h
  obtain ⟨l1, l2⟩ := crdLoop_fix cb d.objs s hobjs
  unfold crdsStep
  cases ref with
  | none =>
    simp only [BundleIs] at hb
    subst hb
    simp only [crdsBody_eq, hp, Bool.false_eq_true, if_false]
    exact ⟨l1, l2⟩
  | some r =>
    obtain ⟨sec, hs, hc, hne⟩ := hb
    have hgb : evalOk (getBundle r) s = (s, some cb) := by
      rw [getBundle_eval, hs]; simp [hc, hne]
    constructor
    · rw [evalOk_bind, hgb]
      simp only [crdsBody_eq, hp, Bool.false_eq_true, if_false]
      exact l1
    · intro x hx
      rw [statesOk_bind] at hx
      rcases hx with hx | hx
      · exact getBundle_states r s x hx
      · rw [hgb] at hx
        simp only [crdsBody_eq, hp, Bool.false_eq_true, if_false] at hx
        exact l2 x hx

theorem crds_establishes (ref : Option String) (d : Dir) (hnd : (objNames d.objs).Nodup) (s t : Store)
    (h : evalOk (crdsStep ref d) s = (t, .ok)) : CrdsDone ref d t ∧ t.secrets = s.secrets := by
  unfold crdsStep at h
  cases ref with
  | none =>
    simp only [crdsBody_eq] at h
    split at h
    · simp at h
    · rename_i hp
      obtain ⟨h1, _, h3⟩ := crdLoop_establishes .empty d.objs hnd s t h
      exact ⟨⟨.empty, rfl, by simpa using hp, h1⟩, h3⟩
  | some r =>
    rw [evalOk_bind, getBundle_eval] at h
    simp only at h
    cases hf : findSecret s r with
    | none => simp [hf] at h
    | some sec =>
      simp only [hf] at h
      by_cases hne : sec.crt = .empty
      · simp [hne] at h
      · simp only [hne, if_false] at h
        simp only [crdsBody_eq] at h
        split at h
        · simp at h
        · rename_i hp
          obtain ⟨h1, _, h3⟩ := crdLoop_establishes sec.crt d.objs hnd s t h
          refine ⟨⟨sec.crt, ⟨sec, ?_, rfl, hne⟩, by simpa using hp, h1⟩, h3⟩
          simp only [findSecret] at hf ⊢
          rw [h3]; exact hf

end Xp.C20

import Xp.Proofs.C20Inv
/-
C20 helper lemmas, part 5: the package installer never installs an already
installed source a second time.
-/
namespace Xp.C20
open Xp

variable {α β : Type}

/-! ### sorting keeps membership -/

theorem mem_insertBy {γ : Type} (le : γ → γ → Bool) (x y : γ) (l : List γ) :
    y ∈ insertBy le x l ↔ y = x ∨ y ∈ l := by
  induction l with
  | nil => simp [insertBy]
  | cons z zs ih =>
    unfold insertBy
    split
    · simp
    · simp only [List.mem_cons, ih]
      constructor
      · rintro (h | h | h)
        · exact Or.inr (Or.inl h)
        · exact Or.inl h
        · exact Or.inr (Or.inr h)
      · rintro (h | h | h)
        · exact Or.inr (Or.inl h)
        · exact Or.inl h
        · exact Or.inr (Or.inr h)

theorem mem_sortBy {γ : Type} (le : γ → γ → Bool) (y : γ) (l : List γ) : y ∈ sortBy le l ↔ y ∈ l := by
  induction l with
  | nil => simp [sortBy]
  | cons z zs ih => simp [sortBy, mem_insertBy, ih]

/-- what List returns for a package kind -/
def listing (s : Store) (k : PKind) : List Pkg :=
  sortBy (fun a b => strLe a.name b.name) (s.pkgs.filter (·.kind = k))

theorem mem_listing (s : Store) (k : PKind) (q : Pkg) : q ∈ listing s k ↔ q ∈ s.pkgs ∧ q.kind = k := by
  simp [listing, mem_sortBy]

theorem exec_listPkgs (s : Store) (k : PKind) : exec s (.listPkgs k) = (s, .pkgs (listing s k)) := rfl

/-! ### the index -/

def HasSrc (q : Pkg) (src : String) : Prop := ∃ r, q.ref = some r ∧ r.src = src

theorem lookup_sound (pl : List Pkg) (src nm : String) (h : lookupIndex (buildIndex pl) src = some nm) :
    ∃ q ∈ pl, q.name = nm ∧ HasSrc q src := by
  induction pl with
  | nil => simp [buildIndex, lookupIndex] at h
  | cons p ps ih =>
    unfold buildIndex at h
    split at h
    · rename_i r hr
      simp only [lookupIndex, List.find?_append] at h ih
      cases hf : (buildIndex ps).find? (fun x => decide (x.1 = src)) with
      | some v =>
        simp [hf] at h
        obtain ⟨q, hq, hn, hs⟩ := ih (by simp [hf, h])
        exact ⟨q, List.mem_cons_of_mem _ hq, hn, hs⟩
      | none =>
        simp [hf] at h
        obtain ⟨h1, h2⟩ := h
        exact ⟨p, List.mem_cons_self, h2, r, hr, h1⟩
    · obtain ⟨q, hq, hn, hs⟩ := ih h
      exact ⟨q, List.mem_cons_of_mem _ hq, hn, hs⟩

theorem lookup_complete (pl : List Pkg) (src : String) (h : ∃ q ∈ pl, HasSrc q src) :
    ∃ nm, lookupIndex (buildIndex pl) src = some nm := by
  induction pl with
  | nil => obtain ⟨q, hq, _⟩ := h; cases hq
  | cons p ps ih =>
    obtain ⟨q, hq, r, hr, hs⟩ := h
    unfold buildIndex
    rcases List.mem_cons.mp hq with e | e
    · subst e
      simp only [hr, lookupIndex, List.find?_append]
      cases hf : (buildIndex ps).find? (fun x => decide (x.1 = src)) with
      | some v => exact ⟨v.2, by simp⟩
      | none => exact ⟨q.name, by simp [hs]⟩
    · obtain ⟨nm, hnm⟩ := ih ⟨q, e, r, hr, hs⟩
      split
      · simp only [lookupIndex, List.find?_append] at hnm ⊢
        cases hf : (buildIndex ps).find? (fun x => decide (x.1 = src)) with
        | some v => exact ⟨v.2, by simp⟩
        | none => simp [hf] at hnm
      · exact ⟨nm, hnm⟩

/-- the repaired lookup: an image whose source is installed resolves to the name of an installed
package with that source -/
theorem resolve_hits (pl : List Pkg) (r : Ref) (h : ∃ q ∈ pl, HasSrc q r.src) :
    ∃ q ∈ pl, HasSrc q r.src ∧ resolve (buildIndex pl) r = q.name := by
  obtain ⟨nm, hnm⟩ := lookup_complete pl r.src h
  obtain ⟨q, hq, hn, hs⟩ := lookup_sound pl r.src nm hnm
  exact ⟨q, hq, hs, by simp [resolve, hnm, hn]⟩

theorem buildAll_mem (res : List (String × String) → Ref → String) (m : List (String × String)) (imgs : List Img)
    (l : List (String × Ref)) (h : buildAll res m imgs = some l) : ∀ nr ∈ l, nr.1 = res m nr.2 := by
  induction imgs generalizing l with
  | nil => simp [buildAll] at h; subst h; intro nr hnr; cases hnr
  | cons i is ih =>
    unfold buildAll at h
    split at h
    · cases h
    · rename_i r hr
      cases hb : buildAll res m is with
      | none => simp [hb] at h
      | some l' =>
        simp [hb] at h; subst h
        intro nr hnr
        rcases List.mem_cons.mp hnr with e | e
        · subst e; rfl
        · exact ih l' hb nr e

/-! ### the invariant -/

def InstalledSrc (s : Store) (k : PKind) (src : String) : Prop := ∃ q ∈ s.pkgs, q.kind = k ∧ HasSrc q src

/-- no package whose source was installed in `s₀` exists in `s` under a name that `s₀` did not have -/
def NoSecond (s₀ s : Store) : Prop :=
  ∀ q ∈ s.pkgs, ∀ r, q.ref = some r → InstalledSrc s₀ q.kind r.src → ∃ q0 ∈ s₀.pkgs, q0.kind = q.kind ∧ q0.name = q.name

theorem noSecond_refl (s : Store) : NoSecond s s := fun q hq _ _ _ => ⟨q, hq, rfl, rfl⟩

theorem noSecond_of_pkgs {s₀ s s' : Store} (h : NoSecond s₀ s) (e : s'.pkgs = s.pkgs) : NoSecond s₀ s' := by
  intro q hq; rw [e] at hq; exact h q hq

theorem noSecond_of_pkgs₀ {s₀ s₀' s : Store} (h : NoSecond s₀ s) (e : s₀'.pkgs = s₀.pkgs) : NoSecond s₀' s := by
  intro q hq r hr hi
  have : InstalledSrc s₀ q.kind r.src := by
    obtain ⟨q0, h0, hk, hs⟩ := hi; exact ⟨q0, e ▸ h0, hk, hs⟩
  obtain ⟨q0, h0, hk, hn⟩ := h q hq r hr this
  exact ⟨q0, e ▸ h0, hk, hn⟩

/-- the requests of the installer body, given what the three lists returned -/
def PkgReq (L : PKind → List Pkg) : Req → Prop
  | .createPkg p => ∃ r, p.ref = some r ∧ p.name = resolve (buildIndex (L p.kind)) r
  | .patchPkg k n r => n = resolve (buildIndex (L k)) r
  | r => r.comp = none

theorem resolved_name_installed (s₀ : Store) (k : PKind) (r : Ref) (h : InstalledSrc s₀ k r.src) :
    ∃ q0 ∈ s₀.pkgs, q0.kind = k ∧ q0.name = resolve (buildIndex (listing s₀ k)) r := by
  obtain ⟨q, hq, hk, hs⟩ := h
  obtain ⟨q0, h0, _, hn⟩ := resolve_hits (listing s₀ k) r ⟨q, (mem_listing _ _ _).mpr ⟨hq, hk⟩, hs⟩
  obtain ⟨h0', hk0⟩ := (mem_listing _ _ _).mp h0
  exact ⟨q0, h0', hk0, hn.symm⟩

theorem exec_noSecond {s₀ s : Store} {r : Req} (h : NoSecond s₀ s) (hq : PkgReq (listing s₀) r) :
    NoSecond s₀ (exec s r).1 := by
  by_cases hc : r.comp = some .pkgs
  · cases r <;> simp [Req.comp] at hc
    case createPkg p =>
      obtain ⟨r, hr, hn⟩ := hq
      simp only [exec]
      split
      · exact h
      · intro q hqm r' hr' hi
        simp only [List.mem_append, List.mem_singleton] at hqm
        rcases hqm with hqm | hqm
        · exact h q hqm r' hr' hi
        · subst hqm
          rw [hr] at hr'; cases hr'
          obtain ⟨q0, h0, hk, hn0⟩ := resolved_name_installed s₀ q.kind r hi
          exact ⟨q0, h0, hk, hn0.trans hn.symm⟩
    case patchPkg k n r =>
      simp only [PkgReq] at hq
      simp only [exec]
      split
      · exact h
      · intro q hqm r' hr' hi
        simp only [List.mem_map] at hqm
        obtain ⟨q1, hq1, he⟩ := hqm
        by_cases hm : q1.kind = k ∧ q1.name = n
        · simp [hm] at he
          subst he
          simp at hr'; subst hr'
          simp only at hi ⊢
          obtain ⟨q0, h0, hk, hn0⟩ := resolved_name_installed s₀ k r hi
          exact ⟨q0, h0, hk, hn0.trans hq.symm⟩
        · simp [hm] at he
          subst he
          exact h q1 hq1 r' hr' hi
  · exact noSecond_of_pkgs h (frame_pkgs s r hc)

theorem issues_forEach_mem {Q : Req → Prop} {γ : Type} {body : γ → P Res} (l : List γ)
    (h : ∀ a ∈ l, Issues Q (body a)) : Issues Q (forEach body l) := by
  induction l with
  | nil => exact .ret _
  | cons x xs ih =>
    unfold forEach
    refine issues_bind (h x (by simp)) ?_
    intro r
    cases r with
    | ok => exact ih (fun a ha => h a (by simp [ha]))
    | err t => exact .ret _

theorem applyPkg_issues (L : PKind → List Pkg) (k : PKind) (nr : String × Ref) (h : nr.1 = resolve (buildIndex (L k)) nr.2) :
    Issues (PkgReq L) (applyPkg k nr) := by
  unfold applyPkg
  refine .call _ _ rfl ?_
  intro x
  split
  · refine .call _ _ ⟨nr.2, rfl, h⟩ ?_
    intro y; exact okOr_issues _ _ _
  · refine .call _ _ h ?_
    intro y; exact okOr_issues _ _ _
  · exact .ret _

theorem installBody_issues (L : PKind → List Pkg) (p c f : List Img) :
    Issues (PkgReq L) (installBody resolve p c f (L .provider) (L .configuration) (L .function)) := by
  unfold installBody
  split
  · exact .ret _
  · rename_i ps hps
    split
    · exact .ret _
    · rename_i cs hcs
      split
      · exact .ret _
      · rename_i fs hfs
        unfold installApply
        refine issues_bind (issues_forEach_mem ps fun a ha => applyPkg_issues L _ a (buildAll_mem _ _ _ _ hps a ha)) ?_
        intro r; split
        · refine issues_bind (issues_forEach_mem cs fun a ha => applyPkg_issues L _ a (buildAll_mem _ _ _ _ hcs a ha)) ?_
          intro r; split
          · exact issues_forEach_mem fs fun a ha => applyPkg_issues L _ a (buildAll_mem _ _ _ _ hfs a ha)
          · exact .ret _
        · exact .ret _

/-- a List call answers truthfully or with an error; either way the store is unchanged -/
theorem reach_listOf (Inv : Store → Prop) (plan : Plan) (kd : PKind) (cont : List Pkg → P Res) (k : Nat) (s : Store)
    (hs : Inv s) (hc : ∀ k', ∀ x ∈ reach sem plan k' (cont (listing s kd)) s, Inv x) :
    ∀ x ∈ reach sem plan k (listOf kd cont) s, Inv x := by
  intro x hx
  unfold listOf at hx
  cases hk : plan k with
  | ok =>
    rw [reach_ok plan k _ _ s hk, exec_listPkgs] at hx
    rcases List.mem_cons.mp hx with e | e
    · subst e; exact hs
    · exact hc _ x e
  | fail =>
    rw [reach_fail plan k _ _ s hk] at hx
    simp [reach] at hx; subst hx; exact hs
  | conflict =>
    rw [reach_conflict plan k _ _ s hk] at hx
    simp [reach] at hx; subst hx; exact hs
  | crashBefore =>
    rw [reach_crashBefore plan k _ _ s hk] at hx
    simp at hx; subst hx; exact hs
  | crashAfter =>
    rw [reach_crashAfter plan k _ _ s hk, exec_listPkgs] at hx
    simp at hx; subst hx; exact hs

theorem installStep_noSecond (plan : Plan) (k : Nat) (s : Store) (p c f : List Img) :
    ∀ x ∈ reach sem plan k (installStep p c f) s, NoSecond s x := by
  unfold installStep installWith
  refine reach_listOf _ plan _ _ k s (noSecond_refl s) fun k1 => ?_
  refine reach_listOf _ plan _ _ k1 s (noSecond_refl s) fun k2 => ?_
  refine reach_listOf _ plan _ _ k2 s (noSecond_refl s) fun k3 => ?_
  exact reach_inv sem (NoSecond s) (PkgReq (listing s)) (fun _ _ hi hq => exec_noSecond hi hq) plan k3 _
    (installBody_issues (listing s) p c f) s (noSecond_refl s)

end Xp.C20

import Xp.Model.C09World
/-
Helper lemmas for the C09 world model: association-list facts about the store of secrets and
case analyses of the per-call functions under faults.
-/
namespace Xp.C09

theorem wget_wset_self (w : World) (k : Key) (s : ASecret) : wget (wset w k s) k = some s := by
  induction w with
  | nil => simp [wset, wget]
  | cons p ps ih =>
    unfold wset
    split
    · simp [wget]
    · rename_i h
      simp only [wget, List.find?, h, decide_false] at ih ⊢
      exact ih

theorem wget_wset_ne (w : World) (k k' : Key) (s : ASecret) (h : k' ≠ k) :
    wget (wset w k s) k' = wget w k' := by
  induction w with
  | nil => simp [wset, wget, Ne.symm h]
  | cons p ps ih =>
    unfold wset
    split
    · rename_i hp
      have : ¬ p.1 = k' := fun e => h (e ▸ hp)
      simp [wget, List.find?, Ne.symm h, this]
    · simp only [wget, List.find?] at ih ⊢
      split
      · rfl
      · exact ih

/-- a write request either stores exactly the data it was asked to store, or nothing -/
theorem writeOut_write (f : Option Fault) (k : Nat) (d d' : Data) (h : (writeOut f k d).write = some d') : d' = d := by
  unfold writeOut at h
  split at h
  · simpa using h.symm
  · split at h
    · simpa using h.symm
    · simp at h

theorem writeOut_published (f : Option Fault) (k : Nat) (d : Data) (h : (writeOut f k d).published = true) :
    (writeOut f k d).write = some d ∧ (writeOut f k d).err = false ∧ faultAt f k = none := by
  unfold writeOut at h ⊢
  cases hf : faultAt f k with
  | none => simp
  | some x =>
    rw [hf] at h
    by_cases hl : x.lost = true <;> simp [hl] at h

theorem writeOut_writes (f : Option Fault) (k : Nat) (d : Data) : (writeOut f k d).writes = 1 := by
  unfold writeOut
  split
  · rfl
  · split <;> rfl

theorem dstView_controllable (me : String) (s : ASecret) :
    controllable (dstView me s) .owner = mayControl me s := by
  cases s with
  | mk type ctrl plain data =>
    cases ctrl with
    | none => simp [dstView, controllable, mayControl]
    | some u =>
      by_cases h : u = me
      · simp [dstView, controllable, mayControl, h]
      · simp [dstView, controllable, mayControl, h]

theorem srcView_xr (xr : String) (s : ASecret) : (srcView xr s).ctrl = .xr ↔ s.ctrl = some xr := by
  cases s with
  | mk type ctrl plain data =>
    cases ctrl with
    | none =>
      simp only [srcView]
      split <;> simp
    | some u =>
      by_cases h : u = xr
      · simp [srcView, h]
      · simp [srcView, h]

theorem dstView_data (me : String) (s : ASecret) : (dstView me s).data = s.data := rfl
theorem srcView_data (xr : String) (s : ASecret) : (srcView xr s).data = s.data := rfl

/-- every way `publishA` stores something: a Create of the filtered details where no secret is
(seen or) stored, or a merge of them into a secret the writer may control -/
theorem publishA_write_cases (f : Option Fault) (wants : Bool) (filter : List String) (details : Data) (slot : Slot)
    (d' : Data) (h : (publishA f wants filter details slot).write = some d') :
    wants = true ∧
    ((slot = none ∧ d' = desiredData filter details) ∨
     (∃ s, slot = some s ∧ controllable s .owner = true ∧ needsUpdate s.data (desiredData filter details) = true ∧
        faultAt f 0 = none ∧ d' = mergeData s.data (desiredData filter details))) := by
  unfold publishA at h
  cases wants with
  | false => simp [Out.nop] at h
  | true =>
    refine ⟨rfl, ?_⟩
    simp only [Bool.not_true, Bool.false_eq_true, if_false] at h
    cases hf : faultAt f 0 with
    | some x =>
      rw [hf] at h
      simp only [] at h
      by_cases hc : x.cls = .notFound
      · simp only [hc, if_true] at h
        cases slot with
        | none => exact Or.inl ⟨rfl, writeOut_write _ _ _ _ h⟩
        | some s => simp [Out.fail] at h
      · simp [hc, Out.fail] at h
    | none =>
      rw [hf] at h
      simp only [] at h
      cases slot with
      | none => exact Or.inl ⟨rfl, writeOut_write _ _ _ _ h⟩
      | some s =>
        simp only [] at h
        by_cases hc : controllable s .owner = true
        · by_cases hu : needsUpdate s.data (desiredData filter details) = true
          · simp only [hc, hu, Bool.not_true, Bool.false_eq_true, if_false] at h
            exact Or.inr ⟨s, rfl, hc, hu, rfl, writeOut_write _ _ _ _ h⟩
          · simp [hc, hu, Out.nop] at h
        · simp [hc, Out.fail] at h

/-- a reported success means the data was stored and no error returned -/
theorem publishA_published (f : Option Fault) (wants : Bool) (filter : List String) (details : Data) (slot : Slot)
    (h : (publishA f wants filter details slot).published = true) :
    (∃ d, (publishA f wants filter details slot).write = some d) ∧ (publishA f wants filter details slot).err = false := by
  unfold publishA at h ⊢
  cases wants with
  | false => simp [Out.nop] at h
  | true =>
    simp only [Bool.not_true, Bool.false_eq_true, if_false] at h ⊢
    cases hf : faultAt f 0 with
    | some x =>
      rw [hf] at h
      simp only [] at h ⊢
      by_cases hc : x.cls = .notFound
      · simp only [hc, if_true] at h ⊢
        cases slot with
        | none =>
          simp only [] at h ⊢
          have := writeOut_published _ _ _ h
          exact ⟨⟨_, this.1⟩, this.2.1⟩
        | some s => simp [Out.fail] at h
      · simp [hc, Out.fail] at h
    | none =>
      rw [hf] at h
      simp only [] at h ⊢
      cases slot with
      | none =>
        simp only [] at h ⊢
        have := writeOut_published _ _ _ h
        exact ⟨⟨_, this.1⟩, this.2.1⟩
      | some s =>
        simp only [] at h ⊢
        by_cases hc : controllable s .owner = true
        · by_cases hu : needsUpdate s.data (desiredData filter details) = true
          · simp only [hc, hu, Bool.not_true, Bool.false_eq_true, if_false] at h ⊢
            have := writeOut_published _ _ _ h
            exact ⟨⟨_, this.1⟩, this.2.1⟩
          · simp [hc, hu, Out.nop] at h
        · simp [hc, Out.fail] at h

/-- every way `propagateA` stores something: the data of a source secret that was read without
error and found controlled by the bound XR, into an absent (or unseen) destination or one the
claim may control and that differs -/
theorem propagateA_write_cases (e : EnvW) (fw tw : Bool) (src dst : Slot) (d' : Data)
    (h : (propagateA e fw tw src dst).write = some d') :
    fw = true ∧ tw = true ∧ faultAt e.fault 0 = none ∧
    ∃ fs, src = some fs ∧ fs.ctrl = .xr ∧ d' = fs.data ∧
      (dst = none ∨ ∃ d, dst = some d ∧ controllable d .owner = true ∧ dataEq d.data fs.data = false ∧
          faultAt e.fault 1 = none ∧ e.swap = false) := by
  unfold propagateA at h
  by_cases hw : (!fw || !tw) = true
  · simp [hw, Out.nop] at h
  · have hfw : fw = true := by cases fw <;> simp_all
    have htw : tw = true := by cases tw <;> simp_all
    subst hfw; subst htw
    refine ⟨rfl, rfl, ?_⟩
    simp only [Bool.not_true, Bool.or_self, Bool.false_eq_true, if_false] at h
    cases hf0 : faultAt e.fault 0 with
    | some x => rw [hf0] at h; simp [Out.fail] at h
    | none =>
      refine ⟨rfl, ?_⟩
      rw [hf0] at h
      simp only [] at h
      cases src with
      | none => simp [Out.fail] at h
      | some fs =>
        simp only [] at h
        by_cases hx : fs.ctrl = .xr
        · simp only [hx, ne_eq, not_true_eq_false, if_false] at h
          cases hf1 : faultAt e.fault 1 with
          | some x =>
            rw [hf1] at h
            simp only [] at h
            by_cases hc : x.cls = .notFound
            · simp only [hc, if_true] at h
              cases dst with
              | none => exact ⟨fs, rfl, hx, writeOut_write _ _ _ _ h, Or.inl rfl⟩
              | some d => simp [Out.fail] at h
            · simp [hc, Out.fail] at h
          | none =>
            rw [hf1] at h
            simp only [] at h
            cases dst with
            | none => exact ⟨fs, rfl, hx, writeOut_write _ _ _ _ h, Or.inl rfl⟩
            | some d =>
              simp only [] at h
              by_cases hc : controllable d .owner = true
              · by_cases hd : dataEq d.data fs.data = true
                · simp [hc, hd, Out.nop] at h
                · by_cases hs : e.swap = true
                  · simp [hc, hd, hs, Out.fail] at h
                  · simp only [hc, hd, hs, Bool.not_true, Bool.false_eq_true, if_false] at h
                    refine ⟨fs, rfl, hx, writeOut_write _ _ _ _ h, Or.inr ⟨d, rfl, hc, ?_, rfl, ?_⟩⟩
                    · simpa using hd
                    · simpa using hs
              · simp [hc, Out.fail] at h
        · simp [hx, Out.fail] at h

theorem applyOut_get_ne (w : World) (k k' : Key) (me : String) (o : Out) (h : k' ≠ k) :
    wget (applyOut w k me o) k' = wget w k' := by
  unfold applyOut
  cases o.write with
  | none => rfl
  | some d => exact wget_wset_ne w k k' _ h

theorem applyOut_none (w : World) (k : Key) (me : String) (o : Out) (h : o.write = none) :
    applyOut w k me o = w := by
  simp [applyOut, h]

theorem applyOut_some (w : World) (k : Key) (me : String) (o : Out) (d : Data) (h : o.write = some d) :
    wget (applyOut w k me o) k = some (written me d) := by
  simp [applyOut, h, wget_wset_self]

theorem slotData_dstView (me : String) (o : Option ASecret) :
    (match o.map (dstView me) with | none => [] | some s => s.data) = ((o.map (·.data)).getD []) := by
  cases o <;> rfl

end Xp.C09

import Xp.Model.C15
/-
Helper lemmas for the C15 theorems (core Lean only).
-/
namespace Xp.C15

/-- What a revision's cache entry may be: its image's full stream, or a file that
cannot be read to EOF. -/
def EntryOK (r : Rev) (e : Entry) : Prop := e = .content r.docs ∨ ∃ h, e = .broken h

/-- The cache invariant: an entry that `Has` reports under the id a revision looks
up is the full package stream of that revision's image (or is unreadable). -/
def Inv (revs : List Rev) (c : Cache) : Prop :=
  ∀ r ∈ revs, ∀ e, c r.id = some e → EntryOK r e

/-- Revisions whose cache paths coincide carry the same image.  (`Store` writes
under the path of the revision's *name*.) -/
def Compat (revs : List Rev) : Prop :=
  ∀ r ∈ revs, ∀ r' ∈ revs, r'.never = false → r'.key = r.id → r'.docs = r.docs

theorem leftEntry_ok (r : Rev) (l : Left) (e : Entry) (h : leftEntry r l = some e) : EntryOK r e := by
  cases l <;> simp [leftEntry] at h <;> subst h
  · exact Or.inr ⟨_, rfl⟩
  · exact Or.inr ⟨_, rfl⟩
  · exact Or.inl rfl

/-- In the fixed code the file left under the revision's name by a pull is the full
stream or unreadable – for every fault plan (read fault at any byte, store fault at
any byte seen or not by the parser, failing delete). -/
theorem storedEntry_ok (r : Rev) (f : Faults) (e : Entry) (h : storedEntry true r f = some e) : EntryOK r e := by
  unfold storedEntry at h
  split at h
  · rename_i hs
    simp only [Bool.not_true, Bool.or_false, Bool.and_eq_true] at hs
    simp only [hs.2, if_true, Option.some.injEq] at h
    exact Or.inl h.symm
  · split at h
    · exact leftEntry_ok r _ _ h
    · cases h

/-- fixed code: the parser returns a package only for the whole stream -/
theorem pulled_some (r : Rev) (f : Faults) (p : Pkg) (h : pulled true r f = some p) : parse r.docs = some p := by
  unfold pulled at h
  split at h
  · cases h
  · split at h
    · simp at h
    · exact h

theorem set_self (c : Cache) (k : String) (x : Option Entry) : (c.set k x) k = x := by
  cases x <;> simp [Cache.set, Cache.put, Cache.erase]

theorem set_ne (c : Cache) (k k' : String) (x : Option Entry) (h : k' ≠ k) : (c.set k x) k' = c k' := by
  cases x <;> simp [Cache.set, Cache.put, Cache.erase, h]

/-- Effect of `fetch` (fixed code) on any cache path: unchanged, removed, or – only
for the path of the reconciled revision's name, and only when it pulls – an entry
that is OK for that revision. -/
theorem fetch_cache (r : Rev) (f : Faults) (c : Cache) (k : String) :
    (fetch true r f c).1 k = c k ∨ (fetch true r f c).1 k = none ∨
    (k = r.key ∧ r.never = false ∧ ∃ e, (fetch true r f c).1 k = some e ∧ EntryOK r e) := by
  unfold fetch
  split
  · -- entry present
    split
    · split
      · exact Or.inl rfl
      · by_cases hk : k = r.id
        · right; left; simp [Cache.erase, hk]
        · left; simp [Cache.erase, hk]
    · split <;> exact Or.inl rfl
  · -- no entry
    split
    · exact Or.inl rfl
    · rename_i hnever
      have hnv : r.never = false := by simpa using hnever
      split
      · exact Or.inl rfl
      · simp only []
        by_cases hk : k = r.key
        · subst hk
          rw [set_self]
          cases hse : storedEntry true r f with
          | none => exact Or.inr (Or.inl rfl)
          | some e => exact Or.inr (Or.inr ⟨rfl, hnv, e, rfl, storedEntry_ok r f e hse⟩)
        · left; exact set_ne _ _ _ _ hk

/-- `fetch` preserves the cache invariant, for every fault plan. -/
theorem fetch_inv (revs : List Rev) (hc : Compat revs) (r : Rev) (hr : r ∈ revs) (f : Faults) (c : Cache)
    (h : Inv revs c) : Inv revs (fetch true r f c).1 := by
  intro r' hr' e he
  rcases fetch_cache r f c r'.id with h1 | h1 | ⟨hk, hnv, e', he', hok⟩
  · rw [h1] at he; exact h r' hr' e he
  · rw [h1] at he; cases he
  · rw [he'] at he; cases he
    have hd := hc r' hr' r hr hnv hk.symm
    rcases hok with h2 | ⟨b, h2⟩
    · exact Or.inl (by rw [h2, hd])
    · exact Or.inr ⟨b, h2⟩

/-- Under the invariant, whatever `fetch` hands to the linter is the parse of the
revision's full image stream – from the cache or from the registry, under every
fault plan. -/
theorem fetch_parsed (r : Rev) (f : Faults) (c : Cache) (hinv : ∀ e, c r.id = some e → EntryOK r e)
    (p : Pkg) (h : (fetch true r f c).2 = .parsed (some p)) : parse r.docs = some p := by
  unfold fetch at h
  split at h
  · rename_i e he
    split at h
    · cases h
    · rcases hinv e he with h1 | ⟨b, h1⟩
      · subst h1; simpa using h
      · subst h1; simp at h
  · split at h
    · cases h
    · split at h
      · cases h
      · simp only [Fetch.parsed.injEq] at h
        exact pulled_some r f p h

/-! ### one reconcile -/

theorem updO_ok (f : Faults) (h : f.updO = .ok) : f.stale = false ∧ f.upd = .ok := by
  unfold Faults.updO at h
  cases hu : f.upd <;> cases hs : f.stale <;> simp [hu, hs] at h ⊢

theorem updO_stale (f : Faults) (hs : f.stale = true) : f.updO ≠ .ok := by
  intro h; have := (updO_ok f h).1; rw [hs] at this; cases this

theorem finO_stale (f : Faults) (hs : f.stale = true) : f.finO ≠ .ok := by
  unfold Faults.finO
  cases hf : f.fin <;> simp [hs]

theorem setHealth_verif (f : Faults) (st : RevSt) (h : Health) : (setHealth f st h).verif = st.verif := by
  unfold setHealth; split <;> rfl

theorem setHealth_stale (f : Faults) (st : RevSt) (h : Health) (hs : f.stale = true) : setHealth f st h = st := by
  simp [setHealth, Faults.statO, hs]

/-- what must hold for the gates to let a package through to `Establish` -/
theorem gates_est (r : Rev) (f : Faults) (st : RevSt) (p : Pkg) (objs : List Obj)
    (h : (gates r f st p).2.est = some objs) :
    objs = p.objs ∧ lintS r.ptype p = true ∧ (r.ignore = true ∨ compatible p = true) ∧ f.updO = .ok ∧
      (r.resolve = true → f.dep = .ok) := by
  unfold gates at h
  split at h
  · cases h
  · rename_i hl
    have hl' : lintS r.ptype p = true := by simpa using hl
    split at h
    · cases h
    · split at h
      · cases h
      · cases h
      · rename_i hu
        split at h
        · split at h <;> cases h
        · rename_i hcmp
          have hc' : r.ignore = true ∨ compatible p = true := by
            cases hi : r.ignore <;> cases hcp : compatible p <;> simp_all
          split at h
          · split at h <;> cases h
          · rename_i hdep
            have hd' : r.resolve = true → f.dep = .ok := by
              intro hr
              cases hdd : f.dep <;> simp [hr, hdd] at hdep ⊢
            split at h
            · split at h <;> (simp only [Option.some.injEq] at h; exact ⟨h.symm, hl', hc', hu, hd'⟩)
            · split at h <;> (simp only [Option.some.injEq] at h; exact ⟨h.symm, hl', hc', hu, hd'⟩)

theorem install_cache (fixed : Bool) (r : Rev) (f : Faults) (c : Cache) (st : RevSt) :
    (install fixed r f c st).1 = (fetch fixed r f c).1 := by
  unfold install
  split <;> rename_i heq <;> rw [heq]

theorem install_est (fixed : Bool) (r : Rev) (f : Faults) (c : Cache) (st : RevSt) (objs : List Obj)
    (h : (install fixed r f c st).2.2.est = some objs) :
    ∃ p, (fetch fixed r f c).2 = .parsed (some p) ∧ (gates r f st p).2.est = some objs := by
  unfold install at h
  split at h
  · cases h
  · cases h
  · rename_i c' p heq
    exact ⟨p, by rw [heq], h⟩

/-- Effect of a whole reconcile on the cache: nothing, the revision's own entry removed
(deletion), or what `fetch` does. -/
theorem recStep_cache_cases (fixed feature : Bool) (r : Rev) (f : Faults) (c : Cache) (st : RevSt) :
    (recStep fixed feature r f c st).1 = c ∨ (recStep fixed feature r f c st).1 = c.erase r.key ∨
    (recStep fixed feature r f c st).1 = (fetch fixed r f c).1 := by
  unfold recStep
  repeat' split
  all_goals first
    | exact Or.inl rfl
    | exact Or.inr (Or.inl rfl)
    | exact Or.inr (Or.inr (install_cache _ _ _ _ _))

/-- Effect of a whole reconcile (fixed code) on any cache path. -/
theorem recStep_cache (feature : Bool) (r : Rev) (f : Faults) (c : Cache) (st : RevSt) (k : String) :
    (recStep true feature r f c st).1 k = c k ∨ (recStep true feature r f c st).1 k = none ∨
    (k = r.key ∧ r.never = false ∧ ∃ e, (recStep true feature r f c st).1 k = some e ∧ EntryOK r e) := by
  rcases recStep_cache_cases true feature r f c st with h | h | h <;> rw [h]
  · exact Or.inl rfl
  · by_cases hk : k = r.key
    · right; left; simp [Cache.erase, hk]
    · left; simp [Cache.erase, hk]
  · exact fetch_cache r f c k

/-- What must have happened for `Establish` to be reached. -/
theorem recStep_est (feature : Bool) (r : Rev) (f : Faults) (c : Cache) (st : RevSt) (objs : List Obj)
    (h : (recStep true feature r f c st).2.2.est = some objs) :
    st.present = true ∧ st.deleting = false ∧ (feature = true → st.verif.isTrue = true) ∧
    ∃ p, (fetch true r f c).2 = .parsed (some p) ∧ objs = p.objs ∧ lintS r.ptype p = true ∧
      (r.ignore = true ∨ compatible p = true) ∧ f.upd = .ok ∧ f.stale = false ∧ f.getE = .ok ∧
      early f st = none ∧ (r.resolve = true → f.dep = .ok) := by
  unfold recStep at h
  split at h
  · cases h
  · rename_i hg
    split at h
    · cases h
    · rename_i hp
      split at h
      · split at h
        · cases h
        · split at h <;> cases h
      · rename_i hd
        split at h
        · split at h
          · split at h <;> cases h
          · cases h
        · rename_i hv
          split at h
          · cases h
          · cases h
          · cases h
          · split at h
            · cases h
            · rename_i hearly
              split at h
              · split at h <;> cases h
              · obtain ⟨p, hf, hg2⟩ := install_est _ _ _ _ _ _ h
                obtain ⟨ho, hl, hc, hu, hdep⟩ := gates_est _ _ _ _ _ hg2
                obtain ⟨hs, hu'⟩ := updO_ok f hu
                have hp' : st.present = true ∧ f.getE ≠ .miss := by
                  simp only [Bool.or_eq_true, Bool.not_eq_true', beq_iff_eq, not_or] at hp
                  exact ⟨by simpa using hp.1, hp.2⟩
                have hge : f.getE = .ok := by
                  have h2 : f.getE ≠ .err := by simpa using hg
                  cases hgg : f.getE <;> simp_all
                refine ⟨hp'.1, by simpa using hd, ?_, p, hf, ho, hl, hc, hu', hs, hge, hearly, hdep⟩
                intro hf'; subst hf'; simpa using hv

theorem envStep_verif (a d : Bool) (st : RevSt) : (envStep a d st).verif = st.verif := by
  unfold envStep
  cases st.present <;> cases d <;> cases st.finalizer <;> simp

theorem gates_verif (r : Rev) (f : Faults) (st : RevSt) (p : Pkg) : (gates r f st p).1.verif = st.verif := by
  unfold gates
  repeat' split
  all_goals first | rfl | exact setHealth_verif _ _ _

theorem install_verif (fixed : Bool) (r : Rev) (f : Faults) (c : Cache) (st : RevSt) :
    (install fixed r f c st).2.1.verif = st.verif := by
  unfold install
  split
  · split
    · exact setHealth_verif _ _ _
    · rfl
  · exact setHealth_verif _ _ _
  · exact gates_verif _ _ _ _

/-- the revision controller never writes the Verified condition -/
theorem recStep_verif (fixed feature : Bool) (r : Rev) (f : Faults) (c : Cache) (st : RevSt) :
    (recStep fixed feature r f c st).2.1.verif = st.verif := by
  unfold recStep
  repeat' split
  all_goals first | rfl | exact install_verif _ _ _ _ _ | exact setHealth_verif _ _ _

/-- a third party never sets Verified to True (only the signature controller does) -/
theorem applyEnv_verif (e : Env) (st : RevSt) (h : (applyEnv e st).verif.isTrue = true) : st.verif.isTrue = true := by
  cases e <;> simp [applyEnv, Verif.isTrue] at h ⊢ <;> exact h

/-! ### a stale read / a concurrent writer -/

theorem gates_stale (r : Rev) (f : Faults) (st : RevSt) (p : Pkg) (hs : f.stale = true) :
    (gates r f st p).1 = st ∧ (gates r f st p).2.est = none := by
  have hu := updO_stale f hs
  unfold gates
  split
  · exact ⟨setHealth_stale _ _ _ hs, rfl⟩
  · split
    · exact ⟨setHealth_stale _ _ _ hs, rfl⟩
    · split
      · exact ⟨rfl, rfl⟩
      · exact ⟨setHealth_stale _ _ _ hs, rfl⟩
      · rename_i h; exact absurd h hu

theorem install_stale (fixed : Bool) (r : Rev) (f : Faults) (c : Cache) (st : RevSt) (hs : f.stale = true) :
    (install fixed r f c st).2.1 = st ∧ (install fixed r f c st).2.2.est = none := by
  unfold install
  split
  · split
    · exact ⟨setHealth_stale _ _ _ hs, rfl⟩
    · exact ⟨rfl, rfl⟩
  · exact ⟨setHealth_stale _ _ _ hs, rfl⟩
  · exact gates_stale _ _ _ _ hs

/-- When the object the reconciler read is not the live one (a third party wrote in
between, or the informer cache lagged), none of its writes lands and `Establish` is not
reached: the revision state it returns is the one it read. -/
theorem recStep_stale (fixed feature : Bool) (r : Rev) (f : Faults) (c : Cache) (st : RevSt) (hs : f.stale = true) :
    (recStep fixed feature r f c st).2.1 = st ∧ (recStep fixed feature r f c st).2.2.est = none := by
  have hfin := finO_stale f hs
  have hst : f.statO = true := by simp [Faults.statO, hs]
  unfold recStep
  simp only [hst, if_true]
  split
  · exact ⟨rfl, rfl⟩
  · split
    · exact ⟨rfl, rfl⟩
    · split
      · split
        · exact ⟨rfl, rfl⟩
        · split
          · rename_i h; exact absurd h hfin
          · exact ⟨rfl, rfl⟩
          · exact ⟨rfl, rfl⟩
          · exact ⟨rfl, rfl⟩
      · split
        · split <;> exact ⟨rfl, rfl⟩
        · cases hf : st.finalizer
          · simp only [Bool.false_eq_true, if_false]
            split
            · exact ⟨rfl, rfl⟩
            · exact ⟨rfl, rfl⟩
            · exact ⟨rfl, rfl⟩
            · rename_i h; exact absurd h hfin
          · have hst' : ({ st with finalizer := true } : RevSt) = st := by cases st; simp_all
            simp only [if_true]
            split
            · refine ⟨?_, rfl⟩
              split
              · rw [hst']; exact setHealth_stale _ _ _ hs
              · exact hst'
            · split
              · exact ⟨hst', rfl⟩
              · rw [hst']; exact install_stale _ _ _ _ _ hs

/-! ### health and object references -/

theorem setHealth_healthy (f : Faults) (st : RevSt) (h : (setHealth f st .unhealthy).health = .healthy) :
    st.health = .healthy := by
  unfold setHealth at h
  split at h
  · exact h
  · cases h

theorem setHealth_healthy' (f : Faults) (st : RevSt) (x : Health) (hx : x ≠ .healthy)
    (h : (setHealth f st x).health = .healthy) : st.health = .healthy := by
  unfold setHealth at h
  split at h
  · exact h
  · exact absurd h hx

theorem setHealth_refs (f : Faults) (st : RevSt) (x : Health) : (setHealth f st x).refs = st.refs := by
  unfold setHealth; split <;> rfl

/-- the gates make a revision Healthy only by a successful Establish whose status update lands -/
theorem gates_health (r : Rev) (f : Faults) (st : RevSt) (p : Pkg)
    (h : (gates r f st p).1.health = .healthy) :
    st.health = .healthy ∨ ((gates r f st p).2.est = some p.objs ∧ f.est = false ∧ f.statO = false) := by
  generalize hres : gates r f st p = res at h ⊢
  unfold gates at hres
  split at hres
  · subst hres; exact Or.inl (setHealth_healthy _ _ h)
  · split at hres
    · subst hres; exact Or.inl (setHealth_healthy _ _ h)
    · split at hres
      · subst hres; exact Or.inl h
      · subst hres; exact Or.inl (setHealth_healthy _ _ h)
      · split at hres
        · split at hres
          · subst hres; exact Or.inl h
          · subst hres; cases h
        · split at hres
          · split at hres
            · subst hres; exact Or.inl h
            · subst hres; exact Or.inl (setHealth_healthy' _ _ _ (by decide) h)
          · split at hres
            · split at hres
              · subst hres; exact Or.inl h
              · subst hres; exact Or.inl (setHealth_healthy _ _ h)
            · rename_i hne
              split at hres
              · subst hres; exact Or.inl h
              · rename_i hns
                subst hres
                exact Or.inr ⟨rfl, by simpa using hne, by simpa using hns⟩

/-- the gates change the object references only together with making the revision Healthy -/
theorem gates_refs (r : Rev) (f : Faults) (st : RevSt) (p : Pkg) :
    (gates r f st p).1.refs = st.refs ∨ ((gates r f st p).2.est = some p.objs ∧ f.est = false ∧ f.statO = false) := by
  generalize hres : gates r f st p = res
  unfold gates at hres
  split at hres
  · subst hres; exact Or.inl (setHealth_refs _ _ _)
  · split at hres
    · subst hres; exact Or.inl (setHealth_refs _ _ _)
    · split at hres
      · subst hres; exact Or.inl rfl
      · subst hres; exact Or.inl (setHealth_refs _ _ _)
      · split at hres
        · split at hres <;> (subst hres; exact Or.inl rfl)
        · split at hres
          · split at hres
            · subst hres; exact Or.inl rfl
            · subst hres; exact Or.inl (setHealth_refs _ _ _)
          · split at hres
            · split at hres
              · subst hres; exact Or.inl rfl
              · subst hres; exact Or.inl (setHealth_refs _ _ _)
            · rename_i hne
              split at hres
              · subst hres; exact Or.inl rfl
              · rename_i hns
                subst hres
                exact Or.inr ⟨rfl, by simpa using hne, by simpa using hns⟩

theorem install_health (fixed : Bool) (r : Rev) (f : Faults) (c : Cache) (st : RevSt)
    (h : (install fixed r f c st).2.1.health = .healthy) :
    st.health = .healthy ∨ ((install fixed r f c st).2.2.est ≠ none ∧ f.est = false ∧ f.statO = false) := by
  generalize hres : install fixed r f c st = res at h ⊢
  unfold install at hres
  split at hres
  · split at hres
    · subst hres; exact Or.inl (setHealth_healthy _ _ h)
    · subst hres; exact Or.inl h
  · subst hres; exact Or.inl (setHealth_healthy _ _ h)
  · subst hres
    rcases gates_health _ _ _ _ h with h1 | ⟨h1, h2, h3⟩
    · exact Or.inl h1
    · exact Or.inr ⟨by simp only []; rw [h1]; simp, h2, h3⟩

theorem install_refs (fixed : Bool) (r : Rev) (f : Faults) (c : Cache) (st : RevSt) :
    (install fixed r f c st).2.1.refs = st.refs ∨ ((install fixed r f c st).2.2.est ≠ none ∧ f.est = false ∧ f.statO = false) := by
  generalize hres : install fixed r f c st = res
  unfold install at hres
  split at hres
  · split at hres
    · subst hres; exact Or.inl (setHealth_refs _ _ _)
    · subst hres; exact Or.inl rfl
  · subst hres; exact Or.inl (setHealth_refs _ _ _)
  · rename_i c' p heq
    subst hres
    rcases gates_refs r f st p with h1 | ⟨h1, h2, h3⟩
    · exact Or.inl h1
    · exact Or.inr ⟨by simp only []; rw [h1]; simp, h2, h3⟩

/-- How a reconcile can leave the revision Healthy. -/
theorem recStep_health (fixed feature : Bool) (r : Rev) (f : Faults) (c : Cache) (st : RevSt)
    (h : (recStep fixed feature r f c st).2.1.health = .healthy) :
    st.health = .healthy ∨ (st.active = false ∧ st.refs > 0 ∧ f.statO = false) ∨
    ((recStep fixed feature r f c st).2.2.est ≠ none ∧ f.est = false ∧ f.statO = false) := by
  generalize hres : recStep fixed feature r f c st = res at h ⊢
  unfold recStep at hres
  split at hres
  · subst hres; exact Or.inl h
  · split at hres
    · subst hres; exact Or.inl h
    · split at hres
      · split at hres
        · subst hres; exact Or.inl h
        · split at hres <;> (subst hres; exact Or.inl h)
      · split at hres
        · split at hres
          · split at hres
            · subst hres; exact Or.inl h
            · subst hres; cases h
          · subst hres; exact Or.inl h
        · split at hres
          · subst hres; exact Or.inl h
          · subst hres; exact Or.inl h
          · subst hres; exact Or.inl h
          · split at hres
            · subst hres
              left
              simp only [] at h
              split at h
              · exact setHealth_healthy _ { st with finalizer := true } h
              · exact h
            · split at hres
              · rename_i hsc
                split at hres
                · subst hres; exact Or.inl h
                · rename_i hns
                  subst hres
                  right; left
                  simp only [Bool.and_eq_true, Bool.not_eq_true', decide_eq_true_eq] at hsc
                  exact ⟨hsc.1, hsc.2, by simpa using hns⟩
              · subst hres
                rcases install_health _ _ _ _ _ h with h1 | h1
                · exact Or.inl h1
                · exact Or.inr (Or.inr h1)

/-- How a reconcile can change the object references of a revision. -/
theorem recStep_refs (fixed feature : Bool) (r : Rev) (f : Faults) (c : Cache) (st : RevSt) :
    (recStep fixed feature r f c st).2.1.refs = st.refs ∨
    ((recStep fixed feature r f c st).2.2.est ≠ none ∧ f.est = false ∧ f.statO = false) := by
  generalize hres : recStep fixed feature r f c st = res
  unfold recStep at hres
  split at hres
  · subst hres; exact Or.inl rfl
  · split at hres
    · subst hres; exact Or.inl rfl
    · split at hres
      · split at hres
        · subst hres; exact Or.inl rfl
        · split at hres <;> (subst hres; exact Or.inl rfl)
      · split at hres
        · split at hres
          · split at hres <;> (subst hres; exact Or.inl rfl)
          · subst hres; exact Or.inl rfl
        · split at hres
          · subst hres; exact Or.inl rfl
          · subst hres; exact Or.inl rfl
          · subst hres; exact Or.inl rfl
          · split at hres
            · subst hres
              left
              simp only []
              split
              · exact setHealth_refs _ _ _
              · rfl
            · split at hres
              · split at hres <;> (subst hres; exact Or.inl rfl)
              · subst hres
                exact install_refs fixed r f c { st with finalizer := true }

/-! ### locality (reconciles of revisions with different cache paths do not interfere) -/

theorem fetch_frame (fixed : Bool) (r : Rev) (f : Faults) (c : Cache) (k : String) (h1 : k ≠ r.key) (h2 : k ≠ r.id) :
    (fetch fixed r f c).1 k = c k := by
  unfold fetch
  split
  · split
    · split
      · rfl
      · simp [Cache.erase, h2]
    · split <;> rfl
  · split
    · rfl
    · split
      · rfl
      · exact set_ne _ _ _ _ h1

/-- `fetch` reads the cache only at the revision's lookup id; what it leaves at the
revision's two paths depends on nothing else. -/
theorem fetch_local (fixed : Bool) (r : Rev) (f : Faults) (c c' : Cache) (h : c r.id = c' r.id) (h' : c r.key = c' r.key) :
    (fetch fixed r f c).2 = (fetch fixed r f c').2 ∧
    (fetch fixed r f c).1 r.id = (fetch fixed r f c').1 r.id ∧
    (fetch fixed r f c).1 r.key = (fetch fixed r f c').1 r.key := by
  unfold fetch
  rw [← h]
  cases hc : c r.id with
  | some e =>
    by_cases hg : (f.get || e == .broken false) = true
    · by_cases hd : f.del = true
      · simp [hg, hd, h, h']
      · by_cases hk : r.key = r.id
        · simp [hg, hd, Cache.erase, hk]
        · simp [hg, hd, Cache.erase, hk, h']
    · cases e <;> simp [hg, h, h']
  | none =>
    by_cases hn : r.never = true
    · simp [hn, h, h']
    · by_cases hi : (f.init || !r.imgOk) = true
      · simp [hn, hi, h, h']
      · have hid : r.id = r.key := by simp [Rev.id, hn]
        simp [hn, hi, hid, set_self]

theorem recStep_frame (fixed feature : Bool) (r : Rev) (f : Faults) (c : Cache) (st : RevSt) (k : String)
    (h1 : k ≠ r.key) (h2 : k ≠ r.id) : (recStep fixed feature r f c st).1 k = c k := by
  rcases recStep_cache_cases fixed feature r f c st with h | h | h <;> rw [h]
  · simp [Cache.erase, h1]
  · exact fetch_frame fixed r f c k h1 h2

theorem install_local (fixed : Bool) (r : Rev) (f : Faults) (c c' : Cache) (st : RevSt)
    (h : c r.id = c' r.id) (h' : c r.key = c' r.key) :
    (install fixed r f c st).2 = (install fixed r f c' st).2 := by
  obtain ⟨e1, _, _⟩ := fetch_local fixed r f c c' h h'
  unfold install
  cases h1 : fetch fixed r f c with
  | mk ca fa =>
    cases h2 : fetch fixed r f c' with
    | mk cb fb =>
      rw [h1, h2] at e1
      simp only [] at e1
      subst e1
      cases fa with
      | stop res u => rfl
      | parsed p => cases p <;> rfl

theorem recStep_local (fixed feature : Bool) (r : Rev) (f : Faults) (c c' : Cache) (st : RevSt)
    (h : c r.id = c' r.id) (h' : c r.key = c' r.key) :
    (recStep fixed feature r f c st).2 = (recStep fixed feature r f c' st).2 ∧
    (recStep fixed feature r f c st).1 r.id = (recStep fixed feature r f c' st).1 r.id ∧
    (recStep fixed feature r f c st).1 r.key = (recStep fixed feature r f c' st).1 r.key := by
  obtain ⟨_, e2, e3⟩ := fetch_local fixed r f c c' h h'
  have hi := fun st' => install_local fixed r f c c' st' h h'
  have hk : (c.erase r.key) r.id = (c'.erase r.key) r.id := by
    by_cases hk : r.id = r.key
    · simp [Cache.erase, hk]
    · simp [Cache.erase, hk, h]
  unfold recStep
  repeat' split
  all_goals first
    | exact ⟨rfl, h, h'⟩
    | exact ⟨rfl, hk, by simp [Cache.erase]⟩
    | (refine ⟨hi _, ?_, ?_⟩
       · rw [install_cache, install_cache]; exact e2
       · rw [install_cache, install_cache]; exact e3)

/-! ### the ImageConfig store -/

/-- `m` is the length of a prefix of `image` declared by a valid config among `cs` -/
def MatchLen (valid : ImgCfg → Bool) (image : String) (cs : List ImgCfg) (m : Nat) (c : ImgCfg) : Prop :=
  c ∈ cs ∧ valid c = true ∧ ∃ p ∈ c.prefixes, p.isPrefixOf image = true ∧ p.utf8ByteSize = m ∧ 0 < m

/-- invariant of the two loops: the accumulator is (0, none), or (m, some c) with a
witness; and every prefix already scanned is no longer than the accumulator -/
def AccOK (valid : ImgCfg → Bool) (image : String) (cs : List ImgCfg) (acc : Nat × Option ImgCfg) : Prop :=
  (acc = (0, none)) ∨ ∃ c, acc.2 = some c ∧ MatchLen valid image cs acc.1 c

theorem scanPrefixes_mono (image : String) (c : ImgCfg) (ps : List String) (acc : Nat × Option ImgCfg) :
    acc.1 ≤ (scanPrefixes image c ps acc).1 := by
  induction ps generalizing acc with
  | nil => exact Nat.le_refl _
  | cons p ps ih =>
    simp only [scanPrefixes]
    split
    · rename_i h
      simp only [Bool.and_eq_true, decide_eq_true_eq] at h
      exact Nat.le_trans (Nat.le_of_lt h.2) (ih (p.utf8ByteSize, some c))
    · exact ih _

theorem scanPrefixes_ge (image : String) (c : ImgCfg) (ps : List String) (acc : Nat × Option ImgCfg)
    (p : String) (hp : p ∈ ps) (hm : p.isPrefixOf image = true) :
    p.utf8ByteSize ≤ (scanPrefixes image c ps acc).1 := by
  induction ps generalizing acc with
  | nil => cases hp
  | cons q qs ih =>
    simp only [scanPrefixes]
    rcases List.mem_cons.mp hp with rfl | hp'
    · split
      · exact scanPrefixes_mono image c qs (p.utf8ByteSize, some c)
      · rename_i h
        simp only [Bool.and_eq_true, decide_eq_true_eq, not_and, Nat.not_lt] at h
        exact Nat.le_trans (h hm) (scanPrefixes_mono _ _ _ _)
    · exact ih _ hp'

theorem scanPrefixes_ok (valid : ImgCfg → Bool) (image : String) (cs : List ImgCfg) (c : ImgCfg)
    (hc : c ∈ cs) (hv : valid c = true) (ps : List String) (hps : ∀ p ∈ ps, p ∈ c.prefixes)
    (acc : Nat × Option ImgCfg) (h : AccOK valid image cs acc) :
    AccOK valid image cs (scanPrefixes image c ps acc) := by
  induction ps generalizing acc with
  | nil => exact h
  | cons p ps ih =>
    simp only [scanPrefixes]
    apply ih (fun q hq => hps q (List.mem_cons_of_mem _ hq))
    split
    · rename_i hcond
      simp only [Bool.and_eq_true, decide_eq_true_eq] at hcond
      exact Or.inr ⟨c, rfl, hc, hv, p, hps p List.mem_cons_self, hcond.1, rfl, Nat.lt_of_le_of_lt (Nat.zero_le _) hcond.2⟩
    · exact h

theorem scanCfgs_mono (valid : ImgCfg → Bool) (image : String) (cs : List ImgCfg) (acc : Nat × Option ImgCfg) :
    acc.1 ≤ (scanCfgs valid image cs acc).1 := by
  induction cs generalizing acc with
  | nil => exact Nat.le_refl _
  | cons c cs ih =>
    simp only [scanCfgs]
    split
    · exact Nat.le_trans (scanPrefixes_mono _ _ _ _) (ih _)
    · exact ih _

theorem scanCfgs_ge (valid : ImgCfg → Bool) (image : String) (cs : List ImgCfg) (acc : Nat × Option ImgCfg)
    (c : ImgCfg) (hc : c ∈ cs) (hv : valid c = true) (p : String) (hp : p ∈ c.prefixes) (hm : p.isPrefixOf image = true) :
    p.utf8ByteSize ≤ (scanCfgs valid image cs acc).1 := by
  induction cs generalizing acc with
  | nil => cases hc
  | cons d ds ih =>
    simp only [scanCfgs]
    rcases List.mem_cons.mp hc with rfl | hc'
    · simp only [hv, if_true]
      exact Nat.le_trans (scanPrefixes_ge _ _ _ _ p hp hm) (scanCfgs_mono _ _ _ _)
    · exact ih _ hc'

theorem scanCfgs_ok (valid : ImgCfg → Bool) (image : String) (all cs : List ImgCfg) (hsub : ∀ c ∈ cs, c ∈ all)
    (acc : Nat × Option ImgCfg) (h : AccOK valid image all acc) :
    AccOK valid image all (scanCfgs valid image cs acc) := by
  induction cs generalizing acc with
  | nil => exact h
  | cons c cs ih =>
    simp only [scanCfgs]
    apply ih (fun d hd => hsub d (List.mem_cons_of_mem _ hd))
    split
    · rename_i hv
      exact scanPrefixes_ok valid image all c (hsub c List.mem_cons_self) hv c.prefixes (fun _ h => h) acc h
    · exact h

/-! ### histories -/

/-- One step of a history preserves the cache invariant. -/
theorem step_inv (feature : Bool) (revs : List Rev) (hc : Compat revs) (w : World) (h : Inv revs w.cache) (s : Step) :
    Inv revs (w.step true feature revs s).1.cache := by
  cases s with
  | configs cfgs => exact h
  | verify i sf =>
    simp only [World.step]
    split <;> exact h
  | reconcile i active deleted f =>
    simp only [World.step]
    split
    · rename_i r st hr hst
      have hmem : r ∈ revs := List.mem_of_getElem? hr
      intro r' hr' e he
      dsimp only at he
      rcases recStep_cache feature r f w.cache (envStep active deleted st) r'.id with h1 | h1 | ⟨hk, hnv, e', he', hok⟩
      · rw [h1] at he; exact h r' hr' e he
      · rw [h1] at he; cases he
      · rw [he'] at he; cases he
        have hd := hc r' hr' r hmem hnv hk.symm
        rcases hok with h2 | ⟨b, h2⟩
        · exact Or.inl (by rw [h2, hd])
        · exact Or.inr ⟨b, h2⟩
    · exact h

theorem run_inv (feature : Bool) (revs : List Rev) (hc : Compat revs) (steps : List Step) (w : World) (h : Inv revs w.cache) :
    Inv revs (World.run true feature revs w steps).1.cache := by
  induction steps generalizing w with
  | nil => exact h
  | cons s ss ih =>
    simp only [World.run]
    exact ih _ (step_inv feature revs hc w h s)

/-- the revision a step is about (`configs` steps are about none; 0 by convention) -/
def Step.idx : Step → Nat
  | .reconcile i _ _ _ => i
  | .verify i _ => i
  | .configs _ => 0

/-- Every (step, outcome) pair of a run satisfies `P`, provided `P` holds for a step
taken from any world satisfying the invariant. -/
theorem run_forall (feature : Bool) (revs : List Rev) (hc : Compat revs) (P : Step → Out → Prop)
    (hP : ∀ w : World, Inv revs w.cache → ∀ s, P s (w.step true feature revs s).2)
    (steps : List Step) (w : World) (h : Inv revs w.cache) :
    ∀ so ∈ steps.zip (World.run true feature revs w steps).2, P so.1 so.2 := by
  induction steps generalizing w with
  | nil => intro so hso; simp [World.run] at hso
  | cons s ss ih =>
    intro so hso
    simp only [World.run, List.zip_cons_cons, List.mem_cons] at hso
    rcases hso with hso | hso
    · subst hso; exact hP w h s
    · exact ih _ (step_inv feature revs hc w h s) so hso

theorem run_length (fixed feature : Bool) (revs : List Rev) (steps : List Step) (w : World) :
    (World.run fixed feature revs w steps).2.length = steps.length := by
  induction steps generalizing w with
  | nil => rfl
  | cons s ss ih => simp [World.run, ih]

/-- the world before step `k` of a history -/
def worldAt (fixed feature : Bool) (revs : List Rev) (w : World) (steps : List Step) (k : Nat) : World :=
  (World.run fixed feature revs w (steps.take k)).1

theorem run_append (fixed feature : Bool) (revs : List Rev) (w : World) (a b : List Step) :
    World.run fixed feature revs w (a ++ b) =
      ((World.run fixed feature revs (World.run fixed feature revs w a).1 b).1,
       (World.run fixed feature revs w a).2 ++ (World.run fixed feature revs (World.run fixed feature revs w a).1 b).2) := by
  induction a generalizing w with
  | nil => simp [World.run]
  | cons s ss ih => simp only [List.cons_append, World.run, ih, List.cons_append]

theorem worldAt_succ (fixed feature : Bool) (revs : List Rev) (w : World) (steps : List Step) (k : Nat) (s : Step)
    (hs : steps[k]? = some s) :
    worldAt fixed feature revs w steps (k + 1) = ((worldAt fixed feature revs w steps k).step fixed feature revs s).1 := by
  unfold worldAt
  have hk : k < steps.length := by
    rcases Nat.lt_or_ge k steps.length with h | h
    · exact h
    · rw [List.getElem?_eq_none h] at hs; cases hs
  have : steps.take (k + 1) = steps.take k ++ [s] := by
    rw [List.take_add_one, hs]; rfl
  rw [this, run_append]
  simp [World.run]

/-- the outcome of step `n` is that of the step taken from the world before it -/
theorem run_out (fixed feature : Bool) (revs : List Rev) (w : World) (steps : List Step) (n : Nat) (s : Step) (o : Out)
    (hs : steps[n]? = some s) (ho : (World.run fixed feature revs w steps).2[n]? = some o) :
    o = ((worldAt fixed feature revs w steps n).step fixed feature revs s).2 := by
  induction steps generalizing w n with
  | nil => simp at hs
  | cons s0 ss ih =>
    cases n with
    | zero =>
      simp only [List.getElem?_cons_zero, Option.some.injEq] at hs
      subst hs
      simp only [World.run, List.getElem?_cons_zero, Option.some.injEq] at ho
      simp [worldAt, World.run, ho]
    | succ n =>
      simp only [List.getElem?_cons_succ] at hs
      simp only [World.run, List.getElem?_cons_succ] at ho
      have := ih (w.step fixed feature revs s0).1 n hs ho
      simpa [worldAt, World.run] using this

end Xp.C15

import Xp.Model.C15
/-
Helper lemmas for the C15 theorems (core Lean only).
-/
namespace Xp.C15

/-- What a revision's cache entry may be: its image's full stream, or a file that
cannot be read to EOF. -/
def EntryOK (r : Rev) (e : Entry) : Prop := e = .content r.docs ∨ ∃ h, e = .broken h

/-- The cache invariant: an entry that `Has` reports under the id a revision looks
up is the full package stream of that revision's image (or is unreadable). -/
def Inv (revs : List Rev) (c : Cache) : Prop :=
  ∀ r ∈ revs, ∀ e, c r.id = some e → EntryOK r e

/-- Revisions whose cache paths coincide carry the same image.  (`Store` writes
under the path of the revision's *name*.) -/
def Compat (revs : List Rev) : Prop :=
  ∀ r ∈ revs, ∀ r' ∈ revs, r'.never = false → r'.key = r.id → r'.docs = r.docs

theorem leftEntry_ok (r : Rev) (l : Left) (e : Entry) (h : leftEntry r l = some e) : EntryOK r e := by
  cases l <;> simp [leftEntry] at h <;> subst h
  · exact Or.inr ⟨_, rfl⟩
  · exact Or.inr ⟨_, rfl⟩
  · exact Or.inl rfl

/-- In the fixed code the file left under the revision's name by a pull is the full
stream or unreadable – for every fault plan (read fault at any byte, store fault at
any byte seen or not by the parser, failing delete). -/
theorem storedEntry_ok (r : Rev) (f : Faults) (e : Entry) (h : storedEntry true r f = some e) : EntryOK r e := by
  unfold storedEntry at h
  split at h
  · rename_i hs
    simp only [Bool.not_true, Bool.or_false, Bool.and_eq_true] at hs
    simp only [hs.2, if_true, Option.some.injEq] at h
    exact Or.inl h.symm
  · split at h
    · exact leftEntry_ok r _ _ h
    · cases h

/-- fixed code: the parser returns a package only for the whole stream -/
theorem pulled_some (r : Rev) (f : Faults) (p : Pkg) (h : pulled true r f = some p) : parse r.docs = some p := by
  unfold pulled at h
  split at h
  · cases h
  · split at h
    · simp at h
    · exact h

theorem set_self (c : Cache) (k : String) (x : Option Entry) : (c.set k x) k = x := by
  cases x <;> simp [Cache.set, Cache.put, Cache.erase]

theorem set_ne (c : Cache) (k k' : String) (x : Option Entry) (h : k' ≠ k) : (c.set k x) k' = c k' := by
  cases x <;> simp [Cache.set, Cache.put, Cache.erase, h]

/-- Effect of `fetch` (fixed code) on any cache path: unchanged, removed, or – only
for the path of the reconciled revision's name, and only when it pulls – an entry
that is OK for that revision. -/
theorem fetch_cache (r : Rev) (f : Faults) (c : Cache) (k : String) :
    (fetch true r f c).1 k = c k ∨ (fetch true r f c).1 k = none ∨
    (k = r.key ∧ r.never = false ∧ ∃ e, (fetch true r f c).1 k = some e ∧ EntryOK r e) := by
  unfold fetch
  split
  · -- entry present
    split
    · split
      · exact Or.inl rfl
      · by_cases hk : k = r.id
        · right; left; simp [Cache.erase, hk]
        · left; simp [Cache.erase, hk]
    · split <;> exact Or.inl rfl
  · -- no entry
    split
    · exact Or.inl rfl
    · rename_i hnever
      have hnv : r.never = false := by simpa using hnever
      split
      · exact Or.inl rfl
      · simp only []
        by_cases hk : k = r.key
        · subst hk
          rw [set_self]
          cases hse : storedEntry true r f with
          | none => exact Or.inr (Or.inl rfl)
          | some e => exact Or.inr (Or.inr ⟨rfl, hnv, e, rfl, storedEntry_ok r f e hse⟩)
        · left; exact set_ne _ _ _ _ hk

/-- `fetch` preserves the cache invariant, for every fault plan. -/
theorem fetch_inv (revs : List Rev) (hc : Compat revs) (r : Rev) (hr : r ∈ revs) (f : Faults) (c : Cache)
    (h : Inv revs c) : Inv revs (fetch true r f c).1 := by
  intro r' hr' e he
  rcases fetch_cache r f c r'.id with h1 | h1 | ⟨hk, hnv, e', he', hok⟩
  · rw [h1] at he; exact h r' hr' e he
  · rw [h1] at he; cases he
  · rw [he'] at he; cases he
    have hd := hc r' hr' r hr hnv hk.symm
    rcases hok with h2 | ⟨b, h2⟩
    · exact Or.inl (by rw [h2, hd])
    · exact Or.inr ⟨b, h2⟩

/-- Under the invariant, whatever `fetch` hands to the linter is the parse of the
revision's full image stream – from the cache or from the registry, under every
fault plan. -/
theorem fetch_parsed (r : Rev) (f : Faults) (c : Cache) (hinv : ∀ e, c r.id = some e → EntryOK r e)
    (p : Pkg) (h : (fetch true r f c).2 = .parsed (some p)) : parse r.docs = some p := by
  unfold fetch at h
  split at h
  · rename_i e he
    split at h
    · cases h
    · rcases hinv e he with h1 | ⟨b, h1⟩
      · subst h1; simpa using h
      · subst h1; simp at h
  · split at h
    · cases h
    · split at h
      · cases h
      · simp only [Fetch.parsed.injEq] at h
        exact pulled_some r f p h

/-! ### one reconcile -/

/-- Effect of a whole reconcile (fixed code) on any cache path. -/
theorem recStep_cache (feature : Bool) (r : Rev) (f : Faults) (c : Cache) (st : RevSt) (k : String) :
    (recStep true feature r f c st).1 k = c k ∨ (recStep true feature r f c st).1 k = none ∨
    (k = r.key ∧ r.never = false ∧ ∃ e, (recStep true feature r f c st).1 k = some e ∧ EntryOK r e) := by
  unfold recStep
  split
  · exact Or.inl rfl
  · split
    · split
      · exact Or.inl rfl
      · by_cases hk : k = r.key
        · right; left; simp [Cache.erase, hk]
        · left; simp [Cache.erase, hk]
    · split
      · split <;> exact Or.inl rfl
      · simp only []
        split
        · exact Or.inl rfl
        · have := fetch_cache r f c k
          split <;> rename_i heq <;> rw [heq] at this <;> exact this

/-- What must have happened for `Establish` to be reached. -/
theorem recStep_est (feature : Bool) (r : Rev) (f : Faults) (c : Cache) (st : RevSt) (objs : List Obj)
    (h : (recStep true feature r f c st).2.2.est = some objs) :
    st.present = true ∧ st.deleting = false ∧ (feature = true → st.verif.isTrue = true) ∧
    ∃ p, (fetch true r f c).2 = .parsed (some p) ∧ objs = p.objs ∧ lint r.ptype p = true ∧
      (r.ignore = true ∨ compatible p = true) ∧ f.upd = .ok := by
  unfold recStep at h
  split at h
  · cases h
  · rename_i hp
    split at h
    · split at h <;> cases h
    · rename_i hd
      split at h
      · split at h <;> cases h
      · rename_i hv
        simp only [] at h
        split at h
        · cases h
        · refine ⟨by simpa using hp, by simpa using hd, ?_, ?_⟩
          · intro hf; subst hf; simpa using hv
          · split at h
            · cases h
            · cases h
            · rename_i c' p heq
              refine ⟨p, by rw [heq], ?_⟩
              simp only [] at h
              unfold gates at h
              split at h
              · cases h
              · rename_i hl
                split at h
                · cases h
                · split at h
                  · cases h
                  · cases h
                  · rename_i hu
                    split at h
                    · cases h
                    · rename_i hcmp
                      have hl' : lint r.ptype p = true := by simpa using hl
                      have hc' : r.ignore = true ∨ compatible p = true := by
                        cases hi : r.ignore <;> cases hcp : compatible p <;> simp_all
                      split at h
                      · simp only [Option.some.injEq] at h
                        exact ⟨h.symm, hl', hc', hu⟩
                      · simp only [Option.some.injEq] at h
                        exact ⟨h.symm, hl', hc', hu⟩

theorem envStep_verif (a d : Bool) (st : RevSt) : (envStep a d st).verif = st.verif := by
  unfold envStep
  cases st.present <;> cases d <;> cases st.finalizer <;> simp

theorem gates_verif (r : Rev) (f : Faults) (st : RevSt) (p : Pkg) : (gates r f st p).1.verif = st.verif := by
  unfold gates
  split
  · rfl
  · split
    · rfl
    · split
      · rfl
      · rfl
      · split
        · rfl
        · split <;> rfl

/-- the revision controller never writes the Verified condition -/
theorem recStep_verif (fixed feature : Bool) (r : Rev) (f : Faults) (c : Cache) (st : RevSt) :
    (recStep fixed feature r f c st).2.1.verif = st.verif := by
  unfold recStep
  split
  · rfl
  · split
    · split <;> rfl
    · split
      · split <;> rfl
      · simp only []
        split
        · rfl
        · split
          · split <;> rfl
          · rfl
          · simp only []; rw [gates_verif]

/-! ### locality (reconciles of revisions with different cache paths do not interfere) -/

theorem fetch_frame (fixed : Bool) (r : Rev) (f : Faults) (c : Cache) (k : String) (h1 : k ≠ r.key) (h2 : k ≠ r.id) :
    (fetch fixed r f c).1 k = c k := by
  unfold fetch
  split
  · split
    · split
      · rfl
      · simp [Cache.erase, h2]
    · split <;> rfl
  · split
    · rfl
    · split
      · rfl
      · exact set_ne _ _ _ _ h1

/-- `fetch` reads the cache only at the revision's lookup id; what it leaves at the
revision's two paths depends on nothing else. -/
theorem fetch_local (fixed : Bool) (r : Rev) (f : Faults) (c c' : Cache) (h : c r.id = c' r.id) (h' : c r.key = c' r.key) :
    (fetch fixed r f c).2 = (fetch fixed r f c').2 ∧
    (fetch fixed r f c).1 r.id = (fetch fixed r f c').1 r.id ∧
    (fetch fixed r f c).1 r.key = (fetch fixed r f c').1 r.key := by
  unfold fetch
  rw [← h]
  cases hc : c r.id with
  | some e =>
    by_cases hg : (f.get || e == .broken false) = true
    · by_cases hd : f.del = true
      · simp [hg, hd, h, h']
      · by_cases hk : r.key = r.id
        · simp [hg, hd, Cache.erase, hk]
        · simp [hg, hd, Cache.erase, hk, h']
    · cases e <;> simp [hg, h, h']
  | none =>
    by_cases hn : r.never = true
    · simp [hn, h, h']
    · by_cases hi : (f.init || !r.imgOk) = true
      · simp [hn, hi, h, h']
      · have hid : r.id = r.key := by simp [Rev.id, hn]
        simp [hn, hi, hid, set_self]

theorem recStep_frame (fixed feature : Bool) (r : Rev) (f : Faults) (c : Cache) (st : RevSt) (k : String)
    (h1 : k ≠ r.key) (h2 : k ≠ r.id) : (recStep fixed feature r f c st).1 k = c k := by
  unfold recStep
  split
  · rfl
  · split
    · split
      · rfl
      · simp [Cache.erase, h1]
    · split
      · split <;> rfl
      · simp only []
        split
        · rfl
        · have := fetch_frame fixed r f c k h1 h2
          split <;> rename_i heq <;> rw [heq] at this <;> exact this

theorem recStep_local (fixed feature : Bool) (r : Rev) (f : Faults) (c c' : Cache) (st : RevSt)
    (h : c r.id = c' r.id) (h' : c r.key = c' r.key) :
    (recStep fixed feature r f c st).2 = (recStep fixed feature r f c' st).2 ∧
    (recStep fixed feature r f c st).1 r.id = (recStep fixed feature r f c' st).1 r.id ∧
    (recStep fixed feature r f c st).1 r.key = (recStep fixed feature r f c' st).1 r.key := by
  obtain ⟨e1, e2, e3⟩ := fetch_local fixed r f c c' h h'
  unfold recStep
  split
  · exact ⟨rfl, h, h'⟩
  · split
    · split
      · exact ⟨rfl, h, h'⟩
      · refine ⟨rfl, ?_, by simp [Cache.erase]⟩
        by_cases hk : r.id = r.key
        · simp [Cache.erase, hk]
        · simp [Cache.erase, hk, h]
    · split
      · split <;> exact ⟨rfl, h, h'⟩
      · simp only []
        split
        · exact ⟨rfl, h, h'⟩
        · cases h1 : fetch fixed r f c with
          | mk ca fa =>
            cases h2 : fetch fixed r f c' with
            | mk cb fb =>
              rw [h1, h2] at e1 e2 e3
              simp only [] at e1 e2 e3
              subst e1
              cases fa with
              | stop res u => exact ⟨rfl, e2, e3⟩
              | parsed p =>
                cases p with
                | none => exact ⟨rfl, e2, e3⟩
                | some p => exact ⟨rfl, e2, e3⟩

/-! ### histories -/

/-- One step of a history preserves the cache invariant. -/
theorem step_inv (feature : Bool) (revs : List Rev) (hc : Compat revs) (w : World) (h : Inv revs w.cache) (s : Step) :
    Inv revs (w.step true feature revs s).1.cache := by
  cases s with
  | verify i cfg valid =>
    simp only [World.step]
    split <;> exact h
  | reconcile i active deleted f =>
    simp only [World.step]
    split
    · rename_i r st hr hst
      have hmem : r ∈ revs := List.mem_of_getElem? hr
      intro r' hr' e he
      dsimp only at he
      rcases recStep_cache feature r f w.cache (envStep active deleted st) r'.id with h1 | h1 | ⟨hk, hnv, e', he', hok⟩
      · rw [h1] at he; exact h r' hr' e he
      · rw [h1] at he; cases he
      · rw [he'] at he; cases he
        have hd := hc r' hr' r hmem hnv hk.symm
        rcases hok with h2 | ⟨b, h2⟩
        · exact Or.inl (by rw [h2, hd])
        · exact Or.inr ⟨b, h2⟩
    · exact h

theorem run_inv (feature : Bool) (revs : List Rev) (hc : Compat revs) (steps : List Step) (w : World) (h : Inv revs w.cache) :
    Inv revs (World.run true feature revs w steps).1.cache := by
  induction steps generalizing w with
  | nil => exact h
  | cons s ss ih =>
    simp only [World.run]
    exact ih _ (step_inv feature revs hc w h s)

/-- the outcome of step `s` of a history, paired with the world it started from -/
def Step.idx : Step → Nat
  | .reconcile i _ _ _ => i
  | .verify i _ _ => i

/-- Every (step, outcome) pair of a run satisfies `P`, provided `P` holds for a step
taken from any world satisfying the invariant. -/
theorem run_forall (feature : Bool) (revs : List Rev) (hc : Compat revs) (P : Step → Out → Prop)
    (hP : ∀ w : World, Inv revs w.cache → ∀ s, P s (w.step true feature revs s).2)
    (steps : List Step) (w : World) (h : Inv revs w.cache) :
    ∀ so ∈ steps.zip (World.run true feature revs w steps).2, P so.1 so.2 := by
  induction steps generalizing w with
  | nil => intro so hso; simp [World.run] at hso
  | cons s ss ih =>
    intro so hso
    simp only [World.run, List.zip_cons_cons, List.mem_cons] at hso
    rcases hso with hso | hso
    · subst hso; exact hP w h s
    · exact ih _ (step_inv feature revs hc w h s) so hso

theorem run_length (fixed feature : Bool) (revs : List Rev) (steps : List Step) (w : World) :
    (World.run fixed feature revs w steps).2.length = steps.length := by
  induction steps generalizing w with
  | nil => rfl
  | cons s ss ih => simp [World.run, ih]

end Xp.C15

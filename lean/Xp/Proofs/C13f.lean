import Xp.Proofs.C13e
/-
C13 helper lemmas, part f: the invariant holds initially and is preserved by every step
of the fixed engine, hence in every reachable state.
-/
namespace Xp.C13

theorem apply_getInformer_fields (g : Nat) (f : Bool) (s : Sys) :
    ((Act.getInformer g f).apply s).regs = s.regs ∧ ((Act.getInformer g f).apply s).nextReg = s.nextReg ∧
    ((Act.getInformer g f).apply s).objs = s.objs ∧ ((Act.getInformer g f).apply s).ctrls = s.ctrls ∧
    ((Act.getInformer g f).apply s).log = s.log := by
  simp only [Act.apply]
  split
  · exact ⟨rfl, rfl, rfl, rfl, rfl⟩
  · split <;> exact ⟨rfl, rfl, rfl, rfl, rfl⟩

theorem apply_getInformer_tracked (g : Nat) (f : Bool) (s : Sys) (g' : Nat) :
    g' ∈ ((Act.getInformer g f).apply s).tracked ↔ g' = g ∨ g' ∈ s.tracked := by
  have key : g' ∈ (if s.tracked.contains g then s.tracked else g :: s.tracked) ↔ g' = g ∨ g' ∈ s.tracked := by
    split
    · rename_i hc
      have hg : g ∈ s.tracked := by simpa [List.contains_iff_mem] using hc
      constructor
      · exact Or.inr
      · rintro (rfl | h)
        · exact hg
        · exact h
    · simp
  simp only [Act.apply]
  split
  · exact key
  · split <;> exact key

theorem apply_getInformer_live (g : Nat) (f : Bool) (s : Sys) (g' h : Nat) :
    aget g' ((Act.getInformer g f).apply s).live = some h ↔
      aget g' s.live = some h ∨ (f = false ∧ g' = g ∧ aget g s.live = none ∧ h = s.nextGen) := by
  simp only [Act.apply]
  split
  · rename_i hf; simp [hf]
  · rename_i hf
    have hf' : f = false := by simpa using hf
    split
    · rename_i v hv
      constructor
      · exact Or.inl
      · rintro (h1 | ⟨_, _, h3, _⟩)
        · exact h1
        · rw [hv] at h3; cases h3
    · rename_i hv
      simp only [aget_cons]
      by_cases e : g = g'
      · subst e
        simp [hv, hf', eq_comm]
      · simp only [e, if_false]
        constructor
        · exact Or.inl
        · rintro (h1 | ⟨_, h2, _, _⟩)
          · exact h1
          · exact absurd h2.symm e

theorem Inv_init (ops : List Op) : Inv (init ops) where
  mutex := Mutex_init ops
  tvalid := by
    intro i t ht c hc
    simp only [init, List.getElem?_map] at ht
    cases h1 : ops[i]? <;> simp [h1] at ht
    subst ht
    simp [Pc.cid?] at hc
  tfacts := by
    intro i t ht
    simp only [init, List.getElem?_map] at ht
    cases h1 : ops[i]? <;> simp [h1] at ht
    subst ht
    exact trivial
  regId := by intro r hr; simp [init] at hr
  regUniq := by intro r hr; simp [init] at hr
  regLive := by intro r hr; simp [init] at hr
  liveTracked := by intro g h hg; simp [init] at hg
  own := by intro r hr; simp [init] at hr
  ctlValid := by intro n cid h; simp [init] at h
  ctlInj := by intro n1 n2 cid h; simp [init] at h
  stopClean := by intro cid c h; simp [init] at h
  cancelStop := by intro cid c h; simp [init] at h

section step
variable {s : Sys} {i : Nat} {t : Thread} {ch : Choice} {pc' : Pc} {act : Act}

theorem regId_step (hinv : Inv s) (ths : List Thread) :
    ∀ r ∈ (act.apply { s with threads := ths }).regs, r.id < (act.apply { s with threads := ths }).nextReg := by
  cases act
  case getInformer g f =>
    obtain ⟨e1, e2, _⟩ := apply_getInformer_fields g f { s with threads := ths }
    rw [e1, e2]; exact hinv.regId
  case addReg cid wid h =>
    simp only [Act.apply]
    intro r hr
    rcases List.mem_cons.1 hr with rfl | hr'
    · exact Nat.lt_succ_self _
    · exact Nat.lt_succ_of_lt (hinv.regId r hr')
  case delReg cid wid reg =>
    simp only [Act.apply]
    intro r hr; exact hinv.regId r (List.mem_filter.1 hr).1
  case rmInformer g =>
    simp only [Act.apply]
    intro r hr; exact hinv.regId r (List.mem_filter.1 hr).1
  all_goals exact hinv.regId

theorem regUniq_step (hinv : Inv s) (ths : List Thread) :
    ∀ r1 ∈ (act.apply { s with threads := ths }).regs, ∀ r2 ∈ (act.apply { s with threads := ths }).regs,
      r1.id = r2.id → r1 = r2 := by
  cases act
  case getInformer g f =>
    obtain ⟨e1, _⟩ := apply_getInformer_fields g f { s with threads := ths }
    rw [e1]; exact hinv.regUniq
  case addReg cid wid h =>
    simp only [Act.apply]
    intro r1 h1 r2 h2 e
    rcases List.mem_cons.1 h1 with rfl | h1'
    · rcases List.mem_cons.1 h2 with rfl | h2'
      · rfl
      · have := hinv.regId r2 h2'
        simp only at e
        omega
    · rcases List.mem_cons.1 h2 with rfl | h2'
      · have := hinv.regId r1 h1'
        simp only at e
        omega
      · exact hinv.regUniq r1 h1' r2 h2' e
  case delReg cid wid reg =>
    simp only [Act.apply]
    intro r1 h1 r2 h2
    exact hinv.regUniq r1 (List.mem_filter.1 h1).1 r2 (List.mem_filter.1 h2).1
  case rmInformer g =>
    simp only [Act.apply]
    intro r1 h1 r2 h2
    exact hinv.regUniq r1 (List.mem_filter.1 h1).1 r2 (List.mem_filter.1 h2).1
  all_goals exact hinv.regUniq

theorem regLive_step (hinv : Inv s) (hn : next Cfg.fixed s i t ch = some (pc', act)) (ths : List Thread) :
    ∀ r ∈ (act.apply { s with threads := ths }).regs,
      aget r.wid.gvk (act.apply { s with threads := ths }).live = some r.gen := by
  have hf := next_act_cases hn
  cases act
  case getInformer g f =>
    obtain ⟨e1, _⟩ := apply_getInformer_fields g f { s with threads := ths }
    rw [e1]
    intro r hr
    exact (apply_getInformer_live g f _ _ _).2 (Or.inl (hinv.regLive r hr))
  case addReg cid wid h =>
    obtain ⟨a, st, rest, _, hl, _⟩ := hf
    simp only [Act.apply]
    intro r hr
    rcases List.mem_cons.1 hr with rfl | hr'
    · exact hl
    · exact hinv.regLive r hr'
  case delReg cid wid reg =>
    simp only [Act.apply]
    intro r hr; exact hinv.regLive r (List.mem_filter.1 hr).1
  case rmInformer g =>
    simp only [Act.apply]
    intro r hr
    obtain ⟨hr1, hr2⟩ := List.mem_filter.1 hr
    have hne : g ≠ r.wid.gvk := by
      intro e; simp [e] at hr2
    rw [aget_adel_ne hne]
    exact hinv.regLive r hr1
  all_goals exact hinv.regLive

theorem liveTracked_step (hinv : Inv s) (ths : List Thread) :
    ∀ (g h : Nat), aget g (act.apply { s with threads := ths }).live = some h →
      g ∈ (act.apply { s with threads := ths }).tracked := by
  cases act
  case getInformer g0 f =>
    intro g h hg
    rw [apply_getInformer_tracked]
    rcases (apply_getInformer_live g0 f _ _ _).1 hg with h1 | ⟨_, h2, _, _⟩
    · exact Or.inr (hinv.liveTracked g h h1)
    · exact Or.inl h2
  case rmInformer g0 =>
    simp only [Act.apply]
    intro g h hg
    have hne : g0 ≠ g := by
      intro e; subst e; rw [aget_adel_self] at hg; cases hg
    rw [aget_adel_ne hne] at hg
    refine List.mem_filter.2 ⟨hinv.liveTracked g h hg, ?_⟩
    simpa using fun e => hne e.symm
  all_goals exact hinv.liveTracked

theorem srcsOf_finishStop (s : Sys) (n cid k : Nat) :
    srcsOf ((Act.finishStop n cid).apply s) k = srcsOf s k := by
  simp only [Act.apply, srcsOf_eq, srcsOfObjs_modCtl]
  by_cases e : k = cid
  · subst e
    simp only [if_true, srcsOfObjs]
    try (cases s.objs[k]? <;> rfl)
  · simp [e]

theorem stoppedOf_finishStop (s : Sys) (n cid k : Nat) :
    stoppedOf ((Act.finishStop n cid).apply s) k = if k = cid ∧ cid < s.objs.length then true else stoppedOf s k := by
  simp only [Act.apply, stoppedOf_eq, stoppedOfObjs_modCtl]
  by_cases e : k = cid
  · subst e
    simp only [if_true, true_and]
    by_cases hl : k < s.objs.length
    · rw [List.getElem?_eq_getElem hl]; simp [hl]
    · rw [List.getElem?_eq_none (Nat.le_of_not_lt hl)]
      simp [hl, stoppedOfObjs]
  · simp [e]

theorem own_step (hinv : Inv s) (ht : s.threads[i]? = some t)
    (hn : next Cfg.fixed s i t ch = some (pc', act)) (ths : List Thread) :
    ∀ r ∈ (act.apply { s with threads := ths }).regs,
      aget r.wid (srcsOf (act.apply { s with threads := ths }) r.cid) = some r.id := by
  have hf := next_act_cases hn
  have hfacts := hinv.tfacts i t ht
  have hvalid := hinv.tvalid i t ht
  cases act
  case nop => exact hinv.own
  case logEv e => exact hinv.own
  case newCtl n =>
    intro r hr
    simp only [Act.apply, srcsOf_eq, srcsOfObjs_append_new]
    exact hinv.own r hr
  case finishStop n cid =>
    intro r hr
    rw [srcsOf_finishStop]
    exact hinv.own r hr
  case getInformer g f =>
    intro r hr
    obtain ⟨e1, _, _, _⟩ := srcsOf_apply_getInformer g f { s with threads := ths } r.cid
    obtain ⟨e2, _⟩ := apply_getInformer_fields g f { s with threads := ths }
    rw [e1]; rw [e2] at hr
    exact hinv.own r hr
  case rmInformer g =>
    intro r hr
    exact hinv.own r (List.mem_filter.1 hr).1
  case addReg cid wid h =>
    obtain ⟨a, st, rest, hpc, _, _⟩ := hf
    obtain ⟨op, pc⟩ := t
    simp only at hpc
    subst hpc
    simp only [TFacts] at hfacts
    obtain ⟨_, hJ, hK⟩ := hfacts
    have hv : cid < s.objs.length := hvalid cid rfl
    intro r hr
    rw [srcsOf_addReg]
    simp only [Act.apply] at hr
    have hv' : cid < ({ s with threads := ths } : Sys).objs.length := hv
    rcases List.mem_cons.1 hr with rfl | hr'
    · simp only [if_true, if_pos hv']
      exact aget_aset_self _ _ _
    · by_cases ec : r.cid = cid
      · simp only [ec, if_true, if_pos hv']
        have hown := hinv.own r hr'
        rw [ec] at hown
        by_cases ew : r.wid = wid
        · exfalso
          apply hK
          refine ⟨?_, ?_⟩
          · rw [← ew, hown]; rfl
          · rw [← ew]; exact hJ r hr' ec
        · rw [aget_aset_ne (fun e => ew e.symm)]
          exact hown
      · simp only [ec, if_false]
        exact hinv.own r hr'
  case delReg cid wid reg =>
    have hreg : aget wid (srcsOf s cid) = some reg := by
      obtain ⟨op, pc⟩ := t
      rcases hf with ⟨n, h', hpc, _⟩ | ⟨rest, k, h', hpc, _⟩
      · simp only at hpc; subst hpc; exact hfacts.2
      · simp only at hpc; subst hpc; exact hfacts
    intro r hr
    rw [srcsOf_delReg]
    simp only [Act.apply] at hr
    obtain ⟨hr1, hr2⟩ := List.mem_filter.1 hr
    have hown := hinv.own r hr1
    by_cases ec : r.cid = cid
    · simp only [ec, if_true]
      rw [ec] at hown
      by_cases ew : r.wid = wid
      · exfalso
        rw [ew, hreg] at hown
        cases hown
        simp at hr2
      · rw [aget_adel_ne (fun e => ew e.symm)]
        exact hown
    · simp only [ec, if_false]
      exact hown

theorem ctl_step (hinv : Inv s) (ht : s.threads[i]? = some t)
    (hn : next Cfg.fixed s i t ch = some (pc', act)) (ths : List Thread) :
    (∀ (n cid : Nat), aget n (act.apply { s with threads := ths }).ctrls = some cid →
      cid < (act.apply { s with threads := ths }).objs.length ∧ stoppedOf (act.apply { s with threads := ths }) cid = false) ∧
    (∀ (n1 n2 cid : Nat), aget n1 (act.apply { s with threads := ths }).ctrls = some cid →
      aget n2 (act.apply { s with threads := ths }).ctrls = some cid → n1 = n2) := by
  have hf := next_act_cases hn
  have hfacts := hinv.tfacts i t ht
  cases act
  case nop => exact ⟨hinv.ctlValid, hinv.ctlInj⟩
  case logEv e => exact ⟨hinv.ctlValid, hinv.ctlInj⟩
  case rmInformer g => exact ⟨hinv.ctlValid, hinv.ctlInj⟩
  case getInformer g f =>
    obtain ⟨_, _, e3, e4, _⟩ := apply_getInformer_fields g f { s with threads := ths }
    refine ⟨?_, ?_⟩
    · intro n cid h
      obtain ⟨_, e2, _, _⟩ := srcsOf_apply_getInformer g f { s with threads := ths } cid
      rw [e4] at h; rw [e3, e2]
      exact hinv.ctlValid n cid h
    · rw [e4]; exact hinv.ctlInj
  case addReg cid wid h =>
    refine ⟨?_, hinv.ctlInj⟩
    intro n c hc
    rw [stoppedOf_addReg]
    simp only [Act.apply, modCtl_length]
    exact hinv.ctlValid n c hc
  case delReg cid wid reg =>
    refine ⟨?_, hinv.ctlInj⟩
    intro n c hc
    rw [stoppedOf_delReg]
    simp only [Act.apply, modCtl_length]
    exact hinv.ctlValid n c hc
  case newCtl n =>
    refine ⟨?_, ?_⟩
    · intro n' c hc
      simp only [Act.apply, stoppedOf_eq, stoppedOfObjs_append_new, List.length_append, List.length_cons,
        List.length_nil, aget_cons] at hc ⊢
      split at hc
      · cases hc
        refine ⟨by omega, ?_⟩
        simp [stoppedOfObjs]
      · have := hinv.ctlValid n' c hc
        exact ⟨by omega, this.2⟩
    · intro n1 n2 c h1 h2
      simp only [Act.apply, aget_cons] at h1 h2
      split at h1
      · rename_i e1
        cases h1
        split at h2
        · rename_i e2; rw [← e1, ← e2]
        · have := (hinv.ctlValid n2 _ h2).1; omega
      · split at h2
        · cases h2
          have := (hinv.ctlValid n1 _ h1).1; omega
        · exact hinv.ctlInj n1 n2 c h1 h2
  case finishStop n cid =>
    obtain ⟨op, pc⟩ := t
    have hpc := hf.1
    simp only at hpc
    subst hpc
    simp only [TFacts] at hfacts
    have key : ∀ n' c, aget n' (adel n s.ctrls) = some c → n' ≠ n ∧ aget n' s.ctrls = some c ∧ c ≠ cid := by
      intro n' c hc
      have hne : n ≠ n' := by
        intro e; subst e; rw [aget_adel_self] at hc; cases hc
      rw [aget_adel_ne hne] at hc
      refine ⟨fun e => hne e.symm, hc, ?_⟩
      intro e; subst e
      exact hne (hinv.ctlInj n n' c hfacts hc)
    refine ⟨?_, ?_⟩
    · intro n' c hc
      simp only [Act.apply] at hc
      obtain ⟨_, hc', hne⟩ := key n' c hc
      rw [stoppedOf_finishStop]
      simp only [Act.apply, modCtl_length, hne, false_and, if_false]
      exact hinv.ctlValid n' c hc'
    · intro n1 n2 c h1 h2
      simp only [Act.apply] at h1 h2
      exact hinv.ctlInj n1 n2 c (key n1 c h1).2.1 (key n2 c h2).2.1

theorem stop_step (hinv : Inv s) (ht : s.threads[i]? = some t)
    (hn : next Cfg.fixed s i t ch = some (pc', act)) (ths : List Thread) :
    (∀ (cid : Nat) (c : Ctl), (act.apply { s with threads := ths }).objs[cid]? = some c → c.stopped = true →
      c.cancelled = true ∧ c.sources = [] ∧ ∀ r ∈ (act.apply { s with threads := ths }).regs, r.cid ≠ cid) ∧
    (∀ (cid : Nat) (c : Ctl), (act.apply { s with threads := ths }).objs[cid]? = some c → c.cancelled = c.stopped) := by
  have hf := next_act_cases hn
  have hfacts := hinv.tfacts i t ht
  cases act
  case nop => exact ⟨hinv.stopClean, hinv.cancelStop⟩
  case logEv e => exact ⟨hinv.stopClean, hinv.cancelStop⟩
  case getInformer g f =>
    obtain ⟨e1, _, e3, _, _⟩ := apply_getInformer_fields g f { s with threads := ths }
    rw [e1, e3]; exact ⟨hinv.stopClean, hinv.cancelStop⟩
  case rmInformer g =>
    refine ⟨?_, hinv.cancelStop⟩
    intro cid c hc hs
    obtain ⟨h1, h2, h3⟩ := hinv.stopClean cid c hc hs
    exact ⟨h1, h2, fun r hr => h3 r (List.mem_filter.1 hr).1⟩
  case newCtl n =>
    have key : ∀ (cid : Nat) (c : Ctl), (s.objs ++ [(⟨n, [], false, false⟩ : Ctl)])[cid]? = some c →
        s.objs[cid]? = some c ∨ c = ⟨n, [], false, false⟩ := by
      intro cid c hc
      rw [List.getElem?_append] at hc
      split at hc
      · exact Or.inl hc
      · right
        by_cases e : cid - s.objs.length = 0
        · rw [e] at hc; simp at hc; exact hc.symm
        · have : 1 ≤ cid - s.objs.length := by omega
          rw [List.getElem?_eq_none (by simpa using this)] at hc; cases hc
    refine ⟨?_, ?_⟩
    · intro cid c hc hs
      simp only [Act.apply] at hc ⊢
      rcases key cid c hc with h | rfl
      · exact hinv.stopClean cid c h hs
      · cases hs
    · intro cid c hc
      simp only [Act.apply] at hc
      rcases key cid c hc with h | rfl
      · exact hinv.cancelStop cid c h
      · rfl
  case finishStop n cid =>
    obtain ⟨hpc, hempty⟩ := hf
    refine ⟨?_, ?_⟩
    · intro k c hc hs
      simp only [Act.apply, getElem?_modCtl] at hc ⊢
      by_cases e : k = cid
      · subst e
        simp only [if_true] at hc
        cases hk : s.objs[k]? with
        | none => rw [hk] at hc; cases hc
        | some c0 =>
          rw [hk] at hc
          simp only [Option.map_some, Option.some.injEq] at hc
          subst hc
          have hsrc : c0.sources = [] := by
            have := hempty
            simp only [srcsOf, hk] at this
            exact this
          refine ⟨rfl, hsrc, ?_⟩
          intro r hr hcid
          have := hinv.own r hr
          rw [hcid, hempty] at this
          cases this
      · simp only [e, if_false] at hc
        exact hinv.stopClean k c hc hs
    · intro k c hc
      simp only [Act.apply, getElem?_modCtl] at hc
      by_cases e : k = cid
      · subst e
        simp only [if_true] at hc
        cases hk : s.objs[k]? with
        | none => rw [hk] at hc; cases hc
        | some c0 =>
          rw [hk] at hc
          simp only [Option.map_some, Option.some.injEq] at hc
          subst hc
          rfl
      · simp only [e, if_false] at hc
        exact hinv.cancelStop k c hc
  case addReg cid wid h =>
    obtain ⟨a, st, rest, hpc, _, _⟩ := hf
    obtain ⟨op, pc⟩ := t
    simp only at hpc
    subst hpc
    simp only [TFacts] at hfacts
    have hst : stoppedOf s cid = false := hfacts.1
    refine ⟨?_, ?_⟩
    · intro k c hc hs
      simp only [Act.apply, getElem?_modCtl] at hc ⊢
      by_cases e : k = cid
      · subst e
        simp only [if_true] at hc
        cases hk : s.objs[k]? with
        | none => rw [hk] at hc; cases hc
        | some c0 =>
          rw [hk] at hc
          simp only [Option.map_some, Option.some.injEq] at hc
          subst hc
          simp only [stoppedOf, hk] at hst
          simp only at hs
          rw [hst] at hs
          cases hs
      · simp only [e, if_false] at hc
        obtain ⟨h1, h2, h3⟩ := hinv.stopClean k c hc hs
        refine ⟨h1, h2, ?_⟩
        intro r hr
        rcases List.mem_cons.1 hr with rfl | hr'
        · exact fun x => e x.symm
        · exact h3 r hr'
    · intro k c hc
      simp only [Act.apply, getElem?_modCtl] at hc
      by_cases e : k = cid
      · subst e
        simp only [if_true] at hc
        cases hk : s.objs[k]? with
        | none => rw [hk] at hc; cases hc
        | some c0 =>
          rw [hk] at hc
          simp only [Option.map_some, Option.some.injEq] at hc
          subst hc
          exact hinv.cancelStop k c0 hk
      · simp only [e, if_false] at hc
        exact hinv.cancelStop k c hc
  case delReg cid wid reg =>
    refine ⟨?_, ?_⟩
    · intro k c hc hs
      simp only [Act.apply, getElem?_modCtl] at hc ⊢
      by_cases e : k = cid
      · subst e
        simp only [if_true] at hc
        cases hk : s.objs[k]? with
        | none => rw [hk] at hc; cases hc
        | some c0 =>
          rw [hk] at hc
          simp only [Option.map_some, Option.some.injEq] at hc
          subst hc
          simp only at hs
          obtain ⟨h1, h2, h3⟩ := hinv.stopClean k c0 hk hs
          refine ⟨h1, ?_, fun r hr => h3 r (List.mem_filter.1 hr).1⟩
          simp only [h2]; rfl
      · simp only [e, if_false] at hc
        obtain ⟨h1, h2, h3⟩ := hinv.stopClean k c hc hs
        exact ⟨h1, h2, fun r hr => h3 r (List.mem_filter.1 hr).1⟩
    · intro k c hc
      simp only [Act.apply, getElem?_modCtl] at hc
      by_cases e : k = cid
      · subst e
        simp only [if_true] at hc
        cases hk : s.objs[k]? with
        | none => rw [hk] at hc; cases hc
        | some c0 =>
          rw [hk] at hc
          simp only [Option.map_some, Option.some.injEq] at hc
          subst hc
          exact hinv.cancelStop k c0 hk
      · simp only [e, if_false] at hc
        exact hinv.cancelStop k c hc

end step

/-- the invariant is preserved by every step of the fixed engine -/
theorem Inv_step {s s' : Sys} {i : Nat} {ch : Choice} (hinv : Inv s)
    (h : step Cfg.fixed s i ch = some s') : Inv s' := by
  have hm' := Mutex_step hinv.mutex h
  obtain ⟨t, pc', act, ht, hn, hs⟩ := step_unpack h
  have hth := step_threads ht hs
  subst hs
  obtain ⟨hcv, hci⟩ := ctl_step hinv ht hn (s.threads.set i { t with pc := pc' })
  obtain ⟨hsc, hcs⟩ := stop_step hinv ht hn (s.threads.set i { t with pc := pc' })
  refine { mutex := hm', tvalid := ?_, tfacts := ?_, regId := regId_step hinv _, regUniq := regUniq_step hinv _,
           regLive := regLive_step hinv hn _, liveTracked := liveTracked_step hinv _,
           own := own_step hinv ht hn _, ctlValid := hcv, ctlInj := hci, stopClean := hsc, cancelStop := hcs }
  · intro j tj hj
    rw [hth j] at hj
    by_cases e : j = i
    · simp only [e, if_true, Option.some.injEq] at hj
      subst hj
      exact TValid_self hinv ht hn _
    · simp only [e, if_false] at hj
      intro c hc
      have hl : s.objs.length ≤ (act.apply { s with threads := s.threads.set i { t with pc := pc' } }).objs.length :=
        apply_objs_length_ge act { s with threads := s.threads.set i { t with pc := pc' } }
      exact Nat.lt_of_lt_of_le (hinv.tvalid j tj hj c hc) hl
  · intro j tj hj
    rw [hth j] at hj
    by_cases e : j = i
    · simp only [e, if_true, Option.some.injEq] at hj
      subst hj
      exact TFacts_self hinv ht hn _
    · simp only [e, if_false] at hj
      exact TFacts_other hinv.mutex (fun x => e x.symm) ht hj hn _ (hinv.tfacts j tj hj)

theorem Inv_reachable {ops : List Op} {s : Sys} (h : Reachable Cfg.fixed ops s) : Inv s := by
  induction h with
  | init => exact Inv_init ops
  | step i ch _ hs ih => exact Inv_step ih hs

end Xp.C13

import Xp.Model.C06
/-
C06 helper lemmas, part 5: the managed-fields upgrader's decision (`upgradeScan`, `upgradeDecision`, the loop
and the switch of PatchingManagedFieldsUpgrader.Upgrade) and the server's answer to its two JSON patches
(`applyUpDec`), for ALL manager lists.
-/
namespace Xp.C06

theorem scan_fst (ssa : String) (l : List String) (i : Nat) (fs : Bool) (ib : Option Nat) :
    (upgradeScan ssa l i fs ib).1 = true ↔ fs = true ∨ ssa ∈ l := by
  induction l generalizing i fs ib with
  | nil => simp [upgradeScan]
  | cons m ms ih =>
    simp only [upgradeScan, ih, Bool.or_eq_true, beq_iff_eq, List.mem_cons]
    constructor
    · rintro ((h | h) | h)
      · exact Or.inl h
      · exact Or.inr (Or.inl h.symm)
      · exact Or.inr (Or.inr h)
    · rintro (h | h | h)
      · exact Or.inl (Or.inl h)
      · exact Or.inl (Or.inr h.symm)
      · exact Or.inr h

theorem scan_snd_none (ssa : String) (l : List String) (i : Nat) (fs : Bool) (ib : Option Nat) :
    (upgradeScan ssa l i fs ib).2 = none ↔ ib = none ∧ bfaManager ∉ l := by
  induction l generalizing i fs ib with
  | nil => simp [upgradeScan]
  | cons m ms ih =>
    simp only [upgradeScan, ih, List.mem_cons, not_or]
    by_cases h : m = bfaManager
    · simp [h]
    · have h' : ¬ bfaManager = m := fun e => h e.symm
      simp [h, h']

/-- the index the loop ends with is either the one it started with (no before-first-apply entry in the
list) or the LAST position of a before-first-apply entry -/
theorem scan_snd_some (ssa : String) (l : List String) (i : Nat) (fs : Bool) (ib : Option Nat) (j : Nat) :
    (upgradeScan ssa l i fs ib).2 = some j →
      (ib = some j ∧ bfaManager ∉ l) ∨
      (i ≤ j ∧ l[j - i]? = some bfaManager ∧ ∀ k, j - i < k → l[k]? ≠ some bfaManager) := by
  induction l generalizing i fs ib with
  | nil => intro h; exact Or.inl ⟨by simpa [upgradeScan] using h, by simp⟩
  | cons m ms ih =>
    intro h
    simp only [upgradeScan] at h
    rcases ih _ _ _ h with ⟨hib, hnot⟩ | ⟨hle, hget, hlast⟩
    · by_cases hm : m = bfaManager
      · have hb : (m == bfaManager) = true := by simpa using hm
        rw [if_pos hb] at hib
        cases hib
        refine Or.inr ⟨Nat.le_refl _, by simp [hm], ?_⟩
        intro k hk
        cases k with
        | zero => omega
        | succ k =>
          simp only [List.getElem?_cons_succ]
          intro hh
          exact hnot (List.mem_of_getElem? hh)
      · have hb : ¬ (m == bfaManager) = true := by simpa using hm
        rw [if_neg hb] at hib
        refine Or.inl ⟨hib, ?_⟩
        simp only [List.mem_cons, not_or]
        exact ⟨fun e => hm e.symm, hnot⟩
    · refine Or.inr ⟨by omega, ?_, ?_⟩
      · have e : j - i = (j - (i + 1)) + 1 := by omega
        rw [e, List.getElem?_cons_succ]
        exact hget
      · intro k hk
        cases k with
        | zero => omega
        | succ k =>
          rw [List.getElem?_cons_succ]
          exact hlast k (by omega)

theorem scan_eta (ssa : String) (mf : List String) :
    upgradeScan ssa mf 0 false none = ((upgradeScan ssa mf 0 false none).1, (upgradeScan ssa mf 0 false none).2) := rfl

theorem decision_none_iff (ssa : String) (mf : List String) :
    upgradeDecision ssa mf = none ↔ ssa ∈ mf ∧ bfaManager ∉ mf := by
  have h1 := scan_fst ssa mf 0 false none
  have h2 := scan_snd_none ssa mf 0 false none
  unfold upgradeDecision
  rw [scan_eta]
  cases hf : (upgradeScan ssa mf 0 false none).1 <;> cases hs : (upgradeScan ssa mf 0 false none).2 <;>
    simp_all

theorem decision_clear_iff (ssa : String) (mf : List String) :
    upgradeDecision ssa mf = some .clear ↔ ssa ∉ mf := by
  have h1 := scan_fst ssa mf 0 false none
  unfold upgradeDecision
  rw [scan_eta]
  cases hf : (upgradeScan ssa mf 0 false none).1 <;> cases hs : (upgradeScan ssa mf 0 false none).2 <;>
    simp_all

theorem decision_remove (ssa : String) (mf : List String) (i : Nat) (h : upgradeDecision ssa mf = some (.removeAt i)) :
    ssa ∈ mf ∧ mf[i]? = some bfaManager ∧ ∀ k, i < k → mf[k]? ≠ some bfaManager := by
  have h1 := scan_fst ssa mf 0 false none
  have h3 := scan_snd_some ssa mf 0 false none i
  unfold upgradeDecision at h
  rw [scan_eta] at h
  cases hf : (upgradeScan ssa mf 0 false none).1 <;> cases hs : (upgradeScan ssa mf 0 false none).2 <;>
    simp_all

theorem decision_remove_of (ssa : String) (mf : List String) (i : Nat) (hs : ssa ∈ mf) (hget : mf[i]? = some bfaManager)
    (hlast : ∀ k, i < k → mf[k]? ≠ some bfaManager) : upgradeDecision ssa mf = some (.removeAt i) := by
  cases hd : upgradeDecision ssa mf with
  | none => exact absurd (List.mem_of_getElem? hget) ((decision_none_iff ssa mf).mp hd).2
  | some d =>
    cases d with
    | clear => exact absurd hs ((decision_clear_iff ssa mf).mp hd)
    | removeAt j =>
      obtain ⟨_, hj, hjl⟩ := decision_remove ssa mf j hd
      have : i = j := by
        rcases Nat.lt_trichotomy i j with h | h | h
        · exact absurd hj (hlast j h)
        · exact h
        · exact absurd hget (hjl i h)
      rw [this]

theorem mem_touchMgr (m : String) (mf : List String) : m ∈ touchMgr m mf := by
  unfold touchMgr
  split
  · rename_i h; simpa using h
  · simp

theorem ssa_mem_applyMf (mf : List String) : ssaManager ∈ applyMf mf := by
  unfold applyMf
  split
  · simp
  · exact mem_touchMgr _ _

/-! ### server-side Sync: the forced apply comes after an accepted Update(claim) (helper lemmas) -/

/-- along the run of `p` in which every request `r` is answered `reply r` (any replies: errors of any class,
stale or fresh objects), every forced apply of an XR comes after an `Update(claim)` of the same run that the
server ACCEPTED (answered with the stored claim); `seen` = such an update has already happened -/
def applyAfterUpd (reply : Req → Resp) : Nat → Bool → P → Bool
  | 0, _, _ => true
  | _, _, .ret _ => true
  | f + 1, seen, .call r k =>
    (match r with | .applyXR _ _ => seen | _ => true) &&
    applyAfterUpd reply f (seen || (match r, reply r with | .updClaim _, .claim _ => true | _, _ => false)) (k (reply r))

theorem applyAfterUpd_seen (reply : Req → Resp) (f : Nat) (p : P) : applyAfterUpd reply f true p = true := by
  induction f generalizing p with
  | zero => rfl
  | succ f ih =>
    cases p with
    | ret a => rfl
    | call r k =>
      simp only [applyAfterUpd, Bool.true_or, ih, Bool.and_true]
      cases r <;> rfl

theorem applyAfterUpd_statusThen (reply : Req → Resp) (f : Nat) (b : Bool) (cm : Claim) (r : Res) :
    applyAfterUpd reply f b (statusThen cm r) = true := by
  cases f with
  | zero => rfl
  | succ f =>
    simp only [statusThen, applyAfterUpd, Bool.true_and]
    cases f with
    | zero => rfl
    | succ f => cases reply (.updClaimStatus cm.rv) <;> rfl

theorem applyAfterUpd_failWith (reply : Req → Resp) (f : Nat) (b : Bool) (cm : Claim) (e : Err) :
    applyAfterUpd reply f b (failWith cm e) = true := by
  cases e <;> first
    | exact applyAfterUpd_statusThen reply f b cm .requeue
    | (cases f <;> rfl)

theorem applyAfterUpd_ssaBind (reply : Req → Resp) (f : Nat) (cfg : Cfg) (cm : Claim) (n : Name) :
    applyAfterUpd reply f false (ssaBind cfg cm n) = true := by
  cases f with
  | zero => rfl
  | succ f =>
    simp only [ssaBind, applyAfterUpd, Bool.true_and, Bool.false_or]
    cases reply (.updClaim { cm with ref := some (mkXRef cfg.xrt n) }) with
    | claim c => exact applyAfterUpd_seen reply f _
    | err e => exact applyAfterUpd_failWith reply f _ cm e
    | xr x => cases f <;> rfl
    | ok => cases f <;> rfl

theorem applyAfterUpd_genName (reply : Req → Resp) (xpick : Nat → Option (List (Option XR) → Option (Option XR)))
    (k : Option Name → P) (hk : ∀ f o, applyAfterUpd reply f false (k o) = true) (t : Nat) :
    ∀ (f j : Nat) (cands : List Name), applyAfterUpd reply f false (genName xpick t j cands k) = true := by
  induction t with
  | zero => intro f j cands; unfold genName; exact hk f none
  | succ t ih =>
    intro f j cands
    cases cands with
    | nil => unfold genName; exact hk f none
    | cons c cs =>
      unfold genName
      cases f with
      | zero => rfl
      | succ f =>
        simp only [applyAfterUpd, Bool.true_and, Bool.false_or]
        cases hr : reply (.getXR c (xpick j)) with
        | claim x => exact hk f none
        | ok => exact hk f none
        | xr x => exact ih f (j + 1) cs
        | err e => cases e <;> first | exact hk f (some c) | exact hk f none

end Xp.C06

import Xp.Proofs.C16Release
/-
C16: what a *successful* Establish / ReleaseObjects guarantees for every object it was given.
-/
namespace Xp.C16

theorem apiUpdate_ok (rejects : Obj → Bool) (oc : Outcome) (s s' : Store) (o : Obj)
    (h : apiUpdate rejects false oc s o = (s', .ok)) :
    ∃ c, s.get o.key = some c ∧ s' = replaceObj s c o none := by
  unfold apiUpdate at h
  split at h <;> try (simp at h; done)
  · split at h
    · simp at h
    · rename_i c hc
      simp only [Bool.false_eq_true, if_false, Prod.mk.injEq, and_true] at h
      exact ⟨c, (checkUpdate_ok s o c hc).1, h.symm⟩
  · split at h <;> simp at h

theorem apiCreate_ok (rejects : Obj → Bool) (oc : Outcome) (s s' : Store) (o : Obj)
    (h : apiCreate rejects false oc s o = (s', .ok)) :
    s' = insertObj s o ⟨.create, o.key, none, true⟩ := by
  unfold apiCreate at h
  split at h <;> try (simp at h; done)
  · split at h
    · simp at h
    · simp only [Bool.false_eq_true, if_false, Prod.mk.injEq, and_true] at h
      exact h.symm
  · split at h <;> simp at h

theorem sameContent_owners (a b : Obj) (h : sameContent a b = true) : a.owners = b.owners := by
  unfold sameContent at h
  simp only [Bool.and_eq_true, beq_iff_eq] at h
  exact h.1

/-- after an accepted update some stored object has the key and the owner references submitted -/
theorem replaceObj_has (s : Store) (c o : Obj) (e : Option Err) (hget : s.get o.key = some c) :
    ∃ o' ∈ (replaceObj s c o e).objs, o'.key = o.key ∧ o'.owners = o.owners := by
  unfold replaceObj
  split
  · rename_i hs
    exact ⟨c, get_mem s _ c hget, get_key s _ c hget, sameContent_owners c o hs⟩
  · refine ⟨{ o with rv := s.nextRv }, ?_, rfl, rfl⟩
    exact List.mem_map.mpr ⟨c, get_mem s _ c hget, by simp [get_key s _ c hget]⟩

theorem liftW_eq_ok {α : Type} (a b : α) (x : Store × WR) (s' : Store) (h : liftW a x = (s', .ok b)) :
    x = (s', .ok) := by
  obtain ⟨s, r⟩ := x
  cases r <;> simp [liftW] at h
  simp [h.1]

/-- the owner reference a revision holds on what it establishes -/
def mineRef (p : Parent) (control : Bool) : ORef := if control then asController p else asOwner p

/-- `o'` is established for `p` -/
def IsMine (p : Parent) (control : Bool) (k : String) (l : List Obj) : Prop :=
  ∃ o' ∈ l, o'.key = k ∧ mineRef p control ∈ o'.owners

theorem isMine_evolves (p : Parent) (control : Bool) (k : String) (l l' : List Obj)
    (h : IsMine p control k l) (he : Evolves (QE p control) (CE p control) l l') : IsMine p control k l' := by
  obtain ⟨o, ho, hk, hm⟩ := h
  obtain ⟨o', ho', hk', hr⟩ := he.fwd o ho
  refine ⟨o', ho', hk'.trans hk, ?_⟩
  rcases hr with e | q
  · subst e; exact hm
  · exact q.mine

theorem updateSub_mine (p : Parent) (control : Bool) (cur des sub : Obj) (h : updateSub p control cur des = .ok sub) :
    mineRef p control ∈ sub.owners := by
  unfold updateSub at h
  cases control with
  | true =>
    simp only [if_true] at h
    split at h
    · cases h
    · rename_i refs hrefs
      have e := addController_ok _ _ _ hrefs
      simp only [Except.ok.injEq] at h
      subst h; subst e
      exact mem_addOwner_self _ _
  | false =>
    simp only [Bool.false_eq_true, if_false, Except.ok.injEq] at h
    subst h
    exact mem_addOwner_self _ _

/-- a goroutine of `establish` that reports success leaves its object established
(unless the revision is inactive and the object does not exist) -/
theorem establishOne_ok (rejects : Obj → Bool) (fault : Fault) (p : Parent) (control : Bool)
    (s s' : Store) (i : Nat) (cd : CD) (k : Ref)
    (hk : ∀ cur, cd.current = some cur → cur.key = cd.desired.key)
    (h : establishOne rejects fault p control s i cd = (s', .ok k))
    (hc : control = true ∨ cd.current.isSome = true) :
    IsMine p control cd.desired.key s'.objs := by
  unfold establishOne at h
  split at h
  · rename_i hcur
    rcases hc with hc | hc
    · subst hc
      simp only [if_true] at h
      have := apiCreate_ok _ _ _ _ _ (liftW_eq_ok _ _ _ _ h)
      subst this
      refine ⟨_, List.mem_append_right _ List.mem_cons_self, rfl, ?_⟩
      simp [mineRef, createRefs]
    · rw [hcur] at hc; cases hc
  · rename_i cur hcur
    split at h
    · simp at h
    · rename_i sub hsub
      obtain ⟨c, hget, hs'⟩ := apiUpdate_ok _ _ _ _ _ (liftW_eq_ok _ _ _ _ h)
      subst hs'
      obtain ⟨o', ho', hk', hown⟩ := replaceObj_has s c sub none hget
      have ⟨hsk, _⟩ := updateSub_key p control cur cd.desired sub hsub
      refine ⟨o', ho', ?_, hown ▸ updateSub_mine p control cur cd.desired sub hsub⟩
      rw [hk', hsk]
      cases control <;> simp [hk cur hcur]

theorem cdinv_key (s₀ : Store) (cd : CD) (h : CDInv s₀ cd) : ∀ cur, cd.current = some cur → cur.key = cd.desired.key := by
  intro cur hcur
  obtain ⟨c₀, _, hk₀, hck, _⟩ := h cur hcur
  exact hck.trans hk₀

/-- if the establish phase reports success, every object it was given is established -/
theorem establishAll_ok (rejects : Obj → Bool) (fault : Fault) (p : Parent) (control : Bool)
    (s₀ s s' : Store) (ys : List (Nat × CD)) (ks : List Ref) (hw₀ : WF s₀) (hi : EInv p control s₀ s)
    (hcd : ∀ y ∈ ys, CDInv s₀ y.2)
    (h : establishAll rejects fault p control s ys = (s', .ok ks)) :
    ∀ y ∈ ys, (control = true ∨ y.2.current.isSome = true) → IsMine p control y.2.desired.key s'.objs := by
  induction ys generalizing s ks with
  | nil => intro y hy; cases hy
  | cons y rest ih =>
    obtain ⟨i, cd⟩ := y
    have hrest : ∀ y ∈ rest, CDInv s₀ y.2 := fun y hy => hcd y (List.mem_cons_of_mem _ hy)
    have hcd0 := hcd (i, cd) List.mem_cons_self
    have h1 := establishOne_inv rejects fault p control s₀ s i cd hw₀ hi hcd0
    unfold establishAll at h
    split at h
    · simp at h
    · split at h <;> simp at h
    · rename_i s1 k heq
      rw [heq] at h1
      simp only at h1
      split at h
      · rename_i s2 ks' heq2
        simp only [Prod.mk.injEq, R.ok.injEq] at h
        obtain ⟨hs, _⟩ := h
        subst hs
        intro y hy hc
        rcases List.mem_cons.mp hy with e | e
        · subst e
          have hm := establishOne_ok rejects fault p control s s1 i cd k (cdinv_key s₀ cd hcd0) heq hc
          have hstep := establishAll_step rejects fault p control s₀ s1 rest hw₀ h1 hrest
          rw [heq2] at hstep
          exact isMine_evolves p control _ _ _ hm hstep
        · exact ih s1 ks' h1 hrest heq2 y e hc
      · simp at h
      · simp at h

theorem validateGo_shape (rejects : Obj → Bool) (fault : Fault) (p : Parent) (control : Bool)
    (s : Store) (i : Nat) (d : Desired) (cd : CD)
    (h : (validateGo rejects fault p control s i d).2 = .ok cd) :
    cd.desired.key = d.key ∧ cd.current.isSome = (s.get d.key).isSome := by
  unfold validateGo at h
  split at h <;> try (simp at h; done)
  split at h
  · rename_i hget
    split at h
    · have := liftW_ok _ _ _ h
      subst this
      simp [desiredObj, hget]
    · simp only [R.ok.injEq] at h
      subst h
      simp [desiredObj, hget]
  · rename_i c₀ hget
    split at h
    · simp at h
    · rename_i sub hsub
      have := liftW_ok _ _ _ h
      subst this
      have ⟨hsk, _⟩ := updateSub_key p control c₀ (desiredObj d) sub hsub
      cases control <;> simp_all [desiredObj]

theorem validateOne_shape (rejects : Obj → Bool) (fault : Fault) (p : Parent) (control : Bool)
    (s : Store) (i : Nat) (d : Desired) (cd : CD)
    (h : (validateOne rejects fault p control s i d).2 = .ok cd) :
    cd.desired.key = d.key ∧ cd.current.isSome = (s.get d.key).isSome := by
  unfold validateOne at h
  split at h
  · simp at h
  · exact validateGo_shape rejects fault p control s i d cd h

/-- a successful validate returns one `CD` per listed object, for that object -/
theorem validateAll_shape (rejects : Obj → Bool) (fault : Fault) (p : Parent) (control : Bool)
    (s : Store) (xs : List (Nat × Desired)) (cds : List (Nat × CD))
    (h : (validateAll rejects fault p control s xs).2 = .ok cds) :
    (∀ x ∈ xs, ∃ cd, (x.1, cd) ∈ cds) ∧
    (∀ y ∈ cds, ∃ d, (y.1, d) ∈ xs ∧ y.2.desired.key = d.key ∧ y.2.current.isSome = (s.get d.key).isSome) := by
  induction xs generalizing cds with
  | nil =>
    simp [validateAll] at h
    subst h
    exact ⟨(fun x hx => absurd hx List.not_mem_nil), (fun y hy => absurd hy List.not_mem_nil)⟩
  | cons x rest ih =>
    obtain ⟨i, d⟩ := x
    unfold validateAll at h
    have h1 := validateOne_store rejects fault p control s i d
    split at h <;> rename_i s1 _ heq <;> (rw [heq] at h1; simp only at h1; subst h1)
    · simp at h
    · split at h <;> simp at h
    · rename_i cd
      have hsh := validateOne_shape rejects fault p control s1 i d cd (by rw [heq])
      split at h <;> rename_i s2 _ heq2
      · simp only [R.ok.injEq] at h
        subst h
        rename_i cds'
        have ⟨ih1, ih2⟩ := ih cds' (by rw [heq2])
        constructor
        · intro x hx
          rcases List.mem_cons.mp hx with e | e
          · subst e; exact ⟨cd, List.mem_cons_self⟩
          · obtain ⟨cd', hcd'⟩ := ih1 x e
            exact ⟨cd', List.mem_cons_of_mem _ hcd'⟩
        · intro y hy
          rcases List.mem_cons.mp hy with e | e
          · subst e; exact ⟨d, List.mem_cons_self, hsh.1, hsh.2⟩
          · obtain ⟨d', hd', hk'⟩ := ih2 y e
            exact ⟨d', List.mem_cons_of_mem _ hd', hk'⟩
      · simp at h
      · simp at h

theorem pick_mem {α : Type} (xs : List α) (order : List Nat) (j : Nat) (x : α) (h : (j, x) ∈ pick xs order) :
    xs[j]? = some x ∧ j ∈ order := by
  unfold pick at h
  obtain ⟨i, hi, hx⟩ := List.mem_filterMap.mp h
  cases hxi : xs[i]? with
  | none => simp [hxi] at hx
  | some a =>
    simp [hxi] at hx
    obtain ⟨e1, e2⟩ := hx
    subst e1; subst e2
    exact ⟨hxi, hi⟩

theorem pickCD_mem_of (cds : List (Nat × CD)) (order : List Nat) (j : Nat) (cd : CD)
    (hj : j ∈ order) (hcd : (j, cd) ∈ cds) : ∃ cd', (j, cd') ∈ pickCD cds order := by
  unfold pickCD
  cases hf : cds.find? (fun c => c.1 = j) with
  | none =>
    have := List.find?_eq_none.mp hf (j, cd) hcd
    simp at this
  | some y =>
    have hy : y.1 = j := by simpa using List.find?_some hf
    refine ⟨y.2, List.mem_filterMap.mpr ⟨j, hj, ?_⟩⟩
    rw [hf]
    obtain ⟨a, b⟩ := y
    simp only at hy
    subst hy
    rfl

/-- If `Establish` reports success, every object of the package (whose goroutines are
in both completion orders) is established: controlled by an active parent; plainly
owned by an inactive parent if it exists. -/
theorem establishCore_ok (rejects : Obj → Bool) (fault : Fault) (p : Parent) (control : Bool)
    (s s' : Store) (objs : List Desired) (vorder eorder : List Nat) (ks : List Ref) (hw : WF s)
    (h : establishCore rejects fault p control s objs vorder eorder = (s', .ok ks))
    (j : Nat) (d : Desired) (hd : objs[j]? = some d) (hv : j ∈ vorder) (he : j ∈ eorder)
    (hc : control = true ∨ (s.get d.key).isSome = true) :
    IsMine p control d.key s'.objs := by
  unfold establishCore at h
  have h1 := validateAll_store rejects fault p control s (pick objs vorder)
  split at h
  · rename_i s1 cds heq
    rw [heq] at h1; simp only at h1; subst h1
    have hcds := validateAll_cdinv rejects fault p control s1 (pick objs vorder) cds (by rw [heq])
    have ⟨sh1, sh2⟩ := validateAll_shape rejects fault p control s1 (pick objs vorder) cds (by rw [heq])
    obtain ⟨cd, hcd⟩ := sh1 (j, d) (mem_pick objs vorder j d hd hv)
    obtain ⟨cd', hcd'⟩ := pickCD_mem_of cds eorder j cd he hcd
    have hmem := mem_pickCD cds eorder _ hcd'
    obtain ⟨d', hd', hk', hsome'⟩ := sh2 (j, cd') hmem
    have ⟨hd'', _⟩ := pick_mem objs vorder j d' hd'
    rw [hd] at hd''
    cases hd''
    have := establishAll_ok rejects fault p control s1 s1 s' _ ks hw (EInv.refl p control s1 hw)
      (fun y hy => hcds y (mem_pickCD cds eorder y hy)) h (j, cd') hcd'
      (by rcases hc with hc | hc
          · exact Or.inl hc
          · exact Or.inr (by simp only at hsome'; rw [hsome']; exact hc))
    simp only at this hk'
    rw [hk'] at this
    exact this
  · simp at h
  · simp at h

theorem establish_ok (rejects : Obj → Bool) (fault : Fault) (p : Parent) (control : Bool)
    (s s' : Store) (objs : List Desired) (vorder eorder : List Nat) (ks : List Ref) (hw : WF s)
    (h : establish rejects fault p control s objs vorder eorder = (s', .ok ks))
    (j : Nat) (d : Desired) (hd : objs[j]? = some d) (hv : j ∈ vorder) (he : j ∈ eorder)
    (hc : control = true ∨ (s.get d.key).isSome = true) :
    IsMine p control d.key s'.objs := by
  unfold establish at h
  split at h
  · simp at h
  · simp at h
  · exact establishCore_ok rejects fault p control s s' objs vorder eorder ks hw h j d hd hv he hc

/-! ### ReleaseObjects -/

/-- every stored object with key `k` has `p` as an owner whose (first) entry is no controller reference -/
def RelAll (p : Parent) (k : String) (l : List Obj) : Prop :=
  ∀ o' ∈ l, o'.key = k → hasUid o'.owners p.uid ∧
    ∀ r, o'.owners.find? (fun r => r.uid = p.uid) = some r → r.isCtrl = false

theorem relAll_evolves (p : Parent) (k : String) (l l' : List Obj) (h : RelAll p k l)
    (he : Evolves (QR p) (fun _ => False) l l') : RelAll p k l' := by
  intro o' ho' hk
  rcases he.bwd o' ho' with ⟨o, ho, hko, hr⟩ | ⟨_, hf⟩
  · rcases hr with e | q
    · subst e; exact h o' ho hk
    · exact ⟨q.mine, q.released⟩
  · exact hf.elim

theorem releaseSub_none (p : Parent) (cur : Obj) (h : releaseSub p cur = none) :
    hasUid cur.owners p.uid ∧ ∀ r, cur.owners.find? (fun r => r.uid = p.uid) = some r → r.isCtrl = false := by
  unfold releaseSub at h
  split at h
  · rename_i r hr
    split at h
    · cases h
    · rename_i hc
      refine ⟨⟨r, List.mem_of_find?_eq_some hr, by simpa using List.find?_some hr⟩, ?_⟩
      intro r' hr'
      rw [hr] at hr'
      cases hr'
      simpa using hc
  · cases h

theorem releaseOne_ok (rejects : Obj → Bool) (fault : Fault) (p : Parent) (ran : Nat → Bool)
    (s s' : Store) (i : Nat) (ref : Ref) (hw : WF s)
    (h : releaseOne rejects fault p ran s i ref = (s', .ok ())) : RelAll p ref.key s'.objs := by
  unfold releaseOne at h
  split at h
  · simp at h
  · split at h
    · simp at h
    · split at h <;> try (simp at h; done)
      split at h
      · rename_i hget
        simp only [Prod.mk.injEq, and_true] at h
        subst h
        intro o' ho' hk
        exact absurd hk (get_none s ref.key hget o' ho')
      · rename_i cur hget
        have hcm := get_mem s _ cur hget
        have hck := get_key s _ cur hget
        split at h
        · rename_i hsub
          simp only [Prod.mk.injEq, and_true] at h
          subst h
          intro o' ho' hk
          have : o' = cur := hw.keys o' ho' cur hcm (hk.trans hck.symm)
          subst this
          exact releaseSub_none p o' hsub
        · rename_i sub hsub
          obtain ⟨c, hget', hs'⟩ := apiUpdate_ok _ _ _ _ _ (liftW_eq_ok _ _ _ _ h)
          have ⟨hsk, _⟩ := releaseSub_key p cur sub hsub
          have hq := releaseSub_QR p cur sub 0 hsub
          rw [hsk, hck, hget] at hget'
          cases hget'
          subst hs'
          intro o' ho' hk
          unfold replaceObj at ho'
          split at ho'
          · rename_i hsame
            have : o' = cur := hw.keys o' ho' cur hcm (hk.trans hck.symm)
            subst this
            have e := sameContent_owners o' sub hsame
            rw [e]
            exact ⟨hq.mine, hq.released⟩
          · simp only at ho'
            obtain ⟨x, hx, hxo⟩ := List.mem_map.mp ho'
            split at hxo
            · subst hxo
              exact ⟨hq.mine, hq.released⟩
            · subst hxo
              rename_i hne
              exact absurd (hk.trans (hck.symm.trans hsk.symm)) hne

theorem releaseAll_ok (rejects : Obj → Bool) (fault : Fault) (p : Parent) (ran : Nat → Bool)
    (s s' : Store) (xs : List (Nat × Ref)) (hw : WF s)
    (h : releaseAll rejects fault p ran s xs = (s', .ok ())) : ∀ x ∈ xs, RelAll p x.2.key s'.objs := by
  induction xs generalizing s with
  | nil => intro x hx; cases hx
  | cons x rest ih =>
    obtain ⟨i, k⟩ := x
    unfold releaseAll at h
    have h1 := releaseOne_inv rejects fault p ran s s i k (RInv.refl p s hw)
    split at h
    · simp at h
    · split at h <;> simp at h
    · rename_i s1 u heq
      rw [heq] at h1
      simp only at h1
      intro x hx
      rcases List.mem_cons.mp hx with e | e
      · subst e
        have h0 := releaseOne_ok rejects fault p ran s s1 i k hw heq
        have hrest := releaseAll_inv rejects fault p ran s1 s1 rest (RInv.refl p s1 h1.wf)
        rw [h] at hrest
        exact relAll_evolves p k.key _ _ h0 hrest.ev
      · exact ih s1 h1.wf h x e

/-- If ReleaseObjects reports success, every referenced object that exists has the
revision as an owner that is not its controller. -/
theorem release_ok (rejects : Obj → Bool) (fault : Fault) (p : Parent) (ran : Nat → Bool)
    (s s' : Store) (refs : List Ref) (order : List Nat) (hw : WF s)
    (h : release rejects fault p ran s refs order = (s', .ok ()))
    (j : Nat) (k : Ref) (hk : refs[j]? = some k) (hj : j ∈ order) : RelAll p k.key s'.objs :=
  releaseAll_ok rejects fault p ran s s' _ hw h (j, k) (mem_pick refs order j k hk hj)

end Xp.C16

import Xp.Proofs.C01PT
import Xp.Proofs.C01Quiet
/-
Quiescence of the patch-and-transform composer (named templates): from a store in which
every template has its composed resource with exactly the template's content, and
spec.resourceRefs is exactly the list of those resources IN TEMPLATE ORDER (the P&T
composer does not sort its references), a fault-free reconcile issues only no-op writes
(Update(XR) with unchanged references, one merge patch per template that changes nothing,
the final Apply(XR) and Status().Update) and returns the very same store, whatever names the
generator would have proposed: none is probed, none is consumed.
-/
namespace Xp.C01

/-- the templates as the render loop leaves them when template `i` inherits `names[i]` -/
def renderedOf (tmpl : List Desired) (names : List String) : List Rendered :=
  List.zipWith (fun d n => (⟨d, n, true⟩ : Rendered)) tmpl names

/-- the references the P&T composer writes for these templates and names: template order, unsorted -/
def refsPT (tmpl : List Desired) (names : List String) : List Ref :=
  List.zipWith (fun d n => (⟨d.kind, n⟩ : Ref)) tmpl names

/-- what "the composed state matches the desired state" means in the model for the P&T
composer: `names[i]` is the metadata.name of the composed resource of template `tmpl[i]`.

Not required (the statement is stronger without them): the full invariant `Good` (only
uniqueness of object keys is used), that the composed resources are not terminating (the
model's merge patch, like the real one, does not look at deletionTimestamp), that there are
no other objects in the store, or anything about the XR's resourceVersion. -/
structure SettledPT (s : St) (tmpl : List Desired) (names : List String) : Prop where
  /-- the XR carries its finalizer (otherwise the reconcile starts by adding it: a real write) -/
  fin : s.xrFin = true
  /-- an API server never holds two objects of the same kind and name (part of `Good`); without
  it "the object of template i" is not well defined (`mapObj` rewrites every match) -/
  nodupObjs : (s.objs.map key).Nodup
  /-- one name per template -/
  len : names.length = tmpl.length
  /-- template names are pairwise distinct (`TmplOK.nodup`: enforced by Composition validation) -/
  nodup : (tmpl.map (·.rname)).Nodup
  /-- all templates are named (the model covers named templates only: an object without the
  composition-resource-name annotation makes `associatePT` leave the model) -/
  rnameNe : ∀ d ∈ tmpl, d.rname ≠ ""
  /-- a reference with an empty name is skipped by AssociateTemplates: its template would be
  rendered anew under a generated name -/
  nameNe : ∀ n ∈ names, n ≠ ""
  /-- the API server accepts every template's content (none is rejected as invalid: a rejected
  patch is not a change either, but the reconcile then reports `handled`, not `success`) -/
  valid : ∀ d ∈ tmpl, d.content ≠ invalidContent
  /-- every template has its object: right kind and name, annotated with the template name,
  controlled by the XR, content as rendered -/
  obj : ∀ p ∈ tmpl.zip names, ∃ o ∈ s.objs, o.kind = p.1.kind ∧ o.name = p.2 ∧ o.annot = p.1.rname ∧
    o.ctrl = .xr ∧ o.content = p.1.content
  /-- spec.resourceRefs is exactly what the composer would write, in template order -/
  refs : s.refs = refsPT tmpl names

/-! ### the rendered entries of a settled store -/

/-- per-entry facts the loops need -/
structure EntryPT (s : St) (tmpl : List Desired) (e : Rendered) : Prop where
  rendered : e.rendered = true
  mem : e.d ∈ tmpl
  nameNe : e.name ≠ ""
  rnameNe : e.d.rname ≠ ""
  valid : e.d.content ≠ invalidContent
  find : ∃ o, findObj s.objs e.d.kind e.name = some o ∧ o.annot = e.d.rname ∧ o.ctrl = .xr ∧
    o.content = e.d.content

theorem renderedOf_map_d : ∀ (tmpl : List Desired) (names : List String), names.length = tmpl.length →
    (renderedOf tmpl names).map (·.d) = tmpl := by
  intro tmpl
  induction tmpl with
  | nil => intro names _; simp [renderedOf]
  | cons d ds ih =>
    intro names h
    cases names with
    | nil => simp at h
    | cons n ns =>
      simp only [List.length_cons, Nat.add_right_cancel_iff] at h
      have := ih ns h
      simp only [renderedOf] at this
      simp [renderedOf, List.zipWith, this]

theorem renderedOf_map_rkey (tmpl : List Desired) (names : List String) :
    (renderedOf tmpl names).map rkey = refsPT tmpl names := by
  induction tmpl generalizing names with
  | nil => simp [renderedOf, refsPT]
  | cons d ds ih =>
    cases names with
    | nil => simp [renderedOf, refsPT]
    | cons n ns =>
      have := ih ns
      simp only [renderedOf, refsPT] at this
      simp [renderedOf, refsPT, List.zipWith, rkey, this]

theorem mem_renderedOf {tmpl : List Desired} {names : List String} {e : Rendered}
    (h : e ∈ renderedOf tmpl names) : e.rendered = true ∧ (e.d, e.name) ∈ tmpl.zip names := by
  induction tmpl generalizing names with
  | nil => simp [renderedOf] at h
  | cons d ds ih =>
    cases names with
    | nil => simp [renderedOf] at h
    | cons n ns =>
      simp only [renderedOf, List.zipWith, List.mem_cons] at h
      rcases h with rfl | h
      · exact ⟨rfl, by simp⟩
      · have := ih (names := ns) (by simpa [renderedOf] using h)
        exact ⟨this.1, by simp [this.2]⟩

theorem SettledPT.entry {s : St} {tmpl : List Desired} {names : List String} (h : SettledPT s tmpl names)
    (e : Rendered) (he : e ∈ renderedOf tmpl names) : EntryPT s tmpl e := by
  obtain ⟨hr, hz⟩ := mem_renderedOf he
  have hd : e.d ∈ tmpl := (List.of_mem_zip hz).1
  have hn : e.name ∈ names := (List.of_mem_zip hz).2
  obtain ⟨o, ho, hk, hnm, ha, hc, hct⟩ := h.obj _ hz
  simp only at hk hnm ha hct
  refine ⟨hr, hd, h.nameNe _ hn, h.rnameNe _ hd, h.valid _ hd, o, ?_, ha, hc, hct⟩
  have := findObj_of_mem h.nodupObjs ho
  rw [hk, hnm] at this
  exact this

/-! ### associate: every reference is found and associated, nothing is garbage collected -/

/-- the association AssociateTemplates computes on a settled store -/
def assocOf (es : List Rendered) (acc : Assoc) : Assoc :=
  es.foldl (fun a e => assocInsert a e.d.rname (rkey e)) acc

theorem runOk_associatePT_settled {s : St} (lrv : Nat) (tmpl : List Desired) (k : Assoc → P) :
    ∀ (es : List Rendered) (acc : Assoc), (∀ e ∈ es, EntryPT s tmpl e) →
      runOk (associatePT lrv tmpl (es.map rkey) acc k) s = runOk (k (assocOf es acc)) s := by
  intro es
  induction es with
  | nil => intro acc _; rfl
  | cons e es ih =>
    intro acc h
    have he := h e (List.mem_cons_self ..)
    obtain ⟨o, hf, ha, _, _⟩ := he.find
    have hnm : ¬ (rkey e).name = "" := he.nameNe
    have hf' : findObj s.objs (rkey e).kind (rkey e).name = some o := hf
    simp only [List.map_cons, associatePT, hnm, if_false]
    have ha' : ¬ o.annot = "" := by rw [ha]; exact he.rnameNe
    have ht : (tmpl.any fun d => decide (d.rname = o.annot)) = true := by
      rw [List.any_eq_true]
      exact ⟨e.d, he.mem, by simp [ha]⟩
    have hrest : runOk (if o.annot = "" then onError lrv
        else if (tmpl.any (·.rname = o.annot)) = true then
          associatePT lrv tmpl (es.map rkey) (assocInsert acc o.annot (rkey e)) k
        else if o.ctrl = .other then onError lrv
        else wcall lrv (.gcUpdate o.kind o.name) fun _ => wcall lrv (.delete o.kind o.name) fun _ =>
          associatePT lrv tmpl (es.map rkey) acc k) s = runOk (k (assocOf (e :: es) acc)) s := by
      simp only [ha', if_false, ht, if_true]
      rw [ih _ (fun x hx => h x (List.mem_cons_of_mem _ hx)), ha]
      rfl
    -- in the cache, or missing from it and found by the live read: the same object either way
    by_cases hmiss : (⟨(rkey e).kind, (rkey e).name⟩ : Ref) ∈ s.miss
    · rw [runOk_call, exec_getCached_miss hmiss]
      simp only []
      rw [runOk_call, exec_getObj_some hf']
      exact hrest
    · rw [runOk_call, exec_getCached_some hf' hmiss]
      exact hrest

theorem assocOf_lookup_notin (t : String) : ∀ (es : List Rendered) (acc : Assoc),
    (∀ e ∈ es, e.d.rname ≠ t) → assocLookup (assocOf es acc) t = assocLookup acc t := by
  intro es
  induction es with
  | nil => intro acc _; rfl
  | cons e es ih =>
    intro acc h
    simp only [assocOf, List.foldl_cons]
    have := ih (assocInsert acc e.d.rname (rkey e)) (fun x hx => h x (List.mem_cons_of_mem _ hx))
    simp only [assocOf] at this
    rw [this]
    exact assocLookup_insert_ne _ _ _ _ (Ne.symm (h e (List.mem_cons_self ..)))

theorem assocOf_lookup : ∀ (es : List Rendered) (acc : Assoc), (es.map (·.d.rname)).Nodup →
    ∀ e ∈ es, assocLookup (assocOf es acc) e.d.rname = some (rkey e) := by
  intro es
  induction es with
  | nil => intro _ _ e he; cases he
  | cons x xs ih =>
    intro acc hnd e he
    simp only [List.map_cons, List.nodup_cons, List.mem_map, not_exists, not_and] at hnd
    rcases List.mem_cons.mp he with rfl | he'
    · have := assocOf_lookup_notin e.d.rname xs (assocInsert acc e.d.rname (rkey e))
        (fun y hy hyx => hnd.1 y hy hyx)
      simp only [assocOf, List.foldl_cons] at this ⊢
      rw [this]
      exact assocLookup_insert_self _ _ _
    · have := ih (assocInsert acc x.d.rname (rkey x)) hnd.2 e he'
      simpa only [assocOf, List.foldl_cons] using this

/-! ### render: every template inherits its name, no name is generated or probed -/

theorem renderPT_all_assoc (lrv : Nat) (a : Assoc) (k : List Rendered → P) :
    ∀ (es : List Rendered) (fresh : List String) (acc : List Rendered),
      (∀ e ∈ es, e.rendered = true ∧ assocLookup a e.d.rname = some (rkey e)) →
      renderPT lrv a (es.map (·.d)) fresh acc k = k (acc.reverse ++ es) := by
  intro es
  induction es with
  | nil => intro fresh acc _; simp [renderPT]
  | cons e es ih =>
    intro fresh acc h
    obtain ⟨hr, hl⟩ := h e (List.mem_cons_self ..)
    simp only [List.map_cons, renderPT, hl, rkey, if_true]
    rw [ih fresh _ (fun x hx => h x (List.mem_cons_of_mem _ hx))]
    have : (⟨e.d, e.name, true⟩ : Rendered) = e := by cases e; simp_all
    simp [this]

/-! ### the writes are no-ops -/

theorem exec_updateXR_settled {s : St} {ver : String} (hv : s.refs = [] ∨ ver = s.refsVer) :
    exec s (.updateXR s.xrRv ver s.refs) = (s, .okRv s.xrRv) := by
  simp [exec, hv]

theorem exec_mergePatch_some {s : St} {k n a : String} {c : Nat} {o : CObj} (h : findObj s.objs k n = some o)
    (hc : o.ctrl ≠ .other) (hv : c ≠ invalidContent) : exec s (.mergePatch k n a c) =
      ({ s with objs := mapObj s.objs k n (fun o => { o with annot := a, ctrl := .xr, content := c }) }, .ok) := by
  simp [exec, h, hc, hv]

theorem exec_mergePatch_settled {s : St} {tmpl : List Desired} (hnd : (s.objs.map key).Nodup) {e : Rendered}
    (he : EntryPT s tmpl e) : exec s (.mergePatch e.d.kind e.name e.d.rname e.d.content) = (s, .ok) := by
  obtain ⟨o, hf, ha, hc, hct⟩ := he.find
  have hne : o.ctrl ≠ .other := by rw [hc]; decide
  rw [exec_mergePatch_some hf hne he.valid]
  have : mapObj s.objs e.d.kind e.name (fun o => { o with annot := e.d.rname, ctrl := .xr, content := e.d.content }) = s.objs := by
    apply mapObj_id
    intro o2 ho2 hm
    obtain ⟨hmo, hko, hno⟩ := findObj_some hf
    have : o2 = o := eq_of_key_eq hnd ho2 hmo (by simp [key, hm.1, hm.2, hko, hno])
    subst this
    cases o2
    simp_all
  rw [this]

theorem runOk_applyPT_settled {s : St} {tmpl : List Desired} (hnd : (s.objs.map key).Nodup) (lrv : Nat) (k : Bool → P) :
    ∀ (l : List Rendered) (b : Bool), (∀ e ∈ l, EntryPT s tmpl e) → (∀ e ∈ l, rkey e ∉ s.miss) →
      runOk (applyPT lrv l b k) s = runOk (k b) s := by
  intro l
  induction l with
  | nil => intro b _ _; rfl
  | cons e l ih =>
    intro b hl hcached
    have hmiss : (⟨e.d.kind, e.name⟩ : Ref) ∉ s.miss := hcached e (List.mem_cons_self ..)
    have he := hl e (List.mem_cons_self ..)
    obtain ⟨o, hf, _, hc, _⟩ := he.find
    have hne : ¬ o.ctrl = .other := by rw [hc]; decide
    simp only [applyPT, he.rendered, Bool.not_true, Bool.false_eq_true, if_false]
    rw [runOk_call, exec_getCached_some hf hmiss]
    simp only [hne, if_false, wcall]
    rw [runOk_call, exec_mergePatch_settled hnd he]
    simp only []
    exact ih b (fun x hx => hl x (List.mem_cons_of_mem _ hx)) (fun x hx => hcached x (List.mem_cons_of_mem _ hx))

/-- **Quiescence (P&T composer).** From a settled store a fault-free reconcile with the
patch-and-transform composer returns `success` and leaves the store exactly as it was
(references, objects, the XR's resourceVersion), for any list `fresh` of names the generator
could propose: none is consumed. `hv`: the stored references already carry the API version the
composition emits (rewriting them with another version is a real change). `hcached`: every
referenced composed resource is in the informer cache. This hypothesis is needed for the P&T
composer (not for the function composer): its `Apply` reads through the cache only, so for a
resource that exists but is missing from the cache it takes the Create branch, the API server
answers AlreadyExists and the reconcile ends in the error epilogue (`handled`, Synced=False)
instead of `success` — see `Xp.C01.quiescent_pt_needs_cache_witness` in Xp/Props/C01.lean.
(Declared as `Xp.C01.QuietPT.quiescent_pt`; `Xp.C01.quiescent_pt` in Xp/Props/C01.lean restates it
over `run sem Plan.allOk 0`.) -/
theorem QuietPT.quiescent_pt {s : St} {tmpl : List Desired} {names : List String} (h : SettledPT s tmpl names)
    (fresh : List String) (ver : String) (hv : s.refs = [] ∨ ver = s.refsVer)
    (hcached : ∀ r ∈ s.refs, r ∉ s.miss) :
    runOk (reconcile (.pt tmpl fresh ver)) s = (s, some .success) := by
  have hent : ∀ e ∈ renderedOf tmpl names, EntryPT s tmpl e := h.entry
  have hrefs : s.refs = (renderedOf tmpl names).map rkey := by rw [renderedOf_map_rkey]; exact h.refs
  have hd : (renderedOf tmpl names).map (·.d) = tmpl := renderedOf_map_d tmpl names h.len
  have hnd : ((renderedOf tmpl names).map (·.d.rname)).Nodup := by
    have : (renderedOf tmpl names).map (·.d.rname) = ((renderedOf tmpl names).map (·.d)).map (·.rname) := by
      rw [List.map_map]; rfl
    rw [this, hd]; exact h.nodup
  unfold reconcile
  rw [runOk_call, exec_getXR]
  simp only [h.fin, if_true]
  unfold composePT
  conv => lhs; arg 1; arg 3; rw [hrefs]
  rw [runOk_associatePT_settled _ _ _ _ _ hent]
  simp only []
  conv => lhs; arg 1; arg 3; rw [← hd]
  rw [renderPT_all_assoc _ _ _ _ _ _ (fun e he => ⟨(hent e he).rendered, assocOf_lookup _ [] hnd e he⟩)]
  simp only [List.reverse_nil, List.nil_append, wcall, ← hrefs]
  rw [runOk_call, exec_updateXR_settled hv]
  simp only []
  rw [runOk_applyPT_settled h.nodupObjs _ _ _ true hent
    (fun e he => hcached _ (by rw [hrefs]; exact List.mem_map.mpr ⟨e, he, rfl⟩))]
  rw [runOk_call, exec_getXR]
  simp only []
  rw [runOk_call, exec_patchXR]
  simp only [finish]
  rw [runOk_call, exec_statusUpdate_ok]
  rfl

end Xp.C01

import Xp.Proofs.C01Quiet
import Xp.Proofs.C03Fn
/-
Informer-cache misses (`St.miss`): the fault-free observe loop computes exactly the pure
observation of the store (`observePure`, Xp/Proofs/C03Fn.lean — a function of the objects and
the references only), whatever is missing from the cache: a cached NotFound is repeated against
the API server.
-/
namespace Xp.C01

/-- what the two reads of one reference return on a fault-free run: the object the store holds,
from the cache or — when it is missing there — from the live read -/
theorem double_read_finds {s : St} {k n : String} {o : CObj} (hf : findObj s.objs k n = some o) :
    exec s (.getCached k n) = (s, .found o) ∨
    (exec s (.getCached k n) = (s, .notFound) ∧ exec s (.getObj k n) = (s, .found o)) := by
  by_cases hm : (⟨k, n⟩ : Ref) ∈ s.miss
  · exact Or.inr ⟨exec_getCached_miss hm, exec_getObj_some hf⟩
  · exact Or.inl (exec_getCached_some hf hm)

/-- The fault-free observe loop hands the pure observation of the store to its continuation (or
errors when that observation meets an unannotated resource) — for EVERY set of cache misses:
`observePure` does not look at `s.miss`. -/
theorem runOk_observeFn_pure (s : St) (lrv : Nat) (k : Obs → P) :
    ∀ (rs : List Ref) (acc : Obs),
      runOk (observeFn lrv rs acc k) s =
        match observePure s.objs rs acc with
        | some obs => runOk (k obs) s
        | none => runOk (onError lrv) s := by
  intro rs
  induction rs with
  | nil => intro acc; simp only [observeFn, observePure]
  | cons r rs ih =>
    intro acc
    by_cases hn : r.name = ""
    · rw [observePure_skip rs acc hn]
      simp only [observeFn, hn, if_true]
      exact ih acc
    · cases hf : findObj s.objs r.kind r.name with
      | none =>
        rw [observePure_none rs acc hn hf]
        simp only [observeFn, hn, if_false]
        rw [runOk_call, exec_getCached_none hf]
        simp only []
        rw [runOk_call, exec_getObj_none hf]
        exact ih acc
      | some o =>
        rw [observePure_some rs acc hn hf]
        have hread : runOk (observeFn lrv (r :: rs) acc k) s =
            runOk (if o.ctrl = .other then observeFn lrv rs acc k
              else if o.annot = "" then onError lrv
              else observeFn lrv rs (obsInsert acc o.annot o) k) s := by
          simp only [observeFn, hn, if_false]
          by_cases hmiss : (⟨r.kind, r.name⟩ : Ref) ∈ s.miss
          · rw [runOk_call, exec_getCached_miss hmiss]
            simp only []
            rw [runOk_call, exec_getObj_some hf]
          · rw [runOk_call, exec_getCached_some hf hmiss]
        rw [hread]
        by_cases hc : o.ctrl = .other
        · simp only [hc, if_true]; exact ih acc
        · simp only [hc, if_false]
          by_cases ha : o.annot = ""
          · simp only [ha, if_true]
          · simp only [ha, if_false]; exact ih _

/-- a settled store stays settled whatever is missing from the cache (the notion does not
mention the cache) -/
theorem Settled.withMiss {s : St} {names : List Named} (h : Settled s names) (ms : List Ref) :
    Settled { s with miss := ms } names :=
  ⟨h.good.withMiss ms, h.fin, h.nodup, h.rnameNe, h.noGen, h.valid, h.obj, h.refs, h.applied⟩

end Xp.C01

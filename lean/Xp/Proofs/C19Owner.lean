import Xp.Proofs.C19Final
/-
C19 helper lemmas, part 11: ownership is by uid. A reconcile of a Usage during
which the Usage and the resource its spec.by refers to exist throughout (as the
same objects: same uids) leaves the Usage with an owner reference carrying that
resource's CURRENT uid — for every number of workers, every interleaving with
other actions and every fault plan.
-/
namespace Xp.C19

/-! ### owner references of a stored Usage only grow (by uid) while it is the same object -/

/-- every owner uid of `y` is an owner uid of `y'` -/
def OwnSub (y y' : Usage) : Prop := ∀ o ∈ y.owners, ∃ o' ∈ y'.owners, o'.uid = o.uid

theorem OwnSub.refl (y : Usage) : OwnSub y y := fun o ho => ⟨o, ho, rfl⟩

theorem OwnSub.of_eq {y y' : Usage} (h : y'.owners = y.owners) : OwnSub y y' := fun o ho => ⟨o, h ▸ ho, rfl⟩

theorem addOwnerRef_uids (os : List OwnerRef) (r : OwnerRef) : ∀ o ∈ os, ∃ o' ∈ addOwnerRef os r, o'.uid = o.uid := by
  induction os with
  | nil => intro o ho; cases ho
  | cons x xs ih =>
    intro o ho
    unfold addOwnerRef
    split
    · next hx =>
      rcases List.mem_cons.mp ho with rfl | ho
      · exact ⟨r, List.mem_cons_self, hx.symm⟩
      · exact ⟨o, List.mem_cons_of_mem _ ho, rfl⟩
    · rcases List.mem_cons.mp ho with rfl | ho
      · exact ⟨o, List.mem_cons_self, rfl⟩
      · obtain ⟨o', ho', e⟩ := ih o ho
        exact ⟨o', List.mem_cons_of_mem _ ho', e⟩

/-- from `s` to `s'` a Usage that is still the same object (name and uid) keeps its owner uids -/
def Grows (s s' : Store) : Prop :=
  ∀ y ∈ s.usages, ∀ y' ∈ s'.usages, y'.name = y.name → y'.uid = y.uid → OwnSub y y'

theorem Grows.same {s s' : Store} (hs : StoreInv s) (h : s'.usages = s.usages) : Grows s s' := by
  intro y hy y' hy' hn _
  rw [h] at hy'
  rw [hs.usageUniq y' hy' y hy hn]
  exact .refl y

theorem Grows.putU {s : Store} (hs : StoreInv s) {x n : Usage} (hx : x ∈ s.usages) (hn : n.name = x.name)
    (ho : OwnSub x n) : Grows s (s.putU n).bump := by
  intro y hy y' hy' hyn _
  rw [bump_usages] at hy'
  rcases mem_putU.mp hy' with ⟨hy'', _⟩ | ⟨rfl, _⟩
  · rw [hs.usageUniq y' hy'' y hy hyn]; exact .refl y
  · have : y = x := hs.usageUniq y hy x hx (hyn.symm.trans hn)
    rw [this]; exact ho

theorem Grows.dropU {s : Store} (hs : StoreInv s) (nm : String) : Grows s (s.dropU nm) := by
  intro y hy y' hy' hyn _
  rw [hs.usageUniq y' (mem_dropU.mp hy').1 y hy hyn]
  exact .refl y

theorem Grows.dropU_bump {s : Store} (hs : StoreInv s) (nm : String) : Grows s (s.dropU nm).bump := by
  intro y hy y' hy' hyn hu
  rw [bump_usages] at hy'
  exact Grows.dropU hs nm y hy y' hy' hyn hu

theorem Grows.deleteUsage {s : Store} (hs : StoreInv s) (nm : String) : Grows s (s.deleteUsage nm).1 := by
  unfold Store.deleteUsage
  split
  · exact .same hs rfl
  · next x hg =>
    have hx := getU_some hg
    split
    · split
      · exact .same hs rfl
      · exact .putU hs hx.1 rfl (.of_eq rfl)
    · exact .dropU hs nm

theorem Grows.gcUsage {s : Store} (hs : StoreInv s) (nm : String) : Grows s (s.gcUsage nm).1 := by
  unfold Store.gcUsage
  split
  · exact .same hs rfl
  · split
    · exact .same hs rfl
    · split
      · exact .same hs rfl
      · exact .deleteUsage hs nm

theorem Grows.createUsage {s : Store} (hs : StoreInv s) (nm : String) (of : RSpec) (b : Option RSpec)
    (r : Option String) (c : Bool) (ct : String) : Grows s (s.createUsage nm of b r c ct).1 := by
  unfold Store.createUsage
  split
  · exact .same hs rfl
  · split
    · exact .same hs rfl
    · next hg =>
      intro y hy y' hy' hyn _
      simp only [List.mem_append, List.mem_singleton] at hy'
      rcases hy' with hy' | rfl
      · rw [hs.usageUniq y' hy' y hy hyn]; exact .refl y
      · exact absurd hyn.symm (getU_none hg y hy)

theorem Grows.reapplyUsage {s : Store} (hs : StoreInv s) (nm c : String) : Grows s (s.reapplyUsage nm c).1 := by
  unfold Store.reapplyUsage
  split
  · exact .same hs rfl
  · next x hg =>
    have hx := getU_some hg
    split
    · exact .same hs rfl
    · split
      · exact .same hs rfl
      · split
        · exact .same hs rfl
        · next hne =>
          have hnil : x.owners = [] := by simpa using hne
          refine .putU hs hx.1 rfl ?_
          intro o ho
          rw [hnil] at ho; cases ho

/-- what an Update of a Usage issued by a reconcile looks like -/
theorem request_updU {t : Thread} {u' : Usage} (h : t.request = .updU u') :
    u'.name = t.u.name ∧ u'.rv = t.u.rv ∧ OwnSub t.u u' := by
  obtain ⟨nm, pc, u, orv, ord, seen⟩ := t
  cases pc with
  | ofUpdate p => simp only [Thread.request] at h; cases h; exact ⟨rfl, rfl, .of_eq rfl⟩
  | byUpdate p => simp only [Thread.request] at h; cases h; exact ⟨rfl, rfl, .of_eq rfl⟩
  | dRemoveFin => simp only [Thread.request] at h; cases h; exact ⟨rfl, rfl, .of_eq rfl⟩
  | addFin => simp only [Thread.request] at h; cases h; exact ⟨rfl, rfl, .of_eq rfl⟩
  | addDetails => simp only [Thread.request] at h; cases h; exact ⟨rfl, rfl, .of_eq rfl⟩
  | addOwner ref =>
    simp only [Thread.request] at h; cases h
    exact ⟨rfl, rfl, addOwnerRef_uids u.owners ref⟩
  | byList => simp only [Thread.request] at h; split at h <;> cases h
  | dGetUsing => simp only [Thread.request] at h; split at h <;> cases h
  | getUsing => simp only [Thread.request] at h; split at h <;> cases h
  | _ => simp only [Thread.request] at h; cases h

theorem request_updStatus {t : Thread} {u' : Usage} (h : t.request = .updStatus u') : u'.name = t.u.name := by
  obtain ⟨nm, pc, u, orv, ord, seen⟩ := t
  cases pc with
  | status => simp only [Thread.request] at h; cases h; rfl
  | byList => simp only [Thread.request] at h; split at h <;> cases h
  | dGetUsing => simp only [Thread.request] at h; split at h <;> cases h
  | getUsing => simp only [Thread.request] at h; split at h <;> cases h
  | _ => simp only [Thread.request] at h; cases h

theorem request_getUsage_pc {t : Thread} (h : t.pc.isGet = true) : t.request = .getU t.uname := by
  obtain ⟨nm, pc, u, orv, ord, seen⟩ := t
  cases pc <;> first | rfl | cases h

/-- one API call of any reconcile keeps the owner uids of every Usage that stays the same object -/
theorem grows_request {s : Store} (hs : StoreInv s) {t : Thread} (ht : TInv s t) : Grows s (s.exec t.request).1 := by
  cases hr : t.request with
  | getU n => exact .same hs rfl
  | getR g k n => exact .same hs rfl
  | listR g k sel => exact .same hs rfl
  | listU key => exact .same hs rfl
  | updR r => exact .same hs (updR_usages s r)
  | updStatus u' =>
    simp only [Store.exec]
    have spec := updStatus_spec s u'
    generalize (s.updStatus u').1 = s' at spec ⊢
    generalize (s.updStatus u').2 = resp at spec
    cases spec with
    | notFound hg => exact .same hs rfl
    | conflict x hg hne => exact .same hs rfl
    | noop x hg hx hon => exact .same hs rfl
    | put x hg hx hng => exact .putU hs (getU_some hg).1 rfl (.of_eq rfl)
  | updU u' =>
    simp only [Store.exec]
    obtain ⟨hname, hrv, hsub⟩ := request_updU hr
    rcases ht with hget | ⟨hb, _⟩
    · rw [request_getUsage_pc hget] at hr; cases hr
    · have spec := updU_spec s u'
      generalize (s.updU u').1 = s' at spec ⊢
      generalize (s.updU u').2 = resp at spec
      cases spec with
      | notFound hg => exact .same hs rfl
      | conflict x hg hne => exact .same hs rfl
      | noop x hg hx hon => exact .same hs rfl
      | put x hg hx hng =>
        obtain ⟨rfl, hmem⟩ := hb.hit hg (hname.trans hb.name) (hx.trans hrv)
        exact .putU hs hmem (by simp [Usage.onto, hname]) (fun o ho => by
          obtain ⟨o', ho', e⟩ := hsub o ho
          exact ⟨o', by simpa [Usage.onto] using ho', e⟩)
      | gone x hg hx hd hf => exact .dropU_bump hs _

theorem grows_step {s : Store} (hs : StoreInv s) {t : Thread} (ht : TInv s t) (o : Outcome) :
    Grows s (t.step o none s).store := by
  unfold Thread.step
  cases o with
  | ok => exact grows_request hs ht
  | crashAfter => exact grows_request hs ht
  | fail => exact .same hs rfl
  | conflict => exact .same hs rfl
  | crashBefore => exact .same hs rfl

/-- every action keeps the owner uids of every Usage that stays the same object -/
theorem grows_exec {sys : Sys} (h : SysInv sys) (a : Action) (hf : a.fresh = true) :
    Grows sys.store (sys.exec a).1.store := by
  cases a with
  | cr g k n l iu c => exact .same h.store (SameUsages.createRes _ g k n l iu c).usages
  | cu n o b r c ct => exact .createUsage h.store n o b r c ct
  | du n => exact .deleteUsage h.store n
  | dr g k n p lo po st => exact .same h.store (SameUsages.deleteRes _ g k n p lo po st).usages
  | gcU n => exact .gcUsage h.store n
  | gcR g k n => exact .same h.store (SameUsages.gcRes _ g k n).usages
  | xa n c => exact .reapplyUsage h.store n c
  | er g k n l => exact .same h.store (SameUsages.touchRes _ g k n l).usages
  | stepW n o c => simp [Action.fresh] at hf
  | xaRaw n c => simp [Action.fresh] at hf
  | ef n0 => simp [Action.fresh] at hf
  | start n =>
    simp only [Sys.exec]
    split
    · exact .same h.store rfl
    · split <;> exact .same h.store rfl
  | step n o st =>
    have hst : st = none := by
      cases st with
      | none => rfl
      | some _ => simp [Action.fresh] at hf
    subst hst
    rw [step_store]
    split
    · exact .same h.store rfl
    · next t hsome => exact grows_step h.store (h.threads t (thread?_some hsome).1) o

/-! ### what the reconcile of Usage `n` knows about its owner reference -/

/-- every owner uid of the reconcile's copy is an owner uid of the stored Usage `n` -/
def ownC (s : Store) (n : String) (u : Usage) : Prop :=
  ∀ o ∈ u.owners, ∃ y ∈ s.usages, y.name = n ∧ ∃ o' ∈ y.owners, o'.uid = o.uid

def lateFact (U : Nat) (u : Usage) : Pc → Prop
  | .addOwner ref => ref.uid = U
  | .status => ∃ o ∈ u.owners, o.uid = U
  | _ => True

structure TrkT (s : Store) (n : String) (b : RSpec) (U : Nat) (t : Thread) : Prop where
  by_ : t.u.by_ = some b
  own : ownC s n t.u
  late : lateFact U t.u t.pc

/-- a continuation keeps tracking; a reconcile that returns "poll" leaves the stored Usage with an
owner reference carrying uid `U` -/
def AfterTrk (s : Store) (n : String) (b : RSpec) (U : Nat) : After → Prop
  | .cont t' => TrkT s n b U t'
  | .done r => r = .poll → ∃ y ∈ s.usages, y.name = n ∧ ∃ o ∈ y.owners, o.uid = U

section
variable {s : Store} {n : String} {b : RSpec} {U : Nat} {t : Thread}

theorem goto_trk (hb : t.u.by_ = some b) (ho : ownC s n t.u) (pc : Pc) (hl : lateFact U t.u pc) :
    AfterTrk s n b U (t.goto pc) := ⟨hb, ho, hl⟩

theorem afterOwner_trk (hb : t.u.by_ = some b) (ho : ownC s n t.u) (hU : ∃ o ∈ t.u.owners, o.uid = U) :
    AfterTrk s n b U t.afterOwner := by
  unfold Thread.afterOwner
  split
  · exact goto_trk hb ho .status hU
  · intro _
    obtain ⟨o, ho', hu⟩ := hU
    obtain ⟨y, hy, hn, o', ho'', e⟩ := ho o ho'
    exact ⟨y, hy, hn, o', ho'', e.trans hu⟩

theorem afterLabel_trk (hb : t.u.by_ = some b) (ho : ownC s n t.u) : AfterTrk s n b U t.afterLabel := by
  unfold Thread.afterLabel
  split
  · next hnone => rw [hb] at hnone; cases hnone
  · exact goto_trk hb ho .getUsing trivial

theorem afterFin_trk (hb : t.u.by_ = some b) (ho : ownC s n t.u) : AfterTrk s n b U t.afterFin := by
  unfold Thread.afterFin
  split
  · exact goto_trk hb ho .addDetails trivial
  · exact goto_trk hb ho .getUsed trivial

theorem afterResolve_trk (hb : t.u.by_ = some b) (ho : ownC s n t.u) : AfterTrk s n b U t.afterResolve := by
  unfold Thread.afterResolve
  split
  · split
    · exact goto_trk hb ho .dGetUsing trivial
    · exact goto_trk hb ho .dGetUsed trivial
  · split
    · exact afterFin_trk hb ho
    · exact goto_trk hb ho .addFin trivial

theorem afterOf_trk (hb : t.u.by_ = some b) (ho : ownC s n t.u) : AfterTrk s n b U t.afterOf := by
  unfold Thread.afterOf
  split
  · exact afterResolve_trk hb ho
  · split
    · split
      · intro h; cases h
      · exact goto_trk hb ho .byList trivial
    · exact afterResolve_trk hb ho

theorem afterGet_trk (hb : t.u.by_ = some b) (ho : ownC s n t.u) : AfterTrk s n b U t.afterGet := by
  unfold Thread.afterGet
  split
  · intro h; cases h
  · split
    · split
      · intro h; cases h
      · exact goto_trk hb ho .ofList trivial
    · exact afterOf_trk hb ho

theorem afterUnlabel_trk (hb : t.u.by_ = some b) (ho : ownC s n t.u) : AfterTrk s n b U t.afterUnlabel := by
  unfold Thread.afterUnlabel
  split
  · exact goto_trk hb ho .dRemoveFin trivial
  · intro h; cases h

end

/-- the Usage an Update returns is the stored one (unless the Update removed it) -/
theorem updU_resp_stored (s : Store) (u' nu : Usage) (h : (s.updU u').2 = .usage nu)
    (hex : ∃ y ∈ (s.updU u').1.usages, y.name = u'.name) :
    nu ∈ (s.updU u').1.usages ∧ nu.name = u'.name ∧ nu.owners = u'.owners := by
  have spec := updU_spec s u'
  generalize (s.updU u').1 = s' at spec hex ⊢
  generalize (s.updU u').2 = resp at spec h
  cases spec with
  | notFound hg => cases h
  | conflict x hg hne => cases h
  | noop x hg hx hon =>
    cases h
    have hx' := getU_some hg
    refine ⟨hx'.1, hx'.2, ?_⟩
    have := congrArg Usage.owners hon
    simpa [Usage.onto] using this
  | put x hg hx hng =>
    cases h
    have hx' := getU_some hg
    refine ⟨?_, by simp [Usage.onto], by simp [Usage.onto]⟩
    rw [bump_usages]
    exact mem_putU.mpr (.inr ⟨rfl, x, hx'.1, by simp [Usage.onto, hx'.2]⟩)
  | gone x hg hx hd hf =>
    obtain ⟨y, hy, hyn⟩ := hex
    rw [bump_usages] at hy
    exact absurd hyn (mem_dropU.mp hy).2

theorem updStatus_keeps (s : Store) (hs : StoreInv s) (u : Usage) :
    ∀ y ∈ s.usages, ∃ y' ∈ (s.updStatus u).1.usages, y'.name = y.name ∧ y'.owners = y.owners := by
  have spec := updStatus_spec s u
  generalize (s.updStatus u).1 = s' at spec ⊢
  generalize (s.updStatus u).2 = resp at spec
  intro y hy
  cases spec with
  | notFound hg => exact ⟨y, hy, rfl, rfl⟩
  | conflict x hg hne => exact ⟨y, hy, rfl, rfl⟩
  | noop x hg hx hon => exact ⟨y, hy, rfl, rfl⟩
  | put x hg hx hng =>
    have hx' := getU_some hg
    by_cases e : y.name = x.name
    · have : y = x := hs.usageUniq y hy x hx'.1 e
      subst this
      refine ⟨{ y with ready := u.ready, rv := s.nextRv }, ?_, rfl, rfl⟩
      rw [bump_usages]
      exact mem_putU.mpr (.inr ⟨rfl, y, hy, rfl⟩)
    · refine ⟨y, ?_, rfl, rfl⟩
      rw [bump_usages]
      exact mem_putU.mpr (.inl ⟨hy, e⟩)

/-- the tracking facts of the continuation of an Update of the reconcile's own Usage -/
theorem trk_of_stored {s' : Store} (hs' : StoreInv s') {n : String} {b : RSpec} {nu : Usage}
    (hmem : nu ∈ s'.usages) (hname : nu.name = n)
    (hpost : ∃ y ∈ s'.usages, y.name = n ∧ y.by_ = some b) : nu.by_ = some b ∧ ownC s' n nu := by
  obtain ⟨y, hy, hyn, hyb⟩ := hpost
  have : y = nu := hs'.usageUniq y hy nu hmem (hyn.trans hname.symm)
  subst this
  exact ⟨hyb, fun o ho => ⟨y, hmem, hname, o, ho, rfl⟩⟩

theorem ownC_same {s s' : Store} {n : String} {u : Usage} (h : ownC s n u) (e : s'.usages = s.usages) : ownC s' n u := by
  intro o ho
  rw [e]; exact h o ho

/-- **one API call of the reconcile of Usage `n`**: if the Usage `n` names `b` as its user before
and after the call and the resource `b` refers to has uid `U` before the call, the tracking facts
are re-established, and a call that ends the reconcile with "poll" leaves the stored Usage with an
owner reference carrying `U` -/
theorem exec_trk {s : Store} (hs : StoreInv s) {t : Thread} (ht : TInv s t) {n : String} {b : RSpec} {U : Nat}
    (hn : t.uname = n)
    (huser : (s.getR (groupOf b.av) b.kind b.name).map (·.uid) = some U)
    (hpre : ∃ y ∈ s.usages, y.name = n ∧ y.by_ = some b)
    (hpost : ∃ y ∈ (s.exec t.request).1.usages, y.name = n ∧ y.by_ = some b)
    (htrk : t.pc.isGet = false → TrkT s n b U t) :
    AfterTrk (s.exec t.request).1 n b U (t.next s.usages (s.exec t.request).2) := by
  have hs' : StoreInv (s.exec t.request).1 := (exec_ok hs ht).1
  obtain ⟨nm, pc, u, orv, ord, seen⟩ := t
  simp only at hn
  subst hn
  -- an Update of the reconcile's own Usage that returns a Usage
  have upd : u.name = nm → ∀ (u' : Usage), u'.name = u.name → ∀ nu, (s.updU u').2 = .usage nu →
      (∃ y ∈ (s.updU u').1.usages, y.name = nm ∧ y.by_ = some b) → StoreInv (s.updU u').1 →
      nu.by_ = some b ∧ ownC (s.updU u').1 nm nu ∧ nu.owners = u'.owners := by
    intro hname u' hu' nu hresp hpost' hs''
    obtain ⟨y, hy, hyn, hyb⟩ := hpost'
    obtain ⟨h1, h2, h3⟩ := updU_resp_stored s u' nu hresp ⟨y, hy, by rw [hyn, hu', hname]⟩
    obtain ⟨h4, h5⟩ := trk_of_stored hs'' h1 (h2.trans (hu'.trans hname)) ⟨y, hy, hyn, hyb⟩
    exact ⟨h4, h5, h3⟩
  have pre : pc.isGet = false → u.name = nm ∧ u.by_ = some b ∧ ownC s nm u ∧ lateFact U u pc := by
    intro hne
    rcases ht with hget | ⟨hbase, _⟩
    · simp only at hget; rw [hne] at hget; cases hget
    · have tk := htrk hne
      exact ⟨hbase.name, tk.by_, tk.own, tk.late⟩
  cases pc with
  | getUsage =>
    simp only [Thread.request, Store.exec] at hpost hs' ⊢
    cases hg : s.getU nm with
    | none => simp only [Thread.next]; intro h; cases h
    | some x =>
      simp only [Thread.next]
      have hx := getU_some hg
      obtain ⟨hb, ho⟩ := trk_of_stored hs hx.1 hx.2 hpre
      exact afterGet_trk (t := ⟨nm, .getUsage, x, x.rv, x.ready, seen⟩) hb ho
  | ofList =>
    obtain ⟨_, hby, hown, _⟩ := pre rfl
    simp only [Thread.request, Store.exec, Thread.next]
    split
    · exact goto_trk hby hown _ trivial
    · intro h; cases h
  | byList =>
    obtain ⟨_, hby, hown, _⟩ := pre rfl
    simp only [Thread.request, hby, Store.exec, Thread.next]
    split
    · exact goto_trk hby hown _ trivial
    · intro h; cases h
  | ofUpdate pick =>
    obtain ⟨hname, hby, hown, _⟩ := pre rfl
    simp only [Thread.request, Store.exec] at hpost hs' ⊢
    have key := upd hname { u with of := { u.of with name := pick } } rfl
    generalize (s.updU { u with of := { u.of with name := pick } }).2 = resp at key ⊢
    cases resp with
    | usage nu =>
      obtain ⟨h4, h5, _⟩ := key nu rfl hpost hs'
      simp only [Thread.next]
      exact afterOf_trk (t := ⟨nm, .ofUpdate pick, nu, orv, ord, seen⟩) h4 h5
    | _ => simp only [Thread.next]; intro h; cases h
  | byUpdate pick =>
    obtain ⟨hname, hby, hown, _⟩ := pre rfl
    simp only [Thread.request, Store.exec] at hpost hs' ⊢
    have key := upd hname { u with by_ := u.by_.map fun b => { b with name := pick } } rfl
    generalize (s.updU { u with by_ := u.by_.map fun b => { b with name := pick } }).2 = resp at key ⊢
    cases resp with
    | usage nu =>
      obtain ⟨h4, h5, _⟩ := key nu rfl hpost hs'
      simp only [Thread.next]
      exact afterResolve_trk (t := ⟨nm, .byUpdate pick, nu, orv, ord, seen⟩) h4 h5
    | _ => simp only [Thread.next]; intro h; cases h
  | dGetUsing =>
    obtain ⟨_, hby, hown, _⟩ := pre rfl
    simp only [Thread.request, hby, Store.exec]
    cases s.getR (groupOf b.av) b.kind b.name with
    | none => simp only [Thread.next]; exact goto_trk hby hown _ trivial
    | some r => simp only [Thread.next]; intro h; cases h
  | dGetUsed =>
    obtain ⟨_, hby, hown, _⟩ := pre rfl
    simp only [Thread.request, Store.exec]
    cases s.getR (groupOf u.of.av) u.of.kind u.of.name with
    | none => simp only [Thread.next]; exact afterUnlabel_trk hby hown
    | some r => simp only [Thread.next]; exact goto_trk hby hown _ trivial
  | dList used =>
    obtain ⟨_, hby, hown, _⟩ := pre rfl
    simp only [Thread.request, Store.exec, Thread.next]
    split
    · exact goto_trk (t := ⟨nm, .dList used, u, orv, ord, s.usages⟩) hby hown _ trivial
    · exact afterUnlabel_trk hby hown
  | dUnlabel used =>
    obtain ⟨_, hby, hown, _⟩ := pre rfl
    simp only [Thread.request, Store.exec]
    have hown' := ownC_same hown (updR_usages s { used with inUse := false })
    generalize (s.updR { used with inUse := false }).1 = s' at hown' ⊢
    generalize (s.updR { used with inUse := false }).2 = resp
    cases resp with
    | res r => simp only [Thread.next]; exact afterUnlabel_trk hby hown'
    | err e => cases e <;> (simp only [Thread.next]; intro h; cases h)
    | _ => simp only [Thread.next]; intro h; cases h
  | dRemoveFin =>
    simp only [Thread.request, Store.exec]
    generalize (s.updU { u with fin := false }).1 = s'
    generalize (s.updU { u with fin := false }).2 = resp
    cases resp with
    | err e => cases e <;> (simp only [Thread.next]; intro h; cases h)
    | _ => simp only [Thread.next]; intro h; cases h
  | addFin =>
    obtain ⟨hname, hby, hown, _⟩ := pre rfl
    simp only [Thread.request, Store.exec] at hpost hs' ⊢
    have key := upd hname { u with fin := true } rfl
    generalize (s.updU { u with fin := true }).2 = resp at key ⊢
    cases resp with
    | usage nu =>
      obtain ⟨h4, h5, _⟩ := key nu rfl hpost hs'
      simp only [Thread.next]
      exact afterFin_trk (t := ⟨nm, .addFin, nu, orv, ord, seen⟩) h4 h5
    | err e => cases e <;> (simp only [Thread.next]; intro h; cases h)
    | _ => simp only [Thread.next]; intro h; cases h
  | addDetails =>
    obtain ⟨hname, hby, hown, _⟩ := pre rfl
    simp only [Thread.request, Store.exec] at hpost hs' ⊢
    have key := upd hname { u with details := some (detailsOf u) } rfl
    generalize (s.updU { u with details := some (detailsOf u) }).2 = resp at key ⊢
    cases resp with
    | usage nu =>
      obtain ⟨h4, h5, _⟩ := key nu rfl hpost hs'
      simp only [Thread.next]
      exact goto_trk (t := ⟨nm, .addDetails, nu, orv, ord, seen⟩) h4 h5 _ trivial
    | err e => cases e <;> (simp only [Thread.next]; intro h; cases h)
    | _ => simp only [Thread.next]; intro h; cases h
  | getUsed =>
    obtain ⟨_, hby, hown, _⟩ := pre rfl
    simp only [Thread.request, Store.exec]
    cases s.getR (groupOf u.of.av) u.of.kind u.of.name with
    | none => simp only [Thread.next]; intro h; cases h
    | some r =>
      simp only [Thread.next]
      split
      · exact goto_trk hby hown _ trivial
      · exact afterLabel_trk hby hown
  | label used =>
    obtain ⟨_, hby, hown, _⟩ := pre rfl
    simp only [Thread.request, Store.exec]
    have hown' := ownC_same hown (updR_usages s { used with inUse := true })
    generalize (s.updR { used with inUse := true }).1 = s' at hown' ⊢
    generalize (s.updR { used with inUse := true }).2 = resp
    cases resp with
    | res r => simp only [Thread.next]; exact afterLabel_trk hby hown'
    | err e => cases e <;> (simp only [Thread.next]; intro h; cases h)
    | _ => simp only [Thread.next]; intro h; cases h
  | getUsing =>
    obtain ⟨_, hby, hown, _⟩ := pre rfl
    simp only [Thread.request, hby, Store.exec]
    cases hg : s.getR (groupOf b.av) b.kind b.name with
    | none => simp only [Thread.next]; intro h; cases h
    | some g =>
      rw [hg] at huser
      have hgu : g.uid = U := by simpa using huser
      simp only [Thread.next]
      split
      · next o os hos =>
        split
        · next ho =>
          refine afterOwner_trk hby hown ⟨o, ?_, ho.trans hgu⟩
          change o ∈ u.owners
          rw [hos]; exact List.mem_cons_self
        · exact goto_trk hby hown _ hgu
      · exact goto_trk hby hown _ hgu
  | addOwner ref =>
    obtain ⟨hname, hby, hown, hlate⟩ := pre rfl
    simp only [Thread.request, Store.exec] at hpost hs' ⊢
    have key := upd hname { u with owners := addOwnerRef u.owners ref } rfl
    generalize (s.updU { u with owners := addOwnerRef u.owners ref }).2 = resp at key ⊢
    cases resp with
    | usage nu =>
      obtain ⟨h4, h5, h6⟩ := key nu rfl hpost hs'
      simp only [Thread.next]
      refine afterOwner_trk (t := ⟨nm, .addOwner ref, nu, orv, ord, seen⟩) h4 h5 ⟨ref, ?_, hlate⟩
      change ref ∈ nu.owners
      rw [h6]; exact mem_addOwnerRef _ _
    | err e => cases e <;> (simp only [Thread.next]; intro h; cases h)
    | _ => simp only [Thread.next]; intro h; cases h
  | status =>
    obtain ⟨_, hby, hown, hlate⟩ := pre rfl
    simp only [Thread.request, Store.exec]
    have keep := updStatus_keeps s hs { u with ready := true }
    generalize (s.updStatus { u with ready := true }).1 = s' at keep ⊢
    generalize (s.updStatus { u with ready := true }).2 = resp
    cases resp with
    | usage nu =>
      simp only [Thread.next]
      intro _
      obtain ⟨o, ho, hou⟩ := hlate
      obtain ⟨y, hy, hyn, o', ho', e⟩ := hown o ho
      obtain ⟨y', hy', hn', hown'⟩ := keep y hy
      exact ⟨y', hy', hn'.trans hyn, o', by rw [hown']; exact ho', e.trans hou⟩
    | _ => simp only [Thread.next]; intro h; cases h

/-! ### the whole system -/

theorem next_err_ne_poll (t : Thread) (seen : List Usage) (e : Err) : t.next seen (.err e) ≠ .done .poll := by
  obtain ⟨uname, pc, u, orv, ord, sn⟩ := t
  cases pc <;> cases e <;> (intro h; simp only [Thread.next, Thread.afterUnlabel, Thread.goto] at h; (try split at h) <;> cases h)

theorem step_trk {s : Store} (hs : StoreInv s) {t : Thread} (ht : TInv s t) (o : Outcome) {n : String} {b : RSpec}
    {U : Nat} (hn : t.uname = n)
    (huser : (s.getR (groupOf b.av) b.kind b.name).map (·.uid) = some U)
    (hpre : ∃ y ∈ s.usages, y.name = n ∧ y.by_ = some b)
    (hpost : ∃ y ∈ (t.step o none s).store.usages, y.name = n ∧ y.by_ = some b)
    (htrk : t.pc.isGet = false → TrkT s n b U t) :
    AfterTrk (t.step o none s).store n b U (t.step o none s).after := by
  unfold Thread.step at hpost ⊢
  cases o with
  | ok =>
    simp only [staleResp_none] at hpost ⊢
    exact exec_trk hs ht hn huser hpre hpost htrk
  | fail =>
    obtain ⟨e, _, hr⟩ := faultResp_err .fail t.request
    obtain ⟨r, hd⟩ := next_fault t s.usages .fail
    simp only [hd]
    intro hp
    subst hp
    rw [hr] at hd
    exact absurd hd (next_err_ne_poll t s.usages e)
  | conflict =>
    obtain ⟨e, _, hr⟩ := faultResp_err .conflict t.request
    obtain ⟨r, hd⟩ := next_fault t s.usages .conflict
    simp only [hd]
    intro hp
    subst hp
    rw [hr] at hd
    exact absurd hd (next_err_ne_poll t s.usages e)
  | crashBefore => intro h; cases h
  | crashAfter => intro h; cases h

theorem exec_step_some {sys : Sys} {n : String} {t : Thread} (o : Outcome) (h : sys.thread? n = some t) :
    sys.exec (.step n o none) =
      match (t.step o none sys.store).after with
      | .cont t' =>
        ({ sys with store := (t.step o none sys.store).store,
                    threads := sys.threads.map fun x => if x.uname == n then t' else x },
         .call (t.step o none sys.store).req (t.step o none sys.store).reply none)
      | .done r =>
        ({ sys with store := (t.step o none sys.store).store,
                    threads := sys.threads.filter fun x => !(x.uname == n) },
         .call (t.step o none sys.store).req (t.step o none sys.store).reply (some r)) := by
  simp only [Sys.exec, h]
  split <;> simp_all

theorem exec_step_none {sys : Sys} {n : String} (o : Outcome) (h : sys.thread? n = none) :
    sys.exec (.step n o none) = (sys, .ignored) := by
  simp only [Sys.exec, h]

/-- the tracking facts of every in-flight reconcile of Usage `n` -/
def Trk (n : String) (b : RSpec) (U : Nat) (sys : Sys) : Prop :=
  ∀ t ∈ sys.threads, t.uname = n → t.pc.isGet = false → TrkT sys.store n b U t

theorem Held.usage' {n : String} {V : Nat} {b : RSpec} {U : Nat} {sys : Sys} (h : Held n V b U sys) :
    ∃ y ∈ sys.store.usages, y.name = n ∧ y.by_ = some b := by
  obtain ⟨⟨y, hy, h1, _, h3⟩, _⟩ := h
  exact ⟨y, hy, h1, h3⟩

/-- a change of the store by somebody else: the stored Usage `n` is the same object before and after -/
theorem TrkT.env {s s' : Store} {n : String} {V : Nat} {b : RSpec} {U : Nat} {t : Thread} (h : TrkT s n b U t)
    (hs : StoreInv s) (g : Grows s s')
    (hpre : ∃ y ∈ s.usages, y.name = n ∧ y.uid = V ∧ y.by_ = some b)
    (hpost : ∃ y ∈ s'.usages, y.name = n ∧ y.uid = V ∧ y.by_ = some b) : TrkT s' n b U t := by
  refine ⟨h.by_, ?_, h.late⟩
  intro o ho
  obtain ⟨y, hy, hyn, o', ho', e⟩ := h.own o ho
  obtain ⟨y0, hy0, h0n, h0u, _⟩ := hpre
  obtain ⟨y1, hy1, h1n, h1u, _⟩ := hpost
  have : y = y0 := hs.usageUniq y hy y0 hy0 (hyn.trans h0n.symm)
  subst this
  obtain ⟨o'', ho'', e'⟩ := g y hy y1 hy1 (h1n.trans hyn.symm) (h1u.trans h0u.symm) o' ho'
  exact ⟨y1, hy1, h1n, o'', ho'', e'.trans e⟩

theorem Trk.env {sys : Sys} {s' : Store} {n : String} {V : Nat} {b : RSpec} {U : Nat} (h : Trk n b U sys)
    (hs : StoreInv sys.store) (g : Grows sys.store s')
    (hpre : Held n V b U sys) (hpost : ∃ y ∈ s'.usages, y.name = n ∧ y.uid = V ∧ y.by_ = some b) :
    Trk n b U { sys with store := s' } :=
  fun t ht hn hg => (h t ht hn hg).env hs g hpre.1 hpost

/-- every action preserves the tracking facts as long as the Usage and its user stay the same objects -/
theorem trk_exec {sys : Sys} (h : SysInv sys) (a : Action) (hf : a.fresh = true) {n : String} {V : Nat} {b : RSpec}
    {U : Nat} (hpre : Held n V b U sys) (hpost : Held n V b U (sys.exec a).1) (ht : Trk n b U sys) :
    Trk n b U (sys.exec a).1 := by
  have g := grows_exec h a hf
  cases a with
  | cr g' k n' l iu c => exact ht.env h.store g hpre hpost.1
  | cu n' o b' r c ct => exact ht.env h.store g hpre hpost.1
  | du n' => exact ht.env h.store g hpre hpost.1
  | dr g' k n' p lo po st => exact ht.env h.store g hpre hpost.1
  | gcU n' => exact ht.env h.store g hpre hpost.1
  | gcR g' k n' => exact ht.env h.store g hpre hpost.1
  | xa n' c => exact ht.env h.store g hpre hpost.1
  | er g' k n' l => exact ht.env h.store g hpre hpost.1
  | stepW n' o c => simp [Action.fresh] at hf
  | xaRaw n' c => simp [Action.fresh] at hf
  | ef n0 => simp [Action.fresh] at hf
  | start m =>
    simp only [Sys.exec]
    split
    · exact ht
    · split
      · exact ht
      · intro t ht' hn hg
        simp only [List.mem_append, List.mem_singleton] at ht'
        rcases ht' with h1 | rfl
        · exact ht t h1 hn hg
        · cases hg
  | step m o st =>
    have hst : st = none := by
      cases st with
      | none => rfl
      | some _ => simp [Action.fresh] at hf
    subst hst
    cases hth : sys.thread? m with
    | none => rw [exec_step_none o hth]; exact ht
    | some t =>
      obtain ⟨htm, htn⟩ := thread?_some hth
      obtain ⟨k1, k2, k3⟩ := step_ok h.store (h.threads t htm) o
      rw [exec_step_some o hth] at hpost g ⊢
      by_cases e : m = n
      · subst e
        have key := step_trk h.store (h.threads t htm) o htn hpre.2 hpre.usage'
        cases hafter : (t.step o none sys.store).after with
        | cont t' =>
          simp only [hafter] at hpost g ⊢
          have key' := key hpost.usage' (fun hg => ht t htm htn hg)
          rw [hafter] at key'
          intro x hx hxn hxg
          simp only [List.mem_map] at hx
          obtain ⟨y, hy, rfl⟩ := hx
          by_cases ey : y.uname = m
          · simp only [ey, beq_self_eq_true, if_true] at hxg ⊢
            exact key'
          · have bb : (y.uname == m) = false := by simpa using ey
            simp only [bb, Bool.false_eq_true, if_false] at hxn
            exact absurd hxn ey
        | done r =>
          simp only [hafter] at hpost g ⊢
          intro x hx hxn
          simp only [List.mem_filter, Bool.not_eq_eq_eq_not, Bool.not_true, beq_eq_false_iff_ne] at hx
          exact absurd hxn hx.2
      · cases hafter : (t.step o none sys.store).after with
        | cont t' =>
          simp only [hafter] at hpost g k3 ⊢
          intro x hx hxn hxg
          simp only [List.mem_map] at hx
          obtain ⟨y, hy, rfl⟩ := hx
          by_cases ey : y.uname = m
          · simp only [ey, beq_self_eq_true, if_true] at hxn
            rw [htn] at k3
            exact absurd (k3.1.symm.trans hxn) e
          · have bb : (y.uname == m) = false := by simpa using ey
            simp only [bb, Bool.false_eq_true, if_false] at hxn hxg ⊢
            exact (ht y hy hxn hxg).env h.store g hpre.1 hpost.1
        | done r =>
          simp only [hafter] at hpost g ⊢
          intro x hx hxn hxg
          simp only [List.mem_filter] at hx
          exact (ht x hx.1 hxn hxg).env h.store g hpre.1 hpost.1

theorem Along.head {P : Sys → Prop} {sys : Sys} {as : List Action} (h : Along P sys as) : P sys := by
  cases as with
  | nil => exact h
  | cons a as => exact h.1

theorem Along.append {P : Sys → Prop} {sys : Sys} {as : List Action} {a : Action} (h : Along P sys (as ++ [a])) :
    Along P sys as ∧ P (sys.run as) ∧ P ((sys.run as).exec a).1 := by
  induction as generalizing sys with
  | nil => exact ⟨h.1, h.1, h.2⟩
  | cons x xs ih =>
    obtain ⟨h1, h2, h3⟩ := ih (sys := (sys.exec x).1) h.2
    exact ⟨⟨h.1, h1⟩, h2, h3⟩

theorem trk_run {sys : Sys} (h : SysInv sys) (bs : List Action) (hf : listFresh bs) {n : String} {V : Nat}
    {b : RSpec} {U : Nat} (hh : Along (Held n V b U) sys bs) (ht : Trk n b U sys) : Trk n b U (sys.run bs) := by
  induction bs generalizing sys with
  | nil => exact ht
  | cons a as ih =>
    have hfa := hf a List.mem_cons_self
    exact ih (h.exec a hfa) (fun x hx => hf x (List.mem_cons_of_mem _ hx)) hh.2
      (trk_exec h a hfa hh.1 hh.2.head ht)

/-- the call that ends a reconcile of Usage `n` with "poll" -/
theorem trk_final {sys : Sys} (h : SysInv sys) (o : Outcome) {n : String} {V : Nat} {b : RSpec} {U : Nat}
    (hpre : Held n V b U sys) (hpost : Held n V b U (sys.exec (.step n o none)).1) (ht : Trk n b U sys)
    (req : Req) (reply : Option Resp) (hrep : (sys.exec (.step n o none)).2 = .call req reply (some .poll)) :
    ∃ y ∈ (sys.exec (.step n o none)).1.store.usages, y.name = n ∧ ∃ ow ∈ y.owners, ow.uid = U := by
  cases hth : sys.thread? n with
  | none => rw [exec_step_none o hth] at hrep; cases hrep
  | some t =>
    obtain ⟨htm, htn⟩ := thread?_some hth
    have key := step_trk h.store (h.threads t htm) o htn hpre.2 hpre.usage'
    rw [exec_step_some o hth] at hpost hrep ⊢
    cases hafter : (t.step o none sys.store).after with
    | cont t' => simp only [hafter] at hrep; cases hrep
    | done r =>
      simp only [hafter] at hpost hrep ⊢
      have hr : r = .poll := by
        injection hrep with _ _ h3
        injection h3
      have key' := key hpost.usage' (fun hg => ht t htm htn hg)
      rw [hafter] at key'
      exact key' hr

/-- no reconcile of `n` in flight: nothing to track -/
theorem Trk.of_none {sys : Sys} {n : String} {b : RSpec} {U : Nat} (h : sys.thread? n = none) : Trk n b U sys :=
  fun t ht hn => absurd hn (thread?_none h t ht)

theorem run_append (sys : Sys) (as bs : List Action) : sys.run (as ++ bs) = (sys.run as).run bs := by
  induction as generalizing sys with
  | nil => rfl
  | cons a as ih => exact ih (sys.exec a).1

end Xp.C19

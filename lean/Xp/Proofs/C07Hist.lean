import Xp.Proofs.C07
/-
C07: the invariant of every history the API server admits (the claim never carries
XR-only machinery at top level; the configuration the claim controller last applied
never mentions a key the XR side owns) is kept by every step.
-/
namespace Xp.C07
open Xp

/-- spec of the stored claim after the server-side sync -/
theorem syncSSA_claim_spec (c : Cfg) (gen : String) (s : St) (cs : AL J) (h : s.cm.spec = some (.obj cs))
    (k : String) :
    alookup k (syncSSA c gen s).st.cm.specFields =
      alookup k (ssaClaim c (ssaPatch c gen s.cm s.xr cs).name s.cm s.xr cs).specFields := by
  simp only [syncSSA_cm c gen s cs h]
  split <;> rfl

/-- for a valid claim the server-side apply body mentions no key the XR side owns -/
theorem ssaPatch_not_owned (c : Cfg) (gen : String) (cm : KObj) (xr : Option KObj) (cs : AL J)
    (hv : ClaimValid cs) (k : String) (hk : XrOwned k) :
    alookup k (ssaPatch c gen cm xr cs).specFields = none := by
  have key : alookup k (ssaPatch c gen cm xr cs).specFields =
      alookup k (specToXR c cm (policyOf (xrSpecFields xr) == some "Manual") cs) := rfl
  rw [key, alookup_specToXR]
  rcases hk with hk | hk
  · have : k ≠ "claimRef" := by intro e; subst e; revert hk; decide
    simp [this, hk]
  · subst hk
    have ho : owner "resourceRefs" = .xrOnly := by decide
    simp [ho, hv _ ho]

theorem syncSSA_inv (c : Cfg) (gen : String) (s : St) (h : Inv s) : Inv (syncSSA c gen s).st := by
  cases hs : s.cm.spec with
  | none => unfold syncSSA; rw [hs]; exact h
  | some v =>
    cases v with
    | obj cs =>
      have hv : ClaimValid cs := by have := h.1; simpa [KObj.specFields, hs, objFields] using this
      refine ⟨?_, ?_⟩
      · intro k hk
        rw [syncSSA_claim_spec c gen s cs hs k, ssaClaim_spec]
        have h1 : k ≠ "resourceRef" := by intro e; subst e; revert hk; decide
        have h2 : k ≠ "compositionRef" := by intro e; subst e; revert hk; decide
        have h3 : k ≠ "compositionRevisionRef" := by intro e; subst e; revert hk; decide
        simp only [h1, h2, h3, if_false]
        exact hv k hk
      · intro q hq k hk
        rw [syncSSA_prev c gen s cs hs] at hq
        cases hq
        exact ssaPatch_not_owned c gen s.cm s.xr cs hv k hk
    | _ => unfold syncSSA; rw [hs]; exact h

theorem syncCSA_inv (c : Cfg) (gen : String) (s : St) (h : Inv s) : Inv (syncCSA c gen s).st := by
  cases hs : s.cm.spec with
  | none => unfold syncCSA; rw [hs]; exact h
  | some v =>
    cases v with
    | obj cs =>
      obtain ⟨w, hw⟩ := syncCSA_eq c gen s cs hs
      obtain ⟨cs1, hcs1, hsame⟩ := csaBound_spec c gen s cs hs
      have hv : ClaimValid cs := by have := h.1; simpa [KObj.specFields, hs, objFields] using this
      have hv1 : ClaimValid (csaBound c gen s cs).specFields := by
        intro k hk
        simp only [KObj.specFields, hcs1, objFields]
        rw [hsame k (by intro e; subst e; revert hk; decide)]
        exact hv k hk
      rw [hw]
      refine ⟨csaBack_valid _ _ _ _ _ rfl hv1, ?_⟩
      rw [csaBack_prev]
      exact h.2
    | _ => unfold syncCSA; rw [hs]; exact h

theorem pruneNulls_inv (o : Out) (h : Inv o.st) : Inv (pruneNulls o).st :=
  ⟨dropNullSpec_valid _ h.1, h.2⟩

theorem applyDelta_valid (o : KObj) (d : Delta) (h : ClaimValid o.specFields)
    (hd : ∀ k, owner k = .xrOnly → alookup k d.setSpec = none) : ClaimValid (applyDelta o d).specFields := by
  intro k hk
  unfold applyDelta
  simp only [KObj.specFields]
  split
  · exact h k hk
  · simp only [objFields]
    rw [alookup_addAll_none k _ _ (hd k hk)]
    exact alookup_eraseAll_none k _ _ (h k hk)

/-- the invariant is kept by every step of every admitted history -/
theorem inv_step (c : Cfg) (s : St) (op : Op) (h : Inv s) (hv : ValidOp op) : Inv (step c s op).st := by
  cases op with
  | syncSSA gen => exact pruneNulls_inv _ (syncSSA_inv c gen s h)
  | syncCSA gen => exact pruneNulls_inv _ (syncCSA_inv c gen s h)
  | editClaim d => exact ⟨applyDelta_valid s.cm d h.1 hv, h.2⟩
  | xrCtl d => exact h
  | upgrade => exact h

theorem inv_run (c : Cfg) (ops : List Op) : ∀ s, Inv s → (∀ op ∈ ops, ValidOp op) → Inv (run c s ops) := by
  induction ops with
  | nil => intro s h _; exact h
  | cons op rest ih =>
    intro s h hv
    exact ih _ (inv_step c s op h (hv op (List.mem_cons_self))) (fun o ho => hv o (List.mem_cons_of_mem _ ho))

end Xp.C07

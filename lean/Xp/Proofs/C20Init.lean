import Xp.Proofs.C20Done
/-
C20 helper lemmas, part 13: composition – after a completed run of a step list in
which every step is `okAfter` the earlier ones, every step's post-condition holds,
and a state where they all hold is a fixpoint of the whole run.
-/
namespace Xp.C20
open Xp

variable {α β : Type}

def isInstall : Step → Bool
  | .install _ _ _ => true
  | _ => false

theorem evalOk_reach (p : P α) (s : Store) : (evalOk p s).1 ∈ reach sem Plan.allOk 0 p s := by
  rw [reach_allOk]; exact end_mem_statesOk p s

/-- a step other than the installer leaves the packages alone -/
theorem step_pkgs_frame (g : Generator) (n : Nat) (st : Step) (h : isInstall st = false) (s : Store) :
    (evalOk (st.prog g n) s).1.pkgs = s.pkgs := by
  have hc : stepComp st ≠ .pkgs := by cases st <;> simp [stepComp, isInstall] at h ⊢
  refine evalOk_inv (fun y => y.pkgs = s.pkgs) (Only (stepComp st)) ?_ _ (step_issues_only g n st) s rfl
  intro y r hy hq
  rw [← hy]
  refine frame_pkgs y r ?_
  rcases hq with e | e <;> simp [e]
  exact fun e' => hc e'

theorem installHyp_of_pkgs {p c f : List Img} {s x : Store} (e : x.pkgs = s.pkgs) (h : InstallHyp p c f s) :
    InstallHyp p c f x := by
  have hl : ∀ k, listing x k = listing s k := fun k => by simp only [listing, e]
  refine ⟨fun l hl' => h.prov l (by rw [← hl]; exact hl'), fun l hl' => h.conf l (by rw [← hl]; exact hl'),
    fun l hl' => h.func l (by rw [← hl]; exact hl'), ?_⟩
  intro q hq q' hq'
  exact h.uniq q (e ▸ hq) q' (e ▸ hq')

theorem stepHyp_transfer {b : Step} {s₀ x : Store} (h : StepHyp b s₀) (e : isInstall b = true → x.pkgs = s₀.pkgs) :
    StepHyp b x := by
  cases b with
  | install p c f => exact installHyp_of_pkgs (e rfl) h
  | tls _ _ _ => trivial
  | crds _ _ => exact h
  | whcs _ _ _ => exact h
  | mig _ _ => trivial
  | lock => trivial
  | sc _ => trivial
  | drc => trivial

theorem okAfter_install (a b : Step) (h : okAfter a b = true) (hb : isInstall b = true) : isInstall a = false := by
  cases b <;> simp [isInstall] at hb
  cases a <;> simp [okAfter, isInstall] at h ⊢

theorem runSteps_cons_eval (g : Generator) (b : Step) (rest : List Step) (n d : Nat) (x : Store) :
    evalOk (runSteps g (b :: rest) n d) x =
      match (evalOk (b.prog g n) x).2 with
      | (.ok, n') => evalOk (runSteps g rest n' (d + 1)) (evalOk (b.prog g n) x).1
      | (e, n') => ((evalOk (b.prog g n) x).1, (e, n', d)) := by
  show evalOk (Prog.bind (b.prog g n) _) x = _
  rw [evalOk_bind]
  cases h : (evalOk (b.prog g n) x).2 with
  | mk r n' => cases r <;> rfl

/-- after a completed run every step's post-condition holds -/
theorem runSteps_done (g : Generator) (s₀ : Store) : ∀ (steps D : List Step) (x t : Store) (n n' d d' : Nat),
    steps.Pairwise (fun a b => okAfter a b = true) →
    (∀ a ∈ D, ∀ b ∈ steps, okAfter a b = true) →
    (∀ a ∈ D, StepDone a x) →
    ((∀ a ∈ D, isInstall a = false) → x.pkgs = s₀.pkgs) →
    (∀ b ∈ steps, StepHyp b s₀) →
    evalOk (runSteps g steps n d) x = (t, (Res.ok, n', d')) →
    (∀ a, a ∈ D ∨ a ∈ steps → StepDone a t) ∧ d' = d + steps.length := by
  intro steps
  induction steps with
  | nil =>
    intro D x t n n' d d' _ _ hD _ _ h
    simp [runSteps] at h
    obtain ⟨rfl, _, rfl⟩ := h
    refine ⟨fun a ha => ?_, rfl⟩
    rcases ha with ha | ha
    · exact hD a ha
    · cases ha
  | cons b rest ih =>
    intro D x t n n' d d' hpair hDb hD hpk hhyp h
    rw [runSteps_cons_eval] at h
    cases hb : evalOk (b.prog g n) x with
    | mk y res =>
      obtain ⟨r, n1⟩ := res
      rw [hb] at h
      cases r with
      | err e => simp at h
      | ok =>
        simp only at h
        obtain ⟨hpb, hprest⟩ := List.pairwise_cons.mp hpair
        -- the step establishes its own post-condition
        have hbhyp : StepHyp b x := stepHyp_transfer (hhyp b (by simp)) (fun hi => hpk (fun a ha =>
          okAfter_install a b (hDb a ha b (by simp)) hi))
        have hbdone : StepDone b y := step_establishes g n n1 b x y hbhyp hb
        -- earlier post-conditions survive
        have hDy : ∀ a ∈ D, StepDone a y := by
          intro a ha
          have := done_stable g n a b (hDb a ha b (by simp)) Plan.allOk 0 x (hD a ha) _ (evalOk_reach (b.prog g n) x)
          rw [hb] at this; exact this
        have hpk' : (∀ a ∈ D ++ [b], isInstall a = false) → y.pkgs = s₀.pkgs := by
          intro hall
          have h1 := hpk (fun a ha => hall a (by simp [ha]))
          have h2 := step_pkgs_frame g n b (hall b (by simp)) x
          rw [hb] at h2
          exact h2.trans h1
        obtain ⟨r1, r2⟩ := ih (D ++ [b]) y t n1 n' (d + 1) d' hprest
          (fun a ha c hc => by
            rcases List.mem_append.mp ha with ha | ha
            · exact hDb a ha c (by simp [hc])
            · simp at ha; subst ha; exact hpb c hc)
          (fun a ha => by
            rcases List.mem_append.mp ha with ha | ha
            · exact hDy a ha
            · simp at ha; subst ha; exact hbdone)
          hpk' (fun c hc => hhyp c (by simp [hc])) h
        refine ⟨?_, by rw [r2]; simp; omega⟩
        intro a ha
        rcases ha with ha | ha
        · exact r1 a (Or.inl (by simp [ha]))
        · rcases List.mem_cons.mp ha with ha | ha
          · subst ha; exact r1 a (Or.inl (by simp))
          · exact r1 a (Or.inr ha)

/-- a state in which every step's post-condition holds is a fixpoint of the run: no write changes
anything, nothing is generated -/
theorem runSteps_fix (g : Generator) (steps : List Step) (t : Store) (h : ∀ a ∈ steps, StepDone a t) (n d : Nat) :
    evalOk (runSteps g steps n d) t = (t, (.ok, n, d + steps.length)) ∧
    ∀ x ∈ statesOk (runSteps g steps n d) t, x = t := by
  induction steps generalizing d with
  | nil => simp [runSteps, statesOk]
  | cons b rest ih =>
    obtain ⟨f1, f2⟩ := step_fix g n b t (h b (by simp))
    obtain ⟨i1, i2⟩ := ih (fun a ha => h a (by simp [ha])) (d + 1)
    constructor
    · rw [runSteps_cons_eval, f1]
      simp only
      rw [i1]
      simp; omega
    · intro x hx
      unfold runSteps at hx
      rw [statesOk_bind] at hx
      rcases hx with hx | hx
      · exact f2 x hx
      · rw [f1] at hx
        exact i2 x hx


/-! ### the step list of core.initCommand.Run -/

/-- hypotheses of `init_idempotent`: the webhook TLS secret is not the CA secret, the directories
declare every object once, and the requested packages are pairwise distinct (see `InstallHyp`) -/
structure InitHyp (cfg : Cfg) (s : Store) : Prop where
  names : cfg.webhook = true → cfg.server ≠ cfg.ca
  crds : (objNames cfg.crdDir.objs).Nodup
  whcs : (whcKeys cfg.whcDir.objs).Nodup
  pkgs : InstallHyp cfg.p cfg.c cfg.f s

theorem initSteps_pairwise (cfg : Cfg) (h : cfg.webhook = true → cfg.server ≠ cfg.ca) :
    (initSteps cfg).Pairwise (fun a b => okAfter a b = true) := by
  unfold initSteps
  cases hw : cfg.webhook with
  | true =>
    have hne := h hw
    by_cases he : cfg.ess = ""
    · simp [hw, he, migrators, okAfter]
    · simp [hw, he, migrators, okAfter, hne]
  | false =>
    by_cases he : cfg.ess = ""
    · simp [hw, he, migrators, okAfter]
    · simp [hw, he, migrators, okAfter]

theorem initSteps_hyp (cfg : Cfg) (s : Store) (h : InitHyp cfg s) : ∀ b ∈ initSteps cfg, StepHyp b s := by
  intro b hb
  unfold initSteps at hb
  simp only [List.mem_append, List.mem_cons, List.mem_map, List.mem_singleton] at hb
  rcases hb with (((hb | hb) | hb) | hb) | hb
  · rcases hb with hb | hb
    · subst hb; trivial
    · cases hb
  · split at hb
    · simp at hb
      rcases hb with hb | hb <;> subst hb
      · exact h.crds
      · exact h.whcs
    · simp at hb; subst hb; exact h.crds
  · obtain ⟨m, _, rfl⟩ := hb; trivial
  · split at hb
    · simp at hb; subst hb; trivial
    · cases hb
  · rcases hb with hb | hb | hb | hb
    · subst hb; trivial
    · subst hb; exact h.pkgs
    · subst hb; trivial
    · simp at hb; subst hb; trivial

/-- after a completed initialisation every step's post-condition holds -/
theorem init_done (g : Generator) (cfg : Cfg) (s t : Store) (n n' d : Nat) (hyp : InitHyp cfg s)
    (h : evalOk (initProg g cfg n) s = (t, (Res.ok, n', d))) :
    (∀ a ∈ initSteps cfg, StepDone a t) ∧ d = (initSteps cfg).length := by
  obtain ⟨h1, h2⟩ := runSteps_done g s (initSteps cfg) [] s t n n' 0 d (initSteps_pairwise cfg hyp.names)
    (fun a ha => by cases ha) (fun a ha => by cases ha) (fun _ => rfl) (initSteps_hyp cfg s hyp) h
  exact ⟨fun a ha => h1 a (Or.inr ha), by simpa using h2⟩


/-! ### what the post-conditions say about the CA bundle -/

theorem crdFix_injected {f : CrdFile} {cb : Blob} {t : Store} (h : CrdFix f cb t) (hc : f.conv = true) :
    ∃ c, findCrd t f.name = some c ∧ c.conv = true ∧ c.bundle = cb := by
  obtain ⟨⟨c, hfind⟩, hall⟩ := h
  have hm : c ∈ t.crds := List.mem_of_find?_eq_some hfind
  have hn : c.name = f.name := by simpa [findCrd] using List.find?_some hfind
  have := hall c hm hn
  simp only [patchCrdWith, hc, Bool.or_true, if_true] at this
  refine ⟨c, hfind, ?_, ?_⟩
  · rw [← this]
  · rw [← this]

theorem whcFix_injected {f : WhcFile} {cb : Blob} {svc : Svc} {t : Store} (h : WhcFix f cb svc t) (hh : f.hooks ≠ []) :
    ∃ w, findWhc t f.kind (whcName f) = some w ∧ w.hooks = desiredHooks f cb svc := by
  obtain ⟨⟨w, hfind⟩, hall⟩ := h
  have hm : w ∈ t.whcs := List.mem_of_find?_eq_some hfind
  have hk : w.kind = f.kind ∧ w.name = whcName f := by simpa [findWhc] using List.find?_some hfind
  have := hall w hm hk
  have hd : desiredHooks f cb svc ≠ [] := by
    simp only [desiredHooks, ne_eq, List.map_eq_nil_iff]; exact hh
  simp only [patchWhcWith, hd, if_false] at this
  exact ⟨w, hfind, by rw [← this]⟩

end Xp.C20

import Xp.Proofs.C19Inv
/-
C19 helper lemmas, part 3: what an in-flight reconcile knows (thread invariant)
and its preservation by the environment and by other threads.
-/
namespace Xp.C19

def usedKey (used : Res) (u : Usage) : Prop :=
  used.group = groupOf u.of.av ∧ used.kind = u.of.kind ∧ used.name = u.of.name

/-- what the ghost snapshot taken at the reconcile's List says -/
structure SeenFacts (uname : String) (u : Usage) (seen : List Usage) : Prop where
  only : ∀ y ∈ seen, y.indexedBy (indexValue u.of.av u.of.kind u.of.name) = true → y.name = uname
  self : ∃ x ∈ seen, x.name = uname ∧ x.deleting = true ∧ x.of = u.of

def byResolved (u : Usage) : Prop := ∀ b, u.by_ = some b → b.name ≠ ""

def ownerBorn (s : Store) (u : Usage) : Prop :=
  ∀ b, u.by_ = some b → ∃ o ∈ u.owners, (o.uid, groupOf b.av, b.kind, b.name) ∈ s.born

/-- facts that hold at a program counter -/
def pcFacts (s : Store) (uname : String) (u : Usage) (seen : List Usage) : Pc → Prop
  | .getUsage => True
  | .ofList => u.of.name = ""
  | .ofUpdate pick => u.of.name = "" ∧ pick ≠ ""
  | .byList => u.of.name ≠ "" ∧ ∀ b, u.by_ = some b → b.name = ""
  | .byUpdate pick => u.of.name ≠ "" ∧ pick ≠ "" ∧ ∀ b, u.by_ = some b → b.name = ""
  | .dGetUsing => u.deleting = true ∧ u.of.name ≠ ""
  | .dGetUsed => u.deleting = true ∧ u.of.name ≠ ""
  | .dRemoveFin => u.deleting = true ∧ u.of.name ≠ ""
  | .dList used => u.deleting = true ∧ u.of.name ≠ "" ∧ usedKey used u
  | .dUnlabel used => u.deleting = true ∧ u.of.name ≠ "" ∧ usedKey used u ∧ SeenFacts uname u seen
  | .addFin => u.deleting = false ∧ u.of.name ≠ "" ∧ byResolved u
  | .addDetails => u.deleting = false ∧ u.of.name ≠ "" ∧ byResolved u ∧ u.fin = true
  | .getUsed => u.deleting = false ∧ u.of.name ≠ "" ∧ byResolved u ∧ u.fin = true
  | .getUsing => u.deleting = false ∧ u.of.name ≠ "" ∧ byResolved u ∧ u.fin = true ∧ ∃ b, u.by_ = some b
  | .label used => u.deleting = false ∧ u.of.name ≠ "" ∧ byResolved u ∧ u.fin = true ∧ usedKey used u
  | .addOwner ref => u.deleting = false ∧ u.of.name ≠ "" ∧ byResolved u ∧ u.fin = true ∧
      ∃ b, u.by_ = some b ∧ (ref.uid, groupOf b.av, b.kind, b.name) ∈ s.born
  | .status => u.deleting = false ∧ u.of.name ≠ "" ∧ byResolved u ∧ u.fin = true ∧ ownerBorn s u

def PcFacts (s : Store) (t : Thread) : Prop := pcFacts s t.uname t.u t.seen t.pc

def Pc.isGet : Pc → Bool
  | .getUsage => true
  | _ => false

structure ThreadBase (s : Store) (t : Thread) : Prop where
  name : t.u.name = t.uname
  rvb : t.u.rv < s.nextRv
  /-- the resourceVersion determines the content -/
  same : ∀ x ∈ s.usages, x.name = t.uname → x.rv = t.u.rv → x = t.u
  /-- a Usage holding the finalizer stays in the store with its spec.of -/
  hold : t.u.fin = true →
    ∃ x ∈ s.usages, x.name = t.uname ∧ x.fin = true ∧ x.of = t.u.of ∧ (t.u.deleting = true → x.deleting = true)
  ok : UsageOk s t.u

def TInv (s : Store) (t : Thread) : Prop := t.pc.isGet = true ∨ (ThreadBase s t ∧ PcFacts s t)

/-- a store change that leaves the Usages alone -/
structure SameUsages (s s' : Store) : Prop where
  usages : s'.usages = s.usages
  rv : s.nextRv ≤ s'.nextRv
  born : ∀ e ∈ s.born, e ∈ s'.born

theorem UsageOk.mono {s s' : Store} {u : Usage} (h : UsageOk s u) (hb : ∀ e ∈ s.born, e ∈ s'.born) : UsageOk s' u :=
  ⟨h.delFin, h.readyOf, h.readyBy, fun hr b hbb => by
    obtain ⟨o, ho, hm⟩ := h.owned hr b hbb
    exact ⟨o, ho, hb _ hm⟩⟩

theorem PcFacts.mono {s s' : Store} {t : Thread} (h : PcFacts s t) (hb : ∀ e ∈ s.born, e ∈ s'.born) : PcFacts s' t := by
  unfold PcFacts at h ⊢
  generalize t.pc = pc at h ⊢
  cases pc <;> simp only [pcFacts] at h ⊢ <;> try exact h
  · obtain ⟨h1, h2, h3, h4, b, hb1, hb2⟩ := h
    exact ⟨h1, h2, h3, h4, b, hb1, hb _ hb2⟩
  · obtain ⟨h1, h2, h3, h4, h5⟩ := h
    refine ⟨h1, h2, h3, h4, ?_⟩
    intro b hbb
    obtain ⟨o, ho, hm⟩ := h5 b hbb
    exact ⟨o, ho, hb _ hm⟩

theorem ThreadBase.sameUsages {s s' : Store} {t : Thread} (h : ThreadBase s t) (e : SameUsages s s') : ThreadBase s' t := by
  refine ⟨h.name, Nat.lt_of_lt_of_le h.rvb e.rv, ?_, ?_, h.ok.mono e.born⟩
  · rw [e.usages]; exact h.same
  · rw [e.usages]; exact h.hold

theorem TInv.sameUsages {s s' : Store} {t : Thread} (h : TInv s t) (e : SameUsages s s') : TInv s' t := by
  rcases h with h | ⟨h1, h2⟩
  · exact .inl h
  · exact .inr ⟨h1.sameUsages e, h2.mono e.born⟩

theorem SameUsages.refl (s : Store) : SameUsages s s := ⟨rfl, Nat.le_refl _, fun _ h => h⟩

theorem SameUsages.putR_bump (s : Store) (n : Res) : SameUsages s (s.putR n).bump :=
  ⟨rfl, by simp, fun _ h => h⟩

theorem SameUsages.dropR (s : Store) (g k n : String) : SameUsages s (s.dropR g k n) :=
  ⟨rfl, by simp, fun _ h => h⟩

theorem SameUsages.trans {a b c : Store} (h1 : SameUsages a b) (h2 : SameUsages b c) : SameUsages a c :=
  ⟨by rw [h2.usages, h1.usages], Nat.le_trans h1.rv h2.rv, fun e h => h2.born e (h1.born e h)⟩

theorem SameUsages.createRes (s : Store) (g k n : String) (l : Labels) (iu : Bool) (c : String) :
    SameUsages s (s.createRes g k n l iu c).1 := by
  unfold Store.createRes
  split
  · exact .refl s
  · split
    · exact .refl s
    · exact ⟨rfl, by simp, fun e h => List.mem_cons_of_mem _ h⟩

theorem SameUsages.admitDelete (s : Store) (r : Res) (p : String) (lo po : Bool) (st : Option Nat) :
    SameUsages s (s.admitDelete r p lo po st).1 := by
  unfold Store.admitDelete
  split
  · exact .refl s
  · split
    · split
      · split
        · exact .refl s
        · exact .putR_bump s _
      · exact .refl s
    · exact .refl s

theorem SameUsages.touchRes (s : Store) (g k n : String) (l : Labels) : SameUsages s (s.touchRes g k n l).1 := by
  unfold Store.touchRes
  split
  · exact .refl s
  · split
    · exact .refl s
    · exact .putR_bump s _

theorem SameUsages.deleteRes (s : Store) (g k n p : String) (lo po : Bool) (st : Option Nat) :
    SameUsages s (s.deleteRes g k n p lo po st).1 := by
  unfold Store.deleteRes
  split
  · exact .refl s
  · split
    · split
      · exact (SameUsages.admitDelete s _ p lo po st).trans (.dropR _ g k n)
      · exact .admitDelete s _ p lo po st
    · exact .dropR s g k n

theorem SameUsages.gcRes (s : Store) (g k n : String) : SameUsages s (s.gcRes g k n).1 := by
  unfold Store.gcRes
  split
  · exact .refl s
  · split
    · exact .refl s
    · split
      · exact .refl s
      · exact .deleteRes s g k n _ _ _ _

/-! ### changes to Usages made by the environment or by another thread -/

theorem ThreadBase.putU_other {s : Store} {t : Thread} (h : ThreadBase s t) {n : Usage} (hne : n.name ≠ t.uname) :
    ThreadBase (s.putU n).bump t := by
  refine ⟨h.name, by have := h.rvb; simp; omega, ?_, ?_, h.ok.mono (by simp)⟩
  · intro x hx hxn hrv
    simp only [bump_usages, mem_putU] at hx
    rcases hx with ⟨hx, _⟩ | ⟨rfl, _⟩
    · exact h.same x hx hxn hrv
    · exact absurd hxn hne
  · intro hf
    obtain ⟨x, hx, h1, h2, h3, h4⟩ := h.hold hf
    refine ⟨x, ?_, h1, h2, h3, h4⟩
    simp only [bump_usages, mem_putU]
    exact .inl ⟨hx, by rw [h1]; exact fun e => hne e.symm⟩

theorem ThreadBase.dropU_other {s : Store} {t : Thread} (h : ThreadBase s t) {nm : String} (hne : nm ≠ t.uname) :
    ThreadBase (s.dropU nm).bump t := by
  refine ⟨h.name, by have := h.rvb; simp; omega, ?_, ?_, h.ok.mono (by simp)⟩
  · intro x hx hxn hrv
    simp only [bump_usages, mem_dropU] at hx
    exact h.same x hx.1 hxn hrv
  · intro hf
    obtain ⟨x, hx, h1, h2, h3, h4⟩ := h.hold hf
    refine ⟨x, ?_, h1, h2, h3, h4⟩
    simp only [bump_usages, mem_dropU]
    exact ⟨hx, by rw [h1]; exact fun e => hne e.symm⟩

/-- the user (or GC) requests deletion of a Usage holding the finalizer -/
theorem ThreadBase.mark {s : Store} (hs : StoreInv s) {t : Thread} (h : ThreadBase s t) {x : Usage} (hx : x ∈ s.usages) :
    ThreadBase (s.putU { x with deleting := true, rv := s.nextRv }).bump t := by
  by_cases hne : x.name = t.uname
  · refine ⟨h.name, by have := h.rvb; simp; omega, ?_, ?_, h.ok.mono (by simp)⟩
    · intro y hy hyn hrv
      simp only [bump_usages, mem_putU] at hy
      rcases hy with ⟨hy, _⟩ | ⟨rfl, _⟩
      · exact h.same y hy hyn hrv
      · have := h.rvb
        simp only at hrv
        omega
    · intro hf
      obtain ⟨w, hw, h1, h2, h3, h4⟩ := h.hold hf
      have hwx : w = x := hs.usageUniq w hw x hx (by rw [h1, hne])
      subst hwx
      refine ⟨{ w with deleting := true, rv := s.nextRv }, ?_, h1, h2, h3, fun _ => rfl⟩
      rw [bump_usages]
      exact mem_putU.mpr (.inr ⟨rfl, w, hw, rfl⟩)
  · exact h.putU_other (n := { x with deleting := true, rv := s.nextRv }) hne

/-- the user deletes a Usage that holds no finalizer: it is gone at once -/
theorem ThreadBase.dropNoFin {s : Store} (hs : StoreInv s) {t : Thread} (h : ThreadBase s t) {x : Usage}
    (hx : x ∈ s.usages) (hf : x.fin = false) : ThreadBase (s.dropU x.name) t := by
  refine ⟨h.name, by simpa using h.rvb, ?_, ?_, h.ok.mono (by simp)⟩
  · intro y hy hyn hrv
    simp only [mem_dropU] at hy
    exact h.same y hy.1 hyn hrv
  · intro hfin
    obtain ⟨w, hw, h1, h2, h3, h4⟩ := h.hold hfin
    refine ⟨w, ?_, h1, h2, h3, h4⟩
    simp only [mem_dropU]
    refine ⟨hw, fun e => ?_⟩
    have hwx : w = x := hs.usageUniq w hw x hx e
    subst hwx
    rw [hf] at h2; cases h2

theorem ThreadBase.deleteUsage {s : Store} (hs : StoreInv s) {t : Thread} (h : ThreadBase s t) (nm : String) :
    ThreadBase (s.deleteUsage nm).1 t := by
  unfold Store.deleteUsage
  split
  · exact h
  · next x hg =>
    have hx := getU_some hg
    split
    · split
      · exact h
      · exact h.mark hs hx.1
    · next hf =>
      have := h.dropNoFin hs hx.1 (by simpa using hf)
      rwa [hx.2] at this

theorem ThreadBase.createUsage {s : Store} {t : Thread} (h : ThreadBase s t) (nm : String) (of : RSpec)
    (b : Option RSpec) (r : Option String) (c : Bool) (ct : String) : ThreadBase (s.createUsage nm of b r c ct).1 t := by
  unfold Store.createUsage
  split
  · exact h
  · split
    · exact h
    · refine ⟨h.name, by have := h.rvb; simp only; omega, ?_, ?_, h.ok.mono (fun _ h => h)⟩
      · intro y hy hyn hrv
        simp only [List.mem_append, List.mem_singleton] at hy
        rcases hy with hy | rfl
        · exact h.same y hy hyn hrv
        · have := h.rvb; simp only at hrv; omega
      · intro hf
        obtain ⟨w, hw, hrest⟩ := h.hold hf
        exact ⟨w, List.mem_append_left _ hw, hrest⟩

theorem ThreadBase.gcUsage {s : Store} (hs : StoreInv s) {t : Thread} (h : ThreadBase s t) (nm : String) :
    ThreadBase (s.gcUsage nm).1 t := by
  unfold Store.gcUsage
  split
  · exact h
  · split
    · exact h
    · split
      · exact h
      · exact h.deleteUsage hs nm

/-- `PcFacts` does not read the Usages or the resources of the store -/
theorem PcFacts.of_born {s s' : Store} {t : Thread} (h : PcFacts s t) (hb : s'.born = s.born) : PcFacts s' t :=
  h.mono (by rw [hb]; exact fun _ h => h)

theorem deleteUsage_born (s : Store) (nm : String) : (s.deleteUsage nm).1.born = s.born := by
  unfold Store.deleteUsage
  split
  · rfl
  · split
    · split <;> rfl
    · rfl

theorem createUsage_born (s : Store) (nm : String) (of : RSpec) (b : Option RSpec) (r : Option String) (c : Bool)
    (ct : String) : (s.createUsage nm of b r c ct).1.born = s.born := by
  unfold Store.createUsage
  split
  · rfl
  · split <;> rfl

theorem gcUsage_born (s : Store) (nm : String) : (s.gcUsage nm).1.born = s.born := by
  unfold Store.gcUsage
  split
  · rfl
  · split
    · rfl
    · split
      · rfl
      · exact deleteUsage_born s nm

theorem TInv.deleteUsage {s : Store} (hs : StoreInv s) {t : Thread} (h : TInv s t) (nm : String) :
    TInv (s.deleteUsage nm).1 t := by
  rcases h with h | ⟨h1, h2⟩
  · exact .inl h
  · exact .inr ⟨h1.deleteUsage hs nm, h2.of_born (deleteUsage_born s nm)⟩

theorem TInv.createUsage {s : Store} {t : Thread} (h : TInv s t) (nm : String) (of : RSpec)
    (b : Option RSpec) (r : Option String) (c : Bool) (ct : String) : TInv (s.createUsage nm of b r c ct).1 t := by
  rcases h with h | ⟨h1, h2⟩
  · exact .inl h
  · exact .inr ⟨h1.createUsage nm of b r c ct, h2.of_born (createUsage_born s nm of b r c ct)⟩

theorem TInv.gcUsage {s : Store} (hs : StoreInv s) {t : Thread} (h : TInv s t) (nm : String) :
    TInv (s.gcUsage nm).1 t := by
  rcases h with h | ⟨h1, h2⟩
  · exact .inl h
  · exact .inr ⟨h1.gcUsage hs nm, h2.of_born (gcUsage_born s nm)⟩

/-- a rewrite of a stored Usage (fresh rv) that keeps name, finalizer, spec.of and deletion state -/
theorem ThreadBase.rewrite {s : Store} (hs : StoreInv s) {t : Thread} (h : ThreadBase s t) {x n : Usage}
    (hx : x ∈ s.usages) (hn : n.name = x.name) (hrv : n.rv = s.nextRv) (hf : n.fin = x.fin) (ho : n.of = x.of)
    (hd : n.deleting = x.deleting) : ThreadBase (s.putU n).bump t := by
  by_cases hne : x.name = t.uname
  · refine ⟨h.name, by have := h.rvb; simp; omega, ?_, ?_, h.ok.mono (by simp)⟩
    · intro y hy hyn hrv'
      simp only [bump_usages, mem_putU] at hy
      rcases hy with ⟨hy, _⟩ | ⟨rfl, _⟩
      · exact h.same y hy hyn hrv'
      · have := h.rvb; omega
    · intro hfin
      obtain ⟨w, hw, h1, h2, h3, h4⟩ := h.hold hfin
      have hwx : w = x := hs.usageUniq w hw x hx (by rw [h1, hne])
      subst hwx
      refine ⟨n, ?_, hn.trans h1, hf.trans h2, ho.trans h3, fun hdel => hd.trans (h4 hdel)⟩
      rw [bump_usages]
      exact mem_putU.mpr (.inr ⟨rfl, w, hw, hn.symm⟩)
  · exact h.putU_other (n := n) (by rw [hn]; exact hne)

theorem reapplyUsage_born (s : Store) (nm c : String) : (s.reapplyUsage nm c).1.born = s.born := by
  unfold Store.reapplyUsage
  split
  · rfl
  · split
    · rfl
    · split
      · rfl
      · split <;> rfl

theorem TInv.reapplyUsage {s : Store} (hs : StoreInv s) {t : Thread} (h : TInv s t) (nm c : String) :
    TInv (s.reapplyUsage nm c).1 t := by
  rcases h with h | ⟨h1, h2⟩
  · exact .inl h
  · refine .inr ⟨?_, h2.of_born (reapplyUsage_born s nm c)⟩
    unfold Store.reapplyUsage
    split
    · exact h1
    · next x hg =>
      split
      · exact h1
      · split
        · exact h1
        · split
          · exact h1
          · exact h1.rewrite hs (getU_some hg).1 rfl rfl rfl rfl rfl

end Xp.C19

import Xp.Proofs.C07
import Xp.Proofs.C07World
import Xp.Model.C07Meta
import Xp.Model.C07Skel
/-
C07 helper lemmas: the reserved-key filter, labels / annotations in both directions,
the managed-fields upgrader.
-/
namespace Xp.C07
open Xp

/-! ### `reserved` -/

theorem reservedSep_eq : reservedSep = '/' := by decide

theorem takeWhile_ne_append (c : Char) (p r : List Char) (hp : c ∉ p) (hr : r = [] ∨ r.head? = some c) :
    (p ++ r).takeWhile (· != c) = p := by
  induction p with
  | nil =>
    rcases hr with hr | hr
    · subst hr; rfl
    · cases r with
      | nil => rfl
      | cons a r' =>
        simp only [List.head?_cons, Option.some.injEq] at hr
        subst hr
        simp
  | cons a p ih =>
    have ha : a ≠ c := fun e => hp (e ▸ List.mem_cons_self)
    have hp' : c ∉ p := fun h => hp (List.mem_cons_of_mem _ h)
    simp [ha, ih hp']

theorem not_mem_takeWhile_ne (c : Char) (l : List Char) : c ∉ l.takeWhile (· != c) := by
  induction l with
  | nil => simp
  | cons a l ih =>
    rw [List.takeWhile_cons]
    by_cases ha : a = c
    · subst ha; simp
    · have hb : (a != c) = true := by simp [ha]
      simp only [hb, if_true, List.mem_cons, not_or]
      exact ⟨fun e => ha e.symm, ih⟩

theorem dropWhile_ne_head (c : Char) (l : List Char) :
    l.dropWhile (· != c) = [] ∨ (l.dropWhile (· != c)).head? = some c := by
  induction l with
  | nil => left; rfl
  | cons a l ih =>
    rw [List.dropWhile_cons]
    by_cases ha : a = c
    · subst ha; right; simp
    · have hb : (a != c) = true := by simp [ha]
      simp only [hb, if_true]
      exact ih

/-- `reserved` unfolded over the tables of the current tree -/
theorem reserved_eq (k : String) :
    reserved k = ("kubernetes.io".toList.isSuffixOf (k.toList.takeWhile (· != '/')) ||
                  "k8s.io".toList.isSuffixOf (k.toList.takeWhile (· != '/'))) := by
  simp [reserved, firstPart, reservedSep_eq, Xp.Gen.c07ReservedSuffixes]

/-! ### XR → claim: labels and annotations -/

theorem ClaimMetaOf_status (cm : KObj) (en : String) (b : KObj) (st : Option J)
    (h : ClaimMetaOf cm en b) : ClaimMetaOf cm en { b with status := st } := h

theorem ClaimMetaOf_spec (cm : KObj) (en : String) (b : KObj) (sp : Option J)
    (h : ClaimMetaOf cm en b) : ClaimMetaOf cm en { b with spec := sp } := h

theorem ClaimMetaOf_self (cm : KObj) : ClaimMetaOf cm "" cm :=
  ⟨rfl, rfl, fun k => by simp⟩

/-- `if en != "" { meta.SetExternalName(cm, en) }` -/
theorem ClaimMetaOf_setExt (cm b : KObj) (en : String) (sp : Option J) (h : ClaimMetaOf cm "" b) :
    ClaimMetaOf cm en
      { b with annotations := if en != "" then setAnn b.annotations extNameKey en else b.annotations, spec := sp } := by
  obtain ⟨h1, h2, h3⟩ := h
  refine ⟨h1, h2, fun k => ?_⟩
  by_cases hen : en = ""
  · subst hen
    simpa [KObj.anns] using h3 k
  · have : (en != "") = true := by simp [hen]
    simp only [this, if_true, KObj.anns, anns_setAnn, ne_eq, hen, not_false_eq_true, and_true]
    by_cases hk : k = extNameKey
    · simp [hk]
    · simpa [hk, KObj.anns] using h3 k

theorem ssaClaim_meta (c : Cfg) (name : String) (cm : KObj) (xr : Option KObj) (cs : AL J) :
    ClaimMetaOf cm (extName xr) (ssaClaim c name cm xr cs) := by
  unfold ssaClaim
  exact ClaimMetaOf_setExt cm cm (extName xr) _ (ClaimMetaOf_self cm)

theorem syncSSA_claim_meta (c : Cfg) (gen : String) (s : St) (cs : AL J) (h : s.cm.spec = some (.obj cs)) :
    (∀ w ∈ (syncSSA c gen s).writes, w.isXR = false → ClaimMetaOf s.cm (extName s.xr) w.body) ∧
    ClaimMetaOf s.cm (extName s.xr) (syncSSA c gen s).st.cm := by
  have base := ssaClaim_meta c (ssaPatch c gen s.cm s.xr cs).name s.cm s.xr cs
  unfold syncSSA
  rw [h]
  simp only []
  split
  · refine ⟨?_, base⟩
    intro w hw hx
    simp only [List.mem_cons, List.not_mem_nil, or_false] at hw
    rcases hw with rfl | rfl
    · exact base
    · simp [Write.isXR] at hx
  · refine ⟨?_, base⟩
    intro w hw hx
    simp only [List.cons_append, List.nil_append, List.mem_cons, List.not_mem_nil, or_false] at hw
    rcases hw with rfl | rfl | rfl
    · exact base
    · simp [Write.isXR] at hx
    · exact base
  · refine ⟨?_, base⟩
    intro w hw hx
    simp only [List.mem_cons, List.not_mem_nil, or_false] at hw
    rcases hw with rfl | rfl
    · exact base
    · simp [Write.isXR] at hx

theorem csaBound_meta (c : Cfg) (gen : String) (s : St) (cs : AL J) :
    ClaimMetaOf s.cm "" (csaBound c gen s cs) := by
  unfold csaBound
  simp only []
  split
  · exact ClaimMetaOf_self _
  · exact ClaimMetaOf_self _

theorem csaBack_meta (c : Cfg) (cm0 cm1 xrA : KObj) (s1 : St) (w : List Write)
    (h1 : ClaimMetaOf cm0 "" cm1) (hs : ClaimMetaOf cm0 "" s1.cm)
    (hw : ∀ x ∈ w, x.isXR = false → ClaimMetaOf cm0 "" x.body) :
    (∀ x ∈ (csaBack c cm1 xrA s1 w).writes, x.isXR = false →
      ClaimMetaOf cm0 "" x.body ∨ ClaimMetaOf cm0 (extName (some xrA)) x.body) ∧
    (ClaimMetaOf cm0 "" (csaBack c cm1 xrA s1 w).st.cm ∨
      ClaimMetaOf cm0 (extName (some xrA)) (csaBack c cm1 xrA s1 w).st.cm) ∧
    ((csaBack c cm1 xrA s1 w).err = "" → ClaimMetaOf cm0 (extName (some xrA)) (csaBack c cm1 xrA s1 w).st.cm) := by
  unfold csaBack
  split
  · refine ⟨fun x hx hxr => Or.inl (hw x hx hxr), Or.inl hs, ?_⟩
    intro he
    rename_i e _
    -- the error of csaMergeStatus is never empty
    exfalso
    rename_i hm
    unfold csaMergeStatus at hm
    split at hm <;> simp at hm
    subst hm
    simp at he
  · rename_i st' _
    have h2 : ClaimMetaOf cm0 "" (storeClaimStatus cm1 { cm1 with status := st' }) := h1
    simp only []
    split
    · rename_i cs hcs
      have h3 := ClaimMetaOf_setExt cm0 (storeClaimStatus cm1 { cm1 with status := st' }) (extName (some xrA))
        (some (.obj (csaClaimSpec cs xrA.specFields))) h2
      refine ⟨?_, Or.inr h3, fun _ => h3⟩
      intro x hx hxr
      simp only [List.mem_append, List.mem_cons, List.not_mem_nil, or_false] at hx
      rcases hx with (hx | rfl) | rfl
      · exact Or.inl (hw x hx hxr)
      · exact Or.inl h1
      · exact Or.inr h3
    · refine ⟨?_, Or.inl h2, fun he => by simp at he⟩
      intro x hx hxr
      simp only [List.mem_append, List.mem_cons, List.not_mem_nil, or_false] at hx
      rcases hx with hx | rfl
      · exact Or.inl (hw x hx hxr)
      · exact Or.inl h1

theorem syncCSA_claim_meta (c : Cfg) (gen : String) (s : St) (cs : AL J) (h : s.cm.spec = some (.obj cs)) :
    let en := extName (some (csaApplied c gen s cs))
    (∀ w ∈ (syncCSA c gen s).writes, w.isXR = false →
      ClaimMetaOf s.cm "" w.body ∨ ClaimMetaOf s.cm en w.body) ∧
    (ClaimMetaOf s.cm "" (syncCSA c gen s).st.cm ∨ ClaimMetaOf s.cm en (syncCSA c gen s).st.cm) ∧
    ((syncCSA c gen s).err = "" → ClaimMetaOf s.cm en (syncCSA c gen s).st.cm) := by
  unfold syncCSA
  rw [h]
  simp only []
  apply csaBack_meta c s.cm
  · exact csaBound_meta c gen s cs
  · exact csaBound_meta c gen s cs
  · intro x hx hxr
    simp only [List.mem_append] at hx
    rcases hx with hx | hx
    · split at hx
      · simp at hx
      · simp only [List.mem_cons, List.not_mem_nil, or_false] at hx
        subst hx
        exact ClaimMetaOf_self s.cm
    · exfalso
      split at hx
      · simp only [List.mem_cons, List.not_mem_nil, or_false] at hx
        subst hx; simp [Write.isXR] at hxr
      · split at hx
        · simp at hx
        · simp only [List.mem_cons, List.not_mem_nil, or_false] at hx
          subst hx; simp [Write.isXR] at hxr


/-- server-side syncer, every world: every claim write carries the metadata of the claim
as READ, with the external name of the XR as READ -/
theorem syncSSAW_claim_meta (c : Cfg) (gen : String) (w : World) (rcm : KObj) (rcmV : Nat) (rxr : Option KObj)
    (s : Srv) (cs : AL J) (hcs : rcm.spec = some (.obj cs))
    (wr : Write) (h : wr ∈ (syncSSAW c gen w rcm rcmV rxr s).writes) (hx : wr.isXR = false) :
    ClaimMetaOf rcm (extName rxr) wr.body := by
  have base := ssaClaim_meta c (ssaPatch c gen rcm rxr cs).name rcm rxr cs
  unfold syncSSAW at h
  rw [hcs] at h
  simp only [] at h
  have two : ∀ (a : KObj) (rest : List Write), ClaimMetaOf rcm (extName rxr) a →
      (∀ x ∈ rest, ClaimMetaOf rcm (extName rxr) x.body) →
      wr ∈ [Write.claimUpdate a, Write.xrApply (ssaPatch c gen rcm rxr cs)] ++ rest →
      ClaimMetaOf rcm (extName rxr) wr.body := by
    intro a rest ha hr hm
    simp only [List.cons_append, List.nil_append, List.mem_cons] at hm
    rcases hm with hm | hm | hm
    · subst hm; exact ha
    · subst hm; simp [Write.isXR] at hx
    · exact hr _ hm
  split at h
  · simp only [List.mem_singleton] at h
    subst h; exact base
  · rename_i s0' h0
    have hcm := (claimWrite_ok_iff _ _ _ _ _ h0).2.2.1
    have hst : ∀ st, ClaimMetaOf rcm (extName rxr) { s0'.cm with status := st } := by
      intro st; rw [hcm]; exact base
    split at h
    · exact two _ [] base (by simp) (by simpa using h)
    · split at h
      · exact two _ [] base (by simp) (by simpa using h)
      · split at h <;>
        · refine two _ [_] base ?_ h
          intro x hx
          simp only [List.mem_singleton] at hx
          subst hx
          exact hst _
      · exact two _ [] base (by simp) (by simpa using h)

/-! ### reserved labels / annotations of the stored XR -/

theorem ssaRemoveS_untouched (k : String) (cfg : AL String) :
    ∀ (prev dst : AL String), alookup k prev = none → alookup k (ssaRemoveS dst cfg prev) = alookup k dst := by
  intro prev
  induction prev with
  | nil => intro dst _; rfl
  | cons kv rest ih =>
    intro dst h
    obtain ⟨k', v⟩ := kv
    have hne : k' ≠ k := by
      intro e; subst e; simp [alookup] at h
    have hrest : alookup k rest = none := by simpa [alookup, hne] using h
    simp only [ssaRemoveS]
    rw [ih _ hrest]
    split
    · exact alookup_aerase_ne _ _ (Ne.symm hne) _
    · rfl

theorem ssaPatch_reserved_labels (c : Cfg) (gen : String) (cm : KObj) (xr : Option KObj) (cs : AL J) (k : String)
    (hk : reserved k = true) : alookup k (ssaPatch c gen cm xr cs).labels = none := by
  rw [ssaPatch_labels]
  have h1 : k ≠ Xp.Gen.labelKeyClaimNamespace := by intro e; subst e; revert hk; decide
  have h2 : k ≠ Xp.Gen.labelKeyClaimName := by intro e; subst e; revert hk; decide
  simp [h1, h2, hk]

theorem ssaPatch_reserved_anns (c : Cfg) (gen : String) (cm : KObj) (xr : Option KObj) (cs : AL J) (k : String)
    (hk : reserved k = true) : alookup k (ssaPatch c gen cm xr cs).anns = none := by
  rw [ssaPatch_anns]
  have h1 : k ≠ extNameKey := by intro e; subst e; revert hk; decide
  simp [h1, hk]

theorem applySSA_labels_untouched (x : KObj) (prev : Option KObj) (p : KObj) (k : String)
    (hp : alookup k p.labels = none) (hq : ∀ q, prev = some q → alookup k q.labels = none) :
    alookup k (applySSA (some x) prev p).labels = alookup k x.labels := by
  simp only [applySSA]
  rw [alookup_addAll_none k _ _ hp]
  apply ssaRemoveS_untouched
  cases prev with
  | none => rfl
  | some q => exact hq q rfl

theorem applySSA_anns_untouched (x : KObj) (prev : Option KObj) (p : KObj) (k : String)
    (hp : alookup k p.anns = none) (hq : ∀ q, prev = some q → alookup k q.anns = none) :
    alookup k (applySSA (some x) prev p).anns = alookup k x.anns := by
  -- the annotations after removal of what the manager no longer applies
  have key : ∀ (a0 : Option (AL String)), alookup k (a0.getD []) = alookup k x.anns →
      alookup k ((match p.annotations with
        | some m => some (addAll (a0.getD []) m)
        | none => a0).getD []) = alookup k x.anns := by
    intro a0 h0
    cases hpa : p.annotations with
    | none => simpa using h0
    | some m =>
      have : alookup k m = none := by simpa [KObj.anns, hpa] using hp
      simp only [Option.getD_some]
      rw [alookup_addAll_none k _ _ this]
      exact h0
  simp only [applySSA, KObj.anns]
  apply key
  cases prev with
  | none => rfl
  | some q =>
    have hqk : alookup k q.anns = none := hq q rfl
    simp only []
    cases hqa : q.annotations with
    | none => rfl
    | some pa =>
      cases hxa : x.annotations with
      | none => simp [KObj.anns, hxa]
      | some xa =>
        have hpa : alookup k pa = none := by simpa [KObj.anns, hqa] using hqk
        have hrm := ssaRemoveS_untouched k (p.annotations.getD []) pa xa hpa
        simp only [KObj.anns, hxa, Option.getD_some]
        split
        · rename_i hem
          have : ssaRemoveS xa (p.annotations.getD []) pa = [] := by
            simp only [Bool.and_eq_true] at hem
            exact List.isEmpty_iff.mp hem.1
          rw [this] at hrm
          simpa using hrm
        · simpa using hrm

theorem mergePatchXR_labels_untouched (x d : KObj) (k : String) (h : alookup k d.labels = alookup k x.labels)
    (hnd : NoDup d.labels) : alookup k (mergePatchXR x d).labels = alookup k x.labels := by
  simp only [mergePatchXR]
  rw [alookup_addAll _ _ _ hnd, h]
  cases alookup k x.labels <;> rfl


/-! ### `PrevClean` along histories -/

theorem syncSSA_prevClean (c : Cfg) (gen : String) (s : St) (h : PrevClean s.prev) :
    PrevClean (syncSSA c gen s).st.prev := by
  cases hs : s.cm.spec with
  | none => unfold syncSSA; rw [hs]; exact h
  | some v =>
    cases v with
    | obj cs =>
      intro q hq k hk
      rw [syncSSA_prev c gen s cs hs] at hq
      cases hq
      exact ⟨ssaPatch_reserved_labels c gen s.cm s.xr cs k hk, ssaPatch_reserved_anns c gen s.cm s.xr cs k hk⟩
    | _ => unfold syncSSA; rw [hs]; exact h

theorem syncCSA_prevClean (c : Cfg) (gen : String) (s : St) (h : PrevClean s.prev) :
    PrevClean (syncCSA c gen s).st.prev := by
  cases hs : s.cm.spec with
  | none => unfold syncCSA; rw [hs]; exact h
  | some v =>
    cases v with
    | obj cs =>
      obtain ⟨w, hw⟩ := syncCSA_eq c gen s cs hs
      rw [hw, csaBack_prev]
      exact h
    | _ => unfold syncCSA; rw [hs]; exact h

theorem step_prevClean (c : Cfg) (s : St) (op : Op) (h : PrevClean s.prev) : PrevClean (step c s op).st.prev := by
  cases op with
  | syncSSA gen => exact syncSSA_prevClean c gen s h
  | syncCSA gen => exact syncCSA_prevClean c gen s h
  | editClaim d => exact h
  | xrCtl d => exact h
  | upgrade => exact h

theorem run_prevClean (c : Cfg) (ops : List Op) : ∀ s, PrevClean s.prev → PrevClean (run c s ops).prev := by
  induction ops with
  | nil => intro s h; exact h
  | cons op rest ih => intro s h; exact ih _ (step_prevClean c s op h)

/-! ### lists -/

theorem NoDup_addAll : ∀ (s : AL String) (d : AL String), NoDup d → NoDup (addAll d s) := by
  intro s
  induction s with
  | nil => intro d h; exact h
  | cons kv rest ih =>
    intro d h
    obtain ⟨k, v⟩ := kv
    exact ih _ (NoDup_aset k v d h)

theorem perm_cons_eraseIdx {α} (b : α) : ∀ (l : List α) (j : Nat), l[j]? = some b → l.Perm (b :: l.eraseIdx j) := by
  intro l
  induction l with
  | nil => intro j h; simp at h
  | cons a l ih =>
    intro j h
    cases j with
    | zero =>
      simp only [List.getElem?_cons_zero, Option.some.injEq] at h
      subst h
      exact List.Perm.refl _
    | succ j =>
      simp only [List.getElem?_cons_succ] at h
      simp only [List.eraseIdx_cons_succ]
      exact ((ih j h).cons a).trans (List.Perm.swap b a _)

/-! ### the managed-fields upgrader -/

theorem bfaManager_eq : bfaManager = "before-first-apply" := by decide

/-- the scan from index `i` on: flags are monotone disjunctions, the index is that of the
last matching entry -/
theorem scan_spec (ssa : String) : ∀ (mf : List String) (i : Nat) (a : Scan),
    ((scan ssa mf i a).foundSSA = true ↔ (a.foundSSA = true ∨ ssa ∈ mf)) ∧
    ((scan ssa mf i a).foundBFA = true ↔ (a.foundBFA = true ∨ bfaManager ∈ mf)) ∧
    (bfaManager ∉ mf → (scan ssa mf i a).idxBFA = a.idxBFA) ∧
    (bfaManager ∈ mf →
      ∃ j, (scan ssa mf i a).idxBFA = i + j ∧ mf[j]? = some bfaManager ∧
        ∀ j', j < j' → mf[j']? ≠ some bfaManager) := by
  intro mf
  induction mf with
  | nil => intro i a; simp [scan]
  | cons m rest ih =>
    intro i a
    obtain ⟨h1, h2, h3, h4⟩ := ih (i + 1)
      { foundSSA := a.foundSSA || m == ssa, foundBFA := a.foundBFA || m == bfaManager,
        idxBFA := if m == bfaManager then i else a.idxBFA }
    simp only [scan]
    refine ⟨?_, ?_, ?_, ?_⟩
    · rw [h1]
      simp only [Bool.or_eq_true, beq_iff_eq, List.mem_cons]
      constructor
      · rintro ((h | h) | h)
        · exact Or.inl h
        · exact Or.inr (Or.inl h.symm)
        · exact Or.inr (Or.inr h)
      · rintro (h | h | h)
        · exact Or.inl (Or.inl h)
        · exact Or.inl (Or.inr h.symm)
        · exact Or.inr h
    · rw [h2]
      simp only [Bool.or_eq_true, beq_iff_eq, List.mem_cons]
      constructor
      · rintro ((h | h) | h)
        · exact Or.inl h
        · exact Or.inr (Or.inl h.symm)
        · exact Or.inr (Or.inr h)
      · rintro (h | h | h)
        · exact Or.inl (Or.inl h)
        · exact Or.inl (Or.inr h.symm)
        · exact Or.inr h
    · intro hno
      simp only [List.mem_cons, not_or] at hno
      rw [h3 hno.2]
      have : (m == bfaManager) = false := by
        simp only [beq_eq_false_iff_ne, ne_eq]
        exact fun e => hno.1 e.symm
      simp [this]
    · intro hyes
      by_cases hr : bfaManager ∈ rest
      · obtain ⟨j, hj1, hj2, hj3⟩ := h4 hr
        refine ⟨j + 1, by rw [hj1]; omega, by simpa using hj2, ?_⟩
        intro j' hj'
        cases j' with
        | zero => omega
        | succ j'' => simpa using hj3 j'' (by omega)
      · have hm : m = bfaManager := by
          simp only [List.mem_cons] at hyes
          rcases hyes with h | h
          · exact h.symm
          · exact absurd h hr
        refine ⟨0, by rw [h3 hr]; simp [hm], by simp [hm], ?_⟩
        intro j' hj'
        cases j' with
        | zero => omega
        | succ j'' =>
          simp only [List.getElem?_cons_succ]
          intro hc
          exact hr (List.mem_of_getElem? hc)

end Xp.C07

import Xp.Proofs.C08Trace
/-
C08 with creation: the creating steps of the live branches (`Act.live`) and arbitrary
creations (`Act.create`) invalidate exactly the facts their births threaten
(`Birth.threatens`); every other fact an in-flight reconcile has learned survives them.
Hence the ordering constraint holds in every configuration reachable by ANY schedule that
stays outside the windows (`Calm`), and every creation-free schedule is such a schedule.
-/
namespace Xp.C08
open Xp.Gen

set_option linter.unusedSimpArgs false

/-- `s'` keeps every fact of `s` that none of the births `bs` threatens -/
def Succ (bs : List Birth) (s s' : St) : Prop :=
  ∀ f : Fact, (∀ b ∈ bs, b.threatens f = false) → f.holds s → f.holds s'

theorem Succ.of_le {s s' : St} (h : Le s s') (bs : List Birth) : Succ bs s s' :=
  fun f _ hf => Fact.holds_le h f hf

theorem Succ.refl (s : St) (bs : List Birth) : Succ bs s s := fun _ _ hf => hf

theorem Succ.weaken {bs bs' : List Birth} {s s' : St} (h : Succ bs s s') (hsub : ∀ b ∈ bs, b ∈ bs') : Succ bs' s s' :=
  fun f hb hf => h f (fun b hbm => hb b (hsub b hbm)) hf

theorem Succ.trans {b1 b2 : List Birth} {a b c : St} (h1 : Succ b1 a b) (h2 : Succ b2 b c) : Succ (b1 ++ b2) a c :=
  fun f hb hf => h2 f (fun x hx => hb x (List.mem_append_right _ hx)) (h1 f (fun x hx => hb x (List.mem_append_left _ hx)) hf)

/-- the key a fact talks about -/
def Fact.about : Fact → Key → Prop
  | .gone k, k' => k' = k
  | .goneOrDel k, k' => k' = k
  | .immut k _, k' => k' = k
  | .pkgsSub _, k' => k' = lockKey
  | .notInLock _, k' => k' = lockKey
  | .noneOf _, _ => False
  | .stopped _, _ => False

/-- a fact survives a change of the store that leaves alone what it talks about -/
theorem holds_of_local {s s' : St} (f : Fact)
    (hrun : ∀ c, f = .stopped c → c ∈ s'.running → c ∈ s.running)
    (hkeys : ∀ kd, f = .noneOf kd → ∀ x ∈ s'.objs, x.key.kind = kd → ∃ y ∈ s.objs, y.key.kind = kd)
    (hfind : ∀ k, f.about k → find s' k = find s k)
    (hf : f.holds s) : f.holds s' := by
  cases f with
  | gone k => simp only [Fact.holds] at hf ⊢; rw [hfind k rfl]; exact hf
  | goneOrDel k => simp only [Fact.holds] at hf ⊢; rw [hfind k rfl]; exact hf
  | immut k a => simp only [Fact.holds] at hf ⊢; rw [hfind k rfl]; exact hf
  | pkgsSub ps => simp only [Fact.holds] at hf ⊢; rw [hfind lockKey rfl]; exact hf
  | notInLock n => simp only [Fact.holds] at hf ⊢; rw [hfind lockKey rfl]; exact hf
  | noneOf kd =>
    intro x hx hk
    obtain ⟨y, hy, hyk⟩ := hkeys kd rfl x hx hk
    exact hf y hy hyk
  | stopped c => exact fun h => hf (hrun c rfl h)

/-! ### the primitives -/

theorem find_ins (s : St) (o : Obj) (k : Key) (hk : k ≠ o.key) : find (ins s o) k = find s k := by
  unfold find ins
  simp only [List.find?_append]
  have : ¬ o.key = k := fun e => hk e.symm
  simp [this]

theorem wf_ins {s : St} (hw : WF s) (o : Obj) : WF (ins s o) := by
  intro x hx
  simp only [ins, List.mem_append, List.mem_singleton] at hx
  rcases hx with hx | rfl
  · exact Nat.lt_succ_of_lt (hw x hx)
  · exact Nat.lt_succ_self _

theorem threat_obj {k0 : Key} {f : Fact} (h : (Birth.obj k0).threatens f = false) :
    (∀ k, f.about k → k ≠ k0) ∧ (∀ kd, f = .noneOf kd → k0.kind ≠ kd) := by
  cases f <;> simp_all [Birth.threatens, Fact.about] <;> (intro e; exact h e.symm)

/-- a new object: only facts about its key (and "no object of its kind") are lost -/
theorem succ_ins (s : St) (o : Obj) : Succ [.obj o.key] s (ins s o) := by
  intro f hb hf
  obtain ⟨h1, h2⟩ := threat_obj (hb _ (List.mem_singleton.mpr rfl))
  refine holds_of_local (s := s) (s' := ins s o) f (fun _ _ h => h) ?_ (fun k hk => find_ins s o k (h1 k hk)) hf
  intro kd he x hx hk
  simp only [ins, List.mem_append, List.mem_singleton] at hx
  rcases hx with hx | rfl
  · exact ⟨x, hx, hk⟩
  · exact absurd hk (h2 kd he)

/-- what `commit` does to the store -/
theorem commit_spec {s : St} (hw : WF s) (o o' : Obj) (ho : find s o.key = some o) (hk : o'.key = o.key) :
    WF (commit s o o').1 ∧ (commit s o o').1.running = s.running ∧
    (∀ k, k ≠ o.key → find (commit s o o').1 k = find s k) ∧
    (∀ c, find (commit s o o').1 o.key = some c → c = o ∨ c = { o' with rv := s.nextRv }) ∧
    (∀ x ∈ (commit s o o').1.objs, ∃ y ∈ s.objs, y.key = x.key) := by
  unfold commit
  split
  · exact ⟨hw, rfl, fun _ _ => rfl, fun c hc => .inl (by rw [ho] at hc; exact (Option.some.inj hc).symm), fun x hx => ⟨x, hx, rfl⟩⟩
  · simp only []
    split
    · refine ⟨wf_erase (wf_bump hw) _, rfl, ?_, ?_, ?_⟩
      · intro k hne; rw [find_erase, if_neg hne]; rfl
      · intro c hc; rw [find_erase] at hc; simp at hc
      · intro x hx
        simp only [erase, List.mem_filter] at hx
        exact ⟨x, hx.1, rfl⟩
    · have hk' : ({ o' with rv := s.nextRv } : Obj).key = o.key := hk
      refine ⟨wf_put (wf_bump hw) _ (Nat.lt_succ_self _), rfl, ?_, ?_, ?_⟩
      · intro k hne
        rw [find_put, if_neg (by rw [hk']; exact hne)]; rfl
      · intro c hc
        rw [find_put, if_pos hk'.symm, find_nextRv, ho] at hc
        simp only [Option.map_some, Option.some.injEq] at hc
        exact .inr hc.symm
      · intro x hx
        simp only [put, List.mem_map] at hx
        obtain ⟨y, hy, rfl⟩ := hx
        refine ⟨y, hy, ?_⟩
        split
        · rename_i e; exact e
        · rfl

theorem threat_owners {k0 : Key} {f : Fact} (h : (Birth.owners k0).threatens f = false) : ∀ a, f ≠ .immut k0 a := by
  intro a e; subst e; simp [Birth.threatens] at h

/-- the owner references of one object change: only what was read of that object is lost -/
theorem succ_owners {s : St} (hw : WF s) (o : Obj) (ows : List ORef) (fs : List String) (ho : find s o.key = some o) :
    Succ [.owners o.key] s (commit s o { o with owners := ows, fins := fs }).1 ∧ WF (commit s o { o with owners := ows, fins := fs }).1 := by
  obtain ⟨hwf, hrun, hoth, hat, hkeys⟩ := commit_spec hw o { o with owners := ows, fins := fs } ho rfl
  refine ⟨?_, hwf⟩
  intro f hb hf
  have hne := threat_owners (hb _ (List.mem_singleton.mpr rfl))
  have hfield : ∀ c, find (commit s o { o with owners := ows, fins := fs }).1 o.key = some c → c.del = o.del ∧ c.pkgs = o.pkgs := by
    intro c hc
    rcases hat c hc with rfl | rfl <;> exact ⟨rfl, rfl⟩
  cases f with
  | gone k =>
    by_cases e : k = o.key
    · subst e; simp only [Fact.holds] at hf; rw [hf] at ho; cases ho
    · simp only [Fact.holds] at hf ⊢; rw [hoth k e]; exact hf
  | goneOrDel k =>
    by_cases e : k = o.key
    · subst e; intro c hc; rw [(hfield c hc).1]; exact hf o ho
    · simp only [Fact.holds] at hf ⊢; rw [hoth k e]; exact hf
  | immut k a =>
    by_cases e : k = o.key
    · subst e; exact absurd rfl (hne a)
    · simp only [Fact.holds] at hf ⊢; rw [hoth k e]; exact hf
  | pkgsSub ps =>
    by_cases e : lockKey = o.key
    · intro c hc p hp
      rw [e] at hc; rw [(hfield c hc).2] at hp
      exact hf o (e ▸ ho) p hp
    · simp only [Fact.holds] at hf ⊢; rw [hoth _ e]; exact hf
  | notInLock n =>
    by_cases e : lockKey = o.key
    · intro c hc hp
      rw [e] at hc; rw [(hfield c hc).2] at hp
      exact hf o (e ▸ ho) hp
    · simp only [Fact.holds] at hf ⊢; rw [hoth _ e]; exact hf
  | noneOf kd =>
    intro x hx
    obtain ⟨y, hy, hyk⟩ := hkeys x hx
    rw [← hyk]; exact hf y hy
  | stopped c => intro h; rw [hrun] at h; exact hf h

theorem threat_lock {p : String} {f : Fact} (h : (Birth.lock p).threatens f = false) :
    (∀ ps, f = .pkgsSub ps → p ∈ ps) ∧ (∀ n, f = .notInLock n → p ≠ n) := by
  constructor
  · intro ps e; subst e; simpa [Birth.threatens] using h
  · intro n e; subst e; simpa [Birth.threatens] using h

/-- a package joins the Lock -/
theorem succ_lockAdd {s : St} (hw : WF s) (l : Obj) (p : String) (hl : find s lockKey = some l) :
    Succ [.lock p] s (commit s l { l with pkgs := l.pkgs ++ [p] }).1 ∧ WF (commit s l { l with pkgs := l.pkgs ++ [p] }).1 := by
  have hlk : l.key = lockKey := find_key hl
  have ho : find s l.key = some l := by rw [hlk]; exact hl
  obtain ⟨hwf, hrun, hoth, hat, hkeys⟩ := commit_spec hw l { l with pkgs := l.pkgs ++ [p] } ho rfl
  refine ⟨?_, hwf⟩
  generalize (commit s l { l with pkgs := l.pkgs ++ [p] }).1 = X at *
  intro f hb hf
  obtain ⟨h1, h2⟩ := threat_lock (hb _ (List.mem_singleton.mpr rfl))
  rw [hlk] at hoth hat
  cases f with
  | gone k =>
    by_cases e : k = lockKey
    · subst e; simp only [Fact.holds] at hf; rw [hf] at hl; cases hl
    · simp only [Fact.holds] at hf ⊢; rw [hoth k e]; exact hf
  | goneOrDel k =>
    by_cases e : k = lockKey
    · subst e; intro c hc
      rcases hat c hc with rfl | rfl
      · exact hf _ hl
      · exact hf l hl
    · simp only [Fact.holds] at hf ⊢; rw [hoth k e]; exact hf
  | immut k a =>
    by_cases e : k = lockKey
    · subst e; intro c hc
      have hs := hf l hl
      rcases hat c hc with rfl | rfl
      · exact hs
      · exact ⟨Nat.le_trans hs.rv (Nat.le_of_lt (hw l (find_mem hl))), hs.uid, hs.of_, hs.owners, hs.refKind, hs.ofKind,
          fun _ => hs.same (.inr rfl)⟩
    · simp only [Fact.holds] at hf ⊢; rw [hoth k e]; exact hf
  | pkgsSub ps =>
    intro c hc q hq
    rcases hat c hc with rfl | rfl
    · exact hf _ hl q hq
    · simp only [List.mem_append, List.mem_singleton] at hq
      rcases hq with hq | rfl
      · exact hf l hl q hq
      · exact h1 ps rfl
  | notInLock n =>
    intro c hc hq
    rcases hat c hc with rfl | rfl
    · exact hf _ hl hq
    · simp only [List.mem_append, List.mem_singleton] at hq
      rcases hq with hq | rfl
      · exact hf l hl hq
      · exact h2 _ rfl rfl
  | noneOf kd =>
    intro x hx
    obtain ⟨y, hy, hyk⟩ := hkeys x hx
    rw [← hyk]; exact hf y hy
  | stopped c => intro h; rw [hrun] at h; exact hf h

/-- a controller is started -/
theorem succ_start (s : St) (c : String) : Succ [.start c] s { s with running := c :: s.running } := by
  intro f hb hf
  have hb := hb _ (List.mem_singleton.mpr rfl)
  refine holds_of_local (s := s) (s' := { s with running := c :: s.running }) f ?_ (fun _ _ x hx hk => ⟨x, hx, hk⟩) (fun _ _ => rfl) hf
  intro c' e h
  subst e
  simp only [List.mem_cons] at h
  rcases h with rfl | h
  · simp [Birth.threatens] at hb
  · exact h

/-! ### the creating steps of the live branches -/

theorem succ_step {s s' : St} (h : Step s s') (bs : List Birth) : Succ bs s s' ∧ WF s' := ⟨Succ.of_le h.le bs, h.wf⟩

/-- a creating step of a live branch loses only the facts its births threaten -/
theorem liveStep_succ {s : St} (hw : WF s) (l : Live) : Succ (l.births s) s (liveStep s l) ∧ WF (liveStep s l) := by
  cases l with
  | addFin k fin =>
    simp only [liveStep, Live.births]
    cases h : find s k with
    | none => exact ⟨Succ.refl _ _, hw⟩
    | some o =>
      simp only []
      split
      · exact ⟨Succ.refl _ _, hw⟩
      · have hk := find_key h
        exact succ_step (step_commit hw o { o with fins := o.fins ++ [fin] } (by rw [hk]; exact h)
          (.of_eq rfl rfl rfl rfl rfl rfl (fun h => h) (fun _ h => h) rfl rfl)) _
  | syncXR c x =>
    simp only [liveStep, Live.births]
    cases h : find s ⟨.claim, c⟩ with
    | none => exact ⟨Succ.refl _ _, hw⟩
    | some cm =>
      simp only []
      have hk := find_key h
      have st1 : Step s (commit s cm { cm with ref := x, refVer := "" }).1 :=
        step_commit hw cm _ (by rw [hk]; exact h)
          ⟨rfl, rfl, rfl, rfl, rfl, rfl, fun h => h, fun _ h => h, fun he => by rw [hk] at he; simp [editable] at he⟩
      generalize (commit s cm { cm with ref := x, refVer := "" }).1 = s1 at *
      cases h2 : find s1 ⟨.xr, x⟩ with
      | some xo =>
        simp only []
        have hk2 := find_key h2
        split
        · exact succ_step st1 _
        · have st2 : Step s1 (commit s1 xo { xo with ref := c, synced := c }).1 :=
            step_commit st1.wf xo _ (by rw [hk2]; exact h2)
              ⟨rfl, rfl, rfl, rfl, rfl, rfl, fun h => h, fun _ h => h, fun he => by rw [hk2] at he; simp [editable] at he⟩
          exact succ_step (st1.trans st2) _
      | none =>
        simp only []
        exact ⟨(Succ.of_le st1.le []).trans (succ_ins s1 { blank ⟨.xr, x⟩ s1.nextRv with ref := c, synced := c }), wf_ins st1.wf _⟩
  | applyCRD xrd off =>
    simp only [liveStep, Live.births]
    cases h : find s ⟨.xrd, xrd⟩ with
    | none => exact ⟨Succ.refl _ _, hw⟩
    | some d =>
      simp only []
      cases h2 : find s (crdOf d off) with
      | none =>
        simp only []
        exact ⟨(succ_ins s _).weaken (by intro b hb; simp only [List.mem_singleton] at hb; subst hb; simp [blank]), wf_ins hw _⟩
      | some c =>
        simp only []
        have hk := find_key h2
        have hc : find s c.key = some c := by rw [hk]; exact h2
        have hso := succ_owners hw c [⟨d.uid, true, true⟩] [] hc
        have hsw : Succ [.obj (crdOf d off), .owners (crdOf d off)] s (commit s c { c with owners := [⟨d.uid, true, true⟩], fins := [] }).1 :=
          hso.1.weaken (by intro b hb; simp only [List.mem_singleton] at hb; subst hb; rw [hk]; simp)
        split
        · exact ⟨hsw, hso.2⟩
        · split
          · exact ⟨hsw, hso.2⟩
          · exact ⟨Succ.refl _ _, hw⟩
  | start xrd off =>
    simp only [liveStep, Live.births]
    split
    · exact ⟨Succ.refl _ _, hw⟩
    · exact ⟨succ_start s _, hw⟩
  | lockAdd r =>
    simp only [liveStep, Live.births]
    cases h : find s ⟨.lock, c08LockName⟩ with
    | none =>
      simp only []
      exact ⟨(succ_ins s _).weaken (by intro b hb; simp only [List.mem_singleton] at hb; subst hb; simp [blank]), wf_ins hw _⟩
    | some l =>
      simp only []
      split
      · exact ⟨Succ.refl _ _, hw⟩
      · have := succ_lockAdd hw l r h
        exact ⟨this.1.weaken (by intro b hb; simp only [List.mem_singleton] at hb; subst hb; simp), this.2⟩
  | usageOwn u =>
    simp only [liveStep, Live.births]
    cases h : find s ⟨.usage, u⟩ with
    | none => exact ⟨Succ.refl _ _, hw⟩
    | some uo =>
      simp only []
      cases h2 : find s ⟨uo.refKind, uo.ref⟩ with
      | none => exact ⟨Succ.refl _ _, hw⟩
      | some ur =>
        simp only []
        split
        · exact ⟨Succ.refl _ _, hw⟩
        · have hk := find_key h
          have := succ_owners hw uo (uo.owners ++ [⟨ur.uid, false, false⟩]) uo.fins (by rw [hk]; exact h)
          exact ⟨this.1.weaken (by intro b hb; simp only [List.mem_singleton] at hb; subst hb; rw [hk]; simp), this.2⟩
  | usageLabel u =>
    simp only [liveStep, Live.births]
    cases h : find s ⟨.usage, u⟩ with
    | none => exact ⟨Succ.refl _ _, hw⟩
    | some uo =>
      simp only []
      cases h2 : find s ⟨uo.ofKind, uo.of⟩ with
      | none => exact ⟨Succ.refl _ _, hw⟩
      | some used =>
        simp only []
        have hk := find_key h2
        exact succ_step (step_commit hw used { used with inuse := true } (by rw [hk]; exact h2)
          (.of_eq rfl rfl rfl rfl rfl rfl (fun h => h) (fun _ h => h) rfl rfl)) _
  | status k conds =>
    simp only [liveStep, Live.births]
    cases h : find s k with
    | none => exact ⟨Succ.refl _ _, hw⟩
    | some o =>
      simp only []
      have hk := find_key h
      exact succ_step (step_commit hw o { o with conds := conds } (by rw [hk]; exact h)
        (.of_eq rfl rfl rfl rfl rfl rfl (fun h => h) (fun _ h => h) rfl rfl)) _

/-! ### the invariant with creation -/

theorem calm_of_calmB (s : Sys) (a : Act) (h : s.calmB a = true) : s.calm a := by
  simp only [Sys.calmB, Bool.and_eq_true, List.all_eq_true, Bool.or_eq_true, Bool.not_eq_true'] at h
  refine ⟨?_, ?_⟩
  · intro t ht hfl f hf b hb
    rcases h.1 t ht with h1 | h1
    · rw [hfl] at h1; cases h1
    · exact h1 f hf b hb
  · intro i j e f hf b hb
    subst e
    have := h.2
    simp only [List.all_eq_true, Bool.not_eq_true'] at this
    exact this f hf b hb


/-- the reconcile respects its guard from here on, and — while it is in flight — what it has
learned holds -/
def ThreadOK2 (st : St) (t : Thread) : Prop :=
  Always (guardH t.ctl t.name) t.hist t.prog ∧ (t.inFlight = true → ∀ f ∈ facts t.hist, f.holds st)

structure Inv2 (s : Sys) : Prop where
  wf : WF s.st
  ths : ∀ t ∈ s.ths, ThreadOK2 s.st t
  blen : s.births.length = s.past.length
  past : ∀ j p, s.past[j]? = some p → Succ (s.birthsSince j) p s.st

theorem ThreadOK2.succ {st st' : St} {t : Thread} {bs : List Birth} (hs : Succ bs st st')
    (hc : t.inFlight = true → ∀ f ∈ facts t.hist, ∀ b ∈ bs, b.threatens f = false)
    (h : ThreadOK2 st t) : ThreadOK2 st' t :=
  ⟨h.1, fun hfl f hf => hs f (fun b hb => hc hfl f hf b hb) (h.2 hfl f hf)⟩

theorem ThreadOK2.step {st st' : St} {t : Thread} (hs : Step st st') (h : ThreadOK2 st t) : ThreadOK2 st' t :=
  h.succ (Succ.of_le hs.le []) (fun _ _ _ _ hb => by cases hb)

theorem ThreadOK2.dead {st st' : St} {t : Thread} (_h : ThreadOK2 st t) : ThreadOK2 st' t.dead :=
  ⟨trivial, fun hfl => by simp [Thread.dead, Thread.inFlight] at hfl⟩

/-- what one schedule step has to establish -/
structure StepOK2 (s : Sys) (a : Act) (s' : Sys) : Prop where
  wf : WF s'.st
  ths : ∀ t ∈ s'.ths, ThreadOK2 s'.st t
  succ : Succ (a.births s) s.st s'.st

theorem stepOK2_refl (s : Sys) (a : Act) (hi : Inv2 s) : StepOK2 s a s := ⟨hi.wf, hi.ths, Succ.refl _ _⟩

theorem stepOK2_env (s : Sys) (a : Act) (st' : St) (hs : Step s.st st') (hi : Inv2 s) : StepOK2 s a { s with st := st' } :=
  ⟨hs.wf, fun t ht => (hi.ths t ht).step hs, Succ.of_le hs.le _⟩

theorem stepOK2_birth (s : Sys) (a : Act) (st' : St) (hs : Succ (a.births s) s.st st') (hw : WF st') (hi : Inv2 s)
    (hc : s.calm a) : StepOK2 s a { s with st := st' } :=
  ⟨hw, fun t ht => (hi.ths t ht).succ hs (fun hfl f hf b hb => hc.1 t ht hfl f hf b hb), hs⟩

theorem stepOK2_reply (s : Sys) (a : Act) (hb : a.births s = []) (hi : Inv2 s) (i : Nat) (t : Thread) (r : Req) (k : Resp → P)
    (hti : s.ths[i]? = some t) (hp : t.prog = .call r k) (st' : St) (x : Resp)
    (hs : Step s.st st') (hx : ∀ f ∈ learn r x, f.holds st') : StepOK2 s a (s.reply i t r k st' x) := by
  have htm : t ∈ s.ths := List.mem_of_getElem? hti
  have hok := hi.ths t htm
  have hal : guardH t.ctl t.name t.hist r ∧ ∀ x, Always (guardH t.ctl t.name) (t.hist ++ [(r, x)]) (k x) := by
    have := hok.1; rw [hp] at this; exact this
  have hfl : t.inFlight = true := by simp [Thread.inFlight, hp]
  refine ⟨hs.wf, ?_, by rw [hb]; exact Succ.of_le hs.le _⟩
  intro t' ht'
  simp only [Sys.reply] at ht' ⊢
  rcases List.mem_or_eq_of_mem_set ht' with h' | rfl
  · exact (hi.ths t' h').step hs
  · refine ⟨hal.2 x, fun _ => ?_⟩
    intro f hf
    simp only [facts_append, List.mem_append] at hf
    rcases hf with hf | hf
    · exact Fact.holds_le hs.le f (hok.2 hfl f hf)
    · exact hx f hf

theorem stepOK2_crash (s : Sys) (a : Act) (hb : a.births s = []) (hi : Inv2 s) (st' : St) (hs : Step s.st st') :
    StepOK2 s a { s with st := st', ths := s.ths.map Thread.dead } := by
  refine ⟨hs.wf, ?_, by rw [hb]; exact Succ.of_le hs.le _⟩
  intro t' ht'
  simp only [List.mem_map] at ht'
  obtain ⟨t0, h0, rfl⟩ := ht'
  exact (hi.ths t0 h0).dead

theorem stepOK2_act1 (s : Sys) (a : Act) (hi : Inv2 s) (hc : s.calm a) : StepOK2 s a (s.act1 a) := by
  cases a with
  | create o =>
    simp only [Sys.act1]
    split
    · exact stepOK2_refl s _ hi
    · exact stepOK2_birth s _ _ (succ_ins s.st o) (wf_ins hi.wf o) hi hc
  | live l =>
    have := liveStep_succ hi.wf l
    exact stepOK2_birth s _ _ this.1 this.2 hi hc
  | spawn c n =>
    refine ⟨hi.wf, ?_, Succ.refl _ _⟩
    intro t ht
    simp only [Sys.act1] at ht
    rcases List.mem_append.mp ht with ht | ht
    · exact hi.ths t ht
    · rw [List.mem_singleton.mp ht]
      exact ⟨always_program c n, by intro _ f hf; simp [facts] at hf⟩
  | del k => exact stepOK2_env s _ _ (step_deleteKey hi.wf _ _) hi
  | gc => exact stepOK2_env s _ _ (step_gcStep hi.wf) hi
  | unfin k f => exact stepOK2_env s _ _ (step_envUnfin hi.wf _ _) hi
  | edit k e => exact stepOK2_env s _ _ (step_envEdit hi.wf _ _) hi
  | step i o =>
    simp only [Sys.act1]
    cases hti : s.ths[i]? with
    | none => exact stepOK2_refl s _ hi
    | some t =>
      simp only []
      cases hp : t.prog with
      | ret a => exact stepOK2_refl s _ hi
      | call r k =>
        simp only []
        cases o with
        | ok => exact stepOK2_reply s _ rfl hi i t r k hti hp _ _ (step_exec hi.wf r) (learn_sound _ _)
        | fail =>
          exact stepOK2_reply s _ rfl hi i t r k hti hp _ _ (Step.refl hi.wf) (by rw [learn_errResp]; intro f hf; cases hf)
        | conflict =>
          exact stepOK2_reply s _ rfl hi i t r k hti hp _ _ (Step.refl hi.wf) (by rw [learn_errResp]; intro f hf; cases hf)
        | crashBefore => exact stepOK2_crash s _ rfl hi _ (step_crash hi.wf)
        | crashAfter => exact stepOK2_crash s _ rfl hi _ ((step_exec hi.wf r).trans (step_crash (step_exec hi.wf r).wf))
  | lagStep i j =>
    have hlag := hc.2 i j rfl
    simp only [Sys.act1]
    cases hti : s.ths[i]? with
    | none => exact stepOK2_refl s _ hi
    | some t =>
      simp only []
      cases hp : t.prog with
      | ret a => exact stepOK2_refl s _ hi
      | call r k =>
        simp only []
        split
        · rename_i hr
          cases hpj : s.past[j]? with
          | some p =>
            simp only []
            -- the reply comes from an earlier store: what it teaches held there, and nothing born
            -- since threatens it
            refine stepOK2_reply s _ rfl hi i t r k hti hp _ _ (Step.refl hi.wf) ?_
            intro f hf
            have h0 := learn_sound p r f hf
            rw [exec_read p r hr] at h0
            refine hi.past j p hpj f ?_ h0
            intro b hb
            refine hlag f ?_ b hb
            simp only [Sys.lagLearns, hti, hpj, hp, hr, if_true]
            exact hf
          | none =>
            simp only []
            refine stepOK2_reply s _ rfl hi i t r k hti hp _ _ (Step.refl hi.wf) ?_
            intro f hf
            have := learn_sound s.st r f hf
            rw [exec_read s.st r hr] at this
            exact this
        · exact stepOK2_reply s _ rfl hi i t r k hti hp _ _ (step_exec hi.wf r) (learn_sound _ _)

theorem birthsSince_snoc_lt (s : Sys) (bs : List Birth) (j : Nat) (hj : j ≤ s.births.length) :
    ((s.births ++ [bs]).drop j).flatten = s.birthsSince j ++ bs := by
  unfold Sys.birthsSince
  rw [List.drop_append_of_le_length hj]
  simp

theorem inv2_act (s : Sys) (a : Act) (hi : Inv2 s) (hc : s.calm a) : Inv2 (s.act a) := by
  have h := stepOK2_act1 s a hi hc
  refine ⟨h.wf, h.ths, ?_, ?_⟩
  · simp only [Sys.act, List.length_append, List.length_singleton]; rw [hi.blen]
  · intro j p hp
    simp only [Sys.act, Sys.birthsSince] at hp ⊢
    by_cases hj : j < s.past.length
    · rw [List.getElem?_append_left hj] at hp
      rw [birthsSince_snoc_lt s _ j (by rw [hi.blen]; exact Nat.le_of_lt hj)]
      exact (hi.past j p hp).trans h.succ
    · have hj' : s.past.length ≤ j := Nat.le_of_not_lt hj
      rw [List.getElem?_append_right hj'] at hp
      cases hd : j - s.past.length with
      | zero =>
        rw [hd] at hp
        simp only [List.getElem?_cons_zero, Option.some.injEq] at hp
        subst hp
        have hje : j = s.births.length := by rw [hi.blen]; omega
        rw [hje, List.drop_append_of_le_length (Nat.le_refl _), List.drop_length]
        simpa using h.succ
      | succ n => rw [hd] at hp; simp at hp

theorem inv2_run (s : Sys) (acts : List Act) (hc : Calm s acts) (hi : Inv2 s) : Inv2 (s.run acts) := by
  induction acts generalizing s with
  | nil => exact hi
  | cons a rest ih => exact ih _ hc.2 (inv2_act s a hi hc.1)

theorem inv2_init (st0 : St) (hw : WF st0) : Inv2 { st := st0, ths := [] } where
  wf := hw
  ths := by intro t ht; cases ht
  blen := rfl
  past := by intro j p hp; simp at hp

/-- In every configuration reachable from any well-formed store by ANY schedule — including
creations by users and the creating writes of the live branches of the reconcilers — that
stays outside the windows (`Calm`), the next request of every in-flight reconcile satisfies
the ordering constraint in the current state. -/
theorem safe_calm (st0 : St) (hw : WF st0) (acts : List Act) (hc : Calm { st := st0, ths := [] } acts)
    (t : Thread) (r : Req) (k : Resp → P)
    (ht : t ∈ (reach st0 acts).ths) (hp : t.prog = .call r k) :
    safeReq (reach st0 acts).st t.ctl t.name r = true := by
  have hinv : Inv2 (reach st0 acts) := inv2_run _ acts hc (inv2_init st0 hw)
  have hok := hinv.ths t ht
  have hg : guardH t.ctl t.name t.hist r := by
    have := hok.1; rw [hp] at this; exact this.1
  exact safe_of_guard _ _ _ _ _ hg (hok.2 (by simp [Thread.inFlight, hp]))

theorem births_of_not_create (s : Sys) (a : Act) (ha : a.isCreate = false) : a.births s = [] := by
  cases a <;> simp_all [Act.births, Act.isCreate]

/-- a creation-free schedule stays outside every window -/
theorem calm_of_noCreate (s : Sys) (hb : ∀ bs ∈ s.births, bs = []) (acts : List Act) (hn : ∀ a ∈ acts, a.isCreate = false) :
    Calm s acts := by
  induction acts generalizing s with
  | nil => trivial
  | cons a rest ih =>
    have ha := births_of_not_create s a (hn a (List.mem_cons_self ..))
    refine ⟨⟨?_, ?_⟩, ih _ ?_ (fun b hb => hn b (List.mem_cons_of_mem _ hb))⟩
    · intro t _ _ f _ b hbm; rw [ha] at hbm; cases hbm
    · intro i j _ f _ b hbm
      have : s.birthsSince j = [] := by
        unfold Sys.birthsSince
        rw [List.flatten_eq_nil_iff]
        exact fun l hl => hb l (List.mem_of_mem_drop hl)
      rw [this] at hbm; cases hbm
    · intro bs hbs
      simp only [Sys.act, List.mem_append, List.mem_singleton] at hbs
      rcases hbs with hbs | rfl
      · exact hb bs hbs
      · exact ha

/-! ### what one whole live reconcile can bring into the world -/

theorem liveActs_of (s : St) (c : Ctl) (n : String) : ∀ l ∈ liveActs s c n, l.of c n = true := by
  intro l hl
  cases c <;> simp only [liveActs] at hl <;> (repeat' split at hl) <;> simp_all [Live.of]
  all_goals first
    | (obtain rfl | rfl | rfl | rfl := hl <;> simp)
    | (obtain rfl | rfl | rfl := hl <;> simp)
    | (obtain rfl | rfl := hl <;> simp)

theorem births_of (c : Ctl) (n : String) (l : Live) (h : l.of c n = true) (st : St) (b : Birth) (hb : b ∈ l.births st) :
    match c with
    | .claim => ∃ x, b = .obj ⟨.xr, x⟩
    | .xr => False
    | .defined => (∃ k : Key, k.kind = .crd ∧ (b = .obj k ∨ b = .owners k)) ∨ b = .start (ctrlOf n false)
    | .offered => (∃ k : Key, k.kind = .crd ∧ (b = .obj k ∨ b = .owners k)) ∨ b = .start (ctrlOf n true)
    | .rev => b = .obj lockKey ∨ b = .lock n
    | .usage => b = .owners ⟨.usage, n⟩ := by
  cases l <;> cases c <;> simp only [Live.of, Bool.and_eq_true, Bool.or_eq_true, beq_iff_eq, Bool.not_eq_true', reduceCtorEq, false_and, and_false, false_or, or_false, true_and, and_true, Bool.false_eq_true, Bool.true_eq_false] at h <;>
    simp only [Live.births, List.mem_cons, List.not_mem_nil, or_false, List.mem_singleton] at hb ⊢
  case syncXR.claim => exact ⟨_, hb⟩
  case applyCRD.defined =>
    split at hb
    · cases hb
    · simp only [List.mem_cons, List.not_mem_nil, or_false] at hb
      exact .inl ⟨_, rfl, hb⟩
  case applyCRD.offered =>
    split at hb
    · cases hb
    · simp only [List.mem_cons, List.not_mem_nil, or_false] at hb
      exact .inl ⟨_, rfl, hb⟩
  case start.defined => obtain ⟨rfl, rfl⟩ := h; exact .inr hb
  case start.offered => obtain ⟨rfl, rfl⟩ := h; exact .inr hb
  case lockAdd.rev => subst h; exact hb
  case usageOwn.usage => subst h; exact hb

end Xp.C08

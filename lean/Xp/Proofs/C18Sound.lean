import Xp.Proofs.C18Tree
/-
C18 helper lemmas, part 2: the rule tree against Kubernetes' "covers" and against the
authorizer, for one granular request.
-/
namespace Xp.C18
open Xp.Gen

/-- the validator grants the granular sub-rule `s`: the rule Expand derives from it is
allowed by the tree built from the allow list `A` -/
def granted (A : List PolicyRule) (s : Sub) : Bool := (tree A).allowed s.toRule.path

/-- no allow-list rule carries the literal resource name `*` (defect D8 excluded) -/
def NoLiteralStar (A : List PolicyRule) : Prop := ∀ o ∈ A, wildcard ∉ o.resourceNames

/-- no allow-list rule carries the empty non-resource URL (second excluded shape) -/
def NoEmptyURL (A : List PolicyRule) : Prop := ∀ o ∈ A, "" ∉ o.nonResourceURLs

/-- allow-list rules with non-resource URLs carry no resource names (enforced for every
stored ClusterRole by the API server's ValidatePolicyRule) -/
def URLRulesNameless (A : List PolicyRule) : Prop :=
  ∀ o ∈ A, o.nonResourceURLs ≠ [] → o.resourceNames = []

/-- the request is not for the empty non-resource URL -/
def Sub.InDomain : Sub → Prop
  | .url u _ => u ≠ ""
  | .res .. => True

theorem wildcard_eq : wildcard = "*" := rfl
theorem verbAll_eq : k8sVerbAll = "*" := rfl
theorem groupAll_eq : k8sAPIGroupAll = "*" := rfl
theorem resourceAll_eq : k8sResourceAll = "*" := rfl
theorem nonResourceAll_eq : k8sNonResourceAll = "*" := rfl
theorem prefixes_differ : (prov_pathPrefixURL == prov_pathPrefixResource) = false ∧
    (prov_pathPrefixURL == wildcard) = false ∧ (prov_pathPrefixResource == prov_pathPrefixURL) = false ∧
    (prov_pathPrefixResource == wildcard) = false := by decide

theorem urlCovers_star (u : String) : urlCovers "*" u = true := by
  have h1 : endsWithStar "*" = true := by decide
  have h2 : trimRightStars "*" = "" := by decide
  have h3 : ("" : String).toList = [] := by decide
  simp [urlCovers, h1, h2, hasPrefix, h3]

theorem path_url (u v : String) (h : u ≠ "") :
    (⟨"", "", "", u, v⟩ : Rule).path = [prov_pathPrefixURL, u, v] := by
  simp [Rule.path, h]

theorem path_res (g r n v : String) :
    (⟨g, r, n, "", v⟩ : Rule).path = [prov_pathPrefixResource, g, r, n, v] := by
  simp [Rule.path]

/-- what `granted` means, by the shape of the request: some single allow-list rule matches
every component exactly or with the wildcard -/
theorem granted_cases (A : List PolicyRule) (s : Sub) (h2 : NoEmptyURL A) (h3 : s.InDomain)
    (hg : granted A s = true) :
    ∃ o ∈ A,
      match s with
      | .res g rs n v =>
          (∃ g' ∈ o.apiGroups, g' = g ∨ g' = "*") ∧ (∃ r' ∈ o.resources, r' = rs ∨ r' = "*") ∧
          (∃ n' ∈ (if o.resourceNames.isEmpty then [wildcard] else o.resourceNames),
              n' = n.getD wildcard ∨ n' = "*") ∧
          (∃ v' ∈ o.verbs, v' = v ∨ v' = "*")
      | .url u v =>
          (∃ u' ∈ o.nonResourceURLs, u' = u ∨ u' = "*") ∧ (∃ v' ∈ o.verbs, v' = v ∨ v' = "*") := by
  unfold granted at hg
  rw [tree_allowed] at hg
  simp only [List.any_eq_true] at hg
  obtain ⟨r, hr, hpm⟩ := hg
  obtain ⟨o, ho, hro⟩ := (mem_expand A r).1 hr
  refine ⟨o, ho, ?_⟩
  obtain ⟨pu, pw, ru, rw'⟩ := prefixes_differ
  rcases (mem_expandOne o r).1 hro with ⟨u', hu', v', hv', rfl⟩ | ⟨g', hg', rs', hrs', n', hn', v', hv', rfl⟩
  · have hu0 : u' ≠ "" := fun e => h2 o ho (e ▸ hu')
    rw [path_url u' v' hu0] at hpm
    cases s with
    | res g rs n v =>
      simp only [Sub.toRule, path_res, pm, pu, pw, Bool.or_self, Bool.false_and] at hpm
      exact absurd hpm (by decide)
    | url u v =>
      have hu : u ≠ "" := h3
      simp only [Sub.toRule, path_url u v hu, pm, Bool.and_true, Bool.and_eq_true, Bool.or_eq_true,
        beq_iff_eq, wildcard_eq] at hpm
      exact ⟨⟨u', hu', hpm.2.1⟩, ⟨v', hv', hpm.2.2⟩⟩
  · rw [path_res] at hpm
    cases s with
    | res g rs n v =>
      simp only [Sub.toRule, path_res, pm, Bool.and_true, Bool.and_eq_true, Bool.or_eq_true,
        beq_iff_eq, wildcard_eq] at hpm
      exact ⟨⟨g', hg', hpm.2.1⟩, ⟨rs', hrs', hpm.2.2.1⟩, ⟨n', hn', by simpa [wildcard_eq] using hpm.2.2.2.1⟩,
        ⟨v', hv', hpm.2.2.2.2⟩⟩
    | url u v =>
      have hu : u ≠ "" := h3
      simp only [Sub.toRule, path_url u v hu, pm, ru, rw', Bool.or_self, Bool.false_and] at hpm
      exact absurd hpm (by decide)

/-- the names component: with no literal `*` in the allow list, a matching name entry means
"all names" (empty list) or the very name requested -/
theorem names_component (o : PolicyRule) (n : Option String) (hstar : wildcard ∉ o.resourceNames)
    (h : ∃ n' ∈ (if o.resourceNames.isEmpty then [wildcard] else o.resourceNames),
          n' = n.getD wildcard ∨ n' = "*") :
    match n with
    | none => o.resourceNames.isEmpty = true
    | some x => o.resourceNames.isEmpty = true ∨ x ∈ o.resourceNames := by
  obtain ⟨n', hn', hm⟩ := h
  by_cases he : o.resourceNames.isEmpty = true
  · cases n <;> simp [he]
  · rw [if_neg he] at hn'
    have hne : n' ≠ "*" := fun e => hstar (by rw [wildcard_eq, ← e]; exact hn')
    cases n with
    | none =>
      rcases hm with hm | hm
      · exact absurd (by simpa [wildcard_eq] using hm) hne
      · exact absurd hm hne
    | some x =>
      rcases hm with hm | hm
      · right; simpa [hm] using hn'
      · exact absurd hm hne

/-- tree ⊑ Kubernetes covers, for one granular request -/
theorem tree_sound_core (A : List PolicyRule) (s : Sub)
    (h1 : NoLiteralStar A) (h2 : NoEmptyURL A) (h4 : URLRulesNameless A) (h3 : s.InDomain)
    (hg : granted A s = true) : covers A s = true := by
  obtain ⟨o, ho, hc⟩ := granted_cases A s h2 h3 hg
  simp only [covers, List.any_eq_true]
  refine ⟨o, ho, ?_⟩
  cases s with
  | res g rs n v =>
    obtain ⟨⟨g', hg', hgm⟩, ⟨r', hr', hrm⟩, hn, ⟨v', hv', hvm⟩⟩ := hc
    have hN := names_component o n (h1 o ho) hn
    simp only [ruleCovers, resourceCovers, Bool.and_eq_true, Bool.or_eq_true, List.contains_iff_mem,
      verbAll_eq, groupAll_eq, resourceAll_eq]
    refine ⟨⟨⟨?_, ?_⟩, ?_⟩, ?_⟩
    · rcases hvm with e | e
      · right; exact e ▸ hv'
      · left; exact e ▸ hv'
    · rcases hgm with e | e
      · right; exact e ▸ hg'
      · left; exact e ▸ hg'
    · rcases hrm with e | e
      · left; right; exact e ▸ hr'
      · left; left; exact e ▸ hr'
    · cases n with
      | none => exact hN
      | some x =>
        simp only [Bool.or_eq_true, List.contains_iff_mem]
        exact hN
  | url u v =>
    obtain ⟨⟨u', hu', hum⟩, ⟨v', hv', hvm⟩⟩ := hc
    have hne : o.nonResourceURLs ≠ [] := fun e => by rw [e] at hu'; cases hu'
    simp only [ruleCovers, Bool.and_eq_true, Bool.or_eq_true, List.contains_iff_mem, verbAll_eq,
      List.any_eq_true]
    refine ⟨⟨?_, ?_⟩, ?_⟩
    · rcases hvm with e | e
      · right; exact e ▸ hv'
      · left; exact e ▸ hv'
    · simp [h4 o ho hne]
    · refine ⟨u', hu', ?_⟩
      rcases hum with e | e
      · simp [urlCovers, e]
      · rw [e]; exact urlCovers_star u

/-- tree ⊑ authorizer: whatever the granted sub-rule allows, some allow-list rule allows -/
theorem tree_sound_semantic_core (A : List PolicyRule) (s : Sub)
    (h1 : NoLiteralStar A) (h2 : NoEmptyURL A) (h3 : s.InDomain)
    (hg : granted A s = true) (a : Attr) (ha : ruleAllows s.asRule a = true) :
    ∃ o ∈ A, ruleAllows o a = true := by
  obtain ⟨o, ho, hc⟩ := granted_cases A s h2 h3 hg
  refine ⟨o, ho, ?_⟩
  cases s with
  | res g rs n v =>
    obtain ⟨⟨g', hg', hgm⟩, ⟨r', hr', hrm⟩, hn, ⟨v', hv', hvm⟩⟩ := hc
    have hN := names_component o n (h1 o ho) hn
    cases a with
    | nonres va pa => simp [ruleAllows, Sub.asRule] at ha
    | res va ga ra suba na =>
      simp only [ruleAllows, Sub.asRule, List.any_cons, List.any_nil, Bool.or_false, Bool.and_eq_true,
        Bool.or_eq_true, beq_iff_eq, verbAll_eq, groupAll_eq] at ha
      obtain ⟨⟨⟨hva, hga⟩, hra⟩, hna⟩ := ha
      simp only [ruleAllows, Bool.and_eq_true, List.any_eq_true, Bool.or_eq_true, beq_iff_eq,
        verbAll_eq, groupAll_eq]
      refine ⟨⟨⟨⟨v', hv', ?_⟩, ⟨g', hg', ?_⟩⟩, ⟨r', hr', ?_⟩⟩, ?_⟩
      · rcases hvm with e | e
        · rcases hva with h | h
          · left; rw [e, h]
          · right; rw [e, h]
        · left; exact e
      · rcases hgm with e | e
        · rcases hga with h | h
          · left; rw [e, h]
          · right; rw [e, h]
        · left; exact e
      · rcases hrm with e | e
        · rw [e]; exact hra
        · rw [e]; simp [resourceMatches, resourceAll_eq]
      · cases n with
        | none => left; exact hN
        | some x =>
          simp only [Option.toList_some, List.isEmpty_cons, Bool.false_eq_true, false_or,
            List.contains_iff_mem, List.mem_singleton] at hna
          rcases hN with h | h
          · left; exact h
          · right; rw [List.contains_iff_mem, hna]; exact h
  | url u v =>
    obtain ⟨⟨u', hu', hum⟩, ⟨v', hv', hvm⟩⟩ := hc
    cases a with
    | res va ga ra suba na => simp [ruleAllows, Sub.asRule] at ha
    | nonres va pa =>
      simp only [ruleAllows, Sub.asRule, List.any_cons, List.any_nil, Bool.or_false, Bool.and_eq_true,
        Bool.or_eq_true, beq_iff_eq, verbAll_eq] at ha
      obtain ⟨hva, hua⟩ := ha
      simp only [ruleAllows, Bool.and_eq_true, List.any_eq_true, Bool.or_eq_true, beq_iff_eq, verbAll_eq]
      refine ⟨⟨v', hv', ?_⟩, ⟨u', hu', ?_⟩⟩
      · rcases hvm with e | e
        · rcases hva with h | h
          · left; rw [e, h]
          · right; rw [e, h]
        · left; exact e
      · rcases hum with e | e
        · rw [e]; exact hua
        · rw [e]; simp [urlMatches, nonResourceAll_eq]


/-! ## the exact decision of the tree -/

/-- one allow-list rule grants the granular request: every component is listed literally
or as the wildcard (no names listed = the wildcard) -/
def ruleGrants (o : PolicyRule) : Sub → Bool
  | .res g rs n v =>
      o.apiGroups.any (fun x => x == g || x == wildcard) &&
      o.resources.any (fun x => x == rs || x == wildcard) &&
      (if o.resourceNames.isEmpty then [wildcard] else o.resourceNames).any
        (fun x => x == n.getD wildcard || x == wildcard) &&
      o.verbs.any (fun x => x == v || x == wildcard)
  | .url u v =>
      o.nonResourceURLs.any (fun x => x == u || x == wildcard) &&
      o.verbs.any (fun x => x == v || x == wildcard)

/-- the tree grants exactly what some single allow-list rule grants component-wise -/
theorem granted_eq (A : List PolicyRule) (s : Sub) (h2 : NoEmptyURL A) (h3 : s.InDomain) :
    granted A s = A.any (ruleGrants · s) := by
  rw [Bool.eq_iff_iff]
  constructor
  · intro hg
    obtain ⟨o, ho, hc⟩ := granted_cases A s h2 h3 hg
    rw [List.any_eq_true]
    refine ⟨o, ho, ?_⟩
    cases s with
    | res g rs n v =>
      obtain ⟨⟨g', hg', hgm⟩, ⟨r', hr', hrm⟩, ⟨n', hn', hnm⟩, ⟨v', hv', hvm⟩⟩ := hc
      simp only [ruleGrants, Bool.and_eq_true, List.any_eq_true, Bool.or_eq_true, beq_iff_eq, wildcard_eq]
      exact ⟨⟨⟨⟨g', hg', hgm⟩, ⟨r', hr', hrm⟩⟩, ⟨n', by simpa [wildcard_eq] using hn', by simpa [wildcard_eq] using hnm⟩⟩,
        ⟨v', hv', hvm⟩⟩
    | url u v =>
      obtain ⟨⟨u', hu', hum⟩, ⟨v', hv', hvm⟩⟩ := hc
      simp only [ruleGrants, Bool.and_eq_true, List.any_eq_true, Bool.or_eq_true, beq_iff_eq, wildcard_eq]
      exact ⟨⟨u', hu', hum⟩, ⟨v', hv', hvm⟩⟩
  · intro h
    rw [List.any_eq_true] at h
    obtain ⟨o, ho, hgr⟩ := h
    unfold granted
    rw [tree_allowed, List.any_eq_true]
    cases s with
    | res g rs n v =>
      simp only [ruleGrants, Bool.and_eq_true, List.any_eq_true, Bool.or_eq_true, beq_iff_eq] at hgr
      obtain ⟨⟨⟨⟨g', hg', hgm⟩, ⟨r', hr', hrm⟩⟩, ⟨n', hn', hnm⟩⟩, ⟨v', hv', hvm⟩⟩ := hgr
      refine ⟨⟨g', r', n', "", v'⟩, (mem_expand A _).2 ⟨o, ho, (mem_expandOne o _).2 (Or.inr ⟨g', hg', r', hr', n', hn', v', hv', rfl⟩)⟩, ?_⟩
      simp only [Sub.toRule, path_res, pm, Bool.and_true, Bool.and_eq_true, Bool.or_eq_true, beq_iff_eq]
      exact ⟨Or.inl trivial, hgm, hrm, hnm, hvm⟩
    | url u v =>
      have hu : u ≠ "" := h3
      simp only [ruleGrants, Bool.and_eq_true, List.any_eq_true, Bool.or_eq_true, beq_iff_eq] at hgr
      obtain ⟨⟨u', hu', hum⟩, ⟨v', hv', hvm⟩⟩ := hgr
      have hu0 : u' ≠ "" := fun e => h2 o ho (e ▸ hu')
      refine ⟨⟨"", "", "", u', v'⟩, (mem_expand A _).2 ⟨o, ho, (mem_expandOne o _).2 (Or.inl ⟨u', hu', v', hv', rfl⟩)⟩, ?_⟩
      simp only [Sub.toRule, path_url u' v' hu0, path_url u v hu, pm, Bool.and_true, Bool.and_eq_true,
        Bool.or_eq_true, beq_iff_eq]
      exact ⟨Or.inl trivial, hum, hvm⟩

/-! ## from the rejected list to the granular statement -/

theorem toRule_mem_expandOne (q : PolicyRule) (s : Sub) (hs : s ∈ breakdown q) :
    s.toRule ∈ expandOne q := by
  rw [mem_expandOne]
  unfold breakdown at hs
  simp only [List.mem_append, List.mem_flatMap, List.mem_map] at hs
  rcases hs with ⟨g, hg, rs, hrs, v, hv, hs⟩ | ⟨u, hu, v, hv, rfl⟩
  · right
    by_cases he : q.resourceNames.isEmpty = true
    · rw [if_pos he, List.mem_singleton] at hs
      subst hs
      exact ⟨g, hg, rs, hrs, wildcard, by simp [he], v, hv, rfl⟩
    · rw [if_neg he, List.mem_map] at hs
      obtain ⟨n, hn, rfl⟩ := hs
      exact ⟨g, hg, rs, hrs, n, by simp [he, hn], v, hv, rfl⟩
  · left
    exact ⟨u, hu, v, hv, rfl⟩

/-- nothing rejected ⇒ every granular sub-rule of every request is granted -/
theorem granted_of_validate_nil (A reqs : List PolicyRule) (h : validate A reqs = [])
    (q : PolicyRule) (hq : q ∈ reqs) (s : Sub) (hs : s ∈ breakdown q) : granted A s = true := by
  unfold validate at h
  rw [List.filter_eq_nil_iff] at h
  have hm : s.toRule ∈ expand reqs := (mem_expand reqs _).2 ⟨q, hq, toRule_mem_expandOne q s hs⟩
  have := h _ hm
  simpa [granted] using this

end Xp.C18
